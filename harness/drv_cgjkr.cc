// C15 / C16 (area "cgjkr"): the classes of src/CanettiGennaroJareckiKrawczykRabinASTC.cc -- joint
// verifiable secret sharing (RVSS), joint sharing of zero (ZVSS), key generation with share refresh
// (DKG::Generate / Refresh) and threshold DSS (DSS::Generate / Refresh / Sign / Verify) -- run by n
// forked parties over pipes (aiounicast_select + CachinKursawePetzoldShoupRBC, as tests/t-astc2.cc).
// Scaffolding (virtual clock, tapped channels, deviation scripts) as in drv_dkg.cc.
//
// Run kinds and their lines:
//
//  kind gen:   DKG::Generate by all n parties, then DKG::Refresh(n, i) by all n parties
//  kind sign:  DSS::Generate (all), DSS::Sign(m1) (all), DSS::Refresh (the parties SUB), DSS::Sign(m2) (SUB);
//              SUB is the whole set or a reduced set of signers (index maps as tests/t-astc2.cc)
//
//  trace lines (recomputed by the Lean model Tmcg/Model/Cgjkr.lean):
//   cgjkr.gen n t p q g h (STRONG WEAK DEV){n} => OUT{n}
//       OUT = ret|[QUAL]|x_i|xprime_i|y|[QUAL of x_rvss]|[C_00..C_(n-1)t]     `-`: the party died,  `*`: masked
//   cgjkr.refresh n t p q g h [SUB] (x_i xprime_i [C_..] [QUAL] STRONG WEAK DEV){n} => OUT{n}
//       (the state before the call is an input: what the real party held)
//       OUT = ret|[QUAL]|x_i|xprime_i|[C_00..]     `.`: not in SUB, `-`: died, `*`: masked
//   cgjkr.sign n t p q g h MSG [SUB] (x_i xprime_i [C_..] [QUAL of x_rvss] STRONG DEV){n} => OUT{n}
//       (one line per DSS::Sign call; x_i, x'_i of the DSS object, C_ik and QUAL of dkg->x_rvss before the call)
//       OUT = ret|r|s|nops|digest|[checkpoints]: the number of output operations of the party (broadcasts and
//       private values), a running digest of their values in program order and the digest after every broadcast
//       made under the identifier of Sign itself (see ChildCtx::dg_add)     `.`: not in SUB, `-`: died
//   STRONG = the values of the party's tmcg_mpz_srandomm(.,q) draws in order, WEAK = the protocol level
//   `tmcg_mpz_wrandom_ui() % 2` draws in order (those of the reliable broadcast are filtered out),
//   DEV = `-` (honest) or items joined by `;` (as drv_dkg.cc):
//       S  Z,k  O,j,k,d  I,j,k,d  A,g,k,d  D,g,k  N,g,k,v  M,g,k,m,p
//       (g,k) addresses the party's own Broadcast calls: g = number of end markers (payload n) it has
//       broadcast before in this library call, k = number of calls since the last of them;
//       LA,l,k,d / LD,l,k (sign steps only): the k-th Broadcast call made at identifier nesting depth l
//       (1 = the identifier of the library call itself) is increased by d / dropped
//       ZC,a,b (sign steps only): the party's strong draws number a .. b-1 of the call are 0
//
//  summary lines for the direct predicates (all fields of every party; `-` = the party died / no report):
//   prop.cgjkr.gen seed= case= n= t= p q g h honest=[..] tag:.. => Pi:ret|[QUAL]|x|xp|y|[xQUAL]|[C..] ..
//   prop.cgjkr.refresh seed= case= n= t= p q g h sub=[..] honest=[..] tag:.. =>
//        Pi:genret|x0|xp0|y0|[QUAL0]|refret|[QUAL1]|x1|xp1|y1|[xQUAL1]|[C1..]       (`.` for parties outside sub)
//   prop.cgjkr.sign seed= case= n= t= p q g h m= step=1|2 sub=[..] refreshed=0|1 honest=[..] tag:.. =>
//        Pi:genret|[QUAL]|x|xp|y|signret|r|s|verify     (state right before the Sign call; verify = library verdict)
//   prop.cgjkr.vss2 seed= case= n= t= p q g h sigma= honest=[..] tag:.. => Pi:shareret|rec1ret|value1|rec2ret|value2
//        (kind vss2, only with `--kind vss2`: the back-up sharing `k_i_vss[dealer = 0]` of Sign step 1c, then
//         PedersenVSS::Reconstruct twice under one enclosing broadcast identifier, as Sign steps 1e and 2e do for
//         a signer that fails the product proof both times)
//
// Time: see drv_dkg.cc (virtual clock that ticks at global quiescence).  The binary has one time(): the one
// of drv_dkg.cc; install_clock() redirects its entry to the clock of this driver in the party processes
// of this driver only (as drv_jl.cc does).
#include "common.hh"
#include <aiounicast_select.hh>
#include <atomic>
#include <map>
#include <set>
#include <algorithm>
#include <sys/mman.h>
#include <sys/wait.h>
#include <unistd.h>
#include <fcntl.h>
#include <signal.h>
#include <dlfcn.h>
#include <time.h>

namespace cgdrv {

static const int MAXN = 8;
struct Shared {
	std::atomic<uint64_t> polls[MAXN];
	std::atomic<uint64_t> ticks;
	std::atomic<int> alive[MAXN];
	std::atomic<int> done[MAXN];
};
static Shared *g_sh = nullptr;
static int g_me = -1, g_n = 0;
static const uint64_t VC_K = 48;
static const time_t VC_BASE = 1700000000;
static const time_t VC_TIMEOUT = 2;       // ticks: private channel
static const time_t VC_TIMEOUT_RBC = 8;   // ticks: reliable broadcast
static const time_t VC_PATIENT = 16;      // factor for a party that drops broadcasts

static void vc_activity()
{
	if (g_sh) for (int k = 0; k < g_n; k++) g_sh->polls[k].store(0, std::memory_order_relaxed);
}
static void vc_idle()
{
	Shared *s = g_sh; if (!s) return;
	uint64_t cur = s->ticks.load();
	uint64_t p = s->polls[g_me].fetch_add(1) + 1;
	if (p >= VC_K) {
		bool all = true;
		for (int k = 0; k < g_n; k++) if (s->alive[k].load() && s->polls[k].load() < VC_K) { all = false; break; }
		if (all && s->ticks.compare_exchange_strong(cur, cur + 1))
			for (int k = 0; k < g_n; k++) s->polls[k].store(0);
	}
	if (p > 4) usleep(40);
}
static uint64_t g_time_run = 0;
static void vc_touch() { g_time_run = 0; }
static time_t vc_time() { if (++g_time_run > 4000) vc_idle(); return VC_BASE + (time_t)g_sh->ticks.load(); }

// DeliverFrom(j) does not look at the channels while values of j delivered under another identifier are
// still buffered (a party the others have disqualified but which keeps talking leaves such values): it
// spins on time() until its time-out, and whether the value it waits for is already in the buffer then
// depends on who pumped the broadcast when.  The harness takes that timing dependence out: after 256
// time() calls in a row without any channel access it makes the one Deliver step DeliverFrom would make
// if nothing were buffered (see `abstractions` in the report; the spinning itself is a known finding of
// the broadcast area).
static bool g_in_pump = false;
static void spin_pump();
static bool g_probe = false;
static time_t cg_time(time_t *out)
{
	time_t r;
	g_probe = true;
	if (g_sh) { r = vc_time(); if (g_time_run > 256 && !g_in_pump) { g_in_pump = true; spin_pump(); g_in_pump = false; r = VC_BASE + (time_t)g_sh->ticks.load(); } }
	else { struct timespec ts; clock_gettime(CLOCK_REALTIME, &ts); r = ts.tv_sec; }
	if (out) *out = r;
	return r;
}

} // namespace

extern "C" __attribute__((weak)) time_t time(time_t *out) { return cgdrv::cg_time(out); }

namespace cgdrv {

static bool install_clock()
{
	g_probe = false;
	time_t (*volatile fn)(time_t*) = &time;
	fn(NULL);
	if (g_probe) return true;
#if defined(__x86_64__)
	unsigned char *entry = (unsigned char*)(void*)fn;
	long ps = sysconf(_SC_PAGESIZE);
	uintptr_t a = (uintptr_t)entry & ~(uintptr_t)(ps - 1);
	if (mprotect((void*)a, (size_t)(2 * ps), PROT_READ | PROT_WRITE | PROT_EXEC) != 0) return false;
	unsigned char code[12] = { 0x48, 0xB8, 0, 0, 0, 0, 0, 0, 0, 0, 0xFF, 0xE0 };
	uintptr_t target = (uintptr_t)(void*)&cg_time;
	memcpy(code + 2, &target, 8);
	memcpy(entry, code, sizeof code);
	mprotect((void*)a, (size_t)(2 * ps), PROT_READ | PROT_EXEC);
	g_probe = false; fn(NULL);
	return g_probe;
#else
	return false;
#endif
}

// ------------------------------------------------------------------ deviation scripts
typedef std::pair<int, int> IP;
struct Dev {
	bool sfb = false; long silent = -1;
	std::map<IP, std::string> po, pi;
	std::map<IP, std::pair<std::string, std::string> > bm;
	std::map<IP, std::string> ba; std::set<IP> bd; std::map<IP, std::vector<std::string> > bi;
	std::map<IP, std::string> la; std::set<IP> ld;
	std::vector<IP> zc;
	std::string text;
	void item(const std::string &s) { if (!text.empty()) text += ";"; text += s; }
	void S() { sfb = true; item("S"); }
	void Zk(long k) { silent = k; item("Z," + std::to_string(k)); }
	void O(int j, int k, const std::string &d) { po[IP(j, k)] = d; item("O," + std::to_string(j) + "," + std::to_string(k) + "," + d); }
	void I(int j, int k, const std::string &d) { pi[IP(j, k)] = d; item("I," + std::to_string(j) + "," + std::to_string(k) + "," + d); }
	void A(int g, int k, const std::string &d) { ba[IP(g, k)] = d; item("A," + std::to_string(g) + "," + std::to_string(k) + "," + d); }
	void M(int g, int k, const std::string &m, const std::string &p) { bm[IP(g, k)] = std::make_pair(m, p); item("M," + std::to_string(g) + "," + std::to_string(k) + "," + m + "," + p); }
	void D(int g, int k) { bd.insert(IP(g, k)); item("D," + std::to_string(g) + "," + std::to_string(k)); }
	void N(int g, int k, const std::string &v) { bi[IP(g, k)].push_back(v); item("N," + std::to_string(g) + "," + std::to_string(k) + "," + v); }
	void LA(int l, int k, const std::string &d) { la[IP(l, k)] = d; item("LA," + std::to_string(l) + "," + std::to_string(k) + "," + d); }
	void LD(int l, int k) { ld.insert(IP(l, k)); item("LD," + std::to_string(l) + "," + std::to_string(k)); }
	void ZC(int a, int b) { zc.push_back(IP(a, b)); item("ZC," + std::to_string(a) + "," + std::to_string(b)); }
	std::string str() const { return text.empty() ? "-" : text; }
	bool honest() const { return text.empty(); }
	bool patient() const { return !bd.empty() || !ld.empty(); }
};

// ------------------------------------------------------------------ coin classification
enum Ev { EV_NONE, EV_PRIV_SEND, EV_BC_FIRST, EV_BC_MID, EV_BC_LAST, EV_OTHER };
struct CoinTap {
	Z q; std::vector<std::string> strong; std::vector<int> weak; int head = 0;
	std::map<IP, int> expect;   // protocol level weak draws made right before the Broadcast call (g,k)
	// The reliable broadcast draws from the same source, a number of values that depends on timing.  To keep
	// the protocol's own draws reproducible the source is reseeded at every channel event with a value that
	// depends on the position in the protocol only (library call, number of strong draws and of output
	// operations so far).
	uint64_t base = 0; const long *ops = nullptr; const int *step = nullptr;
	const std::vector<IP> *zc = nullptr;   // `ZC,a,b`: the party's strong draws number a .. b-1 of this call are 0
	void begin(int head_count) { drain(EV_OTHER, IP(-1, -1)); head = head_count; expect.clear(); }
	void drain(Ev ev, IP at)
	{
		std::vector<CoinLogEntry> es = coins.take();
		std::vector<uint64_t> gap;
		for (auto &e : es) {
			if (e.level != 0) {
				Z v; mpz_import(v, e.bytes.size(), 1, 1, 1, 0, e.bytes.data()); mpz_mod(v, v, q);
				strong.push_back(v.str());
			} else if (e.bytes.size() == 8) {
				uint64_t w; memcpy(&w, e.bytes.data(), 8);
				if (head > 0) { weak.push_back((int)(w % 2)); head--; } else gap.push_back(w);
			}
		}
		// the sender's loop of Broadcast draws five values before its first Send
		if (ev == EV_BC_FIRST) {
			auto it = expect.find(at);
			if (it != expect.end() && (int)gap.size() >= 5 + it->second)
				for (size_t i = gap.size() - 5 - (size_t)it->second; i + 5 < gap.size(); i++) weak.push_back((int)(gap[i] % 2));
		}
		if (ops && step) {
			SplitMix mx(base + 0x9e3779b97f4a7c15ULL * (uint64_t)(*step) + 0xc2b2ae3d27d4eb4fULL * (uint64_t)strong.size() + 0x165667b19e3779f9ULL * (uint64_t)(*ops));
			coins.reseed(mx.next());
			if (zc) for (auto &iv : *zc) if ((int)strong.size() >= iv.first && (int)strong.size() < iv.second) { coins.script.assign(1 << 14, 0); coins.script_pos = 0; }
		}
	}
	std::string strong_s() const { std::string s = "["; for (size_t i = 0; i < strong.size(); i++) { if (i) s += ","; s += strong[i]; } return s + "]"; }
	std::string weak_s() const { std::string s = "["; for (size_t i = 0; i < weak.size(); i++) { if (i) s += ","; s += std::to_string(weak[i]); } return s + "]"; }
};

// ------------------------------------------------------------------ the party process
struct ChildCtx {
	int n = 0, me = 0; int report_fd = -1;
	Dev dev; bool dev_active = false;
	CoinTap tap;
	CachinKursawePetzoldShoupRBC *rbc = nullptr;
	long ops = 0; int seg = 0, off = 0; IP bc_cur = IP(-1, -1); IP lv_cur = IP(-1, -1); bool in_insert = false;
	size_t depth0 = 0; std::map<int, int> lv_cnt;
	std::map<int, int> po_cnt, pi_cnt;
	std::string step_name;
	// digest of everything the party hands to the network in this library call (what the Lean model of Sign
	// recomputes): h <- (h * 1000003 + (v mod (2^61-1)) + kind) mod (2^61-1), kind 1 = broadcast, 2+j = private
	// value for party j; a checkpoint after every broadcast made under the identifier of the call itself
	uint64_t dg = 7; std::vector<uint64_t> dcps; long dn = 0;
	void dg_add(mpz_srcptr v, unsigned kind)
	{
		const uint64_t P = ((uint64_t)1 << 61) - 1;
		uint64_t r = mpz_fdiv_ui(v, P);
		unsigned __int128 x = (unsigned __int128)dg * 1000003u + r + kind;
		dg = (uint64_t)(x % P); dn++;
	}
	std::string dg_s() const { std::string c = "["; for (size_t k = 0; k < dcps.size(); k++) { if (k) c += ","; c += std::to_string(dcps[k]); }
		return " nops=" + std::to_string(dn) + " dg=" + std::to_string(dg) + " cps=" + c + "]"; }

	void report(const std::string &s) { std::string t = s + "\n"; size_t off = 0; while (off < t.size()) { ssize_t w = write(report_fd, t.data() + off, t.size() - off); if (w <= 0) break; off += (size_t)w; } }
	uint64_t seed_base = 0; int step_no = 0;
	void begin_step(const std::string &name, const Dev &d, int head, CachinKursawePetzoldShoupRBC *r)
	{
		coins.reseed(seed_base + 0x9e3779b97f4a7c15ULL * (uint64_t)(++step_no));
		// every library call runs under its own enclosing broadcast identifier (the identifiers of the library
		// carry no session counter: two calls with equal parameters, e.g. two Sign calls for the same message,
		// would otherwise reuse identifier and sequence numbers; CGJKR_SAMEID=1 switches this off)
		if (!getenv("CGJKR_SAMEID")) r->setID("drv-cgjkr call " + name);
		rbc = r; depth0 = r->last_IDs.size(); lv_cnt.clear();
		dev = d; dev_active = true; ops = 0; seg = 0; off = 0; bc_cur = IP(-1, -1); po_cnt.clear(); pi_cnt.clear();
		tap.strong.clear(); tap.weak.clear();
		dg = 7; dcps.clear(); dn = 0;
		tap.base = seed_base; tap.ops = &ops; tap.step = &step_no; tap.zc = &dev.zc;
		tap.begin(head);
		step_name = name;
	}
	void die()
	{
		g_sh->alive[me].store(0);
		report("dead step=" + step_name + " strong=" + tap.strong_s() + " weak=" + tap.weak_s());
		_exit(0);
	}
	void out_op() { if (dev_active && dev.silent >= 0 && ops >= dev.silent) die(); ops++; }
};

static void pump_rbc(CachinKursawePetzoldShoupRBC *rbc);
static ChildCtx *g_cx = nullptr;
static void spin_pump() { if (g_cx && g_cx->rbc) pump_rbc(g_cx->rbc); else g_time_run = 0; }
class tap_unicast : public aiounicast
{
	public:
		aiounicast_select *inner; ChildCtx *cx;
		tap_unicast(size_t n_in, size_t j_in, aiounicast_select *in, ChildCtx *cx_in, time_t tmo):
			aiounicast(n_in, j_in, aio_scheduler_roundrobin, tmo, false, false, false), inner(in), cx(cx_in) {}
		virtual bool Send(mpz_srcptr m, const size_t i_in, const time_t timeout = aio_timeout_default)
		{
			vc_touch();
			cx->tap.drain(EV_PRIV_SEND, IP(-1, -1));
			cx->out_op();
			Z v; mpz_set(v, m);
			if (cx->dev_active) {
				int k = cx->po_cnt[(int)i_in]++;
				auto it = cx->dev.po.find(IP((int)i_in, k));
				if (it != cx->dev.po.end()) { Z d(it->second.c_str()); mpz_add(v, v, d); }
				cx->dg_add(v, 2 + (unsigned)i_in);
			}
			vc_activity();
			return inner->Send(v, i_in, timeout);
		}
		virtual bool Send(const std::vector<mpz_srcptr> &m, const size_t i_in, const time_t timeout = aio_timeout_default)
		{
			vc_touch();
			bool rsend = (m.size() == 5) && (mpz_cmp_ui(m[3], 1UL) == 0);
			if (!rsend || cx->in_insert || !cx->dev_active) {
				if (!cx->in_insert) cx->tap.drain(EV_OTHER, IP(-1, -1));
				vc_activity();
				return inner->Send(m, i_in, timeout);
			}
			if (i_in == 0) {
				cx->tap.drain(EV_BC_FIRST, IP(cx->seg, cx->off)); cx->out_op(); cx->bc_cur = IP(cx->seg, cx->off);
				if (mpz_cmp_ui(m[4], (unsigned long)n) == 0) { cx->seg++; cx->off = 0; } else cx->off++;
				int lv = (int)cx->rbc->last_IDs.size() - (int)cx->depth0;
				cx->lv_cur = IP(lv, cx->lv_cnt[lv]++);
			}
			else cx->tap.drain(i_in + 1 == n ? EV_BC_LAST : EV_BC_MID, IP(-1, -1));
			IP k = cx->bc_cur; bool ok = true;
			bool drop = cx->dev.bd.count(k) > 0 || cx->dev.ld.count(cx->lv_cur) > 0;
			if (!drop) {
				Z v; mpz_set(v, m[4]);
				auto it = cx->dev.ba.find(k);
				if (it != cx->dev.ba.end()) { Z d(it->second.c_str()); mpz_add(v, v, d); }
				auto il = cx->dev.la.find(cx->lv_cur);
				if (il != cx->dev.la.end()) { Z d(il->second.c_str()); mpz_add(v, v, d); }
				auto im = cx->dev.bm.find(k);
				if (im != cx->dev.bm.end()) { Z f(im->second.first.c_str()), pm(im->second.second.c_str()); mpz_mul(v, v, f); mpz_mod(v, v, pm); }
				std::vector<mpz_srcptr> mm(m); mm[4] = v;
				if (i_in == 0) { cx->dg_add(v, 1); if (cx->lv_cur.first == 1) cx->dcps.push_back(cx->dg); }
				vc_activity();
				ok = inner->Send(mm, i_in, timeout);
			}
			if (i_in + 1 == n) {
				if (drop) mpz_sub_ui(cx->rbc->s, cx->rbc->s, 1UL);  // the skipped call leaves no gap in the sequence numbers
				auto it = cx->dev.bi.find(k);
				if (it != cx->dev.bi.end()) {
					cx->in_insert = true;
					for (auto &vs : it->second) { Z z(vs.c_str()); cx->rbc->Broadcast(z); }
					cx->in_insert = false;
					coins.take();
				}
			}
			return ok;
		}
		virtual bool Receive(mpz_ptr m, size_t &i_out, const size_t scheduler = aio_scheduler_default, const time_t timeout = aio_timeout_default)
		{
			cx->tap.drain(EV_OTHER, IP(-1, -1));
			time_t tmo = (timeout == aio_timeout_default) ? aio_default_timeout : timeout;
			time_t entry = time(NULL); bool ok = false;
			do { vc_touch(); ok = inner->Receive(m, i_out, scheduler, 0); if (!ok) { vc_idle(); if (cx->rbc) pump_rbc(cx->rbc); } } while (!ok && time(NULL) < entry + tmo);
			if (ok) {
				vc_activity();
				if (cx->dev_active && i_out < n) {
					int k = cx->pi_cnt[(int)i_out]++;
					auto it = cx->dev.pi.find(IP((int)i_out, k));
					if (it != cx->dev.pi.end()) { Z d(it->second.c_str()); mpz_add(m, m, d); }
				}
			}
			return ok;
		}
		virtual bool Receive(std::vector<mpz_ptr> &m, size_t &i_out, const size_t scheduler = aio_scheduler_default, const time_t timeout = aio_timeout_default)
		{
			if (!cx->in_insert) cx->tap.drain(EV_OTHER, IP(-1, -1));
			time_t tmo = (timeout == aio_timeout_default) ? aio_default_timeout : timeout;
			time_t entry = time(NULL); bool ok = false;
			do { vc_touch(); ok = inner->Receive(m, i_out, scheduler, 0); if (!ok) vc_idle(); } while (!ok && time(NULL) < entry + tmo);
			if (ok) vc_activity();
			return ok;
		}
		virtual void Reset(const size_t i_in, const bool input) { inner->Reset(i_in, input); }
		virtual ~tap_unicast() {}
};

enum Kind { K_GEN = 0, K_SIGN = 1, K_VSS2 = 2 };
static const int NSTEP = 4;
struct Case {
	uint64_t seed = 0, idx = 0; int kind = K_GEN; int n = 3, t = 1, trbc = 0; unsigned pbits = 96, qbits = 32;
	Z p, q, g, h; Z msg1, msg2;
	std::vector<int> sub;       // the parties of steps 2 and 3 of a sign run (sorted); all n: no index maps
	int nsteps = 2;
	std::vector<Dev> dev[NSTEP]; std::string tag;
	bool in_sub(int i) const { return std::find(sub.begin(), sub.end(), i) != sub.end(); }
	bool full_sub() const { return (int)sub.size() == n; }
};

static void pump_rbc(CachinKursawePetzoldShoupRBC *rbc)
{
	size_t l = 0;
	mpz_ptr tmp = new mpz_t(), tmpID = new mpz_t();
	mpz_init(tmp), mpz_init_set(tmpID, rbc->ID);
	if (rbc->Deliver(tmp, l, aiounicast::aio_scheduler_roundrobin, 0) && l < rbc->n) {
		rbc->buf_mpz[l].push_back(tmp); rbc->buf_id[l].push_back(tmpID);
	} else {
		mpz_clear(tmp), mpz_clear(tmpID);
		delete [] tmp, delete [] tmpID;
	}
}
struct Chan { tap_unicast *u = nullptr, *b = nullptr; CachinKursawePetzoldShoupRBC *rbc = nullptr; };
static void barrier(ChildCtx &cx, int step, Chan &c1, Chan &c2)
{
	cx.dev_active = false;
	g_sh->done[cx.me].store(step);
	for (;;) {
		bool all = true;
		for (int k = 0; k < cx.n; k++) if (g_sh->alive[k].load() && g_sh->done[k].load() < step) { all = false; break; }
		if (all) break;
		cx.rbc = c1.rbc; pump_rbc(c1.rbc);
		if (c2.rbc) { cx.rbc = c2.rbc; pump_rbc(c2.rbc); }
	}
}
// The private channels carry no session identifier: values a party did not read before it left a call (e.g.
// the back-up shares of the later steps of a Sign that failed for it) would be taken for the first private
// values of the next call.  Every library call of the harness starts with empty private channels (as the
// model assumes): after the barrier everybody discards what is still in its private links, then a second
// barrier keeps the fast parties from sending into links that are being emptied.
static void drain_private(ChildCtx &cx, int step, Chan &c1, Chan &c2)
{
	for (int which = 0; which < 2; which++) {
		tap_unicast *u = which ? c2.u : c1.u; if (!u) continue;
		int empty = 0; Z v;
		while (empty < 3) { size_t from = 0; if (u->inner->Receive(v, from, aiounicast::aio_scheduler_roundrobin, 0)) empty = 0; else empty++; }
	}
	barrier(cx, step, c1, c2);
}
template <class V> static std::string zvec(const V &v) { return zlist(v.begin(), v.end()); }
static std::string svec(const std::vector<size_t> &Q) { std::string qs = "["; for (size_t i = 0; i < Q.size(); i++) { if (i) qs += ","; qs += std::to_string(Q[i]); } return qs + "]"; }
static std::string ivec(const std::vector<int> &Q) { std::string qs = "["; for (size_t i = 0; i < Q.size(); i++) { if (i) qs += ","; qs += std::to_string(Q[i]); } return qs + "]"; }

static std::string dkg_state(CanettiGennaroJareckiKrawczykRabinDKG &dkg, int n, int t)
{
	std::string cs = "["; bool first = true;
	for (int j = 0; j < n; j++) for (int k = 0; k <= t; k++) { if (!first) cs += ","; first = false; cs += zs(dkg.x_rvss->C_ik[j][k]); }
	cs += "]";
	return " QUAL=" + svec(dkg.QUAL) + " x=" + zs(dkg.x_i) + " xp=" + zs(dkg.xprime_i) + " y=" + zs(dkg.y) + " xq=" + svec(dkg.x_rvss->QUAL) + " C=" + cs;
}

static Chan make_chan(ChildCtx &cx, int n_in, int me_in, int trbc, const std::vector<int> &uin, const std::vector<int> &uout,
	const std::vector<int> &bin, const std::vector<int> &bout, time_t f, const char *id)
{
	std::vector<std::string> keys(n_in, "drv-cgjkr");
	Chan c;
	aiounicast_select *u0 = new aiounicast_select(n_in, me_in, uin, uout, keys, aiounicast::aio_scheduler_roundrobin, VC_TIMEOUT, false, false, false);
	aiounicast_select *b0 = new aiounicast_select(n_in, me_in, bin, bout, keys, aiounicast::aio_scheduler_roundrobin, VC_TIMEOUT, false, false, false);
	c.u = new tap_unicast(n_in, me_in, u0, &cx, VC_TIMEOUT * f);
	c.b = new tap_unicast(n_in, me_in, b0, &cx, VC_TIMEOUT * f);
	c.rbc = new CachinKursawePetzoldShoupRBC(n_in, trbc, me_in, c.b, aiounicast::aio_scheduler_roundrobin, VC_TIMEOUT_RBC * f);
	c.rbc->setID(id);
	return c;
}

typedef int Pipes[MAXN][MAXN][2];
static void child_main(const Case &c, int me, int report_fd, Pipes *P)
{
	signal(SIGPIPE, SIG_IGN);
	g_me = me; g_n = c.n;
	{
		const char *dir = getenv("DKG_ERRDIR");
		std::string f = dir ? (std::string(dir) + "/cgjkr-" + std::to_string(c.idx) + "-P" + std::to_string(me) + ".err") : std::string("/dev/null");
		if (!freopen(f.c_str(), "w", stderr)) {}
	}
	ChildCtx cx; cx.n = c.n; cx.me = me; cx.report_fd = report_fd; mpz_set(cx.tap.q, c.q);
	g_cx = &cx;
	if (!install_clock()) { cx.report("exc what=noclock"); g_sh->alive[me].store(0); _exit(0); }
	cx.seed_base = (c.seed * 1000003ULL + c.idx) * 1000003ULL + (uint64_t)me * 7919ULL + 29;
	coins.reseed(cx.seed_base);
	coins.entries.clear(); coins.log = true;
	bool patient = false; for (int s = 0; s < NSTEP; s++) if (c.dev[s][me].patient()) patient = true;
	time_t f = patient ? VC_PATIENT : 1;
	std::stringstream err;
	std::string cur = "init";
	try {
		Chan c1, c2;
		{
			std::vector<int> uin, uout, bin, bout;
			for (int i = 0; i < c.n; i++) { uin.push_back(P[0][i][me][0]); uout.push_back(P[0][me][i][1]); bin.push_back(P[1][i][me][0]); bout.push_back(P[1][me][i][1]); }
			c1 = make_chan(cx, c.n, me, c.trbc, uin, uout, bin, bout, f, "drv-cgjkr");
		}
		std::map<size_t, size_t> idx2dkg, dkg2idx; int me2 = -1; int n2 = (int)c.sub.size();
		if (!c.full_sub() && c.in_sub(me)) {
			std::vector<int> uin, uout, bin, bout;
			for (int k = 0; k < n2; k++) { int i = c.sub[k]; if (i == me) me2 = k; idx2dkg[k] = i; dkg2idx[i] = k;
				uin.push_back(P[2][i][me][0]); uout.push_back(P[2][me][i][1]); bin.push_back(P[3][i][me][0]); bout.push_back(P[3][me][i][1]); }
			c2 = make_chan(cx, n2, me2, (n2 - 1) / 3, uin, uout, bin, bout, f, "drv-cgjkr-sub");
		}
		cx.rbc = c1.rbc;
		if (c.kind == K_VSS2) {
			// the back-up sharing of Sign step 1c (dealer 0), reconstructed twice under one enclosing identifier
			// as Sign does in steps 1e and 2e for a signer that fails the product proof both times
			PedersenVSS vss(c.n, c.t, me, c.p, c.q, c.g, c.h, c.pbits, c.qbits, false, "k_i_vss[dealer = 0]");
			cur = "vs";
			cx.begin_step("vs", c.dev[0][me], 0, c1.rbc);
			c1.rbc->setID("stand-in for the identifier of Sign");
			bool sr = (me == 0) ? vss.Share(c.msg1, c1.u, c1.rbc, err, false) : vss.Share((size_t)0, c1.u, c1.rbc, err, false);
			Z v1(-1L), v2(-1L);
			bool r1 = vss.Reconstruct(0, v1, c1.rbc, err);
			bool r2 = vss.Reconstruct(0, v2, c1.rbc, err);
			c1.rbc->unsetID();
			cx.report(std::string("vs sr=") + (sr ? "1" : "0") + " r1=" + (r1 ? "1" : "0") + " v1=" + v1.str() + " r2=" + (r2 ? "1" : "0") + " v2=" + v2.str());
			barrier(cx, 1, c1, c2); drain_private(cx, 2, c1, c2);
		} else if (c.kind == K_GEN) {
			CanettiGennaroJareckiKrawczykRabinDKG dkg(c.n, c.t, me, c.p, c.q, c.g, c.h, c.pbits, c.qbits, false, false, "d");
			cur = "gen";
			cx.begin_step("gen", c.dev[0][me], 11, c1.rbc);
			cx.tap.expect[IP(2, 4)] = 1;
			bool r = dkg.Generate(c1.u, c1.rbc, err, c.dev[0][me].sfb);
			cx.tap.drain(EV_OTHER, IP(-1, -1));
			cx.report(std::string("gen ret=") + (r ? "1" : "0") + dkg_state(dkg, c.n, c.t) + " strong=" + cx.tap.strong_s() + " weak=" + cx.tap.weak_s());
			barrier(cx, 1, c1, c2); drain_private(cx, 2, c1, c2);
			cur = "ref";
			cx.begin_step("ref", c.dev[1][me], 11, c1.rbc);
			bool rr = dkg.Refresh(c.n, me, c1.u, c1.rbc, err, c.dev[1][me].sfb);
			cx.tap.drain(EV_OTHER, IP(-1, -1));
			cx.report(std::string("ref ret=") + (rr ? "1" : "0") + dkg_state(dkg, c.n, c.t) + " strong=" + cx.tap.strong_s() + " weak=" + cx.tap.weak_s());
			barrier(cx, 3, c1, c2); drain_private(cx, 4, c1, c2);
		} else {
			CanettiGennaroJareckiKrawczykRabinDSS dss(c.n, c.t, me, c.p, c.q, c.g, c.h, c.pbits, c.qbits, false, false);
			auto dss_state = [&]() {
				std::string s = dkg_state(*dss.dkg, c.n, c.t);
				return s + " dQ=" + svec(dss.QUAL) + " dx=" + zs(dss.x_i) + " dxp=" + zs(dss.xprime_i) + " dy=" + zs(dss.y);
			};
			cur = "gen";
			cx.begin_step("gen", c.dev[0][me], 11, c1.rbc);
			cx.tap.expect[IP(2, 4)] = 1;
			bool r = dss.Generate(c1.u, c1.rbc, err, c.dev[0][me].sfb);
			cx.tap.drain(EV_OTHER, IP(-1, -1));
			cx.report(std::string("gen ret=") + (r ? "1" : "0") + dss_state() + " strong=" + cx.tap.strong_s() + " weak=" + cx.tap.weak_s());
			barrier(cx, 1, c1, c2); drain_private(cx, 2, c1, c2);
			if (c.nsteps >= 2) {
				cur = "sg1";
				cx.begin_step("sg1", c.dev[1][me], 0, c1.rbc);
				Z rr(0L), ss(0L);
				bool sr = dss.Sign(c.n, me, c.msg1, rr, ss, c1.u, c1.rbc, err, c.dev[1][me].sfb);
				bool vr = dss.Verify(c.msg1, rr, ss);
				cx.tap.drain(EV_OTHER, IP(-1, -1));
				cx.report(std::string("sg1 ret=") + (sr ? "1" : "0") + " r=" + rr.str() + " s=" + ss.str() + " verify=" + (vr ? "1" : "0") + cx.dg_s() + " strong=" + cx.tap.strong_s());
				barrier(cx, 3, c1, c2); drain_private(cx, 4, c1, c2);
			}
			if (c.nsteps >= 3) {
				cur = "ref";
				if (c.in_sub(me)) {
					bool rf;
					if (c.full_sub()) {
						cx.begin_step("ref", c.dev[2][me], 11, c1.rbc);
						rf = dss.Refresh(c.n, me, c1.u, c1.rbc, err, c.dev[2][me].sfb);
					} else {
						cx.begin_step("ref", c.dev[2][me], 11, c2.rbc);
						rf = dss.Refresh(n2, me2, idx2dkg, dkg2idx, c2.u, c2.rbc, err, c.dev[2][me].sfb);
					}
					cx.tap.drain(EV_OTHER, IP(-1, -1));
					cx.report(std::string("ref ret=") + (rf ? "1" : "0") + dss_state() + " strong=" + cx.tap.strong_s() + " weak=" + cx.tap.weak_s());
				}
				barrier(cx, 5, c1, c2); drain_private(cx, 6, c1, c2);
			}
			if (c.nsteps >= 4) {
				cur = "sg2";
				if (c.in_sub(me)) {
					Z rr(0L), ss(0L); bool sr;
					if (c.full_sub()) {
						cx.begin_step("sg2", c.dev[3][me], 0, c1.rbc);
						sr = dss.Sign(c.n, me, c.msg2, rr, ss, c1.u, c1.rbc, err, c.dev[3][me].sfb);
					} else {
						cx.begin_step("sg2", c.dev[3][me], 0, c2.rbc);
						sr = dss.Sign(n2, me2, c.msg2, rr, ss, idx2dkg, dkg2idx, c2.u, c2.rbc, err, c.dev[3][me].sfb);
					}
					bool vr = dss.Verify(c.msg2, rr, ss);
					cx.tap.drain(EV_OTHER, IP(-1, -1));
					cx.report(std::string("sg2 ret=") + (sr ? "1" : "0") + " r=" + rr.str() + " s=" + ss.str() + " verify=" + (vr ? "1" : "0") + cx.dg_s() + " strong=" + cx.tap.strong_s());
				}
				barrier(cx, 7, c1, c2); drain_private(cx, 8, c1, c2);
			}
		}
		if (getenv("DKG_ERRDIR")) std::cerr << err.str();
	} catch (std::exception &e) {
		if (getenv("DKG_ERRDIR")) std::cerr << err.str();
		std::string w = e.what(); for (auto &ch : w) if (ch == ' ') ch = '_';
		std::string cls = dynamic_cast<std::invalid_argument*>(&e) ? "throw:invalid_argument" : dynamic_cast<std::runtime_error*>(&e) ? "throw:runtime_error" : "throw:exception";
		cx.tap.drain(EV_OTHER, IP(-1, -1));
		cx.report(std::string("exc step=") + cur + " what=" + w + " cls=" + cls + " strong=" + cx.tap.strong_s());
	} catch (...) {
		cx.report(std::string("exc step=") + cur + " what=other");
	}
	g_sh->alive[me].store(0);
	_exit(0);
}

// ------------------------------------------------------------------ the supervisor of one run
typedef std::map<std::string, std::string> KV;
static KV parse_kv(const std::string &line, std::string &head)
{
	KV m; std::istringstream is(line); std::string tok; is >> head;
	while (is >> tok) { size_t e = tok.find('='); if (e != std::string::npos) m[tok.substr(0, e)] = tok.substr(e + 1); }
	return m;
}
static double now_s() { struct timespec ts; clock_gettime(CLOCK_MONOTONIC, &ts); return ts.tv_sec + 1e-9 * ts.tv_nsec; }

static std::string run_case(const Case &c, double limit_s)
{
	Shared *sh = (Shared*)mmap(NULL, sizeof(Shared), PROT_READ | PROT_WRITE, MAP_SHARED | MAP_ANONYMOUS, -1, 0);
	if (sh == MAP_FAILED) return "# cgjkr: mmap failed";
	for (int k = 0; k < MAXN; k++) { sh->polls[k].store(0); sh->alive[k].store(k < c.n ? 1 : 0); sh->done[k].store(0); }
	sh->ticks.store(0);
	static Pipes P[4]; int rep[MAXN][2];
	int nsets = (c.kind == K_SIGN && !c.full_sub()) ? 4 : 2;
	for (int i = 0; i < c.n; i++) {
		for (int j = 0; j < c.n; j++) for (int s = 0; s < nsets; s++) {
			if (pipe(P[s][i][j]) < 0) return "# cgjkr: pipe failed";
			fcntl(P[s][i][j][1], F_SETPIPE_SZ, 1 << 20);
		}
		if (pipe(rep[i]) < 0) return "# cgjkr: pipe failed";
		fcntl(rep[i][1], F_SETPIPE_SZ, 1 << 20);
	}
	pid_t pid[MAXN];
	for (int i = 0; i < c.n; i++) {
		pid[i] = fork();
		if (pid[i] == 0) { g_sh = sh; child_main(c, i, rep[i][1], P); _exit(0); }
	}
	for (int i = 0; i < c.n; i++) close(rep[i][1]);
	int left = c.n; bool hang = false; std::vector<int> status(c.n, 0);
	double t0 = now_s();
	while (left > 0) {
		int st = 0; pid_t w = waitpid(-1, &st, WNOHANG);
		if (w > 0) {
			for (int i = 0; i < c.n; i++) if (pid[i] == w) { sh->alive[i].store(0); status[i] = st; left--; }
			continue;
		}
		if (now_s() - t0 > limit_s) { hang = true; for (int i = 0; i < c.n; i++) kill(pid[i], SIGKILL); limit_s = 1e18; }
		usleep(1000);
	}
	std::vector<std::vector<std::pair<std::string, KV> > > R(c.n);
	for (int i = 0; i < c.n; i++) {
		std::string buf; char tmp[65536]; ssize_t r;
		while ((r = read(rep[i][0], tmp, sizeof tmp)) > 0) buf.append(tmp, (size_t)r);
		std::istringstream is(buf); std::string line;
		while (std::getline(is, line)) { std::string head; KV kv = parse_kv(line, head); R[i].push_back(std::make_pair(head, kv)); }
	}
	auto find = [&](int i, const std::string &head) -> const KV* { for (auto &e : R[i]) if (e.first == head) return &e.second; return nullptr; };
	auto get = [&](const KV *kv, const std::string &k) -> std::string { if (!kv) return "?"; auto it = kv->find(k); return it == kv->end() ? "?" : it->second; };
	auto dead_in = [&](int i, const std::string &step) -> const KV* { const KV *d = find(i, "dead"); if (d && get(d, "step") == step) return d; return nullptr; };
	std::string pqgh = zs(c.p) + " " + zs(c.q) + " " + zs(c.g) + " " + zs(c.h);
	std::string nt = std::to_string(c.n) + " " + std::to_string(c.t);
	std::string where = "seed=" + std::to_string(c.seed) + " case=" + std::to_string(c.idx) + " n=" + std::to_string(c.n) + " t=" + std::to_string(c.t) + " " + pqgh;
	auto honest_upto = [&](int last) {
		std::vector<int> hs; for (int i = 0; i < c.n; i++) { bool ok = true; for (int s = 0; s <= last; s++) if (!c.dev[s][i].honest()) ok = false; if (ok) hs.push_back(i); }
		return ivec(hs);
	};
	std::string crash0;
	for (int i = 0; i < c.n; i++)
		if (!WIFEXITED(status[i]) || WEXITSTATUS(status[i]) != 0) crash0 += " crash:P" + std::to_string(i) + ":" + std::to_string(status[i]);
	if (hang) crash0 += " hang";
	std::string crash;
	// a C++ exception that left a library call is reported on the lines of that call
	auto set_crash = [&](const std::string &step) {
		crash = crash0;
		for (int i = 0; i < c.n; i++) if (find(i, "exc") && get(find(i, "exc"), "step") == step)
			crash += " exc:P" + std::to_string(i) + ":" + step + ":" + get(find(i, "exc"), "what");
	};
	std::string lines;
	auto add = [&](const std::string &l) { if (!lines.empty()) lines += "\n"; lines += l; };
	// DSS keeps copies of x_i, x'_i, y, QUAL: report those (they are what Sign uses)
	bool dssk = (c.kind == K_SIGN);
	auto K = [&](const char *k) { return std::string(dssk && (!strcmp(k, "x") || !strcmp(k, "xp") || !strcmp(k, "y")) ? "d" : "") + k; };
	auto KQ = [&]() { return std::string(dssk ? "dQ" : "QUAL"); };
	if (c.kind == K_VSS2) {
		set_crash("vs");
		std::string prop;
		for (int i = 0; i < c.n; i++) {
			const KV *s = find(i, "vs");
			if (!s) { prop += " P" + std::to_string(i) + ":-"; continue; }
			prop += " P" + std::to_string(i) + ":" + get(s, "sr") + "|" + get(s, "r1") + "|" + get(s, "v1") + "|" + get(s, "r2") + "|" + get(s, "v2");
		}
		add("prop.cgjkr.vss2 " + where + " sigma=" + c.msg1.str() + " honest=" + honest_upto(0) + " tag:" + c.tag + " =>" + prop + crash);
		munmap(sh, sizeof(Shared));
		return lines;
	}
	// ---- Generate
	{
		set_crash("gen");
		std::string in, out, prop;
		for (int i = 0; i < c.n; i++) {
			const KV *s = find(i, "gen"), *d = dead_in(i, "gen");
			const KV *cs = s ? s : d;
			in += " " + get(cs, "strong") + " " + get(cs, "weak") + " " + c.dev[0][i].str();
			if (!s) { out += " -"; prop += " P" + std::to_string(i) + ":-"; continue; }
			// the trace line carries the members of the DKG object (what the model computes), the summary line
			// the copies the DSS object took after a successful call (what Sign uses)
			std::string om = get(s, "ret") + "|" + get(s, "QUAL") + "|" + get(s, "x") + "|" + get(s, "xp") + "|" + get(s, "y") + "|" + get(s, "xq") + "|" + get(s, "C");
			std::string o = get(s, "ret") + "|" + get(s, KQ()) + "|" + get(s, K("x")) + "|" + get(s, K("xp")) + "|" + get(s, K("y")) + "|" + get(s, "xq") + "|" + get(s, "C");
			out += c.dev[0][i].patient() ? std::string(" *") : " " + om;
			prop += " P" + std::to_string(i) + ":" + o;
		}
		add("cgjkr.gen " + nt + " " + pqgh + in + " tag:" + c.tag + " =>" + out + crash);
		add("prop.cgjkr.gen " + where + " honest=" + honest_upto(0) + " tag:" + c.tag + " =>" + prop + crash);
	}
	int ref_step = (c.kind == K_GEN) ? 1 : 2;
	bool have_ref = (c.kind == K_GEN) || c.nsteps >= 3;
	if (have_ref) {
		set_crash("ref");
		std::string in, out, prop;
		for (int i = 0; i < c.n; i++) {
			const KV *s0 = find(i, "gen"), *s = find(i, "ref"), *d = dead_in(i, "ref");
			const KV *cs = s ? s : d;
			bool dead_before = !s0 || (!s && !d && c.in_sub(i));
			if (!c.in_sub(i)) { in += " 0 0 [] [] [] [] -"; out += " ."; prop += " P" + std::to_string(i) + ":."; continue; }
			if (dead_before) { in += " 0 0 [] [] [] [] Z,0"; out += " -"; prop += " P" + std::to_string(i) + ":-"; continue; }
			in += " " + get(s0, "x") + " " + get(s0, "xp") + " " + get(s0, "C") + " " + get(s0, "QUAL") + " " + get(cs, "strong") + " " + get(cs, "weak") + " " + c.dev[ref_step][i].str();
			if (!s) { out += " -"; prop += " P" + std::to_string(i) + ":-"; continue; }
			std::string o = get(s, "ret") + "|" + get(s, "QUAL") + "|" + get(s, "x") + "|" + get(s, "xp") + "|" + get(s, "C");
			out += c.dev[ref_step][i].patient() ? std::string(" *") : " " + o;
			prop += " P" + std::to_string(i) + ":" + get(s0, "ret") + "|" + get(s0, K("x")) + "|" + get(s0, K("xp")) + "|" + get(s0, K("y")) + "|" + get(s0, KQ())
				+ "|" + get(s, "ret") + "|" + get(s, KQ()) + "|" + get(s, K("x")) + "|" + get(s, K("xp")) + "|" + get(s, K("y")) + "|" + get(s, "xq") + "|" + get(s, "C");
		}
		add("cgjkr.refresh " + nt + " " + pqgh + " " + ivec(c.sub) + in + " tag:" + c.tag + " =>" + out + crash);
		add("prop.cgjkr.refresh " + where + " sub=" + ivec(c.sub) + " honest=" + honest_upto(ref_step) + " tag:" + c.tag + " =>" + prop + crash);
	}
	if (c.kind == K_SIGN) {
		for (int sn = 1; sn <= 2; sn++) {
			int step = (sn == 1) ? 1 : 3;
			if (c.nsteps <= step) continue;
			std::string prop; std::string head = (sn == 1) ? "sg1" : "sg2";
			set_crash(head);
			for (int i = 0; i < c.n; i++) {
				const KV *s0 = find(i, "gen"), *sr = find(i, "ref"), *sg = find(i, head);
				if (sn == 2 && !c.in_sub(i)) { prop += " P" + std::to_string(i) + ":."; continue; }
				const KV *st = (sn == 2 && sr) ? sr : s0;     // the key material the Sign call used
				if (!st || !sg) { prop += " P" + std::to_string(i) + ":-"; continue; }
				prop += " P" + std::to_string(i) + ":" + get(s0, "ret") + "|" + get(st, "dQ") + "|" + get(st, "dx") + "|" + get(st, "dxp") + "|" + get(st, "dy")
					+ "|" + get(sg, "ret") + "|" + get(sg, "r") + "|" + get(sg, "s") + "|" + get(sg, "verify");
			}
			std::vector<int> all; for (int i = 0; i < c.n; i++) all.push_back(i);
			{
				// the trace line of the Sign call: the key material every signer brings, its strong draws and script;
				// not for runs with the library's own `simulate_faulty_behaviour` switch (not modelled for Sign)
				bool sfb_any = false; for (int i = 0; i < c.n; i++) if (c.dev[step][i].sfb) sfb_any = true;
				if (!sfb_any) {
					std::string in, out;
					for (int i = 0; i < c.n; i++) {
						const KV *s0 = find(i, "gen"), *sr = find(i, "ref"), *sg = find(i, head), *d = dead_in(i, head);
						const KV *ex = find(i, "exc"); if (ex && get(ex, "step") != head) ex = nullptr;
						if (!sg && !d && ex) {      // a C++ exception left the call: the model must end in the same error
							const KV *st = (sn == 2 && sr) ? sr : s0;
							if (st) { in += " " + get(st, "dx") + " " + get(st, "dxp") + " " + get(st, "C") + " " + get(st, "xq") + " " + get(ex, "strong") + " " + c.dev[step][i].str();
								out += " exc:" + get(ex, "cls"); continue; }
						}
						if (sn == 2 && !c.in_sub(i)) { in += " 0 0 [] [] [] -"; out += " ."; continue; }
						const KV *st = (sn == 2 && sr) ? sr : s0;
						if (!st || (!sg && !d)) { in += " 0 0 [] [] [] Z,0"; out += " -"; continue; }
						const KV *cs = sg ? sg : d;
						in += " " + get(st, "dx") + " " + get(st, "dxp") + " " + get(st, "C") + " " + get(st, "xq") + " " + get(cs, "strong") + " " + c.dev[step][i].str();
						if (!sg) { out += " -"; continue; }
						out += " " + get(sg, "ret") + "|" + get(sg, "r") + "|" + get(sg, "s") + "|" + get(sg, "nops") + "|" + get(sg, "dg") + "|" + get(sg, "cps");
					}
					add("cgjkr.sign " + nt + " " + pqgh + " " + (sn == 1 ? c.msg1.str() : c.msg2.str()) + " " + ivec(sn == 1 ? all : c.sub) + in + " tag:" + c.tag + " =>" + out + crash0);
				}
			}
			add("prop.cgjkr.sign " + where + " m=" + (sn == 1 ? c.msg1.str() : c.msg2.str()) + " step=" + std::to_string(sn) + " sub=" + ivec(sn == 1 ? all : c.sub)
				+ " refreshed=" + (sn == 2 ? "1" : "0") + " honest=" + honest_upto(step) + " tag:" + c.tag + " =>" + prop + crash);
		}
	}
	munmap(sh, sizeof(Shared));
	return lines;
}

// ------------------------------------------------------------------ case generator
static const int PAIRS[][2] = { {3,1},{4,1},{5,1},{5,2},{6,1},{6,2},{7,1},{7,2},{7,3},{3,0},{4,0} };
static const int NPAIRS = 11;

static std::string pow2s(unsigned bits) { Z v; mpz_set_ui(v, 1); mpz_mul_2exp(v, v, bits); return v.str(); }

// deviations of DKG::Generate / DSS::Generate (step 0); returns a tag
static std::string dev_generate(Dev &d, SplitMix &g, int how, int n, int t, int me, int victim, const Case &c)
{
	std::string negq = "-" + zs(c.q);
	long base = (t + 1) + 2 * (n - 1) + 2;     // output operations of x_rvss->Share without complaints
	switch (how) {
	case 0: d.S(); return "sfb";
	case 1: d.Zk((long)g.below(2 * base + 12)); return "silent";
	case 2: d.O(victim, (int)g.below(2), g.below(2) ? "1" : "-1"); return "wrongshare";
	case 3: d.O(victim, 0, "1"); d.D(1, 0); d.D(1, 1); d.D(1, 2); return "wrongshare-noanswer";
	case 4: d.O(victim, 0, "1"); d.A(1, 1 + (int)g.below(2), "1"); return "wrongshare-badanswer";
	case 5: d.I(victim, (int)g.below(2), "1"); return "falsecomplaint";
	case 6: d.A(0, (int)g.below(t + 1), g.below(2) ? "1" : zs(c.p)); return "badC";
	case 7: d.A(2, (int)g.below(4), "1"); return "badABT";
	case 8: d.Zk(base + 4 + (long)g.below(2 * (n - 1) + t + 2)); return "crash-in-drvss";     // after A,B,T,T', inside d_rvss->Share
	case 9: d.O(victim, 2 + (int)g.below(2), "1"); return "wrongshare-d";
	case 10: d.O(victim, 2, "1"); d.D(3, 0); d.D(3, 1); d.D(3, 2); return "wrongshare-d-noanswer";
	case 11: d.A(4, (int)g.below(2), "1"); return "bad-di";
	case 12: d.A(4, 2 + (int)g.below(2), "1"); return "bad-Ri";
	case 13: d.O(victim, (int)g.below(2), negq); return "negshare";
	case 14: d.N(0, t, std::to_string(victim)); return "complaint-noreason";
	case 15: d.N(4, 3, std::to_string(victim)); return "falsecomplaint7";
	case 16: d.A(4, 2 + (int)g.below(2), pow2s(2100)); return "huge-Ri";
	case 17: d.A(1, 1, pow2s(2100)); d.O(victim, 0, "1"); return "wrongshare-hugeanswer";
	case 18: d.Zk(base + (long)g.below(5)); return "crash-after-xrvss";
	default: d.A(2, 4 + (int)g.below(t + 1), "1"); return "badC-d";
	}
}
static const int NDEV_GEN = 20;

// deviations of Refresh (Joint-ZVSS)
static std::string dev_refresh(Dev &d, SplitMix &g, int how, int n, int t, int me, int victim, const Case &c)
{
	long base = (t + 1) + 2 * (n - 1) + 2;
	switch (how) {
	case 0: d.S(); return "ref-sfb";
	case 1: d.Zk((long)g.below(base + 1)); return "ref-silent";
	case 2: d.O(victim, (int)g.below(2), "1"); return "ref-wrongshare";
	case 3: d.O(victim, 0, "1"); d.D(1, 0); d.D(1, 1); d.D(1, 2); return "ref-wrongshare-noanswer";
	case 4: d.I(victim, (int)g.below(2), "1"); return "ref-falsecomplaint";
	case 5: d.M(0, 0, zs(c.g), zs(c.p)); return "ref-nonzero";          // C_i0 = g: not a sharing of zero
	case 6: d.A(0, 1 + (int)g.below(t > 0 ? t : 1), "1"); return "ref-badC";
	default: d.O(victim, 0, "1"); d.A(1, 1, "1"); return "ref-wrongshare-badanswer";
	}
}
static const int NDEV_REF = 8;

// deviations of Sign: broadcasts made under the identifier of Sign itself (depth 1), in program order:
//  0,1 Tk,Ta  2,3 d_i,d'_i  4,5 z_k,z_a  6..8 DD,DD',EE  9,10 d_i,d'_i  11..15 f1,z1,f2,z2,z3  16,17 share of mu
//  18 Ta  19,20 d_i,d'_i  21 z_a  22..24 DD,DD',EE  25,26 d_i,d'_i  27..31 f1,z1,f2,z2,z3  32,33 share of s
static std::string dev_sign(Dev &d, SplitMix &g, int how, int n, int t, const Case &c)
{
	switch (how) {
	case 0: d.S(); return "sign-sfb";
	case 1: d.Zk((long)g.below(40 * (unsigned)n)); return "sign-silent";
	case 2: d.LA(1, (int)g.below(34), "1"); return "sign-bad1";
	case 3: d.LA(1, 11 + (int)g.below(5), "1"); return "sign-badproof1d";
	case 4: d.LA(1, 27 + (int)g.below(5), "1"); return "sign-badproof2d";
	case 5: d.LA(1, 12, "1"); d.LA(1, 28, "1"); return "sign-badproof-both";
	case 6: d.LA(1, 32 + (int)g.below(2), "1"); return "sign-badshare-s";
	case 7: d.LA(1, 16 + (int)g.below(2), "1"); return "sign-badshare-mu";
	case 8: { static const int z[] = { 12, 14, 15, 28, 30, 31 }; d.LA(1, z[g.below(6)], pow2s(2100)); return "sign-hugeproof"; }
	case 9: d.LA(1, (int)g.below(34), zs(c.q)); return "sign-plusq";
	case 10: d.LA(1, 4 + (int)g.below(2), "1"); return "sign-badproof1c";
	case 11: d.LA(1, 21, "1"); return "sign-badproof2c";
	case 15: {
		// two deviating signers: the first fails the product proof of step 1d (its back-ups k_j, a_j are then
		// reconstructed in step 1e), the second publishes an oversized share in that reconstruction
		// (PedersenVSS::Reconstruct has no range check on the first component)
		static int turn = 0;
		if ((turn++ % 2) == 0) { d.LA(1, 12, "1"); return "sign-badproof1d-A"; }
		int idx = ((t + 1) + 2) + 9 + (2 * (n - 1) + 2 * (t + 1)) + (t + 3) + ((n - 1) + (t + 1)) + (t + 3);
		d.LA(2, idx, pow2s(2100)); return "sign-hugerecshare-B"; }
	case 14: {
		// a signer that fails the product proof in step 1d AND in step 2d and still stays in step: its back-up
		// sharings of v_i use the constant polynomial with zero randomness (then its own view of the mu / s
		// shares coincides with the view of the parties that reconstructed v_i)
		int a1 = 12 * t + 14, a2 = a1 + 1 + 2 * t, b1 = a2 + 6 * t + 11, b2 = b1 + 1 + 2 * t;
		d.LA(1, 12, "1"); d.LA(1, 28, "1"); d.ZC(a1, a2); d.ZC(b1, b2); return "sign-badproof-both-instep"; }
	case 12: d.LA(2, (int)g.below(60), "1"); return "sign-bad2";
	default: d.LA(1, 2 + (int)g.below(2), "1"); return "sign-bad-di";
	}
}
static const int NDEV_SIGN = 14;

static void set_msg(Z &m, SplitMix &g, const Z &q)
{
	switch (g.below(7)) { case 0: mpz_set_ui(m, 0); break; case 1: mpz_set_ui(m, 1); break; case 2: mpz_sub_ui(m, q, 1); break; case 3: mpz_set(m, q); break;
		default: gen_below(m, g, q); break; }
}

static void make_case(Case &c, uint64_t seed, uint64_t idx, bool thorough, const Opts &o)
{
	SplitMix g(seed * 0x9e3779b97f4a7c15ULL + idx * 0x100000001b3ULL + 0x2545f4914f6cdd1dULL);
	c.seed = seed; c.idx = idx;
	c.kind = (idx % 3 == 2) ? K_SIGN : K_GEN;
	if (o.val("--kind") != "") c.kind = (o.val("--kind") == "sign") ? K_SIGN : (o.val("--kind") == "vss2") ? K_VSS2 : K_GEN;
	int pi;
	if (c.kind == K_SIGN) { static const int SP[] = { 0, 0, 1, 2, 3, 4, 6, 5, 7 }; pi = SP[g.below(thorough ? 9 : 5)]; }
	else if (g.below(5) == 0) pi = (int)g.below(NPAIRS);
	else { static const int FP[] = { 0, 1, 2, 3, 4, 5, 6, 7 }; pi = FP[g.below(8)]; }
	c.n = PAIRS[pi][0]; c.t = PAIRS[pi][1];
	if (o.val("--n") != "") { c.n = atoi(o.val("--n").c_str()); c.t = atoi(o.val("--t", "1").c_str()); }
	// two fixed scenarios in every eight sign cases (seed C16c): reduced signer set with a NON-IDENTITY index map (party 0 left
	// out), second Sign, one signer of the reduced set fails the proof of step 2c resp. 1c and lands on the ignore list, 2t+1
	// signers remain -- the random choice of (mode, phase, deviation) reaches this combination in about one case of fifty
	bool fx = c.kind == K_SIGN && (idx % 8) >= 6 && o.val("--n") == "" && o.val("--mode") == "" && o.val("--phase") == "" && o.val("--dev3") == "" && o.val("--f") == "";
	if (fx) { c.n = 5; c.t = 1; }
	c.trbc = (c.n - 1) / 3;
	switch (g.below(thorough ? 3 : 2)) { case 0: c.pbits = 96; c.qbits = 32; break; case 1: c.pbits = 128; c.qbits = 64; break; default: c.pbits = 256; c.qbits = 160; break; }
	SmallGroup sg = make_group(g, c.pbits, c.qbits);
	mpz_set(c.p, sg.p); mpz_set(c.q, sg.q); mpz_set(c.g, sg.g);
	Z e, pm1; mpz_sub_ui(pm1, c.p, 1);
	do { gen_below(e, g, c.q); mpz_powm(c.h, c.g, e, c.p); } while (mpz_cmp_ui(e, 2) < 0 || !mpz_cmp(c.h, c.g) || mpz_cmp_ui(c.h, 1) <= 0 || mpz_cmp(c.h, pm1) >= 0);
	set_msg(c.msg1, g, c.q); set_msg(c.msg2, g, c.q);
	if (o.val("--m") != "") { mpz_set_str(c.msg1, o.val("--m").c_str(), 10); mpz_set_str(c.msg2, o.val("--m").c_str(), 10); }
	for (int s = 0; s < NSTEP; s++) c.dev[s].assign(c.n, Dev());
	c.sub.clear(); for (int i = 0; i < c.n; i++) c.sub.push_back(i);
	c.nsteps = (c.kind == K_GEN) ? 2 : 4;
	if (c.kind == K_SIGN) {
		int mode = (int)g.below(4);      // 0: Generate+Sign only, 1: all four steps on the full set, 2,3: reduced set for Refresh and the second Sign
		if (o.val("--mode") != "") mode = atoi(o.val("--mode").c_str());
		if (fx) mode = 2;
		if (mode == 0) c.nsteps = 2;
		if (mode >= 2 && c.n - 1 >= 2 * c.t + 1) {
			int drop = (mode == 2) ? 0 : (int)g.below(c.n);
			c.sub.clear(); for (int i = 0; i < c.n; i++) if (i != drop) c.sub.push_back(i);
		}
	}
	// who deviates
	int fmax = std::min(c.t, c.trbc); if (2 * c.t >= c.n) fmax = 0;
	if (o.has("--fall") && 2 * c.t < c.n) fmax = c.t;
	int f = 0;
	if (fmax > 0 && idx >= 2) f = (g.below(4) == 0) ? (int)g.below(fmax + 1) : fmax;
	if (o.val("--f") != "") f = std::min(fmax, atoi(o.val("--f").c_str()));
	if (fx) f = 1;
	if (c.kind == K_VSS2) { f = 0; gen_below(c.msg1, g, c.q); }
	std::vector<int> ids; for (int i = 0; i < c.n; i++) ids.push_back(i);
	for (int i = c.n - 1; i > 0; i--) std::swap(ids[i], ids[g.below(i + 1)]);
	if (o.val("--who") != "") { int w = atoi(o.val("--who").c_str()); auto it = std::find(ids.begin(), ids.end(), w); if (it != ids.end()) std::swap(*it, ids[0]); }
	if (fx && ids[0] == 0) std::swap(ids[0], ids[1]);   // the deviating signer is a member of the reduced set
	std::vector<int> faulty(ids.begin(), ids.begin() + f);
	c.tag = f ? "cheat" : "honest";
	int force = o.val("--dev") != "" ? atoi(o.val("--dev").c_str()) : -1;
	int force2 = o.val("--dev2") != "" ? atoi(o.val("--dev2").c_str()) : -1;
	int force3 = o.val("--dev3") != "" ? atoi(o.val("--dev3").c_str()) : -1;
	int phase = o.val("--phase") != "" ? atoi(o.val("--phase").c_str()) : -1;
	bool dropper = false;
	for (int fi = 0; fi < f; fi++) {
		int me = faulty[fi];
		auto honest_other = [&]() { for (int tries = 0; tries < 200; tries++) { int r = (int)g.below(c.n); if (r != me && std::find(faulty.begin(), faulty.end(), r) == faulty.end()) return r; } return (me + 1) % c.n; };
		int victim = honest_other();
		// in which library call does the party deviate?
		int ph = phase >= 0 ? phase : (int)g.below((c.kind == K_GEN) ? 3 : 6);
		if (fx) ph = 4;
		if (c.kind == K_GEN) {
			// 0,1: in Generate  2: in Refresh
			if (ph <= 1) {
				int how;
				for (;;) { how = force >= 0 ? force : (int)g.below(NDEV_GEN); Dev probe; SplitMix g2 = g; dev_generate(probe, g2, how, c.n, c.t, me, victim, c); if (probe.patient() && dropper && force < 0) continue; break; }
				c.tag += ":" + dev_generate(c.dev[0][me], g, how, c.n, c.t, me, victim, c);
				if (c.dev[0][me].silent >= 0) c.dev[1][me].Zk(0);
			} else {
				int how;
				for (;;) { how = force2 >= 0 ? force2 : (int)g.below(NDEV_REF); Dev probe; SplitMix g2 = g; dev_refresh(probe, g2, how, c.n, c.t, me, victim, c); if (probe.patient() && dropper && force2 < 0) continue; break; }
				c.tag += ":" + dev_refresh(c.dev[1][me], g, how, c.n, c.t, me, victim, c);
			}
			if (c.dev[0][me].patient() || c.dev[1][me].patient()) dropper = true;
		} else {
			// 0: Generate  1,2: first Sign  3: Refresh  4,5: second Sign
			if (c.nsteps == 2 && ph >= 3) ph = 1 + (int)g.below(2);
			if (ph == 0) {
				int how = force >= 0 ? force : (int)g.below(NDEV_GEN);
				c.tag += ":" + dev_generate(c.dev[0][me], g, how, c.n, c.t, me, victim, c);
				if (c.dev[0][me].silent >= 0) for (int s = 1; s < NSTEP; s++) c.dev[s][me].Zk(0);
			} else if (ph <= 2) {
				int how = force3 >= 0 ? force3 : (int)g.below(NDEV_SIGN);
				c.tag += ":" + dev_sign(c.dev[1][me], g, how, c.n, c.t, c);
				if (c.dev[1][me].silent >= 0) for (int s = 2; s < NSTEP; s++) c.dev[s][me].Zk(0);
			} else if (ph == 3) {
				int how = force2 >= 0 ? force2 : (int)g.below(NDEV_REF);
				int n2 = (int)c.sub.size();
				if (!c.in_sub(me)) { c.tag += ":outsider"; continue; }
				// scripts address the parties of the reduced set by their position in it
				int v2 = 0; for (int k = 0; k < n2; k++) if (c.sub[k] == victim) v2 = k;
				if (!c.in_sub(victim)) { v2 = 0; if (c.sub[0] == me) v2 = 1; }
				c.tag += ":" + dev_refresh(c.dev[2][me], g, how, n2, c.t, me, v2, c);
				if (c.dev[2][me].silent >= 0) c.dev[3][me].Zk(0);
			} else {
				if (!c.in_sub(me)) { c.tag += ":outsider"; continue; }
				int how = force3 >= 0 ? force3 : (int)g.below(NDEV_SIGN);
				if (fx) how = (idx % 8 == 6) ? 11 : 10;
				c.tag += ":" + dev_sign(c.dev[3][me], g, how, (int)c.sub.size(), c.t, c);
			}
		}
	}
	if (c.kind == K_SIGN) c.tag += std::string(":steps") + std::to_string(c.nsteps) + (c.full_sub() ? "" : ":reduced");
}

static int run(const Opts &o)
{
	bool thorough = (o.tier == "thorough");
	int par = atoi(o.val("--par", "3").c_str()); if (par < 1) par = 1;
	double limit = atof(o.val("--limit", "300").c_str());
	uint64_t first = strtoull(o.val("--first", "0").c_str(), NULL, 10);
	emit("# cgjkr seed=" + std::to_string(o.seed) + " cases=" + std::to_string(o.cases));
	fflush(stdout);
	for (uint64_t base = first; base < first + o.cases; base += (uint64_t)par) {
		uint64_t cnt = std::min<uint64_t>((uint64_t)par, first + o.cases - base);
		std::vector<int> fd(cnt); std::vector<pid_t> pid(cnt);
		for (uint64_t k = 0; k < cnt; k++) {
			int pfd[2]; if (pipe(pfd) < 0) return 3;
			fcntl(pfd[1], F_SETPIPE_SZ, 1 << 20);
			pid[k] = fork();
			if (pid[k] == 0) {
				close(pfd[0]);
				Case c; make_case(c, o.seed, base + k, thorough, o);
				std::string out = run_case(c, limit) + "\n";
				size_t off = 0; while (off < out.size()) { ssize_t w = write(pfd[1], out.data() + off, out.size() - off); if (w <= 0) break; off += (size_t)w; }
				_exit(0);
			}
			close(pfd[1]); fd[k] = pfd[0];
		}
		for (uint64_t k = 0; k < cnt; k++) {
			std::string buf; char tmp[65536]; ssize_t r;
			while ((r = read(fd[k], tmp, sizeof tmp)) > 0) buf.append(tmp, (size_t)r);
			close(fd[k]); int st; waitpid(pid[k], &st, 0);
			std::istringstream is(buf); std::string line;
			while (std::getline(is, line)) if (!line.empty()) emit(line);
		}
		fflush(stdout);
	}
	return 0;
}

} // namespace cgdrv

static int cgjkr_main(const Opts &o) { return cgdrv::run(o); }
REGISTER_DRIVER("cgjkr", cgjkr_main);
