// C11 (round trips) and C12 (parsers never crash) for the text transport encoding of the
// discrete-log types: integers (base 62), cards, card secrets, stacks, stack secrets, strtoul.
#include "common.hh"

static std::string cards_s(const TMCG_Stack<VTMF_Card> &st) { std::string r = "["; for (size_t i = 0; i < st.size(); i++) { if (i) r += ","; r += zs(st[i].c_1) + ":" + zs(st[i].c_2); } return r + "]"; }
static std::string secs_s(const TMCG_StackSecret<VTMF_CardSecret> &st) { std::string r = "["; for (size_t i = 0; i < st.size(); i++) { if (i) r += ","; r += std::to_string(st[i].first) + ":" + zs(st[i].second.r); } return r + "]"; }

// value classes of C11: 0, ±1, 2^k, 2^k-1, maximal length, random, negative
static void gen_value(mpz_ptr v, SplitMix &g)
{
	switch (g.below(9)) {
	case 0: mpz_set_ui(v, 0); break;
	case 1: mpz_set_si(v, g.coin() ? 1 : -1); break;
	case 2: mpz_set_ui(v, 1); mpz_mul_2exp(v, v, g.below(2100)); break;
	case 3: mpz_set_ui(v, 1); mpz_mul_2exp(v, v, 1 + g.below(2100)); mpz_sub_ui(v, v, 1); break;
	case 4: gen_bits(v, g, 1 + g.below(64)); break;
	case 5: gen_bits(v, g, 1 + g.below(2048)); break;
	case 6: gen_bits(v, g, 1 + g.below(2048)); mpz_neg(v, v); break;
	case 7: mpz_set_ui(v, 61 + g.below(3)); mpz_pow_ui(v, v, 1 + g.below(5)); break;
	default: gen_bits(v, g, 1 + g.below(300)); break;
	}
}

// structure-aware mutation of a valid text (C12 catalogue): returns the mutated string
static std::string mutate_text(const std::string &t, SplitMix &g)
{
	std::string s = t;
	if (s.empty()) return std::string(1, (char)g.below(256));
	switch (g.below(14)) {
	case 0: s.erase(g.below(s.size()), 1 + g.below(3)); break;                       // delete bytes
	case 1: s.insert(g.below(s.size() + 1), 1, (char)g.below(256)); break;          // insert a byte
	case 2: s[g.below(s.size())] = (char)g.below(256); break;                       // overwrite a byte
	case 3: s = s.substr(0, g.below(s.size() + 1)); break;                          // truncate
	case 4: { size_t p = s.find_first_of("^|"); if (p != s.npos) s[p] = (s[p] == '^') ? '|' : '^'; } break;
	case 5: { // a count / index field set to 0, 1, max, max+1, huge, negative, with sign or blanks
		static const char *vals[] = { "0", "1", "512", "513", "4294967296", "18446744073709551615", "18446744073709551616", "-1", "+2", " 2", "2 ", "", "0x2", "99999999999999999999999999" };
		size_t a = s.find('^'); if (a == s.npos) break; size_t b = s.find('^', a + 1); if (b == s.npos) break;
		if (g.coin()) { size_t c = s.find('^', b + 1); if (c != s.npos && g.coin()) { a = b; b = c; } }
		s = s.substr(0, a + 1) + vals[g.below(14)] + s.substr(b); } break;
	case 6: { size_t a = g.below(s.size()), b = g.below(s.size()); if (a > b) std::swap(a, b); s = s.substr(0, a) + s.substr(a, b - a) + s.substr(a, b - a) + s.substr(b); } break; // duplicate a field
	case 7: s += s; break;
	case 8: for (auto &c : s) if (c == '|' && g.below(4) == 0) c = ' '; break;
	case 9: { size_t p = g.below(s.size()); s.insert(p, "-"); } break;
	case 10: { size_t p = g.below(s.size()); s.insert(p, " \t"); } break;              // white space inside numbers
	case 11: s = "crd|" + s; break;
	case 12: { size_t p = g.below(s.size()); s.insert(p, std::string(1 + g.below(5000), "0123456789AZaz#"[g.below(15)])); } break; // very long field
	default: { std::string r; size_t n = g.below(40); for (size_t i = 0; i < n; i++) r += (char)g.below(256); s = r; } break; // garbage
	}
	return s;
}

static void import_lines(const std::string &txt, int what)
{
	std::string hx = hexs(txt);
	fflush(stdout);
	if (what == 0) { VTMF_Card c; bool ok = c.import(txt); emit("io.card.import " + hx + " => " + (ok ? zs(c.c_1) + " " + zs(c.c_2) : std::string("reject"))); }
	else if (what == 1) { VTMF_CardSecret c; bool ok = c.import(txt); emit("io.secret.import " + hx + " => " + (ok ? zs(c.r) : std::string("reject"))); }
	else if (what == 2) { TMCG_Stack<VTMF_Card> s; bool ok = s.import(txt); emit("io.stack.import " + hx + " => " + (ok ? cards_s(s) : std::string("reject"))); }
	else { TMCG_StackSecret<VTMF_CardSecret> s; bool ok = s.import(txt); emit("io.sts.import " + hx + " => " + (ok ? secs_s(s) : std::string("reject"))); }
}

static int drv_io(const Opts &o)
{
	SplitMix g(o.seed ^ 0x696f);
	bool thorough = (o.tier == "thorough");
	Z v, w;
	for (uint64_t c = 0; c < o.cases; c++) {
		// ---- integers
		gen_value(v, g);
		std::ostringstream os; os << v.v; std::string txt = os.str();
		emit("codec.str62 " + v.str() + " => " + hexs(txt));
		{ int rc = mpz_set_str(w, txt.c_str(), TMCG_MPZ_IO_BASE); emit("codec.parse62 " + hexs(txt) + " => " + (rc < 0 ? std::string("none") : w.str()));
		  // the library's own importer: operator>> (std::istream&, mpz_ptr) reads one line
		  std::istringstream is(txt + "\n"); Z w2; std::string got = guarded([&]() { is >> w2.v; return w2.str(); });
		  emit("io.stream.int " + hexs(txt) + " => " + got);
		  emit(std::string("io.roundtrip int ") + hexs(txt) + " => " + ((rc == 0 && !mpz_cmp(v, w) && got == v.str()) ? "1" : "0")); }
		{ std::string m = mutate_text(txt, g); if (m.find('\0') != m.npos) m = m.substr(0, m.find('\0'));
		  int rc = mpz_set_str(w, m.c_str(), TMCG_MPZ_IO_BASE); emit("codec.parse62 " + hexs(m) + " => " + (rc < 0 ? std::string("none") : w.str()));
		  if (m.find('\n') == m.npos && m.size() + 2 < TMCG_MAX_VALUE_CHARS) { std::istringstream is(m + "\n"); Z w2; std::string got = guarded([&]() { is >> w2.v; return w2.str(); }); emit("io.stream.int " + hexs(m) + " => " + got); } }
		{ // strtoul as the importers use it
		  static const char *vals[] = { "", "0", "7", "512", " 12", "12 ", "+5", "-1", "-", "+", "0x10", "010", "18446744073709551615", "18446744073709551616", "99999999999999999999", "-18446744073709551615", "1e3", "\t3", "3\n" };
		  std::string t = (g.below(3) == 0) ? std::to_string(g.next() >> g.below(64)) : vals[g.below(19)];
		  char *ec; unsigned long u = std::strtoul(t.c_str(), &ec, 10); emit("io.strtoul " + hexs(t) + " => " + ((*ec == '\0') ? std::to_string(u) : std::string("none"))); }
		// ---- card, secret
		VTMF_Card cd; gen_value(cd.c_1, g); gen_value(cd.c_2, g);
		{ std::ostringstream o2; o2 << cd; emit("io.card.export " + zs(cd.c_1) + " " + zs(cd.c_2) + " => " + hexs(o2.str()));
		  VTMF_Card c2; bool ok = c2.import(o2.str()); std::ostringstream o3; o3 << c2; emit(std::string("io.roundtrip card ") + hexs(o2.str()) + " => " + ((ok && c2 == cd && o3.str() == o2.str()) ? "1" : "0"));
		  import_lines(o2.str(), 0); import_lines(mutate_text(o2.str(), g), 0); }
		VTMF_CardSecret cs; gen_value(cs.r, g);
		{ std::ostringstream o2; o2 << cs; VTMF_CardSecret c2; bool ok = c2.import(o2.str()); emit(std::string("io.roundtrip secret ") + hexs(o2.str()) + " => " + ((ok && !mpz_cmp(c2.r, cs.r)) ? "1" : "0"));
		  import_lines(o2.str(), 1); import_lines(mutate_text(o2.str(), g), 1); }
		// ---- stack, stack secret: sizes 1, 2, 52, 511, 512 (and 513 refused by push) on a sparse schedule
		size_t n;
		switch (g.below(thorough ? 20 : 150)) { case 0: n = 511 + g.below(2); break; case 1: case 2: n = 52; break; default: n = 1 + g.below(6); break; }
		TMCG_Stack<VTMF_Card> st; TMCG_StackSecret<VTMF_CardSecret> ss;
		std::vector<size_t> idx(n); for (size_t i = 0; i < n; i++) idx[i] = i; for (size_t a = n; a > 1; a--) std::swap(idx[a - 1], idx[g.below(a)]);
		for (size_t i = 0; i < n; i++) { VTMF_Card x; gen_value(x.c_1, g); gen_value(x.c_2, g); st.push(x); VTMF_CardSecret y; gen_value(y.r, g); ss.push(idx[i], y); }
		{ std::ostringstream o2; o2 << st; if (n <= 6) emit("io.stack.export " + cards_s(st) + " => " + hexs(o2.str()));
		  TMCG_Stack<VTMF_Card> s2; bool ok = s2.import(o2.str()); std::ostringstream o3; o3 << s2; emit(std::string("io.roundtrip stack ") + std::to_string(n) + " => " + ((ok && s2 == st && o3.str() == o2.str()) ? "1" : "0"));
		  if (n <= 52) { import_lines(o2.str(), 2); for (int k = 0; k < 3; k++) import_lines(mutate_text(o2.str(), g), 2); } }
		{ std::ostringstream o2; o2 << ss; if (n <= 6) emit("io.sts.export " + secs_s(ss) + " => " + hexs(o2.str()));
		  TMCG_StackSecret<VTMF_CardSecret> s2; bool ok = s2.import(o2.str()); std::ostringstream o3; o3 << s2; emit(std::string("io.roundtrip sts ") + std::to_string(n) + " => " + ((ok && o3.str() == o2.str()) ? "1" : "0"));
		  if (n <= 52) { import_lines(o2.str(), 3); for (int k = 0; k < 3; k++) import_lines(mutate_text(o2.str(), g), 3); } }
		// ---- pure garbage to every importer
		{ std::string r; size_t len = g.below(60); for (size_t i = 0; i < len; i++) r += (char)(g.below(5) ? "stkcrd|^0123456789 -"[g.below(20)] : g.below(256)); if (r.find('\0') != r.npos) r = r.substr(0, r.find('\0'));
		  for (int k = 0; k < 4; k++) import_lines(r, k); }
	}
	return 0;
}
REGISTER_DRIVER("io", drv_io);
