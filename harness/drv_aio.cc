// C13: the real channel objects on harness-owned pipes.  The harness relays sender -> receiver
// bytes in scripted fragments, calls Receive with time-out 0 between fragments, tampers with the
// wire, and records every Send / Receive call (state before, oracle answers, state after).
#include "common.hh"
#include <unistd.h>
#include <fcntl.h>
#include <memory>
#include <aiounicast_select.hh>
#include <aiounicast_nonblock.hh>

static std::string bytes_hex(const std::string &s) { return hexs(s); }
static std::string mac_log(bool verify_side)
{
	std::string r = "[";
	for (auto &m : cryptolog.macs) { if ((m.verify >= 0) != verify_side) continue; if (r.size() > 1) r += ","; r += hexs(m.input) + ":" + hexs(m.tag); if (verify_side) r += std::string(":") + (m.verify ? "01" : "00"); }
	return r + "]";
}
static std::string cipher_log(bool enc)
{
	std::string r = "[";
	for (auto &c : cryptolog.ciphers) { if (c.encrypt != enc) continue; if (r.size() > 1) r += ","; r += hexs(c.in) + ":" + hexs(c.out); }
	return r + "]";
}
// back-pressure: when the non-blocking sender finds its pipe full it calls sleep(1) and retries; the harness
// turns that sleep into "the receiver makes progress" (forward the bytes, let B receive), without waiting
#include <dlfcn.h>
#include <functional>
static std::function<void()> g_sleep_hook;
static size_t g_sleep_calls = 0;
extern "C" unsigned int sleep(unsigned int sec)
{
	if (g_sleep_hook) { g_sleep_calls++; g_sleep_hook(); return 0; }
	static unsigned int (*real)(unsigned int) = (unsigned int (*)(unsigned int))dlsym(RTLD_NEXT, "sleep");
	return real ? real(sec) : 0;
}

static void set_nonblock(int fd) { int fl = fcntl(fd, F_GETFL); fcntl(fd, F_SETFL, fl | O_NONBLOCK); }
static std::string drain(int fd) { std::string r; char b[8192]; for (;;) { ssize_t k = read(fd, b, sizeof b); if (k <= 0) break; r.append(b, k); } return r; }

struct Chan {
	int a2h[2], h2b[2], dummy[6][2];
	std::unique_ptr<aiounicast> A, B; bool nonblock;
	Chan(bool auth, bool enc, bool chunked, bool nb) : nonblock(nb)
	{
		pipe(a2h); pipe(h2b); for (auto &d : dummy) pipe(d);
		set_nonblock(a2h[0]);
		std::vector<int> ain = { dummy[0][0], dummy[1][0] }, aout = { dummy[2][1], a2h[1] };
		std::vector<int> bin = { h2b[0], dummy[3][0] }, bout = { dummy[4][1], dummy[5][1] };
		std::vector<std::string> keys = { "key-zero", "key-one" }, keysB = { "key-one", "key-zero" };
		// party 0 (A) talks to party 1 with key "key-one"; party 1 (B) must use the same key for party 0
		std::vector<std::string> kA = { "self", "shared-0-1" }, kB = { "shared-0-1", "self" };
		if (nb) {
			set_nonblock(h2b[0]); set_nonblock(a2h[1]); for (auto &d : dummy) { set_nonblock(d[0]); set_nonblock(d[1]); }
			A.reset(new aiounicast_nonblock(2, 0, ain, aout, kA, aiounicast::aio_scheduler_direct, aiounicast::aio_timeout_extremely_short, auth, enc, chunked));
			B.reset(new aiounicast_nonblock(2, 1, bin, bout, kB, aiounicast::aio_scheduler_direct, aiounicast::aio_timeout_extremely_short, auth, enc, chunked));
		} else {
			A.reset(new aiounicast_select(2, 0, ain, aout, kA, aiounicast::aio_scheduler_direct, aiounicast::aio_timeout_extremely_short, auth, enc, chunked));
			B.reset(new aiounicast_select(2, 1, bin, bout, kB, aiounicast::aio_scheduler_direct, aiounicast::aio_timeout_extremely_short, auth, enc, chunked));
		}
	}
	~Chan() { A.reset(); B.reset(); close(a2h[0]); close(a2h[1]); close(h2b[0]); close(h2b[1]); for (auto &d : dummy) { close(d[0]); close(d[1]); } }
};

// receiver state of link 0 of a select-object
struct RxState { std::string buf; bool flag, ivseen; std::string sqn; };
static RxState rx_state(aiounicast_select *b, bool auth, bool enc)
{
	RxState s; s.buf.assign((const char*)b->buf_in[0], b->buf_ptr[0]); s.flag = b->buf_flag[0];
	s.ivseen = enc ? (bool)b->iv_flag_in[0] : false; s.sqn = auth ? zs(b->mac_sqn_in[0]) : "1";
	return s;
}

static void gen_msg(mpz_ptr v, SplitMix &g, bool enc)
{
	switch (g.below(8)) {
	case 0: mpz_set_ui(v, 0); break;
	case 1: mpz_set_ui(v, 1 + g.below(100)); break;
	case 2: gen_bits(v, g, 1 + g.below(2048)); break;
	case 3: gen_bits(v, g, 1 + g.below(64)); if (!enc || g.below(4) == 0) mpz_neg(v, v); break; // negatives: refused by Send when encrypted
	case 4: mpz_set_ui(v, 1); mpz_mul_2exp(v, v, 256); if (g.coin()) mpz_sub_ui(v, v, 1); break;
	case 5: mpz_set_ui(v, 4242424242UL); break;
	case 6: gen_bits(v, g, 5000 + g.below(9000)); break; // around / beyond the size limit
	default: gen_bits(v, g, 1 + g.below(300)); break;
	}
}

static int drv_aio(const Opts &o)
{
	SplitMix g(o.seed ^ 0x61696f);
	for (uint64_t c = 0; c < o.cases; c++) {
		bool auth = (c & 1), enc = (c & 2), chunked = (c % 16 >= 12), nb = (c % 8 >= 4);
		bool modelled = !chunked && !nb; // the Lean model covers the stream modes of the select class; the rest is predicate-only
		Chan ch(auth, enc, chunked, nb);
		aiounicast_select *Bs = nb ? NULL : (aiounicast_select*)ch.B.get();
		aiounicast_select *As = nb ? NULL : (aiounicast_select*)ch.A.get();
		cryptolog.log = true; cryptolog.clear();
		// ---- sender
		size_t K = 1 + g.below(6); std::vector<Z> sent; std::vector<std::string> wires; size_t enc_calls = 0;
		std::string ivhex = "-";
		for (size_t i = 0; i < K; i++) {
			Z m; gen_msg(m, g, enc);
			std::string st_before;
			if (modelled) { st_before = std::string(enc && As->iv_flag_out[1] ? "1" : "0") + " " + (auth ? zs(As->mac_sqn_out[1]) : std::string("1")) + " " + std::to_string(enc_calls); if (enc) ivhex = hexs(As->iv_out[1], As->blklen); }
			cryptolog.clear();
			bool ret = ch.A->Send(m, 1);
			std::string w = drain(ch.a2h[0]);
			if (modelled) {
				std::string st_after = std::string(enc && As->iv_flag_out[1] ? "1" : "0") + " " + (auth ? zs(As->mac_sqn_out[1]) : std::string("1")) + " " + std::to_string(enc_calls + (ret && enc ? 1 : 0));
				size_t dl = mpz_sizeinbase(m, 62); bool boundary = (dl >= 2040 && dl <= 2052); // mpz_sizeinbase may over-estimate by one: stay off the exact limit
				if (!boundary) emit(std::string("aio.send ") + (auth ? "1 " : "0 ") + (enc ? "1 " : "0 ") + st_before + " " + m.str() + " " + ivhex + " " + mac_log(false) + " " + cipher_log(true) + " => " + (ret ? "1 " + st_after + " " + bytes_hex(w) : std::string("0")));
			}
			if (ret) { sent.push_back(m); wires.push_back(w); if (enc) enc_calls++; }
			else if (!w.empty()) { emit("prop.aio.partial-write " + std::to_string(w.size()) + " => refused-send-wrote-bytes"); }
		}
		// ---- the wire, possibly tampered with
		std::string wire; for (auto &w : wires) wire += w;
		int tamper = (c % 3 == 2) ? 1 + g.below(7) : 0; std::string tname = "none";
		size_t first_bad = wire.size(); // offset of the first modified byte
		if (wire.empty()) tamper = 0;
		if (tamper == 1) { size_t p = g.below(wire.size()); wire[p] ^= (1 << g.below(8)); first_bad = p; tname = "flip"; }
		else if (tamper == 2) { size_t p = g.below(wire.size() + 1); wire.insert(p, 1, (char)g.below(256)); first_bad = p; tname = "insert"; }
		else if (tamper == 3) { size_t p = g.below(wire.size()); wire.erase(p, 1); first_bad = p; tname = "delete"; }
		else if (tamper == 4 && wires.size() >= 2) { // replay: the last message once more
			first_bad = wire.size(); wire += wires.back().substr((enc && wires.size() == 1) ? 16 : 0); tname = "replay"; }
		else if (tamper == 5 && wires.size() >= 3) { // reorder the last two messages
			std::string w = ""; for (size_t i = 0; i + 2 < wires.size(); i++) w += wires[i]; first_bad = w.size(); w += wires[wires.size() - 1] + wires[wires.size() - 2]; wire = w; tname = "reorder"; }
		else if (tamper == 6 && wires.size() >= 2) { // remove a whole message in the middle
			size_t k = g.below(wires.size() - 1); std::string w; for (size_t i = 0; i < wires.size(); i++) { if (i == k && !(enc && k == 0)) { first_bad = w.size(); continue; } w += wires[i]; } wire = w; tname = "remove"; }
		else if (tamper == 7 && enc && wire.size() > 16) { size_t p = g.below(16); wire[p] ^= (1 << g.below(8)); first_bad = p; tname = "flip-iv"; }
		else tamper = 0;
		// ---- receiver under a fragmentation schedule
		std::vector<Z> got; size_t pushed = 0, idle = 0, fails = 0; std::string in_pipe; size_t dec_calls = 0;
		int style = g.below(4); // 0: byte by byte, 1: whole, 2: random chunks, 3: message boundaries
		if (style == 0 && wire.size() > 600) style = 2;
		size_t guard = 0; bool exhausted = true;
		while (guard++ < 60000) {
			bool can_push = pushed < wire.size();
			if (can_push && (idle > 0 || g.below(3) != 0 || in_pipe.empty())) {
				size_t k = (style == 0) ? 1 : (style == 1) ? wire.size() : (style == 2) ? 1 + g.below(70) : 1 + g.below(700);
				if (g.below(9) == 0) k = 0; // empty push
				k = std::min(k, wire.size() - pushed);
				if (k && write(ch.h2b[1], wire.data() + pushed, k) != (ssize_t)k) return 4;
				in_pipe += wire.substr(pushed, k); pushed += k; idle = 0;
				if (g.coin()) continue;
			}
			Z m; size_t i_out = 0; RxState before; size_t nr_before = ch.B->numRead;
			if (modelled) before = rx_state(Bs, auth, enc);
			cryptolog.clear();
			bool ret = ch.B->Receive(m, i_out, aiounicast::aio_scheduler_direct, 0);
			size_t consumed = ch.B->numRead - nr_before; std::string pipe_before = in_pipe; in_pipe = in_pipe.substr(consumed);
			size_t ndec = 0; for (auto &cl : cryptolog.ciphers) if (!cl.encrypt) ndec++;
			// classify the result: value / fail (complete message refused) / none (nothing complete)
			std::string res;
			if (ret) { res = "value:" + m.str(); got.push_back(m); idle = 0; fails = 0; }
			else {
				bool any_verify_fail = false; for (auto &ml : cryptolog.macs) if (ml.verify == 1) any_verify_fail = true;
				// a refused complete message shows as a failed tag, a decrypt call, or a consumed line
				bool complete_refused = any_verify_fail || ndec > 0;
				if (modelled && !complete_refused) { RxState after = rx_state(Bs, auth, enc); if (after.buf.size() + 0 < before.buf.size() + consumed - ((enc && !before.ivseen && after.ivseen) ? 16 : 0)) complete_refused = true; }
				res = complete_refused ? "fail" : "none";
				if (complete_refused) fails++; else idle++;
			}
			if (modelled) {
				RxState after = rx_state(Bs, auth, enc);
				emit(std::string("aio.recv ") + (auth ? "1 " : "0 ") + (enc ? "1 " : "0 ") + "2 " + bytes_hex(before.buf) + " " + (before.flag ? "1 " : "0 ") + (before.ivseen ? "1 " : "0 ") + before.sqn + " " + std::to_string(dec_calls) + " " + bytes_hex(pipe_before) + " " + mac_log(true) + " " + cipher_log(false) +
					" => " + bytes_hex(after.buf) + " " + (after.flag ? "1 " : "0 ") + (after.ivseen ? "1 " : "0 ") + after.sqn + " " + std::to_string(dec_calls + ndec) + " " + bytes_hex(in_pipe) + " " + res);
			}
			dec_calls += ndec;
			if (!can_push && in_pipe.empty() && (idle >= 2 || fails >= 3)) { exhausted = false; break; }
		}
		if (exhausted) { emit("prop.aio.harness-step-limit 0 => skipped"); continue; }
		// ---- whole-scenario facts for the property predicate
		size_t good_prefix = 0; { size_t off = 0; for (size_t i = 0; i < wires.size(); i++) { off += wires[i].size(); if (off <= first_bad) good_prefix = i + 1; } }
		emit(std::string("prop.aio ") + (auth ? "1 " : "0 ") + (enc ? "1 " : "0 ") + (chunked ? "1 " : "0 ") + (nb ? "nonblock " : "select ") + tname + " " + std::to_string(good_prefix) + " " + zlist(sent.begin(), sent.end()) + " => " + zlist(got.begin(), got.end()));
	}
	// ---- back-pressure on the non-blocking class: the sender's pipe is small and fills up; every message for
	// which Send() returned true must arrive, in order (untampered stream)
	for (int mode = 0; mode < 2; mode++) {
		bool auth = mode == 1, enc = mode == 1;
		Chan ch(auth, enc, false, true);
		fcntl(ch.a2h[1], F_SETPIPE_SZ, 4096); set_nonblock(ch.h2b[1]);
		std::vector<Z> sent, got; std::string pending;
		auto pump = [&]() {
			pending += drain(ch.a2h[0]);
			while (!pending.empty()) { ssize_t k = write(ch.h2b[1], pending.data(), pending.size()); if (k <= 0) break; pending.erase(0, (size_t)k); }
			for (int idle = 0; idle < 2; ) { Z m; size_t i_out = 0; if (ch.B->Receive(m, i_out, aiounicast::aio_scheduler_direct, 0)) { got.push_back(m); idle = 0; } else idle++; }
		};
		g_sleep_calls = 0; g_sleep_hook = pump;
		size_t nmsg = 20 + g.below(12);
		for (size_t i = 0; i < nmsg; i++) {
			Z m; gen_bits(m, g, (i % 5 == 4) ? 64 : 9000 + g.below(2500)); if (!enc && g.below(7) == 0) mpz_neg(m, m);
			if (ch.A->Send(m, 1, 30)) sent.push_back(m);
		}
		g_sleep_hook = nullptr;
		for (int k = 0; k < 50 && (k < 3 || !pending.empty()); k++) pump();
		emit(std::string("prop.aio.backpressure ") + (auth ? "1 " : "0 ") + (enc ? "1 " : "0 ") + std::to_string(nmsg) + " " + std::to_string(g_sleep_calls) + " => " + (g_sleep_calls ? "exercised" : "NOT-EXERCISED"));
		emit(std::string("prop.aio ") + (auth ? "1 " : "0 ") + (enc ? "1 " : "0 ") + "0 nonblock none " + std::to_string(sent.size()) + " " + zlist(sent.begin(), sent.end()) + " => " + zlist(got.begin(), got.end()));
	}
	cryptolog.log = false;
	return 0;
}
REGISTER_DRIVER("aio", drv_aio);
