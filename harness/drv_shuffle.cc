// C02: stack secrets, mixing, glueing, the importer's bijection check.
#include "common.hh"
#include <memory>

static std::string cards_str(const TMCG_Stack<VTMF_Card> &s) {
	std::string r = "["; for (size_t i = 0; i < s.size(); i++) { if (i) r += ","; r += zs(s[i].c_1) + ":" + zs(s[i].c_2); } return r + "]";
}
static std::string ss_str(const TMCG_StackSecret<VTMF_CardSecret> &ss) {
	std::string r = "["; for (size_t i = 0; i < ss.size(); i++) { if (i) r += ","; r += std::to_string(ss[i].first) + ":" + zs(ss[i].second.r); } return r + "]";
}
static std::string idx_str(const std::vector<size_t> &v) {
	std::string r = "["; for (size_t i = 0; i < v.size(); i++) { if (i) r += ","; r += std::to_string(v[i]); } return r + "]";
}

static int drv_shuffle(const Opts &o)
{
	SplitMix g(o.seed ^ 0x73687566);
	bool thorough = (o.tier == "thorough");
	coins.log = true;
	for (uint64_t c = 0; c < o.cases; c++) {
		unsigned pbits = (c % 9 == 8) ? (thorough ? 1024 : 256) : (c % 3 == 0 ? 64 : 128), qbits = pbits / 2 < 160 ? pbits / 2 : 160;
		SmallGroup sg = make_group(g, pbits, qbits);
		std::ostringstream grp; grp << sg.p.v << std::endl << sg.q.v << std::endl << sg.g.v << std::endl << sg.k.v << std::endl;
		std::istringstream gin(grp.str());
		std::unique_ptr<BarnettSmartVTMF_dlog> vtmf(new BarnettSmartVTMF_dlog(gin, pbits, qbits, false, true));
		vtmf->KeyGenerationProtocol_GenerateKey(); vtmf->KeyGenerationProtocol_Finalize();
		size_t w = 1 + g.below(6);
		SchindelhauerTMCG tmcg(16, 1, w);
		size_t n = 1 + ((c % 4 == 0) ? g.below(4) : (c % 4 == 1) ? g.below(16) : g.below(thorough ? 120 : 40));
		// a stack with repeated types
		TMCG_Stack<VTMF_Card> s, s2, s3; std::vector<size_t> types;
		for (size_t i = 0; i < n; i++) {
			VTMF_Card cd; VTMF_CardSecret cs; size_t T = g.below(g.coin() ? 2 : (1UL << w));
			if (g.coin()) tmcg.TMCG_CreateOpenCard(cd, vtmf.get(), T); else tmcg.TMCG_CreatePrivateCard(cd, cs, vtmf.get(), T);
			s.push(cd); types.push_back(T);
		}
		// fresh stack secret (permutation or rotation): raw words -> index vector
		bool cyclic = (c % 3 == 1);
		TMCG_StackSecret<VTMF_CardSecret> ss, ss2;
		coins.take();
		std::string created = guarded([&]() { size_t off = tmcg.TMCG_CreateStackSecret(ss, cyclic, n, vtmf.get()); return std::to_string(off); });
		{
			std::vector<CoinLogEntry> es = coins.take(); std::vector<uint64_t> words;
			for (auto &e : es) { if (e.bytes.size() != 8) break; uint64_t x; memcpy(&x, e.bytes.data(), 8); words.push_back(x); }
			std::vector<size_t> idx; for (size_t i = 0; i < ss.size(); i++) idx.push_back(ss[i].first);
			if (created.compare(0, 5, "throw")) {
				if (cyclic) emit("rng.rot " + std::to_string(n) + " " + ulist(words) + " => " + idx_str(idx) + " " + created + " " + std::to_string(words.size()));
				else emit("rng.fy " + std::to_string(n) + " " + ulist(words) + " => " + idx_str(idx) + " " + std::to_string(words.size()));
			} else { emit("rng.rot " + std::to_string(n) + " " + ulist(words) + " => " + created); continue; }
		}
		// occasionally a non-bijective (but in-range) index vector: MixStack itself does not care
		if (g.below(5) == 0) for (size_t i = 0; i < ss.size(); i++) if (g.below(3) == 0) ss[i].first = g.below(n);
		bool tap = g.coin();
		tmcg.TMCG_MixStack(s, s2, ss, vtmf.get(), tap);
		emit("stack.mix " + sg.p.str() + " " + sg.q.str() + " " + sg.g.str() + " " + zs(vtmf->h) + " " + (tap ? "1" : "0") + " " + cards_str(s) + " " + ss_str(ss) + " => " + cards_str(s2));
		// open every card of the mixed stack (single player holds the whole key): types follow the index vector
		{
			std::vector<size_t> idx, tout;
			for (size_t i = 0; i < s2.size(); i++) {
				idx.push_back(ss[i].first);
				tmcg.TMCG_SelfCardSecret(s2[i], vtmf.get());
				tout.push_back(tmcg.TMCG_TypeOfCard(s2[i], vtmf.get()));
			}
			emit("stack.types " + idx_str(types) + " " + idx_str(idx) + " => " + idx_str(tout));
		}
		// glue: second secret, mix twice vs mix once with the glued secret
		tmcg.TMCG_CreateStackSecret(ss2, (c % 6 == 1), n, vtmf.get());
		std::string sigma_s = ss_str(ss), pi_s = ss_str(ss2);
		bool bij = true; for (size_t i = 0; i < n; i++) if (!ss.find(i)) bij = false;
		if (bij) { // GlueStackSecret asserts that every index is found in sigma
			tmcg.TMCG_MixStack(s2, s3, ss2, vtmf.get(), tap);
			tmcg.TMCG_GlueStackSecret(ss, ss2, vtmf.get());
			emit("stack.glue " + sg.q.str() + " " + sigma_s + " " + pi_s + " => " + ss_str(ss2));
			TMCG_Stack<VTMF_Card> s4; tmcg.TMCG_MixStack(s, s4, ss2, vtmf.get(), tap);
			emit(std::string("stack.mixglue-equal ") + std::to_string(n) + " => " + ((s3 == s4) ? "1" : "0"));
		}
	}
	// ---- quadratic-residuosity encoding: k players, stacks of TMCG_Cards
	for (uint64_t c = 0; c < o.cases / 2 + 1; c++) {
		size_t k = 1 + g.below(c % 4 == 0 ? 6 : 4), w = 1 + g.below(5);
		unsigned bits = (c % 3 == 0) ? 10 : 32;
		std::vector<TMCG_SecretKey> sks(k); TMCG_PublicKeyRing ring(k);
		Z eight(8L);
		for (size_t i = 0; i < k; i++) {
			TMCG_SecretKey &sk = sks[i];
			for (;;) { gen_bits(sk.p, g, bits); mpz_setbit(sk.p, bits - 1); mpz_setbit(sk.p, 0); mpz_setbit(sk.p, 1); mpz_nextprime(sk.p, sk.p); if (mpz_congruent_ui_p(sk.p, 3, 4)) break; }
			do { gen_bits(sk.q, g, bits); mpz_setbit(sk.q, bits - 1); mpz_setbit(sk.q, 0); mpz_setbit(sk.q, 1); mpz_nextprime(sk.q, sk.q); } while (!mpz_congruent_ui_p(sk.q, 3, 4) || mpz_congruent_p(sk.p, sk.q, eight));
			mpz_mul(sk.m, sk.p, sk.q); mpz_set_ui(sk.y, 1);
			do mpz_add_ui(sk.y, sk.y, 1); while ((mpz_jacobi(sk.y, sk.m) != 1) || tmcg_mpz_qrmn_p(sk.y, sk.p, sk.q));
			mpz_set(ring.keys[i].m, sk.m); mpz_set(ring.keys[i].y, sk.y);
		}
		SchindelhauerTMCG tmcg(16, k, w);
		size_t n = 2 + g.below(8), index = g.below(k);
		TMCG_Stack<TMCG_Card> s, s2, s3, s4; std::vector<size_t> types;
		for (size_t i = 0; i < n; i++) {
			TMCG_Card cd(k, w); size_t T = g.below(g.coin() ? 2 : (1UL << w));
			if (g.coin()) tmcg.TMCG_CreateOpenCard(cd, ring, T); else { TMCG_CardSecret cs(k, w); tmcg.TMCG_CreatePrivateCard(cd, cs, ring, g.below(k), T); }
			s.push(cd); types.push_back(T);
		}
		bool cyclic = (c % 3 == 1);
		TMCG_StackSecret<TMCG_CardSecret> ss, ss2;
		tmcg.TMCG_CreateStackSecret(ss, cyclic, ring, index, n);
		for (size_t i = 0; i < ss.size(); i++) { std::string b1 = "["; for (size_t a = 0; a < k; a++) for (size_t b = 0; b < w; b++) { if (b1.size() > 1) b1 += ","; b1 += zs(&ss[i].second.b[a][b]); } b1 += "]";
			emit("tmcg.secret " + std::to_string(k) + " " + std::to_string(w) + " " + std::to_string(index) + " " + b1 + " => 1"); }
		tmcg.TMCG_MixStack(s, s2, ss, ring, g.coin());
		auto open_all = [&](const TMCG_Stack<TMCG_Card> &st) { std::vector<size_t> out; for (size_t i = 0; i < st.size(); i++) { TMCG_CardSecret oc(k, w); for (size_t a = 0; a < k; a++) tmcg.TMCG_SelfCardSecret(st[i], oc, sks[a], a); out.push_back(tmcg.TMCG_TypeOfCard(oc)); } return out; };
		{ std::vector<size_t> idx; for (size_t i = 0; i < n; i++) idx.push_back(ss[i].first); emit("stack.types " + idx_str(types) + " " + idx_str(idx) + " => " + idx_str(open_all(s2))); }
		// a second shuffle by another player, and the glued secret
		size_t index2 = g.below(k);
		tmcg.TMCG_CreateStackSecret(ss2, (c % 6 == 1), ring, index2, n);
		tmcg.TMCG_MixStack(s2, s3, ss2, ring, true);
		{ std::vector<size_t> idx; for (size_t i = 0; i < n; i++) idx.push_back(ss[ss2[i].first].first); emit("stack.types " + idx_str(types) + " " + idx_str(idx) + " => " + idx_str(open_all(s3))); }
		tmcg.TMCG_GlueStackSecret(ss, ss2, ring);
		tmcg.TMCG_MixStack(s, s4, ss2, ring, true);
		emit(std::string("stack.mixglue-equal ") + std::to_string(n) + " => " + ((s3 == s4) ? "1" : "0"));
	}
	// the importer's index check: exhaustive over all n^n vectors for n <= 4 (5 in thorough), random beyond
	size_t maxn = thorough ? 5 : 4;
	for (size_t n = 1; n <= maxn; n++) {
		std::vector<size_t> idx(n, 0);
		for (;;) {
			std::ostringstream t; t << "sts^" << n << "^"; for (size_t i = 0; i < n; i++) t << idx[i] << "^crs|" << (i + 1) << "|^";
			TMCG_StackSecret<VTMF_CardSecret> imp; bool ok = imp.import(t.str());
			emit("stack.idxok " + idx_str(idx) + " => " + (ok ? "1" : "0"));
			size_t i = 0; while (i < n) { if (++idx[i] < n + 1) break; idx[i] = 0; i++; } // values 0..n (n itself is out of range)
			if (i == n) break;
		}
	}
	for (uint64_t c = 0; c < o.cases; c++) {
		size_t n = 1 + g.below(c % 2 ? 12 : 520);
		std::vector<size_t> idx(n); for (size_t i = 0; i < n; i++) idx[i] = i;
		for (size_t a = n; a > 1; a--) std::swap(idx[a - 1], idx[g.below(a)]);
		int how = g.below(4);
		if (how == 1) idx[g.below(n)] = g.below(n);            // near-bijective: one entry overwritten
		else if (how == 2) idx[g.below(n)] = n + g.below(3);   // out of range
		std::ostringstream t; t << "sts^" << n << "^"; for (size_t i = 0; i < n; i++) t << idx[i] << "^crs|" << (i + 1) << "|^";
		TMCG_StackSecret<VTMF_CardSecret> imp; bool ok = imp.import(t.str());
		emit("stack.idxok " + idx_str(idx) + " => " + (ok ? "1" : "0"));
	}
	return 0;
}
REGISTER_DRIVER("shuffle", drv_shuffle);
