// C12, area `parse2`: grammar-aware BOUNDARY generator for the OpenPGP packet decoder.
//
// For every packet tag and every signature subpacket type a well-formed instance is built and every
// length field (packet length in all forms incl. partial, five-octet and the old format; subpacket
// length in its 1/2/5-octet forms; hashed/unhashed area lengths; MPI bit counts; S2K fields; OID,
// key-wrap, file-name and IV lengths; counts of the experimental key formats) is swept through
// {0, 1, cap-1, cap, cap+1, cap+2, 2^16-1, 2^16, 2^32-1 and near-wrap values}, cap being
// sizeof(the array of tmcg_openpgp_packet_ctx_t) it is compared with, each with a body that is long
// enough, exactly long enough and one octet short; plus truncation of every well-formed instance at
// every offset.  Each case runs the real decoder in a forked ASan/UBSan child (plumbing of
// drv_parse.cc):
//
//   parse2.pkt <hex> tag:<class> => ok <ret> <consumed> l=<hspd>,<enc>,<comp>,<data>,<uid>,<uat> f=<rkw>,<oid>,<fname> | refused | trap:<kind>
//   parse2.sub <hex> tag:<class> => ok <type> <consumed> <critical> | refused | trap:<kind>
//   prop.parse2.<parser> <hex of the armor> => ok | reject | trap:<kind>          (SignatureParse, PublicKeyBlockParse, MessageParse …)
//
// The Lean driver (Tmcg/DriverPgpBounds.lean) prints the bounds model's verdict for the same octets.
#include "common.hh"
#include <sys/resource.h>
#include <unistd.h>
#include <sys/wait.h>
#include <signal.h>
#include <fcntl.h>
#include <fstream>
#include <set>
#include <map>
#include <time.h>

typedef std::vector<unsigned char> Oct;
typedef CallasDonnerhackeFinneyShawThayerRFC4880 PGP;
typedef std::function<std::string(const Oct &)> Target2;

static std::string in_child2(const Target2 &f, const Oct &input, unsigned seconds = 20)
{
	int pfd[2]; if (pipe(pfd)) return "harness-error";
	fflush(stdout); fflush(stderr);
	pid_t pid = fork();
	if (pid == 0) {
		close(pfd[0]);
		struct rlimit rl; rl.rlim_cur = seconds; rl.rlim_max = seconds + 5; setrlimit(RLIMIT_CPU, &rl);
		alarm(seconds * 10);
		int devnull = open("/dev/null", O_WRONLY); if (devnull >= 0) dup2(devnull, 2);
		std::string r = guarded([&]() { return f(input); });
		(void)!write(pfd[1], r.data(), r.size());
		_exit(0);
	}
	close(pfd[1]);
	std::string r; char b[256]; ssize_t k; while ((k = read(pfd[0], b, sizeof b)) > 0) r.append(b, k);
	close(pfd[0]);
	int st = 0; waitpid(pid, &st, 0);
	if (WIFSIGNALED(st)) return (WTERMSIG(st) == SIGALRM || WTERMSIG(st) == SIGXCPU || WTERMSIG(st) == SIGKILL) ? "timeout" : "trap:signal" + std::to_string(WTERMSIG(st));
	if (WIFEXITED(st) && WEXITSTATUS(st) != 0) return "trap:sanitizer-or-abort(exit" + std::to_string(WEXITSTATUS(st)) + ")";
	if (r.empty()) return "trap:no-result";
	return r;
}

// ---- the real decoders
static std::string real_pkt(const Oct &input)
{
	tmcg_openpgp_octets_t in(input.begin(), input.end()), cur; tmcg_openpgp_packet_ctx_t ctx;
	tmcg_openpgp_notations_t nt; tmcg_openpgp_multiple_octets_t es, rf;
	size_t before = in.size();
	tmcg_openpgp_byte_t ret = PGP::PacketDecode(in, 0, ctx, cur, nt, es, rf);
	std::string out;
	if (ret == 0) out = "refused";
	else {
		std::ostringstream o; o << "ok " << (int)ret << " " << (before - in.size())
			<< " l=" << ctx.hspdlen << "," << ctx.encdatalen << "," << ctx.compdatalen << "," << ctx.datalen << "," << ctx.uiddatalen << "," << ctx.uatdatalen
			<< " f=" << ctx.rkwlen << "," << ctx.curveoidlen << "," << ctx.datafilenamelen;
		out = o.str();
	}
	PGP::PacketContextRelease(ctx);
	return out;
}
static std::string real_sub(const Oct &input)
{
	tmcg_openpgp_octets_t in(input.begin(), input.end()); tmcg_openpgp_packet_ctx_t ctx; memset(&ctx, 0, sizeof(ctx));
	size_t before = in.size();
	tmcg_openpgp_byte_t ty = PGP::SubpacketDecode(in, 0, ctx);
	std::string out;
	if (ty == 0) out = "refused";
	else { std::ostringstream o; o << "ok " << (int)ty << " " << (before - in.size()) << " " << (ctx.critical ? 1 : 0); out = o.str(); }
	PGP::PacketContextRelease(ctx);
	return out;
}
static std::string armor_of(tmcg_openpgp_armor_t t, const Oct &raw)
{
	tmcg_openpgp_octets_t oct(raw.begin(), raw.end()); std::string out; PGP::ArmorEncode(t, oct, out); return out;
}
static std::string grp(bool r) { return r ? "ok" : "reject"; }
static std::string real_sigparse(const Oct &raw) { TMCG_OpenPGP_Signature *sig = NULL; bool r = PGP::SignatureParse(armor_of(TMCG_OPENPGP_ARMOR_SIGNATURE, raw), 0, sig); if (r && sig) delete sig; return grp(r); }
static std::string real_sigsparse(const Oct &raw) { TMCG_OpenPGP_Signatures sigs; bool r = PGP::SignaturesParse(armor_of(TMCG_OPENPGP_ARMOR_SIGNATURE, raw), 0, sigs); for (size_t i = 0; i < sigs.size(); i++) delete sigs[i]; return grp(r); }
static std::string real_pubparse(const Oct &raw) { TMCG_OpenPGP_Pubkey *pub = NULL; bool r = PGP::PublicKeyBlockParse(armor_of(TMCG_OPENPGP_ARMOR_PUBLIC_KEY_BLOCK, raw), 0, pub); if (r && pub) delete pub; return grp(r); }
static std::string real_prvparse(const Oct &raw) { TMCG_OpenPGP_Prvkey *prv = NULL; bool r = PGP::PrivateKeyBlockParse(armor_of(TMCG_OPENPGP_ARMOR_PRIVATE_KEY_BLOCK, raw), 0, "", prv); if (r && prv) delete prv; return grp(r); }
static std::string real_msgparse(const Oct &raw) { TMCG_OpenPGP_Message *msg = NULL; bool r = PGP::MessageParse(armor_of(TMCG_OPENPGP_ARMOR_MESSAGE, raw), 0, msg); if (r && msg) delete msg; return grp(r); }
static std::string real_ringparse(const Oct &raw) { TMCG_OpenPGP_Keyring *ring = NULL; bool r = PGP::PublicKeyringParse(armor_of(TMCG_OPENPGP_ARMOR_PUBLIC_KEY_BLOCK, raw), 0, ring); if (r && ring) delete ring; return grp(r); }

// ---- octet helpers
static Oct cat(const Oct &a, const Oct &b) { Oct r = a; r.insert(r.end(), b.begin(), b.end()); return r; }
static Oct cat(const Oct &a, const Oct &b, const Oct &c) { return cat(cat(a, b), c); }
static Oct rnd(SplitMix &g, size_t n) { Oct r(n); for (auto &x : r) x = (unsigned char)g.below(256); return r; }
static Oct fill(size_t n, unsigned char v = 0x41) { return Oct(n, v); }
static void be16(Oct &o, uint32_t v) { o.push_back((unsigned char)(v >> 8)); o.push_back((unsigned char)v); }
static void be32(Oct &o, uint32_t v) { o.push_back((unsigned char)(v >> 24)); o.push_back((unsigned char)(v >> 16)); o.push_back((unsigned char)(v >> 8)); o.push_back((unsigned char)v); }
static Oct take(const Oct &a, size_t n) { return Oct(a.begin(), a.begin() + std::min(n, a.size())); }

// length forms of the new format: 1, 2, 5 octets (0 = shortest); a length a form cannot carry falls back to 5
static void newlen(Oct &o, uint32_t n, int form)
{
	if (form == 0) form = n < 192 ? 1 : n < 8384 ? 2 : 5;
	if (form == 1 && n < 192) o.push_back((unsigned char)n);
	else if (form == 2 && n >= 192 && n < 8384) { uint32_t m = n - 192; o.push_back((unsigned char)((m >> 8) + 192)); o.push_back((unsigned char)m); }
	else { o.push_back(0xFF); be32(o, n); }
}
// an MPI with a claimed bit count and `have` octets of magnitude
static Oct mpi(uint32_t bits, size_t have, unsigned char top = 0x81) { Oct o; be16(o, bits); for (size_t i = 0; i < have; i++) o.push_back(i ? (unsigned char)(0x11 * (i % 15 + 1)) : top); return o; }
static Oct mpi_ok(uint32_t bits) { return mpi(bits, (bits + 7) / 8); }
static Oct mpi_val(uint32_t v) { Oct o; uint32_t b = 0; for (uint32_t t = v; t; t >>= 1) b++; be16(o, b); for (int i = (int)((b + 7) / 8) - 1; i >= 0; i--) o.push_back((unsigned char)(v >> (8 * i))); return o; }

// packet framing: header octet + length in the given form + body.  forms: 1,2,5 new; 10,11,12,13 old (lentype 0..3)
static Oct framed(int tag, const Oct &body, int form, uint32_t claimed)
{
	Oct o;
	if (form >= 10) { o.push_back((unsigned char)(0x80 | ((tag & 15) << 2) | (form - 10)));
		if (form == 10) o.push_back((unsigned char)claimed); else if (form == 11) be16(o, claimed); else if (form == 12) be32(o, claimed); }
	else { o.push_back((unsigned char)(0xC0 | (tag & 63))); newlen(o, claimed, form); }
	return cat(o, body);
}
static Oct pkt(int tag, const Oct &body) { return framed(tag, body, 0, (uint32_t)body.size()); }
// partial body lengths: chunks of 2^k octets, then a final length
static Oct partial(int tag, const Oct &body, const std::vector<int> &ks, int finalform = 0, long finaldelta = 0)
{
	Oct o; o.push_back((unsigned char)(0xC0 | (tag & 63))); size_t pos = 0;
	for (int k : ks) { o.push_back((unsigned char)(0xE0 | (k & 31))); size_t n = (size_t)1 << (k & 31); for (size_t i = 0; i < n && pos < body.size(); i++) o.push_back(body[pos++]); }
	size_t rest = body.size() - pos; newlen(o, (uint32_t)(rest + finaldelta), finalform); o.insert(o.end(), body.begin() + pos, body.end());
	return o;
}

// ---- subpackets
static Oct subpkt(int type, const Oct &body, int form = 0, long delta = 0) { Oct o; newlen(o, (uint32_t)(body.size() + 1 + delta), form); o.push_back((unsigned char)type); return cat(o, body); }
static Oct notation(size_t nl, size_t vl, size_t have, unsigned char flags = 0x80) { Oct b; b.push_back(flags); b.push_back(0); b.push_back(0); b.push_back(0); be16(b, (uint32_t)nl); be16(b, (uint32_t)vl); return cat(b, fill(have, 0x6e)); }

// a V4/V5 signature body with explicit area length claims
static Oct sigbody(int ver, int pkalgo, const Oct &hashed, long hclaim, const Oct &unhashed, long uclaim, const Oct &tail)
{
	Oct b; b.push_back((unsigned char)ver); b.push_back(0x00); b.push_back((unsigned char)pkalgo); b.push_back(8);
	be16(b, (uint32_t)(hclaim < 0 ? hashed.size() : hclaim)); b = cat(b, hashed);
	be16(b, (uint32_t)(uclaim < 0 ? unhashed.size() : uclaim)); b = cat(b, unhashed);
	return cat(b, tail);
}
static Oct sigtail(int pkalgo) { Oct t; t.push_back(0x12); t.push_back(0x34); t = cat(t, mpi_ok(17)); if (pkalgo == 17 || pkalgo == 19 || pkalgo == 22) t = cat(t, mpi_ok(9)); return t; }
static Oct sig4(const Oct &hashed, const Oct &unhashed, int pkalgo = 1, int ver = 4) { return sigbody(ver, pkalgo, hashed, -1, unhashed, -1, sigtail(pkalgo)); }
static Oct sig3(int pkalgo) { Oct b; b.push_back(3); b.push_back(5); b.push_back(0); be32(b, 0x5f000000); b = cat(b, fill(8, 0x77)); b.push_back((unsigned char)pkalgo); b.push_back(8); return cat(b, sigtail(pkalgo)); }

// ---- keys
static Oct key_head(int ver, int algo) { Oct b; b.push_back((unsigned char)ver); be32(b, 0x5f000001); b.push_back((unsigned char)algo); if (ver == 5) be32(b, 0); return b; }
static Oct oid(size_t claimed, size_t have) { Oct o; o.push_back((unsigned char)claimed); return cat(o, fill(have, 0x2b)); }
static Oct pubmat(int algo)
{
	switch (algo) {
	case 1: case 2: case 3: return cat(mpi_ok(17), mpi_ok(9));
	case 16: return cat(mpi_ok(17), mpi_ok(2), mpi_ok(14));
	case 17: return cat(cat(mpi_ok(17), mpi_ok(9)), cat(mpi_ok(14), mpi_ok(15)));
	case 18: { Oct k; k.push_back(3); k.push_back(1); k.push_back(8); k.push_back(7); return cat(oid(3, 3), mpi_ok(19), k); }
	case 19: case 22: return cat(oid(3, 3), mpi_ok(19));
	default: return mpi_ok(9);
	}
}
// experimental formats: p q g h y n t i qualsize [qual] (x_rvss_qualsize [x_rvss_qual])? [capl] [v_i] [c_ik]
static Oct str_ok(size_t n) { Oct o; newlen(o, (uint32_t)n, 0); return cat(o, fill(n, 0x70)); }
static void app(Oct &b, const Oct &x) { b.insert(b.end(), x.begin(), x.end()); }
static Oct xmat(int algo, uint32_t n, uint32_t t, uint32_t i, uint32_t qs, uint32_t xqs, long drop_mpis = 0)
{
	Oct b; for (int k = 0; k < 5; k++) app(b, mpi_ok(10 + k));
	app(b, mpi_val(n)); app(b, mpi_val(t)); app(b, mpi_val(i)); app(b, mpi_val(qs));
	for (uint32_t j = 0; j < qs && j < 300; j++) app(b, mpi_val(j));
	if (algo == 107) { app(b, mpi_val(xqs)); for (uint32_t j = 0; j < xqs && j < 300; j++) app(b, mpi_val(j)); for (uint32_t j = 0; j < n && j < 300; j++) app(b, str_ok(3)); }
	if (algo == 108) for (uint32_t j = 0; j < qs && j < 300; j++) app(b, str_ok(3));
	if (algo == 109) for (uint32_t j = 0; j < n && j < 300; j++) app(b, mpi_val(j + 1));
	long cnt = (long)std::min<uint32_t>(n, 300) * (long)(std::min<uint32_t>(t, 200) + 1) - drop_mpis;
	Oct five = mpi_val(5); for (long j = 0; j < cnt; j++) app(b, five);
	return b;
}
static size_t nsecret(int algo) { return (algo == 1 || algo == 2 || algo == 3) ? 4 : (algo == 107 || algo == 108 || algo == 109) ? 2 : 1; }
static Oct secret_plain(int ver, int algo, long sumdelta = 0)
{
	Oct s; for (size_t k = 0; k < nsecret(algo); k++) s = cat(s, mpi_ok(9 + (uint32_t)k));
	uint32_t sum = 0; for (auto c : s) sum = (sum + c) & 0xFFFF; sum = (uint32_t)(sum + sumdelta) & 0xFFFF;
	Oct o; o.push_back(0); if (ver == 5) { o.push_back(0); be32(o, (uint32_t)s.size()); } o = cat(o, s); be16(o, sum); return o;
}
static Oct secret_prot(int ver, int conv, int skalgo, int s2k, size_t ivhave, size_t data, int aead = 1)
{
	Oct o; o.push_back((unsigned char)conv); if (ver == 5) o.push_back(0); o.push_back((unsigned char)skalgo); if (conv == 253) o.push_back((unsigned char)aead);
	o.push_back((unsigned char)s2k); o.push_back(8); if (s2k == 1 || s2k == 3) o = cat(o, fill(8, 0x5a)); if (s2k == 3) o.push_back(0x60);
	o = cat(o, fill(ivhave, 0x49)); if (ver == 5) be32(o, (uint32_t)data); return cat(o, fill(data, 0xee));
}

struct Gen {
	const Opts &o; SplitMix g; bool thorough; std::set<uint64_t> seen; uint64_t npkt = 0, nsub = 0, nprop = 0, ntrap = 0, nrefused = 0, nok = 0;
	std::vector<std::pair<Oct, std::string> > pool;      // well-formed and boundary packets for the high-level parsers / mutation
	Gen(const Opts &oo) : o(oo), g(oo.seed ^ 0x7061727332ULL), thorough(oo.tier == "thorough") {}
	static uint64_t fnv(const Oct &b, uint64_t h) { for (unsigned char c : b) { h ^= c; h *= 0x100000001b3ULL; } return h ^ (b.size() * 0x9e3779b97f4a7c15ULL); }
	void count(const std::string &out) { if (out.compare(0, 4, "trap") == 0 || out == "timeout") ntrap++; else if (out == "refused") nrefused++; else nok++; }
	// cases are run in batches inside one forked child (a fork of the sanitizer build costs tens of milliseconds): the child
	// answers case by case; when it dies, the case after the last answer is the one that trapped, and a new child goes on
	struct Pending { bool sub; Oct bytes; std::string cls; };
	std::vector<Pending> pending;
	void flush() {
		size_t i = 0; struct timespec t0; clock_gettime(CLOCK_MONOTONIC, &t0); std::string firstcls = pending.empty() ? "" : pending[0].cls; size_t np = pending.size();
		while (i < pending.size()) {
			int pfd[2]; if (pipe(pfd)) { fprintf(stderr, "pipe failed\n"); exit(2); }
			fflush(stdout); fflush(stderr);
			pid_t pid = fork();
			if (pid == 0) {
				close(pfd[0]);
				struct rlimit rl; rl.rlim_cur = 60; rl.rlim_max = 65; setrlimit(RLIMIT_CPU, &rl); alarm(600);
				int devnull = open("/dev/null", O_WRONLY); if (devnull >= 0) dup2(devnull, 2);
				for (size_t j = i; j < pending.size(); j++) {
					const Pending &c = pending[j];
					std::string r = guarded([&]() { return c.sub ? real_sub(c.bytes) : real_pkt(c.bytes); }) + "\n";
					(void)!write(pfd[1], r.data(), r.size());
				}
				_exit(0);
			}
			close(pfd[1]);
			std::string r; char b[4096]; ssize_t k; while ((k = read(pfd[0], b, sizeof b)) > 0) r.append(b, k);
			close(pfd[0]);
			int st = 0; waitpid(pid, &st, 0);
			std::vector<std::string> outs; { size_t a = 0; for (;;) { size_t nl = r.find('\n', a); if (nl == r.npos) break; outs.push_back(r.substr(a, nl - a)); a = nl + 1; } }
			bool clean = WIFEXITED(st) && WEXITSTATUS(st) == 0 && outs.size() == pending.size() - i;
			if (!clean && outs.size() < pending.size() - i) {
				std::string why = WIFSIGNALED(st) ? ((WTERMSIG(st) == SIGALRM || WTERMSIG(st) == SIGXCPU || WTERMSIG(st) == SIGKILL) ? "timeout" : "trap:signal" + std::to_string(WTERMSIG(st)))
					: (WIFEXITED(st) && WEXITSTATUS(st) != 0) ? "trap:sanitizer-or-abort(exit" + std::to_string(WEXITSTATUS(st)) + ")" : "trap:no-result";
				outs.push_back(why);
			}
			for (size_t j = 0; j < outs.size(); j++, i++) { const Pending &c = pending[i]; count(outs[j]);
				emit(std::string(c.sub ? "parse2.sub " : "parse2.pkt ") + hexs(c.bytes) + " tag:" + c.cls + " => " + outs[j]); }
		}
		pending.clear();
		if (getenv("VERIF_P2_TIMING")) { struct timespec t1; clock_gettime(CLOCK_MONOTONIC, &t1); fprintf(stderr, "flush %zu cases from %s: %.2f s\n", np, firstcls.c_str(), (t1.tv_sec - t0.tv_sec) + 1e-9 * (t1.tv_nsec - t0.tv_nsec)); }
	}
	void P(const Oct &bytes, const std::string &cls, bool keep = false) {
		if (!seen.insert(fnv(bytes, 0xcbf29ce484222325ULL)).second) return;
		npkt++; pending.push_back({ false, bytes, cls }); if (pending.size() >= 256) flush();
		if (keep) pool.push_back(std::make_pair(bytes, cls));
	}
	void S(const Oct &bytes, const std::string &cls) {
		if (!seen.insert(fnv(bytes, 0x84222325cbf29ce4ULL)).second) return;
		nsub++; pending.push_back({ true, bytes, cls }); if (pending.size() >= 256) flush();
	}
	void H(const char *name, const Target2 &f, const Oct &raw) {
		flush();
		std::string out = in_child2(f, raw, 30); nprop++; if (out.compare(0, 4, "trap") == 0 || out == "timeout") ntrap++;
		std::string hx = hexs(raw); if (hx.size() > 1200 && out.compare(0, 4, "trap") && out != "timeout") hx = hx.substr(0, 1200) + "..";
		emit(std::string("prop.parse2.") + name + " " + hx + " => " + out);
	}
	// a body in a packet of the given tag: every length form around the true length, and every truncation
	void frames(int tag, const Oct &body, const std::string &cls, bool all_forms) {
		uint32_t n = (uint32_t)body.size();
		P(pkt(tag, body), cls + ":exact", true);
		std::vector<uint32_t> claims = { 0, 1, n - 1, n, n + 1, n + 2, 191, 192, 193, 8383, 8384, 65535, 65536, 0x7FFFFFFFu, 0x80000000u, 0xFFFFFFFEu, 0xFFFFFFFFu, 0xFFFFFFFFu - n, 0u - n, 1u - n };
		std::vector<int> forms = all_forms ? std::vector<int>{ 1, 2, 5, 10, 11, 12 } : std::vector<int>{ 5, 11 };
		for (int f : forms) for (uint32_t c : claims) {
			if (f == 1 && c >= 192) continue; if (f == 2 && (c < 192 || c >= 8384)) continue; if (f == 10 && c > 255) continue; if (f == 11 && c > 65535) continue;
			if (tag > 15 && f >= 10) continue;
			P(framed(tag, body, f, c), cls + ":len" + std::to_string(f) + ":" + (c == n ? "eq" : c + 1 == n ? "short1" : c == n + 1 ? "long1" : "x"));
		}
		if (tag <= 15) { Oct o; o.push_back((unsigned char)(0x80 | (tag << 2) | 3)); P(cat(o, body), cls + ":indet"); P(o, cls + ":indet-empty"); }
	}
	void truncations(int tag, const Oct &body, const std::string &cls, size_t step = 1) {
		for (size_t k = 0; k <= body.size(); k += (k < 64 || body.size() - k < 64) ? 1 : step) P(pkt(tag, take(body, k)), cls + ":trunc");
		Oct whole = pkt(tag, body); for (size_t k = 0; k < whole.size(); k += (k < 64 || whole.size() - k < 64) ? 1 : step) P(take(whole, k), cls + ":cut");
		P(cat(whole, fill(3, 0xC0)), cls + ":trailing");
	}
};

static int drv_parse2(const Opts &o)
{
	Gen G(o); SplitMix &g = G.g; const bool TH = G.thorough;
	tmcg_openpgp_packet_ctx_t *cx = NULL; (void)cx;
	const size_t CAP_STR = sizeof(cx->trustregex), CAP_ALG = sizeof(cx->psa), CAP_IV = sizeof(cx->iv), CAP_OID = sizeof(cx->curveoid), CAP_RKW = sizeof(cx->rkw),
		CAP_FN = sizeof(cx->datafilename), CAP_NN = sizeof(cx->notation_name), CAP_NV = sizeof(cx->notation_value), CAP_FPR = sizeof(cx->issuerfingerprint);
	struct timespec T0; clock_gettime(CLOCK_MONOTONIC, &T0);
	auto mark = [&](const char *what) { if (!getenv("VERIF_P2_TIMING")) return; struct timespec t1; clock_gettime(CLOCK_MONOTONIC, &t1); fprintf(stderr, "mark %s at %.2f s (%llu pkt, %llu sub)\n", what, (t1.tv_sec - T0.tv_sec) + 1e-9 * (t1.tv_nsec - T0.tv_nsec), (unsigned long long)G.npkt, (unsigned long long)G.nsub); };
	if (!o.val("--replay").empty()) { // in-process replay: parse2 --replay pkt|sub --hex <hex>
		std::string hx = o.val("--hex"); Oct b; for (size_t i = 0; i + 1 < hx.size(); i += 2) b.push_back((unsigned char)strtoul(hx.substr(i, 2).c_str(), NULL, 16));
		std::string r = guarded([&]() { return o.val("--replay") == "sub" ? real_sub(b) : real_pkt(b); }); emit("parse2." + o.val("--replay") + " " + hexs(b) + " => " + r); return 0; }

	mark("section 0");
	// ---------------------------------------------------------------- 0. the two inputs of findings F51 / F52 and their neighbours
	for (int tag : { 6, 14, 5, 7 }) for (int algo : { 18, 19, 22 }) for (size_t extra = 0; extra < 3; extra++)
		G.P(pkt(tag, cat(key_head(5, algo), fill(extra, 0x01))), "F51:v5-ecc-key-short");
	for (int tag : { 5, 7 }) for (int algo : { 1, 16, 17, 19 }) for (int conv : { 0, 254, 255, 253, 7 }) {
		Oct b = cat(key_head(5, algo), pubmat(algo)); b.push_back((unsigned char)conv); G.P(pkt(tag, b), "F52:v5-secret-ends-after-conv");
		b.push_back(0); G.P(pkt(tag, b), "F52:v5-secret-ends-after-count"); }

	mark("section 1");
	// ---------------------------------------------------------------- 1. subpackets through SubpacketDecode: every type, lengths at every bound
	struct SpB { int type; std::vector<size_t> lens; };
	std::vector<SpB> sp;
	auto around = [](std::initializer_list<size_t> cs) { std::vector<size_t> v = { 0, 1, 2 }; for (size_t c : cs) for (long d = -2; d <= 3; d++) if ((long)c + d >= 0) v.push_back(c + d); return v; };
	for (int t : { 2, 3, 9 }) sp.push_back({ t, around({ 4 }) });
	for (int t : { 4, 7, 25 }) sp.push_back({ t, around({ 1 }) });
	sp.push_back({ 5, around({ 2 }) });
	for (int t : { 6, 23, 24, 26, 28 }) sp.push_back({ t, around({ CAP_STR }) });
	for (int t : { 11, 21, 22, 27, 30, 34 }) sp.push_back({ t, around({ CAP_ALG }) });
	sp.push_back({ 12, around({ 22, 34 }) }); sp.push_back({ 16, around({ 8 }) });
	sp.push_back({ 29, around({ sizeof(cx->revocationreason) + 1 }) }); sp.push_back({ 31, around({ sizeof(cx->signaturetarget_hash) + 2 }) });
	sp.push_back({ 33, around({ 21, 33 }) }); sp.push_back({ 35, around({ 21, 33 }) });
	for (int t : { 32, 37 }) sp.push_back({ t, around({ 191, 8383 }) });
	for (int t : { 0, 1, 8, 10, 13, 19, 36, 38, 39, 100, 110, 111, 127 }) sp.push_back({ t, { 0, 1, 5, 190, 191, 192 } });
	if (TH) for (int t = 0; t < 128; t++) sp.push_back({ t, around({ 4, 8, 21, 33, CAP_ALG, CAP_STR }) });
	for (auto &s : sp) for (size_t len : s.lens) for (int form : { 0, 5, 2 }) for (int ver : { 4, 5, 0x80, 1 }) {
		if (form == 2 && (len + 1 < 192 || len + 1 >= 8384)) continue;
		if (ver != 4 && !(s.type == 33 || s.type == 35 || s.type == 12 || ((s.type == 4 || s.type == 7 || s.type == 25) && ver != 5))) continue;
		Oct body = fill(len, 0x55); if (len) body[0] = (unsigned char)(ver == 1 && s.type != 33 && s.type != 35 ? 1 : ver == 0x80 && (s.type == 4 || s.type == 7 || s.type == 25) ? 0 : ver); if (s.type == 12 && len && ver == 4) body[0] = 0x80;
		std::string cls = "sub" + std::to_string(s.type) + ":len" + std::to_string(len) + ":f" + std::to_string(form);
		for (int crit = 0; crit < 2; crit++) {
			if (crit && form != 0) continue;
			Oct whole = subpkt(s.type | (crit ? 0x80 : 0), body, form);
			G.S(whole, cls + ":exact"); if (crit) continue;
			G.S(take(whole, whole.size() - 1), cls + ":short1"); G.S(cat(whole, fill(1, 0x02)), cls + ":long1");
			if (form == 5) { G.S(subpkt(s.type, body, 5, 1), cls + ":claim+1"); G.S(subpkt(s.type, body, 5, -1), cls + ":claim-1"); }
		}
	}
	// subpacket headers: every first octet, every truncation of the length encoding, lengths near 2^32 (F44)
	for (int a = 0; a < 256; a += (TH ? 1 : 1)) { Oct h; h.push_back((unsigned char)a); G.S(h, "subhdr:1"); h.push_back(2); G.S(h, "subhdr:2"); h.push_back(0); G.S(h, "subhdr:3"); if (a >= 254 || a == 191 || a == 192) { h = cat(h, fill(2, 0)); G.S(h, "subhdr:5"); h.push_back(2); G.S(h, "subhdr:6"); h = cat(h, fill(4, 7)); G.S(h, "subhdr:10"); } }
	for (uint32_t len : { 0xFFFFFFFFu, 0xFFFFFFFEu, 0xFFFFFFFBu, 0xFFFFFFFAu, 0xFFFFFFF9u, 0x80000001u, 0x80000000u, 0x7FFFFFFFu, 0x00010001u, 0x00010000u, 0x0000FFFFu, 0x00002003u, 9u, 8u, 7u, 6u, 5u, 2u, 1u, 0u })
		for (int ty : { 2, 16, 20, 32, 100 }) for (size_t have : { (size_t)0, (size_t)4, (size_t)7, (size_t)8, (size_t)9 }) {
			Oct s; s.push_back(0xFF); be32(s, len); s.push_back((unsigned char)ty); G.S(cat(s, fill(have, 0)), "subhdr:wrap"); }
	// Notation Data: both lengths against both arrays, consistent and inconsistent totals
	{ std::vector<size_t> ls = { 0, 1, 2, CAP_NN - 1, CAP_NN, CAP_NN + 1, CAP_NN + 2, 65535 };
	  for (size_t nl : ls) for (size_t vl : ls) { if (!TH && nl > 2 && vl > 2 && !(nl == vl)) continue; if (nl + vl > 70000 && !(nl == 65535 && vl <= 2) && !(vl == 65535 && nl <= 2) && !TH) continue;
		for (long d : { 0L, -1L, 1L }) { if ((long)(nl + vl) + d < 0) continue; G.S(subpkt(20, notation(nl, vl, nl + vl + d)), "sub20:nl" + std::to_string(nl) + ":vl" + std::to_string(vl) + ":d" + std::to_string(d)); } }
	  for (size_t k = 0; k < 12; k++) G.S(subpkt(20, take(notation(3, 4, 7), k)), "sub20:trunc"); (void)CAP_NV; }

	mark("section 2");
	// ---------------------------------------------------------------- 2. signature packets: areas, subpackets at their bounds in either area, MPIs
	for (int ver : { 4, 5 }) for (int pk : { 1, 3, 17, 19, 22, 2, 16, 0 }) { Oct none; G.frames(2, sig4(subpkt(2, fill(4, 1)), subpkt(16, fill(8, 2)), pk, ver), "sig" + std::to_string(ver) + ":pk" + std::to_string(pk), pk == 1 && ver == 4); }
	for (int pk : { 1, 3, 17, 19, 22, 2, 0 }) { G.P(pkt(2, sig3(pk)), "sig3:pk" + std::to_string(pk), true); if (pk == 1 || pk == 17) G.truncations(2, sig3(pk), "sig3"); }
	{ Oct b = sig3(1); for (int l : { 0, 4, 5, 6, 255 }) { b[1] = (unsigned char)l; G.P(pkt(2, b), "sig3:lenoctet"); } for (int v : { 0, 1, 2, 6, 255 }) { b[0] = (unsigned char)v; G.P(pkt(2, b), "sig:version"); } }
	G.truncations(2, sig4(cat(subpkt(2, fill(4, 1)), subpkt(27, fill(1, 3))), subpkt(16, fill(8, 2)), 17), "sig4");
	{ // claimed area lengths against what is there
		Oct h = cat(subpkt(2, fill(4, 1)), subpkt(33, cat(fill(1, 4), fill(20, 9)))), u = subpkt(16, fill(8, 2));
		for (long hc : { 0L, 1L, (long)h.size() - 1, (long)h.size(), (long)h.size() + 1, (long)h.size() + 2, (long)(h.size() + u.size() + 2), 255L, 256L, 65535L })
			for (long uc : { -1L, 0L, 1L, (long)u.size() - 1, (long)u.size() + 1, 65535L }) G.P(pkt(2, sigbody(4, 1, h, hc, u, uc, sigtail(1))), "sig4:areaclaim");
		for (size_t pad : { (size_t)65535, (size_t)65534, (size_t)65536 - h.size() - 1 }) { Oct big = cat(h, subpkt(100, fill(pad - h.size() - 6, 0), 5)); G.P(pkt(2, sigbody(4, 1, big, -1, u, -1, sigtail(1))), "sig4:area64k"); G.P(pkt(2, sigbody(4, 1, u, -1, big, -1, sigtail(1))), "sig4:uarea64k"); }
	}
	for (auto &s : sp) { if (s.type == 0 || s.lens.size() < 8) continue;
		for (size_t len : s.lens) { if (len < 3 && s.type != 4 && s.type != 7 && s.type != 25 && s.type != 5) continue;
			Oct body = fill(len, 0x55); if (len) body[0] = (s.type == 12) ? 0x80 : (s.type == 33 || s.type == 35) ? (len == 33 ? 5 : 4) : (s.type == 4 || s.type == 7 || s.type == 25) ? 1 : 0x55;
			Oct one = subpkt(s.type, body), emb = subpkt(32, sig4(Oct(), Oct())), none;
			G.P(pkt(2, sig4(one, none)), "sig4:h:sub" + std::to_string(s.type) + ":len" + std::to_string(len), len + 2 >= CAP_STR);
			G.P(pkt(2, sig4(none, one)), "sig4:u:sub" + std::to_string(s.type) + ":len" + std::to_string(len));
			if (TH || s.type == 32 || s.type == 37 || len + 3 >= CAP_STR) { G.P(pkt(2, sig4(cat(emb, one), emb)), "sig4:h:emb+sub" + std::to_string(s.type)); G.P(pkt(2, sig4(emb, cat(emb, one, one))), "sig4:u:emb+sub" + std::to_string(s.type)); }
		} }
	for (size_t nl : { (size_t)0, (size_t)1, CAP_NN - 1, CAP_NN, CAP_NN + 1 }) for (size_t vl : { (size_t)0, (size_t)1, CAP_NV - 1, CAP_NV, CAP_NV + 1 }) for (int crit = 0; crit < 2; crit++) {
		Oct n = subpkt(20 | (crit ? 0x80 : 0), notation(nl, vl, nl + vl)), none; G.P(pkt(2, sig4(n, none)), "sig4:h:notation"); if (!crit) G.P(pkt(2, sig4(none, cat(n, n))), "sig4:u:notation"); }
	for (int ty : { 100, 33, 35, 0 }) for (int crit = 0; crit < 2; crit++) { Oct s1 = subpkt(ty | (crit ? 0x80 : 0), cat(fill(1, 9), fill(20, 1))), s2 = subpkt(2, fill(4, 1)), none;
		G.P(pkt(2, sig4(cat(s1, s2), none)), "sig4:critical"); G.P(pkt(2, sig4(cat(s2, s1), none)), "sig4:critical"); G.P(pkt(2, sig4(none, cat(s1, s2))), "sig4:critical"); }
	// MPI bit counts against the octets that are there, for every signature algorithm and both positions
	{ std::vector<uint32_t> bits = { 0, 1, 7, 8, 9, 15, 16, 17, 2047, 2048, 2049, 65528, 65529, 65535 };
	  for (int pk : { 1, 17, 22 }) for (uint32_t b : bits) for (long d : { 0L, -1L, 1L }) for (int which = 0; which < (pk == 1 ? 1 : 2); which++) {
		size_t need = (b + 7) / 8; if ((long)need + d < 0) continue; if (!TH && b > 2049 && d != 0 && which) continue;
		Oct t; t.push_back(1); t.push_back(2); Oct m = mpi(b, need + d); t = which ? cat(t, mpi_ok(9), m) : (pk == 1 ? cat(t, m) : cat(t, m, mpi_ok(9)));
		G.P(pkt(2, sigbody(4, pk, subpkt(2, fill(4, 1)), -1, Oct(), -1, t)), "sig4:mpi:bits" + std::to_string(b) + ":d" + std::to_string(d)); }
	  for (size_t k = 0; k < 6; k++) G.P(pkt(2, sigbody(4, 17, Oct(), -1, Oct(), -1, take(cat(fill(2, 1), mpi_ok(8), mpi_ok(8)), k))), "sig4:mpi:tail"); }

	mark("section 3");
	// ---------------------------------------------------------------- 3. session keys (tags 1, 3)
	for (int algo : { 1, 2, 16, 18, 3, 17, 0 }) { Oct b; b.push_back(3); b = cat(b, fill(8, 0x33)); b.push_back((unsigned char)algo);
		Oct m = algo == 16 ? cat(mpi_ok(40), mpi_ok(41)) : algo == 18 ? cat(mpi_ok(263), cat(fill(1, 6), fill(6, 0x99))) : mpi_ok(40);
		G.frames(1, cat(b, m), "pkesk:algo" + std::to_string(algo), algo == 1); if (algo == 1 || algo == 16 || algo == 18) G.truncations(1, cat(b, m), "pkesk:algo" + std::to_string(algo));
		for (int v : { 0, 2, 4, 255 }) { Oct c = cat(b, m); c[0] = (unsigned char)v; G.P(pkt(1, c), "pkesk:version"); }
		for (uint32_t bits : { 0u, 1u, 8u, 9u, 65535u }) for (long d : { 0L, -1L, 1L, 2L, 3L }) { size_t need = (bits + 7) / 8; if ((long)need + d < 0) continue; G.P(pkt(1, cat(b, mpi(bits, need + d))), "pkesk:mpi"); }
		if (algo == 18) for (size_t rk : { (size_t)0, (size_t)1, (size_t)2, CAP_RKW - 3, CAP_RKW - 2, CAP_RKW - 1 }) for (long d : { 0L, -1L, 1L }) { if ((long)rk + d < 0) continue; G.P(pkt(1, cat(b, mpi_ok(263), cat(fill(1, (unsigned char)rk), fill(rk + d, 0x99)))), "pkesk:rkw" + std::to_string(rk) + ":d" + std::to_string(d)); } }
	for (int ver : { 4, 5, 3, 6, 0 }) for (int s2k : { 0, 1, 3, 2, 100, 255 }) for (int aead : { 0, 1, 2, 3, 255 }) { if (ver != 5 && aead != 1) continue;
		Oct b; b.push_back((unsigned char)ver); b.push_back(9); if (ver == 5) b.push_back((unsigned char)aead); b.push_back((unsigned char)s2k); b.push_back(8);
		Oct full = cat(b, fill(8 + 1 + CAP_IV + 4, 0x21));
		bool sweep = TH || ((ver == 4 || ver == 5) && s2k <= 3 && aead <= 2);
		for (size_t k = 0; k <= full.size(); k++) { if (!sweep && !(k == 0 || k == 4 || k == 5 || k == full.size())) continue; if (!TH && k > (ver == 5 ? 34u : 17u) && k != full.size()) continue;
			G.P(pkt(3, take(full, k)), "skesk:v" + std::to_string(ver) + ":s2k" + std::to_string(s2k) + ":aead" + std::to_string(aead), k == full.size() && sweep && s2k == 3); }
		if (s2k == 3 && aead == 1) G.frames(3, take(full, 30), "skesk:v" + std::to_string(ver), ver == 4); }

	mark("section 4");
	// ---------------------------------------------------------------- 4. tags 4, 8, 9, 10, 11, 12, 13, 17, 18, 19, 20 and unknown tags
	{ Oct b; b.push_back(3); b.push_back(0); b.push_back(8); b.push_back(1); b = cat(b, fill(8, 0x44)); b.push_back(1);
	  G.frames(4, b, "onepass", true); G.truncations(4, b, "onepass"); G.P(pkt(4, cat(b, fill(1, 0))), "onepass:long"); for (int v : { 0, 4, 255 }) { b[0] = (unsigned char)v; G.P(pkt(4, b), "onepass:version"); } }
	for (int tag : { 8, 9, 13, 17, 18, 12, 10, 19 }) for (size_t n : { (size_t)0, (size_t)1, (size_t)2, (size_t)3, (size_t)4, (size_t)19, (size_t)20, (size_t)21, (size_t)191, (size_t)192, (size_t)8383, (size_t)8384, (size_t)65535, (size_t)65536 }) {
		if (!TH && n > 8384 && tag != 9 && tag != 13) continue;
		Oct b = fill(n, 0x50); if (n > 1) b[1] = 0x47; if (tag == 18 && n) b[0] = 1;
		G.P(pkt(tag, b), "data" + std::to_string(tag) + ":len" + std::to_string(n), n == 20 || n == 3); if (tag == 19) { G.P(framed(19, b, 10, (uint32_t)n), "mdc:oldformat"); G.P(framed(3, b, 10, (uint32_t)n), "old:tag3"); }
		if (tag == 18 && n) for (int v : { 0, 2, 255 }) { b[0] = (unsigned char)v; G.P(pkt(tag, b), "seipd:version"); } }
	for (int tag : { 8, 9, 11, 18, 2, 13, 20, 6 }) { // partial body lengths: allowed tags and not, first chunk below / at 512, missing octets, every final form
		Oct body = rnd(g, 1500); body[0] = (tag == 18) ? 1 : 0x62; body[1] = 0;
		G.P(partial(tag, body, { 9 }), "partial:" + std::to_string(tag) + ":512", tag == 9); G.P(partial(tag, body, { 8, 8 }), "partial:first256"); G.P(partial(tag, body, { 9, 0, 1, 8 }), "partial:small-later");
		G.P(partial(tag, body, { 10 }), "partial:1024"); G.P(partial(tag, body, { 11 }), "partial:2048-short"); G.P(partial(tag, body, { 9 }, 5), "partial:final5"); G.P(partial(tag, body, { 9 }, 2, 0), "partial:final2");
		G.P(partial(tag, body, { 9 }, 0, 1), "partial:final-long1"); G.P(partial(tag, body, { 9 }, 0, -1), "partial:final-short1"); G.P(take(partial(tag, body, { 9 }), 513), "partial:cut-before-final"); G.P(take(partial(tag, body, { 9 }), 514), "partial:cut-after-final-len");
		for (int k : { 30, 31 }) { Oct o; o.push_back((unsigned char)(0xC0 | tag)); o.push_back((unsigned char)(0xE0 | k)); G.P(cat(o, fill(600, 0)), "partial:huge"); }
		if (tag == 9) { Oct two = partial(tag, body, { 9, 9 }); G.P(two, "partial:two"); for (size_t k = 1020; k < 1032; k++) G.P(take(two, k), "partial:two-cut"); } }
	for (int tag = 0; tag < 64; tag++) { Oct b = fill(6, 0x03); G.P(pkt(tag, b), "tag" + std::to_string(tag)); if (tag < 16) G.P(framed(tag, b, 10, 6), "oldtag" + std::to_string(tag)); if (TH) G.frames(tag, b, "tag" + std::to_string(tag), true); }
	for (int first = 0; first < 256; first++) { Oct one; one.push_back((unsigned char)first); G.P(one, "first-octet"); one.push_back(0); G.P(one, "first-octet+0"); one[1] = 1; G.P(one, "first-octet+1"); }
	{ Oct none; G.P(none, "empty"); }
	// literal data: file-name length against the body and the array
	for (size_t fl : { (size_t)0, (size_t)1, (size_t)2, (size_t)127, (size_t)254, (size_t)255 }) for (long have : { -1L, 0L, 1L, 3L, 4L, 5L, 6L, 7L }) { if ((long)fl + have < 0) continue;
		Oct b; b.push_back(0x62); b.push_back((unsigned char)fl); G.P(pkt(11, cat(b, fill(fl + have, 0x66))), "literal:fn" + std::to_string(fl) + ":have" + std::to_string(have), fl == 2 && have == 7); }
	{ Oct b; b.push_back(0x74); b.push_back(3); b = cat(b, fill(3, 0x61)); be32(b, 7); b = cat(b, fill(9, 0x64)); G.frames(11, b, "literal", true); G.truncations(11, b, "literal"); (void)CAP_FN; }
	// AEAD encrypted data
	for (int ver : { 1, 0, 2, 255 }) for (int aead : { 0, 1, 2, 3, 100, 255 }) { Oct b; b.push_back((unsigned char)ver); b.push_back(9); b.push_back((unsigned char)aead); b.push_back(10);
		Oct full = cat(b, fill(CAP_IV + 3, 0x31)); for (size_t k = 0; k <= full.size(); k++) if (TH || (ver == 1 && aead <= 3) || k == 4 || k == 24 || k == full.size()) G.P(pkt(20, take(full, k)), "aead:v" + std::to_string(ver) + ":a" + std::to_string(aead), ver == 1 && aead == 2 && k == 24); }

	mark("section 5");
	// ---------------------------------------------------------------- 5. keys (tags 6, 14, 5, 7)
	for (int tag : { 6, 14 }) for (int ver : { 4, 5, 3, 6 }) for (int algo : { 1, 2, 3, 16, 17, 18, 19, 22, 107, 108, 109, 0, 20, 21, 100 }) {
		if (tag == 14 && !(algo == 1 || algo == 18 || algo == 22)) continue; if (ver != 4 && ver != 5 && algo != 1) continue;
		Oct b = cat(key_head(ver, algo), pubmat(algo)); std::string cls = "pub" + std::to_string(tag) + ":v" + std::to_string(ver) + ":algo" + std::to_string(algo);
		G.frames(tag, b, cls, tag == 6 && ver == 4 && (algo == 1 || algo == 19)); if (TH || (tag == 6 && (ver == 4 || algo == 1 || algo == 18 || algo == 22))) G.truncations(tag, b, cls); G.P(pkt(tag, cat(b, fill(1, 0))), cls + ":trailing-octet", ver == 4 || algo == 22); }
	for (int tag : { 6, 5 }) for (int ver : { 4, 5 }) for (int algo : { 18, 19, 22 }) for (size_t ol : { (size_t)0, (size_t)1, (size_t)2, CAP_OID - 3, CAP_OID - 2, CAP_OID - 1 }) for (long d : { 0L, -1L, 1L, 3L }) { if ((long)ol + d < 0) continue;
		Oct k; k.push_back(3); k.push_back(1); k.push_back(8); k.push_back(7);
		Oct b = cat(key_head(ver, algo), oid(ol, ol + d)); if (d == 0 || d == 3) { b = cat(b, mpi_ok(20)); if (algo == 18) b = cat(b, k); if (tag == 5) b = cat(b, secret_plain(ver, algo)); }
		G.P(pkt(tag, b), "key" + std::to_string(tag) + ":oid" + std::to_string(ol) + ":d" + std::to_string(d)); }
	{ Oct k; for (int a = 0; a < 4; a++) for (int bad : { 0, 2, 4, 255 }) { Oct kk = { 3, 1, 8, 7 }; kk[a] = (unsigned char)bad; for (int tag : { 6, 5 }) { Oct b = cat(key_head(4, 18), oid(3, 3), cat(mpi_ok(20), kk)); if (tag == 5) b = cat(b, secret_plain(4, 18)); G.P(pkt(tag, b), "key:kdf"); } }
	  for (size_t n = 0; n < 7; n++) G.P(pkt(6, cat(key_head(4, 18), oid(3, 3), cat(mpi_ok(20), fill(n, 3)))), "key:kdf-len"); }
	for (int tag : { 5, 7 }) for (int ver : { 4, 5 }) for (int algo : { 1, 2, 3, 16, 17, 18, 19, 22, 107, 108, 109, 0, 20 }) { if (tag == 7 && !(algo == 1 || algo == 18)) continue;
		Oct pub = cat(key_head(ver, algo), (algo >= 107 && algo <= 109) ? xmat(algo, 2, 1, 0, 2, 2) : pubmat(algo)); std::string cls = "sec" + std::to_string(tag) + ":v" + std::to_string(ver) + ":algo" + std::to_string(algo);
		Oct plain = cat(pub, secret_plain(ver, algo)); G.frames(tag, plain, cls + ":plain", tag == 5 && ver == 4 && algo == 17); G.P(pkt(tag, plain), cls + ":plain", true);
		if (TH || (tag == 5 && (ver == 4 ? (algo != 2 && algo != 3) : (algo == 1 || algo == 19)))) G.truncations(tag, plain, cls + ":plain");
		for (long sd : { 1L, -1L, 256L }) G.P(pkt(tag, cat(pub, secret_plain(ver, algo, sd))), cls + ":checksum");
		if (algo == 0 || algo == 20) continue;
		for (int conv : { 253, 254, 255, 1, 9, 252 }) for (int s2k : { 0, 1, 3, 2, 100 }) for (int sk : { 0, 1, 4, 7, 9, 13, 14, 255 }) {
			if (!TH) { bool main1 = (algo == 1 && tag == 5); if (!main1 && !(conv == 254 && s2k == 3 && sk == 9)) continue; if (main1 && (conv < 253 ? !(s2k == 3 && sk == 9) : !(sk == 0 || sk == 4 || sk == 9 || sk == 255 || sk == 14))) continue; if (main1 && s2k == 100 && sk != 9) continue; }
			size_t ivlen = (sk >= 1 && sk <= 4) ? 8 : (sk >= 7 && sk <= 13) ? 16 : 0; Oct prot = cat(pub, secret_prot(ver, conv, sk, s2k, ivlen, 24));
			G.P(pkt(tag, prot), cls + ":conv" + std::to_string(conv) + ":s2k" + std::to_string(s2k) + ":sk" + std::to_string(sk), conv == 254 && s2k == 3 && sk == 9);
			if ((algo == 1 || TH) && (sk == 9 || sk == 3 || sk == 0)) for (size_t k = pub.size(); k <= prot.size(); k++) G.P(pkt(tag, take(prot, k)), cls + ":prot-trunc");
			for (size_t data : { (size_t)0, (size_t)1, (size_t)3, (size_t)4, (size_t)5 }) G.P(pkt(tag, cat(pub, secret_prot(ver, conv, sk, s2k, ivlen, data))), cls + ":prot-data" + std::to_string(data)); } }
	mark("5b secret mpis");
	// secret MPIs: bit counts against the octets, zero-length secret MPI (secure allocator)
	for (int ver : { 4, 5 }) for (int algo : { 17, 1, 22 }) for (uint32_t bits : { 0u, 1u, 8u, 9u, 16u, 65535u }) for (long d : { 0L, -1L, 1L }) { size_t need = (bits + 7) / 8; if ((long)need + d < 0) continue;
		Oct s = mpi(bits, need + d); for (size_t k = 1; k < nsecret(algo); k++) s = cat(s, mpi_ok(9)); uint32_t sum = 0; for (auto c : s) sum = (sum + c) & 0xFFFF;
		Oct o; o.push_back(0); if (ver == 5) { o.push_back(0); be32(o, (uint32_t)s.size()); } o = cat(o, s); be16(o, sum);
		G.P(pkt(5, cat(key_head(ver, algo), pubmat(algo), o)), "sec:secret-mpi:bits" + std::to_string(bits) + ":d" + std::to_string(d)); }
	mark("5c experimental");
	// experimental formats: counts at their limits, one MPI / string missing, one too many
	for (int algo : { 107, 108, 109 }) for (int tag : { 5, 6 }) {
		struct C { uint32_t n, t, i, qs, xqs; long drop; }; std::vector<C> cs = { {0,0,0,0,0,0}, {1,0,0,1,1,0}, {2,1,1,2,2,0}, {2,1,2,2,2,0}, {2,1,0,2,2,1}, {2,1,0,2,2,-1}, {3,128,0,1,0,0}, {3,129,0,1,0,0}, {255,0,0,255,255,0}, {255,1,254,255,0,0}, {256,0,0,1,1,0}, {2,0,0,256,0,0}, {2,0,0,2,256,0}, {2,0,0,255,1,0}, {0,0,0,2,0,0}, {1,128,0,0,0,0}, {255,128,0,0,0,0} };
		for (auto &c : cs) { if (!TH && c.n == 255 && c.t == 128) continue; Oct b = cat(key_head(4, algo), xmat(algo, c.n, c.t, c.i, c.qs, c.xqs, c.drop)); if (tag == 5) b = cat(b, secret_plain(4, algo));
			G.P(pkt(tag, b), "xkey" + std::to_string(algo) + ":n" + std::to_string(c.n) + ":t" + std::to_string(c.t) + ":i" + std::to_string(c.i) + ":qs" + std::to_string(c.qs) + ":xqs" + std::to_string(c.xqs) + ":drop" + std::to_string(c.drop)); }
		// count MPIs that do not fit a machine word / the hexadecimal print buffer
		for (uint32_t bits : { 64u, 65u, 72u, 16376u, 16377u, 16384u, 65535u }) { Oct big = mpi(bits, (bits + 7) / 8, 0x01); Oct b = key_head(4, algo); for (int k = 0; k < 5; k++) b = cat(b, mpi_ok(20)); b = cat(b, big, mpi_val(1)); b = cat(b, mpi_val(0), big); b = cat(b, fill(40, 0)); if (tag == 5) G.P(pkt(tag, b), "xkey:bigcount"); }
		for (uint32_t sl : { 0u, 1u, 191u, 192u, 8383u, 8384u }) for (long d : { 0L, -1L }) for (int form : { 0, 5 }) { if ((long)sl + d < 0 || algo == 109 || tag == 6) continue; Oct s; newlen(s, sl, form); s = cat(s, fill(sl + d, 0x70));
			Oct b = key_head(4, algo); for (int k = 0; k < 5; k++) b = cat(b, mpi_ok(20)); b = cat(b, mpi_val(1), mpi_val(0)); b = cat(b, mpi_val(0), mpi_val(algo == 108 ? 1 : 0)); if (algo == 108) b = cat(b, mpi_val(7)); if (algo == 107) b = cat(b, mpi_val(0)); b = cat(b, s); if (d == 0) b = cat(b, mpi_val(5), secret_plain(4, algo));
			G.P(pkt(tag, b), "xkey:string" + std::to_string(sl) + ":d" + std::to_string(d)); G.P(pkt(tag, cat(take(b, b.size() - (d == 0 ? 0 : 0)), Oct())), "xkey:string"); }
		{ Oct b = key_head(4, algo); for (int k = 0; k < 5; k++) b = cat(b, mpi_ok(20)); b = cat(b, mpi_val(1), mpi_val(0)); b = cat(b, mpi_val(0), mpi_val(algo == 108 ? 1 : 0)); if (algo == 108) b = cat(b, mpi_val(7)); if (algo == 107) b = cat(b, mpi_val(0));
		  for (int first : { 0xE0, 0xE9, 0xFE }) { Oct s; s.push_back((unsigned char)first); G.P(pkt(5, cat(b, s, fill(600, 0x70))), "xkey:string-partial"); } }
	}

	mark("section 6");
	// ---------------------------------------------------------------- 6. the high-level parsers on the pool, and random boundary mutations of the pool
	{ size_t stride = TH ? 1 : 8;
	  for (size_t i = 0; i < G.pool.size(); i += stride) { const Oct &raw = G.pool[i].first; int t = raw.empty() ? 0 : ((raw[0] & 0x40) ? (raw[0] & 63) : ((raw[0] >> 2) & 15));
		if (t == 2) { G.H("signature_parse", real_sigparse, raw); G.H("signatures_parse", real_sigsparse, cat(raw, raw)); }
		else if (t == 6 || t == 14 || t == 13 || t == 17) { G.H("pubkeyblock_parse", real_pubparse, raw); G.H("keyring_parse", real_ringparse, raw); }
		else if (t == 5 || t == 7) G.H("prvkeyblock_parse", real_prvparse, raw);
		else G.H("message_parse", real_msgparse, raw); }
	  // a public key followed by boundary signatures (the subpacket decoder behind PublicKeyBlockParse)
	  Oct key = pkt(6, cat(key_head(4, 1), pubmat(1))), uid = pkt(13, fill(5, 0x61));
	  for (size_t i = 0, k = 0; i < G.pool.size() && k < (TH ? 400u : 20u); i++) { const Oct &raw = G.pool[i].first; if (raw.empty() || (raw[0] & 63) != 2 || !(raw[0] & 0x40)) continue; k++; G.H("pubkeyblock_parse", real_pubparse, cat(key, uid, raw)); }
	  for (size_t i = 0, k = 0; i < G.pool.size() && k < (TH ? 400u : 15u); i++) { const Oct &raw = G.pool[i].first; int t = raw.empty() ? 0 : (raw[0] & 63); if (!(t == 1 || t == 3 || t == 8 || t == 9 || t == 11 || t == 18 || t == 20)) continue; k++; G.H("message_parse", real_msgparse, cat(pkt(3, Oct{4, 9, 0, 8}), raw)); }
	}
	mark("7 mutations");
	static const unsigned char BV[] = { 0, 1, 2, 0x7f, 0x80, 0xbf, 0xc0, 0xc1, 0xdf, 0xe0, 0xe9, 0xfe, 0xff, 191, 192, 223, 224, 254, 20, 21, 32, 33, 34, 5, 4, 3 };
	for (uint64_t c = 0; c < o.cases && !G.pool.empty(); c++) {
		Oct b = G.pool[g.below(G.pool.size())].first; if (b.empty()) continue;
		switch (g.below(5)) {
		case 0: { size_t k = 1 + g.below(3); for (size_t i = 0; i < k; i++) b[g.below(std::min<size_t>(b.size(), 40))] = BV[g.below(sizeof BV)]; } break;
		case 1: b[g.below(b.size())] = BV[g.below(sizeof BV)]; break;
		case 2: b.resize(g.below(b.size() + 1)); break;
		case 3: { size_t p = g.below(std::min<size_t>(b.size(), 48)); b.insert(b.begin() + p, BV[g.below(sizeof BV)]); } break;
		default: { size_t p = g.below(std::min<size_t>(b.size(), 48)); b.erase(b.begin() + p); } break; }
		G.P(b, "mut");
	}
	G.flush(); mark("end");
	emit("prop.parse2.stats pkt=" + std::to_string(G.npkt) + " sub=" + std::to_string(G.nsub) + " parsers=" + std::to_string(G.nprop) + " accepted=" + std::to_string(G.nok) + " refused=" + std::to_string(G.nrefused) + " => " + (G.ntrap ? "trap:" + std::to_string(G.ntrap) + "-cases" : std::string("ok")));
	return 0;
}
REGISTER_DRIVER("parse2", drv_parse2);
