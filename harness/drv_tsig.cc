// C16 (verifiers): CanettiGennaroJareckiKrawczykRabinDSS::Verify on textbook DSA signatures made
// by the harness with a known key, and on the range-boundary / mutation catalogue of (m, r, s, y).
//   tsig.dss.verify p q g y m r s tag:<class> => 0|1
#include "common.hh"

static std::string oracle_log_t()
{
	std::vector<std::string> qs; qs.swap(hashlog.shash_inputs); hashlog.raw.clear();
	bool was = hashlog.log; hashlog.log = false;
	std::string s = "[";
	for (size_t i = 0; i < qs.size(); i++) { Z a; tmcg_mpz_shash(a, qs[i]); if (i) s += ","; s += hexs(qs[i]) + ":" + a.str(); }
	hashlog.log = was;
	return s + "]";
}

static int drv_tsig(const Opts &o)
{
	SplitMix g(o.seed ^ 0x74736967);
	for (uint64_t c = 0; c < o.cases; c++) {
		unsigned pbits = (c % 4 == 0) ? 48 : (c % 4 == 1 ? 96 : 160), qbits = (c % 4 == 0) ? 16 : (c % 4 == 1 ? 40 : 64);
		SmallGroup sg = make_group(g, pbits, qbits);
		Z h; { Z e; gen_below(e, g, sg.q); mpz_powm(h, sg.g, e, sg.p); }
		CanettiGennaroJareckiKrawczykRabinDSS dss(3, 1, 0, sg.p, sg.q, sg.g, h, pbits, qbits, false, false);
		Z x, y; gen_below(x, g, sg.q); mpz_powm(y, sg.g, x, sg.p);
		// the hash value
		Z m;
		switch (g.below(8)) {
		case 0: mpz_set_ui(m, 0); break;
		case 1: mpz_set_ui(m, 1); break;
		case 2: mpz_sub_ui(m, sg.q, 1); break;
		case 3: mpz_set(m, sg.q); break;
		case 4: gen_bits(m, g, 256); break;                    // a real digest is longer than q
		default: gen_below(m, g, sg.q); break;
		}
		// textbook signature: r = (g^k mod p) mod q, s = k^{-1} (m + x r) mod q
		Z k, r, s, t;
		do {
			do { gen_below(k, g, sg.q); } while (!mpz_sgn(k));
			mpz_powm(r, sg.g, k, sg.p); mpz_mod(r, r, sg.q);
			mpz_mul(t, x, r); mpz_add(t, t, m); mpz_mod(t, t, sg.q);
			mpz_invert(s, k, sg.q); mpz_mul(s, s, t); mpz_mod(s, s, sg.q);
		} while (!mpz_sgn(r) || !mpz_sgn(s));
		auto run = [&](mpz_srcptr yy, mpz_srcptr mm, mpz_srcptr rr, mpz_srcptr ss, const std::string &tag) {
			mpz_set(dss.y, yy);
			std::string out = guarded([&]() { return std::string(dss.Verify(mm, rr, ss) ? "1" : "0"); });
			emit("tsig.dss.verify " + sg.p.str() + " " + sg.q.str() + " " + sg.g.str() + " " + zs(yy) + " " + zs(mm) + " " + zs(rr) + " " + zs(ss) + " tag:" + tag + " => " + out);
		};
		run(y, m, r, s, "valid");
		Z v, w;
		// equivalent hash value
		mpz_add(v, m, sg.q); run(y, v, r, s, "m+q");
		mpz_sub(v, m, sg.q); run(y, v, r, s, "m-q");
		mpz_add_ui(v, m, 1); run(y, v, r, s, "m+1");
		// range boundaries of r and s
		mpz_add(v, r, sg.q); run(y, m, v, s, "r+q");
		mpz_sub(v, r, sg.q); run(y, m, v, s, "r-q");
		mpz_add(v, s, sg.q); run(y, m, r, v, "s+q");
		mpz_sub(v, s, sg.q); run(y, m, r, v, "s-q");
		mpz_neg(v, r); run(y, m, v, s, "-r");
		mpz_neg(v, s); run(y, m, r, v, "-s");
		mpz_sub(v, sg.q, s); run(y, m, r, v, "q-s");
		mpz_sub(v, sg.q, r); run(y, m, v, s, "q-r");
		mpz_set_ui(v, 0); run(y, m, v, s, "r=0"); run(y, m, r, v, "s=0"); run(y, m, v, v, "r=s=0");
		run(y, m, sg.q, s, "r=q"); run(y, m, r, sg.q, "s=q");
		mpz_set_ui(v, 1); run(y, m, v, s, "r=1"); run(y, m, r, v, "s=1");
		mpz_sub_ui(v, sg.q, 1); run(y, m, v, s, "r=q-1"); run(y, m, r, v, "s=q-1");
		run(y, m, s, r, "swapped");
		mpz_add_ui(v, r, 1); run(y, m, v, s, "r+1");
		mpz_add_ui(v, s, 1); run(y, m, r, v, "s+1");
		// (g^k mod p) not reduced modulo q
		mpz_powm(v, sg.g, k, sg.p); run(y, m, v, s, "r-unreduced");
		gen_below(v, g, sg.q); gen_below(w, g, sg.q); run(y, m, v, w, "random");
		// other keys
		gen_below(v, g, sg.q); mpz_powm(w, sg.g, v, sg.p); run(w, m, r, s, "otherkey");
		mpz_sub(w, sg.p, y); run(w, m, r, s, "key=-y");
		mpz_add(w, y, sg.p); run(w, m, r, s, "key=y+p");
		mpz_set_ui(w, 0); run(w, m, r, s, "key=0");
		mpz_set_ui(w, 1); run(w, m, r, s, "key=1");
		// a forgery for the key y' = 1: r = (g^k mod p) mod q, s = k^{-1} m
		mpz_invert(v, k, sg.q); mpz_mul(v, v, m); mpz_mod(v, v, sg.q); if (mpz_sgn(v)) run(w, m, r, v, "key=1-forged");
		// ------------------------------------------------ threshold Schnorr verifier (GJKR NTS)
		{
			GennaroJareckiKrawczykRabinNTS nts(3, 1, 0, sg.p, sg.q, sg.g, h, pbits, qbits, false, false);
			hashlog.log = true; oracle_log_t();
			// textbook signature: r = g^k, c = H(m, r), s = k + c x mod q
			Z R, cc, ss;
			mpz_powm(R, sg.g, k, sg.p); tmcg_mpz_shash(cc, 2, (mpz_srcptr)m, (mpz_srcptr)R); oracle_log_t();
			mpz_mul(ss, cc, x); mpz_add(ss, ss, k); mpz_mod(ss, ss, sg.q);
			auto runn = [&](mpz_srcptr yy, mpz_srcptr mm, mpz_srcptr c2, mpz_srcptr s2, const std::string &tag) {
				mpz_set(nts.y, yy); oracle_log_t();
				std::string out = guarded([&]() { return std::string(nts.Verify(mm, c2, s2) ? "1" : "0"); });
				emit("tsig.nts.verify " + sg.p.str() + " " + sg.q.str() + " " + sg.g.str() + " " + zs(yy) + " " + zs(mm) + " " + zs(c2) + " " + zs(s2) + " " + oracle_log_t() + " tag:" + tag + " => " + out);
			};
			Z v, w;
			runn(y, m, cc, ss, "valid");
			mpz_add(v, ss, sg.q); runn(y, m, cc, v, "s+q");
			mpz_sub(v, ss, sg.q); runn(y, m, cc, v, "s-q");
			mpz_neg(v, ss); runn(y, m, cc, v, "-s");
			mpz_add_ui(v, ss, 1); runn(y, m, cc, v, "s+1");
			mpz_set_ui(v, 0); runn(y, m, cc, v, "s=0"); runn(y, m, v, ss, "c=0");
			runn(y, m, cc, sg.q, "s=q");
			mpz_sub_ui(v, sg.q, 1); runn(y, m, cc, v, "s=q-1");
			mpz_add(v, cc, sg.q); runn(y, m, v, ss, "c+q");       // same residue mod q, but c is compared with the hash value itself
			mpz_mod(v, cc, sg.q); if (mpz_cmp(v, cc)) runn(y, m, v, ss, "c-mod-q");
			mpz_add_ui(v, cc, 1); runn(y, m, v, ss, "c+1");
			mpz_neg(v, cc); runn(y, m, v, ss, "-c");
			mpz_add_ui(v, m, 1); runn(y, m, v, ss, "swapped-m-c"); runn(y, v, cc, ss, "m+1");
			mpz_add(v, m, sg.q); runn(y, v, cc, ss, "m+q");         // m is hashed as it is: a different message
			gen_below(v, g, sg.q); gen_bits(w, g, 256); runn(y, m, w, v, "random");
			gen_below(v, g, sg.q); mpz_powm(w, sg.g, v, sg.p); runn(w, m, cc, ss, "otherkey");
			mpz_sub(w, sg.p, y); runn(w, m, cc, ss, "key=-y");
			mpz_add(w, y, sg.p); runn(w, m, cc, ss, "key=y+p");
			mpz_set_ui(w, 1); runn(w, m, cc, ss, "key=1");
			// a signature made for the key y' = -y (outside the group) by the holder of x: c = H(m, g^k), s = k + c x;
			// g^s (-y)^{-c} = g^k (-1)^c: accepted for even c
			hashlog.log = false;
		}
	}
	return 0;
}
REGISTER_DRIVER("tsig", drv_tsig);
