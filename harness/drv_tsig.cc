// C16 (verifiers): CanettiGennaroJareckiKrawczykRabinDSS::Verify on textbook DSA signatures made
// by the harness with a known key, and on the range-boundary / mutation catalogue of (m, r, s, y).
//   tsig.dss.verify p q g y m r s tag:<class> => 0|1
#include "common.hh"

static int drv_tsig(const Opts &o)
{
	SplitMix g(o.seed ^ 0x74736967);
	for (uint64_t c = 0; c < o.cases; c++) {
		unsigned pbits = (c % 4 == 0) ? 48 : (c % 4 == 1 ? 96 : 160), qbits = (c % 4 == 0) ? 16 : (c % 4 == 1 ? 40 : 64);
		SmallGroup sg = make_group(g, pbits, qbits);
		Z h; { Z e; gen_below(e, g, sg.q); mpz_powm(h, sg.g, e, sg.p); }
		CanettiGennaroJareckiKrawczykRabinDSS dss(3, 1, 0, sg.p, sg.q, sg.g, h, pbits, qbits, false, false);
		Z x, y; gen_below(x, g, sg.q); mpz_powm(y, sg.g, x, sg.p);
		// the hash value
		Z m;
		switch (g.below(8)) {
		case 0: mpz_set_ui(m, 0); break;
		case 1: mpz_set_ui(m, 1); break;
		case 2: mpz_sub_ui(m, sg.q, 1); break;
		case 3: mpz_set(m, sg.q); break;
		case 4: gen_bits(m, g, 256); break;                    // a real digest is longer than q
		default: gen_below(m, g, sg.q); break;
		}
		// textbook signature: r = (g^k mod p) mod q, s = k^{-1} (m + x r) mod q
		Z k, r, s, t;
		do {
			do { gen_below(k, g, sg.q); } while (!mpz_sgn(k));
			mpz_powm(r, sg.g, k, sg.p); mpz_mod(r, r, sg.q);
			mpz_mul(t, x, r); mpz_add(t, t, m); mpz_mod(t, t, sg.q);
			mpz_invert(s, k, sg.q); mpz_mul(s, s, t); mpz_mod(s, s, sg.q);
		} while (!mpz_sgn(r) || !mpz_sgn(s));
		auto run = [&](mpz_srcptr yy, mpz_srcptr mm, mpz_srcptr rr, mpz_srcptr ss, const std::string &tag) {
			mpz_set(dss.y, yy);
			std::string out = guarded([&]() { return std::string(dss.Verify(mm, rr, ss) ? "1" : "0"); });
			emit("tsig.dss.verify " + sg.p.str() + " " + sg.q.str() + " " + sg.g.str() + " " + zs(yy) + " " + zs(mm) + " " + zs(rr) + " " + zs(ss) + " tag:" + tag + " => " + out);
		};
		run(y, m, r, s, "valid");
		Z v, w;
		// equivalent hash value
		mpz_add(v, m, sg.q); run(y, v, r, s, "m+q");
		mpz_sub(v, m, sg.q); run(y, v, r, s, "m-q");
		mpz_add_ui(v, m, 1); run(y, v, r, s, "m+1");
		// range boundaries of r and s
		mpz_add(v, r, sg.q); run(y, m, v, s, "r+q");
		mpz_sub(v, r, sg.q); run(y, m, v, s, "r-q");
		mpz_add(v, s, sg.q); run(y, m, r, v, "s+q");
		mpz_sub(v, s, sg.q); run(y, m, r, v, "s-q");
		mpz_neg(v, r); run(y, m, v, s, "-r");
		mpz_neg(v, s); run(y, m, r, v, "-s");
		mpz_sub(v, sg.q, s); run(y, m, r, v, "q-s");
		mpz_sub(v, sg.q, r); run(y, m, v, s, "q-r");
		mpz_set_ui(v, 0); run(y, m, v, s, "r=0"); run(y, m, r, v, "s=0"); run(y, m, v, v, "r=s=0");
		run(y, m, sg.q, s, "r=q"); run(y, m, r, sg.q, "s=q");
		mpz_set_ui(v, 1); run(y, m, v, s, "r=1"); run(y, m, r, v, "s=1");
		mpz_sub_ui(v, sg.q, 1); run(y, m, v, s, "r=q-1"); run(y, m, r, v, "s=q-1");
		run(y, m, s, r, "swapped");
		mpz_add_ui(v, r, 1); run(y, m, v, s, "r+1");
		mpz_add_ui(v, s, 1); run(y, m, r, v, "s+1");
		// (g^k mod p) not reduced modulo q
		mpz_powm(v, sg.g, k, sg.p); run(y, m, v, s, "r-unreduced");
		gen_below(v, g, sg.q); gen_below(w, g, sg.q); run(y, m, v, w, "random");
		// other keys
		gen_below(v, g, sg.q); mpz_powm(w, sg.g, v, sg.p); run(w, m, r, s, "otherkey");
		mpz_sub(w, sg.p, y); run(w, m, r, s, "key=-y");
		mpz_add(w, y, sg.p); run(w, m, r, s, "key=y+p");
		mpz_set_ui(w, 0); run(w, m, r, s, "key=0");
		mpz_set_ui(w, 1); run(w, m, r, s, "key=1");
		// a forgery for the key y' = 1: r = (g^k mod p) mod q, s = k^{-1} m
		mpz_invert(v, k, sg.q); mpz_mul(v, v, m); mpz_mod(v, v, sg.q); if (mpz_sgn(v)) run(w, m, r, v, "key=1-forged");
	}
	return 0;
}
REGISTER_DRIVER("tsig", drv_tsig);
