// C15 (area "dkg"): Pedersen VSS and the Gennaro-Jarecki-Krawczyk-Rabin key generation, run by n
// forked parties over pipes (aiounicast_select + CachinKursawePetzoldShoupRBC, as tests/t-dkg.cc).
//
// One trace line per run; the Lean model (Tmcg/Model/Dkg.lean) recomputes every party's final state
// from the group, the parties' coins and their deviation scripts:
//
//   dkg.vss n t dealer p q g h sigma  (STRONG WEAK DEV1 DEV2){n}  =>  OUT{n}
//       OUT = sr|sigma_i|tau_i|[A_0..A_t]|rr|sigma_rec     (`-` instead of the whole token: the party
//             died in Share;  `-` instead of rr|sigma_rec: it died in Reconstruct)
//   dkg.sign n t p q g h m (STRONG1 WEAK1 DEV1 STRONG2 WEAK2 DEV2){n} ORACLE => OUT{n}
//       OUT = genret|signret|c|s, `-` (died in Generate), genret|- (died in Sign), genret|* (DEV2 is not `-`)
//   dkg.gen n t p q g h               (STRONG WEAK DEV){n}        =>  OUT{n}
//       OUT = 1|[QUAL]|x_i|xprime_i|[C_00..C_(n-1)t]|y|[y_i]|[z_i]|[v_i]|ck   (Generate returned true)
//             0|[QUAL]|x_i|xprime_i|[C..]                                    (returned false)
//             -                                                              (died)
//   STRONG = values of the party's tmcg_mpz_srandomm(.,q) draws in order, WEAK = the protocol level
//   `tmcg_mpz_wrandom_ui() % 2` draws in order (the reliable broadcast's own draws are filtered out),
//   DEV = `-` (honest) or items joined by `;`:
//       S        simulate_faulty_behaviour = true                  (the library's own switch)
//       Z,k      dies right before its k-th output operation (Broadcast calls and privately sent
//                values, counted in program order from 0): silent from there on
//       O,j,k,d  the k-th value sent privately to party j is increased by d
//       I,j,k,d  the k-th value received privately from party j is increased by d before use
//       A,g,k,d  the payload of a Broadcast call is increased by d (for every recipient)
//       D,g,k    a Broadcast call sends nothing
//       N,g,k,v  after a Broadcast call it additionally broadcasts v (several N,g,k: in order)
//       M,g,k,m,p  the payload of a Broadcast call is multiplied by m modulo p
//                (g,k) addresses the party's own Broadcast calls: g = number of end markers (payload n)
//                it has broadcast before, k = number of calls since the last of them
//   plus `prop.dkg.*` summary lines for the direct predicates.  A predicate on prop.dkg.sign can rely on:
//   an honest party with signret = 1 reports the (c, s) its Sign returned, so 0 <= s < q must hold there.
//
// Time: the library measures its time-outs with time(NULL).  In the party processes time() is a
// virtual clock (shared memory) which only ticks when every living party has polled it VC_K times
// without any party having sent or received a message in between, i.e. at global quiescence.  So a
// message between two living parties always arrives before a time-out (the synchrony assumption),
// however loaded the machine is, and a silent party costs a few thousand polls, not seconds.
#include "common.hh"
#include <aiounicast_select.hh>
#include <atomic>
#include <map>
#include <set>
#include <algorithm>
#include <sys/mman.h>
#include <sys/wait.h>
#include <unistd.h>
#include <fcntl.h>
#include <signal.h>
#include <dlfcn.h>
#include <time.h>

namespace dkgdrv {

static const int MAXN = 8;
struct Shared {
	std::atomic<uint64_t> polls[MAXN];
	std::atomic<uint64_t> ticks;
	std::atomic<int> alive[MAXN];
	std::atomic<int> done[MAXN];
};
static Shared *g_sh = nullptr;
static int g_me = -1, g_n = 0;
static const uint64_t VC_K = 48;
static const time_t VC_BASE = 1700000000;
static const time_t VC_TIMEOUT = 2;   // ticks: private channel
static time_t VC_TIMEOUT_RBC = 8;      // ticks: reliable broadcast (> (f+1) * VC_TIMEOUT, see `--eqtimeout`)

static void vc_activity()
{
	if (g_sh) for (int k = 0; k < g_n; k++) g_sh->polls[k].store(0, std::memory_order_relaxed);
}
// called after every receive attempt that found nothing: the clock ticks when every living party has
// made VC_K such attempts in a row and nobody has sent or received anything meanwhile
static void vc_idle()
{
	Shared *s = g_sh; if (!s) return;
	uint64_t cur = s->ticks.load();
	uint64_t p = s->polls[g_me].fetch_add(1) + 1;
	if (p >= VC_K) {
		bool all = true;
		for (int k = 0; k < g_n; k++) if (s->alive[k].load() && s->polls[k].load() < VC_K) { all = false; break; }
		if (all && s->ticks.compare_exchange_strong(cur, cur + 1))
			for (int k = 0; k < g_n; k++) s->polls[k].store(0);
	}
	if (p > 4) usleep(40);   // nothing to do: leave the core to the parties that compute
}
// DeliverFrom(j) spins on time() alone, without looking at the channels, when values of j delivered under
// another identifier are still buffered: a long run of time() calls with no channel access in between is
// idle polling as well (a party that computes does not call time() at all)
static uint64_t g_time_run = 0;
static void vc_touch() { g_time_run = 0; }
static time_t vc_time() { if (++g_time_run > 4000) vc_idle(); return VC_BASE + (time_t)g_sh->ticks.load(); }

} // namespace

extern "C" time_t time(time_t *out)
{
	time_t r;
	if (dkgdrv::g_sh) r = dkgdrv::vc_time();
	else {
		typedef time_t (*fn_t)(time_t*);
		static fn_t real = (fn_t)dlsym(RTLD_NEXT, "time");
		r = real(NULL);
	}
	if (out) *out = r;
	return r;
}

namespace dkgdrv {

// ------------------------------------------------------------------ deviation scripts
typedef std::pair<int, int> IP;
struct Dev {
	bool sfb = false; long silent = -1;
	std::map<IP, std::string> po, pi;
	std::map<IP, std::pair<std::string, std::string> > bm;
	std::map<IP, std::string> ba; std::set<IP> bd; std::map<IP, std::vector<std::string> > bi;
	std::string text;
	void item(const std::string &s) { if (!text.empty()) text += ";"; text += s; }
	void S() { sfb = true; item("S"); }
	void Zk(long k) { silent = k; item("Z," + std::to_string(k)); }
	void O(int j, int k, const std::string &d) { po[IP(j, k)] = d; item("O," + std::to_string(j) + "," + std::to_string(k) + "," + d); }
	void I(int j, int k, const std::string &d) { pi[IP(j, k)] = d; item("I," + std::to_string(j) + "," + std::to_string(k) + "," + d); }
	void A(int g, int k, const std::string &d) { ba[IP(g, k)] = d; item("A," + std::to_string(g) + "," + std::to_string(k) + "," + d); }
	void M(int g, int k, const std::string &m, const std::string &p) { bm[IP(g, k)] = std::make_pair(m, p); item("M," + std::to_string(g) + "," + std::to_string(k) + "," + m + "," + p); }
	void D(int g, int k) { bd.insert(IP(g, k)); item("D," + std::to_string(g) + "," + std::to_string(k)); }
	void N(int g, int k, const std::string &v) { bi[IP(g, k)].push_back(v); item("N," + std::to_string(g) + "," + std::to_string(k) + "," + v); }
	std::string str() const { return text.empty() ? "-" : text; }
	bool honest() const { return text.empty(); }
};

// ------------------------------------------------------------------ coin classification
enum Ev { EV_NONE, EV_PRIV_SEND, EV_BC_FIRST, EV_BC_MID, EV_BC_LAST, EV_OTHER };
struct CoinTap {
	Z q; std::vector<std::string> strong; std::vector<int> weak; int head = 0; Ev prev = EV_NONE;
	void begin(int head_count) { drain(EV_OTHER); head = head_count; prev = EV_NONE; }
	void drain(Ev ev)
	{
		std::vector<CoinLogEntry> es = coins.take();
		std::vector<uint64_t> gap;
		for (auto &e : es) {
			if (e.level != 0) {
				Z v; mpz_import(v, e.bytes.size(), 1, 1, 1, 0, e.bytes.data()); mpz_mod(v, v, q);
				strong.push_back(v.str());
			} else if (e.bytes.size() == 8) {
				uint64_t w; memcpy(&w, e.bytes.data(), 8);
				if (head > 0) { weak.push_back((int)(w % 2)); head--; } else gap.push_back(w);
			}
		}
		if (ev == EV_PRIV_SEND && (prev == EV_PRIV_SEND || prev == EV_BC_LAST))
			for (uint64_t w : gap) weak.push_back((int)(w % 2));
		else if (ev == EV_BC_FIRST && prev == EV_BC_LAST && gap.size() >= 5)
			for (size_t i = 0; i + 5 < gap.size(); i++) weak.push_back((int)(gap[i] % 2));
		prev = ev;
	}
	std::string strong_s() const { std::string s = "["; for (size_t i = 0; i < strong.size(); i++) { if (i) s += ","; s += strong[i]; } return s + "]"; }
	std::string weak_s() const { std::string s = "["; for (size_t i = 0; i < weak.size(); i++) { if (i) s += ","; s += std::to_string(weak[i]); } return s + "]"; }
};

// ------------------------------------------------------------------ the party process
struct ChildCtx {
	int n = 0, me = 0; int report_fd = -1;
	Dev dev; bool dev_active = false;
	CoinTap tap;
	CachinKursawePetzoldShoupRBC *rbc = nullptr;
	long ops = 0; int seg = 0, off = 0; IP bc_cur = IP(-1, -1); bool in_insert = false;
	std::map<int, int> po_cnt, pi_cnt;
	std::string pending;    // report text of the current step emitted on death

	void report(const std::string &s) { std::string t = s + "\n"; size_t off = 0; while (off < t.size()) { ssize_t w = write(report_fd, t.data() + off, t.size() - off); if (w <= 0) break; off += (size_t)w; } }
	uint64_t seed_base = 0; int step_no = 0;
	void begin_step(const Dev &d, int head)
	{
		// fresh coins for every library call: what the reliable broadcast drew meanwhile depends on timing
		coins.reseed(seed_base + 0x9e3779b97f4a7c15ULL * (uint64_t)(++step_no));
		dev = d; dev_active = true; ops = 0; seg = 0; off = 0; bc_cur = IP(-1, -1); po_cnt.clear(); pi_cnt.clear();
		tap.begin(head);
	}
	void die()
	{
		g_sh->alive[me].store(0);
		report("dead strong=" + tap.strong_s() + " weak=" + tap.weak_s());
		_exit(0);
	}
	void out_op() { if (dev_active && dev.silent >= 0 && ops >= dev.silent) die(); ops++; }
};

static void pump_rbc(CachinKursawePetzoldShoupRBC *rbc);
class tap_unicast : public aiounicast
{
	public:
		aiounicast_select *inner; ChildCtx *cx;
		tap_unicast(size_t n_in, size_t j_in, aiounicast_select *in, ChildCtx *cx_in):
			aiounicast(n_in, j_in, aio_scheduler_roundrobin, VC_TIMEOUT, false, false, false), inner(in), cx(cx_in) {}
		virtual bool Send(mpz_srcptr m, const size_t i_in, const time_t timeout = aio_timeout_default)
		{
			vc_touch();
			cx->tap.drain(EV_PRIV_SEND);
			cx->out_op();
			Z v; mpz_set(v, m);
			if (cx->dev_active) {
				int k = cx->po_cnt[(int)i_in]++;
				auto it = cx->dev.po.find(IP((int)i_in, k));
				if (it != cx->dev.po.end()) { Z d(it->second.c_str()); mpz_add(v, v, d); }
			}
			vc_activity();
			return inner->Send(v, i_in, timeout);
		}
		virtual bool Send(const std::vector<mpz_srcptr> &m, const size_t i_in, const time_t timeout = aio_timeout_default)
		{
			vc_touch();
			bool rsend = (m.size() == 5) && (mpz_cmp_ui(m[3], 1UL) == 0);
			if (!rsend || cx->in_insert || !cx->dev_active) {
				if (!cx->in_insert) cx->tap.drain(rsend ? (i_in == 0 ? EV_BC_FIRST : (i_in + 1 == n ? EV_BC_LAST : EV_BC_MID)) : EV_OTHER);
				vc_activity();
				return inner->Send(m, i_in, timeout);
			}
			if (i_in == 0) {
				cx->tap.drain(EV_BC_FIRST); cx->out_op(); cx->bc_cur = IP(cx->seg, cx->off);
				if (mpz_cmp_ui(m[4], (unsigned long)n) == 0) { cx->seg++; cx->off = 0; } else cx->off++;
			}
			else cx->tap.drain(i_in + 1 == n ? EV_BC_LAST : EV_BC_MID);
			IP k = cx->bc_cur; bool ok = true;
			bool drop = cx->dev.bd.count(k) > 0;
			if (!drop) {
				Z v; mpz_set(v, m[4]);
				auto it = cx->dev.ba.find(k);
				if (it != cx->dev.ba.end()) { Z d(it->second.c_str()); mpz_add(v, v, d); }
				auto im = cx->dev.bm.find(k);
				if (im != cx->dev.bm.end()) { Z f(im->second.first.c_str()), pm(im->second.second.c_str()); mpz_mul(v, v, f); mpz_mod(v, v, pm); }
				std::vector<mpz_srcptr> mm(m); mm[4] = v;
				vc_activity();
				ok = inner->Send(mm, i_in, timeout);
			}
			if (i_in + 1 == n) {
				if (drop) mpz_sub_ui(cx->rbc->s, cx->rbc->s, 1UL);  // the skipped call leaves no gap in the sequence numbers
				auto it = cx->dev.bi.find(k);
				if (it != cx->dev.bi.end()) {
					cx->in_insert = true;
					for (auto &vs : it->second) { Z z(vs.c_str()); cx->rbc->Broadcast(z); }
					cx->in_insert = false;
					coins.take(); cx->tap.prev = EV_BC_LAST;
				}
			}
			return ok;
		}
		virtual bool Receive(mpz_ptr m, size_t &i_out, const size_t scheduler = aio_scheduler_default, const time_t timeout = aio_timeout_default)
		{
			cx->tap.drain(EV_OTHER);
			time_t tmo = (timeout == aio_timeout_default) ? aio_default_timeout : timeout;
			time_t entry = time(NULL); bool ok = false;
			// while waiting for a private message keep the reliable broadcast going (as DeliverFrom would),
			// so that no backlog of broadcast traffic builds up behind a slow sender
			do { vc_touch(); ok = inner->Receive(m, i_out, scheduler, 0); if (!ok) { vc_idle(); if (cx->rbc) pump_rbc(cx->rbc); } } while (!ok && time(NULL) < entry + tmo);
			if (ok) {
				vc_activity();
				if (cx->dev_active && i_out < n) {
					int k = cx->pi_cnt[(int)i_out]++;
					auto it = cx->dev.pi.find(IP((int)i_out, k));
					if (it != cx->dev.pi.end()) { Z d(it->second.c_str()); mpz_add(m, m, d); }
				}
			}
			return ok;
		}
		virtual bool Receive(std::vector<mpz_ptr> &m, size_t &i_out, const size_t scheduler = aio_scheduler_default, const time_t timeout = aio_timeout_default)
		{
			if (!cx->in_insert) cx->tap.drain(EV_OTHER);
			time_t tmo = (timeout == aio_timeout_default) ? aio_default_timeout : timeout;
			time_t entry = time(NULL); bool ok = false;
			do { vc_touch(); ok = inner->Receive(m, i_out, scheduler, 0); if (!ok) vc_idle(); } while (!ok && time(NULL) < entry + tmo);
			if (ok) vc_activity();
			return ok;
		}
		virtual void Reset(const size_t i_in, const bool input) { inner->Reset(i_in, input); }
		virtual ~tap_unicast() {}
};

enum Kind { K_VSS = 0, K_GEN = 1, K_SIGN = 2 };
struct Case {
	uint64_t seed = 0, idx = 0; int kind = K_GEN; int n = 2, t = 0, trbc = 0; unsigned pbits = 96, qbits = 32;
	Z p, q, g, h; int dealer = 0; Z sigma; Z msg;
	std::vector<Dev> dev1, dev2; std::string tag;
};

// one step of the reliable broadcast on behalf of the others (what DeliverFrom does while it waits)
static void pump_rbc(CachinKursawePetzoldShoupRBC *rbc)
{
	size_t l = 0;
	mpz_ptr tmp = new mpz_t(), tmpID = new mpz_t();
	mpz_init(tmp), mpz_init_set(tmpID, rbc->ID);
	if (rbc->Deliver(tmp, l, aiounicast::aio_scheduler_roundrobin, 0) && l < rbc->n) {
		rbc->buf_mpz[l].push_back(tmp); rbc->buf_id[l].push_back(tmpID);
	} else {
		mpz_clear(tmp), mpz_clear(tmpID);
		delete [] tmp, delete [] tmpID;
	}
}
static void barrier(ChildCtx &cx, int step)
{
	cx.dev_active = false;
	g_sh->done[cx.me].store(step);
	for (;;) {
		bool all = true;
		for (int k = 0; k < cx.n; k++) if (g_sh->alive[k].load() && g_sh->done[k].load() < step) { all = false; break; }
		if (all) break;
		pump_rbc(cx.rbc);
	}
}
template <class V> static std::string zvec(const V &v) { return zlist(v.begin(), v.end()); }

static void child_main(const Case &c, int me, int report_fd, int (*pp)[MAXN][2], int (*bp)[MAXN][2])
{
	signal(SIGPIPE, SIG_IGN);
	g_me = me; g_n = c.n;
	{ // the channel classes report every empty poll on std::cerr
		const char *dir = getenv("DKG_ERRDIR");
		std::string f = dir ? (std::string(dir) + "/dkg-" + std::to_string(c.idx) + "-P" + std::to_string(me) + ".err") : std::string("/dev/null");
		if (!freopen(f.c_str(), "w", stderr)) {}
	}
	ChildCtx cx; cx.n = c.n; cx.me = me; cx.report_fd = report_fd; mpz_set(cx.tap.q, c.q);
	cx.seed_base = (c.seed * 1000003ULL + c.idx) * 1000003ULL + (uint64_t)me * 7919ULL + 13;
	coins.reseed(cx.seed_base);
	coins.entries.clear(); coins.log = true;
	std::vector<int> uin, uout, bin, bout; std::vector<std::string> keys;
	for (int i = 0; i < c.n; i++) {
		uin.push_back(pp[i][me][0]); uout.push_back(pp[me][i][1]);
		bin.push_back(bp[i][me][0]); bout.push_back(bp[me][i][1]);
		keys.push_back("drv-dkg");
	}
	try {
		aiounicast_select *u0 = new aiounicast_select(c.n, me, uin, uout, keys, aiounicast::aio_scheduler_roundrobin, VC_TIMEOUT, false, false, false);
		aiounicast_select *b0 = new aiounicast_select(c.n, me, bin, bout, keys, aiounicast::aio_scheduler_roundrobin, VC_TIMEOUT, false, false, false);
		tap_unicast *u = new tap_unicast(c.n, me, u0, &cx), *b = new tap_unicast(c.n, me, b0, &cx);
		CachinKursawePetzoldShoupRBC *rbc = new CachinKursawePetzoldShoupRBC(c.n, c.trbc, me, b, aiounicast::aio_scheduler_roundrobin, VC_TIMEOUT_RBC);
		rbc->setID("drv-dkg");
		cx.rbc = rbc;
		std::stringstream err;
		if (c.kind == K_VSS) {
			PedersenVSS vss(c.n, c.t, me, c.p, c.q, c.g, c.h, c.pbits, c.qbits, false, "v");
			cx.begin_step(c.dev1[me], me == c.dealer ? 2 : 1);
			bool sr = (me == c.dealer) ? vss.Share(c.sigma, u, rbc, err, c.dev1[me].sfb) : vss.Share((size_t)c.dealer, u, rbc, err, c.dev1[me].sfb);
			cx.tap.drain(EV_OTHER);
			cx.report(std::string("share ret=") + (sr ? "1" : "0") + " sigma_i=" + zs(vss.sigma_i) + " tau_i=" + zs(vss.tau_i) + " A=" + zvec(vss.A_j)
				+ " strong=" + cx.tap.strong_s() + " weak=" + cx.tap.weak_s());
			barrier(cx, 1);
			cx.begin_step(c.dev2[me], 0);
			Z rec(-1L);
			bool rr = vss.Reconstruct((size_t)c.dealer, rec, rbc, err);
			cx.report(std::string("rec ret=") + (rr ? "1" : "0") + " sigma=" + rec.str());
			barrier(cx, 2);
		} else if (c.kind == K_SIGN) {
			GennaroJareckiKrawczykRabinNTS nts(c.n, c.t, me, c.p, c.q, c.g, c.h, c.pbits, c.qbits, false, false);
			cx.begin_step(c.dev1[me], 1);
			bool r = nts.Generate(u, rbc, err, c.dev1[me].sfb);
			cx.tap.drain(EV_OTHER);
			{
				GennaroJareckiKrawczykRabinDKG &dkg = *nts.dkg;
				std::vector<size_t> &Q = dkg.QUAL;
				std::string qs = "["; for (size_t i = 0; i < Q.size(); i++) { if (i) qs += ","; qs += std::to_string(Q[i]); } qs += "]";
				cx.report(std::string("gen ret=") + (r ? "1" : "0") + " QUAL=" + qs + " x=" + zs(dkg.x_i) + " y=" + zs(nts.y) + " zi=" + zs(nts.z_i)
					+ " yi=" + zvec(nts.y_i) + " strong=" + cx.tap.strong_s() + " weak=" + cx.tap.weak_s());
			}
			barrier(cx, 1);
			cx.tap.strong.clear(); cx.tap.weak.clear();
			hashlog.clear(); hashlog.log = true;
			cx.begin_step(c.dev2[me], 3);
			Z cc, ss;
			bool sr = nts.Sign(c.msg, cc, ss, u, rbc, err, c.dev2[me].sfb);
			cx.tap.drain(EV_OTHER);
			hashlog.log = false;
			std::string orc = "[";
			{
				std::vector<std::string> qs; qs.swap(hashlog.shash_inputs); bool first = true;
				for (auto &qv : qs) {
					if (std::count(qv.begin(), qv.end(), '|') != 2) continue;
					Z a; tmcg_mpz_shash(a, qv);
					if (!first) orc += ","; first = false;
					orc += hexs(qv) + ":" + a.str();
				}
			}
			orc += "]";
			bool vr = nts.Verify(c.msg, cc, ss);
			cx.report(std::string("sign ret=") + (sr ? "1" : "0") + " c=" + cc.str() + " s=" + ss.str() + " verify=" + (vr ? "1" : "0")
				+ " strong=" + cx.tap.strong_s() + " weak=" + cx.tap.weak_s() + " oracle=" + orc);
			barrier(cx, 2);
		} else {
			GennaroJareckiKrawczykRabinDKG dkg(c.n, c.t, me, c.p, c.q, c.g, c.h, c.pbits, c.qbits, false, false, "d");
			cx.begin_step(c.dev1[me], 1);
			bool r = dkg.Generate(u, rbc, err, c.dev1[me].sfb);
			cx.tap.drain(EV_OTHER);
			std::vector<size_t> &Q = dkg.QUAL;
			std::string qs = "["; for (size_t i = 0; i < Q.size(); i++) { if (i) qs += ","; qs += std::to_string(Q[i]); } qs += "]";
			std::string cs = "["; bool first = true;
			for (int j = 0; j < c.n; j++) for (int k = 0; k <= c.t; k++) { if (!first) cs += ","; first = false; cs += zs(dkg.C_ik[j][k]); }
			cs += "]";
			std::string sj = "[", spj = "[";
			for (int j = 0; j < c.n; j++) { if (j) { sj += ","; spj += ","; } sj += zs(dkg.s_ij[j][me]); spj += zs(dkg.sprime_ij[j][me]); }
			sj += "]"; spj += "]";
			bool ck = r ? dkg.CheckKey() : false;
			cx.report(std::string("gen ret=") + (r ? "1" : "0") + " QUAL=" + qs + " x=" + zs(dkg.x_i) + " xp=" + zs(dkg.xprime_i) + " C=" + cs
				+ " y=" + zs(dkg.y) + " yi=" + zvec(dkg.y_i) + " zi=" + zvec(dkg.z_i) + " vi=" + zvec(dkg.v_i) + " ck=" + (ck ? "1" : "0")
				+ " sji=" + sj + " spji=" + spj + " strong=" + cx.tap.strong_s() + " weak=" + cx.tap.weak_s());
			barrier(cx, 1);
		}
		if (getenv("DKG_ERRDIR")) std::cerr << err.str();
	} catch (std::exception &e) {
		cx.report(std::string("exc what=") + e.what());
	} catch (...) {
		cx.report("exc what=other");
	}
	g_sh->alive[me].store(0);
	_exit(0);
}

// ------------------------------------------------------------------ the supervisor of one run
typedef std::map<std::string, std::string> KV;
static KV parse_kv(const std::string &line, std::string &head)
{
	KV m; std::istringstream is(line); std::string tok; is >> head;
	while (is >> tok) { size_t e = tok.find('='); if (e != std::string::npos) m[tok.substr(0, e)] = tok.substr(e + 1); }
	return m;
}
static double now_s() { struct timespec ts; clock_gettime(CLOCK_MONOTONIC, &ts); return ts.tv_sec + 1e-9 * ts.tv_nsec; }

static std::string run_case(const Case &c, double limit_s)
{
	Shared *sh = (Shared*)mmap(NULL, sizeof(Shared), PROT_READ | PROT_WRITE, MAP_SHARED | MAP_ANONYMOUS, -1, 0);
	if (sh == MAP_FAILED) return "# dkg: mmap failed";
	for (int k = 0; k < MAXN; k++) { sh->polls[k].store(0); sh->alive[k].store(k < c.n ? 1 : 0); sh->done[k].store(0); }
	sh->ticks.store(0);
	static int pp[MAXN][MAXN][2], bp[MAXN][MAXN][2]; int rep[MAXN][2];
	for (int i = 0; i < c.n; i++) {
		for (int j = 0; j < c.n; j++) {
			if (pipe(pp[i][j]) < 0 || pipe(bp[i][j]) < 0) return "# dkg: pipe failed";
			fcntl(pp[i][j][1], F_SETPIPE_SZ, 1 << 20); fcntl(bp[i][j][1], F_SETPIPE_SZ, 1 << 20);
		}
		if (pipe(rep[i]) < 0) return "# dkg: pipe failed";
		fcntl(rep[i][1], F_SETPIPE_SZ, 1 << 20);
	}
	pid_t pid[MAXN];
	for (int i = 0; i < c.n; i++) {
		pid[i] = fork();
		if (pid[i] == 0) { g_sh = sh; child_main(c, i, rep[i][1], pp, bp); _exit(0); }
	}
	for (int i = 0; i < c.n; i++) close(rep[i][1]);
	int left = c.n; bool hang = false; std::vector<int> status(c.n, 0);
	double t0 = now_s();
	while (left > 0) {
		int st = 0; pid_t w = waitpid(-1, &st, WNOHANG);
		if (w > 0) {
			for (int i = 0; i < c.n; i++) if (pid[i] == w) { sh->alive[i].store(0); status[i] = st; left--; }
			continue;
		}
		if (now_s() - t0 > limit_s) { hang = true; for (int i = 0; i < c.n; i++) kill(pid[i], SIGKILL); limit_s = 1e18; }
		usleep(1000);
	}
	// reports
	std::vector<std::vector<std::pair<std::string, KV> > > R(c.n);
	for (int i = 0; i < c.n; i++) {
		std::string buf; char tmp[65536]; ssize_t r;
		while ((r = read(rep[i][0], tmp, sizeof tmp)) > 0) buf.append(tmp, (size_t)r);
		std::istringstream is(buf); std::string line;
		while (std::getline(is, line)) { std::string head; KV kv = parse_kv(line, head); R[i].push_back(std::make_pair(head, kv)); }
	}
	auto find = [&](int i, const std::string &head) -> const KV* { for (auto &e : R[i]) if (e.first == head) return &e.second; return nullptr; };
	auto get = [&](const KV *kv, const std::string &k) -> std::string { if (!kv) return "?"; auto it = kv->find(k); return it == kv->end() ? "?" : it->second; };
	std::string pqgh = zs(c.p) + " " + zs(c.q) + " " + zs(c.g) + " " + zs(c.h);
	std::string in, out, prop; std::string honest = "[";
	{ bool first = true; for (int i = 0; i < c.n; i++) if (c.dev1[i].honest() && c.dev2[i].honest()) { if (!first) honest += ","; first = false; honest += std::to_string(i); } honest += "]"; }
	std::string crash;
	for (int i = 0; i < c.n; i++) {
		if (!WIFEXITED(status[i]) || WEXITSTATUS(status[i]) != 0) crash += " crash:P" + std::to_string(i) + ":" + std::to_string(status[i]);
		if (find(i, "exc")) crash += " exc:P" + std::to_string(i) + ":" + get(find(i, "exc"), "what");
	}
	if (hang) crash += " hang";
	if (c.kind == K_VSS) {
		for (int i = 0; i < c.n; i++) {
			const KV *s = find(i, "share"), *r = find(i, "rec"), *d = find(i, "dead");
			const KV *cs = s ? s : d;
			in += " " + get(cs, "strong") + " " + get(cs, "weak") + " " + c.dev1[i].str() + " " + c.dev2[i].str();
			if (!s) { out += " -"; prop += " P" + std::to_string(i) + ":-"; continue; }
			std::string o = get(s, "ret") + "|" + get(s, "sigma_i") + "|" + get(s, "tau_i") + "|" + get(s, "A") + "|";
			o += r ? (get(r, "ret") + "|" + get(r, "sigma")) : std::string("-");
			out += " " + o; prop += " P" + std::to_string(i) + ":" + o;
		}
		std::string lines = "dkg.vss " + std::to_string(c.n) + " " + std::to_string(c.t) + " " + std::to_string(c.dealer) + " " + pqgh + " " + c.sigma.str()
			+ in + " tag:" + c.tag + " =>" + out + crash;
		lines += "\nprop.dkg.vss seed=" + std::to_string(c.seed) + " case=" + std::to_string(c.idx) + " n=" + std::to_string(c.n) + " t=" + std::to_string(c.t)
			+ " dealer=" + std::to_string(c.dealer) + " " + pqgh + " sigma=" + c.sigma.str() + " honest=" + honest + " tag:" + c.tag + " =>" + prop + crash;
		munmap(sh, sizeof(Shared));
		return lines;
	}
	if (c.kind == K_SIGN) {
		std::string orc; std::set<std::string> seen;
		for (int i = 0; i < c.n; i++) {
			const KV *s = find(i, "gen"), *sg = find(i, "sign");
			// a party that died leaves one `dead` report with the coins of the step it died in
			const KV *d = nullptr; for (auto &e : R[i]) if (e.first == "dead") d = &e.second;
			const KV *c1 = s ? s : d; const KV *c2 = sg ? sg : (s ? d : nullptr);
			in += " " + get(c1, "strong") + " " + get(c1, "weak") + " " + c.dev1[i].str();
			in += " " + (c2 ? get(c2, "strong") : std::string("[]")) + " " + (c2 ? get(c2, "weak") : std::string("[]")) + " " + c.dev2[i].str();
			if (sg) { std::string o = get(sg, "oracle"); if (o.size() > 2) { std::string inner = o.substr(1, o.size() - 2); std::istringstream is(inner); std::string e;
				while (std::getline(is, e, ',')) if (seen.insert(e).second) { if (!orc.empty()) orc += ","; orc += e; } } }
			if (!s) { out += " -"; prop += " P" + std::to_string(i) + ":-"; continue; }
			std::string o = get(s, "ret") + "|";
			// a party that deviates in Sign is out of step with the others (it does not accuse itself, so it
			// enters the reconstruction calls earlier or with another list): what IT ends with depends on
			// timing and is no concern of the property; the trace line masks it
			if (!c.dev2[i].honest()) { out += " " + o + "*"; }
			if (!sg) { if (c.dev2[i].honest()) out += " " + o + "-"; prop += " P" + std::to_string(i) + ":" + o + "-"; continue; }
			o += get(sg, "ret") + "|" + get(sg, "c") + "|" + get(sg, "s");
			if (c.dev2[i].honest()) out += " " + o;
			prop += " P" + std::to_string(i) + ":" + o + "|" + get(sg, "verify") + "|" + get(s, "QUAL") + "|" + get(s, "y");
		}
		std::string lines = "dkg.sign " + std::to_string(c.n) + " " + std::to_string(c.t) + " " + pqgh + " " + c.msg.str() + in + " [" + orc + "] tag:" + c.tag + " =>" + out + crash;
		lines += "\nprop.dkg.sign seed=" + std::to_string(c.seed) + " case=" + std::to_string(c.idx) + " n=" + std::to_string(c.n) + " t=" + std::to_string(c.t)
			+ " " + pqgh + " m=" + c.msg.str() + " honest=" + honest + " tag:" + c.tag + " =>" + prop + crash;
		munmap(sh, sizeof(Shared));
		return lines;
	}
	for (int i = 0; i < c.n; i++) {
		const KV *s = find(i, "gen"), *d = find(i, "dead");
		const KV *cs = s ? s : d;
		in += " " + get(cs, "strong") + " " + get(cs, "weak") + " " + c.dev1[i].str();
		if (!s) { out += " -"; prop += " P" + std::to_string(i) + ":-"; continue; }
		std::string o = get(s, "ret") + "|" + get(s, "QUAL") + "|" + get(s, "x") + "|" + get(s, "xp") + "|" + get(s, "C");
		if (get(s, "ret") == "1") o += "|" + get(s, "y") + "|" + get(s, "yi") + "|" + get(s, "zi") + "|" + get(s, "vi") + "|" + get(s, "ck");
		out += " " + o;
		prop += " P" + std::to_string(i) + ":" + get(s, "ret") + "|" + get(s, "QUAL") + "|" + get(s, "x") + "|" + get(s, "xp") + "|" + get(s, "y") + "|" + get(s, "vi") + "|" + get(s, "yi") + "|" + get(s, "ck");
	}
	std::string lines = "dkg.gen " + std::to_string(c.n) + " " + std::to_string(c.t) + " " + pqgh + in + " tag:" + c.tag + " =>" + out + crash;
	lines += "\nprop.dkg.gen seed=" + std::to_string(c.seed) + " case=" + std::to_string(c.idx) + " n=" + std::to_string(c.n) + " t=" + std::to_string(c.t)
		+ " " + pqgh + " honest=" + honest + " tag:" + c.tag + " =>" + prop + crash;
	munmap(sh, sizeof(Shared));
	return lines;
}

// ------------------------------------------------------------------ case generator
static const int PAIRS[][2] = { {2,0},{3,0},{3,1},{4,0},{4,1},{5,0},{5,1},{5,2},{6,0},{6,1},{6,2},{7,0},{7,1},{7,2},{7,3},{2,1},{4,2},{6,3} };
static const int NPAIRS = 15, NPAIRS_ALL = 18;

static void make_case(Case &c, uint64_t seed, uint64_t idx, bool thorough, const Opts &o)
{
	SplitMix g(seed * 0x9e3779b97f4a7c15ULL + idx * 0x100000001b3ULL + 0xd6e8feb86659fd93ULL);
	c.seed = seed; c.idx = idx;
	c.kind = (idx % 2 == 0) ? K_GEN : K_VSS;
	if (idx % 6 == 5) c.kind = K_SIGN;
	int pi;
	// "congruent representative" runs: in every quick run, once per kind and sign, a deviating party sends
	// value - q / value + q instead of a value (private shares, published answers, s_i of Sign, shares of
	// Reconstruct): idx 0, 1, 5 -> minus q, idx 4, 7, 11 -> plus q   (`--qdev -1|1` forces it)
	int qdev = (idx == 0 || idx == 1 || idx == 5) ? -1 : (idx == 4 || idx == 7 || idx == 11) ? 1 : 0;
	if (o.val("--qdev") != "") qdev = atoi(o.val("--qdev").c_str());
	// signing runs get more minus-q cases (idx 2, 8, 14, ... besides 0, 1, 5): the deviating signer is the
	// LAST member of QUAL (party n-1), so that its negative share enters the final sum last; for odd idx
	// the second deviating party (n-2) sends s_j - q as well
	{
		int kind_now = c.kind;
		if (o.val("--kind") != "") kind_now = (o.val("--kind") == "vss") ? K_VSS : (o.val("--kind") == "sign") ? K_SIGN : K_GEN;
		if (kind_now == K_SIGN && qdev == 0 && idx % 3 == 2 && o.val("--qdev") == "") qdev = -1;
	}
	if (idx < 2 || qdev) pi = 13;               // (7,2): the configuration of tests/t-dkg.cc
	else if (idx < 4) pi = 9;                   // (6,1)
	else if (g.below(4) != 0) { static const int FP[] = { 4, 6, 7, 9, 10, 12, 13, 14 }; pi = FP[g.below(8)]; }   // pairs that admit faulty parties
	else pi = (int)g.below(g.below(4) == 0 ? NPAIRS_ALL : NPAIRS);
	c.n = PAIRS[pi][0]; c.t = PAIRS[pi][1];
	if (o.val("--n") != "") { c.n = atoi(o.val("--n").c_str()); c.t = atoi(o.val("--t", "0").c_str()); }
	if (o.val("--kind") != "") c.kind = (o.val("--kind") == "vss") ? K_VSS : (o.val("--kind") == "sign") ? K_SIGN : K_GEN;
	c.trbc = (c.n - 1) / 3;
	switch (g.below(thorough ? 4 : 3)) { case 0: c.pbits = 96; c.qbits = 32; break; case 1: c.pbits = 128; c.qbits = 64; break; case 2: c.pbits = 256; c.qbits = 160; break; default: c.pbits = 512; c.qbits = 160; break; }
	SmallGroup sg = make_group(g, c.pbits, c.qbits);
	mpz_set(c.p, sg.p); mpz_set(c.q, sg.q); mpz_set(c.g, sg.g);
	Z e, pm1; mpz_sub_ui(pm1, c.p, 1);
	do { gen_below(e, g, c.q); mpz_powm(c.h, c.g, e, c.p); } while (mpz_cmp_ui(e, 2) < 0 || !mpz_cmp(c.h, c.g) || mpz_cmp_ui(c.h, 1) <= 0 || mpz_cmp(c.h, pm1) >= 0);
	c.dealer = (int)g.below(c.n);
	switch (g.below(6)) { case 0: mpz_set_ui(c.sigma, 0); break; case 1: mpz_set_ui(c.sigma, 1); break; case 2: mpz_sub_ui(c.sigma, c.q, 1); break; default: gen_below(c.sigma, g, c.q); break; }
	switch (g.below(6)) { case 0: mpz_set_ui(c.msg, 0); break; case 1: mpz_set_ui(c.msg, 1); break; case 2: mpz_sub_ui(c.msg, c.q, 1); break; case 3: mpz_set(c.msg, c.q); break; default: gen_bits(c.msg, g, 200); break; }
	c.dev1.assign(c.n, Dev()); c.dev2.assign(c.n, Dev());
	int fmax = std::min(c.t, c.trbc); if (2 * c.t >= c.n) fmax = 0;
	// `--fall`: up to t deviating parties even where the reliable broadcast is only (n-1)/3-resilient (use
	// with scripts whose parties follow the broadcast protocol or are silent from the start)
	if (o.has("--fall") && 2 * c.t < c.n) fmax = c.t;
	int f = 0;
	if (fmax > 0 && idx != 2 && idx != 3) f = (g.below(4) == 0) ? (int)g.below(fmax + 1) : fmax;
	if (qdev && fmax > 0) f = fmax;
	if (o.val("--f") != "") f = std::min(fmax, atoi(o.val("--f").c_str()));
	std::vector<int> ids; for (int i = 0; i < c.n; i++) ids.push_back(i);
	for (int i = c.n - 1; i > 0; i--) std::swap(ids[i], ids[g.below(i + 1)]);
	std::vector<int> faulty(ids.begin(), ids.begin() + f);
	if (c.kind == K_VSS && f > 0 && (qdev || g.below(3) != 0)) { // usually the dealer is among the faulty
		if (std::find(faulty.begin(), faulty.end(), c.dealer) == faulty.end()) faulty[0] = c.dealer;
	}
	bool two_signers = false;
	if (c.kind == K_SIGN && qdev < 0 && f > 0) {
		faulty[0] = c.n - 1;
		two_signers = (f > 1) && (idx % 2 == 1);
		if (f > 1) {
			if (two_signers) faulty[1] = c.n - 2;
			else if (faulty[1] == c.n - 1) faulty[1] = (int)g.below(c.n - 1);
		}
		for (int k = 2; k < f; k++) if (faulty[k] == faulty[0] || faulty[k] == faulty[1]) faulty[k] = (faulty[1] + 1 + (int)g.below(c.n - 3)) % (c.n - 1);
	}
	std::string negq = "-" + zs(c.q);
	c.tag = f ? "cheat" : "honest";
	int force = o.val("--dev") != "" ? atoi(o.val("--dev").c_str()) : -1;
	for (int fi = 0; fi < f; fi++) {
		int me = faulty[fi]; Dev &d = c.dev1[me]; Dev &d2 = c.dev2[me];
		auto other = [&]() { int r; do r = (int)g.below(c.n); while (r == me); return r; };
		auto honest_other = [&]() { for (int tries = 0; tries < 50; tries++) { int r = other(); if (std::find(faulty.begin(), faulty.end(), r) == faulty.end()) return r; } return other(); };
		int t = c.t, n = c.n;
		if (qdev && f > 0) {
			std::string dq = (qdev < 0 ? "-" : "") + zs(c.q); const char *nm = qdev < 0 ? "minusq" : "plusq";
			int r1 = honest_other(), r2 = r1; for (int tries = 0; tries < 50 && r2 == r1; tries++) r2 = honest_other();
			if (c.kind == K_GEN && fi == 0) {
				// a private share and a published answer replaced by the other representative
				d.O(r1, (int)g.below(2), dq); if (r2 != r1) { d.O(r2, 0, "1"); d.A(1, 1 + (int)g.below(2), dq); }
				c.tag += std::string(":share-answer:") + nm; continue;
			}
			if (c.kind == K_GEN) { d.A(2, (int)g.below(t + 1), qdev < 0 ? "-" + zs(c.p) : zs(c.p)); c.tag += std::string(":A-p:") + nm; continue; }
			if (c.kind == K_VSS && me == c.dealer) {
				d.O(r1, (int)g.below(2), dq); if (r2 != r1) { d.O(r2, 0, "1"); d.A(0, t + 2 + (int)g.below(2), dq); }
				c.tag += std::string(":dealer-share-answer:") + nm; continue;
			}
			if (c.kind == K_VSS) { d2.A(0, (int)g.below(2), dq); c.tag += std::string(":recv-recshare:") + nm; continue; }
			if (c.kind == K_SIGN && (fi == 0 || (fi == 1 && two_signers))) { d2.A(3, 0, dq); d2.O(r1, (int)g.below(2), dq); c.tag += std::string(":sign-si-share:") + nm; continue; }
			if (c.kind == K_SIGN) { d.O(r1, (int)g.below(2), dq); c.tag += std::string(":keygen-share:") + nm; continue; }
		}
		if (c.kind == K_SIGN) {
			int how = force >= 0 ? force : (int)g.below(6);
			switch (how) {
			case 0: d2.S(); c.tag += ":sign-sfb"; break;
			case 1: d2.A(3, 0, "1"); c.tag += ":sign-badsi"; break;                 // the broadcast s_i (no reconstruction inside k_dkg)
			case 2: d2.Zk((long)g.below(4 * (t + 1) + 2 * n + 6)); c.tag += ":sign-silent"; break;
			case 3: d.S(); c.tag += ":keygen-sfb"; break;
			case 4: d2.D(3, 0); c.tag += ":sign-nosi"; break;
			default: d2.A(3, 0, zs(c.q)); c.tag += ":sign-si-plusq"; break;
			}
		} else if (c.kind == K_GEN) {
			int how = force >= 0 ? force : (int)g.below(13);
			if (how == 12 && !(n == 2 * t + 1 && t >= 1)) how = 7;
			if (force == 12 && fi > 0) { d.Zk(0); c.tag += ":silent0"; continue; }   // the other faulty parties never speak
			switch (how) {
			case 12: {
				// Feldman commitments of f + delta, delta = c (X-x_1)...(X-x_t): consistent with the shares of t
				// chosen parties, inconsistent for everybody else
				std::vector<int> keep; for (int w = 0; w < n && (int)keep.size() < t; w++) if (w != me && std::find(faulty.begin(), faulty.end(), w) == faulty.end()) keep.push_back(w);
				std::vector<Z> co(t + 1); mpz_set_ui(co[0], 1 + g.below(1000));
				for (size_t r = 0; r < keep.size(); r++) {          // multiply by (X - (keep[r]+1))
					std::vector<Z> nw(t + 1);
					for (int k = 0; k <= t; k++) {
						Z sub; mpz_mul_ui(sub, co[k], (unsigned long)(keep[r] + 1));
						if (k > 0) mpz_set(nw[k], co[k - 1]);
						mpz_sub(nw[k], nw[k], sub); mpz_mod(nw[k], nw[k], c.q);
					}
					co = nw;
				}
				for (int k = 0; k <= t; k++) { Z f; mpz_powm(f, c.g, co[k], c.p); d.M(2, k, zs(f), zs(c.p)); }
				c.tag += ":craftedA"; break; }
			case 0: d.S(); c.tag += ":sfb"; break;
			case 1: d.Zk((long)g.below(3 * (t + 1) + 2 * n + 4)); c.tag += ":silent"; break;
			case 2: d.O(honest_other(), (int)g.below(2), g.below(2) ? "1" : "-1"); c.tag += ":wrongshare"; break;
			case 3: d.O(honest_other(), 0, "1"); d.D(1, 0); d.D(1, 1); d.D(1, 2); c.tag += ":wrongshare-noanswer"; break;
			case 4: d.O(honest_other(), 0, "1"); d.A(1, 1 + (int)g.below(2), "1"); c.tag += ":wrongshare-badanswer"; break;
			case 5: d.I(honest_other(), (int)g.below(2), "1"); c.tag += ":falsecomplaint"; break;
			case 6: d.A(0, (int)g.below(t + 1), g.below(2) ? "1" : zs(c.p)); c.tag += ":badC"; break;
			case 7: d.A(2, (int)g.below(t + 1), "1"); c.tag += ":badA"; break;
			case 8: { int w = honest_other(); d.N(2, t, std::to_string(w)); d.N(2, t, "0"); d.N(2, t, "0"); c.tag += ":falseextract"; break; }
			case 9: { for (int w = 0, cnt = 0; w < n && cnt <= t; w++) if (w != me) { d.N(2, t, std::to_string(w)); d.N(2, t, "0"); d.N(2, t, "0"); cnt++; } c.tag += ":manyextract"; break; }
			case 10: d.O(honest_other(), (int)g.below(2), negq); c.tag += ":negshare"; break;
			default: d.N(0, t, std::to_string(honest_other())); c.tag += ":complaint-noreason"; break;   // an unfounded complaint in step 1(b)
			}
		} else if (me == c.dealer) {
			int how = force >= 0 ? force : (int)g.below(7);
			switch (how) {
			case 0: d.S(); c.tag += ":dealer-sfb"; break;
			case 1: d.Zk((long)g.below((t + 1) + 2 * n + 3)); c.tag += ":dealer-silent"; break;
			case 2: d.O(honest_other(), (int)g.below(2), "1"); c.tag += ":dealer-wrongshare"; break;
			case 3: d.O(honest_other(), 0, "1"); d.A(0, t + 2, "1"); c.tag += ":dealer-wrongshare-badanswer"; break;
			case 4: d.O(honest_other(), 0, "1"); d.D(0, t + 1); d.D(0, t + 2); d.D(0, t + 3); c.tag += ":dealer-wrongshare-noanswer"; break;
			case 5: d.A(0, (int)g.below(t + 1), "1"); c.tag += ":dealer-badA"; break;
			default: d.O(honest_other(), (int)g.below(2), negq); c.tag += ":dealer-negshare"; break;
			}
		} else {
			int how = force >= 0 ? force : (int)g.below(5);
			switch (how) {
			case 0: d.S(); c.tag += ":recv-sfb"; break;
			case 1: d.Zk((long)g.below(3)); c.tag += ":recv-silent"; break;
			case 2: d.I(c.dealer, (int)g.below(2), "1"); c.tag += ":recv-falsecomplaint"; break;
			case 3: d2.A(0, (int)g.below(2), "1"); c.tag += ":recv-badrecshare"; break;
			default: d2.Zk(0); c.tag += ":recv-silentrec"; break;
			}
		}
	}
}

static int run(const Opts &o)
{
	bool thorough = (o.tier == "thorough");
	// `--eqtimeout`: the same time-out for private channels and broadcast, as tests/t-dkg.cc has it.
	// Then an honest party that had to wait for a missing private share of a faulty party publishes its
	// complaints one time-out late, exactly when the honest parties that got their share give up on it.
	if (o.has("--eqtimeout")) VC_TIMEOUT_RBC = VC_TIMEOUT;
	int par = atoi(o.val("--par", "3").c_str()); if (par < 1) par = 1;
	double limit = atof(o.val("--limit", "300").c_str());
	uint64_t first = strtoull(o.val("--first", "0").c_str(), NULL, 10);
	emit("# dkg seed=" + std::to_string(o.seed) + " cases=" + std::to_string(o.cases));
	fflush(stdout);
	for (uint64_t base = first; base < first + o.cases; base += (uint64_t)par) {
		uint64_t cnt = std::min<uint64_t>((uint64_t)par, first + o.cases - base);
		std::vector<int> fd(cnt); std::vector<pid_t> pid(cnt);
		for (uint64_t k = 0; k < cnt; k++) {
			int pfd[2]; if (pipe(pfd) < 0) return 3;
			fcntl(pfd[1], F_SETPIPE_SZ, 1 << 20);
			pid[k] = fork();
			if (pid[k] == 0) {
				close(pfd[0]);
				Case c; make_case(c, o.seed, base + k, thorough, o);
				std::string out = run_case(c, limit) + "\n";
				size_t off = 0; while (off < out.size()) { ssize_t w = write(pfd[1], out.data() + off, out.size() - off); if (w <= 0) break; off += (size_t)w; }
				_exit(0);
			}
			close(pfd[1]); fd[k] = pfd[0];
		}
		for (uint64_t k = 0; k < cnt; k++) {
			std::string buf; char tmp[65536]; ssize_t r;
			while ((r = read(fd[k], tmp, sizeof tmp)) > 0) buf.append(tmp, (size_t)r);
			close(fd[k]); int st; waitpid(pid[k], &st, 0);
			std::istringstream is(buf); std::string line;
			while (std::getline(is, line)) if (!line.empty()) emit(line);
		}
		fflush(stdout);
	}
	return 0;
}

} // namespace dkgdrv

static int dkg_main(const Opts &o) { return dkgdrv::run(o); }
REGISTER_DRIVER("dkg", dkg_main);
