// C18: Naor-Pinkas oblivious transfer (src/NaorPinkasEOTP.cc).  Chooser and sender of the real
// library are run against each other single-threaded:
//   (1) chooser with an empty peer stream  -> its first move and its coins (it then throws at the
//       second move: the stream operator finds no line),
//   (2) sender on that first move           -> its reply and its coins,
//   (3) chooser again, the SAME coins re-served through coins.script, reply pre-loaded.
// One `ot.choose` / `ot.send` line per role call (coins, peer lines, written lines, result);
// malformed first moves to the sender, malformed replies to the chooser; the "curious chooser"
// check on every ciphertext that was not chosen (`ot.decrypt`, `prop.ot.unchosen`).
#include "common.hh"
#include <memory>
#include <algorithm>

namespace {

// value of a `tmcg_mpz_srandomm(·, m)` draw from its logged bytes
void coin_mod(mpz_ptr r, const CoinLogEntry &e, mpz_srcptr m)
{
	mpz_import(r, e.bytes.size(), 1, 1, 1, 0, e.bytes.data()); mpz_mod(r, r, m);
}
// script the next srandomm(·, m) draw to return exactly v (0 <= v < m)
void script_mod(mpz_srcptr v, mpz_srcptr m)
{
	size_t n = (mpz_sizeinbase(m, 2) + 64 + 7) / 8;
	std::vector<unsigned char> b(n, 0); size_t cnt = 0;
	std::vector<unsigned char> tmp(n + 8, 0);
	mpz_export(tmp.data(), &cnt, 1, 1, 1, 0, v);
	memcpy(b.data() + (n - cnt), tmp.data(), cnt);
	coins.script.insert(coins.script.end(), b.begin(), b.end());
}

struct PeerLine { std::string text, tok; };   // what is put on the wire / the trace token
PeerLine line_of(mpz_srcptr v) { std::ostringstream s; s << v; PeerLine l; l.text = s.str(); l.tok = zs(v); return l; }
PeerLine garbage_line() { PeerLine l; l.text = "#!garbage"; l.tok = "x"; return l; }

std::string toks(const std::vector<PeerLine> &p)
{
	std::string s = "["; for (size_t i = 0; i < p.size(); i++) { if (i) s += ","; s += p[i].tok; } return s + "]";
}
std::string zvec(const std::vector<Z> &v)
{
	std::string s = "["; for (size_t i = 0; i < v.size(); i++) { if (i) s += ","; s += v[i].str(); } return s + "]";
}

struct Run {
	std::vector<Z> coin;           // values of the draws, in order
	std::vector<Z> out;            // lines written, parsed back
	std::vector<PeerLine> lines;   // the same, as peer lines for the other side
	std::string result;
};

void finish(Run &r, const std::ostringstream &out, mpz_srcptr q)
{
	std::vector<CoinLogEntry> es = coins.take();
	for (auto &e : es) { Z v; coin_mod(v, e, q); r.coin.push_back(v); }
	std::istringstream os(out.str()); std::string l;
	while (std::getline(os, l)) { Z v; mpz_set_str(v, l.c_str(), TMCG_MPZ_IO_BASE); r.out.push_back(v); r.lines.push_back(line_of(v)); }
}
void prepare(const std::vector<Z> *script, mpz_srcptr q)
{
	coins.script.clear(); coins.script_pos = 0;
	if (script) for (auto &v : *script) script_mod(v, q);
	coins.take();
}
std::string wire(const std::vector<PeerLine> &peer) { std::string s; for (auto &l : peer) s += l.text + "\n"; return s; }

const char *VN[3] = { "12", "1n", "opt" };

Run run_choose(NaorPinkasEOTP &ot, int v, size_t N, size_t sigma, const std::vector<PeerLine> &peer, const std::vector<Z> *script)
{
	Run r; prepare(script, ot.q);
	std::istringstream in(wire(peer)); std::ostringstream out; Z M;
	r.result = guarded([&]() {
		bool ok = (v == 0) ? ot.Choose_interactive_OneOutOfTwo(sigma, M, in, out)
			: (v == 1) ? ot.Choose_interactive_OneOutOfN(sigma, N, M, in, out)
			: ot.Choose_interactive_OneOutOfN_optimized(sigma, N, M, in, out);
		return ok ? M.str() : std::string("refused"); });
	finish(r, out, ot.q);
	return r;
}
Run run_send(NaorPinkasEOTP &ot, int v, std::vector<Z> &M, const std::vector<PeerLine> &peer)
{
	Run r; prepare(NULL, ot.q);
	std::istringstream in(wire(peer)); std::ostringstream out;
	std::vector<mpz_ptr> Mp; for (auto &m : M) Mp.push_back(m);
	r.result = guarded([&]() {
		bool ok = (v == 0) ? ot.Send_interactive_OneOutOfTwo(M[0], M[1], in, out)
			: (v == 1) ? ot.Send_interactive_OneOutOfN(Mp, in, out)
			: ot.Send_interactive_OneOutOfN_optimized(Mp, in, out);
		return std::string(ok ? "ok" : "refused"); });
	finish(r, out, ot.q);
	return r;
}

std::string pqg(NaorPinkasEOTP &ot) { return zs(ot.p) + " " + zs(ot.q) + " " + zs(ot.g); }

void emit_choose(NaorPinkasEOTP &ot, int v, size_t N, size_t sigma, const std::vector<PeerLine> &peer, const Run &r, const std::string &tag)
{
	emit(std::string("ot.choose ") + VN[v] + " " + pqg(ot) + " " + std::to_string(N) + " " + std::to_string(sigma) + " " + zvec(r.coin) + " " + toks(peer)
		+ " tag:" + tag + " => " + zvec(r.out) + " " + r.result);
}
void emit_send(NaorPinkasEOTP &ot, int v, const std::vector<Z> &M, const std::vector<PeerLine> &peer, const Run &r, const std::string &tag)
{
	emit(std::string("ot.send ") + VN[v] + " " + pqg(ot) + " " + zvec(M) + " " + zvec(r.coin) + " " + toks(peer)
		+ " tag:" + tag + " => " + zvec(r.out) + " " + r.result);
}

// a value in [2, p-2] that is NOT in the order-q subgroup
void non_member(mpz_ptr v, SplitMix &g, NaorPinkasEOTP &ot)
{
	Z t, pm3; mpz_sub_ui(pm3, ot.p, 3);
	for (;;) { gen_below(v, g, pm3); mpz_add_ui(v, v, 2); mpz_powm(t, v, ot.q, ot.p); if (mpz_cmp_ui(t, 1)) return; }
}

// first-move mutations.  `bad`: the sender must refuse (or throw) before writing anything.
struct Mut { std::vector<PeerLine> peer; std::string tag; };
void first_move_mutations(std::vector<Mut> &ms, SplitMix &g, NaorPinkasEOTP &ot, const Run &first, size_t sigma, int v)
{
	size_t L = first.out.size();
	std::vector<size_t> pos; pos.push_back(0); pos.push_back(1); pos.push_back(2);
	if (v != 2) { if (2 + sigma < L) pos.push_back(2 + sigma); pos.push_back(L - 1); pos.push_back(2 + g.below(L - 2)); }
	std::sort(pos.begin(), pos.end()); pos.erase(std::unique(pos.begin(), pos.end()), pos.end());
	auto name = [&](size_t i) { return i == 0 ? std::string("x") : i == 1 ? std::string("y") : "z" + std::to_string(i - 2); };
	for (size_t i : pos) {
		for (int k = 0; k < 10; k++) {
			Z nv; std::string kn; bool bad = true;
			switch (k) {
			case 0: mpz_set_ui(nv, 0); kn = "zero"; break;
			case 1: mpz_set(nv, ot.p); kn = "p"; break;
			case 2: mpz_sub(nv, ot.p, first.out[i]); kn = "negelem"; break;          // p - v: order 2q (or 2)
			case 3: mpz_neg(nv, first.out[i]); kn = "neg"; if (mpz_sgn(nv) == 0) continue; break;
			case 4: mpz_add(nv, first.out[i], ot.p); kn = "plusp"; break;
			case 5: non_member(nv, g, ot); kn = "nonmember"; break;
			case 6: mpz_sub_ui(nv, ot.p, 1); kn = "pm1"; break;
			case 7: mpz_set_ui(nv, 1); kn = "one"; bad = false; break;                  // a member: may be served
			case 8: { Z e; gen_below(e, g, ot.q); mpz_powm(nv, ot.g, e, ot.p); kn = "otherelem"; bad = false; break; }
			default: {                                                                // z_i := z_j
				if (v == 2 || i < 2 || L < 4) continue;
				size_t j = 2 + g.below(L - 2); if (j == i) j = (i == 2) ? 3 : 2;
				mpz_set(nv, first.out[j]); kn = "dup" + std::to_string(j - 2); break; }
			}
			Mut m; m.peer = first.lines; m.peer[i] = line_of(nv);
			m.tag = std::string(bad ? "bad:" : "alt:") + name(i) + ":" + kn; ms.push_back(m);
		}
		{ Mut m; m.peer = first.lines; m.peer[i] = garbage_line(); m.tag = "bad:" + name(i) + ":garbage"; ms.push_back(m); }
		{ Mut m; m.peer.assign(first.lines.begin(), first.lines.begin() + i); m.tag = "bad:" + name(i) + ":missing"; ms.push_back(m); }
	}
}

} // namespace

static int drv_ot(const Opts &o)
{
	SplitMix g(o.seed ^ 0x6f74);
	bool thorough = (o.tier == "thorough");
	size_t Nmax = thorough ? 64 : 8;
	if (o.val("--nmax") != "") Nmax = strtoul(o.val("--nmax").c_str(), NULL, 10);
	coins.log = true;
	static const unsigned sizes[][2] = { {10, 4}, {16, 6}, {32, 12}, {64, 24}, {128, 64}, {256, 160} };
	for (uint64_t c = 0; c < o.cases; c++) {
		size_t N = 2 + c % (Nmax - 1);
		size_t si = g.below(thorough ? 6 : 5); if (c < 6) si = c;
		unsigned pbits = sizes[si][0], qbits = sizes[si][1];
		SmallGroup sg = make_group(g, pbits, qbits);
		std::ostringstream grp; grp << sg.p.v << std::endl << sg.q.v << std::endl << sg.g.v << std::endl;
		std::istringstream gin(grp.str());
		NaorPinkasEOTP ot(gin, pbits, qbits);
		emit("# ot case " + std::to_string(c) + " p=" + zs(ot.p) + " q=" + zs(ot.q) + " g=" + zs(ot.g) + " N=" + std::to_string(N)
			+ " checkgroup=" + (ot.CheckGroup() ? "1" : "0"));
		// messages: group elements, among them 1 and repetitions
		std::vector<Z> M(N);
		for (size_t i = 0; i < N; i++) {
			switch (g.below(6)) {
			case 0: mpz_set_ui(M[i], 1); break;
			case 1: if (i) { mpz_set(M[i], M[g.below(i)]); break; } /* fall through */
			default: { Z e; gen_below(e, g, ot.q); mpz_powm(M[i], ot.g, e, ot.p); } }
		}
		if (c % 7 == 3) for (size_t i = 1; i < N; i++) mpz_set(M[i], M[0]);       // all messages equal
		for (int v = 0; v < 3; v++) {
			size_t n = (v == 0) ? 2 : N;
			std::vector<Z> Mv(M.begin(), M.begin() + n);
			size_t mut_sigma = g.below(n);
			for (size_t sigma = 0; sigma < n; sigma++) {
				std::string vs = VN[v], hdr = std::to_string(n) + " " + std::to_string(sigma);
				// (1) first move
				Run c1 = run_choose(ot, v, n, sigma, std::vector<PeerLine>(), NULL);
				emit_choose(ot, v, n, sigma, std::vector<PeerLine>(), c1, "honest:first");
				// (2) the sender's reply
				Run s = run_send(ot, v, Mv, c1.lines);
				emit_send(ot, v, Mv, c1.lines, s, "honest");
				// (3) second move with the same coins
				Run c2 = run_choose(ot, v, n, sigma, s.lines, &c1.coin);
				emit_choose(ot, v, n, sigma, s.lines, c2, "honest:second");
				bool same = c1.coin.size() == c2.coin.size() && c1.out.size() == c2.out.size();
				for (size_t i = 0; same && i < c1.coin.size(); i++) same = !mpz_cmp(c1.coin[i], c2.coin[i]);
				for (size_t i = 0; same && i < c1.out.size(); i++) same = !mpz_cmp(c1.out[i], c2.out[i]);
				emit("prop.ot.replay " + vs + " " + hdr + " => " + (same ? "same" : "DIFFERENT"));
				// the exponents c_i as the chooser fixed them (c_sigma = ab mod q)
				Z a, b, ab; bool have_ab = c1.coin.size() >= 2;
				if (have_ab) { mpz_set(a, c1.coin[0]); mpz_set(b, c1.coin[1]); mpz_mul(ab, a, b); mpz_mod(ab, ab, ot.q); }
				std::vector<Z> ci(n);
				for (size_t i = 0; have_ab && i < n; i++) {
					if (i == sigma) mpz_set(ci[i], ab);
					else if (v == 0) mpz_set(ci[i], c1.coin.at(2));
					else if (v == 1) mpz_set(ci[i], c1.coin.at(2 + i));
					else { mpz_set_si(ci[i], (long)i - (long)sigma); mpz_add(ci[i], ci[i], ab); mpz_mod(ci[i], ci[i], ot.q); }
				}
				bool expect_abort = false;
				if (v != 2) { for (size_t i = 0; i < n; i++) for (size_t j = 0; j < i; j++) if (!mpz_cmp(ci[i], ci[j])) expect_abort = true; }
				else { Z sz; mpz_set_ui(sz, sigma); if (mpz_sizeinbase(sz, 2) > mpz_sizeinbase(ot.q, 2)) expect_abort = true; }
				std::string verdict = (c2.result == Mv[sigma].str()) ? "ok" : (c2.result == "refused" || c2.result.compare(0, 6, "throw:") == 0) ? "aborted" : "WRONG";
				emit("prop.ot.deliver " + hdr + " " + Mv[sigma].str() + " " + c2.result + " tag:" + vs + (expect_abort ? ":expect-abort" : ":expect-ok") + " => " + verdict);
				// curious chooser: what the other ciphertexts decrypt to under the chooser's own secrets
				if (s.result == "ok" && s.out.size() == 2 * n) {
					for (size_t i = 0; i < n; i++) {
						if (i == sigma) continue;
						Z wb, inv, dec, si_, t; std::string d;
						mpz_powm(wb, s.out[2 * i], b, ot.p);
						if (mpz_invert(inv, wb, ot.p)) { mpz_mul(dec, s.out[2 * i + 1], inv); mpz_mod(dec, dec, ot.p); d = dec.str(); } else d = "refused";
						emit("ot.decrypt " + pqg(ot) + " " + b.str() + " " + s.out[2 * i].str() + " " + s.out[2 * i + 1].str() + " tag:unchosen => " + d);
						mpz_set(si_, (v == 0) ? s.coin.at(1 + 2 * i) : s.coin.at(2 * i));
						mpz_sub(t, ci[i], ab); mpz_mul(t, t, si_); mpz_mod(t, t, ot.q);
						bool exc = (mpz_sgn(t) == 0);
						emit("prop.ot.unchosen " + hdr + " " + std::to_string(i) + " " + Mv[i].str() + " " + d + " tag:" + vs + (exc ? ":exc1" : ":exc0")
							+ " => " + ((d == Mv[i].str()) ? "EQUAL" : "differs"));
					}
				}
				// malformed first moves to the sender; malformed replies to the chooser
				if (sigma == mut_sigma && c1.out.size() >= 3) {
					std::vector<Mut> ms; first_move_mutations(ms, g, ot, c1, sigma, v);
					for (auto &m : ms) { Run r = run_send(ot, v, Mv, m.peer); emit_send(ot, v, Mv, m.peer, r, m.tag); }
					if (s.result == "ok" && s.out.size() == 2 * n) {
						size_t other = (sigma + 1 + g.below(n - 1)) % n;
						struct { size_t idx; int how; const char *tag; } rm[] = {
							{ 2 * sigma, 0, "bad2:wsigma:negelem" }, { 2 * other, 0, "bad2:wother:negelem" }, { 2 * other, 1, "bad2:wother:zero" },
							{ 2 * sigma, 2, "bad2:wsigma:p" }, { 2 * other, 3, "bad2:wother:nonmember" }, { 2 * n - 1, 4, "bad2:last:missing" },
							{ 2 * other + 1, 5, "bad2:encother:garbage" }, { 2 * sigma + 1, 6, "alt2:encsigma:plus1" }, { 2 * other + 1, 7, "alt2:encother:zero" },
							{ 2 * sigma, 8, "alt2:wsigma:otherelem" } };
						for (auto &x : rm) {
							std::vector<PeerLine> peer = s.lines; Z nv;
							switch (x.how) {
							case 0: mpz_sub(nv, ot.p, s.out[x.idx]); peer[x.idx] = line_of(nv); break;
							case 1: peer[x.idx] = line_of(nv); break;
							case 2: peer[x.idx] = line_of(ot.p); break;
							case 3: non_member(nv, g, ot); peer[x.idx] = line_of(nv); break;
							case 4: peer.pop_back(); break;
							case 5: peer[x.idx] = garbage_line(); break;
							case 6: mpz_add_ui(nv, s.out[x.idx], 1); peer[x.idx] = line_of(nv); break;
							case 7: peer[x.idx] = line_of(nv); break;
							default: { Z e; gen_below(e, g, ot.q); mpz_powm(nv, ot.g, e, ot.p); peer[x.idx] = line_of(nv); break; }
							}
							Run r = run_choose(ot, v, n, sigma, peer, &c1.coin);
							emit_choose(ot, v, n, sigma, peer, r, x.tag);
						}
					}
				}
			}
		}
	}
	coins.script.clear(); coins.script_pos = 0;
	return 0;
}
REGISTER_DRIVER("ot", drv_ot);
