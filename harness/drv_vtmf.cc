// C01 (opening of masked cards, discrete-log encoding) and C08 (common key).
#include "common.hh"
#include <memory>

struct Player {
	std::unique_ptr<BarnettSmartVTMF_dlog> vtmf;
	std::unique_ptr<SchindelhauerTMCG> tmcg;
};

// safe-prime group for the QR variant: p = 2q+1, p = 7 mod 8
static void make_qr_group(SplitMix &g, unsigned pbits, Z &p, Z &q)
{
	for (;;) {
		gen_bits(q, g, pbits - 1); mpz_setbit(q, pbits - 2); mpz_setbit(q, 0); mpz_setbit(q, 1); // q = 3 mod 4
		mpz_nextprime(q, q);
		mpz_mul_2exp(p, q, 1); mpz_add_ui(p, p, 1);
		if (mpz_sizeinbase(p, 2) != pbits) continue;
		if (!mpz_congruent_ui_p(p, 7, 8)) continue;
		if (mpz_probab_prime_p(p, 30)) return;
	}
}

static BarnettSmartVTMF_dlog *new_vtmf(bool qr, const std::string &grp, unsigned pbits, unsigned qbits)
{
	std::istringstream in(grp);
	if (qr) return new BarnettSmartVTMF_dlog_GroupQR(in, pbits, qbits);
	return new BarnettSmartVTMF_dlog(in, pbits, qbits, false, true);
}

static int drv_vtmf(const Opts &o)
{
	SplitMix g(o.seed ^ 0x76746d66);
	bool thorough = (o.tier == "thorough");
	for (uint64_t c = 0; c < o.cases; c++) {
		bool qr = (c % 4 == 3);
		unsigned pbits, qbits;
		switch (g.below(thorough ? 8 : 6)) {
		case 0: pbits = 24; qbits = 12; break;   // tiny: coincidences in the message space become visible
		case 1: pbits = 64; qbits = 20; break;
		case 2: case 3: pbits = 128; qbits = 64; break;
		case 4: pbits = 256; qbits = 128; break;
		case 5: pbits = 512; qbits = 160; break;
		case 6: pbits = 1024; qbits = 160; break;
		default: pbits = 2048; qbits = 256; break;
		}
		size_t k = 1 + g.below(c % 5 == 0 ? 8 : 4);
		size_t w = 1 + g.below(c % 7 == 0 ? 10 : 5);
		if (qr) { if (pbits < 64) pbits = 64; if (pbits > 512 && !thorough) pbits = 256; qbits = pbits / 2; }
		else while (w + 1 > qbits - 1) w--;
		std::ostringstream grp; Z P, Q, G, K;
		if (qr) {
			make_qr_group(g, pbits, P, Q); mpz_set_ui(G, 2); mpz_set_ui(K, 2);
		} else {
			SmallGroup sg = make_group(g, pbits, qbits); P = sg.p; Q = sg.q; G = sg.g; K = sg.k;
		}
		grp << P.v << std::endl << Q.v << std::endl << G.v << std::endl << K.v << std::endl;
		std::vector<Player> pl(k);
		for (size_t i = 0; i < k; i++) {
			pl[i].vtmf.reset(new_vtmf(qr, grp.str(), pbits, qr ? qbits : qbits));
			pl[i].tmcg.reset(new SchindelhauerTMCG(16, k, w));
			pl[i].vtmf->KeyGenerationProtocol_GenerateKey();
		}
		mpz_set(G, pl[0].vtmf->g); // (the QR variant shifts the generator)
		// key generation: everybody publishes, everybody processes the others in a random order
		std::vector<std::string> pub(k);
		for (size_t i = 0; i < k; i++) { std::ostringstream os; pl[i].vtmf->KeyGenerationProtocol_PublishKey(os); pub[i] = os.str(); }
		bool keys_ok = true;
		for (size_t i = 0; i < k; i++) {
			std::vector<size_t> order; for (size_t j = 0; j < k; j++) if (j != i) order.push_back(j);
			for (size_t a = order.size(); a > 1; a--) std::swap(order[a - 1], order[g.below(a)]);
			for (size_t j : order) { std::istringstream is(pub[j]); if (!pl[i].vtmf->KeyGenerationProtocol_UpdateKey(is)) keys_ok = false; }
			pl[i].vtmf->KeyGenerationProtocol_Finalize();
		}
		std::vector<Z> xs(k); for (size_t i = 0; i < k; i++) mpz_set(xs[i], pl[i].vtmf->x_i);
		// the card
		size_t T = g.below(1UL << w);
		bool priv = g.coin();
		VTMF_Card card, cc; VTMF_CardSecret cs;
		std::vector<Z> rs; std::vector<uint64_t> taps;
		if (priv) { pl[0].tmcg->TMCG_CreatePrivateCard(card, cs, pl[0].vtmf.get(), T); rs.push_back(Z()); mpz_set(rs.back(), cs.r); taps.push_back(1); }
		else pl[0].tmcg->TMCG_CreateOpenCard(card, pl[0].vtmf.get(), T);
		size_t chain = g.below(9);
		for (size_t s = 0; s < chain; s++) {
			size_t j = g.below(k); bool tap = g.coin();
			pl[j].tmcg->TMCG_CreateCardSecret(cs, pl[j].vtmf.get());
			if (g.below(16) == 0) mpz_neg(cs.r, cs.r); // negative exponents are legal inputs of Remask
			pl[j].tmcg->TMCG_MaskCard(card, cc, cs, pl[j].vtmf.get(), tap);
			card = cc; rs.push_back(Z()); mpz_set(rs.back(), cs.r); taps.push_back(tap ? 1 : 0);
		}
		// opening by `opener`; a random subset of the other shares is withheld in 1/3 of the cases
		size_t opener = g.below(k);
		std::vector<uint64_t> present;
		bool drop = (k > 1) && (g.below(3) == 0);
		for (size_t j = 0; j < k; j++) if (j != opener) { if (drop && g.coin()) continue; present.push_back(j); }
		if (drop && present.size() == k - 1) present.pop_back();
		for (size_t a = present.size(); a > 1; a--) std::swap(present[a - 1], present[g.below(a)]);
		std::string out = guarded([&]() {
			pl[opener].tmcg->TMCG_SelfCardSecret(card, pl[opener].vtmf.get());
			bool ok = true;
			for (uint64_t j : present) {
				std::stringstream lej;
				std::istringstream dummy_in;
				pl[j].tmcg->TMCG_ProveCardSecret(card, pl[j].vtmf.get(), dummy_in, lej);
				std::ostringstream dummy_out;
				if (!pl[opener].tmcg->TMCG_VerifyCardSecret(card, pl[opener].vtmf.get(), lej, dummy_out)) ok = false;
			}
			if (!ok) return std::string("share-refused");
			Z d; if (!mpz_invert(d, pl[opener].vtmf->d, pl[opener].vtmf->p)) return std::string("reject");
			Z m; pl[opener].vtmf->VerifiableDecryptionProtocol_Verify_Finalize(card.c_2, m);
			size_t type = pl[opener].tmcg->TMCG_TypeOfCard(card, pl[opener].vtmf.get());
			return zs(pl[opener].vtmf->h) + " " + zs(card.c_1) + " " + zs(card.c_2) + " " + m.str() + " " + std::to_string(type);
		});
		if (!keys_ok) out = "key-refused";
		emit("vtmf.open " + P.str() + " " + Q.str() + " " + G.str() + " " + std::to_string(w) + " " + std::to_string(T) + " " + (priv ? "1" : "0") + " " +
			zlist(xs.begin(), xs.end()) + " " + zlist(rs.begin(), rs.end()) + " " + ulist(taps) + " " + ulist(present) + " " + std::to_string(opener) + " => " + out);

		// ---- C08: a history of contributions and removals processed by player 0 (fresh instance)
		{
			std::unique_ptr<BarnettSmartVTMF_dlog> v(new_vtmf(qr, grp.str(), pbits, qbits));
			v->KeyGenerationProtocol_GenerateKey();
			Z x0; mpz_set(x0, v->x_i);
			std::string ops = "["; std::string rets = "[";
			size_t nops = g.below(thorough ? 40 : 14);
			std::vector<size_t> accepted;
			for (size_t s = 0; s < nops; s++) {
				size_t j = g.below(k);
				int kind = g.below(10);
				std::string line = pub[j];
				Z key, cc2, rr; { std::istringstream is(line); is >> key.v >> cc2.v >> rr.v; }
				Z fp; tmcg_mpz_shash(fp, 1, key.v);
				bool ret; char tag;
				if (kind < 5) { // honest contribution (maybe a duplicate)
					std::istringstream is(line); ret = v->KeyGenerationProtocol_UpdateKey(is); tag = ret ? 'a' : 'x';
				} else if (kind < 7) { // corrupted contribution: wrong response / wrong challenge / key outside the group / missing proof
					int how = g.below(5);
					std::ostringstream os;
					if (how == 0) { mpz_add_ui(rr, rr, 1); os << key.v << std::endl << cc2.v << std::endl << rr.v << std::endl; }
					else if (how == 1) { mpz_add_ui(cc2, cc2, 1); os << key.v << std::endl << cc2.v << std::endl << rr.v << std::endl; }
					else if (how == 2) { mpz_add(key, key, v->p); os << key.v << std::endl << cc2.v << std::endl << rr.v << std::endl; mpz_sub(key, key, v->p); }
					else if (how == 3) { os << key.v << std::endl; }
					else { Z k2; mpz_sub(k2, v->p, key); os << k2.v << std::endl << cc2.v << std::endl << rr.v << std::endl; }
					std::istringstream is(os.str());
					std::string r2 = guarded([&]() { return std::string(v->KeyGenerationProtocol_UpdateKey(is) ? "1" : "0"); });
					ret = (r2 == "1"); tag = ret ? 'a' : 'x';
				} else { // removal
					std::istringstream is(line); ret = v->KeyGenerationProtocol_RemoveKey(is); tag = 'r';
				}
				if (ops.size() > 1) { ops += ","; rets += ","; }
				if (tag == 'r') ops += "r:" + fp.str(); else ops += std::string(1, tag) + ":" + fp.str() + ":" + key.str();
				rets += ret ? "1" : "0";
			}
			ops += "]"; rets += "]";
			emit("vtmf.key " + P.str() + " " + Q.str() + " " + G.str() + " " + x0.str() + " " + ops + " => " + zs(v->h) + " " + std::to_string(v->KeyGenerationProtocol_NumberOfKeys()) + " " + rets);
		}
	}
	return 0;
}
REGISTER_DRIVER("vtmf", drv_vtmf);
