// C01 (opening of masked cards, discrete-log encoding) and C08 (common key).
#include "common.hh"
#include <memory>
#include <set>

struct Player {
	std::unique_ptr<BarnettSmartVTMF_dlog> vtmf;
	std::unique_ptr<SchindelhauerTMCG> tmcg;
};

// safe-prime group for the QR variant: p = 2q+1, p = 7 mod 8
static void make_qr_group(SplitMix &g, unsigned pbits, Z &p, Z &q)
{
	for (;;) {
		gen_bits(q, g, pbits - 1); mpz_setbit(q, pbits - 2); mpz_setbit(q, 0); mpz_setbit(q, 1); // q = 3 mod 4
		mpz_nextprime(q, q);
		mpz_mul_2exp(p, q, 1); mpz_add_ui(p, p, 1);
		if (mpz_sizeinbase(p, 2) != pbits) continue;
		if (!mpz_congruent_ui_p(p, 7, 8)) continue;
		if (mpz_probab_prime_p(p, 30)) return;
	}
}

static BarnettSmartVTMF_dlog *new_vtmf(bool qr, const std::string &grp, unsigned pbits, unsigned qbits)
{
	std::istringstream in(grp);
	if (qr) return new BarnettSmartVTMF_dlog_GroupQR(in, pbits, qbits);
	return new BarnettSmartVTMF_dlog(in, pbits, qbits, false, true);
}

static int drv_vtmf(const Opts &o)
{
	SplitMix g(o.seed ^ 0x76746d66);
	bool thorough = (o.tier == "thorough");
	for (uint64_t c = 0; c < o.cases; c++) {
		bool qr = (c % 4 == 3);
		unsigned pbits, qbits;
		switch (g.below(thorough ? 8 : 6)) {
		case 0: pbits = 24; qbits = 12; break;   // tiny: coincidences in the message space become visible
		case 1: pbits = 64; qbits = 20; break;
		case 2: case 3: pbits = 128; qbits = 64; break;
		case 4: pbits = 256; qbits = 128; break;
		case 5: pbits = 512; qbits = 160; break;
		case 6: pbits = 1024; qbits = 160; break;
		default: pbits = 2048; qbits = 256; break;
		}
		size_t k = 1 + g.below(c % 5 == 0 ? 8 : 4);
		size_t w = 1 + g.below(c % 7 == 0 ? 10 : 5);
		if (qr) { if (pbits < 64) pbits = 64; if (pbits > 512 && !thorough) pbits = 256; qbits = pbits / 2; }
		else while (w + 1 > qbits - 1) w--;
		std::ostringstream grp; Z P, Q, G, K;
		if (qr) {
			make_qr_group(g, pbits, P, Q); mpz_set_ui(G, 2); mpz_set_ui(K, 2);
		} else {
			SmallGroup sg = make_group(g, pbits, qbits); P = sg.p; Q = sg.q; G = sg.g; K = sg.k;
		}
		grp << P.v << std::endl << Q.v << std::endl << G.v << std::endl << K.v << std::endl;
		std::vector<Player> pl(k);
		for (size_t i = 0; i < k; i++) {
			pl[i].vtmf.reset(new_vtmf(qr, grp.str(), pbits, qr ? qbits : qbits));
			pl[i].tmcg.reset(new SchindelhauerTMCG(16, k, w));
			pl[i].vtmf->KeyGenerationProtocol_GenerateKey();
		}
		mpz_set(G, pl[0].vtmf->g); // (the QR variant shifts the generator)
		// key generation: everybody publishes, everybody processes the others in a random order
		std::vector<std::string> pub(k);
		for (size_t i = 0; i < k; i++) { std::ostringstream os; pl[i].vtmf->KeyGenerationProtocol_PublishKey(os); pub[i] = os.str(); }
		bool keys_ok = true;
		for (size_t i = 0; i < k; i++) {
			std::vector<size_t> order; for (size_t j = 0; j < k; j++) if (j != i) order.push_back(j);
			for (size_t a = order.size(); a > 1; a--) std::swap(order[a - 1], order[g.below(a)]);
			for (size_t j : order) { std::istringstream is(pub[j]); if (!pl[i].vtmf->KeyGenerationProtocol_UpdateKey(is)) keys_ok = false; }
			pl[i].vtmf->KeyGenerationProtocol_Finalize();
		}
		std::vector<Z> xs(k); for (size_t i = 0; i < k; i++) mpz_set(xs[i], pl[i].vtmf->x_i);
		// the card
		size_t T = g.below(1UL << w);
		bool priv = g.coin();
		VTMF_Card card, cc; VTMF_CardSecret cs;
		std::vector<Z> rs; std::vector<uint64_t> taps;
		if (priv) { pl[0].tmcg->TMCG_CreatePrivateCard(card, cs, pl[0].vtmf.get(), T); rs.push_back(Z()); mpz_set(rs.back(), cs.r); taps.push_back(1); }
		else pl[0].tmcg->TMCG_CreateOpenCard(card, pl[0].vtmf.get(), T);
		size_t chain = g.below(9);
		for (size_t s = 0; s < chain; s++) {
			size_t j = g.below(k); bool tap = g.coin();
			pl[j].tmcg->TMCG_CreateCardSecret(cs, pl[j].vtmf.get());
			if (g.below(16) == 0) mpz_neg(cs.r, cs.r); // negative exponents are legal inputs of Remask
			pl[j].tmcg->TMCG_MaskCard(card, cc, cs, pl[j].vtmf.get(), tap);
			card = cc; rs.push_back(Z()); mpz_set(rs.back(), cs.r); taps.push_back(tap ? 1 : 0);
		}
		// opening by `opener`; a random subset of the other shares is withheld in 1/3 of the cases
		size_t opener = g.below(k);
		std::vector<uint64_t> present;
		bool drop = (k > 1) && (g.below(3) == 0);
		for (size_t j = 0; j < k; j++) if (j != opener) { if (drop && g.coin()) continue; present.push_back(j); }
		if (drop && present.size() == k - 1) present.pop_back();
		for (size_t a = present.size(); a > 1; a--) std::swap(present[a - 1], present[g.below(a)]);
		std::string out = guarded([&]() {
			pl[opener].tmcg->TMCG_SelfCardSecret(card, pl[opener].vtmf.get());
			bool ok = true;
			for (uint64_t j : present) {
				std::stringstream lej;
				std::istringstream dummy_in;
				pl[j].tmcg->TMCG_ProveCardSecret(card, pl[j].vtmf.get(), dummy_in, lej);
				std::ostringstream dummy_out;
				if (!pl[opener].tmcg->TMCG_VerifyCardSecret(card, pl[opener].vtmf.get(), lej, dummy_out)) ok = false;
			}
			if (!ok) return std::string("share-refused");
			Z d; if (!mpz_invert(d, pl[opener].vtmf->d, pl[opener].vtmf->p)) return std::string("reject");
			Z m; pl[opener].vtmf->VerifiableDecryptionProtocol_Verify_Finalize(card.c_2, m);
			size_t type = pl[opener].tmcg->TMCG_TypeOfCard(card, pl[opener].vtmf.get());
			return zs(pl[opener].vtmf->h) + " " + zs(card.c_1) + " " + zs(card.c_2) + " " + m.str() + " " + std::to_string(type);
		});
		if (!keys_ok) out = "key-refused";
		emit("vtmf.open " + P.str() + " " + Q.str() + " " + G.str() + " " + std::to_string(w) + " " + std::to_string(T) + " " + (priv ? "1" : "0") + " " +
			zlist(xs.begin(), xs.end()) + " " + zlist(rs.begin(), rs.end()) + " " + ulist(taps) + " " + ulist(present) + " " + std::to_string(opener) + " => " + out);

		// ---- C08: a history of contributions and removals processed by a fresh instance; every
		// contribution is recorded as (key, c, r) so that the model decides acceptance itself
		{
			std::unique_ptr<BarnettSmartVTMF_dlog> v(new_vtmf(qr, grp.str(), pbits, qbits));
			v->KeyGenerationProtocol_GenerateKey();
			Z x0; mpz_set(x0, v->x_i);
			std::string ops = "[", rets = "[";
			size_t nops = g.below(thorough ? 40 : 14);
			hashlog.log = true; hashlog.shash_inputs.clear();
			for (size_t s = 0; s < nops; s++) {
				size_t j = g.below(k);
				int kind = g.below(12);
				Z key, cc2, rr; { std::istringstream is(pub[j]); is >> key.v >> cc2.v >> rr.v; }
				bool ret; std::string op;
				if (kind < 8) {
					std::string txt; bool parsed = true;
					if (kind >= 5) { // corrupted or forged contribution
						int how = g.below(11);
						if (how == 0) mpz_add_ui(rr, rr, 1);
						else if (how == 1) mpz_add_ui(cc2, cc2, 1);
						else if (how == 2) mpz_add(key, key, v->p);
						else if (how == 3) parsed = false;                       // proof missing
						else if (how == 4) mpz_sub(key, v->p, key);              // p - key: outside the group
						else if (how == 5) mpz_add(rr, rr, v->q);                // r + q
						else if (how == 6) mpz_sub(rr, rr, v->q);                // r - q: the equivalent representative
						else if (how == 7) { // forgery attempt: arbitrary element, response with a bit beyond the table, c = H(.., 0)
							Z e, zero; gen_below(e, g, v->q); mpz_powm(key, v->g, e, v->p); mpz_set_ui(rr, 1); mpz_mul_2exp(rr, rr, mpz_sizeinbase(v->q, 2));
							tmcg_mpz_shash(cc2, 5, v->p, v->q, v->g, key.v, zero.v); }
						else if (how >= 9) { // rogue key -g^x (outside the group, order 2q) with a genuine proof whose challenge is even:
							// g^r (-g^x)^c = g^v holds, only the membership test refuses it (seeded change C08b)
							Z e, vv, t, prod; gen_below(e, g, v->q); mpz_powm(key, v->g, e, v->p); mpz_sub(key, v->p, key);
							for (int tries = 0; tries < 64; tries++) {
								gen_below(vv, g, v->q); mpz_powm(t, v->g, vv, v->p);
								tmcg_mpz_shash(cc2, 5, v->p, v->q, v->g, key.v, t.v);
								if (mpz_even_p(cc2)) break;
							}
							mpz_mul(prod, cc2, e); mpz_sub(rr, vv, prod); mpz_mod(rr, rr, v->q); }
						else { Z e, one(1L); gen_below(e, g, v->q); mpz_powm(key, v->g, e, v->p); mpz_set_ui(rr, 0); tmcg_mpz_shash(cc2, 5, v->p, v->q, v->g, key.v, one.v); } // r = 0, c = H(.., 1)
					}
					std::ostringstream os; os << key.v << std::endl; if (parsed) os << cc2.v << std::endl << rr.v << std::endl;
					std::istringstream is(os.str());
					std::string r2 = guarded([&]() { return std::string(v->KeyGenerationProtocol_UpdateKey(is) ? "1" : "0"); });
					ret = (r2 == "1");
					op = parsed ? ("u:" + key.str() + ":" + cc2.str() + ":" + rr.str()) : std::string("m:") + key.str();
				} else { // removal
					std::istringstream is(pub[j]); ret = v->KeyGenerationProtocol_RemoveKey(is); op = "r:" + key.str();
				}
				if (ops.size() > 1) { ops += ","; rets += ","; }
				ops += op; rets += ret ? "1" : "0";
			}
			ops += "]"; rets += "]";
			std::string log = "["; { std::vector<std::string> qs; qs.swap(hashlog.shash_inputs); hashlog.log = false; std::set<std::string> seen; for (auto &q : qs) { if (!seen.insert(q).second) continue; Z a; tmcg_mpz_shash(a, q); if (log.size() > 1) log += ","; log += hexs(q) + ":" + a.str(); } }
			log += "]";
			emit("vtmf.key " + std::string(qr ? "qr " : "schnorr ") + P.str() + " " + Q.str() + " " + G.str() + " " + x0.str() + " " + ops + " " + log + " => " + zs(v->h) + " " + std::to_string(v->KeyGenerationProtocol_NumberOfKeys()) + " " + rets);
		}
	}
	return 0;
}
REGISTER_DRIVER("vtmf", drv_vtmf);
