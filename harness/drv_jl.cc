// C17, multi-party part (area "jl"): the coin flip JareckiLysyanskayaEDCF::Flip over the joint verifiable
// secret sharing JareckiLysyanskayaRVSS::Share / Reconstruct, run by n forked parties over pipes
// (aiounicast_select + CachinKursawePetzoldShoupRBC, as tests/t-astc.cc).  Scaffolding copied from drv_dkg.cc.
//
// One trace line per run; the Lean model (Tmcg/Model/Jl.lean) recomputes every party's final state from the
// group, the parties' coins and their deviation scripts:
//
//   jl.flip n t p q g h (STRONG WEAK DEV){n}  =>  OUT{n}
//       OUT = ret|coin|[Qual]|alpha_i|hatalpha_i|[alpha_ji]|[hatalpha_ji]|[C_00..C_(n-1)t]
//             (coin is `-` when Flip returned false;  `-` instead of the whole token: the party died)
//   STRONG = values of the party's tmcg_mpz_srandomm(.,q) draws in order (c_0, hatc_0, c_1, hatc_1, ...),
//   WEAK = the two protocol level `tmcg_mpz_wrandom_ui() % 2` draws (Flip's, then Share's),
//   DEV = `-` (honest) or items joined by `;`:
//       S        simulate_faulty_behaviour = true                  (the library's own switch)
//       Z,k      dies right before its k-th output operation (Broadcast calls and privately sent
//                values, counted in program order from 0): silent from there on
//       O,j,k,d  the k-th value sent privately to party j is increased by d
//       I,j,k,d  the k-th value received privately from party j is increased by d before use
//       A,g,k,d  the payload of a Broadcast call is increased by d (for every recipient)
//       D,g,k    a Broadcast call sends nothing
//       N,g,k,v  after a Broadcast call it additionally broadcasts v (several N,g,k: in order)
//                (g,k) addresses the party's own Broadcast calls: g = number of end markers (payload n)
//                it has broadcast before, k = number of calls since the last of them.  In Flip:
//                (0,0..t) commitments, (0,t+1..) complaints and end marker, (1,..) answers to complaints
//                (triples who, alpha, hatalpha) and end marker, (2,0) (2,1) the opening a_i, hata_i,
//                (2,2..) the shares published in Reconstruct
//
//   prop.jl.flip seed= case= n= t= p q g h honest=[..] tag:.. => P_i:ret|coin|[Qual]|[alpha_ji]|[hatalpha_ji]|[C..]|a_i|hata_i|lastC|open|[missing]
//       as above plus the party's own additive share a_i, hata_i (its first two STRONG draws) and the ORDER
//       facts: every operation of the party on one of its channels (send or receive attempt) increments an
//       event counter; `lastC` = the event at which the party's table of the OTHER parties' commitments
//       C_jk was last seen to change before the opening, `open` = the event of its first Broadcast outside
//       the sharing phase (the opening a_i; -1: none), `missing` = the parties whose commitment row was
//       incomplete in the party's memory at that moment.
//
// Time: see drv_dkg.cc.  The library measures its time-outs with time(NULL); in the party processes time()
// is a virtual clock (shared memory) that ticks only at global quiescence.  A party whose script drops
// broadcasts (`D`) runs with long time-outs ("patient"): the others wait for its missing message while it
// is already waiting for their next one; a patient party never gives up on a message that is still to come.
#include "common.hh"
#include <aiounicast_select.hh>
#include <atomic>
#include <map>
#include <set>
#include <algorithm>
#include <sys/mman.h>
#include <sys/wait.h>
#include <unistd.h>
#include <fcntl.h>
#include <signal.h>
#include <dlfcn.h>
#include <time.h>

namespace jldrv {

static const int MAXN = 8;
struct Shared {
	std::atomic<uint64_t> polls[MAXN];
	std::atomic<uint64_t> ticks;
	std::atomic<int> alive[MAXN];
	std::atomic<int> done[MAXN];
};
static Shared *g_sh = nullptr;
static int g_me = -1, g_n = 0;
static const uint64_t VC_K = 48;
static const time_t VC_BASE = 1700000000;
static const time_t VC_TIMEOUT = 2;       // ticks: private channel
static const time_t VC_TIMEOUT_RBC = 8;   // ticks: reliable broadcast
static const time_t VC_PATIENT = 16;      // factor for a party that drops broadcasts

static void vc_activity()
{
	if (g_sh) for (int k = 0; k < g_n; k++) g_sh->polls[k].store(0, std::memory_order_relaxed);
}
static void vc_idle()
{
	Shared *s = g_sh; if (!s) return;
	uint64_t cur = s->ticks.load();
	uint64_t p = s->polls[g_me].fetch_add(1) + 1;
	if (p >= VC_K) {
		bool all = true;
		for (int k = 0; k < g_n; k++) if (s->alive[k].load() && s->polls[k].load() < VC_K) { all = false; break; }
		if (all && s->ticks.compare_exchange_strong(cur, cur + 1))
			for (int k = 0; k < g_n; k++) s->polls[k].store(0);
	}
	if (p > 4) usleep(40);
}
static uint64_t g_time_run = 0;
static void vc_touch() { g_time_run = 0; }
static time_t vc_time() { if (++g_time_run > 4000) vc_idle(); return VC_BASE + (time_t)g_sh->ticks.load(); }

static bool g_probe = false;
static time_t jl_time(time_t *out)
{
	time_t r;
	g_probe = true;
	if (g_sh) r = vc_time();
	else {
		struct timespec ts; clock_gettime(CLOCK_REALTIME, &ts);
		r = ts.tv_sec;
	}
	if (out) *out = r;
	return r;
}

} // namespace

// The binary has one time(): drv_dkg.cc defines it for its own clock.  This weak definition is the one in
// force when that file is not linked; otherwise install_clock() redirects the entry of the active time() to
// jl_time (x86-64: movabs rax, imm64; jmp rax) in the processes of this driver only.
extern "C" __attribute__((weak)) time_t time(time_t *out) { return jldrv::jl_time(out); }

namespace jldrv {

static bool install_clock()
{
	g_probe = false;
	time_t (*volatile fn)(time_t*) = &time;
	fn(NULL);
	if (g_probe) return true;
#if defined(__x86_64__)
	unsigned char *entry = (unsigned char*)(void*)fn;
	long ps = sysconf(_SC_PAGESIZE);
	uintptr_t a = (uintptr_t)entry & ~(uintptr_t)(ps - 1);
	if (mprotect((void*)a, (size_t)(2 * ps), PROT_READ | PROT_WRITE | PROT_EXEC) != 0) return false;
	unsigned char code[12] = { 0x48, 0xB8, 0, 0, 0, 0, 0, 0, 0, 0, 0xFF, 0xE0 };
	uintptr_t target = (uintptr_t)(void*)&jl_time;
	memcpy(code + 2, &target, 8);
	memcpy(entry, code, sizeof code);
	mprotect((void*)a, (size_t)(2 * ps), PROT_READ | PROT_EXEC);
	g_probe = false; fn(NULL);
	return g_probe;
#else
	return false;
#endif
}

// ------------------------------------------------------------------ deviation scripts
typedef std::pair<int, int> IP;
struct Dev {
	bool sfb = false; long silent = -1;
	std::map<IP, std::string> po, pi;
	std::map<IP, std::string> ba; std::set<IP> bd; std::map<IP, std::vector<std::string> > bi;
	std::string text;
	void item(const std::string &s) { if (!text.empty()) text += ";"; text += s; }
	void S() { sfb = true; item("S"); }
	void Zk(long k) { silent = k; item("Z," + std::to_string(k)); }
	void O(int j, int k, const std::string &d) { po[IP(j, k)] = d; item("O," + std::to_string(j) + "," + std::to_string(k) + "," + d); }
	void I(int j, int k, const std::string &d) { pi[IP(j, k)] = d; item("I," + std::to_string(j) + "," + std::to_string(k) + "," + d); }
	void A(int g, int k, const std::string &d) { ba[IP(g, k)] = d; item("A," + std::to_string(g) + "," + std::to_string(k) + "," + d); }
	void D(int g, int k) { bd.insert(IP(g, k)); item("D," + std::to_string(g) + "," + std::to_string(k)); }
	void N(int g, int k, const std::string &v) { bi[IP(g, k)].push_back(v); item("N," + std::to_string(g) + "," + std::to_string(k) + "," + v); }
	std::string str() const { return text.empty() ? "-" : text; }
	bool honest() const { return text.empty(); }
	bool patient() const { return !bd.empty(); }
	bool crash() const { return silent >= 0; }
};

// ------------------------------------------------------------------ the party process
struct ChildCtx {
	int n = 0, t = 0, me = 0; int report_fd = -1;
	Dev dev; bool dev_active = false;
	Z q;
	CachinKursawePetzoldShoupRBC *rbc = nullptr;
	JareckiLysyanskayaEDCF *edcf = nullptr;
	long ops = 0; int seg = 0, off = 0; IP bc_cur = IP(-1, -1); bool in_insert = false;
	std::map<int, int> po_cnt, pi_cnt;
	// order facts
	long ev = 0, last_commit_ev = -1, open_ev = -1; int filled = 0; bool have_id = false; Z share_id; std::string missing = "[]";

	void report(const std::string &s) { std::string t = s + "\n"; size_t off = 0; while (off < t.size()) { ssize_t w = write(report_fd, t.data() + off, t.size() - off); if (w <= 0) break; off += (size_t)w; } }
	std::string coins_s()
	{
		std::vector<CoinLogEntry> es = coins.take();
		std::string strong = "[", weak = "["; int nw = 0; bool fs = true;
		for (auto &e : es) {
			if (e.level != 0) {
				Z v; mpz_import(v, e.bytes.size(), 1, 1, 1, 0, e.bytes.data()); mpz_mod(v, v, q);
				if (!fs) strong += ","; fs = false; strong += v.str();
			} else if (e.bytes.size() == 8 && nw < 2) {
				uint64_t w; memcpy(&w, e.bytes.data(), 8);
				if (nw) weak += ","; weak += std::to_string((int)(w % 2)); nw++;
			}
		}
		return " strong=" + strong + "] weak=" + weak + "]";
	}
	std::string coin_text;     // fixed after the draws (all of them precede the first channel operation)
	void fix_coins() { if (coin_text.empty()) { coin_text = coins_s(); coins.log = false; } }
	void die()
	{
		g_sh->alive[me].store(0);
		fix_coins();
		report("dead" + coin_text);
		_exit(0);
	}
	void out_op() { if (dev_active && dev.silent >= 0 && ops >= dev.silent) die(); ops++; }
	// the party's table of the other parties' commitments, as it stands in its memory right now
	void observe()
	{
		ev++;
		if (!edcf || open_ev >= 0) return;
		int cnt = 0;
		for (int j = 0; j < n; j++) if (j != me) for (int k = 0; k <= t; k++) if (mpz_sgn(edcf->rvss->C_ik[j][k]) != 0) cnt++;
		if (cnt != filled) { filled = cnt; last_commit_ev = ev; }
	}
	void opening()
	{
		open_ev = ev;
		missing = "["; bool first = true;
		for (int j = 0; j < n; j++) if (j != me) {
			bool full = true; for (int k = 0; k <= t; k++) if (mpz_sgn(edcf->rvss->C_ik[j][k]) == 0) full = false;
			if (!full) { if (!first) missing += ","; first = false; missing += std::to_string(j); }
		}
		missing += "]";
	}
};

static void pump_rbc(CachinKursawePetzoldShoupRBC *rbc);
class tap_unicast : public aiounicast
{
	public:
		aiounicast_select *inner; ChildCtx *cx; bool bchan;
		tap_unicast(size_t n_in, size_t j_in, aiounicast_select *in, ChildCtx *cx_in, time_t tmo, bool bchan_in):
			aiounicast(n_in, j_in, aio_scheduler_roundrobin, tmo, false, false, false), inner(in), cx(cx_in), bchan(bchan_in) {}
		virtual bool Send(mpz_srcptr m, const size_t i_in, const time_t timeout = aio_timeout_default)
		{
			vc_touch(); cx->fix_coins(); cx->observe();
			cx->out_op();
			Z v; mpz_set(v, m);
			if (cx->dev_active) {
				int k = cx->po_cnt[(int)i_in]++;
				auto it = cx->dev.po.find(IP((int)i_in, k));
				if (it != cx->dev.po.end()) { Z d(it->second.c_str()); mpz_add(v, v, d); }
			}
			vc_activity();
			return inner->Send(v, i_in, timeout);
		}
		virtual bool Send(const std::vector<mpz_srcptr> &m, const size_t i_in, const time_t timeout = aio_timeout_default)
		{
			vc_touch(); cx->fix_coins(); cx->observe();
			bool rsend = (m.size() == 5) && (mpz_cmp_ui(m[3], 1UL) == 0);
			if (!rsend || cx->in_insert || !cx->dev_active) {
				vc_activity();
				return inner->Send(m, i_in, timeout);
			}
			if (i_in == 0) {
				cx->out_op(); cx->bc_cur = IP(cx->seg, cx->off);
				if (mpz_cmp_ui(m[4], (unsigned long)n) == 0) { cx->seg++; cx->off = 0; } else cx->off++;
				if (!cx->have_id) { cx->have_id = true; mpz_set(cx->share_id, m[0]); }
				else if (cx->open_ev < 0 && mpz_cmp(cx->share_id, m[0]) != 0) cx->opening();
			}
			IP k = cx->bc_cur; bool ok = true;
			bool drop = cx->dev.bd.count(k) > 0;
			if (!drop) {
				Z v; mpz_set(v, m[4]);
				auto it = cx->dev.ba.find(k);
				if (it != cx->dev.ba.end()) { Z d(it->second.c_str()); mpz_add(v, v, d); }
				std::vector<mpz_srcptr> mm(m); mm[4] = v;
				vc_activity();
				ok = inner->Send(mm, i_in, timeout);
			}
			if (i_in + 1 == n) {
				if (drop) mpz_sub_ui(cx->rbc->s, cx->rbc->s, 1UL);  // the skipped call leaves no gap in the sequence numbers
				auto it = cx->dev.bi.find(k);
				if (it != cx->dev.bi.end()) {
					cx->in_insert = true;
					for (auto &vs : it->second) { Z z(vs.c_str()); cx->rbc->Broadcast(z); }
					cx->in_insert = false;
				}
			}
			return ok;
		}
		virtual bool Receive(mpz_ptr m, size_t &i_out, const size_t scheduler = aio_scheduler_default, const time_t timeout = aio_timeout_default)
		{
			cx->fix_coins();
			time_t tmo = (timeout == aio_timeout_default) ? aio_default_timeout : timeout;
			time_t entry = time(NULL); bool ok = false;
			// while waiting for a private message keep the reliable broadcast going (as DeliverFrom would)
			do { vc_touch(); cx->observe(); ok = inner->Receive(m, i_out, scheduler, 0); if (!ok) { vc_idle(); if (cx->rbc) pump_rbc(cx->rbc); } } while (!ok && time(NULL) < entry + tmo);
			if (ok) {
				vc_activity();
				if (cx->dev_active && i_out < n) {
					int k = cx->pi_cnt[(int)i_out]++;
					auto it = cx->dev.pi.find(IP((int)i_out, k));
					if (it != cx->dev.pi.end()) { Z d(it->second.c_str()); mpz_add(m, m, d); }
				}
			}
			return ok;
		}
		virtual bool Receive(std::vector<mpz_ptr> &m, size_t &i_out, const size_t scheduler = aio_scheduler_default, const time_t timeout = aio_timeout_default)
		{
			cx->fix_coins();
			time_t tmo = (timeout == aio_timeout_default) ? aio_default_timeout : timeout;
			time_t entry = time(NULL); bool ok = false;
			do { vc_touch(); if (!cx->in_insert) cx->observe(); ok = inner->Receive(m, i_out, scheduler, 0); if (!ok) vc_idle(); } while (!ok && time(NULL) < entry + tmo);
			if (ok) vc_activity();
			return ok;
		}
		virtual void Reset(const size_t i_in, const bool input) { inner->Reset(i_in, input); }
		virtual ~tap_unicast() {}
};

struct Case {
	uint64_t seed = 0, idx = 0; int n = 2, t = 0, trbc = 0; unsigned pbits = 96, qbits = 32;
	Z p, q, g, h;
	std::vector<Dev> dev; std::string tag;
};

// one step of the reliable broadcast on behalf of the others (what DeliverFrom does while it waits)
static void pump_rbc(CachinKursawePetzoldShoupRBC *rbc)
{
	size_t l = 0;
	mpz_ptr tmp = new mpz_t(), tmpID = new mpz_t();
	mpz_init(tmp), mpz_init_set(tmpID, rbc->ID);
	if (rbc->Deliver(tmp, l, aiounicast::aio_scheduler_roundrobin, 0) && l < rbc->n) {
		rbc->buf_mpz[l].push_back(tmp); rbc->buf_id[l].push_back(tmpID);
	} else {
		mpz_clear(tmp), mpz_clear(tmpID);
		delete [] tmp, delete [] tmpID;
	}
}
static void barrier(ChildCtx &cx, int step)
{
	cx.dev_active = false;
	g_sh->done[cx.me].store(step);
	for (;;) {
		bool all = true;
		for (int k = 0; k < cx.n; k++) if (g_sh->alive[k].load() && g_sh->done[k].load() < step) { all = false; break; }
		if (all) break;
		pump_rbc(cx.rbc);
	}
}

static void child_main(const Case &c, int me, int report_fd, int (*pp)[MAXN][2], int (*bp)[MAXN][2])
{
	signal(SIGPIPE, SIG_IGN);
	g_me = me; g_n = c.n;
	{ // the channel classes report every empty poll on std::cerr
		const char *dir = getenv("JL_ERRDIR");
		std::string f = dir ? (std::string(dir) + "/jl-" + std::to_string(c.idx) + "-P" + std::to_string(me) + ".err") : std::string("/dev/null");
		if (!freopen(f.c_str(), "w", stderr)) {}
	}
	ChildCtx cx; cx.n = c.n; cx.t = c.t; cx.me = me; cx.report_fd = report_fd; mpz_set(cx.q, c.q);
	if (!install_clock()) { cx.report("exc what=noclock"); g_sh->alive[me].store(0); _exit(0); }
	coins.reseed((c.seed * 1000003ULL + c.idx) * 1000003ULL + (uint64_t)me * 7919ULL + 17);
	coins.entries.clear(); coins.log = true;
	std::vector<int> uin, uout, bin, bout; std::vector<std::string> keys;
	for (int i = 0; i < c.n; i++) {
		uin.push_back(pp[i][me][0]); uout.push_back(pp[me][i][1]);
		bin.push_back(bp[i][me][0]); bout.push_back(bp[me][i][1]);
		keys.push_back("drv-jl");
	}
	try {
		const Dev &d = c.dev[me];
		time_t f = d.patient() ? VC_PATIENT : 1;
		aiounicast_select *u0 = new aiounicast_select(c.n, me, uin, uout, keys, aiounicast::aio_scheduler_roundrobin, VC_TIMEOUT, false, false, false);
		aiounicast_select *b0 = new aiounicast_select(c.n, me, bin, bout, keys, aiounicast::aio_scheduler_roundrobin, VC_TIMEOUT, false, false, false);
		tap_unicast *u = new tap_unicast(c.n, me, u0, &cx, VC_TIMEOUT * f, false), *b = new tap_unicast(c.n, me, b0, &cx, VC_TIMEOUT * f, true);
		CachinKursawePetzoldShoupRBC *rbc = new CachinKursawePetzoldShoupRBC(c.n, c.trbc, me, b, aiounicast::aio_scheduler_roundrobin, VC_TIMEOUT_RBC * f);
		rbc->setID("drv-jl");
		cx.rbc = rbc;
		std::stringstream err;
		JareckiLysyanskayaEDCF edcf(c.n, c.t, c.p, c.q, c.g, c.h, c.pbits, c.qbits);
		cx.edcf = &edcf;
		coins.take();
		cx.dev = d; cx.dev_active = true;
		Z a(-1L);
		bool r = edcf.Flip((size_t)me, a, u, rbc, err, d.sfb);
		cx.fix_coins();
		JareckiLysyanskayaRVSS &V = *edcf.rvss;
		std::string qs = "["; for (size_t i = 0; i < V.Qual.size(); i++) { if (i) qs += ","; qs += std::to_string(V.Qual[i]); } qs += "]";
		std::string cs = "["; bool first = true;
		for (int j = 0; j < c.n; j++) for (int k = 0; k <= c.t; k++) { if (!first) cs += ","; first = false; cs += zs(V.C_ik[j][k]); }
		cs += "]";
		std::string sj = "[", spj = "[";
		for (int j = 0; j < c.n; j++) { if (j) { sj += ","; spj += ","; } sj += zs(V.alpha_ij[j][me]); spj += zs(V.hatalpha_ij[j][me]); }
		sj += "]"; spj += "]";
		cx.report(std::string("flip ret=") + (r ? "1" : "0") + " coin=" + (r ? a.str() : std::string("-")) + " Qual=" + qs + " alpha=" + zs(V.alpha_i) + " hatalpha=" + zs(V.hatalpha_i)
			+ " s=" + sj + " sp=" + spj + " C=" + cs + " a=" + zs(V.a_i) + " hata=" + zs(V.hata_i)
			+ " lastC=" + std::to_string(cx.last_commit_ev) + " open=" + std::to_string(cx.open_ev) + " missing=" + cx.missing + cx.coin_text);
		barrier(cx, 1);
		if (getenv("JL_TWICE")) {   // probe (not modelled): a second flip by the same objects, everybody honest
			Z a2(-1L);
			bool r2 = edcf.Flip((size_t)me, a2, u, rbc, err, false);
			cx.report(std::string("second ret=") + (r2 ? "1" : "0") + " coin=" + a2.str());
			barrier(cx, 2);
		}
		if (getenv("JL_ERRDIR")) std::cerr << err.str();
	} catch (std::exception &e) {
		cx.report(std::string("exc what=") + e.what());
	} catch (...) {
		cx.report("exc what=other");
	}
	g_sh->alive[me].store(0);
	_exit(0);
}

// ------------------------------------------------------------------ the supervisor of one run
typedef std::map<std::string, std::string> KV;
static KV parse_kv(const std::string &line, std::string &head)
{
	KV m; std::istringstream is(line); std::string tok; is >> head;
	while (is >> tok) { size_t e = tok.find('='); if (e != std::string::npos) m[tok.substr(0, e)] = tok.substr(e + 1); }
	return m;
}
static double now_s() { struct timespec ts; clock_gettime(CLOCK_MONOTONIC, &ts); return ts.tv_sec + 1e-9 * ts.tv_nsec; }

static std::string run_case(const Case &c, double limit_s)
{
	Shared *sh = (Shared*)mmap(NULL, sizeof(Shared), PROT_READ | PROT_WRITE, MAP_SHARED | MAP_ANONYMOUS, -1, 0);
	if (sh == MAP_FAILED) return "# jl: mmap failed";
	for (int k = 0; k < MAXN; k++) { sh->polls[k].store(0); sh->alive[k].store(k < c.n ? 1 : 0); sh->done[k].store(0); }
	sh->ticks.store(0);
	static int pp[MAXN][MAXN][2], bp[MAXN][MAXN][2]; int rep[MAXN][2];
	for (int i = 0; i < c.n; i++) {
		for (int j = 0; j < c.n; j++) {
			if (pipe(pp[i][j]) < 0 || pipe(bp[i][j]) < 0) return "# jl: pipe failed";
			fcntl(pp[i][j][1], F_SETPIPE_SZ, 1 << 20); fcntl(bp[i][j][1], F_SETPIPE_SZ, 1 << 20);
		}
		if (pipe(rep[i]) < 0) return "# jl: pipe failed";
		fcntl(rep[i][1], F_SETPIPE_SZ, 1 << 20);
	}
	pid_t pid[MAXN];
	for (int i = 0; i < c.n; i++) {
		pid[i] = fork();
		if (pid[i] == 0) { g_sh = sh; child_main(c, i, rep[i][1], pp, bp); _exit(0); }
	}
	for (int i = 0; i < c.n; i++) close(rep[i][1]);
	int left = c.n; bool hang = false; std::vector<int> status(c.n, 0);
	double t0 = now_s();
	while (left > 0) {
		int st = 0; pid_t w = waitpid(-1, &st, WNOHANG);
		if (w > 0) {
			for (int i = 0; i < c.n; i++) if (pid[i] == w) { sh->alive[i].store(0); status[i] = st; left--; }
			continue;
		}
		if (now_s() - t0 > limit_s) { hang = true; for (int i = 0; i < c.n; i++) kill(pid[i], SIGKILL); limit_s = 1e18; }
		usleep(1000);
	}
	std::vector<std::vector<std::pair<std::string, KV> > > R(c.n);
	for (int i = 0; i < c.n; i++) {
		std::string buf; char tmp[65536]; ssize_t r;
		while ((r = read(rep[i][0], tmp, sizeof tmp)) > 0) buf.append(tmp, (size_t)r);
		std::istringstream is(buf); std::string line;
		while (std::getline(is, line)) { std::string head; KV kv = parse_kv(line, head); R[i].push_back(std::make_pair(head, kv)); }
	}
	for (int i = 0; i < c.n; i++) { close(rep[i][0]); for (int j = 0; j < c.n; j++) { close(pp[i][j][0]); close(pp[i][j][1]); close(bp[i][j][0]); close(bp[i][j][1]); } }
	auto find = [&](int i, const std::string &head) -> const KV* { for (auto &e : R[i]) if (e.first == head) return &e.second; return nullptr; };
	auto get = [&](const KV *kv, const std::string &k) -> std::string { if (!kv) return "?"; auto it = kv->find(k); return it == kv->end() ? "?" : it->second; };
	std::string pqgh = zs(c.p) + " " + zs(c.q) + " " + zs(c.g) + " " + zs(c.h);
	std::string in, out, prop; std::string honest = "[";
	{ bool first = true; for (int i = 0; i < c.n; i++) if (c.dev[i].honest()) { if (!first) honest += ","; first = false; honest += std::to_string(i); } honest += "]"; }
	std::string crash;
	for (int i = 0; i < c.n; i++) {
		if (!WIFEXITED(status[i]) || WEXITSTATUS(status[i]) != 0) crash += " crash:P" + std::to_string(i) + ":" + std::to_string(status[i]);
		if (find(i, "exc")) crash += " exc:P" + std::to_string(i) + ":" + get(find(i, "exc"), "what");
	}
	if (hang) crash += " hang";
	for (int i = 0; i < c.n; i++) {
		const KV *s = find(i, "flip"), *d = find(i, "dead");
		const KV *cs = s ? s : d;
		in += " " + get(cs, "strong") + " " + get(cs, "weak") + " " + c.dev[i].str();
		if (!s) { out += " -"; prop += " P" + std::to_string(i) + ":-"; continue; }
		out += " " + get(s, "ret") + "|" + get(s, "coin") + "|" + get(s, "Qual") + "|" + get(s, "alpha") + "|" + get(s, "hatalpha") + "|" + get(s, "s") + "|" + get(s, "sp") + "|" + get(s, "C");
		prop += " P" + std::to_string(i) + ":" + get(s, "ret") + "|" + get(s, "coin") + "|" + get(s, "Qual") + "|" + get(s, "s") + "|" + get(s, "sp") + "|" + get(s, "C")
			+ "|" + get(s, "a") + "|" + get(s, "hata") + "|" + get(s, "lastC") + "|" + get(s, "open") + "|" + get(s, "missing");
	}
	if (getenv("JL_TWICE")) { prop += " second:"; for (int i = 0; i < c.n; i++) { const KV *s2 = find(i, "second"); prop += (i ? "," : "") + get(s2, "ret") + "|" + get(s2, "coin"); } }
	std::string lines = "jl.flip " + std::to_string(c.n) + " " + std::to_string(c.t) + " " + pqgh + in + " tag:" + c.tag + " =>" + out + crash;
	lines += "\nprop.jl.flip seed=" + std::to_string(c.seed) + " case=" + std::to_string(c.idx) + " n=" + std::to_string(c.n) + " t=" + std::to_string(c.t)
		+ " " + pqgh + " honest=" + honest + " tag:" + c.tag + " =>" + prop + crash;
	munmap(sh, sizeof(Shared));
	return lines;
}

// ------------------------------------------------------------------ case generator
enum ShareDev { SH_NONE = 0, SH_SFB, SH_WS_OK, SH_WS_BADANS, SH_WS_NOANS, SH_WS_NOMARK, SH_FALSECOMPL, SH_COMPL_NOREASON, SH_NOCOMMIT,
	SH_PARTCOMMIT, SH_BADCOMMIT, SH_NEGSHARE, SH_CRASH, SH_DUPCOMPL, SH_WS_HAT, SH_COUNT };
enum OpenDev { OP_NONE = 0, OP_VAL1, OP_RAND1, OP_WITHHELD, OP_PLUSQ, OP_MINUSQ, OP_HALF, OP_BADRECSHARE, OP_BOTHQ, OP_QHALF, OP_COUNT };
static const char *SH_NAME[] = { "", "sfb", "wrongshare-answered", "wrongshare-badanswer", "wrongshare-noanswer", "wrongshare-nomarker", "falsecomplaint", "complaint-noreason",
	"nocommit", "partcommit", "badcommit", "negshare", "silent", "dupcomplaint", "wronghat-answered" };
static const char *OP_NAME[] = { "", "open-value+1", "open-rand+1", "open-withheld", "open-plusq", "open-minusq", "open-halfwithheld", "badrecshare", "open-both-plusq", "open-plusq-halfwithheld" };
static bool sh_drops(int sh) { return sh == SH_WS_NOANS || sh == SH_WS_NOMARK || sh == SH_NOCOMMIT || sh == SH_PARTCOMMIT; }
static bool op_drops(int op) { return op == OP_WITHHELD || op == OP_HALF || op == OP_QHALF; }

struct Plan { int n, t, f; int sh[3], op[3]; };
// the first cases of every seed: every deviation kind at least once, every n, the configuration of tests/t-astc.cc
static const Plan PLAN[] = {
	{ 7, 2, 0, { 0, 0, 0 }, { 0, 0, 0 } },
	{ 7, 2, 2, { SH_WS_OK, SH_FALSECOMPL, 0 }, { OP_VAL1, OP_NONE, 0 } },                 // answered complaint, later a wrong opening
	{ 5, 2, 2, { SH_WS_NOANS, SH_NONE, 0 }, { OP_VAL1, OP_RAND1, 0 } },                   // ignored complaint, later a wrong opening
	{ 3, 1, 1, { SH_WS_OK, 0, 0 }, { OP_WITHHELD, 0, 0 } },
	{ 4, 1, 1, { SH_NOCOMMIT, 0, 0 }, { OP_NONE, 0, 0 } },
	{ 6, 2, 2, { SH_CRASH, SH_WS_BADANS, 0 }, { OP_NONE, OP_NONE, 0 } },
	{ 7, 3, 3, { SH_WS_HAT, SH_COMPL_NOREASON, SH_NONE }, { OP_RAND1, OP_VAL1, OP_PLUSQ } },
	{ 2, 0, 0, { 0, 0, 0 }, { 0, 0, 0 } },
	{ 5, 1, 1, { SH_SFB, 0, 0 }, { 0, 0, 0 } },
	{ 3, 1, 1, { SH_NONE, 0, 0 }, { OP_VAL1, 0, 0 } },
	{ 5, 2, 2, { SH_NONE, SH_NONE, 0 }, { OP_WITHHELD, OP_BADRECSHARE, 0 } },
	{ 4, 1, 1, { SH_WS_NOMARK, 0, 0 }, { OP_NONE, 0, 0 } },
	{ 6, 2, 2, { SH_NEGSHARE, SH_DUPCOMPL, 0 }, { OP_MINUSQ, OP_NONE, 0 } },
	{ 7, 2, 2, { SH_CRASH, SH_CRASH, 0 }, { 0, 0, 0 } },
	{ 3, 0, 0, { 0, 0, 0 }, { 0, 0, 0 } },
	{ 4, 1, 1, { SH_BADCOMMIT, 0, 0 }, { OP_NONE, 0, 0 } },
	{ 5, 2, 1, { SH_PARTCOMMIT, 0, 0 }, { OP_NONE, 0, 0 } },
	{ 6, 1, 1, { SH_FALSECOMPL, 0, 0 }, { OP_HALF, 0, 0 } },
	{ 7, 3, 3, { SH_WS_OK, SH_WS_OK, SH_WS_OK }, { OP_VAL1, OP_RAND1, OP_NONE } },
	{ 4, 0, 0, { 0, 0, 0 }, { 0, 0, 0 } },
	{ 5, 0, 0, { 0, 0, 0 }, { 0, 0, 0 } },
	{ 6, 0, 0, { 0, 0, 0 }, { 0, 0, 0 } },
	{ 7, 1, 1, { SH_WS_OK, 0, 0 }, { OP_WITHHELD, 0, 0 } },
	{ 3, 1, 1, { SH_WS_NOANS, 0, 0 }, { OP_NONE, 0, 0 } },
	// BOTH opening values out of range / one out of range and the other withheld: the same party is complained about
	// twice in one Flip (seeded change C17b: the complaint list was no longer de-duplicated, 2 > t = 1)
	{ 4, 1, 1, { SH_NONE, 0, 0 }, { OP_BOTHQ, 0, 0 } },
	{ 3, 1, 1, { SH_NONE, 0, 0 }, { OP_QHALF, 0, 0 } },
};
static const int NPLAN = (int)(sizeof PLAN / sizeof PLAN[0]);
static const int PAIRS[][2] = { {2,0},{3,0},{3,1},{4,0},{4,1},{5,0},{5,1},{5,2},{6,0},{6,1},{6,2},{7,0},{7,1},{7,2},{7,3},{2,1},{4,2},{6,3} };
static const int NPAIRS = 15, NPAIRS_ALL = 18;

static void apply_dev(Case &c, SplitMix &g, int me, int sh, int op, int victim)
{
	Dev &d = c.dev[me]; int t = c.t, n = c.n;
	std::string negq = "-" + zs(c.q);
	switch (sh) {
	case SH_SFB: d.S(); break;
	case SH_WS_OK: d.O(victim, 0, g.below(2) ? "1" : "-1"); break;
	case SH_WS_HAT: d.O(victim, 1, "1"); break;
	case SH_WS_BADANS: d.O(victim, 0, "1"); d.A(1, 1 + (int)g.below(2), "1"); break;
	case SH_WS_NOANS: d.O(victim, (int)g.below(2), "1"); d.D(1, 0); d.D(1, 1); d.D(1, 2); break;
	case SH_WS_NOMARK: d.O(victim, 0, "1"); d.D(1, 0); d.D(1, 1); d.D(1, 2); d.D(1, 3); break;
	case SH_FALSECOMPL: d.I(victim, (int)g.below(2), "1"); break;
	case SH_COMPL_NOREASON: d.N(0, t, std::to_string(victim)); break;
	case SH_NOCOMMIT: for (int k = 0; k <= t; k++) d.D(0, k); break;
	case SH_PARTCOMMIT: d.D(0, (int)g.below(t + 1)); break;
	case SH_BADCOMMIT: d.A(0, (int)g.below(t + 1), g.below(2) ? "1" : zs(c.p)); break;
	case SH_NEGSHARE: d.O(victim, (int)g.below(2), negq); break;
	case SH_CRASH: d.Zk((long)g.below(t + 2 * n + 4)); break;
	case SH_DUPCOMPL: d.N(0, t, std::to_string(victim)); d.N(0, t, std::to_string(victim)); break;
	default: break;
	}
	switch (op) {
	case OP_VAL1: d.A(2, 0, g.below(2) ? "1" : "-1"); break;
	case OP_RAND1: d.A(2, 1, "1"); break;
	case OP_WITHHELD: d.D(2, 0); d.D(2, 1); break;
	case OP_PLUSQ: d.A(2, (int)g.below(2), zs(c.q)); break;
	case OP_MINUSQ: d.A(2, (int)g.below(2), negq); break;
	case OP_HALF: d.D(2, 1); break;
	case OP_BADRECSHARE: d.A(2, 2 + (int)g.below(2), "1"); break;
	case OP_BOTHQ: d.A(2, 0, zs(c.q)); d.A(2, 1, zs(c.q)); break;
	case OP_QHALF: d.A(2, 0, zs(c.q)); d.D(2, 1); break;
	default: break;
	}
	std::string name = SH_NAME[sh];
	if (op) { if (!name.empty()) name += "+"; name += OP_NAME[op]; }
	if (name.empty()) name = "none";
	c.tag += ":" + name;
}

static void make_case(Case &c, uint64_t seed, uint64_t idx, bool thorough, const Opts &o)
{
	SplitMix g(seed * 0x9e3779b97f4a7c15ULL + idx * 0x100000001b3ULL + 0x6a09e667f3bcc909ULL);
	c.seed = seed; c.idx = idx;
	bool planned = idx < (uint64_t)NPLAN && o.val("--n") == "" && !o.has("--noplan");
	int f = 0;
	if (planned) { c.n = PLAN[idx].n; c.t = PLAN[idx].t; f = PLAN[idx].f; }
	else {
		int pi;
		if (g.below(4) != 0) { static const int FP[] = { 2, 4, 6, 7, 9, 10, 12, 13, 14 }; pi = FP[g.below(9)]; }   // pairs that admit faulty parties
		else pi = (int)g.below(g.below(4) == 0 ? NPAIRS_ALL : NPAIRS);
		c.n = PAIRS[pi][0]; c.t = PAIRS[pi][1];
		if (o.val("--n") != "") { c.n = atoi(o.val("--n").c_str()); c.t = atoi(o.val("--t", "0").c_str()); }
		int fmax = (2 * c.t >= c.n) ? 0 : c.t;
		if (fmax > 0) f = (g.below(5) == 0) ? (int)g.below(fmax + 1) : fmax;
		if (o.val("--f") != "") f = std::min(fmax, atoi(o.val("--f").c_str()));
	}
	c.trbc = (c.n - 1) / 3;
	switch (g.below(thorough ? 4 : 3)) { case 0: c.pbits = 96; c.qbits = 32; break; case 1: c.pbits = 128; c.qbits = 64; break; case 2: c.pbits = 256; c.qbits = 160; break; default: c.pbits = 512; c.qbits = 160; break; }
	SmallGroup sg = make_group(g, c.pbits, c.qbits);
	mpz_set(c.p, sg.p); mpz_set(c.q, sg.q); mpz_set(c.g, sg.g);
	Z e, pm1; mpz_sub_ui(pm1, c.p, 1);
	do { gen_below(e, g, c.q); mpz_powm(c.h, c.g, e, c.p); } while (mpz_cmp_ui(e, 2) < 0 || !mpz_cmp(c.h, c.g) || mpz_cmp_ui(c.h, 1) <= 0 || mpz_cmp(c.h, pm1) >= 0);
	c.dev.assign(c.n, Dev());
	std::vector<int> ids; for (int i = 0; i < c.n; i++) ids.push_back(i);
	for (int i = c.n - 1; i > 0; i--) std::swap(ids[i], ids[g.below(i + 1)]);
	std::vector<int> faulty(ids.begin(), ids.begin() + f);
	auto honest_other = [&](int me) { for (int tries = 0; tries < 200; tries++) { int r = (int)g.below(c.n); if (r != me && std::find(faulty.begin(), faulty.end(), r) == faulty.end()) return r; } return (me + 1) % c.n; };
	c.tag = f ? "cheat" : "honest";
	if (planned) {
		for (int fi = 0; fi < f; fi++) apply_dev(c, g, faulty[fi], PLAN[idx].sh[fi], PLAN[idx].op[fi], honest_other(faulty[fi]));
		return;
	}
	// random scripts.  Constraints (see the note on time at the top): silent parties only as far as the reliable
	// broadcast survives them (<= trbc) and never together with a party that drops broadcasts; at most one
	// dropping party per run
	int mode = (int)g.below(3);               // 0: in-step deviations only, 1: with silent parties, 2: with one dropping party
	if (o.val("--mode") != "") mode = atoi(o.val("--mode").c_str());
	int crashes = 0; bool dropper = false;
	int force_sh = o.val("--sh") != "" ? atoi(o.val("--sh").c_str()) : -1, force_op = o.val("--op") != "" ? atoi(o.val("--op").c_str()) : -1;
	for (int fi = 0; fi < f; fi++) {
		int sh, op;
		for (;;) {
			sh = (int)g.below(SH_COUNT); op = (g.below(2) == 0) ? OP_NONE : (int)g.below(OP_COUNT);
			if (fi == 0 && force_sh >= 0) sh = force_sh;
			if (fi == 0 && force_op >= 0) op = force_op;
			if (sh == SH_CRASH) { if (mode != 1 || crashes >= c.trbc) { if (fi == 0 && force_sh >= 0) break; continue; } op = OP_NONE; }
			bool dr = sh_drops(sh) || op_drops(op);
			if (dr && (mode != 2 || dropper)) { if (fi == 0 && (force_sh >= 0 || force_op >= 0)) break; continue; }
			break;
		}
		if (sh == SH_CRASH) crashes++;
		if (sh_drops(sh) || op_drops(op)) dropper = true;
		apply_dev(c, g, faulty[fi], sh, op, honest_other(faulty[fi]));
	}
}

// Under AddressSanitizer a party process spends nearly all of its time in the allocator (every message is a
// handful of mpz_t: a stack unwind per malloc/free, a 256 MB quarantine that keeps touching fresh pages):
// a 7-party run costs 25 s instead of 0.5 s.  The driver restarts itself once with a small quarantine and
// without allocation stack traces (the checks of ASan/UBSan themselves stay on).
static void reexec_lean_asan(const Opts &o)
{
	if (getenv("JL_REEXEC")) return;
	const char *cur = getenv("ASAN_OPTIONS");
	std::string v = cur ? std::string(cur) + ":" : std::string();
	v += "malloc_context_size=0:quarantine_size_mb=1";
	setenv("ASAN_OPTIONS", v.c_str(), 1); setenv("JL_REEXEC", "1", 1);
	std::vector<std::string> a = { "tmcg_harness", "jl", "--seed", std::to_string(o.seed), "--cases", std::to_string(o.cases), "--tier", o.tier };
	for (auto &e : o.extra) a.push_back(e);
	std::vector<char*> av; for (auto &e : a) av.push_back((char*)e.c_str()); av.push_back(nullptr);
	fflush(stdout);
	execv("/proc/self/exe", av.data());
}

static int run(const Opts &o)
{
	bool thorough = (o.tier == "thorough");
	reexec_lean_asan(o);
	int par = atoi(o.val("--par", "3").c_str()); if (par < 1) par = 1;
	double limit = atof(o.val("--limit", "300").c_str());
	uint64_t first = strtoull(o.val("--first", "0").c_str(), NULL, 10);
	emit("# jl seed=" + std::to_string(o.seed) + " cases=" + std::to_string(o.cases));
	fflush(stdout);
	for (uint64_t base = first; base < first + o.cases; base += (uint64_t)par) {
		uint64_t cnt = std::min<uint64_t>((uint64_t)par, first + o.cases - base);
		std::vector<int> fd(cnt); std::vector<pid_t> pid(cnt);
		for (uint64_t k = 0; k < cnt; k++) {
			int pfd[2]; if (pipe(pfd) < 0) return 3;
			fcntl(pfd[1], F_SETPIPE_SZ, 1 << 20);
			pid[k] = fork();
			if (pid[k] == 0) {
				close(pfd[0]);
				Case c; make_case(c, o.seed, base + k, thorough, o);
				std::string out = run_case(c, limit) + "\n";
				size_t off = 0; while (off < out.size()) { ssize_t w = write(pfd[1], out.data() + off, out.size() - off); if (w <= 0) break; off += (size_t)w; }
				_exit(0);
			}
			close(pfd[1]); fd[k] = pfd[0];
		}
		for (uint64_t k = 0; k < cnt; k++) {
			std::string buf; char tmp[65536]; ssize_t r;
			while ((r = read(fd[k], tmp, sizeof tmp)) > 0) buf.append(tmp, (size_t)r);
			close(fd[k]); int st; waitpid(pid[k], &st, 0);
			std::istringstream is(buf); std::string line;
			while (std::getline(is, line)) if (!line.empty()) emit(line);
		}
		fflush(stdout);
	}
	return 0;
}

} // namespace jldrv

static int jl_main(const Opts &o) { return jldrv::run(o); }
REGISTER_DRIVER("jl", jl_main);
