// Logging interposers for libgcrypt's MAC and cipher entry points (oracle replay for C13 / C20).
#include "common.hh"
#include <dlfcn.h>
#include <map>

thread_local CryptoLog cryptolog;
static thread_local std::map<gcry_mac_hd_t, std::string> mac_acc;

extern "C" {

gcry_error_t gcry_mac_ctl(gcry_mac_hd_t h, int cmd, void *buffer, size_t buflen)
{
	typedef gcry_error_t (*fn_t)(gcry_mac_hd_t, int, void*, size_t);
	static fn_t real = (fn_t)dlsym(RTLD_NEXT, "gcry_mac_ctl");
	if (cmd == GCRYCTL_RESET) mac_acc[h].clear();
	return real(h, cmd, buffer, buflen);
}

gcry_error_t gcry_mac_write(gcry_mac_hd_t h, const void *buffer, size_t length)
{
	typedef gcry_error_t (*fn_t)(gcry_mac_hd_t, const void*, size_t);
	static fn_t real = (fn_t)dlsym(RTLD_NEXT, "gcry_mac_write");
	if (cryptolog.log) mac_acc[h].append((const char*)buffer, length);
	return real(h, buffer, length);
}

gcry_error_t gcry_mac_read(gcry_mac_hd_t h, void *buffer, size_t *buflen)
{
	typedef gcry_error_t (*fn_t)(gcry_mac_hd_t, void*, size_t*);
	static fn_t real = (fn_t)dlsym(RTLD_NEXT, "gcry_mac_read");
	gcry_error_t e = real(h, buffer, buflen);
	if (cryptolog.log && !e) { MacLogEntry m; m.input = mac_acc[h]; m.tag.assign((const char*)buffer, *buflen); m.verify = -1; cryptolog.macs.push_back(m); }
	return e;
}

gcry_error_t gcry_mac_verify(gcry_mac_hd_t h, const void *buffer, size_t buflen)
{
	typedef gcry_error_t (*fn_t)(gcry_mac_hd_t, const void*, size_t);
	static fn_t real = (fn_t)dlsym(RTLD_NEXT, "gcry_mac_verify");
	gcry_error_t e = real(h, buffer, buflen);
	if (cryptolog.log) { MacLogEntry m; m.input = mac_acc[h]; m.tag.assign((const char*)buffer, buflen); m.verify = e ? 1 : 0; cryptolog.macs.push_back(m); }
	return e;
}

void gcry_mac_close(gcry_mac_hd_t h)
{
	typedef void (*fn_t)(gcry_mac_hd_t);
	static fn_t real = (fn_t)dlsym(RTLD_NEXT, "gcry_mac_close");
	mac_acc.erase(h);
	real(h);
}

gcry_error_t gcry_cipher_encrypt(gcry_cipher_hd_t h, void *out, size_t outsize, const void *in, size_t inlen)
{
	typedef gcry_error_t (*fn_t)(gcry_cipher_hd_t, void*, size_t, const void*, size_t);
	static fn_t real = (fn_t)dlsym(RTLD_NEXT, "gcry_cipher_encrypt");
	CipherLogEntry c; c.encrypt = true;
	if (cryptolog.log) { if (in) c.in.assign((const char*)in, inlen); else c.in.assign((const char*)out, outsize); }
	gcry_error_t e = real(h, out, outsize, in, inlen);
	if (cryptolog.log && !e) { c.out.assign((const char*)out, in ? inlen : outsize); cryptolog.ciphers.push_back(c); }
	return e;
}

gcry_error_t gcry_cipher_decrypt(gcry_cipher_hd_t h, void *out, size_t outsize, const void *in, size_t inlen)
{
	typedef gcry_error_t (*fn_t)(gcry_cipher_hd_t, void*, size_t, const void*, size_t);
	static fn_t real = (fn_t)dlsym(RTLD_NEXT, "gcry_cipher_decrypt");
	CipherLogEntry c; c.encrypt = false;
	if (cryptolog.log) { if (in) c.in.assign((const char*)in, inlen); else c.in.assign((const char*)out, outsize); }
	gcry_error_t e = real(h, out, outsize, in, inlen);
	if (cryptolog.log && !e) { c.out.assign((const char*)out, in ? inlen : outsize); cryptolog.ciphers.push_back(c); }
	return e;
}

} // extern "C"
