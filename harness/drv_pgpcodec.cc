// C19: OpenPGP encodings (radix-64, CRC-24, ASCII armor, packet tags and lengths, scalars, MPIs,
// strings, iterated S2K count) of CallasDonnerhackeFinneyShawThayerRFC4880, every static method
// called in-process; one trace line per call (formats: lean/Tmcg/DriverPgp.lean).
#include "common.hh"
#include "libTMCG_config.h"
#include <dlfcn.h>
#include <ctime>

typedef CallasDonnerhackeFinneyShawThayerRFC4880 PGP;
typedef tmcg_openpgp_octets_t Oct;

// ---------------------------------------------------------------- digest byte counter
// S2KCompute has no separate count decoder: the number of octets it feeds to the digest is
// measured instead (gcry_md_putc is a macro over the handle's buffer, which is flushed by
// gcry_md_write(h, NULL, 0) and by GCRYCTL_FINALIZE).
static bool md_count_on = false;
static uint64_t md_bytes = 0;
// content log (for the S2K octet streams): the octets of the context being fed, closed into
// md_streams at GCRYCTL_FINALIZE; md_digests collects what gcry_md_read hands back
static bool md_log_on = false;
static std::vector<unsigned char> md_cur;
static std::vector< std::vector<unsigned char> > md_streams, md_digests;
extern "C" void gcry_md_write(gcry_md_hd_t h, const void *buffer, size_t length)
{
	typedef void (*fn_t)(gcry_md_hd_t, const void*, size_t);
	static fn_t real = (fn_t)dlsym(RTLD_NEXT, "gcry_md_write");
	if (md_count_on) md_bytes += (uint64_t)h->bufpos + length;
	if (md_log_on) {
		md_cur.insert(md_cur.end(), h->buf, h->buf + h->bufpos);
		if (buffer && length) md_cur.insert(md_cur.end(), (const unsigned char*)buffer, (const unsigned char*)buffer + length);
	}
	real(h, buffer, length);
}
extern "C" gcry_error_t gcry_md_ctl(gcry_md_hd_t h, int cmd, void *buffer, size_t buflen)
{
	typedef gcry_error_t (*fn_t)(gcry_md_hd_t, int, void*, size_t);
	static fn_t real = (fn_t)dlsym(RTLD_NEXT, "gcry_md_ctl");
	if (md_count_on && cmd == GCRYCTL_FINALIZE) md_bytes += (uint64_t)h->bufpos;
	if (md_log_on && cmd == GCRYCTL_FINALIZE) {
		md_cur.insert(md_cur.end(), h->buf, h->buf + h->bufpos);
		md_streams.push_back(md_cur); md_cur.clear();
	}
	return real(h, cmd, buffer, buflen);
}
extern "C" unsigned char *gcry_md_read(gcry_md_hd_t h, int algo)
{
	typedef unsigned char *(*fn_t)(gcry_md_hd_t, int);
	static fn_t real = (fn_t)dlsym(RTLD_NEXT, "gcry_md_read");
	unsigned char *d = real(h, algo);
	if (md_log_on && d) md_digests.push_back(std::vector<unsigned char>(d, d + gcry_md_get_algo_dlen(algo)));
	return d;
}

// ---------------------------------------------------------------- helpers
static std::string hx(const Oct &o) { return hexs(o.data(), o.size()); }
static Oct rnd_octets(SplitMix &g, size_t n) { Oct o(n); for (size_t i = 0; i < n; i++) o[i] = (unsigned char)g.below(256); return o; }

// ArmorDecode reports on std::cerr; keep the harness' stderr for sanitizer reports
struct QuietCerr {
	std::streambuf *old; std::ostringstream sink;
	QuietCerr() { old = std::cerr.rdbuf(sink.rdbuf()); }
	~QuietCerr() { std::cerr.rdbuf(old); }
};

static std::string r64enc(const Oct &d, bool lb)
{
	std::string out; PGP::Radix64Encode(d, out, lb);
	emit(std::string("pgp.r64.enc ") + (lb ? "1 " : "0 ") + hx(d) + " => " + hexs(out));
	return out;
}
static Oct r64dec(const std::string &t)
{
	Oct out; PGP::Radix64Decode(t, out);
	emit("pgp.r64.dec " + hexs(t) + " => " + hx(out));
	return out;
}
static void r64pair(const Oct &d)
{
	std::string a = r64enc(d, true); r64enc(d, false);
	r64dec(a);
}
static void crc(const Oct &d)
{
	Oct c; PGP::CRC24Compute(d, c); emit("pgp.crc24 " + hx(d) + " => " + hx(c));
	std::string t; PGP::CRC24Encode(d, t); emit("pgp.crc24.enc " + hx(d) + " => " + hexs(t));
}
static std::string armor_enc(unsigned type, const std::string &comment, bool version, const Oct &d)
{
	std::string out;
	PGP::ArmorEncode((tmcg_openpgp_armor_t)type, comment, d, out, version);
	emit("pgp.armor.enc " + std::to_string(type) + " " + hexs(comment) + " " + (version ? hexs(std::string(VERSION)) : std::string("none")) + " " + hx(d) + " => " + hexs(out));
	return out;
}
static unsigned armor_dec(const std::string &t, const std::string &tag = "")
{
	Oct out; tmcg_openpgp_armor_t ty;
	{ QuietCerr q; ty = PGP::ArmorDecode(t, out); }
	emit("pgp.armor.dec " + hexs(t) + (tag.empty() ? "" : " tag:" + tag) + " => " + std::to_string((unsigned)ty) + " " + hx(out));
	return (unsigned)ty;
}
static void len_enc(size_t n)
{
	Oct o; PGP::PacketLengthEncode(n, o); emit("pgp.len.enc " + std::to_string(n) + " => " + hx(o));
	// what the library emits is read back by its own decoder
	uint32_t len = 0; bool part = false; size_t used = PGP::PacketLengthDecode(o, true, 0, len, part);
	emit("pgp.len.dec 1 0 " + hx(o) + " => " + std::to_string(used) + " " + std::to_string(len) + " " + (part ? "1" : "0"));
}
static void len_dec(const Oct &in, bool nf, unsigned lentype)
{
	uint32_t len = 0; bool part = false;
	size_t used = PGP::PacketLengthDecode(in, nf, (tmcg_openpgp_byte_t)lentype, len, part);
	emit(std::string("pgp.len.dec ") + (nf ? "1 " : "0 ") + std::to_string(lentype) + " " + hx(in) + " => " + std::to_string(used) + " " + std::to_string(len) + " " + (part ? "1" : "0"));
}

// gcry_mpi_t <-> text
static std::string mpi_dec_str(gcry_mpi_t a)
{
	unsigned char *buf = NULL; size_t n = 0;
	if (gcry_mpi_aprint(GCRYMPI_FMT_HEX, &buf, &n, a)) return "?";
	Z z; mpz_set_str(z, (const char*)buf, 16); gcry_free(buf);
	return z.str();
}
static gcry_mpi_t mpi_from_mpz(mpz_srcptr z)
{
	size_t n = (mpz_sizeinbase(z, 2) + 7) / 8; std::vector<unsigned char> b(n ? n : 1, 0);
	size_t cnt = 0; if (mpz_sgn(z)) mpz_export(b.data(), &cnt, 1, 1, 1, 0, z);
	gcry_mpi_t a = NULL;
	if (gcry_mpi_scan(&a, GCRYMPI_FMT_USG, b.data(), cnt, NULL)) { fprintf(stderr, "gcry_mpi_scan failed\n"); exit(3); }
	return a;
}
static void mpi_dec(const Oct &in, size_t sum0)
{
	gcry_mpi_t out = gcry_mpi_new(8); gcry_mpi_set_ui(out, 0);
	size_t sum = sum0; size_t used = PGP::PacketMPIDecode(in, out, sum);
	emit("pgp.mpi.dec " + hx(in) + " " + std::to_string(sum0) + " => " + std::to_string(used) + " " + (used ? mpi_dec_str(out) : std::string("-")) + " " + std::to_string(sum));
	gcry_mpi_release(out);
}
static Oct mpi_enc(mpz_srcptr v, size_t sum0)
{
	gcry_mpi_t a = mpi_from_mpz(v);
	Oct out; size_t sum = sum0; PGP::PacketMPIEncode(a, out, sum);
	emit("pgp.mpi.enc " + zs(v) + " " + std::to_string(sum0) + " => " + hx(out) + " " + std::to_string(sum));
	gcry_mpi_release(a);
	return out;
}
static void mpi_case(mpz_srcptr v, SplitMix &g, bool mutate)
{
	size_t sum0 = g.below(3) ? 0 : g.below(65536);
	Oct e = mpi_enc(v, sum0);
	mpi_dec(e, sum0);
	{ Oct t = e; Oct tail = rnd_octets(g, g.below(6)); t.insert(t.end(), tail.begin(), tail.end()); mpi_dec(t, g.below(65536)); }
	if (!mutate || e.size() < 2) return;
	// truncation, a changed octet, a changed bit count
	{ Oct t(e.begin(), e.begin() + g.below(e.size())); mpi_dec(t, 0); }
	{ Oct t = e; t[g.below(t.size())] ^= (unsigned char)(1 + g.below(255)); mpi_dec(t, 0); }
	{ Oct t = e; unsigned bits = (t[0] << 8) + t[1]; unsigned nb = (bits + 1 + g.below(16)) & 0xFFFF; t[0] = nb >> 8; t[1] = nb & 0xFF; Oct tail = rnd_octets(g, g.below(4)); t.insert(t.end(), tail.begin(), tail.end()); mpi_dec(t, 0); }
	// non-minimal encodings: leading zero octets with the bit count adjusted, or not
	{ Oct t = e; unsigned bits = (t[0] << 8) + t[1]; size_t k = 1 + g.below(3);
	  if (bits + 8 * k <= 65535) { t.insert(t.begin() + 2, k, 0); unsigned nb = bits + 8 * k - g.below(8); t[0] = nb >> 8; t[1] = nb & 0xFF; mpi_dec(t, 0); } }
	{ Oct t = e; unsigned bits = (t[0] << 8) + t[1]; if (bits > 1) { unsigned nb = bits - 1 - g.below(bits < 9 ? bits - 1 : 8); t[0] = nb >> 8; t[1] = nb & 0xFF; mpi_dec(t, 0); } }
}
static void str_enc_dec(const std::string &s, SplitMix &g)
{
	Oct o; PGP::PacketStringEncode(s, o); emit("pgp.str.enc " + hexs(s) + " => " + hx(o));
	std::string back; size_t used = PGP::PacketStringDecode(o, back); emit("pgp.str.dec " + hx(o) + " => " + std::to_string(used) + " " + hexs(back));
	if (o.size() > 1) { Oct t(o.begin(), o.begin() + g.below(o.size())); std::string b2; size_t u2 = PGP::PacketStringDecode(t, b2); emit("pgp.str.dec " + hx(t) + " => " + std::to_string(u2) + " " + hexs(b2)); }
}
static void str_dec(const Oct &o)
{
	std::string back; size_t used = PGP::PacketStringDecode(o, back); emit("pgp.str.dec " + hx(o) + " => " + std::to_string(used) + " " + hexs(back));
}

// text that is not radix-64: table characters, NUL, '=', high-bit bytes, CR/LF, dashes, blanks
static std::string garbage_text(SplitMix &g, size_t maxlen)
{
	static const char tab[] = "ABCDEFGHIJKLMNOPQRSTUVWXYZabcdefghijklmnopqrstuvwxyz0123456789+/";
	std::string s; size_t n = g.below(maxlen + 1);
	for (size_t i = 0; i < n; i++) {
		switch (g.below(12)) {
		case 0: s += '\0'; break;
		case 1: s += '='; break;
		case 2: s += (char)(128 + g.below(128)); break;
		case 3: s += (g.coin() ? '\r' : '\n'); break;
		case 4: s += (g.coin() ? '-' : ' '); break;
		case 5: s += (char)g.below(256); break;
		default: s += tab[g.below(64)]; break;
		}
	}
	return s;
}

static const char *armor_name(unsigned type)
{
	switch (type) { case 1: return "MESSAGE"; case 2: return "SIGNATURE"; case 5: return "PRIVATE KEY BLOCK"; case 6: return "PUBLIC KEY BLOCK"; default: return "ARMORED FILE"; }
}
static void replace_first(std::string &s, const std::string &a, const std::string &b)
{
	size_t p = s.find(a); if (p != s.npos) s.replace(p, a.size(), b);
}

// mutation catalogue for armor texts; `a` is a valid armor of the given type
static std::string mutate_armor(const std::string &a, unsigned type, SplitMix &g, int which)
{
	static const unsigned types[] = { 1, 2, 5, 6, 200 };
	std::string s = a; std::string nm = armor_name(type);
	std::string begin = "-----BEGIN PGP " + nm + "-----", end = "-----END PGP " + nm + "-----";
	switch (which) {
	case 0: { // checksum character changed
		size_t p = s.rfind("\r\n="); if (p != s.npos && p + 7 <= s.size()) { size_t q = p + 3 + g.below(4); s[q] = (s[q] == 'A') ? 'B' : 'A'; } } break;
	case 1: replace_first(s, "\r\n\r\n", "\r\n"); break;                           // separator removed
	case 2: { // nested BEGIN (or END, or bare dashes) in the body
		size_t p = s.find("\r\n\r\n"); if (p == s.npos) break; p += 4; p += g.below(s.size() - p > 10 ? 10 : 1);
		switch (g.below(3)) { case 0: s.insert(p, "-----BEGIN PGP MESSAGE-----\r\n"); break; case 1: s.insert(p, "-----"); break; default: s.insert(p, "\r\n" + end + "\r\n"); break; } } break;
	case 3: { std::string j = garbage_text(g, 40); if (g.coin()) s += j; else s = j + s; } break; // junk after / before
	case 4: { size_t p = s.find(end); if (p != s.npos) s.erase(p + g.below(end.size()), std::string::npos); } break; // missing / cut END
	case 5: { unsigned t2 = types[g.below(5)]; std::string e2 = std::string("-----END PGP ") + armor_name(t2) + "-----"; // wrong pairing
		if (g.coin()) replace_first(s, end, e2); else replace_first(s, begin, std::string("-----BEGIN PGP ") + armor_name(t2) + "-----"); } break;
	case 6: { // white space inside the header / tail line
		std::string &line = g.coin() ? begin : end; std::string l2 = line; size_t k = 1 + g.below(3);
		for (size_t i = 0; i < k; i++) l2.insert(g.below(l2.size() + 1), 1, " \t\r"[g.below(3)]);
		replace_first(s, line, l2); } break;
	case 7: { std::string t; for (char c : s) if (c != '\r') t += c; s = t; } break;       // LF line ends
	case 8: { size_t p = s.rfind("\r\n="); size_t q = s.find(end); if (p != s.npos && q != s.npos && q > p) s.erase(p + 2, q - p - 2); } break; // checksum line removed
	case 9: { // a radix-64 character of the data changed
		size_t p = s.find("\r\n\r\n"); size_t q = s.rfind("\r\n="); if (p == s.npos || q == s.npos || q <= p + 4) break;
		size_t i = p + 4 + g.below(q - p - 4); if (s[i] != '\r' && s[i] != '\n' && s[i] != '=') s[i] = (s[i] == 'Q') ? 'R' : 'Q'; } break;
	case 10: if (!s.empty()) s[g.below(s.size())] = (char)g.below(256); break;          // any byte
	case 11: s = s.substr(0, g.below(s.size() + 1)); break;                           // truncated
	case 12: { Oct d2 = rnd_octets(g, 1 + g.below(40)); std::string b; PGP::ArmorEncode((tmcg_openpgp_armor_t)types[g.below(4)], d2, b); s = g.coin() ? s + b : b + s; } break; // two blocks
	case 13: { size_t p = s.find(end); if (p != s.npos) { std::string tail = s.substr(p); s = tail + s.substr(0, p); } } break; // END before BEGIN
	case 14: { replace_first(s, begin, "-----BEGIN PGP ARMORED FILE-----"); replace_first(s, end, "-----END PGP ARMORED FILE-----"); } break;
	case 15: { // blanks / tabs sprinkled everywhere
		std::string t; for (char c : s) { t += c; if (g.below(10) == 0) t += (g.coin() ? ' ' : '\t'); } s = t; } break;
	case 16: { size_t p = s.find("\r\n\r\n"); if (p != s.npos) s.insert(p + 2, g.coin() ? "Hash: SHA256\r\n" : "=x\r\n"); } break; // another header line
	case 17: { size_t p = s.rfind("\r\n="); if (p != s.npos) s.erase(p + 3 + g.below(4), 1 + g.below(2)); } break; // short checksum
	default: { size_t p = s.find("\r\n\r\n"); size_t q = s.rfind("\r\n="); if (p != s.npos && q != s.npos && q > p + 4) s.erase(p + 4, q - p - 4); } break; // no data
	}
	return s;
}

static int drv_pgpcodec(const Opts &o)
{
	SplitMix g(o.seed ^ 0x706770);

	// ================================================= radix-64: all lengths 0..200
	for (size_t n = 0; n <= 200; n++) {
		r64pair(rnd_octets(g, n)); r64pair(Oct(n, 0x00)); r64pair(Oct(n, 0xFF));
	}
	for (size_t k = 1; k <= 12; k++) for (int d = -2; d <= 2; d++) { r64pair(rnd_octets(g, 48 * k + d)); r64pair(rnd_octets(g, 64 * k + d)); }
	// ================================================= CRC-24: fixed vectors
	crc(Oct()); crc(Oct(1, 0)); crc(Oct(3, 0xFF));
	{ const char *t = "123456789"; crc(Oct(t, t + 9)); }
	// ================================================= packet tag, scalars
	for (unsigned t = 0; t < 256; t++) { Oct x; PGP::PacketTagEncode((tmcg_openpgp_byte_t)t, x); emit("pgp.tag " + std::to_string(t) + " => " + hx(x)); }
	// ================================================= length encoding: boundaries and a sweep
	{
		std::vector<size_t> ns;
		for (size_t n = 0; n <= 300; n++) ns.push_back(n);
		for (size_t n = 300; n <= 9000; n += 37) ns.push_back(n);
		static const uint64_t mids[] = { 191, 192, 8383, 8384, 65535, 65536, 16777215, 16777216, 2147483647ULL, 2147483648ULL, 4294967295ULL };
		for (uint64_t m : mids) for (int d = -3; d <= 3; d++) { uint64_t v = m + d; if (v <= 4294967295ULL) ns.push_back((size_t)v); }
		ns.push_back((size_t)4294967296ULL); ns.push_back((size_t)4294967296ULL + 5); ns.push_back(((size_t)1 << 40) + 1234); // size_t beyond 32 bits
		for (size_t n : ns) len_enc(n);
	}
	// ================================================= length decoding: all first octets
	for (unsigned a = 0; a < 256; a++) {
		for (int rep = 0; rep < 2; rep++) {
			Oct in; in.push_back((unsigned char)a); Oct r = rnd_octets(g, 5); in.insert(in.end(), r.begin(), r.end());
			len_dec(in, true, g.below(256));
			for (unsigned lt = 0; lt < 4; lt++) len_dec(in, false, lt);
			len_dec(in, false, 4 + g.below(252));
		}
		// truncated: 1..4 octets in all
		for (size_t k = 1; k <= 4; k++) { Oct in; in.push_back((unsigned char)a); Oct r = rnd_octets(g, k - 1); in.insert(in.end(), r.begin(), r.end());
			len_dec(in, true, 0); if (a % 16 == 0) for (unsigned lt = 0; lt < 4; lt++) len_dec(in, false, lt); }
	}
	len_dec(Oct(), true, 0); for (unsigned lt = 0; lt < 5; lt++) len_dec(Oct(), false, lt);
	{ Oct big(70000, 1); len_dec(big, false, 3); }
	// ================================================= MPI: 0, 1, 2^k, 2^k - 1
	{
		Z v; mpz_set_ui(v, 0); mpi_case(v, g, true); mpz_set_ui(v, 1); mpi_case(v, g, true);
		static const unsigned ks[] = { 1, 2, 3, 7, 8, 9, 15, 16, 17, 31, 32, 33, 63, 64, 65, 127, 128, 255, 256, 257, 511, 512, 1023, 1024, 2047, 2048, 2049, 3072, 4095, 4096 };
		for (unsigned k : ks) { mpz_set_ui(v, 1); mpz_mul_2exp(v, v, k); mpi_case(v, g, true); mpz_sub_ui(v, v, 1); mpi_case(v, g, true); }
		// the largest bit count that fits the two-octet field, and beyond it
		mpz_set_ui(v, 1); mpz_mul_2exp(v, v, 65535); mpz_sub_ui(v, v, 1); mpi_case(v, g, false);
		mpz_set_ui(v, 1); mpz_mul_2exp(v, v, 65534); mpi_case(v, g, false);
		mpz_set_ui(v, 1); mpz_mul_2exp(v, v, 65535); mpi_case(v, g, false);
		mpz_set_ui(v, 1); mpz_mul_2exp(v, v, 65536 + 9); mpz_add_ui(v, v, 12345); mpi_case(v, g, false);
	}
	{ mpi_dec(Oct(), 7); mpi_dec(Oct(1, 0), 7); mpi_dec(Oct(2, 0), 65535); Oct t(2, 0xFF); mpi_dec(t, 0); t.resize(2 + 8191, 0xAB); mpi_dec(t, 0); t.resize(2 + 8192, 0xCD); mpi_dec(t, 65000); }
	// ================================================= strings: boundary lengths
	{ static const size_t ls[] = { 0, 1, 2, 191, 192, 193, 8383, 8384, 8385 };
	  for (size_t l : ls) { std::string s; for (size_t i = 0; i < l; i++) s += (char)g.below(256); str_enc_dec(s, g); } }
	for (unsigned a = 0; a < 256; a += (a >= 186 ? 1 : 31)) { Oct in; in.push_back((unsigned char)a); Oct r = rnd_octets(g, g.below(12)); in.insert(in.end(), r.begin(), r.end()); str_dec(in); }
	str_dec(Oct());
	// ================================================= armor: the four types, options, small bodies
	{
		static const unsigned types[] = { 1, 2, 5, 6 };
		for (unsigned ty : types) for (size_t n = 0; n <= 4; n++) for (int opt = 0; opt < 4; opt++) {
			Oct d = rnd_octets(g, n);
			std::string a = armor_enc(ty, (opt & 1) ? "a comment" : "", (opt & 2) != 0, d);
			armor_dec(a, "orig");
		}
		// types without header lines
		static const unsigned others[] = { 0, 3, 4, 200, 7 };
		for (unsigned ty : others) { std::string a = armor_enc(ty, "c", true, rnd_octets(g, 10)); armor_dec(a); }
		armor_dec("");
		// a hand-made block of the test-suite type
		{ Oct d = rnd_octets(g, 30); std::string a; PGP::ArmorEncode(TMCG_OPENPGP_ARMOR_MESSAGE, d, a); armor_dec(mutate_armor(a, 1, g, 14)); }
	}
	// ================================================= S2K: iterated count of every coded octet
	{
		tmcg_openpgp_secure_string_t pw; pw += 'x';
		Oct salt(8, 0x5A);
		for (unsigned c = 0; c < 256; c++) {
			// the whole sweep hashes 1.5 GB (about 6 s); --s2k-sample runs a part of it
			if (o.has("--s2k-sample") && (c >> 4) > 9 && (c & 15) != (o.seed & 15) && c != 255) continue;
			tmcg_openpgp_secure_octets_t out;
			md_bytes = 0; md_count_on = true;
			PGP::S2KCompute(TMCG_OPENPGP_HASHALGO_SHA1, 16, pw, salt, true, (tmcg_openpgp_byte_t)c, out);
			md_count_on = false;
			if (out.size() != 16) { fprintf(stderr, "S2KCompute produced %zu octets\n", out.size()); return 3; }
			emit("pgp.s2k.count " + std::to_string(c) + " => " + std::to_string(md_bytes));
		}
	}
	// ================================================= S2K: the octets fed to every hash context, the key
	{
		static const struct { tmcg_openpgp_hashalgo_t a; unsigned dlen; } algs[] = {
			{ TMCG_OPENPGP_HASHALGO_SHA1, 20 }, { TMCG_OPENPGP_HASHALGO_SHA256, 32 },
			{ TMCG_OPENPGP_HASHALGO_SHA512, 64 }, { TMCG_OPENPGP_HASHALGO_SHA384, 48 },
			{ TMCG_OPENPGP_HASHALGO_SHA224, 28 } };
		static const unsigned cnts[] = { 0, 1, 2, 15, 16, 17, 31, 32 };
		// lengths of salt ‖ passphrase around the decoded counts (1024, 1088, 1152, 1984, 2048, ...)
		static const size_t plens[] = { 0, 1, 4, 8, 63, 64, 500, 504, 505, 1015, 1016, 1017, 1018, 1079, 1080, 1081, 1144, 1500, 2040, 2041, 4000 };
		static const size_t sklens[] = { 16, 24, 32, 20, 40, 64, 1, 65 };
		size_t ncases = 40 + o.cases / 4;
		for (size_t k = 0; k < ncases; k++) {
			unsigned ai = g.below(5), c = cnts[g.below(8)];
			size_t pl = g.below(4) ? plens[g.below(sizeof(plens) / sizeof(plens[0]))] : g.below(2300);
			size_t sklen = sklens[g.below(8)];
			bool iter = g.below(5) != 0;
			size_t sl = g.below(12) ? 8 : g.below(12);
			Oct salt = rnd_octets(g, sl);
			tmcg_openpgp_secure_string_t pw; Oct pwo;
			for (size_t i = 0; i < pl; i++) { unsigned char b = (unsigned char)(1 + g.below(255)); pw += (char)b; pwo.push_back(b); }
			tmcg_openpgp_secure_octets_t out;
			md_streams.clear(); md_digests.clear(); md_cur.clear(); md_log_on = true;
			PGP::S2KCompute(algs[ai].a, sklen, pw, salt, iter, (tmcg_openpgp_byte_t)c, out);
			md_log_on = false;
			std::string ds, ss;
			for (size_t i = 0; i < md_digests.size(); i++) ds += (i ? "," : "") + hexs(md_digests[i]);
			for (size_t i = 0; i < md_streams.size(); i++) ss += (i ? "," : "") + hexs(md_streams[i]);
			Oct key(out.begin(), out.end());
			emit("pgp.s2k.key " + std::to_string(iter ? 1 : 0) + " " + std::to_string(c) + " " + std::to_string(sklen) + " " +
			     std::to_string(algs[ai].dlen) + " " + hx(salt) + " " + hx(pwo) + " " + (ds.empty() ? "-" : ds) +
			     " tag:alg" + std::to_string((int)algs[ai].a) + " => " + (ss.empty() ? "-" : ss) + " " + hx(key));
		}
	}
	// ================================================= random cases
	Z v;
	for (uint64_t c = 0; c < o.cases; c++) {
		// ---- radix-64
		r64pair(rnd_octets(g, g.below(g.below(8) ? 120 : 1000)));
		r64dec(garbage_text(g, 120));
		{ // valid text with pads / breaks / NULs put somewhere else
			std::string t; PGP::Radix64Encode(rnd_octets(g, g.below(60)), t, true);
			size_t k = 1 + g.below(3); for (size_t i = 0; i < k; i++) t.insert(g.below(t.size() + 1), 1, "=\0\n -\x80"[g.below(7)]);
			r64dec(t); }
		// ---- CRC-24
		crc(rnd_octets(g, g.below(300)));
		// ---- lengths, scalars, time
		len_enc((size_t)(g.next() >> (32 + g.below(32))));
		{ Oct in = rnd_octets(g, g.below(7)); len_dec(in, g.coin(), g.below(5)); }
		{ uint64_t x = g.next() >> g.below(64); Oct a; PGP::PacketScalarFourEncode((size_t)x, a); emit("pgp.scalar4 " + std::to_string(x) + " => " + hx(a));
		  Oct b; PGP::PacketScalarEightEncode(x, b); emit("pgp.scalar8 " + std::to_string(x) + " => " + hx(b));
		  uint64_t t = x >> 1; Oct tt; PGP::PacketTimeEncode((time_t)t, tt); emit("pgp.time " + std::to_string(t) + " => " + hx(tt)); }
		// ---- MPI
		switch (g.below(4)) { case 0: gen_bits(v, g, 1 + g.below(64)); break; case 1: gen_bits(v, g, 1 + g.below(4096)); break;
			case 2: mpz_set_ui(v, 1); mpz_mul_2exp(v, v, g.below(4097)); if (g.coin() ) mpz_sub_ui(v, v, 1); break; default: gen_bits(v, g, 1 + g.below(600)); break; }
		mpi_case(v, g, true);
		mpi_dec(rnd_octets(g, g.below(40)), g.below(65536));
		// ---- strings
		{ std::string s; size_t l = g.below(g.below(10) ? 300 : 9000); for (size_t i = 0; i < l; i++) s += (char)g.below(256); str_enc_dec(s, g); }
		str_dec(rnd_octets(g, g.below(20)));
		// ---- armor
		{
			static const unsigned types[] = { 1, 2, 5, 6 };
			unsigned ty = types[g.below(4)];
			Oct d = rnd_octets(g, g.below(g.below(6) ? 150 : 700));
			std::string comment;
			switch (g.below(6)) { case 0: case 1: break; case 2: comment = "LibTMCG test"; break;
				case 3: { size_t l = 1 + g.below(30); for (size_t i = 0; i < l; i++) comment += (char)(32 + g.below(95)); } break;
				case 4: comment = garbage_text(g, 30); break;
				default: { static const char *cs[] = { "-----", "-- ---", "x\n=abcd", "a\n\nb", "=", "a\r\n=b", "-----BEGIN PGP MESSAGE-----", "-----END PGP SIGNATURE-----", " ", "\t", "a: b" }; comment = cs[g.below(11)]; } break; }
			std::string a = armor_enc(ty, comment, g.coin(), d);
			armor_dec(a, "orig");
			for (int k = 0; k < 2; k++) { int m = (int)g.below(19); armor_dec(mutate_armor(a, ty, g, m), "m" + std::to_string(m)); }
			if (g.below(4) == 0) { int m1 = (int)g.below(19), m2 = (int)g.below(19); armor_dec(mutate_armor(mutate_armor(a, ty, g, m1), ty, g, m2), "m" + std::to_string(m1) + "+" + std::to_string(m2)); }
			if (g.below(8) == 0) armor_dec(garbage_text(g, 200), "garbage");
		}
	}
	return 0;
}
REGISTER_DRIVER("pgpcodec", drv_pgpcodec);
