// C14: the real CachinKursawePetzoldShoupRBC objects of n parties in one process on an in-memory
// network (mem_unicast.hh).  The harness is the scheduler and the adversary: it decides which
// pooled message reaches which party next, when honest parties broadcast or switch channels, and
// what a Byzantine party injects.  EVERY library call is one self-contained trace line (party
// state before, inputs, served coins, hash answers => state after, messages sent, result); the
// Lean model (Tmcg/Model/Rbc.lean via Tmcg/DriverRbc.lean) recomputes the right-hand side.
// Line formats: see the header of lean/Tmcg/DriverRbc.lean.
#include "common.hh"
#include "mem_unicast.hh"
#include <map>
#include <set>
#include <algorithm>
#include <memory>

typedef CachinKursawePetzoldShoupRBC RBC;

struct T3 { Z id, sender, seq; };
static bool t3_less(const T3 &a, const T3 &b)
{
	int c = mpz_cmp(a.id, b.id); if (c) return c < 0;
	c = mpz_cmp(a.sender, b.sender); if (c) return c < 0;
	return mpz_cmp(a.seq, b.seq) < 0;
}
static bool t3_eq(const T3 &a, const T3 &b) { return !mpz_cmp(a.id, b.id) && !mpz_cmp(a.sender, b.sender) && !mpz_cmp(a.seq, b.seq); }

// tag text exactly as RBC::TagMessage computes it (not logged as an oracle query of the library)
static std::string tag_text(mpz_srcptr id, mpz_srcptr sender, mpz_srcptr seq)
{
	bool was = hashlog.log; hashlog.log = false;
	Z t; tmcg_mpz_shash(t, 3, id, sender, seq);
	hashlog.log = was;
	char *c = mpz_get_str(NULL, TMCG_MPZ_IO_BASE, t); std::string s(c); free(c); // operator<< of libTMCG: base 62
	return s;
}

typedef std::map<std::string, T3> TagReg;
static void reg_note(TagReg &reg, mpz_srcptr id, mpz_srcptr sender, mpz_srcptr seq)
{
	T3 x; mpz_set(x.id, id); mpz_set(x.sender, sender); mpz_set(x.seq, seq);
	reg[tag_text(id, sender, seq)] = x;
}
static const T3 &reg_get(const TagReg &reg, const std::string &tag)
{
	auto it = reg.find(tag);
	if (it == reg.end()) { fprintf(stderr, "drv_rbc: unknown tag text %s\n", tag.c_str()); fflush(stdout); abort(); }
	return it->second;
}

static std::string brk(const std::vector<std::string> &v)
{
	std::string s = "["; for (size_t i = 0; i < v.size(); i++) { if (i) s += ","; s += v[i]; } return s + "]";
}
template <class C> static std::string semi(const C &c)
{
	std::string s; bool first = true; for (auto it = c.begin(); it != c.end(); ++it) { if (!first) s += ";"; first = false; s += zs(*it); } return s;
}

// ---------------------------------------------------------------- state of one party, canonical text
static std::string state_str(RBC &r, const TagReg &reg)
{
	size_t n = r.n;
	// tag table
	std::vector<T3> tags;
	auto add = [&](const std::string &k) { tags.push_back(reg_get(reg, k)); };
	std::vector<RBC_TagCheck> *filters[7] = { &r.send, &r.echo, &r.ready, &r.request, &r.answer, &r.retrieve, &r.deliver };
	for (auto f : filters) for (size_t i = 0; i < n; i++) for (auto &kv : (*f)[i]) add(kv.first);
	for (auto &kv : r.awaited) add(kv.first);
	for (auto &kv : r.mbar) add(kv.first);
	for (auto &kv : r.dbar) add(kv.first);
	for (auto &kv : r.e_d) add(kv.first);
	for (auto &kv : r.r_d) add(kv.first);
	for (auto &kv : r.retrieve_buf) add(kv.first);
	for (auto &m : r.deliver_buf) { T3 x; mpz_set(x.id, m[0]); mpz_set(x.sender, m[1]); mpz_set(x.seq, m[2]); tags.push_back(x); }
	std::sort(tags.begin(), tags.end(), t3_less);
	tags.erase(std::unique(tags.begin(), tags.end(), t3_eq), tags.end());
	auto idx_of = [&](const T3 &x) -> size_t {
		size_t k = std::lower_bound(tags.begin(), tags.end(), x, t3_less) - tags.begin();
		return k;
	};
	auto idx = [&](const std::string &k) -> size_t { return idx_of(reg_get(reg, k)); };

	std::vector<std::string> tok;
	tok.push_back(std::to_string(n)); tok.push_back(std::to_string(r.t)); tok.push_back(std::to_string(r.j));
	tok.push_back(r.fifo ? "1" : "0"); tok.push_back(std::to_string(r.fifo_skip));
	tok.push_back(zs(r.ID)); tok.push_back(zs(r.s));
	tok.push_back(zlist(r.last_IDs.begin(), r.last_IDs.end()));
	tok.push_back(zlist(r.last_s.begin(), r.last_s.end()));
	{ std::vector<std::string> v; for (auto &x : r.last_deliver_s) v.push_back(semi(x)); tok.push_back(brk(v)); }
	{ // recover_s, recover_deliver_s: keyed by the base-62 text of a (non-negative) ID
		std::vector<std::pair<Z, std::string> > v;
		for (auto &kv : r.recover_s) v.push_back(std::make_pair(Z(kv.first.c_str(), TMCG_MPZ_IO_BASE), Z(kv.first.c_str(), TMCG_MPZ_IO_BASE).str() + ":" + zs(kv.second)));
		std::sort(v.begin(), v.end(), [](const std::pair<Z, std::string> &a, const std::pair<Z, std::string> &b) { return mpz_cmp(a.first, b.first) < 0; });
		std::vector<std::string> s; for (auto &x : v) s.push_back(x.second); tok.push_back(brk(s));
		v.clear();
		for (auto &kv : r.recover_deliver_s) v.push_back(std::make_pair(Z(kv.first.c_str(), TMCG_MPZ_IO_BASE), Z(kv.first.c_str(), TMCG_MPZ_IO_BASE).str() + ":" + semi(kv.second)));
		std::sort(v.begin(), v.end(), [](const std::pair<Z, std::string> &a, const std::pair<Z, std::string> &b) { return mpz_cmp(a.first, b.first) < 0; });
		s.clear(); for (auto &x : v) s.push_back(x.second); tok.push_back(brk(s));
	}
	{ std::vector<std::string> v; for (auto &x : tags) v.push_back(x.id.str() + ":" + x.sender.str() + ":" + x.seq.str()); tok.push_back(brk(v)); }
	for (auto f : filters) {
		std::vector<std::pair<size_t, size_t> > v;
		for (size_t i = 0; i < n; i++) for (auto &kv : (*f)[i]) v.push_back(std::make_pair(i, idx(kv.first)));
		std::sort(v.begin(), v.end());
		std::vector<std::string> s; for (auto &x : v) s.push_back(std::to_string(x.first) + ":" + std::to_string(x.second)); tok.push_back(brk(s));
	}
	{ // the tags for which an r-request is outstanding
		std::vector<size_t> v; for (auto &kv : r.awaited) v.push_back(idx(kv.first));
		std::sort(v.begin(), v.end());
		std::vector<std::string> s; for (auto x : v) s.push_back(std::to_string(x)); tok.push_back(brk(s));
	}
	RBC_TagMpz *tm[2] = { &r.mbar, &r.dbar };
	for (auto m : tm) {
		std::vector<std::pair<size_t, std::string> > v;
		for (auto &kv : *m) v.push_back(std::make_pair(idx(kv.first), zs(kv.second)));
		std::sort(v.begin(), v.end(), [](const std::pair<size_t, std::string> &a, const std::pair<size_t, std::string> &b) { return a.first < b.first; });
		std::vector<std::string> s; for (auto &x : v) s.push_back(std::to_string(x.first) + ":" + x.second); tok.push_back(brk(s));
	}
	std::map<std::string, RBC_TagCount> *cm[2] = { &r.e_d, &r.r_d };
	for (auto m : cm) {
		struct E { size_t i; Z d; size_t c; };
		std::vector<E> v;
		for (auto &kv : *m) for (auto &dc : kv.second) { E e; e.i = idx(kv.first); mpz_set_str(e.d, dc.first.c_str(), TMCG_MPZ_IO_BASE); e.c = dc.second; v.push_back(e); }
		std::sort(v.begin(), v.end(), [](const E &a, const E &b) { if (a.i != b.i) return a.i < b.i; return mpz_cmp(a.d, b.d) < 0; });
		std::vector<std::string> s; for (auto &x : v) s.push_back(std::to_string(x.i) + ":" + x.d.str() + ":" + std::to_string(x.c)); tok.push_back(brk(s));
	}
	{
		std::vector<std::pair<size_t, std::string> > v;
		for (auto &kv : r.retrieve_buf) v.push_back(std::make_pair(idx(kv.first), semi(kv.second)));
		std::sort(v.begin(), v.end(), [](const std::pair<size_t, std::string> &a, const std::pair<size_t, std::string> &b) { return a.first < b.first; });
		std::vector<std::string> s; for (auto &x : v) s.push_back(std::to_string(x.first) + ":" + x.second); tok.push_back(brk(s));
	}
	{
		std::vector<std::string> s;
		for (auto &m : r.deliver_buf) { T3 x; mpz_set(x.id, m[0]); mpz_set(x.sender, m[1]); mpz_set(x.seq, m[2]); s.push_back(std::to_string(idx_of(x)) + ":" + zs(m[3]) + ":" + zs(m[4])); }
		tok.push_back(brk(s));
	}
	tok.push_back(zlist(r.deliver_s.begin(), r.deliver_s.end()));
	{ std::vector<std::string> s; for (size_t i = 0; i < r.deliver_error.size(); i++) s.push_back(r.deliver_error[i] ? "1" : "0"); tok.push_back(brk(s)); }
	std::vector<RBC_BufferList> *bl[3] = { &r.buf_msg, &r.buf_mpz, &r.buf_id };
	for (auto b : bl) { std::vector<std::string> s; for (auto &l : *b) s.push_back(semi(l)); tok.push_back(brk(s)); }
	std::string out; for (size_t i = 0; i < tok.size(); i++) { if (i) out += " "; out += tok[i]; }
	return out;
}

// ---------------------------------------------------------------- oracle answers of one call
static bool is_hex_int(const std::string &s)
{
	size_t i = (s.size() && s[0] == '-') ? 1 : 0; if (i >= s.size()) return false;
	for (; i < s.size(); i++) if (!isxdigit((unsigned char)s[i])) return false;
	return true;
}
// H: queries `hex|` of tmcg_mpz_shash(·, 1, m); T: queries `hex|hex|hex|` of the tag hash
static void oracle_logs(std::string &H, std::string &T)
{
	std::vector<std::string> qs; qs.swap(hashlog.shash_inputs); hashlog.raw.clear();
	bool was = hashlog.log; hashlog.log = false;
	std::set<std::string> seen; std::vector<std::string> hs, ts;
	for (auto &q : qs) {
		if (!seen.insert(q).second) continue;
		std::vector<std::string> parts; size_t pos = 0;
		for (;;) { size_t k = q.find('|', pos); if (k == std::string::npos) break; parts.push_back(q.substr(pos, k - pos)); pos = k + 1; }
		if (pos != q.size()) continue; // must end with '|'
		bool ok = true; for (auto &p : parts) if (!is_hex_int(p)) ok = false;
		if (!ok) continue;
		Z a; tmcg_mpz_shash(a, q);
		if (parts.size() == 1) { Z m; mpz_set_str(m, parts[0].c_str(), 16); hs.push_back(m.str() + ":" + a.str()); }
		else if (parts.size() == 3) {
			Z x, y, z; mpz_set_str(x, parts[0].c_str(), 16); mpz_set_str(y, parts[1].c_str(), 16); mpz_set_str(z, parts[2].c_str(), 16);
			ts.push_back(x.str() + ":" + y.str() + ":" + z.str() + ":" + a.str());
		}
	}
	hashlog.log = was;
	H = brk(hs); T = brk(ts);
}

static std::string sent_str(const std::vector<WireMsg> &v)
{
	std::vector<std::string> s; for (auto &w : v) s.push_back(std::to_string(w.dst) + ":" + w.body()); return brk(s);
}

// ---------------------------------------------------------------- one run: n parties and the network
struct Snapshot { // what is needed to tell WHICH slot a call delivered
	std::vector<std::vector<std::string> > dbuf; // deliver_buf entries (5 texts each)
	std::vector<std::vector<std::string> > bmsg; // buf_msg queues
	std::vector<size_t> bmpz;                     // sizes of buf_mpz
	std::vector<std::string> bmpz_back;
};

struct Run {
	size_t n = 0, t = 0, fifo_skip = 0; bool fifo = true; int byz = -1; uint64_t id = 0; std::string pattern;
	MemNet net; TagReg reg;
	std::vector<std::unique_ptr<mem_unicast> > aio; std::vector<std::unique_ptr<RBC> > rbc;
	std::vector<std::string> bcasts, delivs, throws;
	uint64_t calls = 0;

	bool honest(size_t p) const { return (int)p != byz; }
	void note(const WireMsg &w) { reg_note(reg, w.v[0], w.v[1], w.v[2]); }

	Snapshot snap(size_t p)
	{
		Snapshot s; RBC &r = *rbc[p];
		for (auto &m : r.deliver_buf) { std::vector<std::string> e; for (size_t k = 0; k < 5; k++) e.push_back(zs(m[k])); s.dbuf.push_back(e); }
		for (auto &l : r.buf_msg) { std::vector<std::string> e; for (auto x : l) e.push_back(zs(x)); s.bmsg.push_back(e); }
		for (auto &l : r.buf_mpz) { s.bmpz.push_back(l.size()); s.bmpz_back.push_back(l.empty() ? "" : zs(l.back())); }
		return s;
	}
	// (msgID, seq) of the slot just delivered by party p
	void delivered_slot(size_t p, const Snapshot &before, std::string &mid, std::string &seq)
	{
		mem_unicast &u = *aio[p]; RBC &r = *rbc[p];
		if (u.recv_returned) { mid = u.recv_msg.v[0].str(); seq = u.recv_msg.v[2].str(); return; }
		size_t k = 0;
		for (auto &l : r.buf_msg) { if (l.size() + 5 == before.bmsg[k].size()) { mid = before.bmsg[k][0]; seq = before.bmsg[k][2]; return; } k++; }
		// out of the deliver buffer: the first entry that is gone
		k = 0;
		for (auto &m : r.deliver_buf) { if (k >= before.dbuf.size() || before.dbuf[k][0] != zs(m[0]) || before.dbuf[k][1] != zs(m[1]) || before.dbuf[k][2] != zs(m[2]) || before.dbuf[k][3] != zs(m[3])) break; k++; }
		if (k < before.dbuf.size()) { mid = before.dbuf[k][0]; seq = before.dbuf[k][2]; } else { mid = "?"; seq = "?"; }
	}
	// delivery record: party:currentID:sender:seq:value:messageID:fifo-flag-of-the-party
	void record_delivery(size_t p, const Snapshot &before, size_t who, mpz_srcptr m, const std::string &cur_id)
	{
		std::string mid, seq; delivered_slot(p, before, mid, seq);
		delivs.push_back(std::to_string(p) + ":" + cur_id + ":" + std::to_string(who) + ":" + seq + ":" + zs(m) + ":" + mid + ":" + (rbc[p]->fifo ? "1" : "0"));
	}
	void after_call(size_t p)
	{
		for (auto &w : aio[p]->sent_now) note(w);
		// what is addressed to the Byzantine party is not processed by anyone
		if (byz >= 0) net.pool.erase(std::remove_if(net.pool.begin(), net.pool.end(), [&](const WireMsg &w) { return (int)w.dst == byz; }), net.pool.end());
		calls++;
	}

	struct StepRes { bool delivered = false, threw = false; size_t sent = 0; };

	// one Deliver(m, i, scheduler, 0) call of party p
	StepRes step(size_t p)
	{
		RBC &r = *rbc[p]; mem_unicast &u = *aio[p]; StepRes res;
		std::string st_in = state_str(r, reg), cur_id = zs(r.ID);
		Snapshot before = snap(p);
		u.begin_call(); coins.take(); coins.log = true; hashlog.clear(); hashlog.log = true;
		Z m; size_t who = 0; bool ret = false;
		std::string out = guarded([&]() { ret = r.Deliver(m, who, aiounicast::aio_scheduler_direct, 0); return ret ? std::to_string(who) + ":" + m.str() : std::string("none"); });
		hashlog.log = false; std::vector<uint64_t> words = coin_words(coins.take()); coins.log = false;
		std::string H, T; oracle_logs(H, T);
		after_call(p);
		std::string staged = u.recv_returned ? std::to_string(u.recv_msg.src) + ":" + u.recv_msg.body() : std::string("none");
		emit("rbc.step " + st_in + " " + ulist(words) + " " + staged + " " + H + " " + T + " => " + state_str(r, reg) + " " + sent_str(u.sent_now) + " " + out);
		res.sent = u.sent_now.size();
		if (ret) { res.delivered = true; record_delivery(p, before, who, m, cur_id); }
		if (!out.compare(0, 5, "throw")) { res.threw = true; throws.push_back(std::to_string(p) + ":" + out); }
		return res;
	}

	// one DeliverFrom(m, i_in, scheduler, 0) call of party p
	StepRes deliver_from(size_t p, size_t i_in)
	{
		RBC &r = *rbc[p]; mem_unicast &u = *aio[p]; StepRes res;
		std::string st_in = state_str(r, reg), cur_id = zs(r.ID);
		Snapshot before = snap(p);
		u.begin_call(); coins.take(); coins.log = true; hashlog.clear(); hashlog.log = true;
		Z m; bool ret = false;
		std::string out = guarded([&]() { ret = r.DeliverFrom(m, i_in, aiounicast::aio_scheduler_direct, 0); return ret ? "value:" + m.str() : std::string("none"); });
		hashlog.log = false; std::vector<uint64_t> words = coin_words(coins.take()); coins.log = false;
		std::string H, T; oracle_logs(H, T);
		after_call(p);
		std::string staged = u.recv_returned ? std::to_string(u.recv_msg.src) + ":" + u.recv_msg.body() : std::string("none");
		emit("rbc.deliverfrom " + st_in + " " + std::to_string(i_in) + " " + ulist(words) + " " + staged + " " + H + " " + T + " => " + state_str(r, reg) + " " + sent_str(u.sent_now) + " " + out);
		res.sent = u.sent_now.size();
		// the inner Deliver returned true iff one buf_mpz queue grew at its back
		if (!ret) for (size_t l = 0; l < n; l++) if (r.buf_mpz[l].size() == before.bmpz[l] + 1) { res.delivered = true; record_delivery(p, before, l, r.buf_mpz[l].back(), cur_id); }
		if (!out.compare(0, 5, "throw")) { res.threw = true; throws.push_back(std::to_string(p) + ":" + out); }
		return res;
	}

	void queue_from(size_t p, mpz_srcptr m, size_t i_in)
	{
		RBC &r = *rbc[p];
		std::string st_in = state_str(r, reg);
		r.QueueFrom(m, i_in); calls++;
		emit("rbc.queuefrom " + st_in + " " + zs(m) + " " + std::to_string(i_in) + " => " + state_str(r, reg));
	}

	void broadcast(size_t p, mpz_srcptr m)
	{
		RBC &r = *rbc[p]; mem_unicast &u = *aio[p];
		std::string st_in = state_str(r, reg);
		u.begin_call(); coins.take(); coins.log = true;
		r.Broadcast(m);
		std::vector<CoinLogEntry> es = coins.take(); coins.log = false;
		Z rnd; // the 256-bit draw of non-FIFO mode: the one 32-byte request
		for (auto &e : es) if (e.bytes.size() == 32) mpz_import(rnd, 32, 1, 1, 1, 0, e.bytes.data());
		after_call(p);
		emit("rbc.broadcast " + st_in + " " + zs(m) + " " + rnd.str() + " => " + state_str(r, reg) + " " + sent_str(u.sent_now));
		bcasts.push_back(std::to_string(p) + ":" + zs(r.ID) + ":" + zs(r.s) + ":" + zs(m) + ":" + (r.fifo ? "1" : "0")); // party:ID:seq:value:fifo
	}

	void set_id(size_t p, const std::string &name, bool f, bool recover)
	{
		RBC &r = *rbc[p];
		std::string st_in = state_str(r, reg);
		if (recover) r.recoverID(name, f); else r.setID(name, f);
		calls++;
		emit(std::string(recover ? "rbc.recoverid " : "rbc.setid ") + st_in + " " + zs(r.ID) + " " + (f ? "1" : "0") + " => " + state_str(r, reg));
	}
	void unset_id(size_t p, bool f)
	{
		RBC &r = *rbc[p];
		std::string st_in = state_str(r, reg);
		r.unsetID(f); calls++;
		emit("rbc.unsetid " + st_in + " " + (f ? "1" : "0") + " => " + state_str(r, reg));
	}

	// hand pooled message k to its destination; `keep`: leave a copy in the pool (duplicate delivery later)
	StepRes deliver_pool(size_t k, bool keep)
	{
		WireMsg w = net.pool[k];
		if (!keep) net.pool.erase(net.pool.begin() + k);
		mem_unicast &u = *aio[w.dst];
		u.stage(w);
		StepRes res = step(w.dst);
		if (u.has_staged) { u.has_staged = false; if (!keep) net.pool.push_back(w); } // not asked for: still in flight
		return res;
	}
	// a message that appears on the link src -> dst out of thin air (Byzantine src)
	StepRes inject(size_t src, size_t dst, const WireMsg &body)
	{
		WireMsg w = body; w.src = src; w.dst = dst; w.serial = net.serial++;
		note(w); net.history.push_back(w);
		mem_unicast &u = *aio[dst];
		u.stage(w);
		StepRes res = step(dst);
		if (u.has_staged) { u.has_staged = false; net.pool.push_back(w); }
		return res;
	}
	// put `cnt` integers of w (from position `from`) into buf_msg[w.src] of party w.dst
	void poke(const WireMsg &w, size_t from, size_t cnt)
	{
		note(w);
		for (size_t k = from; k < from + cnt && k < 5; k++) { mpz_ptr tmp = new mpz_t(); mpz_init_set(tmp, w.v[k]); rbc[w.dst]->buf_msg[w.src].push_back(tmp); }
	}
};

// ---------------------------------------------------------------- Byzantine message catalogue
static void set_msg(WireMsg &w, mpz_srcptr id, long sender, long seq, long action, mpz_srcptr payload)
{
	mpz_set(w.v[0], id); mpz_set_si(w.v[1], sender); mpz_set_si(w.v[2], seq); mpz_set_si(w.v[3], action); mpz_set(w.v[4], payload);
}
static void payload_hash(mpz_ptr d, mpz_srcptr m)
{
	bool was = hashlog.log; hashlog.log = false; tmcg_mpz_shash(d, 1, m); hashlog.log = was;
}

// what Byzantine party b sends to honest party h next
static WireMsg byz_msg(Run &R, SplitMix &g, size_t b, size_t h, std::string &kind)
{
	WireMsg w; RBC &rh = *R.rbc[h]; size_t n = R.n;
	Z pay, d; long seq = 1 + (long)g.below(3);
	// a tag that is already around (from the history), else b's own slot
	Z tid; mpz_set(tid, rh.ID); long tsender = (long)b; long tseq = seq; Z tpay; mpz_set_ui(tpay, 5000 + seq);
	if (!R.net.history.empty() && g.below(4) != 0) {
		const WireMsg &o = R.net.history[g.below(R.net.history.size())];
		mpz_set(tid, o.v[0]);
		if (mpz_fits_slong_p(o.v[1]) && mpz_fits_slong_p(o.v[2])) { tsender = mpz_get_si(o.v[1]); tseq = mpz_get_si(o.v[2]); }
		mpz_set(tpay, o.v[4]);
	}
	switch (g.below(15)) {
	case 0: kind = "equivocate"; mpz_set_ui(pay, 1000 * (h + 1) + g.below(2)); set_msg(w, rh.ID, b, seq, 1, pay); break;
	case 1: case 2: kind = "consistent-send"; mpz_set_ui(pay, 5000 + seq); set_msg(w, rh.ID, b, seq, 1, pay); break;
	case 3: kind = "wrong-sender"; mpz_set_ui(pay, 31337); set_msg(w, rh.ID, (long)((b + 1 + g.below(n - 1)) % n), seq, 1, pay); break;
	case 4: kind = "echo"; if (g.coin()) payload_hash(d, tpay); else mpz_set(d, tpay); set_msg(w, tid, tsender, tseq, 2, d); break;
	case 5: kind = "ready"; if (g.coin()) payload_hash(d, tpay); else mpz_set(d, tpay); set_msg(w, tid, tsender, tseq, 3, d); break;
	case 6: kind = "huge-digest"; mpz_ui_pow_ui(d, 10, 140 + g.below(40)); if (g.coin()) mpz_neg(d, d); set_msg(w, tid, tsender, tseq, g.coin() ? 2 : 3, d); break;
	case 7: kind = "bad-sender"; mpz_set_ui(pay, 1); set_msg(w, tid, g.coin() ? (long)n + (long)g.below(3) : -1 - (long)g.below(2), tseq, 1 + g.below(7), pay); break;
	case 8: kind = "bad-seq"; mpz_set_ui(pay, 2); set_msg(w, tid, tsender, -(long)g.below(3), 1 + g.below(7), pay); break;
	case 9: kind = "bad-action"; mpz_set_ui(pay, 3); { long acts[6] = { 0, 8, 9, -1, 100, 8 }; set_msg(w, tid, tsender, tseq, acts[g.below(6)], pay); } break;
	case 10: kind = "replay";
		if (!R.net.history.empty()) { const WireMsg &o = R.net.history[g.below(R.net.history.size())]; for (int k = 0; k < 5; k++) mpz_set(w.v[k], o.v[k]); }
		else { mpz_set_ui(pay, 4); set_msg(w, rh.ID, b, 1, 1, pay); }
		break;
	case 11: kind = "request"; mpz_set_ui(pay, 0); set_msg(w, tid, tsender, tseq, 4, pay); break;
	case 12: kind = "answer"; if (g.coin()) mpz_set(pay, tpay); else mpz_set_ui(pay, 666); set_msg(w, tid, tsender, tseq, 5, pay); break;
	case 13: kind = "retrieve"; mpz_set_ui(pay, 6); set_msg(w, tid, tsender, tseq, 6, pay); break;
	default: kind = "l-deliver"; mpz_set_ui(pay, g.coin() ? 424242 : 5000 + tseq); set_msg(w, tid, tsender, tseq, 7, pay); break;
	}
	return w;
}

// ---------------------------------------------------------------- the scheduler
struct Hold { int victim = -1; int what = 0; long seq = 0; int sender = -1; }; // what: 1 = r-send to victim, 2 = everything of slot (sender, seq) to victim
static bool held(const Hold &h, const WireMsg &w)
{
	if (h.victim < 0 || (int)w.dst != h.victim) return false;
	if (h.what == 1) return mpz_cmp_ui(w.v[3], 1) == 0;
	if (h.what == 2) return mpz_cmp_si(w.v[1], h.sender) == 0 && mpz_cmp_si(w.v[2], h.seq) == 0 && mpz_cmp_ui(w.v[3], 3) <= 0;
	return false;
}

static bool drain(Run &R, SplitMix &g, const Hold &hold, size_t cap)
{
	std::vector<size_t> hon; for (size_t p = 0; p < R.n; p++) if (R.honest(p)) hon.push_back(p);
	for (size_t guard = 0; guard < cap; guard++) {
		std::vector<size_t> cand;
		for (size_t k = 0; k < R.net.pool.size(); k++) if (!held(hold, R.net.pool[k])) cand.push_back(k);
		if (!cand.empty()) { R.deliver_pool(cand[g.below(cand.size())], false); continue; }
		bool progress = false;
		for (size_t p : hon) {
			for (int k = 0; k < 60; k++) { Run::StepRes s = R.step(p); if (s.delivered || s.sent) progress = true; else break; }
		}
		bool any = false; for (size_t k = 0; k < R.net.pool.size(); k++) if (!held(hold, R.net.pool[k])) any = true;
		if (!progress && !any) return true;
	}
	return false;
}

static const char *PATTERNS[] = { "random", "delay-send", "dup", "byz", "ooo", "chan", "zero", "bufmsg", "byz", "random" };

static void one_run(const Opts &o, SplitMix &g, uint64_t c)
{
	Run R; R.id = c; bool thorough = (o.tier == "thorough");
	R.pattern = PATTERNS[c % 10];
	static const size_t ns[8] = { 2, 3, 4, 4, 4, 5, 6, 7 };
	R.n = ns[g.below(8)];
	if (R.pattern == "byz" && R.n < 4) R.n = 4 + g.below(4);
	if ((R.pattern == "ooo" || R.pattern == "delay-send") && R.n < 3) R.n = 4;
	if (R.pattern == "chan" && R.n > 5) R.n = 4 + g.below(2); // two channels double the traffic
	size_t tmax = (R.n - 1) / 3;
	R.t = (g.below(5) == 0) ? g.below(tmax + 1) : tmax;
	if (R.pattern == "byz") R.t = std::max<size_t>(R.t, 1);
	if (R.pattern == "zero") R.t = 0;
	R.fifo = (g.below(5) != 0);
	if (R.pattern == "ooo") R.fifo = true;
	R.fifo_skip = (R.pattern == "ooo" && g.below(3) == 0) ? 1 + g.below(2) : 0;
	if (R.pattern == "byz" || (R.t >= 1 && g.below(4) == 0)) R.byz = (int)g.below(R.n);
	if (R.pattern == "zero") R.byz = (int)g.below(R.n); // more faults than t = 0 tolerates
	size_t n = R.n;
	for (size_t p = 0; p < n; p++) {
		R.aio.emplace_back(new mem_unicast(n, p, &R.net));
		R.rbc.emplace_back(new RBC(n, R.t, p, R.aio[p].get(), aiounicast::aio_scheduler_direct, aiounicast::aio_timeout_none, R.fifo_skip));
	}
	std::vector<size_t> hon; for (size_t p = 0; p < n; p++) if (R.honest(p)) hon.push_back(p);
	auto pick_honest = [&]() { return hon[g.below(hon.size())]; };
	bool named = (g.below(8) != 0) || !R.fifo;
	if (named) for (size_t p : hon) R.set_id(p, "main", R.fifo, false);

	// budget
	size_t per_bcast = n + 2 * n * n;
	size_t budget = thorough ? 700 : 320;
	size_t nb = std::max<size_t>(1, std::min<size_t>(6, budget / per_bcast));
	nb = 1 + g.below(nb);
	size_t steps = budget;
	Hold hold;
	size_t ooo_sender = pick_honest();
	if (R.pattern == "delay-send") { hold.victim = (int)pick_honest(); hold.what = 1; }
	if (R.pattern == "ooo") { hold.victim = (int)pick_honest(); while (hon.size() > 1 && (size_t)hold.victim == ooo_sender) hold.victim = (int)pick_honest(); hold.what = 2; hold.sender = (int)ooo_sender; hold.seq = 1; nb = std::max<size_t>(nb, std::min<size_t>(3, budget / per_bcast)); if (nb < 2) nb = 2; }
	// channel scripts (pattern chan): 0 = set sub, 1 = unset, 2 = recover sub, 3 = unset
	std::vector<int> chan_pos(n, 0); std::vector<int> depth(n, 0); bool sub_fifo = g.coin();
	size_t done_b = 0, sub_b = 0; uint64_t val = 100 * (c + 1);
	size_t dup_den = (R.pattern == "dup") ? 3 : 25;
	std::vector<WireMsg> half; // messages whose first three integers sit in a buf_msg queue

	for (size_t s = 0; s < steps; s++) {
		uint64_t r = g.below(100);
		if (done_b < nb && r < 6) {
			size_t p = (R.pattern == "ooo") ? ooo_sender : pick_honest();
			Z m; mpz_set_ui(m, val++); if (g.below(6) == 0) gen_bits(m, g, 300); if (g.below(9) == 0) mpz_neg(m, m);
			R.broadcast(p, m); done_b++; continue;
		}
		if (R.pattern == "chan" && r < 12) {
			size_t p = pick_honest();
			switch (chan_pos[p]) {
			case 0: R.set_id(p, "sub", sub_fifo, false); depth[p] = 1; chan_pos[p]++; break;
			case 1: R.unset_id(p, R.fifo); depth[p] = 0; chan_pos[p]++; break;
			case 2: R.set_id(p, "sub", sub_fifo, true); depth[p] = 1; chan_pos[p]++; break;
			case 3: R.unset_id(p, R.fifo); depth[p] = 0; chan_pos[p]++; break;
			default: break;
			}
			if (sub_b < 2 && depth[p] == 1 && g.coin()) { Z m; mpz_set_ui(m, val++); R.broadcast(p, m); sub_b++; }
			continue;
		}
		if (R.byz >= 0 && R.pattern != "zero" && r < 30) {
			std::string kind; size_t h = pick_honest();
			WireMsg w = byz_msg(R, g, (size_t)R.byz, h, kind);
			if (kind == "consistent-send" || kind == "equivocate") { for (size_t q : hon) { WireMsg w2 = w; if (kind == "equivocate") mpz_set_ui(w2.v[4], 1000 * (q + 1) + g.below(2)); R.inject((size_t)R.byz, q, w2); } }
			else R.inject((size_t)R.byz, h, w);
			continue;
		}
		if (R.pattern == "zero" && r < 12) {
			// a ready with digest 0 for a slot nobody has sent: with t = 0 one is a quorum
			size_t h = pick_honest(); WireMsg w; Z zero; long snd = (long)g.below(n);
			set_msg(w, R.rbc[h]->ID, snd, 1 + (long)g.below(3), 3, zero);
			R.inject((size_t)R.byz, h, w); continue;
		}
		if ((R.pattern == "bufmsg" && r < 40) || r == 97) {
			// the buf_msg path: the harness writes into the private queues (nothing in the class does)
			std::vector<size_t> cand; for (size_t k = 0; k < R.net.pool.size(); k++) if (!held(hold, R.net.pool[k])) cand.push_back(k);
			if (!half.empty() && g.coin()) { WireMsg w = half.back(); half.pop_back(); R.poke(w, 3, 2); R.step(w.dst); continue; }
			if (!cand.empty()) {
				size_t k = cand[g.below(cand.size())]; WireMsg w = R.net.pool[k]; R.net.pool.erase(R.net.pool.begin() + k);
				bool busy = false; for (auto &x : half) if (x.dst == w.dst && x.src == w.src) busy = true;
				if (!busy && g.below(3) == 0) { R.poke(w, 0, 3); half.push_back(w); R.step(w.dst); }
				else if (!busy) { R.poke(w, 0, 5); if (g.coin()) R.step(w.dst); }
				else R.net.pool.push_back(w);
				continue;
			}
		}
		if (r == 98) { size_t p = pick_honest(); R.deliver_from(p, g.below(n + 1)); continue; }
		if (r == 99) { size_t p = pick_honest(); Z m; mpz_set_ui(m, 900000 + g.below(1000)); R.queue_from(p, m, g.below(n + 1)); if (g.coin()) R.deliver_from(p, g.below(n)); continue; }
		if (r >= 88 && r < 97) { R.step(pick_honest()); continue; }
		std::vector<size_t> cand; for (size_t k = 0; k < R.net.pool.size(); k++) if (!held(hold, R.net.pool[k])) cand.push_back(k);
		if (cand.empty()) {
			if (done_b >= nb && R.pattern != "chan" && R.byz < 0) break;
			R.step(pick_honest()); continue;
		}
		R.deliver_pool(cand[g.below(cand.size())], g.below(dup_den) == 0);
	}
	// finish half-written buf_msg entries
	for (auto &w : half) R.poke(w, 3, 2);
	half.clear();
	// everyone back to the main channel, drain it with the hold still on, then release
	size_t cap = thorough ? 6000 : 3000; bool drained = true;
	for (size_t p : hon) if (depth[p] == 1) { R.unset_id(p, R.fifo); depth[p] = 0; }
	drained = drain(R, g, hold, cap) && drained;
	Hold nohold;
	drained = drain(R, g, nohold, cap) && drained;
	if (R.pattern == "chan") {
		for (size_t p : hon) R.set_id(p, "sub", sub_fifo, true);
		drained = drain(R, g, nohold, cap) && drained;
		for (size_t p : hon) R.unset_id(p, R.fifo);
		drained = drain(R, g, nohold, cap) && drained;
	}
	// applications read through DeliverFrom as well: empty one party's queues
	{ size_t p = pick_honest(); for (size_t i = 0; i < n; i++) for (int k = 0; k < 3; k++) R.deliver_from(p, i); }
	// whole-run facts
	std::vector<std::string> errs, residue;
	for (size_t p : hon) {
		for (size_t i = 0; i < n; i++) if (R.rbc[p]->deliver_error[i]) errs.push_back(std::to_string(p) + ":" + std::to_string(i));
		residue.push_back(std::to_string(p) + ":" + std::to_string(R.rbc[p]->deliver_buf.size()));
	}
	std::vector<std::string> hs; for (size_t p : hon) hs.push_back(std::to_string(p));
	emit("prop.rbc " + std::to_string(c) + " " + std::to_string(n) + " " + std::to_string(R.t) + " " + (R.fifo ? "1" : "0") + " " + std::to_string(R.fifo_skip) + " " +
		(R.byz >= 0 ? std::to_string(R.byz) : std::string("-")) + " " + R.pattern + " " + (drained ? "1" : "0") + " " + brk(hs) + " " + brk(R.bcasts) + " " + brk(R.delivs) + " " +
		brk(errs) + " " + brk(residue) + " " + brk(R.throws) + " => ok");
	// the empty-stack path of unsetID (after the facts: these calls change nothing that was reported)
	{ size_t p = hon[0]; size_t k = R.rbc[p]->last_IDs.size(); for (size_t i = 0; i < k + 1; i++) R.unset_id(p, true); R.step(p); }
}

static int drv_rbc(const Opts &o)
{
	SplitMix g(o.seed ^ 0x726263);
	// the class reports every discarded message on std::cerr
	std::ostringstream sink; std::streambuf *old = std::cerr.rdbuf(sink.rdbuf());
	for (uint64_t c = 0; c < o.cases; c++) { one_run(o, g, c); sink.str(""); }
	std::cerr.rdbuf(old);
	return 0;
}
REGISTER_DRIVER("rbc", drv_rbc);
