// Common definitions of the correspondence harness (see DESIGN.md §2).
#ifndef VERIF_COMMON_HH
#define VERIF_COMMON_HH
#include <cstdint>
#include <cstdio>
#include <cstdlib>
#include <cstring>
#include <string>
#include <vector>
#include <sstream>
#include <iostream>
#include <stdexcept>
#include <functional>
#include <gmp.h>
#include <gcrypt.h>
#include <libTMCG.hh>

// ---------------------------------------------------------------- PRNG
struct SplitMix {
	uint64_t s;
	explicit SplitMix(uint64_t seed = 1) : s(seed) {}
	uint64_t next() {
		uint64_t z = (s += 0x9e3779b97f4a7c15ULL);
		z = (z ^ (z >> 30)) * 0xbf58476d1ce4e5b9ULL;
		z = (z ^ (z >> 27)) * 0x94d049bb133111ebULL;
		return z ^ (z >> 31);
	}
	uint64_t below(uint64_t n) { return n ? next() % n : 0; }
	bool coin() { return next() & 1; }
};

// ---------------------------------------------------------------- served coins
// Every random byte libTMCG asks libgcrypt for is served from here (interpose.cc).
struct CoinLogEntry { int level; std::vector<unsigned char> bytes; };
struct CoinBudgetExceeded {};
struct CoinSource {
	bool serve = true;          // false: pass through to the real libgcrypt
	SplitMix prng{1};           // default source
	std::vector<unsigned char> script; size_t script_pos = 0; // scripted bytes first
	bool log = false;
	std::vector<CoinLogEntry> entries;
	uint64_t bytes_served = 0;
	// draw budget (0 = none): a rejection loop of the library that never ends (tmcg_mpz_lprime for tiny cofactor sizes: q is
	// drawn once, then only k) must not hang a driver - when the budget is used up, fill() throws CoinBudgetExceeded
	uint64_t budget = 0, draws = 0;
	void reseed(uint64_t s) { prng = SplitMix(s); script.clear(); script_pos = 0; }
	void set_script_words(const std::vector<uint64_t>& w) {
		script.clear(); script_pos = 0;
		for (uint64_t x : w) { unsigned char b[8]; memcpy(b, &x, 8); script.insert(script.end(), b, b + 8); }
	}
	void fill(unsigned char *out, size_t n, int level);
	std::vector<CoinLogEntry> take() { std::vector<CoinLogEntry> r; r.swap(entries); return r; }
};
extern thread_local CoinSource coins;

// ---------------------------------------------------------------- hash-oracle log
// tmcg_mpz_shash(string) queries are recovered from the first gcry_md_hash_buffer
// call of tmcg_g (data = x || "libTMCG00" || x); raw tmcg_h calls are logged too.
struct HashLog {
	bool log = false;
	std::vector<std::string> shash_inputs;    // inputs of tmcg_mpz_shash / tmcg_g
	std::vector<std::pair<int, std::string> > raw; // (algo, data) of every other hash_buffer call
	uint64_t calls = 0;
	void clear() { shash_inputs.clear(); raw.clear(); }
};
extern thread_local HashLog hashlog;

// ---------------------------------------------------------------- MAC / cipher oracle log
struct MacLogEntry { std::string input, tag; int verify; };        // verify: -1 = read (tag produced), 0 = verified ok, 1 = verify failed
struct CipherLogEntry { bool encrypt; std::string in, out; };
struct CryptoLog {
	bool log = false;
	std::vector<MacLogEntry> macs;
	std::vector<CipherLogEntry> ciphers;
	void clear() { macs.clear(); ciphers.clear(); }
};
extern thread_local CryptoLog cryptolog;

// ---------------------------------------------------------------- text helpers
static inline std::string zs(mpz_srcptr z) {
	char *c = mpz_get_str(NULL, 10, z); std::string s(c); free(c); return s;
}
static inline std::string hexs(const unsigned char *p, size_t n) {
	static const char *d = "0123456789abcdef"; std::string s;
	if (n == 0) return "-";
	for (size_t i = 0; i < n; i++) { s += d[p[i] >> 4]; s += d[p[i] & 15]; }
	return s;
}
static inline std::string hexs(const std::string &x) { return hexs((const unsigned char*)x.data(), x.size()); }
static inline std::string hexs(const std::vector<unsigned char> &x) { return hexs(x.data(), x.size()); }

struct Z { // RAII mpz
	mpz_t v;
	Z() { mpz_init(v); }
	explicit Z(long x) { mpz_init_set_si(v, x); }
	explicit Z(int x) { mpz_init_set_si(v, x); }
	Z(const Z &o) { mpz_init_set(v, o.v); }
	Z(const char *s, int base = 10) { mpz_init_set_str(v, s, base); }
	Z &operator=(const Z &o) { mpz_set(v, o.v); return *this; }
	~Z() { mpz_clear(v); }
	operator mpz_ptr() { return v; }
	__mpz_struct *operator->() { return v; }
	const __mpz_struct *operator->() const { return v; }
	operator mpz_srcptr() const { return v; }
	std::string str() const { return zs(v); }
};
template <class It> static inline std::string zlist(It b, It e) {
	std::string s = "["; bool first = true;
	for (It i = b; i != e; ++i) { if (!first) s += ","; first = false; s += zs(*i); }
	return s + "]";
}
static inline std::string ulist(const std::vector<uint64_t> &v) {
	std::string s = "["; for (size_t i = 0; i < v.size(); i++) { if (i) s += ","; s += std::to_string(v[i]); } return s + "]";
}
// words served as 8-byte coins (native little endian) in the log since last take()
std::vector<uint64_t> coin_words(const std::vector<CoinLogEntry> &es);
std::string coin_bytes_hex(const std::vector<CoinLogEntry> &es);

// ---------------------------------------------------------------- outcome of a guarded call
// Runs f, mapping C++ exceptions to the outcome enum of the line protocol.
std::string guarded(const std::function<std::string()> &f);

// ---------------------------------------------------------------- driver registry
struct Opts {
	uint64_t seed = 1; uint64_t cases = 100; std::string tier = "quick";
	std::vector<std::string> extra;
	bool has(const std::string &f) const { for (auto &e : extra) if (e == f) return true; return false; }
	std::string val(const std::string &k, const std::string &d = "") const {
		for (size_t i = 0; i + 1 < extra.size(); i++) if (extra[i] == k) return extra[i + 1]; return d;
	}
};
typedef int (*DriverFn)(const Opts &);
struct DriverReg { DriverReg(const char *name, DriverFn f); };
#define REGISTER_DRIVER(name, fn) static DriverReg reg_##fn(name, fn)

void emit(const std::string &line);           // one trace line to stdout
extern uint64_t emitted_lines;

// random big integers for generators (from the *generator* PRNG, not the served coins)
void gen_bits(mpz_ptr r, SplitMix &g, unsigned bits);     // uniform < 2^bits
void gen_below(mpz_ptr r, SplitMix &g, mpz_srcptr m);     // uniform-ish < m (m>0)

// small Schnorr groups for fast volume runs: p = k q + 1, g of order q
struct SmallGroup { Z p, q, g, k; };
SmallGroup make_group(SplitMix &g, unsigned pbits, unsigned qbits);
#endif
