// C09, remaining parts: polynomial interpolation (tmcg_interpolate_polynom), the prime generators of
// mpz_sprime.cc, conversion between the two big-number back ends (tmcg_mpz_get_gcry_mpi /
// tmcg_mpz_set_gcry_mpi) and the big-integer wrapper TMCG_Bigint on its plain (GMP) and its secure
// (libgcrypt) back end.
//
// Line formats (model: lean/Tmcg/Model/Arith2.lean, handlers: lean/Tmcg/DriverArith2.lean)
//
//   arith2.interp [a…] [b…] q [fsize] => [f…] | false | throw:invalid_argument
//       tmcg_interpolate_polynom(a, b, q, f) with |f| = fsize (default |a|); `false` = an inversion
//       failed (f untouched).  tags: distinct | collide | composite | negq | unit | badsize
//   prop.arith2.prime <fn> psize qsize mr kin => p q k | throw:…
//       one call of a prime generator with served coins (kin: the prefix handed to lprime_prefix, 0
//       otherwise; q = (p-1)/2 and k = 2 are filled in by the harness for generators that do not return
//       them; k = 0 for oprime).  Judged by the Python predicate with its own Miller-Rabin.
//   arith2.primerel <fn> psize qsize kin p q k pp qp => 0|1
//       the defining relations and sizes of <fn> on (p, q, k), primality of p and q supplied as the
//       oracle bits pp qp (mpz_probab_prime_p, 40 rounds); right-hand side: a reference check written
//       with GMP in this file.  Emitted for every generated tuple and for altered tuples (tag:mut:…).
//   arith2.mpi.roundtrip v => v' | false | scanfail
//       mpz -> gcry_mpi (tmcg_mpz_get_gcry_mpi) -> mpz (tmcg_mpz_set_gcry_mpi); `false`: the second
//       conversion returned false (value does not fit TMCG_MAX_VALUE_CHARS hex characters).
//   arith2.bigint <mode> <op> a b c => value | 0|1 | throw:invalid_argument | throw:exception
//       one operator of TMCG_Bigint.  mode 0: object and operands plain, 1: object and operands secure,
//       2: object secure / operands plain, 3: object plain / operands secure.  a = initial value of the
//       object, b, c = operands (0 when unused).  throw:exception = std::domain_error (division by zero).
//       ops: add sub mul div mod add_ui sub_ui mul_ui div_ui mod_ui neg abs assign assign_ui assign_si copy
//            from_mpz eq ne gt lt ge le eq_ui ne_ui gt_ui lt_ui ge_ui le_ui eq_si ne_si mul2exp div2exp
//            ui_pow_ui powm spowm powm_ui get_ui size probab_prime
//   arith2.bigint.text <mode> <op> <arg> => hextext | value | throw:…
//       ops export / export_ne (operator<< of an exportable / not exportable object; arg = value),
//       import (operator>>; arg = hex of the text), set_str62 set_str16 set_str10 (arg = hex of the text)
//   arith2.bigint.seq <mode> a0 [op:arg,…] => final eq0 lt0
//       a sequence of in-place operators applied to one object (mode 0 or 1; every sequence is emitted
//       for both), final value and its comparison with a zero of the same back end.
//       tags: seq (all intermediate values non-negative) | seqneg
//   prop.arith2.size v base => n        TMCG_Bigint::size for bases that are no power of two (GMP: exact or one more)
//
// Extra flags:  --fatal   also run the cases that kill the process (in forked children):
//   division / remainder by a zero TMCG_Bigint on the secure back end, powm_ui of a secure object with
//   plain operands.  Lines `arith2.bigint … => died:<signal>`.
#include "common.hh"
#include <unistd.h>
#include <sys/wait.h>
#include <fcntl.h>
#include <functional>

// ------------------------------------------------------------------ A. interpolation
static std::string zvec(const std::vector<Z> &v)
{
	std::string s = "[";
	for (size_t i = 0; i < v.size(); i++) { if (i) s += ","; s += v[i].str(); }
	return s + "]";
}

static void line_interp(const std::vector<Z> &a, const std::vector<Z> &b, mpz_srcptr q, long fsize, const char *tag)
{
	size_t fs = (fsize < 0) ? a.size() : (size_t)fsize;
	std::vector<Z> A(a), B(b), F(fs);
	for (size_t i = 0; i < fs; i++) mpz_set_si(F[i], -77 - (long)i);
	std::vector<mpz_ptr> ap, bp, fp;
	for (auto &x : A) ap.push_back(x);
	for (auto &x : B) bp.push_back(x);
	for (auto &x : F) fp.push_back(x);
	std::string out = guarded([&]() {
		bool ok = tmcg_interpolate_polynom(ap, bp, q, fp);
		if (!ok) {
			for (size_t i = 0; i < fs; i++) if (mpz_cmp_si(F[i], -77 - (long)i)) return std::string("false-but-f-written");
			return std::string("false");
		}
		return zvec(F);
	});
	// inputs must be left alone
	for (size_t i = 0; i < a.size(); i++) if (mpz_cmp(A[i], a[i])) out += " input-a-changed";
	for (size_t i = 0; i < b.size(); i++) if (mpz_cmp(B[i], b[i])) out += " input-b-changed";
	emit("arith2.interp " + zvec(a) + " " + zvec(b) + " " + zs(q) + (fsize < 0 ? "" : " " + std::to_string(fs)) + " tag:" + tag + " => " + out);
}

static bool distinct_mod(const std::vector<Z> &a, mpz_srcptr q)
{
	Z d;
	for (size_t i = 0; i < a.size(); i++) for (size_t j = i + 1; j < a.size(); j++) {
		mpz_sub(d, a[i], a[j]);
		if (mpz_divisible_p(d, q)) return false;
	}
	return true;
}

static const char *interp_tag(const std::vector<Z> &a, mpz_srcptr q)
{
	if (mpz_sgn(q) < 0) return "negq";
	if (!mpz_cmp_ui(q, 1)) return "unit";
	if (!mpz_probab_prime_p(q, 30)) return "composite";
	return distinct_mod(a, q) ? "distinct" : "collide";
}

static void interp_part(const Opts &o, SplitMix &g)
{
	const long smallq[6] = { 2, 3, 5, 7, 11, 13 };
	const uint64_t cap = (o.tier == "thorough") ? 20000 : 700;
	Z q;
	for (int qi = 0; qi < 6; qi++) for (size_t m = 1; m <= 4; m++) {
		long qq = smallq[qi]; mpz_set_si(q, qq);
		uint64_t total = 1; bool over = false;
		for (size_t i = 0; i < 2 * m; i++) { total *= (uint64_t)qq; if (total > cap) over = true; }
		std::vector<Z> a(m), b(m);
		if (!over) {
			for (uint64_t c = 0; c < total; c++) {
				uint64_t x = c;
				for (size_t i = 0; i < m; i++) { mpz_set_ui(a[i], x % qq); x /= qq; }
				for (size_t i = 0; i < m; i++) { mpz_set_ui(b[i], x % qq); x /= qq; }
				line_interp(a, b, q, -1, interp_tag(a, q));
			}
		} else {
			for (uint64_t c = 0; c < cap; c++) {
				// half of the samples: pairwise distinct abscissae whenever that is possible
				bool want_distinct = (c % 2 == 0) && (m <= (size_t)qq);
				for (int tries = 0; tries < 200; tries++) {
					for (size_t i = 0; i < m; i++) mpz_set_ui(a[i], g.below(qq));
					if (!want_distinct || distinct_mod(a, q)) break;
				}
				for (size_t i = 0; i < m; i++) mpz_set_ui(b[i], g.below(qq));
				line_interp(a, b, q, -1, interp_tag(a, q));
			}
		}
	}
	// small moduli of every kind (composite, negative, +-1), abscissae outside [0, q)
	for (long qq = -16; qq <= 16; qq++) {
		if (qq == 0) continue;
		mpz_set_si(q, qq);
		for (int c = 0; c < ((o.tier == "thorough") ? 400 : 60); c++) {
			size_t m = 1 + g.below(5);
			std::vector<Z> a(m), b(m);
			for (size_t i = 0; i < m; i++) { mpz_set_si(a[i], (long)g.below(61) - 30); mpz_set_si(b[i], (long)g.below(61) - 30); }
			line_interp(a, b, q, -1, interp_tag(a, q));
		}
	}
	// random sets of size <= 8 over primes < 200 and a few big primes
	std::vector<long> sp;
	for (long n = 2; n < 200; n++) { bool pr = true; for (long d = 2; d * d <= n; d++) if (n % d == 0) pr = false; if (pr) sp.push_back(n); }
	std::vector<Z> bigp;
	const unsigned bigbits[6] = { 64, 65, 96, 128, 160, 256 };
	for (int i = 0; i < 6; i++) { Z p; gen_bits(p, g, bigbits[i]); mpz_setbit(p, bigbits[i] - 1); mpz_nextprime(p, p); bigp.push_back(p); }
	for (uint64_t c = 0; c < o.cases * 4; c++) {
		bool big = (c % 4 == 3);
		if (big) mpz_set(q, bigp[g.below(bigp.size())]); else mpz_set_si(q, sp[g.below(sp.size())]);
		size_t m = 1 + g.below(8);
		std::vector<Z> a(m), b(m);
		int shape = g.below(8);
		for (int tries = 0; tries < 100; tries++) {
			for (size_t i = 0; i < m; i++) {
				gen_below(a[i], g, q);
				if (shape == 1) mpz_set_ui(a[i], i + 1);                                   // the abscissae of the secret sharing code
				if (shape == 2) { mpz_addmul_ui(a[i], q, g.below(4)); }                      // >= q
				if (shape == 3) { mpz_submul_ui(a[i], q, 1 + g.below(3)); }                  // negative
			}
			if (shape == 4 || shape == 5 || distinct_mod(a, q)) break;
		}
		if ((shape == 4 || shape == 5) && m >= 2) { // forced collision modulo q
			size_t i = g.below(m), j = g.below(m - 1); if (j >= i) j++;
			mpz_set(a[j], a[i]);
			if (shape == 5) { if (g.coin()) mpz_addmul_ui(a[j], q, 1 + g.below(3)); else mpz_submul_ui(a[j], q, 1 + g.below(3)); }
		}
		for (size_t i = 0; i < m; i++) {
			gen_below(b[i], g, q);
			if (g.below(6) == 0) mpz_addmul_ui(b[i], q, 1 + g.below(3));
			if (g.below(9) == 0) mpz_submul_ui(b[i], q, 1 + g.below(3));
		}
		line_interp(a, b, q, -1, interp_tag(a, q));
	}
	// argument checks
	{
		std::vector<Z> a(3), b(3), b2(2), e;
		for (int i = 0; i < 3; i++) { mpz_set_ui(a[i], i + 1); mpz_set_ui(b[i], 5 + i); }
		mpz_set_ui(b2[0], 1); mpz_set_ui(b2[1], 2);
		mpz_set_ui(q, 7);
		line_interp(a, b2, q, -1, "badsize"); line_interp(b2, a, q, -1, "badsize");
		line_interp(a, b, q, 2, "badsize"); line_interp(a, b, q, 4, "badsize"); line_interp(a, b, q, 0, "badsize");
		line_interp(e, e, q, -1, "badsize");
		mpz_set_ui(q, 0); line_interp(a, b, q, -1, "badsize");
	}
}

// ------------------------------------------------------------------ B. prime generators
struct GenFn { const char *name; int kind; }; // kind 0: (p,q,qsize)  1: (p,psize)  2: (p,q,k,psize,qsize)
static const GenFn GENS[] = {
	{ "sprime", 0 }, { "smprime", 0 }, { "sprime_naive", 0 }, { "smprime_naive", 0 }, { "sprime_noninc", 0 },
	{ "sprime2g", 0 }, { "sprime3mod4", 1 }, { "lprime", 2 }, { "lprime_prefix", 2 }, { "oprime", 1 }, { "oprime_noninc", 1 },
};

// reference check of the defining relations (GMP), primality given
static bool ref_rel(const std::string &fn, unsigned long psize, unsigned long qsize, mpz_srcptr kin,
	mpz_srcptr p, mpz_srcptr q, mpz_srcptr k, bool pp, bool qp)
{
	Z t;
	if (fn == "oprime" || fn == "oprime_noninc")
		return pp && mpz_odd_p(p) && mpz_sgn(p) > 0 && mpz_sizeinbase(p, 2) >= psize;
	if (fn == "sprime3mod4")
		return pp && mpz_sgn(p) > 0 && mpz_fdiv_ui(p, 4) == 3 && mpz_sizeinbase(p, 2) >= psize;
	if (fn == "lprime" || fn == "lprime_prefix") {
		if (!pp || !qp || mpz_sgn(p) <= 0 || mpz_sgn(q) <= 0 || mpz_sgn(k) <= 0) return false;
		mpz_mul(t, k, q); mpz_add_ui(t, t, 1); if (mpz_cmp(t, p)) return false;
		mpz_gcd(t, k, q); if (mpz_cmp_ui(t, 1)) return false;
		if (mpz_odd_p(k)) return false;
		if (mpz_sizeinbase(p, 2) < psize || mpz_sizeinbase(q, 2) < qsize) return false;
		if (fn == "lprime_prefix") {
			if (mpz_sgn(kin) <= 0 || psize < qsize) return false;
			mpz_set(t, kin);
			while (mpz_sizeinbase(t, 2) < psize - qsize) mpz_mul_ui(t, t, 62);
			if (mpz_odd_p(t)) mpz_add_ui(t, t, 1);
			if (mpz_cmp(t, k)) return false;
		}
		return true;
	}
	// safe primes
	if (!pp || !qp || mpz_sgn(q) <= 0) return false;
	mpz_mul_2exp(t, q, 1); mpz_add_ui(t, t, 1); if (mpz_cmp(t, p)) return false;
	if (mpz_sizeinbase(q, 2) < qsize || mpz_sizeinbase(p, 2) < psize) return false;
	if (fn == "sprime2g" && mpz_fdiv_ui(p, 8) != 7) return false;
	return true;
}

static void line_rel(const std::string &fn, unsigned long psize, unsigned long qsize, mpz_srcptr kin,
	mpz_srcptr p, mpz_srcptr q, mpz_srcptr k, const std::string &tag)
{
	bool pp = mpz_sgn(p) > 0 && mpz_probab_prime_p(p, 40), qp = mpz_sgn(q) > 0 && mpz_probab_prime_p(q, 40);
	bool v = ref_rel(fn, psize, qsize, kin, p, q, k, pp, qp);
	emit("arith2.primerel " + fn + " " + std::to_string(psize) + " " + std::to_string(qsize) + " " + zs(kin) + " " +
		zs(p) + " " + zs(q) + " " + zs(k) + " " + (pp ? "1" : "0") + " " + (qp ? "1" : "0") + " tag:" + tag + " => " + (v ? "1" : "0"));
}

static void gen_call(const GenFn &f, unsigned long psize, unsigned long qsize, unsigned long mr, mpz_srcptr kin, SplitMix &g)
{
	Z p, q, k; std::string fn = f.name;
	mpz_set(k, kin);
	std::string out = guarded([&]() {
		if (fn == "sprime") tmcg_mpz_sprime(p, q, qsize, mr);
		else if (fn == "smprime") tmcg_mpz_smprime(p, q, qsize, mr);
		else if (fn == "sprime_naive") tmcg_mpz_sprime_naive(p, q, qsize, mr);
		else if (fn == "smprime_naive") tmcg_mpz_smprime_naive(p, q, qsize, mr);
		else if (fn == "sprime_noninc") tmcg_mpz_sprime_noninc(p, q, qsize, mr);
		else if (fn == "sprime2g") tmcg_mpz_sprime2g(p, q, qsize, mr);
		else if (fn == "sprime3mod4") tmcg_mpz_sprime3mod4(p, psize, mr);
		else if (fn == "lprime") tmcg_mpz_lprime(p, q, k, psize, qsize, mr);
		else if (fn == "lprime_prefix") tmcg_mpz_lprime_prefix(p, q, k, psize, qsize, mr);
		else if (fn == "oprime") tmcg_mpz_oprime(p, psize, mr);
		else tmcg_mpz_oprime_noninc(p, psize, mr);
		if (f.kind == 0) mpz_set_ui(k, 2);
		if (fn == "sprime3mod4") { mpz_sub_ui(q, p, 1); mpz_tdiv_q_2exp(q, q, 1); mpz_set_ui(k, 2); }
		return p.str() + " " + q.str() + " " + k.str();
	});
	emit("prop.arith2.prime " + fn + " " + std::to_string(psize) + " " + std::to_string(qsize) + " " + std::to_string(mr) + " " + zs(kin) + " => " + out);
	if (out.compare(0, 5, "throw") == 0) return;
	line_rel(fn, psize, qsize, kin, p, q, k, "gen");
	// altered tuples: the relation check must notice
	Z t;
	switch (g.below(6)) {
	case 0: mpz_add_ui(t, p, 2); line_rel(fn, psize, qsize, kin, t, q, k, "mut:p+2"); break;
	case 1: if (f.kind != 1) { mpz_add_ui(t, q, 2); line_rel(fn, psize, qsize, kin, p, t, k, "mut:q+2"); } break;
	case 2: line_rel(fn, mpz_sizeinbase(p, 2) + 1, qsize, kin, p, q, k, "mut:psize"); break;
	case 3: line_rel(fn, psize, mpz_sizeinbase(q, 2) + 1, kin, p, q, k, "mut:qsize"); break;
	case 4: if (f.kind == 2) { mpz_add_ui(t, k, 2); line_rel(fn, psize, qsize, kin, p, q, t, "mut:k+2"); }
	        else { mpz_mul_2exp(t, p, 1); mpz_add_ui(t, t, 1); line_rel(fn, psize + 1, qsize + 1, kin, t, p, k, "mut:chain"); } break;
	default: if (fn == "lprime_prefix") { mpz_add_ui(t, kin, 1); line_rel(fn, psize, qsize, t, p, q, k, "mut:kin"); } break;
	}
}

static void prime_part(const Opts &o, SplitMix &g)
{
	const bool thorough = (o.tier == "thorough");
	const unsigned long sizes[] = { 32, 40, 48, 64, 80, 96, 128, 160, 192, 256 };
	uint64_t reps = thorough ? 6 : 1 + o.cases / 600;
	Z kin, zero;
	for (const GenFn &f : GENS) for (unsigned long sz : sizes) for (uint64_t r = 0; r < reps; r++) {
		unsigned long mr = (r % 3 == 0) ? TMCG_MR_ITERATIONS : 2 + g.below(30);
		if (f.kind == 0) { if (sz > 192 && !thorough && strstr(f.name, "n")) continue; gen_call(f, sz + 1, sz, mr, zero, g); }
		else if (f.kind == 1) gen_call(f, sz, sz - 1, mr, zero, g);
		else {
			unsigned long qs = 16 + g.below(sz - 24);
			if (!strcmp(f.name, "lprime_prefix")) {
				// a prefix of 1 .. psize-qsize+8 bits
				gen_bits(kin, g, 1 + g.below(sz - qs + 8)); if (!mpz_sgn(kin)) mpz_set_ui(kin, 1 + g.below(1000));
				gen_call(f, sz, qs, mr, kin, g);
			} else gen_call(f, sz, qs, mr, zero, g);
		}
	}
	// the sizes of the library's default Schnorr groups, scaled down, and one 512/160 pair
	gen_call(GENS[7], 512, 160, TMCG_MR_ITERATIONS, zero, g);
	mpz_set_ui(kin, 0); for (const char *c = "LibTMCG"; *c; c++) { mpz_mul_ui(kin, kin, 62); mpz_add_ui(kin, kin, (*c) % 62); }
	gen_call(GENS[8], 512, 160, TMCG_MR_ITERATIONS, kin, g);
	if (thorough) { gen_call(GENS[0], 513, 512, TMCG_MR_ITERATIONS, zero, g); gen_call(GENS[5], 513, 512, TMCG_MR_ITERATIONS, zero, g); gen_call(GENS[6], 512, 511, TMCG_MR_ITERATIONS, zero, g); }
	// refused arguments
	gen_call(GENS[7], 64, 64, 8, zero, g); gen_call(GENS[7], 64, 65, 8, zero, g);
	mpz_set_ui(kin, 5); gen_call(GENS[8], 64, 64, 8, kin, g);
}

// ------------------------------------------------------------------ C. back-end conversion
static void line_roundtrip(mpz_srcptr v, const char *tag)
{
	Z w; mpz_set_si(w, -99);
	gcry_mpi_t m = gcry_mpi_new(8);
	std::string out;
	if (!tmcg_mpz_get_gcry_mpi(m, v)) out = "scanfail";
	else if (!tmcg_mpz_set_gcry_mpi(m, w)) out = mpz_sgn(w) ? "false-nonzero" : "false";
	else out = w.str();
	gcry_mpi_release(m);
	emit("arith2.mpi.roundtrip " + zs(v) + " tag:" + tag + " => " + out);
}

static void roundtrip_part(const Opts &o, SplitMix &g)
{
	Z v;
	mpz_set_ui(v, 0); line_roundtrip(v, "nonneg");
	for (unsigned k = 0; k <= 4096; k += (k < 80 ? 1 : (k < 1100 ? 7 : 61))) {
		mpz_set_ui(v, 1); mpz_mul_2exp(v, v, k); line_roundtrip(v, "nonneg");
		mpz_sub_ui(v, v, 1); line_roundtrip(v, "nonneg");
		mpz_add_ui(v, v, 2); line_roundtrip(v, "nonneg");
	}
	// around the capacity of the text buffer (TMCG_MAX_VALUE_CHARS hexadecimal characters)
	for (unsigned k = 4 * TMCG_MAX_VALUE_CHARS - ((o.tier == "thorough") ? 40 : 18); k <= 4 * TMCG_MAX_VALUE_CHARS + 2; k++) {
		mpz_set_ui(v, 1); mpz_mul_2exp(v, v, k); line_roundtrip(v, "limit");
		mpz_sub_ui(v, v, 1); line_roundtrip(v, "limit");
		mpz_neg(v, v); line_roundtrip(v, "limit-neg");
	}
	for (uint64_t c = 0; c < o.cases; c++) {
		unsigned bits = (c % 4 == 0) ? 1 + g.below(70) : 1 + g.below(4096);
		gen_bits(v, g, bits);
		line_roundtrip(v, "nonneg");
		if (c % 8 == 0) { mpz_neg(v, v); line_roundtrip(v, "neg"); }
	}
}

// ------------------------------------------------------------------ C. the wrapper
static std::string bi_value(const TMCG_Bigint &x)
{
	if (!x.secret) return zs(x.bigint);
	Z t;
	if (!tmcg_mpz_set_gcry_mpi(x.secret_bigint, t)) return "unreadable";
	return t.str();
}
static void bi_load(TMCG_Bigint &x, mpz_srcptr v)
{
	TMCG_Bigint tmp(v); // plain
	x = tmp;            // plain: mpz_set; secure: conversion through tmcg_mpz_get_gcry_mpi
}
static std::string b01(bool b) { return b ? "1" : "0"; }

static std::string bigint_op(int mode, const std::string &op, mpz_srcptr a, mpz_srcptr b, mpz_srcptr c)
{
	bool ts = (mode == 1 || mode == 2), os = (mode == 1 || mode == 3);
	return guarded([&]() -> std::string {
		TMCG_Bigint x(ts, true), y(os, true), z(os, true);
		bi_load(x, a); bi_load(y, b); bi_load(z, c);
		unsigned long ub = mpz_get_ui(b), uc = mpz_get_ui(c);
		if (op == "add") { x += y; return bi_value(x); }
		if (op == "sub") { x -= y; return bi_value(x); }
		if (op == "mul") { x *= y; return bi_value(x); }
		if (op == "div") { x /= y; return bi_value(x); }
		if (op == "mod") { x %= y; return bi_value(x); }
		if (op == "add_ui") { x += ub; return bi_value(x); }
		if (op == "sub_ui") { x -= ub; return bi_value(x); }
		if (op == "mul_ui") { x *= ub; return bi_value(x); }
		if (op == "div_ui") { x /= ub; return bi_value(x); }
		if (op == "mod_ui") { x %= ub; return bi_value(x); }
		if (op == "neg") { -x; return bi_value(x); }
		if (op == "abs") { x.abs(); return bi_value(x); }
		if (op == "assign") { x = y; return bi_value(x); }
		if (op == "assign_ui") { x = ub; return bi_value(x); }
		if (op == "assign_si") { x = (signed long)mpz_get_si(b); return bi_value(x); }
		if (op == "copy") { TMCG_Bigint w(x); return bi_value(w) + (w.secret == x.secret ? "" : " backend-changed"); }
		if (op == "from_mpz") { TMCG_Bigint w(a); return bi_value(w); }
		if (op == "eq") return b01(x == y);
		if (op == "ne") return b01(x != y);
		if (op == "gt") return b01(x > y);
		if (op == "lt") return b01(x < y);
		if (op == "ge") return b01(x >= y);
		if (op == "le") return b01(x <= y);
		if (op == "eq_ui") return b01(x == ub);
		if (op == "ne_ui") return b01(x != ub);
		if (op == "gt_ui") return b01(x > ub);
		if (op == "lt_ui") return b01(x < ub);
		if (op == "ge_ui") return b01(x >= ub);
		if (op == "le_ui") return b01(x <= ub);
		if (op == "eq_si") return b01(x == (signed long)mpz_get_si(b));
		if (op == "ne_si") return b01(x != (signed long)mpz_get_si(b));
		if (op == "mul2exp") { x.mul2exp(ub); return bi_value(x); }
		if (op == "div2exp") { x.div2exp(ub); return bi_value(x); }
		if (op == "ui_pow_ui") { x.ui_pow_ui(ub, uc); return bi_value(x); }
		if (op == "powm") { TMCG_Bigint w(os, true); bi_load(w, a); x.powm(w, y, z); return bi_value(x); }
		if (op == "spowm") { TMCG_Bigint w(os, true); bi_load(w, a); x.spowm(w, y, z); return bi_value(x); }
		if (op == "powm_ui") { TMCG_Bigint w(os, true); bi_load(w, a); x.powm_ui(w, ub, z); return bi_value(x); }
		if (op == "get_ui") return std::to_string(x.get_ui());
		if (op == "size") return std::to_string(x.size(ub));
		if (op == "probab_prime") return b01(x.probab_prime(ub));
		return "unknown-op";
	});
}

static void line_bigint(int mode, const std::string &op, mpz_srcptr a, mpz_srcptr b, mpz_srcptr c, const char *tag)
{
	emit("arith2.bigint " + std::to_string(mode) + " " + op + " " + zs(a) + " " + zs(b) + " " + zs(c) + " tag:" + tag + " => " + bigint_op(mode, op, a, b, c));
}

// the same in a forked child: for calls that end the process
static void line_bigint_child(int mode, const std::string &op, mpz_srcptr a, mpz_srcptr b, mpz_srcptr c, const char *tag)
{
	fflush(stdout);
	int fd[2]; if (pipe(fd)) return;
	pid_t pid = fork();
	if (pid == 0) {
		close(fd[0]);
		int devnull = open("/dev/null", 1); if (devnull >= 0) dup2(devnull, 2);
		std::string r = bigint_op(mode, op, a, b, c);
		(void)!write(fd[1], r.data(), r.size());
		_exit(0);
	}
	close(fd[1]);
	std::string r; char buf[256]; ssize_t n;
	while ((n = read(fd[0], buf, sizeof buf)) > 0) r.append(buf, n);
	close(fd[0]);
	int st = 0; waitpid(pid, &st, 0);
	if (WIFSIGNALED(st)) r = "died:" + std::to_string(WTERMSIG(st));
	else if (WEXITSTATUS(st)) r = "died:exit" + std::to_string(WEXITSTATUS(st));
	emit("arith2.bigint " + std::to_string(mode) + " " + op + " " + zs(a) + " " + zs(b) + " " + zs(c) + " tag:" + tag + " => " + r);
}

static std::string bigint_text(int mode, const std::string &op, mpz_srcptr v, const std::string &text)
{
	bool ts = (mode == 1 || mode == 2);
	return guarded([&]() -> std::string {
		if (op == "export" || op == "export_ne") {
			TMCG_Bigint x(ts, op == "export"); bi_load(x, v);
			std::ostringstream os; os << x; return hexs(os.str());
		}
		TMCG_Bigint x(ts, true); Z seven(7L); bi_load(x, seven);
		if (op == "import") { std::istringstream is(text); is >> x; return bi_value(x); }
		if (op == "set_str62") { x.set_str(text, 62); return bi_value(x); }
		if (op == "set_str16") { x.set_str(text, 16); return bi_value(x); }
		if (op == "set_str10") { x.set_str(text, 10); return bi_value(x); }
		return "unknown-op";
	});
}

static void rand_operand(mpz_ptr r, SplitMix &g)
{
	switch (g.below(10)) {
	case 0: mpz_set_ui(r, g.below(3)); break;
	case 1: mpz_set_ui(r, g.below(1000)); break;
	case 2: mpz_set_ui(r, 1); mpz_mul_2exp(r, r, 63 + g.below(3)); if (g.coin()) mpz_sub_ui(r, r, g.below(3)); else mpz_add_ui(r, r, g.below(3)); break;
	case 3: case 4: gen_bits(r, g, 1 + g.below(64)); break;
	case 5: case 6: gen_bits(r, g, 1 + g.below(300)); break;
	default: gen_bits(r, g, 1 + g.below(2048)); break;
	}
}
static void rand_ui(mpz_ptr r, SplitMix &g)
{
	switch (g.below(5)) {
	case 0: mpz_set_ui(r, g.below(4)); break;
	case 1: mpz_set_ui(r, g.below(100000)); break;
	case 2: mpz_set_ui(r, ~0UL - g.below(3)); break;
	default: mpz_set_ui(r, g.next() >> g.below(64)); break;
	}
}

static void bigint_part(const Opts &o, SplitMix &g)
{
	const bool fatal = o.has("--fatal");
	static const char *BIN[] = { "add", "sub", "mul", "div", "mod", "assign", "eq", "ne", "gt", "lt", "ge", "le" };
	static const char *UI[] = { "add_ui", "sub_ui", "mul_ui", "div_ui", "mod_ui", "assign_ui", "eq_ui", "ne_ui", "gt_ui", "lt_ui", "ge_ui", "le_ui" };
	Z a, b, c, zero, t;
	for (uint64_t it = 0; it < o.cases; it++) {
		for (int mode = 0; mode < 4; mode++) {
			if (mode >= 2 && it % 4) continue; // mixed back ends: fewer cases
			rand_operand(a, g); rand_operand(b, g);
			if (g.below(5) == 0) mpz_set(b, a);
			if (g.below(7) == 0) { mpz_mul(a, b, a); } // exact divisions
			for (const char *op : BIN) {
				bool divlike = !strcmp(op, "div") || !strcmp(op, "mod");
				if (divlike && !mpz_sgn(b) && (mode == 1 || mode == 2)) {
					// libgcrypt ends the process ("divide by zero"); the plain back end throws domain_error
					if (fatal) line_bigint_child(mode, op, a, b, zero, "fatal:divzero");
					continue;
				}
				line_bigint(mode, op, a, b, zero, "nonneg");
			}
			rand_ui(b, g);
			for (const char *op : UI) line_bigint(mode, op, a, b, zero, "nonneg");
			line_bigint(mode, "neg", a, zero, zero, "nonneg");
			line_bigint(mode, "abs", a, zero, zero, "nonneg");
			line_bigint(mode, "copy", a, zero, zero, "nonneg");
			if (mode == 0) line_bigint(mode, "from_mpz", a, zero, zero, "nonneg");
			line_bigint(mode, "get_ui", a, zero, zero, "nonneg");
			mpz_set_ui(b, 2); line_bigint(mode, "size", a, b, zero, "nonneg");
			{ const unsigned long bases[5] = { 4, 8, 16, 32, 62 }; unsigned long bs = bases[g.below(5)];
			  mpz_set_ui(b, bs);
			  if (bs == 62 && !(mode == 1 || mode == 2)) {
				TMCG_Bigint x(false, true); bi_load(x, a);
				emit("prop.arith2.size " + zs(a) + " 62 => " + std::to_string(x.size(62)));
				mpz_set_ui(b, 10); emit("prop.arith2.size " + zs(a) + " 10 => " + std::to_string(x.size(10)));
			  } else line_bigint(mode, "size", a, b, zero, "nonneg"); }
			mpz_set_ui(b, g.below(g.coin() ? 8 : 200)); line_bigint(mode, "mul2exp", a, b, zero, "nonneg");
			line_bigint(mode, "div2exp", a, b, zero, "nonneg");
			mpz_set_ui(b, g.below(2000)); mpz_set_ui(c, g.below(40)); line_bigint(mode, "ui_pow_ui", a, b, c, "nonneg");
			mpz_set_si(b, (long)(g.next() >> (1 + g.below(63)))); line_bigint(mode, "assign_si", a, b, zero, "nonneg");
			line_bigint(mode, "eq_si", a, b, zero, "nonneg"); line_bigint(mode, "ne_si", b, b, zero, "nonneg");
			// modular exponentiation: base a, exponent b >= 0, modulus c > 0
			rand_operand(a, g); gen_bits(b, g, 1 + g.below(300)); if (g.below(10) == 0) mpz_set_ui(b, g.below(2));
			do rand_operand(c, g); while (!mpz_sgn(c));
			if (g.below(4) == 0 && mpz_cmp_ui(c, 1) > 0) mpz_mod(a, a, c);
			line_bigint(mode, "powm", a, b, c, "nonneg");
			mpz_setbit(c, 0); line_bigint(mode, "spowm", a, b, c, "nonneg");
			rand_ui(b, g);
			if (mode == 2) { if (fatal) line_bigint_child(mode, "powm_ui", a, b, c, "fatal:powm_ui-mixed"); }
			else line_bigint(mode, "powm_ui", a, b, c, "nonneg");
		}
		// primality: small numbers, primes, products of two primes, Carmichael numbers
		if (it % 4 == 0) for (int mode = 0; mode < 2; mode++) {
			static const unsigned long special[] = { 0, 1, 2, 3, 4, 9, 561, 1105, 1729, 2465, 6601, 8911, 41041, 825265, 321197185, 4294967291UL, 4294967297UL };
			switch (g.below(5)) {
			case 0: mpz_set_ui(a, special[g.below(sizeof special / sizeof special[0])]); break;
			case 1: gen_bits(a, g, 2 + g.below(62)); break;
			case 2: gen_bits(a, g, 8 + g.below(500)); mpz_nextprime(a, a); break;
			case 3: gen_bits(a, g, 8 + g.below(200)); mpz_nextprime(a, a); gen_bits(t, g, 8 + g.below(200)); mpz_nextprime(t, t); mpz_mul(a, a, t); break;
			default: gen_bits(a, g, 8 + g.below(500)); mpz_setbit(a, 0); break;
			}
			mpz_set_ui(b, 1 + g.below(40));
			line_bigint(mode, "probab_prime", a, b, zero, "nonneg");
		}
		// text
		if (it % 2 == 0) for (int mode = 0; mode < 2; mode++) {
			rand_operand(a, g);
			emit("arith2.bigint.text " + std::to_string(mode) + " export " + zs(a) + " tag:nonneg => " + bigint_text(mode, "export", a, ""));
			if (it % 8 == 0) emit("arith2.bigint.text " + std::to_string(mode) + " export_ne " + zs(a) + " tag:nonneg => " + bigint_text(mode, "export_ne", a, ""));
			char *s62 = mpz_get_str(NULL, 62, a), *s16 = mpz_get_str(NULL, 16, a), *s10 = mpz_get_str(NULL, 10, a);
			std::string t62(s62), t16(s16), t10(s10); free(s62); free(s16); free(s10);
			switch (g.below(8)) {
			case 0: t62 = "  " + t62; t16 = "\t" + t16; t10 = " " + t10; break;
			case 1: t62 += "!"; t16 += "g"; t10 += "a"; break;
			case 2: t62 = ""; t16 = ""; t10 = ""; break;
			case 3: t62 = "-" + t62; t16 = "-" + t16; t10 = "-" + t10; break;
			case 4: if (t62.size() > 2) t62.insert(t62.size() / 2, " "); if (t16.size() > 2) t16.insert(1, " "); break;
			default: break;
			}
			emit("arith2.bigint.text " + std::to_string(mode) + " import " + hexs(t62) + " tag:text => " + bigint_text(mode, "import", zero, t62));
			emit("arith2.bigint.text " + std::to_string(mode) + " set_str62 " + hexs(t62) + " tag:text => " + bigint_text(mode, "set_str62", zero, t62));
			emit("arith2.bigint.text " + std::to_string(mode) + " set_str16 " + hexs(t16) + " tag:text => " + bigint_text(mode, "set_str16", zero, t16));
			emit("arith2.bigint.text " + std::to_string(mode) + " set_str10 " + hexs(t10) + " tag:text => " + bigint_text(mode, "set_str10", zero, t10));
		}
	}
	// operation sequences, the same on both back ends
	static const char *SEQ[] = { "add", "sub", "mul", "div", "mod", "add_ui", "sub_ui", "mul_ui", "mod_ui", "neg", "abs", "mul2exp", "assign_self" };
	for (uint64_t it = 0; it < o.cases; it++) {
		bool allow_neg = (it % 3 == 0);
		Z a0, acc; rand_operand(a0, g); mpz_set(acc, a0);
		size_t len = 1 + g.below(24);
		std::vector<std::pair<std::string, Z> > ops;
		bool wentneg = false;
		for (size_t i = 0; i < len; i++) {
			std::string op = SEQ[g.below(sizeof SEQ / sizeof SEQ[0])];
			Z arg;
			if (op == "add" || op == "sub" || op == "mul" || op == "div" || op == "mod") { gen_bits(arg, g, 1 + g.below(g.coin() ? 64 : 512)); }
			else if (op == "mul2exp") mpz_set_ui(arg, g.below(130));
			else if (op == "neg" || op == "abs" || op == "assign_self") mpz_set_ui(arg, 0);
			else rand_ui(arg, g);
			if ((op == "div" || op == "mod" || op == "mod_ui") && !mpz_sgn(arg)) mpz_set_ui(arg, 1 + g.below(9));
			if (op == "mul" && mpz_sizeinbase(acc, 2) > 3000) op = "mod";
			if (op == "mul2exp" && mpz_sizeinbase(acc, 2) > 3000) op = "abs";
			if (op == "mod" && !mpz_sgn(arg)) mpz_set_ui(arg, 3);
			// shadow value with GMP, only to steer the generator (keep the value non-negative when asked to)
			Z nxt;
			if (op == "add" || op == "add_ui") mpz_add(nxt, acc, arg);
			else if (op == "sub" || op == "sub_ui") mpz_sub(nxt, acc, arg);
			else if (op == "mul" || op == "mul_ui") mpz_mul(nxt, acc, arg);
			else if (op == "div") mpz_tdiv_q(nxt, acc, arg);
			else if (op == "mod" || op == "mod_ui") mpz_mod(nxt, acc, arg);
			else if (op == "neg") mpz_neg(nxt, acc);
			else if (op == "abs") mpz_abs(nxt, acc);
			else if (op == "mul2exp") mpz_mul_2exp(nxt, acc, mpz_get_ui(arg));
			else mpz_set(nxt, acc);
			if (mpz_sgn(nxt) < 0) { if (!allow_neg) { i--; continue; } wentneg = true; }
			mpz_set(acc, nxt);
			ops.push_back(std::make_pair(op, arg));
		}
		std::string optxt = "[";
		for (size_t i = 0; i < ops.size(); i++) { if (i) optxt += ","; optxt += ops[i].first + ":" + ops[i].second.str(); }
		optxt += "]";
		for (int mode = 0; mode < 2; mode++) {
			std::string out = guarded([&]() -> std::string {
				TMCG_Bigint x(mode == 1, true), zz(mode == 1, true);
				bi_load(x, a0); zz = 0UL;
				for (auto &e : ops) {
					const std::string &op = e.first; unsigned long u = mpz_get_ui(e.second);
					TMCG_Bigint y(mode == 1, true); bi_load(y, e.second);
					if (op == "add") x += y; else if (op == "sub") x -= y; else if (op == "mul") x *= y;
					else if (op == "div") x /= y; else if (op == "mod") x %= y;
					else if (op == "add_ui") x += u; else if (op == "sub_ui") x -= u; else if (op == "mul_ui") x *= u;
					else if (op == "mod_ui") x %= u; else if (op == "neg") -x; else if (op == "abs") x.abs();
					else if (op == "mul2exp") x.mul2exp(u); else if (op == "assign_self") x = x;
				}
				return bi_value(x) + " " + b01(x == zz) + " " + b01(x < zz);
			});
			emit("arith2.bigint.seq " + std::to_string(mode) + " " + a0.str() + " " + optxt + " tag:" + (wentneg ? "seqneg" : "seq") + " => " + out);
		}
	}
	// fixed corner cases
	{
		Z five(5L), three(3L), seven(7L), one(1L);
		for (int mode = 0; mode < 4; mode++) {
			line_bigint(mode, "sub", three, five, zero, "nonneg");      // negative result
			line_bigint(mode, "sub_ui", three, five, zero, "nonneg");
			line_bigint(mode, "neg", zero, zero, zero, "nonneg");
			line_bigint(mode, "div_ui", five, zero, zero, "nonneg");     // plain: domain_error, secure: not offered
			line_bigint(mode, "mod_ui", five, zero, zero, "nonneg");
			line_bigint(mode, "powm", five, zero, one, "nonneg");        // x^0 mod 1 = 0
			line_bigint(mode, "powm", zero, zero, seven, "nonneg");      // 0^0 = 1
			if (mode != 2) line_bigint(mode, "powm_ui", zero, zero, seven, "nonneg");
			if (mode == 0 || mode == 3) { line_bigint(mode, "div", five, zero, zero, "nonneg"); line_bigint(mode, "mod", five, zero, zero, "nonneg"); }
			else if (fatal) { line_bigint_child(mode, "div", five, zero, zero, "fatal:divzero"); line_bigint_child(mode, "mod", five, zero, zero, "fatal:divzero"); }
			if (mode == 2 && fatal) line_bigint_child(mode, "powm_ui", five, three, seven, "fatal:powm_ui-mixed");
		}
	}
}

static int drv_arith2(const Opts &o)
{
	SplitMix g(o.seed ^ 0x61723200);
	bool all = !(o.has("--only-interp") || o.has("--only-primes") || o.has("--only-mpi") || o.has("--only-bigint"));
	if (all || o.has("--only-interp")) interp_part(o, g);
	if (all || o.has("--only-primes")) prime_part(o, g);
	if (all || o.has("--only-mpi")) roundtrip_part(o, g);
	if (all || o.has("--only-bigint")) bigint_part(o, g);
	return 0;
}
REGISTER_DRIVER("arith2", drv_arith2);
