// C06, first clause ("group checking accepts every parameter set the library generates itself"): the GENERATING
// constructors of the group classes are run with served coins, the primality oracle (mpz_probab_prime_p, interposed in
// drv_rabin.cc) and the hash oracle (tmcg_mpz_shash) logged; the object's own CheckGroup() is called afterwards.  The
// model (lean/Tmcg/Model/GroupGen.lean) recomputes the generated parameters from the same coins and oracle answers and
// the verdict of the class's CheckGroup model.  Area "groupgen".
//
// Line format — every line ends with the same four fields  FUEL [coin byte strings] [n:reps:0/1,…] [hexquery:answer,…]
// (coins served, every call of mpz_probab_prime_p with its answer incl. those of CheckGroup, every string hashed):
//   groupgen.D fs gs can …            => p q k g 1 [] c      BarnettSmartVTMF_dlog(fs, gs, can)
//   groupgen.QR fs es …               => p q 2 g 1 [] c      BarnettSmartVTMF_dlog_GroupQR(fs, es)
//   groupgen.P n fs gs …              => p q k 0 h [g_i] c   PedersenCommitmentScheme(n, fs, gs)
//   groupgen.SKC n fs gs …            => p q k 0 h [g_i] c   GrothSKC(n, l_e, fs, gs) (its CheckGroup, parameters via PublishGroup)
//   groupgen.PT fs gs …               => p q k g h [] c      PedersenTrapdoorCommitmentScheme(fs, gs)
//   groupgen.VRHE fs gs …             => p q k g h [] c      HooghSchoenmakersSkoricVillegasVRHE(fs, gs) (k = (p-1)/q, not stored)
//   groupgen.NP fs gs …               => p q k g 0 [] c      NaorPinkasEOTP(fs, gs)
//   groupgen.key p q g …              => h                   KeyGenerationProtocol_GenerateKey on the generated VTMF instance
//   groupgen.use Y v fs gs can p q k g h …   => c            class Y (PVSS, R variant v, G variant v, NP) constructed from the
//                                                            VTMF instance's p, q, g and common key h; its CheckGroup
//   groupgen.PTfrom fs gs p q k g …   => p q k g h [] c      PedersenTrapdoorCommitmentScheme(p, q, k, g, fs, gs)
//   groupgen.Pfrom n fs gs p q k h …  => p q k 0 h [g_i] c   PedersenCommitmentScheme(n, p, q, k, h, fs, gs)
//   groupgen.VSSHE n le fs gs p q k g h … => p q k g h [g_i] c   GrothVSSHE(n, p, q, k, g, h, le, fs, gs)
//   groupgen.setup n fs gs p q k h [g_i] a woh … => h [g_i] c    SetupGenerators_publiccoin(a, woh) on a streamed scheme
// c = result of the object's own CheckGroup() (0/1).
// tags: tag:std (library-like sizes), tag:tiny (very small subgroups: collisions between independently drawn generators
// become likely), tag:pre:<what> (documented precondition violated: exponent size above the field size, l_e too large,
// canonical generator demanded of a non-canonical VTMF instance) — the model decides all of them.
// Whole-run facts (model-free):
//   prop.groupgen <class> generated=<n> accepted=<n> collided=<n>
//     generated: parameter sets produced with the preconditions met; collided: those in which two of the independently
//     generated generators coincide or a key-derived generator is 1 (h = g^0) — the only sets CheckGroup may refuse.
#include "common.hh"
#include <memory>
#include <map>

struct PrimeCall { std::string n; int reps; int ans; };
struct PrimeLog { bool on = false; std::vector<PrimeCall> calls; };
extern PrimeLog primelog;

static const char *FUEL = "100000000";

static std::string olog_take()
{
	std::vector<std::string> qs; qs.swap(hashlog.shash_inputs); hashlog.raw.clear();
	bool was = hashlog.log; hashlog.log = false;
	std::string s = "[";
	for (size_t i = 0; i < qs.size(); i++) { Z a; tmcg_mpz_shash(a, qs[i]); if (i) s += ","; s += hexs(qs[i]) + ":" + a.str(); }
	hashlog.log = was;
	return s + "]";
}
static void cap_begin()
{
	coins.take(); coins.log = true; primelog.calls.clear(); primelog.on = true; hashlog.log = true; olog_take();
}
static std::string cap_end()
{
	primelog.on = false;
	std::vector<CoinLogEntry> es = coins.take();
	std::string pl = "[";
	for (size_t i = 0; i < primelog.calls.size(); i++) { if (i) pl += ","; pl += primelog.calls[i].n + ":" + std::to_string(primelog.calls[i].reps) + ":" + (primelog.calls[i].ans ? "1" : "0"); }
	pl += "]";
	std::string ol = olog_take(); hashlog.log = false;
	return std::string(FUEL) + " " + coin_bytes_hex(es) + " " + pl + " " + ol;
}

struct Stat { uint64_t gen = 0, acc = 0, col = 0; };
static std::map<std::string, Stat> stats;
static void count(const std::string &cls, const std::string &tag, bool accepted, bool collided)
{
	if (!tag.compare(0, 8, "tag:pre:")) return;
	Stat &s = stats[cls]; s.gen++; if (accepted) s.acc++; if (collided) s.col++;
}
static std::string U(unsigned long x) { return std::to_string(x); }
static std::string params(mpz_srcptr p, mpz_srcptr q, mpz_srcptr k, mpz_srcptr g, mpz_srcptr h, const std::vector<Z> &gs, bool c)
{
	return zs(p) + " " + zs(q) + " " + zs(k) + " " + zs(g) + " " + zs(h) + " " + zlist(gs.begin(), gs.end()) + " " + (c ? "1" : "0");
}
static bool dup(mpz_srcptr h, const std::vector<Z> &gs)
{
	for (size_t i = 0; i < gs.size(); i++) { if (!mpz_cmp(gs[i], h)) return true; for (size_t j = i + 1; j < gs.size(); j++) if (!mpz_cmp(gs[i], gs[j])) return true; }
	return false;
}
static std::vector<Z> zvec(const std::vector<mpz_ptr> &v) { std::vector<Z> r(v.size()); for (size_t i = 0; i < v.size(); i++) mpz_set(r[i], v[i]); return r; }

// ---- CheckGroup of the classes that copy (p, q, g, h)
static std::string use_check(const std::string &Y, int v, unsigned long fs, unsigned long gsz, bool can, mpz_srcptr p, mpz_srcptr q, mpz_srcptr g, mpz_srcptr h)
{
	return guarded([&]() -> std::string {
		bool r;
		if (Y == "PVSS") { PedersenVSS o(3, 1, 0, p, q, g, h, fs, gsz, false, ""); r = o.CheckGroup(); }
		else if (Y == "R") {
			if (v == 0) { GennaroJareckiKrawczykRabinDKG o(3, 1, 0, p, q, g, h, fs, gsz, can, false, ""); r = o.CheckGroup(); }
			else if (v == 1) { CanettiGennaroJareckiKrawczykRabinRVSS o(3, 1, 0, 1, p, q, g, h, fs, gsz, can, false, ""); r = o.CheckGroup(); }
			else if (v == 2) { CanettiGennaroJareckiKrawczykRabinZVSS o(3, 1, 0, 1, p, q, g, h, fs, gsz, can, false, ""); r = o.CheckGroup(); }
			else if (v == 3) { GennaroJareckiKrawczykRabinNTS o(3, 1, 0, p, q, g, h, fs, gsz, can, false); r = o.CheckGroup(); }
			else if (v == 4) { CanettiGennaroJareckiKrawczykRabinDKG o(3, 1, 0, p, q, g, h, fs, gsz, can, false, ""); r = o.CheckGroup(); }
			else { CanettiGennaroJareckiKrawczykRabinDSS o(3, 1, 0, p, q, g, h, fs, gsz, can, false); r = o.CheckGroup(); }
		}
		else if (Y == "G") {
			if (v == 0) { HooghSchoenmakersSkoricVillegasVRHE o(p, q, g, h, fs, gsz); r = o.CheckGroup(); }
			else if (v == 1) { JareckiLysyanskayaRVSS o(3, 1, p, q, g, h, fs, gsz); r = o.CheckGroup(); }
			else { JareckiLysyanskayaEDCF o(3, 1, p, q, g, h, fs, gsz); r = o.CheckGroup(); }
		}
		else { NaorPinkasEOTP o(p, q, g, fs, gsz); r = o.CheckGroup(); }
		return r ? "1" : "0";
	});
}
static const char *use_name(const std::string &Y, int v)
{
	static const char *R[] = { "GennaroJareckiKrawczykRabinDKG", "CanettiGennaroJareckiKrawczykRabinRVSS", "CanettiGennaroJareckiKrawczykRabinZVSS",
		"GennaroJareckiKrawczykRabinNTS", "CanettiGennaroJareckiKrawczykRabinDKG", "CanettiGennaroJareckiKrawczykRabinDSS" };
	static const char *G[] = { "HooghSchoenmakersSkoricVillegasVRHE", "JareckiLysyanskayaRVSS", "JareckiLysyanskayaEDCF" };
	if (Y == "PVSS") return "PedersenVSS"; if (Y == "R") return R[v]; if (Y == "G") return G[v]; return "NaorPinkasEOTP";
}

static void one_case(SplitMix &g, uint64_t c, bool thorough)
{
	// ---- sizes
	unsigned long fs, gs; std::string tag;
	switch (c % 4) {
	case 0: { static const unsigned long S[][2] = { {256, 128}, {512, 160}, {384, 160}, {1024, 160} }; int i = g.below(thorough ? 4 : 3); fs = S[i][0]; gs = S[i][1]; tag = "tag:std"; } break;
	case 1: gs = 65 + g.below(100); fs = gs + 24 + g.below(200); tag = "tag:std"; break;      // odd sizes
	case 2: gs = 4 + g.below(5); fs = gs + 10 + g.below(8); tag = "tag:tiny"; break;         // collisions likely
	default: gs = 9 + g.below(12); fs = gs + 12 + g.below(20); tag = "tag:tiny"; break;
	}
	bool can = g.coin();
	size_t n = 1 + g.below(tag == "tag:tiny" ? 6 : 4);
	Z one(1L), zero(0L);
	std::vector<Z> none;

	// ---- BarnettSmartVTMF_dlog and the classes fed from it
	{
		cap_begin();
		std::unique_ptr<BarnettSmartVTMF_dlog> vtmf(new BarnettSmartVTMF_dlog(fs, gs, can, true));
		bool ok = vtmf->CheckGroup();
		std::string cap = cap_end();
		emit("groupgen.D " + U(fs) + " " + U(gs) + " " + (can ? "1" : "0") + " " + cap + " " + tag + " => " + params(vtmf->p, vtmf->q, vtmf->k, vtmf->g, one, none, ok));
		count("BarnettSmartVTMF_dlog", tag, ok, false);
		if (!vtmf->CheckElement(vtmf->g)) emit("prop.groupgen.elem BarnettSmartVTMF_dlog g => 0");

		cap_begin();
		vtmf->KeyGenerationProtocol_GenerateKey(); vtmf->KeyGenerationProtocol_Finalize();
		cap = cap_end();
		emit("groupgen.key " + zs(vtmf->p) + " " + zs(vtmf->q) + " " + zs(vtmf->g) + " " + cap + " " + tag + " => " + zs(vtmf->h));
		bool hcol = !mpz_cmp_ui(vtmf->h, 1) || !mpz_cmp(vtmf->h, vtmf->g);

		struct Use { const char *Y; int v; } uses[] = { {"PVSS", 0}, {"R", 0}, {"R", 1}, {"R", 2}, {"R", 3}, {"R", 4}, {"R", 5}, {"G", 0}, {"G", 1}, {"G", 2}, {"NP", 0} };
		for (auto &u : uses) {
			std::string Y = u.Y; bool canY = (Y == "R") ? (g.below(4) == 0 ? !can : can) : false;
			std::string t = tag;
			if ((Y == "PVSS" && !can) || (Y == "R" && canY && !can)) t = "tag:pre:noncanonical";
			cap_begin();
			std::string out = use_check(Y, u.v, fs, gs, canY, vtmf->p, vtmf->q, vtmf->g, vtmf->h);
			cap = cap_end();
			emit("groupgen.use " + Y + " " + std::to_string(u.v) + " " + U(fs) + " " + U(gs) + " " + (canY ? "1" : "0") + " " + zs(vtmf->p) + " " + zs(vtmf->q) + " " + zs(vtmf->k) + " " +
				zs(vtmf->g) + " " + zs(vtmf->h) + " " + cap + " " + t + " => " + out);
			count(std::string("BarnettSmartVTMF_dlog->") + use_name(Y, u.v), t, out == "1", Y == "NP" ? false : hcol);
		}
		{ // PedersenTrapdoorCommitmentScheme(p, q, k, g)
			cap_begin();
			PedersenTrapdoorCommitmentScheme o(vtmf->p, vtmf->q, vtmf->k, vtmf->g, fs, gs); bool ok2 = o.CheckGroup();
			cap = cap_end();
			emit("groupgen.PTfrom " + U(fs) + " " + U(gs) + " " + zs(vtmf->p) + " " + zs(vtmf->q) + " " + zs(vtmf->k) + " " + zs(vtmf->g) + " " + cap + " " + tag + " => " + params(o.p, o.q, o.k, o.g, o.h, none, ok2));
			count("BarnettSmartVTMF_dlog->PedersenTrapdoorCommitmentScheme", tag, ok2, !mpz_cmp_ui(o.h, 1) || !mpz_cmp(o.h, o.g));
		}
		{ // PedersenCommitmentScheme(n, p, q, k, h)
			cap_begin();
			PedersenCommitmentScheme o(n, vtmf->p, vtmf->q, vtmf->k, vtmf->h, fs, gs); bool ok2 = o.CheckGroup();
			cap = cap_end();
			std::vector<Z> og = zvec(o.g);
			emit("groupgen.Pfrom " + std::to_string(n) + " " + U(fs) + " " + U(gs) + " " + zs(vtmf->p) + " " + zs(vtmf->q) + " " + zs(vtmf->k) + " " + zs(vtmf->h) + " " + cap + " " + tag + " => " + params(o.p, o.q, o.k, zero, o.h, og, ok2));
			count("BarnettSmartVTMF_dlog->PedersenCommitmentScheme", tag, ok2, !mpz_cmp_ui(o.h, 1) || dup(o.h, og));
		}
		{ // GrothVSSHE(n, p, q, k, g, h, l_e)
			unsigned long le = (gs >= 160) ? TMCG_GROTH_L_E : gs / 2; std::string t = tag;
			if (g.below(5) == 0) { le = gs / 2 + 1 + g.below(3); t = "tag:pre:l_e"; }
			cap_begin();
			GrothVSSHE o(n, vtmf->p, vtmf->q, vtmf->k, vtmf->g, vtmf->h, le, fs, gs); bool ok2 = o.CheckGroup();
			cap = cap_end();
			std::vector<Z> og = zvec(o.com->g);
			if (t != "tag:pre:l_e" && mpz_sizeinbase(o.q, 2) < 2 * le) t = "tag:pre:l_e";
			emit("groupgen.VSSHE " + std::to_string(n) + " " + U(le) + " " + U(fs) + " " + U(gs) + " " + zs(vtmf->p) + " " + zs(vtmf->q) + " " + zs(vtmf->k) + " " + zs(vtmf->g) + " " + zs(vtmf->h) + " " + cap + " " + t + " => " +
				params(o.p, o.q, o.com->k, o.g, o.h, og, ok2));
			count("BarnettSmartVTMF_dlog->GrothVSSHE", t, ok2, !mpz_cmp_ui(o.h, 1) || dup(o.h, og));
		}
	}
	// ---- PedersenCommitmentScheme / GrothSKC, SetupGenerators_publiccoin
	{
		cap_begin();
		PedersenCommitmentScheme o(n, fs, gs); bool ok = o.CheckGroup();
		std::string cap = cap_end();
		std::vector<Z> og = zvec(o.g);
		emit("groupgen.P " + std::to_string(n) + " " + U(fs) + " " + U(gs) + " " + cap + " " + tag + " => " + params(o.p, o.q, o.k, zero, o.h, og, ok));
		count("PedersenCommitmentScheme", tag, ok, dup(o.h, og));
		for (int woh = 0; woh < 2; woh++) {
			std::stringstream lej; o.PublishGroup(lej);
			PedersenCommitmentScheme o2(n, lej, fs, gs);
			Z a; gen_bits(a, g, 1 + g.below(256)); if (g.below(8) == 0) mpz_set_ui(a, 0);
			std::vector<Z> before = zvec(o2.g);
			cap_begin();
			o2.SetupGenerators_publiccoin(a, woh == 1); bool ok2 = o2.CheckGroup();
			cap = cap_end();
			std::vector<Z> after = zvec(o2.g);
			emit("groupgen.setup " + std::to_string(n) + " " + U(fs) + " " + U(gs) + " " + zs(o.p) + " " + zs(o.q) + " " + zs(o.k) + " " + zs(o.h) + " " + zlist(before.begin(), before.end()) + " " + a.str() + " " + (woh ? "1" : "0") + " " +
				cap + " " + tag + " => " + zs(o2.h) + " " + zlist(after.begin(), after.end()) + " " + (ok2 ? "1" : "0"));
			count("PedersenCommitmentScheme::SetupGenerators_publiccoin", tag, ok2, dup(o2.h, after));
		}
	}
	{
		cap_begin();
		GrothSKC o(n, TMCG_GROTH_L_E, fs, gs); bool ok = o.CheckGroup();
		std::string cap = cap_end();
		std::stringstream lej; o.PublishGroup(lej);
		Z p, q, k, h; lej >> p.v >> q.v >> k.v >> h.v; std::vector<Z> og(n); for (size_t i = 0; i < n; i++) lej >> og[i].v;
		emit("groupgen.SKC " + std::to_string(n) + " " + U(fs) + " " + U(gs) + " " + cap + " " + tag + " => " + params(p, q, k, zero, h, og, ok));
		count("GrothSKC", tag, ok, dup(h, og));
	}
	// ---- PedersenTrapdoorCommitmentScheme
	{
		cap_begin();
		PedersenTrapdoorCommitmentScheme o(fs, gs); bool ok = o.CheckGroup();
		std::string cap = cap_end();
		emit("groupgen.PT " + U(fs) + " " + U(gs) + " " + cap + " " + tag + " => " + params(o.p, o.q, o.k, o.g, o.h, none, ok));
		count("PedersenTrapdoorCommitmentScheme", tag, ok, !mpz_cmp_ui(o.h, 1) || !mpz_cmp(o.h, o.g));
	}
	// ---- HooghSchoenmakersSkoricVillegasVRHE
	{
		cap_begin();
		HooghSchoenmakersSkoricVillegasVRHE o(fs, gs); bool ok = o.CheckGroup();
		std::string cap = cap_end();
		Z k; mpz_sub_ui(k, o.p, 1); mpz_fdiv_q(k, k, o.q);
		emit("groupgen.VRHE " + U(fs) + " " + U(gs) + " " + cap + " " + tag + " => " + params(o.p, o.q, k, o.g, o.h, none, ok));
		count("HooghSchoenmakersSkoricVillegasVRHE", tag, ok, !mpz_cmp(o.h, o.g));
		if (!o.CheckElement(o.g) || !o.CheckElement(o.h)) emit("prop.groupgen.elem HooghSchoenmakersSkoricVillegasVRHE g,h => 0");
	}
	// ---- NaorPinkasEOTP
	{
		cap_begin();
		NaorPinkasEOTP o(fs, gs); bool ok = o.CheckGroup();
		std::string cap = cap_end();
		Z k; mpz_sub_ui(k, o.p, 1); mpz_fdiv_q(k, k, o.q);
		emit("groupgen.NP " + U(fs) + " " + U(gs) + " " + cap + " " + tag + " => " + params(o.p, o.q, k, o.g, zero, none, ok));
		count("NaorPinkasEOTP", tag, ok, false);
	}
	// ---- BarnettSmartVTMF_dlog_GroupQR (safe-prime search: small sizes; larger ones once in a while)
	{
		static const unsigned long F[] = { 24, 33, 48, 64, 65, 97, 128 };
		unsigned long qfs = F[g.below(thorough ? 7 : 5)]; if (c % 16 == 5) qfs = thorough ? 256 : 160;
		unsigned long es = 1 + g.below(qfs); std::string t = "tag:std";
		switch (g.below(6)) { case 0: es = qfs; break; case 1: es = qfs / 2; break; case 2: es = qfs + 1 + g.below(3); t = "tag:pre:esize"; break; default: break; }
		cap_begin();
		BarnettSmartVTMF_dlog_GroupQR o(qfs, es); bool ok = o.CheckGroup();
		std::string cap = cap_end();
		if (t == "tag:std" && mpz_sizeinbase(o.p, 2) < es) t = "tag:pre:esize";
		if (t == "tag:pre:esize" && mpz_sizeinbase(o.p, 2) >= es) t = "tag:std";
		emit("groupgen.QR " + U(qfs) + " " + U(es) + " " + cap + " " + t + " => " + params(o.p, o.q, o.k, o.g, one, none, ok));
		count("BarnettSmartVTMF_dlog_GroupQR", t, ok, false);
		if (t == "tag:std" && !o.CheckElement(o.g)) emit("prop.groupgen.elem BarnettSmartVTMF_dlog_GroupQR g => 0");
	}
}

static int drv_groupgen(const Opts &o)
{
	SplitMix g(o.seed ^ 0x6767656e);
	bool thorough = (o.tier == "thorough");
	for (uint64_t c = 0; c < o.cases; c++) {
		// tmcg_mpz_lprime does not return for some tiny size pairs (it draws q once and then only the cofactor: DESIGN.md
		// §11.8); such a case is given up after 300 000 draws and reported as skipped, not judged
		coins.budget = 300000; coins.draws = 0;
		try { one_case(g, c, thorough); }
		catch (const CoinBudgetExceeded &) { coins.take(); hashlog.clear(); emit("prop.groupgen.skip case=" + std::to_string(c) + " => draw-budget-exceeded"); }
		coins.budget = 0;
	}
	for (auto &s : stats)
		emit("prop.groupgen " + s.first + " generated=" + std::to_string(s.second.gen) + " accepted=" + std::to_string(s.second.acc) + " collided=" + std::to_string(s.second.col));
	return 0;
}
REGISTER_DRIVER("groupgen", drv_groupgen);
