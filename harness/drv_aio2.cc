// C13, second part: chunked mode of aiounicast_select, the class aiounicast_nonblock (Send with a full
// pipe / time-out, Receive), several peers behind one object with the three schedulers.
//
// Trace lines (hex fields: "-" = empty; logs: [in:out,...] with hex fields; tag list as in drv_aio.cc):
//   aio2.send auth enc chunked open ivsent sqn calls chunkout m est ivhex [maclog] [enclog]
//        => ret open' ivsent' sqn' calls' chunkout' wirehex     (ret = 0: `0 open'`)
//      open = fd_out.count(i): a Send that timed out with the stream out of step erases the output descriptor
//      one aiounicast_select::Send on a pipe that takes everything.  est = mpz_sizeinbase(m (+2^256), 62).
//   aio2.nbsend auth enc chunked open ivsent sqn calls macacchex m est ivhex queuehex cap fiv fbody fmac [drains] [maclog] [enclog]
//        => ret open' ivsent' sqn' calls' macacchex' nwritten writtenhex queuehex' drainsused
//      one aiounicast_nonblock::Send.  The link is a harness-owned byte queue of capacity cap (write(2) on the
//      object's output descriptor is answered by the harness: min(len, free) bytes, 0 = -1/EAGAIN; at each
//      EAGAIN -- the library then calls sleep(1) -- the receiving side takes drains[k] bytes off the queue).
//      fiv/fbody/fmac: iterations the clock allowed to the three write loops (time-out 0: 1 each; a large
//      time-out: 1000000; a loop that was cut by the clock: the number of iterations it made).
//      macacc: bytes fed to the MAC handle and not yet reset (left behind by a Send that timed out).
//      nwritten = change of numWrite.
//   aio2.recv cls auth enc chunked n bufhex flag ivseen sqn calls chunkin pipehex [veriflog] [declog]
//        => bufhex' flag' ivseen' sqn' calls' chunkin' pipehex' result
//      one Receive(m, 0, aio_scheduler_direct, 0) on an n-party object; result = value:<v> | fail | none
//   aio2.recvn cls auth enc chunked n sched cur idirect [words] [peer,...] [veriflog] [declog]
//        => cur' wordsused iout result [peer',...]
//      one Receive(m, i_out, sched, 0) on an n-party object with n live input links.
//      peer = bufhex:flag:ivseen:sqn:calls:chunkin:pipehex; sched = rr | rnd | direct; words = coin words served.
//   aio2.sendarr cls auth enc chunked open ivsent sqn calls chunkout macacchex [m,...] [est,...] ivhex [maclog] [enclog]
//        => ret open' ivsent' sqn' calls' chunkout' macacchex' wirehex
//      one Send(vector) on a link that takes everything; est: one per value sent (the array delimiter included
//      in the chunked mode of the select class)
//   aio2.recvarr cls auth enc chunked n sched cur bcur idirect [words] [peer,...] [queue,...] [m,...] [veriflog] [declog]
//        => cur' bcur' wordsused iout ret [m',...] [peer',...] [queue',...]
//      one Receive(vector, i_out, sched, 0); queue = buf_mpz of a sender, values separated by ';' ('-' = empty);
//      bcur = aio_schedule_buffer; m = contents of the caller's vector before / after
// Whole-scenario facts for the predicate pred_c13b:
//   prop.aio2.link cls auth enc chunked tamper goodprefix [sent] => [got]
//   prop.aio2.nbq auth enc chunked cap sleeps [sent] => [got]            (every Send had time: nothing may be lost)
//   prop.aio2.timeout auth enc chunked cap stage partialbytes [accepted] => [got] fails
//        (one Send timed out in `stage` after `partialbytes` of its bytes; accepted = values whose Send returned true)
//   prop.aio2.peers cls auth enc chunked sched tamperlink goodprefix [sent0] [sent1] [sent2] => [got0] [got1] [got2]
//   prop.aio2.reflect cls auth enc chunked => delivered:<v> | refused     (own message fed back as the peer's)
//   prop.aio2.twodir cls auth enc chunked => same | differ     (wire bytes of the same value, first message, A->B vs B->A)
//   prop.aio2.equalmsgs cls auth enc chunked => same | differ  (wire bytes of the same value sent twice on one link)
//   prop.aio2.array cls auth enc chunked [sizes] [sent] => [got] rets
//   prop.aio2.arrays cls auth enc chunked sched npeers tamperlink goodarrays sent0 [sent1 sent2] => got0 [got1 got2]
//        arrays of a peer: a1;a2|b1|e  ('|' between arrays, 'e' = empty array, 'none' = no array); the receiver asks for
//        the size of the next array it expects (2 parties) resp. for the common size (3 parties)
//   prop.aio2.arraymix kind cls auth enc chunked detail => outcome     (fixed call sequences, see scenario_arraymix;
//        sendrefused: detail = send1:r,send2:r <arrays whose Send returned true> => <arrays received>)
//   prop.aio2.runaway auth enc chunked cap => send-loop-made-no-progress   (a Send needed more than 20000 write calls)
//   prop.aio2.exercised sleeps partials timeouts forced => ok | NOT-EXERCISED
#include "common.hh"
#include <unistd.h>
#include <fcntl.h>
#include <errno.h>
#include <signal.h>
#include <time.h>
#include <sys/time.h>
#include <sys/ioctl.h>
#include <sys/syscall.h>
#include <memory>
#include <map>
#include <type_traits>
#include <aiounicast_select.hh>
#include <aiounicast_nonblock.hh>

namespace aio2 {

// ------------------------------------------------------------------ the simulated link of the non-blocking sender
struct SimLink {
	std::string q, all;          // accepted and not yet taken / everything accepted so far
	size_t cap = 1 << 20;
	SplitMix *g = nullptr; int drain_style = 0; // 0: everything, 1: random amount >= 1, 2: one byte, 3: up to 40
	std::vector<size_t> drains;  // amounts taken at the sleeps of the current Send
	struct Call { size_t len, k; }; std::vector<Call> calls;
	size_t force_at = 0; bool forced = false; // from the force_at-th write call of this Send on, an incomplete write makes the clock run out
	size_t sleeps = 0, partials = 0; bool runaway = false;
};
static std::map<int, SimLink*> g_sim;
static void spin_until_tick() { time_t t0 = time(NULL); while (time(NULL) == t0) usleep(200); }
static void on_alarm(int) {}
static void timer_on(bool on)
{
	// the library answers EAGAIN with sleep(1); a periodic signal cuts that sleep short
	struct sigaction sa; memset(&sa, 0, sizeof sa); sa.sa_handler = on ? on_alarm : SIG_DFL; sa.sa_flags = SA_RESTART; sigemptyset(&sa.sa_mask);
	struct itimerval tv; memset(&tv, 0, sizeof tv); if (on) { tv.it_interval.tv_usec = 300; tv.it_value.tv_usec = 300; }
	if (on) { sigaction(SIGALRM, &sa, NULL); setitimer(ITIMER_REAL, &tv, NULL); } else { setitimer(ITIMER_REAL, &tv, NULL); sigaction(SIGALRM, &sa, NULL); }
}
static ssize_t sim_write(SimLink &L, const void *buf, size_t n)
{
	size_t fr = L.cap > L.q.size() ? L.cap - L.q.size() : 0, k = std::min(n, fr);
	if (L.calls.size() >= 20000) { k = n; L.runaway = true; } // a correct sender needs < 2 * len + 3 calls: let a run-away one finish
	L.calls.push_back({n, k});
	bool force = L.force_at && L.calls.size() >= L.force_at && !L.forced;
	if (k == 0 && n > 0) {
		size_t d = L.q.size();
		if (L.drain_style == 1) d = 1 + L.g->below(std::max<size_t>(1, L.q.size()));
		else if (L.drain_style == 2) d = 1;
		else if (L.drain_style == 3) d = 1 + L.g->below(40);
		L.drains.push_back(d); L.q.erase(0, std::min(d, L.q.size())); L.sleeps++;
		if (force) { L.forced = true; spin_until_tick(); }
		errno = EAGAIN; return -1;
	}
	L.q.append((const char*)buf, k); L.all.append((const char*)buf, k);
	if (k < n) { L.partials++; if (force) { L.forced = true; spin_until_tick(); } }
	return (ssize_t)k;
}

} // namespace aio2

extern "C" ssize_t write(int fd, const void *buf, size_t n)
{
	if (!aio2::g_sim.empty()) { auto it = aio2::g_sim.find(fd); if (it != aio2::g_sim.end()) return aio2::sim_write(*it->second, buf, n); }
	return syscall(SYS_write, fd, buf, n);
}

// every channel object derives 2-3 keys per peer with 25000 PBKDF2 iterations; the derivation is a pure function
// of its arguments, so it is answered from a memo table (the same few pass phrases recur in every scenario)
#include <dlfcn.h>
#include <tuple>
extern "C" gpg_error_t gcry_kdf_derive(const void *pass, size_t passlen, int algo, int subalgo, const void *salt, size_t saltlen, unsigned long iter, size_t keysize, void *key)
{
	typedef gpg_error_t (*fn_t)(const void*, size_t, int, int, const void*, size_t, unsigned long, size_t, void*);
	static fn_t real = (fn_t)dlsym(RTLD_NEXT, "gcry_kdf_derive");
	typedef std::tuple<std::string, int, int, std::string, unsigned long, size_t> K;
	static thread_local std::map<K, std::string> memo;
	K k(std::string((const char*)pass, passlen), algo, subalgo, std::string((const char*)salt, saltlen), iter, keysize);
	auto it = memo.find(k);
	if (it != memo.end()) { memcpy(key, it->second.data(), keysize); return 0; }
	gpg_error_t e = real(pass, passlen, algo, subalgo, salt, saltlen, iter, keysize, key);
	if (!e && memo.size() < 4096) memo[k] = std::string((const char*)key, keysize);
	return e;
}

namespace aio2 {

static const size_t BIG = 1000000;
static std::string mac_log(bool verify_side)
{
	std::string r = "[";
	for (auto &m : cryptolog.macs) { if ((m.verify >= 0) != verify_side) continue; if (r.size() > 1) r += ","; r += hexs(m.input) + ":" + hexs(m.tag); if (verify_side) r += std::string(":") + (m.verify ? "01" : "00"); }
	return r + "]";
}
static std::string cipher_log(bool enc)
{
	std::string r = "[";
	for (auto &c : cryptolog.ciphers) { if (c.encrypt != enc) continue; if (r.size() > 1) r += ","; r += hexs(c.in) + ":" + hexs(c.out); }
	return r + "]";
}
static void set_nonblock(int fd) { int fl = fcntl(fd, F_GETFL); fcntl(fd, F_SETFL, fl | O_NONBLOCK); }
static std::string drain_fd(int fd) { std::string r; char b[8192]; for (;;) { ssize_t k = read(fd, b, sizeof b); if (k <= 0) break; r.append(b, k); } return r; }
static size_t pending_in(int fd) { int n = 0; ioctl(fd, FIONREAD, &n); return (size_t)n; }

struct Pipes { // all descriptors of a scenario; every read end non-blocking for the harness' own reads
	std::vector<int> fds;
	void mk(int p[2], bool nb_both) { if (pipe(p)) abort(); fds.push_back(p[0]); fds.push_back(p[1]); if (nb_both) { set_nonblock(p[0]); set_nonblock(p[1]); } }
	~Pipes() { for (int f : fds) close(f); }
};

struct Md { bool nb, auth, enc, chunked; bool ctr() const { return !nb && enc && chunked; }
	std::string cls() const { return nb ? "nonblock" : "select"; }
	std::string bits() const { return std::string(auth ? "1 " : "0 ") + (enc ? "1 " : "0 ") + (chunked ? "1" : "0"); } };

static aiounicast *mk_obj(const Md &md, size_t n, size_t j, const std::vector<int> &in, const std::vector<int> &out, const std::vector<std::string> &keys)
{
	if (md.nb) return new aiounicast_nonblock(n, j, in, out, keys, aiounicast::aio_scheduler_direct, aiounicast::aio_timeout_extremely_short, md.auth, md.enc, md.chunked);
	return new aiounicast_select(n, j, in, out, keys, aiounicast::aio_scheduler_direct, aiounicast::aio_timeout_extremely_short, md.auth, md.enc, md.chunked);
}

// ------------------------------------------------------------------ private state
struct RxS { std::string buf; bool flag, ivseen; std::string sqn, chunkin; };
template <class T> static RxS rx_state_t(T *b, size_t i, const Md &md)
{
	RxS s; s.buf.assign((const char*)b->buf_in[i], b->buf_ptr[i]); s.flag = b->buf_flag[i];
	s.ivseen = md.enc ? (bool)b->iv_flag_in[i] : false; s.sqn = md.auth ? zs(b->mac_sqn_in[i]) : "1"; s.chunkin = "0";
	if constexpr (std::is_same<T, aiounicast_select>::value) { if (md.enc && md.chunked) s.chunkin = zs(b->chunk_in[i]); }
	return s;
}
static RxS rx_state(aiounicast *o, size_t i, const Md &md) { return md.nb ? rx_state_t((aiounicast_nonblock*)o, i, md) : rx_state_t((aiounicast_select*)o, i, md); }
struct TxS { bool ivsent; std::string sqn, chunkout, iv; };
template <class T> static TxS tx_state_t(T *a, size_t i, const Md &md)
{
	TxS s; s.ivsent = md.enc ? (bool)a->iv_flag_out[i] : false; s.sqn = md.auth ? zs(a->mac_sqn_out[i]) : "1"; s.chunkout = "0";
	s.iv = md.enc ? hexs(a->iv_out[i], a->blklen) : "-";
	if constexpr (std::is_same<T, aiounicast_select>::value) { if (md.enc && md.chunked) s.chunkout = zs(a->chunk_out[i]); }
	return s;
}
static TxS tx_state(aiounicast *o, size_t i, const Md &md) { return md.nb ? tx_state_t((aiounicast_nonblock*)o, i, md) : tx_state_t((aiounicast_select*)o, i, md); }
static size_t sched_cur(aiounicast *o, const Md &md) { return md.nb ? ((aiounicast_nonblock*)o)->aio_schedule_current : ((aiounicast_select*)o)->aio_schedule_current; }

static size_t est_of(mpz_srcptr m, bool enc)
{
	Z t; mpz_set(t, m); if (enc) { Z h; mpz_set_ui(h, 1); mpz_mul_2exp(h, h, TMCG_AIO_HIDE_SIZE); mpz_add(t, t, h); }
	return mpz_sizeinbase(t, 62);
}
static bool near_limit(mpz_srcptr m, bool enc) { size_t e = est_of(m, enc); return e >= 2040 && e <= 2052; } // mpz_sizeinbase decides there: recorded in est, but keep the summary lines off it

static void gen_msg(mpz_ptr v, SplitMix &g, bool enc, bool small)
{
	switch (g.below(small ? 6 : 9)) {
	case 0: mpz_set_ui(v, 0); break;
	case 1: mpz_set_ui(v, 1 + g.below(100)); break;
	case 2: gen_bits(v, g, 1 + g.below(64)); if (!enc || g.below(4) == 0) mpz_neg(v, v); break; // negatives: refused by Send when encrypted
	case 3: mpz_set_ui(v, 1); mpz_mul_2exp(v, v, 256); if (g.coin()) mpz_sub_ui(v, v, 1); break;
	case 4: mpz_set_ui(v, 4242424242UL); break;
	case 5: gen_bits(v, g, 1 + g.below(300)); break;
	case 6: gen_bits(v, g, 1 + g.below(2048)); break;
	case 7: gen_bits(v, g, 5000 + g.below(9000)); break; // around / beyond the size limit
	default: gen_bits(v, g, 60 + g.below(40)); break; // 16-digit neighbourhood: padding boundary of the chunked mode
	}
}

// ------------------------------------------------------------------ a two-party channel A -> B with the harness in between
struct Chan {
	Pipes ps; int a2h[2], h2b[2], dummy[6][2]; Md md; SimLink sim;
	std::unique_ptr<aiounicast> A, B; size_t enc_calls = 0, dec_calls = 0; std::string shadow; // shadow: bytes in A's MAC handle
	std::string in_pipe; // bytes in h2b not yet read by B
	Chan(const Md &m, size_t cap = 1 << 20) : md(m)
	{
		ps.mk(a2h, md.nb); ps.mk(h2b, md.nb); for (auto &d : dummy) ps.mk(d, md.nb);
		set_nonblock(a2h[0]); set_nonblock(dummy[4][0]);
		std::vector<int> ain = { dummy[0][0], dummy[1][0] }, aout = { dummy[2][1], a2h[1] };
		std::vector<int> bin = { h2b[0], dummy[3][0] }, bout = { dummy[4][1], dummy[5][1] };
		std::vector<std::string> kA = { "self", "shared-0-1" }, kB = { "shared-0-1", "self" };
		A.reset(mk_obj(md, 2, 0, ain, aout, kA)); B.reset(mk_obj(md, 2, 1, bin, bout, kB));
		sim.cap = cap; if (md.nb) g_sim[a2h[1]] = &sim;
	}
	~Chan() { if (md.nb) g_sim.erase(a2h[1]); A.reset(); B.reset(); }
};

struct SendRes { bool ret; std::string wire; std::string stage; size_t partial; };
// one Send of A to party 1, recorded.  timeout: 0 | 1 (forced expiry at write call `force_at`) | BIG
static SendRes do_send(Chan &ch, mpz_srcptr m, time_t timeout, size_t force_at, bool emit_line = true)
{
	const Md &md = ch.md; SendRes R; R.stage = "none"; R.partial = 0;
	TxS b = tx_state(ch.A.get(), 1, md); size_t est = est_of(m, md.enc);
	std::string open0 = ch.A->fd_out.count(1) ? "1 " : "0 ";
	cryptolog.clear();
	if (!md.nb) {
		R.ret = ch.A->Send(m, 1); R.wire = drain_fd(ch.a2h[0]);
		size_t nenc = 0; for (auto &c : cryptolog.ciphers) if (c.encrypt) nenc++;
		TxS a = tx_state(ch.A.get(), 1, md);
		if (emit_line) emit("aio2.send " + md.bits() + " " + open0 + (b.ivsent ? "1 " : "0 ") + b.sqn + " " + std::to_string(ch.enc_calls) + " " + b.chunkout + " " + zs(m) + " " + std::to_string(est) + " " + b.iv + " " + mac_log(false) + " " + cipher_log(true) +
			" => " + (R.ret ? "1 " + std::string(ch.A->fd_out.count(1) ? "1 " : "0 ") + (a.ivsent ? "1 " : "0 ") + a.sqn + " " + std::to_string(ch.enc_calls + nenc) + " " + a.chunkout + " " + hexs(R.wire) : std::string("0 ") + (ch.A->fd_out.count(1) ? "1" : "0")));
		if (R.ret) ch.enc_calls += nenc; // a refused Send of the model leaves the state alone; so does the library before the cipher call
		else if (nenc) ch.enc_calls += nenc;
		return R;
	}
	SimLink &L = ch.sim; std::string q0 = L.q; size_t all0 = L.all.size(); L.calls.clear(); L.drains.clear(); L.forced = false; L.force_at = force_at;
	size_t nw0 = ch.A->numWrite;
	if (timeout == 1) spin_until_tick();
	R.ret = ch.A->Send(m, 1, timeout == (time_t)BIG ? (time_t)BIG : timeout);
	L.force_at = 0;
	long long nw = (long long)(ch.A->numWrite - nw0);
	R.wire = L.all.substr(all0);
	size_t nenc = 0; std::string ct; for (auto &c : cryptolog.ciphers) if (c.encrypt) { nenc++; ct = c.out; }
	// the write loops of this Send
	std::vector<std::vector<SimLink::Call> > loops;
	for (auto &c : L.calls) { if (loops.empty() || (!loops.back().empty() && loops.back().back().k == loops.back().back().len)) loops.push_back({}); loops.back().push_back(c); }
	auto fuel_of = [&](size_t idx) -> size_t { if (timeout == 0) return 1; if (idx < loops.size() && loops[idx].back().k != loops[idx].back().len) return loops[idx].size(); return BIG; };
	bool has_iv = md.enc && !b.ivsent; size_t idx = 0; size_t fiv = BIG, fbody, fmac = BIG;
	if (timeout == 0) fiv = fmac = 1;
	size_t iv_idx = (size_t)-1, body_idx, mac_idx = (size_t)-1;
	if (has_iv) { iv_idx = idx; fiv = fuel_of(idx++); } body_idx = idx; fbody = fuel_of(idx++); if (md.auth) { mac_idx = idx; fmac = fuel_of(idx++); }
	auto incomplete = [&](size_t i) { return i < loops.size() && loops[i].back().k != loops[i].back().len; };
	if (!R.ret) { if (has_iv && incomplete(iv_idx)) R.stage = "iv"; else if (incomplete(body_idx)) R.stage = "body"; else if (md.auth && incomplete(mac_idx)) R.stage = "mac"; else R.stage = L.calls.empty() ? "refused" : "error"; R.partial = R.wire.size(); }
	// what is left in the MAC handle
	std::string shadow1 = ch.shadow;
	if (md.auth) {
		if (R.ret || R.stage == "mac") shadow1 = "";
		else if (R.stage == "body") {
			std::string body;
			if (!md.enc) { char *s = mpz_get_str(NULL, 62, m); body = s; free(s); }
			else { std::string raw = "+" + ct; Z e; mpz_import(e, raw.size(), 1, 1, 1, 0, raw.data()); char *s = mpz_get_str(NULL, 62, e); body = s; free(s); }
			shadow1 = ch.shadow + body + "\n";
		}
	}
	TxS a = tx_state(ch.A.get(), 1, md);
	std::string ds = "["; for (size_t i = 0; i < L.drains.size(); i++) { if (i) ds += ","; ds += std::to_string(L.drains[i]); } ds += "]";
	if (emit_line) emit("aio2.nbsend " + md.bits() + " " + open0 + (b.ivsent ? "1 " : "0 ") + b.sqn + " " + std::to_string(ch.enc_calls) + " " + hexs(ch.shadow) + " " + zs(m) + " " + std::to_string(est) + " " + b.iv + " " + hexs(q0) + " " + std::to_string(L.cap) +
		" " + std::to_string(fiv) + " " + std::to_string(fbody) + " " + std::to_string(fmac) + " " + ds + " " + mac_log(false) + " " + cipher_log(true) +
		" => " + (R.ret ? "1 " : "0 ") + (ch.A->fd_out.count(1) ? "1 " : "0 ") + (a.ivsent ? "1 " : "0 ") + a.sqn + " " + std::to_string(ch.enc_calls + nenc) + " " + hexs(shadow1) + " " + std::to_string(nw) + " " + hexs(R.wire) + " " + hexs(L.q) + " " + std::to_string(L.drains.size()));
	ch.enc_calls += nenc; ch.shadow = shadow1;
	return R;
}

// one Receive(direct, link 0, time-out 0) of B, recorded; res = value:<v> | fail | none
static std::string do_recv(Chan &ch, Z &m, bool emit_line = true)
{
	const Md &md = ch.md; size_t i_out = 0;
	RxS before = rx_state(ch.B.get(), 0, md); std::string pipe_before = ch.in_pipe;
	cryptolog.clear();
	bool ret = ch.B->Receive(m, i_out, aiounicast::aio_scheduler_direct, 0);
	size_t left = pending_in(ch.h2b[0]); size_t consumed = ch.in_pipe.size() - left; ch.in_pipe = ch.in_pipe.substr(consumed);
	size_t ndec = 0, ndec_any = 0; for (auto &cl : cryptolog.ciphers) if (!cl.encrypt) { ndec_any++; if (!cl.in.empty()) ndec++; }
	RxS after = rx_state(ch.B.get(), 0, md);
	std::string res;
	if (ret) res = "value:" + m.str();
	else {
		bool refused = ndec_any > 0; for (auto &ml : cryptolog.macs) if (ml.verify == 1) refused = true;
		if (!refused && after.buf.size() < before.buf.size() + consumed - ((md.enc && !before.ivseen && after.ivseen) ? 16 : 0)) refused = true;
		res = refused ? "fail" : "none";
	}
	if (emit_line) emit("aio2.recv " + md.cls() + " " + md.bits() + " 2 " + hexs(before.buf) + " " + (before.flag ? "1 " : "0 ") + (before.ivseen ? "1 " : "0 ") + before.sqn + " " + std::to_string(ch.dec_calls) + " " + before.chunkin + " " + hexs(pipe_before) + " " + mac_log(true) + " " + cipher_log(false) +
		" => " + hexs(after.buf) + " " + (after.flag ? "1 " : "0 ") + (after.ivseen ? "1 " : "0 ") + after.sqn + " " + std::to_string(ch.dec_calls + ndec) + " " + after.chunkin + " " + hexs(ch.in_pipe) + " " + res);
	ch.dec_calls += ndec;
	return res;
}

// feed `wire` to B under a fragmentation schedule, B receiving in between; false: step limit
static bool relay(Chan &ch, const std::string &wire, SplitMix &g, int style, std::vector<Z> &got, size_t &fails_total, bool emit_lines = true)
{
	size_t pushed = 0, idle = 0, fails = 0, guard = 0;
	if (style == 0 && wire.size() > 160) style = 2;
	while (guard++ < 20000) {
		bool can_push = pushed < wire.size();
		if (can_push && (idle > 0 || g.below(3) != 0 || ch.in_pipe.empty())) {
			size_t k = (style == 0) ? 1 : (style == 1) ? wire.size() : (style == 2) ? 1 + g.below(90) : 1 + g.below(900);
			if (g.below(11) == 0) k = 0; // empty push
			k = std::min(k, wire.size() - pushed);
			if (k && syscall(SYS_write, ch.h2b[1], wire.data() + pushed, k) != (ssize_t)k) return false;
			ch.in_pipe += wire.substr(pushed, k); pushed += k; idle = 0;
			if (g.coin()) continue;
		}
		Z m; std::string res = do_recv(ch, m, emit_lines);
		if (res[0] == 'v') { got.push_back(m); idle = 0; fails = 0; }
		else if (res == "fail") { fails++; fails_total++; } else idle++;
		if (!can_push && (fails >= 3 || idle >= 6 || (ch.in_pipe.empty() && idle >= 2))) return true; // a stuck link fails the same way for ever
	}
	return false;
}

static void scenario_link(uint64_t c, SplitMix &g)
{
	Md md; md.nb = c & 1; md.auth = c & 2; md.enc = c & 4; md.chunked = c & 8;
	Chan ch(md);
	size_t K = 1 + g.below(5); if (c % 16 >= 12 && g.below(3) == 0) K = 11 + g.below(3); // two-digit sequence numbers / chunk counters now and then
	bool small = K > 6 || g.below(3) == 0;
	std::vector<Z> sent; std::vector<std::string> wires; bool skip = false;
	for (size_t i = 0; i < K; i++) {
		Z m; gen_msg(m, g, md.enc, small); if (near_limit(m, md.enc)) { skip = true; }
		SendRes r = do_send(ch, m, (time_t)BIG, 0); ch.sim.q.clear(); // the receiving side takes everything at once here
		if (r.ret) { sent.push_back(m); wires.push_back(r.wire); }
		else if (!r.wire.empty()) emit("prop.aio2.partial-write " + std::to_string(r.wire.size()) + " => refused-send-wrote-bytes");
	}
	(void)skip;
	std::string wire; for (auto &w : wires) wire += w;
	int tamper = (c % 3 == 2) ? 1 + g.below(7) : 0; std::string tname = "none"; size_t first_bad = wire.size();
	if (wire.empty()) tamper = 0;
	if (tamper == 1) { size_t p = g.below(wire.size()); wire[p] ^= (1 << g.below(8)); first_bad = p; tname = "flip"; }
	else if (tamper == 2) { size_t p = g.below(wire.size() + 1); wire.insert(p, 1, (char)g.below(256)); first_bad = p; tname = "insert"; }
	else if (tamper == 3) { size_t p = g.below(wire.size()); wire.erase(p, 1); first_bad = p; tname = "delete"; }
	else if (tamper == 4 && wires.size() >= 2) { first_bad = wire.size(); wire += wires.back(); tname = "replay"; }
	else if (tamper == 5 && wires.size() >= 3) { std::string w; for (size_t i = 0; i + 2 < wires.size(); i++) w += wires[i]; first_bad = w.size(); w += wires[wires.size() - 1] + wires[wires.size() - 2]; wire = w; tname = "reorder"; }
	else if (tamper == 6 && wires.size() >= 2) { size_t k = g.below(wires.size() - 1); std::string w; for (size_t i = 0; i < wires.size(); i++) { if (i == k && !(md.enc && k == 0)) { first_bad = w.size(); continue; } w += wires[i]; } wire = w; tname = "remove"; }
	else if (tamper == 7 && md.enc && wire.size() > 16) { size_t p = g.below(16); wire[p] ^= (1 << g.below(8)); first_bad = p; tname = "flip-iv"; }
	else tamper = 0;
	std::vector<Z> got; size_t fails = 0;
	if (!relay(ch, wire, g, g.below(4), got, fails)) { emit("prop.aio2.harness-step-limit 0 => skipped"); return; }
	size_t good = 0; { size_t off = 0; for (size_t i = 0; i < wires.size(); i++) { off += wires[i].size(); if (off <= first_bad) good = i + 1; } }
	emit("prop.aio2.link " + md.cls() + " " + md.bits() + " " + tname + " " + std::to_string(good) + " " + zlist(sent.begin(), sent.end()) + " => " + zlist(got.begin(), got.end()));
}

// the non-blocking sender on a small queue.  kind 0: every Send has time; 1: one Send with time-out 0; 2: forced expiry
struct Exercised { size_t sleeps = 0, partials = 0, timeouts = 0, forced = 0; };
static void scenario_nbq(uint64_t c, SplitMix &g, int kind, Exercised &ex)
{
	uint64_t mb = (c / 4 + c) % 8; Md md; md.nb = true; md.auth = mb & 1; md.enc = mb & 2; md.chunked = mb & 4;
	static const size_t caps[] = { 1, 5, 16, 17, 33, 64, 100, 250, 1000 };
	size_t cap = caps[g.below(9)]; if (kind == 2) cap = caps[1 + g.below(4)];
	Chan ch(md, cap); ch.sim.g = &g; ch.sim.drain_style = g.below(4);
	size_t K = 2 + g.below(4), victim = (kind == 0) ? K : g.below(K - 1); // the victim is never the last message
	std::vector<Z> accepted; std::string stage = "none"; size_t partial = 0;
	timer_on(true);
	for (size_t i = 0; i < K; i++) {
		Z m; gen_msg(m, g, md.enc, g.below(4) != 0); if (md.enc && mpz_sgn(m) < 0) mpz_neg(m, m);
		if (near_limit(m, md.enc)) mpz_set_ui(m, 77);
		SendRes r;
		if (i == victim && kind == 1) r = do_send(ch, m, 0, 0);
		else if (i == victim && kind == 2) r = do_send(ch, m, 1, 1 + g.below(6));
		else r = do_send(ch, m, (time_t)BIG, 0);
		if (r.ret) accepted.push_back(m);
		else if (r.stage == "refused") continue; // too long: not accepted, nothing written
		else if (i == victim) { stage = r.stage; partial = r.partial; ex.timeouts++; if (ch.sim.forced) ex.forced++; }
		else emit("prop.aio2.unexpected-send-failure " + std::to_string(i) + " => " + r.stage);
	}
	timer_on(false);
	ex.sleeps += ch.sim.sleeps; ex.partials += ch.sim.partials;
	if (ch.sim.runaway) emit("prop.aio2.runaway " + md.bits() + " " + std::to_string(cap) + " => send-loop-made-no-progress");
	std::vector<Z> got; size_t fails = 0;
	if (!relay(ch, ch.sim.all, g, 1 + g.below(3), got, fails, kind == 0)) { emit("prop.aio2.harness-step-limit 1 => skipped"); return; }
	if (stage == "none")
		emit("prop.aio2.nbq " + md.bits() + " " + std::to_string(cap) + " " + std::to_string(ch.sim.sleeps) + " " + zlist(accepted.begin(), accepted.end()) + " => " + zlist(got.begin(), got.end()));
	else
		emit("prop.aio2.timeout " + md.bits() + " " + std::to_string(cap) + " " + stage + " " + std::to_string(partial) + " " + zlist(accepted.begin(), accepted.end()) + " => " + zlist(got.begin(), got.end()) + " " + std::to_string(fails));
}

// the finding in its smallest form: room for 3 bytes, Send(123456, time-out 0) returns false with "123" on the link,
// Send(789) returns true; the receiver of a plain link then delivers 123789, an authenticated link is dead
static void scenario_fixed_timeout(bool auth, SplitMix &g, Exercised &ex)
{
	Md md; md.nb = true; md.auth = auth; md.enc = false; md.chunked = false;
	Chan ch(md, 3); ch.sim.g = &g; ch.sim.drain_style = 0;
	std::vector<Z> accepted; timer_on(true);
	Z a("123456"), b("789"), c("5");
	SendRes r1 = do_send(ch, a, 0, 0); ex.timeouts++;
	SendRes r2 = do_send(ch, b, (time_t)BIG, 0); if (r2.ret) accepted.push_back(b);
	SendRes r3 = do_send(ch, c, (time_t)BIG, 0); if (r3.ret) accepted.push_back(c);
	timer_on(false);
	std::vector<Z> got; size_t fails = 0;
	if (!relay(ch, ch.sim.all, g, 1, got, fails, true)) return;
	emit("prop.aio2.timeout " + md.bits() + " 3 " + (r1.ret ? "none" : r1.stage) + " " + std::to_string(r1.partial) + " " + zlist(accepted.begin(), accepted.end()) + " => " + zlist(got.begin(), got.end()) + " " + std::to_string(fails));
}

// plain link, full queue: Send(456, time-out 0) meets EAGAIN, writes nothing and returns false; nothing is out of step,
// the link stays open and the later Send succeeds
static void scenario_fixed_zero(SplitMix &g, Exercised &ex)
{
	Md md; md.nb = true; md.auth = false; md.enc = false; md.chunked = false;
	Chan ch(md, 3); ch.sim.g = &g; ch.sim.drain_style = 0;
	std::vector<Z> accepted; timer_on(true);
	Z a("123"), b("456"), c("789");
	SendRes r1 = do_send(ch, a, (time_t)BIG, 0); if (r1.ret) accepted.push_back(a); // "1z\n" fills the queue
	SendRes r2 = do_send(ch, b, 0, 0); ex.timeouts++; if (r2.ret) accepted.push_back(b);
	SendRes r3 = do_send(ch, c, (time_t)BIG, 0); if (r3.ret) accepted.push_back(c);
	timer_on(false);
	std::vector<Z> got; size_t fails = 0;
	if (!relay(ch, ch.sim.all, g, 1, got, fails, true)) return;
	emit("prop.aio2.timeout " + md.bits() + " 3 " + (r2.ret ? "none" : r2.stage) + " " + std::to_string(r2.partial) + " " + zlist(accepted.begin(), accepted.end()) + " => " + zlist(got.begin(), got.end()) + " " + std::to_string(fails));
	if (!ch.A->fd_out.count(1) || !r3.ret) emit("prop.aio2.unexpected-send-failure 2 => closed-after-empty-timeout");
}

// three peers behind one receiving object
static void scenario_peers(uint64_t c, SplitMix &g)
{
	Md md; md.nb = c & 1; md.auth = c & 2; md.enc = c & 4; md.chunked = (c % 16) >= 8 && !(c & 1);
	const size_t n = 3; int sched = (c / 2) % 3; // 0 rr, 1 rnd, 2 direct
	static const char *sn[] = { "rr", "rnd", "direct" };
	Pipes ps; int pin[3][2], rout[3][2], sin_[3][3][2], sout[3][3][2];
	for (size_t i = 0; i < n; i++) { ps.mk(pin[i], true); ps.mk(rout[i], true); for (size_t k = 0; k < n; k++) { ps.mk(sin_[i][k], true); ps.mk(sout[i][k], true); } }
	std::vector<int> rin, ro; for (size_t i = 0; i < n; i++) { rin.push_back(pin[i][0]); ro.push_back(rout[i][1]); }
	std::vector<std::string> rk = { "k-00", "k-01", "k-02" };
	std::unique_ptr<aiounicast> R(mk_obj(md, n, 0, rin, ro, rk)), S[3];
	for (size_t i = 1; i < n; i++) {
		std::vector<int> si, so; for (size_t k = 0; k < n; k++) { si.push_back(sin_[i][k][0]); so.push_back(sout[i][k][1]); }
		std::vector<std::string> sk = { rk[i], "x-" + std::to_string(i), "y-" + std::to_string(i) };
		S[i].reset(mk_obj(md, n, i, si, so, sk));
	}
	// the messages: peer 0 is the object itself (Send(m, 0) into its own input link)
	std::vector<Z> sent[3]; std::string wire[3]; std::vector<size_t> ends[3];
	for (size_t i = 0; i < n; i++) {
		size_t K = g.below(5); if (i == 1 && K == 0) K = 2;
		for (size_t k = 0; k < K; k++) {
			Z m; gen_msg(m, g, md.enc, true); if (md.enc && mpz_sgn(m) < 0) mpz_neg(m, m);
			bool ok = (i == 0) ? R->Send(m, 0) : S[i]->Send(m, 0);
			std::string w = drain_fd(i == 0 ? rout[0][0] : sout[i][0][0]);
			if (ok) { sent[i].push_back(m); wire[i] += w; ends[i].push_back(wire[i].size()); }
		}
	}
	int tl = -1; size_t good = 0;
	if (c % 5 == 4) { tl = g.below(3); if (wire[tl].empty()) tl = -1; else { size_t p = g.below(wire[tl].size()); wire[tl][p] ^= (1 << g.below(8)); for (size_t e : ends[tl]) if (e <= p) good++; } }
	std::string in_pipe[3]; size_t pushed[3] = { 0, 0, 0 }; std::vector<Z> got[3]; size_t calls[3] = { 0, 0, 0 };
	size_t idle = 0, guard = 0, quiet = 0; bool limit = true;
	coins.log = true; coins.take();
	while (guard++ < 4000) {
		bool can_push = false; for (size_t i = 0; i < n; i++) if (pushed[i] < wire[i].size()) can_push = true;
		if (can_push && (idle > 0 || g.below(3) != 0)) {
			size_t i = g.below(n); for (size_t t = 0; t < n && pushed[i] >= wire[i].size(); t++) i = (i + 1) % n;
			size_t k = g.below(8) == 0 ? 0 : (g.coin() ? 1 + g.below(12) : 1 + g.below(200)); k = std::min(k, wire[i].size() - pushed[i]);
			if (k && syscall(SYS_write, pin[i][1], wire[i].data() + pushed[i], k) != (ssize_t)k) break;
			in_pipe[i] += wire[i].substr(pushed[i], k); pushed[i] += k; idle = 0;
			if (g.coin()) continue;
		}
		size_t idir = can_push ? g.below(n) : guard % n, i_out = (sched == 2) ? idir : 99; size_t sc = sched == 0 ? aiounicast::aio_scheduler_roundrobin : sched == 1 ? aiounicast::aio_scheduler_random : aiounicast::aio_scheduler_direct;
		std::string before = "["; RxS bs[3];
		for (size_t i = 0; i < n; i++) { bs[i] = rx_state(R.get(), i, md); before += std::string(i ? "," : "") + hexs(bs[i].buf) + ":" + (bs[i].flag ? "1:" : "0:") + (bs[i].ivseen ? "1:" : "0:") + bs[i].sqn + ":" + std::to_string(calls[i]) + ":" + bs[i].chunkin + ":" + hexs(in_pipe[i]); }
		before += "]"; size_t cur0 = sched_cur(R.get(), md);
		cryptolog.clear(); coins.take();
		Z m; bool ret = R->Receive(m, i_out, sc, 0);
		std::vector<uint64_t> words = coin_words(coins.take());
		size_t ndec = 0, ndec_any = 0; for (auto &cl : cryptolog.ciphers) if (!cl.encrypt) { ndec_any++; if (!cl.in.empty()) ndec++; }
		bool refused = false; size_t consumed_on_iout = 0;
		std::string after = "[";
		for (size_t i = 0; i < n; i++) {
			size_t left = pending_in(pin[i][0]), consumed = in_pipe[i].size() - left; in_pipe[i] = in_pipe[i].substr(consumed);
			RxS as = rx_state(R.get(), i, md); if (i == i_out) { calls[i] += ndec; consumed_on_iout = consumed; if (!ret && as.buf.size() < bs[i].buf.size() + consumed - ((md.enc && !bs[i].ivseen && as.ivseen) ? 16 : 0)) refused = true; }
			after += std::string(i ? "," : "") + hexs(as.buf) + ":" + (as.flag ? "1:" : "0:") + (as.ivseen ? "1:" : "0:") + as.sqn + ":" + std::to_string(calls[i]) + ":" + as.chunkin + ":" + hexs(in_pipe[i]);
		}
		after += "]"; (void)consumed_on_iout;
		if (ndec_any) refused = true; for (auto &ml : cryptolog.macs) if (ml.verify == 1) refused = true;
		std::string res = ret ? "value:" + m.str() : (refused && i_out < n) ? "fail" : "none";
		emit("aio2.recvn " + md.cls() + " " + md.bits() + " 3 " + sn[sched] + " " + std::to_string(cur0) + " " + std::to_string(idir) + " " + ulist(words) + " " + before + " " + mac_log(true) + " " + cipher_log(false) +
			" => " + std::to_string(sched_cur(R.get(), md)) + " " + std::to_string(words.size()) + " " + std::to_string(i_out) + " " + res + " " + after);
		if (ret && i_out < n) { got[i_out].push_back(m); idle = 0; quiet = 0; }
		else { quiet++; if (res != "fail") idle++; }
		if (!can_push && quiet >= 15) { limit = false; break; } // a stuck link keeps failing; the others must still be served
	}
	coins.log = false; coins.take();
	if (limit) { emit("prop.aio2.harness-step-limit 2 => skipped"); return; }
	emit("prop.aio2.peers " + md.cls() + " " + md.bits() + " " + sn[sched] + " " + std::to_string(tl) + " " + std::to_string(good) + " " + zlist(sent[0].begin(), sent[0].end()) + " " + zlist(sent[1].begin(), sent[1].end()) + " " + zlist(sent[2].begin(), sent[2].end()) +
		" => " + zlist(got[0].begin(), got[0].end()) + " " + zlist(got[1].begin(), got[1].end()) + " " + zlist(got[2].begin(), got[2].end()));
}


// ------------------------------------------------------------------ integer arrays
template <class T> static std::string queues_t(T *o, size_t n)
{
	std::string r = "[";
	for (size_t i = 0; i < n; i++) { if (i) r += ","; if (o->buf_mpz[i].empty()) r += "-"; else { bool f = true; for (mpz_ptr v : o->buf_mpz[i]) { if (!f) r += ";"; f = false; r += zs(v); } } }
	return r + "]";
}
static std::string queues_str(aiounicast *o, const Md &md, size_t n) { return md.nb ? queues_t((aiounicast_nonblock*)o, n) : queues_t((aiounicast_select*)o, n); }
static size_t queue_len(aiounicast *o, const Md &md, size_t i) { return md.nb ? ((aiounicast_nonblock*)o)->buf_mpz[i].size() : ((aiounicast_select*)o)->buf_mpz[i].size(); }
static size_t sched_buf(aiounicast *o, const Md &md) { return md.nb ? ((aiounicast_nonblock*)o)->aio_schedule_buffer : ((aiounicast_select*)o)->aio_schedule_buffer; }

struct RecvCtx { aiounicast *R; Md md; size_t n; std::vector<int> rfd; std::vector<std::string> in_pipe; std::vector<size_t> calls; };
static std::string peers_str(RecvCtx &cx)
{
	std::string r = "[";
	for (size_t i = 0; i < cx.n; i++) { RxS b = rx_state(cx.R, i, cx.md); r += std::string(i ? "," : "") + hexs(b.buf) + ":" + (b.flag ? "1:" : "0:") + (b.ivseen ? "1:" : "0:") + b.sqn + ":" + std::to_string(cx.calls[i]) + ":" + b.chunkin + ":" + hexs(cx.in_pipe[i]); }
	return r + "]";
}
static const char *sched_name[] = { "rr", "rnd", "direct" };
static size_t sched_const(int sched) { return sched == 0 ? aiounicast::aio_scheduler_roundrobin : sched == 1 ? aiounicast::aio_scheduler_random : aiounicast::aio_scheduler_direct; }
static void sync_pipes(RecvCtx &cx) { for (size_t i = 0; i < cx.n; i++) { size_t left = pending_in(cx.rfd[i]); cx.in_pipe[i] = cx.in_pipe[i].substr(cx.in_pipe[i].size() - left); } }

// one Receive(vector of k values, i_out, sched, 0), recorded
static bool do_recvarr(RecvCtx &cx, int sched, size_t idir, size_t k, size_t &i_out, std::vector<Z> &vals)
{
	const Md &md = cx.md; size_t n = cx.n;
	std::vector<Z> arr(k); std::vector<mpz_ptr> ptrs; for (auto &x : arr) ptrs.push_back(x);
	std::string peers0 = peers_str(cx), q0 = queues_str(cx.R, md, n); size_t cur0 = sched_cur(cx.R, md), b0 = sched_buf(cx.R, md);
	std::vector<size_t> ql0(n); for (size_t i = 0; i < n; i++) ql0[i] = queue_len(cx.R, md, i);
	std::string m0 = zlist(arr.begin(), arr.end());
	i_out = (sched == 2) ? idir : 99;
	cryptolog.clear(); coins.take();
	bool ret = cx.R->Receive(ptrs, i_out, sched_const(sched), 0);
	std::vector<uint64_t> words = coin_words(coins.take());
	size_t ndec = 0; for (auto &cl : cryptolog.ciphers) if (!cl.encrypt && !cl.in.empty()) ndec++;
	sync_pipes(cx);
	if (ndec) { bool done = false; for (size_t i = 0; i < n && !done; i++) if (queue_len(cx.R, md, i) > ql0[i]) { cx.calls[i] += ndec; done = true; } if (!done && !ret && i_out < n) cx.calls[i_out] += ndec; }
	emit("aio2.recvarr " + md.cls() + " " + md.bits() + " " + std::to_string(n) + " " + sched_name[sched] + " " + std::to_string(cur0) + " " + std::to_string(b0) + " " + std::to_string(idir) + " " + ulist(words) + " " + peers0 + " " + q0 + " " + m0 + " " + mac_log(true) + " " + cipher_log(false) +
		" => " + std::to_string(sched_cur(cx.R, md)) + " " + std::to_string(sched_buf(cx.R, md)) + " " + std::to_string(words.size()) + " " + std::to_string(i_out) + " " + (ret ? "1 " : "0 ") + zlist(arr.begin(), arr.end()) + " " + peers_str(cx) + " " + queues_str(cx.R, md, n));
	vals = arr;
	return ret;
}
// one single-value Receive on an object with queues (for the mixing scenarios; recorded as aio2.recvn)
static bool do_recv1(RecvCtx &cx, int sched, size_t idir, size_t &i_out, Z &v)
{
	const Md &md = cx.md; size_t n = cx.n;
	std::string peers0 = peers_str(cx); size_t cur0 = sched_cur(cx.R, md);
	i_out = (sched == 2) ? idir : 99; cryptolog.clear(); coins.take();
	bool ret = cx.R->Receive(v, i_out, sched_const(sched), 0);
	std::vector<uint64_t> words = coin_words(coins.take());
	size_t ndec = 0, ndec_any = 0; for (auto &cl : cryptolog.ciphers) if (!cl.encrypt) { ndec_any++; if (!cl.in.empty()) ndec++; }
	std::vector<size_t> bl0(n); (void)bl0;
	sync_pipes(cx); if (i_out < n) cx.calls[i_out] += ndec;
	bool refused = ndec_any > 0; for (auto &ml : cryptolog.macs) if (ml.verify == 1) refused = true;
	std::string res = ret ? "value:" + v.str() : (refused && i_out < n) ? "fail" : "none";
	emit("aio2.recvn " + md.cls() + " " + md.bits() + " " + std::to_string(n) + " " + sched_name[sched] + " " + std::to_string(cur0) + " " + std::to_string(idir) + " " + ulist(words) + " " + peers0 + " " + mac_log(true) + " " + cipher_log(false) +
		" => " + std::to_string(sched_cur(cx.R, md)) + " " + std::to_string(words.size()) + " " + std::to_string(i_out) + " " + res + " " + peers_str(cx));
	return ret;
}
static std::string arrays_token(const std::vector<std::vector<Z> > &as)
{
	if (as.empty()) return "none";
	std::string r; for (size_t a = 0; a < as.size(); a++) { if (a) r += "|"; if (as[a].empty()) r += "e"; for (size_t i = 0; i < as[a].size(); i++) { if (i) r += ";"; r += as[a][i].str(); } }
	return r;
}
// one Send(vector) of A to party 1, recorded
static bool do_sendarr(Chan &ch, const std::vector<Z> &arr, std::string &wire)
{
	const Md &md = ch.md; TxS b = tx_state(ch.A.get(), 1, md);
	std::string open0 = ch.A->fd_out.count(1) ? "1 " : "0 ";
	std::vector<mpz_srcptr> ptrs; std::vector<uint64_t> ests; for (auto &x : arr) { ptrs.push_back(x); ests.push_back(est_of(x, md.enc)); }
	if (!md.nb && md.chunked) { Z d("4242424242"); ests.push_back(est_of(d, md.enc)); }
	size_t all0 = ch.sim.all.size(); cryptolog.clear();
	bool ret = md.nb ? ch.A->Send(ptrs, 1, (time_t)BIG) : ch.A->Send(ptrs, 1);
	wire = md.nb ? ch.sim.all.substr(all0) : drain_fd(ch.a2h[0]); ch.sim.q.clear();
	size_t nenc = 0; for (auto &c : cryptolog.ciphers) if (c.encrypt) nenc++;
	TxS a = tx_state(ch.A.get(), 1, md);
	emit("aio2.sendarr " + md.cls() + " " + md.bits() + " " + open0 + (b.ivsent ? "1 " : "0 ") + b.sqn + " " + std::to_string(ch.enc_calls) + " " + b.chunkout + " " + hexs(ch.shadow) + " " + zlist(arr.begin(), arr.end()) + " " + ulist(ests) + " " + b.iv + " " + mac_log(false) + " " + cipher_log(true) +
		" => " + (ret ? "1 " : "0 ") + (ch.A->fd_out.count(1) ? "1 " : "0 ") + (a.ivsent ? "1 " : "0 ") + a.sqn + " " + std::to_string(ch.enc_calls + nenc) + " " + a.chunkout + " " + hexs(ch.shadow) + " " + hexs(wire));
	ch.enc_calls += nenc;
	return ret;
}
static void gen_elem(mpz_ptr v, SplitMix &g, bool enc)
{
	switch (g.below(5)) { case 0: mpz_set_ui(v, 4242424242UL); break; case 1: mpz_set_ui(v, g.below(100)); break; case 2: gen_bits(v, g, 1 + g.below(200)); break;
	case 3: gen_bits(v, g, 1 + g.below(40)); if (!enc) mpz_neg(v, v); break; default: mpz_set_ui(v, 1 + g.below(5)); break; }
}
static RecvCtx ctx_of(Chan &ch) { RecvCtx cx; cx.R = ch.B.get(); cx.md = ch.md; cx.n = 2; cx.rfd = { ch.h2b[0], ch.dummy[3][0] }; cx.in_pipe = { "", "" }; cx.calls = { 0, 0 }; return cx; }

// arrays on a two-party channel: every Send(vector) and every Receive(vector) recorded
static void scenario_arrays(uint64_t c, SplitMix &g)
{
	Md md; md.nb = c & 1; md.auth = c & 2; md.enc = c & 4; md.chunked = c & 8;
	Chan ch(md); RecvCtx cx = ctx_of(ch);
	size_t K = 1 + g.below(4); std::vector<std::vector<Z> > sent, got; std::string wire; std::vector<size_t> ends;
	for (size_t a = 0; a < K; a++) {
		size_t sz = g.below(5); std::vector<Z> arr(sz); for (auto &x : arr) gen_elem(x, g, md.enc);
		std::string w; if (do_sendarr(ch, arr, w)) { sent.push_back(arr); wire += w; ends.push_back(wire.size()); }
	}
	int tl = -1; size_t good = 0;
	if (c % 4 == 3 && !wire.empty()) { tl = 0; size_t p = g.below(wire.size()); if (g.coin()) wire[p] ^= (1 << g.below(8)); else wire.erase(p, 1 + g.below(40)); for (size_t e : ends) if (e <= p) good++; }
	size_t pushed = 0, quiet = 0, guard = 0; bool limit = true;
	coins.log = true; coins.take();
	while (guard++ < 3000) {
		bool can_push = pushed < wire.size();
		if (can_push && (quiet > 0 || g.below(3) != 0)) {
			size_t k = g.below(8) == 0 ? 0 : (g.coin() ? 1 + g.below(12) : 1 + g.below(300)); k = std::min(k, wire.size() - pushed);
			if (k && syscall(SYS_write, ch.h2b[1], wire.data() + pushed, k) != (ssize_t)k) break;
			cx.in_pipe[0] += wire.substr(pushed, k); pushed += k;
			if (g.coin()) continue;
		}
		size_t want = got.size() < sent.size() ? sent[got.size()].size() : 1, i_out; std::vector<Z> vals;
		if (do_recvarr(cx, 2, 0, want, i_out, vals)) { got.push_back(vals); quiet = 0; if (got.size() >= sent.size() + 2) { limit = false; break; } }
		else quiet++;
		if (!can_push && (quiet >= 12 || (got.size() == sent.size() && quiet >= 3))) { limit = false; break; }
	}
	coins.log = false; coins.take();
	if (limit) { emit("prop.aio2.harness-step-limit 3 => skipped"); return; }
	emit("prop.aio2.arrays " + md.cls() + " " + md.bits() + " direct 1 " + std::to_string(tl) + " " + std::to_string(good) + " " + arrays_token(sent) + " => " + arrays_token(got));
}

// arrays of a common size from three senders, the three schedulers
static void scenario_apeers(uint64_t c, SplitMix &g)
{
	Md md; md.nb = c & 1; md.auth = c & 2; md.enc = c & 4; md.chunked = (c % 16) >= 8;
	const size_t n = 3; int sched = (c / 2) % 3; size_t k = 1 + g.below(3);
	Pipes ps; int pin[3][2], rout[3][2], sin_[3][3][2], sout[3][3][2];
	for (size_t i = 0; i < n; i++) { ps.mk(pin[i], true); ps.mk(rout[i], true); for (size_t j = 0; j < n; j++) { ps.mk(sin_[i][j], true); ps.mk(sout[i][j], true); } }
	std::vector<int> rin, ro; for (size_t i = 0; i < n; i++) { rin.push_back(pin[i][0]); ro.push_back(rout[i][1]); }
	std::vector<std::string> rk = { "k-00", "k-01", "k-02" };
	std::unique_ptr<aiounicast> R(mk_obj(md, n, 0, rin, ro, rk)), S[3];
	for (size_t i = 1; i < n; i++) {
		std::vector<int> si, so; for (size_t j = 0; j < n; j++) { si.push_back(sin_[i][j][0]); so.push_back(sout[i][j][1]); }
		S[i].reset(mk_obj(md, n, i, si, so, { rk[i], "x-" + std::to_string(i), "y-" + std::to_string(i) }));
	}
	std::vector<std::vector<Z> > sent[3], got[3]; std::string wire[3]; std::vector<size_t> ends[3];
	for (size_t i = 0; i < n; i++) {
		size_t K = g.below(4); if (i == 1 && K == 0) K = 2;
		for (size_t a = 0; a < K; a++) {
			std::vector<Z> arr(k); std::vector<mpz_srcptr> ptrs; for (auto &x : arr) { gen_elem(x, g, md.enc); ptrs.push_back(x); }
			bool ok = (i == 0) ? R->Send(ptrs, 0) : S[i]->Send(ptrs, 0);
			std::string w = drain_fd(i == 0 ? rout[0][0] : sout[i][0][0]);
			if (ok) { sent[i].push_back(arr); wire[i] += w; ends[i].push_back(wire[i].size()); }
		}
	}
	int tl = -1; size_t good = 0;
	if (c % 5 == 4) { tl = g.below(3); if (wire[tl].empty()) tl = -1; else { size_t p = g.below(wire[tl].size()); wire[tl][p] ^= (1 << g.below(8)); for (size_t e : ends[tl]) if (e <= p) good++; } }
	RecvCtx cx; cx.R = R.get(); cx.md = md; cx.n = n; cx.rfd = { pin[0][0], pin[1][0], pin[2][0] }; cx.in_pipe = { "", "", "" }; cx.calls = { 0, 0, 0 };
	size_t pushed[3] = { 0, 0, 0 }, quiet = 0, guard = 0; bool limit = true;
	coins.log = true; coins.take();
	while (guard++ < 4000) {
		bool can_push = false; for (size_t i = 0; i < n; i++) if (pushed[i] < wire[i].size()) can_push = true;
		if (can_push && (quiet > 0 || g.below(3) != 0)) {
			size_t i = g.below(n); for (size_t t = 0; t < n && pushed[i] >= wire[i].size(); t++) i = (i + 1) % n;
			size_t kk = g.below(8) == 0 ? 0 : (g.coin() ? 1 + g.below(12) : 1 + g.below(200)); kk = std::min(kk, wire[i].size() - pushed[i]);
			if (kk && syscall(SYS_write, pin[i][1], wire[i].data() + pushed[i], kk) != (ssize_t)kk) break;
			cx.in_pipe[i] += wire[i].substr(pushed[i], kk); pushed[i] += kk;
			if (g.coin()) continue;
		}
		size_t idir = can_push ? g.below(n) : guard % n, i_out; std::vector<Z> vals;
		if (do_recvarr(cx, sched, idir, k, i_out, vals) && i_out < n) { got[i_out].push_back(vals); quiet = 0; }
		else quiet++;
		if (!can_push && quiet >= 40) { limit = false; break; }
	}
	coins.log = false; coins.take();
	if (limit) { emit("prop.aio2.harness-step-limit 4 => skipped"); return; }
	emit("prop.aio2.arrays " + md.cls() + " " + md.bits() + " " + sched_name[sched] + " 3 " + std::to_string(tl) + " " + std::to_string(good) + " " + arrays_token(sent[0]) + " " + arrays_token(sent[1]) + " " + arrays_token(sent[2]) +
		" => " + arrays_token(got[0]) + " " + arrays_token(got[1]) + " " + arrays_token(got[2]));
}

// fixed call sequences on an untampered link that mix the interfaces / refuse inside an array / ask for another size
static void scenario_arraymix(uint64_t c, SplitMix &g)
{
	Md md; md.nb = c & 1; md.auth = c & 2; md.enc = false; md.chunked = c & 4;
	auto feed = [&](Chan &ch, RecvCtx &cx, const std::string &w) { syscall(SYS_write, ch.h2b[1], w.data(), w.size()); cx.in_pipe[0] += w; };
	coins.log = true; coins.take();
	{ // (1) receiver: array call, single-value call, array call
		Chan ch(md); RecvCtx cx = ctx_of(ch); std::string w, all;
		for (long v = 1; v <= 3; v++) { Z x(v); SendRes r = do_send(ch, x, (time_t)BIG, 0); ch.sim.q.clear(); all += r.wire; }
		feed(ch, cx, all);
		size_t i_out; std::vector<Z> vals; Z one; std::string out;
		bool r1 = do_recvarr(cx, 2, 0, 2, i_out, vals);            // takes value 1 into the queue, returns false
		bool r2 = false; for (int t = 0; t < 3 && !r2; t++) r2 = do_recv1(cx, 2, 0, i_out, one); // returns value 2
		bool r3 = false; for (int t = 0; t < 4 && !r3; t++) r3 = do_recvarr(cx, 2, 0, 2, i_out, vals);
		out = std::string(r1 ? "array-at-once" : "") + "single:" + (r2 ? one.str() : "-") + " array:" + (r3 ? zlist(vals.begin(), vals.end()) : "-");
		emit("prop.aio2.arraymix recvmix " + md.cls() + " " + md.bits() + " sent:1,2,3 => " + out);
	}
	{ // (2) Send(vector) refused at its second element, then a complete array
		Chan ch(md); RecvCtx cx = ctx_of(ch); std::string w, all;
		std::vector<Z> a1(2), a2(2); mpz_set_ui(a1[0], 1); gen_bits(a1[1], g, 13000); mpz_setbit(a1[1], 12999); mpz_set_ui(a2[0], 2); mpz_set_ui(a2[1], 3);
		std::vector<std::vector<Z> > accepted, gotarrs;
		bool s1 = do_sendarr(ch, a1, w); all += w; if (s1) accepted.push_back(a1);
		bool s2 = do_sendarr(ch, a2, w); all += w; if (s2) accepted.push_back(a2);
		feed(ch, cx, all);
		size_t i_out; std::vector<Z> vals; for (int t = 0; t < 8; t++) if (do_recvarr(cx, 2, 0, 2, i_out, vals)) gotarrs.push_back(vals);
		emit("prop.aio2.arraymix sendrefused " + md.cls() + " " + md.bits() + " send1:" + (s1 ? "1" : "0") + ",send2:" + (s2 ? "1" : "0") + " " + arrays_token(accepted) + " => " + arrays_token(gotarrs));
	}
	{ // (3) the receiver asks for one value where the sender sent arrays [7,8] and [9]
		Chan ch(md); RecvCtx cx = ctx_of(ch); std::string w, all;
		std::vector<Z> a1(2), a2(1); mpz_set_ui(a1[0], 7); mpz_set_ui(a1[1], 8); mpz_set_ui(a2[0], 9);
		do_sendarr(ch, a1, w); all += w; do_sendarr(ch, a2, w); all += w;
		feed(ch, cx, all);
		std::string out; size_t i_out; std::vector<Z> vals;
		for (int t = 0; t < 14; t++) if (do_recvarr(cx, 2, 0, 1, i_out, vals)) out += zlist(vals.begin(), vals.end());
		emit("prop.aio2.arraymix othersize " + md.cls() + " " + md.bits() + " sent:[7,8],[9],asked:1 => " + (out.empty() ? "-" : out));
	}
	coins.log = false; coins.take();
}

// facts about the wire and the keys (no model lines)
static void scenario_misc(uint64_t c, SplitMix &g)
{
	Md md; md.nb = c & 1; md.auth = c & 2; md.enc = c & 4; md.chunked = c & 8;
	// (1) the own message fed back as if it came from the peer
	if (md.auth) {
		Chan ch(md); Z m; gen_bits(m, g, 100);
		SendRes r = do_send(ch, m, (time_t)BIG, 0, false);
		syscall(SYS_write, ch.dummy[1][1], r.wire.data(), r.wire.size());
		std::string res = "refused";
		for (int k = 0; k < 4; k++) { Z v; size_t i_out = 1; if (ch.A->Receive(v, i_out, aiounicast::aio_scheduler_direct, 0)) { res = "delivered:" + v.str(); break; } }
		emit("prop.aio2.reflect " + md.cls() + " " + md.bits() + " => " + res);
	}
	// (2) the same value as first message in both directions, (3) twice on the same link
	if (md.enc) {
		Chan ch(md); Z m; gen_bits(m, g, 100);
		SendRes r1 = do_send(ch, m, (time_t)BIG, 0, false);
		ch.B->Send(m, 0); std::string w2 = drain_fd(ch.dummy[4][0]);
		emit("prop.aio2.twodir " + md.cls() + " " + md.bits() + " => " + (r1.wire == w2 ? "same" : "differ"));
		SendRes r2 = do_send(ch, m, (time_t)BIG, 0, false), r3 = do_send(ch, m, (time_t)BIG, 0, false);
		emit("prop.aio2.equalmsgs " + md.cls() + " " + md.bits() + " => " + (r2.wire == r3.wire ? "same" : "differ"));
	}
	// (4) arrays
	{
		Chan ch(md); std::vector<size_t> sizes; std::vector<Z> sent, got; std::string rets;
		size_t na = 1 + g.below(3);
		for (size_t a = 0; a < na; a++) {
			size_t sz = 1 + g.below(4); sizes.push_back(sz); std::vector<Z> arr(sz); std::vector<mpz_srcptr> ptrs;
			for (auto &x : arr) { gen_msg(x, g, md.enc, true); if (md.enc && mpz_sgn(x) < 0) mpz_neg(x, x); ptrs.push_back(x); sent.push_back(x); }
			bool ok = ch.A->Send(ptrs, 1, (time_t)BIG); rets += ok ? "1" : "0";
		}
		std::string w = md.nb ? ch.sim.all : drain_fd(ch.a2h[0]);
		syscall(SYS_write, ch.h2b[1], w.data(), w.size());
		for (size_t a = 0; a < na; a++) {
			std::vector<Z> arr(sizes[a]); std::vector<mpz_ptr> ptrs; for (auto &x : arr) ptrs.push_back(x);
			size_t i_out = 0; bool ok = false; for (int k = 0; k < 40 && !ok; k++) { i_out = 0; ok = ch.B->Receive(ptrs, i_out, aiounicast::aio_scheduler_direct, 0); }
			rets += ok ? "1" : "0"; if (ok) for (auto &x : arr) got.push_back(x);
		}
		std::vector<uint64_t> sz64(sizes.begin(), sizes.end());
		emit("prop.aio2.array " + md.cls() + " " + md.bits() + " " + ulist(sz64) + " " + zlist(sent.begin(), sent.end()) + " => " + zlist(got.begin(), got.end()) + " " + rets);
	}
}

static int drv_aio2(const Opts &o)
{
	SplitMix g(o.seed ^ 0x61696f32);
	cryptolog.log = true; cryptolog.clear();
	Exercised ex;
	// --cases N: N link scenarios, N/2 queue scenarios, N/3 peer scenarios, 16 misc
	uint64_t N = o.cases;
	auto now = []() { struct timespec ts; clock_gettime(CLOCK_MONOTONIC, &ts); return ts.tv_sec + 1e-9 * ts.tv_nsec; };
	double t0 = now(); bool timing = getenv("AIO2_TIMING") != NULL;
	auto lap = [&](const char *what) { if (timing) { double t = now(); fprintf(stderr, "AIO2_TIMING %s %.2f\n", what, t - t0); t0 = t; } };
	for (uint64_t c = 0; c < N; c++) scenario_link(c, g);
	lap("link");
	for (uint64_t c = 0; c < (N + 1) / 2; c++) { int kind = (c % 4 == 3) ? 1 : 0; if (c % 16 == 7) kind = 2; scenario_nbq(c, g, kind, ex); }
	if (N >= 4) { scenario_fixed_timeout(false, g, ex); scenario_fixed_timeout(true, g, ex); scenario_fixed_zero(g, ex); }
	lap("nbq");
	for (uint64_t c = 0; c < (N + 2) / 3; c++) scenario_peers(c, g);
	lap("peers");
	for (uint64_t c = 0; c < (N + 1) / 2; c++) scenario_arrays(c, g);
	for (uint64_t c = 0; c < (N + 2) / 3; c++) scenario_apeers(c, g);
	for (uint64_t c = 0; c < 8 && c < N; c++) scenario_arraymix(c, g);
	lap("arrays");
	for (uint64_t c = 0; c < 16 && c < N; c++) scenario_misc(c, g);
	lap("misc");
	emit("prop.aio2.exercised " + std::to_string(ex.sleeps) + " " + std::to_string(ex.partials) + " " + std::to_string(ex.timeouts) + " " + std::to_string(ex.forced) + " => " + ((ex.sleeps && ex.partials && (ex.timeouts || N < 8)) ? "ok" : "NOT-EXERCISED"));
	cryptolog.log = false;
	return 0;
}

} // namespace aio2
static int drv_aio2_entry(const Opts &o) { return aio2::drv_aio2(o); }
REGISTER_DRIVER("aio2", drv_aio2_entry);
