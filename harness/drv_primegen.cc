// C09 (prime generators): every generator of src/mpz_sprime.cc is run with the coins served from the seeded
// source and with mpz_probab_prime_p interposed (definition in drv_rabin.cc); the model recomputes the search
// from the same coins and oracle answers.  Area "primegen".
//
// Line format (one line per generator call):
//   primegen.<fn> psize qsize mr kin fuel [coin byte strings] [n:reps:0/1,…] => p q k
//     fn ∈ sprime smprime sprime2g sprime3mod4 sprime_naive smprime_naive sprime_noninc lprime lprime_prefix
//          oprime oprime_noninc
//     psize/qsize: the size arguments of the call (safe-prime generators take qsize only, psize = qsize + 1 is
//     printed; sprime3mod4 / oprime take psize only, qsize = psize - 1 resp. 0 is printed); mr = mr_iterations;
//     kin = the prefix handed to lprime_prefix (0 otherwise); coins = the byte strings libgcrypt served, in
//     order; the second list = every call mpz_probab_prime_p(n, reps) made, with its answer.
//     Output: p q k as returned (q = (p-1)/2 and k = 2 for the safe-prime generators, `p 0 0` for oprime*).
//   prop.primegen <fn> psize qsize kin p q k => calls=<oracle calls> coins=<entries>
//     model-independent record for the Python predicate (own Miller-Rabin, the generator's relation).
#include "common.hh"

struct PrimeCall { std::string n; int reps; int ans; };
struct PrimeLog { bool on = false; std::vector<PrimeCall> calls; };
extern PrimeLog primelog;

static void gen_line(const std::string &fn, unsigned long psize, unsigned long qsize, unsigned long mr, mpz_srcptr kin)
{
	Z p, q, k; mpz_set(k, kin);
	coins.take(); coins.log = true; primelog.calls.clear(); primelog.on = true;
	std::string out = guarded([&]() {
		if (fn == "sprime") tmcg_mpz_sprime(p, q, qsize, mr);
		else if (fn == "smprime") tmcg_mpz_smprime(p, q, qsize, mr);
		else if (fn == "sprime2g") tmcg_mpz_sprime2g(p, q, qsize, mr);
		else if (fn == "sprime3mod4") { tmcg_mpz_sprime3mod4(p, psize, mr); mpz_sub_ui(q, p, 1); mpz_fdiv_q_2exp(q, q, 1); }
		else if (fn == "sprime_naive") tmcg_mpz_sprime_naive(p, q, qsize, mr);
		else if (fn == "smprime_naive") tmcg_mpz_smprime_naive(p, q, qsize, mr);
		else if (fn == "sprime_noninc") tmcg_mpz_sprime_noninc(p, q, qsize, mr);
		else if (fn == "lprime") tmcg_mpz_lprime(p, q, k, psize, qsize, mr);
		else if (fn == "lprime_prefix") tmcg_mpz_lprime_prefix(p, q, k, psize, qsize, mr);
		else if (fn == "oprime") tmcg_mpz_oprime(p, psize, mr);
		else if (fn == "oprime_noninc") tmcg_mpz_oprime_noninc(p, psize, mr);
		else return std::string("unknown-generator");
		if (fn == "oprime" || fn == "oprime_noninc") return p.str() + " 0 0";
		if (fn[0] == 's') return p.str() + " " + q.str() + " 2";
		return p.str() + " " + q.str() + " " + k.str();
	});
	primelog.on = false;
	std::vector<CoinLogEntry> es = coins.take();
	std::string pl = "[";
	for (size_t i = 0; i < primelog.calls.size(); i++) { if (i) pl += ","; pl += primelog.calls[i].n + ":" + std::to_string(primelog.calls[i].reps) + ":" + (primelog.calls[i].ans ? "1" : "0"); }
	pl += "]";
	emit("primegen." + fn + " " + std::to_string(psize) + " " + std::to_string(qsize) + " " + std::to_string(mr) + " " + zs(kin) + " 100000000 " +
		coin_bytes_hex(es) + " " + pl + " tag:honest => " + out);
	emit("prop.primegen " + fn + " " + std::to_string(psize) + " " + std::to_string(qsize) + " " + zs(kin) + " " + out + " => calls=" +
		std::to_string(primelog.calls.size()) + " coins=" + std::to_string(es.size()));
}

static int drv_primegen(const Opts &o)
{
	SplitMix g(o.seed ^ 0x7072696d);
	bool thorough = (o.tier == "thorough");
	static const unsigned long qsizes[] = { 32, 48, 63, 64, 65, 96, 128, 160 };
	static const unsigned long psizes[] = { 64, 96, 128, 192, 256, 384, 512 };
	Z zero, kin;
	for (uint64_t c = 0; c < o.cases; c++) {
		unsigned long qs = qsizes[g.below(thorough ? 8 : 6)], ps = psizes[g.below(thorough ? 7 : 5)];
		unsigned long mr = 2 + g.below(40);
		// argument errors
		if (c == 0) { gen_line("lprime", 64, 64, 10, zero); gen_line("lprime_prefix", 32, 64, 10, zero); gen_line("sprime", 1, 0, 10, zero); gen_line("oprime", 0, 0, 10, zero); }
		// safe primes (the search is expensive: the small q sizes only, the full table of smprime once in a while)
		unsigned long sq = qsizes[g.below(thorough ? 6 : 4)];
		switch (c % 6) {
		case 0: gen_line("sprime", sq + 1, sq, mr, zero); break;
		case 1: gen_line("sprime2g", sq + 1, sq, mr, zero); break;
		case 2: gen_line("sprime3mod4", sq + 1, sq, mr, zero); break;
		case 3: gen_line("sprime_naive", sq + 1, sq, mr, zero); break;
		case 4: { unsigned long nq = qsizes[g.below(3)]; gen_line("sprime_noninc", nq + 1, nq, mr, zero); } break;
		default: if (c % 12 == 5) gen_line("smprime", 33, 32, mr, zero); else gen_line("smprime_naive", 33, 32, mr, zero); break;
		}
		// p = kq + 1
		// tmcg_mpz_lprime draws q ONCE and then only k (psize - qsize bits): with a small difference only a few k exist
		// and the call never returns unless one of them gives a prime (e.g. psize 64, qsize 63: k = 2 only) — keep the
		// cofactor at 24 bits or more
		if (qs + 24 > ps) qs = ps / 2;
		gen_line("lprime", ps, qs, mr, zero);
		// tiny subgroup sizes with a cofactor at least as long as q: the only sizes at which a drawn k is a multiple of q
		// with noticeable probability, i.e. at which the test gcd(k, q) = 1 ever refuses a candidate (seeded change C09c)
		for (int tiny = 0; tiny < 10; tiny++) { unsigned long tq = 3 + g.below(4), tp = 2 * tq + 2 + g.below(7); gen_line("lprime", tp, tq, 2 + g.below(20), zero); }
		mpz_set_ui(kin, 1 + g.below(1000000)); if (g.below(4) == 0) mpz_set_ui(kin, 1); if (g.below(6) == 0) gen_bits(kin, g, ps - qs + 7), mpz_add_ui(kin, kin, 1);
		// the cofactor is fixed by the prefix; when it only just reaches its size, q·k + 1 falls short of psize bits for
		// (almost) every q and the library redraws for a very long time: take prefixes that leave at least about
		// half of the q's usable
		for (;;) {
			Z kk, t; mpz_set(kk, kin);
			while (mpz_sizeinbase(kk, 2) < (ps - qs)) mpz_mul_ui(kk, kk, TMCG_MPZ_IO_BASE);
			if (mpz_odd_p(kk)) mpz_add_ui(kk, kk, 1);
			mpz_set_ui(t, 3); mpz_mul_2exp(t, t, qs - 2); mpz_mul(t, t, kk);
			if (mpz_sizeinbase(t, 2) >= ps) break;
			mpz_mul_ui(kin, kin, 3); mpz_add_ui(kin, kin, 1);
		}
		gen_line("lprime_prefix", ps, qs, mr, kin);
		// ordinary primes
		gen_line("oprime", ps, 0, mr, zero);
		gen_line("oprime_noninc", ps, 0, mr, zero);
	}
	return 0;
}
REGISTER_DRIVER("primegen", drv_primegen);
