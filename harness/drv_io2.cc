// C11, second part (area "io2"): export / import round trips of every exportable type that area "io" does
// not cover: the QR-encoded cards and their stacks, keys, group parameter sets, persisted protocol state.
// Model: lean/Tmcg/Model/Io2.lean, handlers lean/Tmcg/DriverIo2.lean.
//
// Tokens: integers are decimal, `[a,b,…]` is a list, texts are lower-case hex (`-` = empty text).
//
//  cards (string importers `import(std::string)` into FRESH objects):
//   io2.tcard.export k w [z_00,z_01,…]            => hextext          TMCG_Card, operator <<
//   io2.tcard.import hextext                      => k w [z…] | reject
//   io2.tsecret.export k w [r_00,b_00,r_01,…]     => hextext          TMCG_CardSecret
//   io2.tsecret.import hextext                    => k w [r,b,…] | reject
//   io2.tstack.export [k/w/z/z/…,…]               => hextext          TMCG_Stack<TMCG_Card>
//   io2.tstack.import hextext                     => [k/w/z/…,…] | reject
//   io2.tsts.export [idx/k/w/r/b/…,…]             => hextext          TMCG_StackSecret<TMCG_CardSecret>
//   io2.tsts.import hextext                       => [idx/k/w/r/b/…,…] | reject
//  keys (text fields as hex):
//   io2.pub.export name email type m y nizk sig   => hextext          TMCG_PublicKey, operator <<
//   io2.pub.import hextext                        => name email type m y nizk sig | reject      import()
//   io2.pub.stream hextext                        => … | reject                                   operator >>
//   io2.sec.export name email type m y p q nizk sig => hextext        TMCG_SecretKey
//   io2.sec.import / io2.sec.stream hextext       => name email type m y p q nizk sig | reject
//   io2.ring.stream n hextext                     => [hex of key 1's own text,…] | reject   n keys, one per line,
//                                                    read with operator >> into TMCG_PublicKeyRing(n).keys[i]
//  group parameter sets (PublishGroup ↔ stream constructor; outcome `throw:runtime_error`,
//  `throw:invalid_argument` when the constructor throws):
//   io2.vtmf.export p q g k => hextext ;  io2.vtmf.import pre hextext => p q g k      (pre = the `precompute` flag)
//   io2.qr.import esize hextext => p q g k                          BarnettSmartVTMF_dlog_GroupQR(in, ·, esize)
//   io2.com.export p q k h [g…] => hextext ; io2.com.import n hextext => p q k h [g…]     PedersenCommitmentScheme
//   io2.skc.export / io2.skc.import                                   the same through GrothSKC
//   io2.trap.export p q k g h ; io2.trap.import hextext                PedersenTrapdoorCommitmentScheme
//   io2.vrhe.export p q g h ; io2.vrhe.import hextext                  HooghSchoenmakersSkoricVillegasVRHE
//   io2.eotp.export p q g ; io2.eotp.import hextext                    NaorPinkasEOTP
//   io2.vsshe.export p q g h cp cq ck ch [cg…] ; io2.vsshe.import n hextext      GrothVSSHE (c* = its `com`)
//  persisted state (PublishState ↔ stream constructor); HEAD = p q g h n t i x_i xprime_i y [QUAL];
//  FLAT = for ii < n: (share, share') for j < n, then the commitments of ii — in the order of the stream:
//   io2.vss.export p q g h n t i sigma_i tau_i [a_j] [b_j] [A_j]                         PedersenVSS
//   io2.gdkg.export HEAD [y_i] [z_i] [v_i] [FLAT]     (also io2.gdkg.keys = PublishVerificationKeys)
//   io2.rvss.export p q g h n t i tprime x_i xprime_i z_i zprime_i [QUAL] [FLAT]
//   io2.zvss.export p q g h n t i tprime x_i xprime_i [QUAL] [FLAT]
//   io2.cdkg.export HEAD <the 14 rvss fields of x_rvss>
//   io2.dss.export HEAD <the cdkg fields of dkg>
//   io2.<type>.import hextext => the same fields | throw:…
//  primitives:
//   io2.mpzline hextext => value good restlen | throw:runtime_error      one `in >> mpz`
//   io2.size cur hextext => value                                        `std::stringstream(text) >> n`, n = cur before
//  whole-case facts (passed through by the Lean driver):
//   prop.io2.roundtrip <type> <dims> => 1|0     import(export x) succeeded, equals x field by field (and, where the
//                                               class has it, by operator ==), and its export is the identical text
//   prop.io2.reimport <type> <dims> => 1|0      the same into a USED object of other dimensions (cards)
//   prop.io2.noexport <type> => 1               the type has no export / import in the library
//   io2.wf <type> [params] <fields…> => 1|0       the well-formedness predicate of the round-trip theorems, decided by
//                                               the model for the objects the harness calls well-formed
//  tags (last token before `=>`): tag:honest (object the exporter can hold, the round trip must succeed), tag:fresh (as honest, state right
//  after construction), tag:nonwf:<why> (exported object outside the importer's limits), tag:mut:<how> (mutated text).
#include "common.hh"
#include <memory>
#include <algorithm>
#include <time.h>

namespace io2drv {

// lines are composed as `op args => result tag:…`; the tag belongs in front of the arrow
static void emitx(const std::string &line)
{
	size_t sp = line.rfind(' '), ar = line.find(" => ");
	if (sp != line.npos && ar != line.npos && sp > ar && line.compare(sp + 1, 4, "tag:") == 0)
		emit(line.substr(0, ar) + " " + line.substr(sp + 1) + line.substr(ar, sp - ar));
	else emit(line);
}

// ------------------------------------------------------------------------------------------- values
static Z pow62(unsigned e) { Z r; mpz_ui_pow_ui(r, 62, e); return r; }

// value classes: 0, ±1, 2^k, 2^k±1, small, random, negative, powers of 62; `big`: up to 2048 bits
static void gen_value(mpz_ptr v, SplitMix &g, bool big = true, bool neg = true)
{
	unsigned top = big ? 2048 : 96;
	switch (g.below(11)) {
	case 0: mpz_set_ui(v, 0); break;
	case 1: mpz_set_si(v, (neg && g.coin()) ? -1 : 1); break;
	case 2: mpz_set_ui(v, 1); mpz_mul_2exp(v, v, g.below(top)); break;
	case 3: mpz_set_ui(v, 1); mpz_mul_2exp(v, v, 1 + g.below(top)); mpz_sub_ui(v, v, 1); break;
	case 4: mpz_set_ui(v, 1); mpz_mul_2exp(v, v, 1 + g.below(top)); mpz_add_ui(v, v, 1); break;
	case 5: gen_bits(v, g, 1 + g.below(64)); break;
	case 6: gen_bits(v, g, 1 + g.below(top)); break;
	case 7: gen_bits(v, g, 1 + g.below(top)); if (neg) mpz_neg(v, v); break;
	case 8: mpz_set_ui(v, 61 + g.below(3)); mpz_pow_ui(v, v, 1 + g.below(5)); break;
	default: gen_bits(v, g, 1 + g.below(big ? 300 : 40)); break;
	}
}
// the longest texts `operator >> (istream&, mpz_ptr)` accepts (4094 characters) and the shortest it does not
static void gen_edge(mpz_ptr v, SplitMix &g, bool ok)
{
	if (ok) {
		if (g.coin()) { Z t = pow62(4094); mpz_sub_ui(v, t, 1 + g.below(3)); }      // 4094 digits
		else { Z t = pow62(4093); mpz_sub_ui(v, t, 1 + g.below(3)); mpz_neg(v, v); } // '-' and 4093 digits
	} else {
		if (g.coin()) { Z t = pow62(4094); mpz_add_ui(v, t, g.below(3)); }          // 4095 digits
		else { Z t = pow62(4093); mpz_add_ui(v, t, g.below(3)); mpz_neg(v, v); }     // '-' and 4094 digits
	}
}
// the subgroup order: the stream constructors square |q| times per table, so it is long only now and then
static void gen_q(mpz_ptr v, SplitMix &g, bool big = true) { gen_value(v, g, big && g.below(8) == 0); }
static void gen_nonzero(mpz_ptr v, SplitMix &g, bool big = true) { do gen_value(v, g, big); while (!mpz_sgn(v)); }

static std::string zl(const std::vector<mpz_ptr> &v) { return zlist(v.begin(), v.end()); }
static std::string nl_(const std::vector<size_t> &v) { std::string s = "["; for (size_t i = 0; i < v.size(); i++) { if (i) s += ","; s += std::to_string(v[i]); } return s + "]"; }
template <class T> static std::string text_of(const T &x) { std::ostringstream o; o << x; return o.str(); }

// ------------------------------------------------------------------------------------------- mutations
// of a one-line text with `|` / `^` structure (cards, keys): the catalogue of drv_io.cc
static std::string mutate_text(const std::string &t, SplitMix &g, std::string &how)
{
	std::string s = t;
	if (s.empty()) { how = "byte"; return std::string(1, (char)(1 + g.below(255))); }
	unsigned k = g.below(15);
	switch (k) {
	case 0: how = "delete"; s.erase(g.below(s.size()), 1 + g.below(3)); break;
	case 1: how = "insert"; s.insert(g.below(s.size() + 1), 1, (char)g.below(256)); break;
	case 2: how = "overwrite"; s[g.below(s.size())] = (char)g.below(256); break;
	case 3: how = "truncate"; s = s.substr(0, g.below(s.size() + 1)); break;
	case 4: how = "delim"; { size_t p = s.find_first_of("^|"); if (p != s.npos) s[p] = (s[p] == '^') ? '|' : '^'; } break;
	case 5: { how = "count";   // a count / dimension / index field: off by one, 0, limits, signs, blanks
		static const char *vals[] = { "0", "1", "32", "33", "10", "11", "512", "513", "4294967296", "18446744073709551615", "18446744073709551616", "-1", "+2", " 2", "2 ", "", "0x2", "99999999999999999999999999", "2\t" };
		char d = (s.find('^') != s.npos && s.compare(0, 3, "stk") == 0) || s.compare(0, 3, "sts") == 0 ? '^' : '|';
		size_t a = s.find(d); if (a == s.npos) break; size_t b = s.find(d, a + 1); if (b == s.npos) break;
		if (g.coin()) { size_t c = s.find(d, b + 1); if (c != s.npos) { a = b; b = c; } }
		std::string old = s.substr(a + 1, b - a - 1), nv;
		if (g.below(3) == 0 && !old.empty() && old.size() < 6 && old.find_first_not_of("0123456789") == old.npos) {
			long x = atol(old.c_str()); nv = std::to_string(g.coin() ? x + 1 : (x > 0 ? x - 1 : x + 2)); how = "count-off-by-one"; }
		else nv = vals[g.below(19)];
		s = s.substr(0, a + 1) + nv + s.substr(b); } break;
	case 6: how = "dupfield"; { size_t a = g.below(s.size()), b = g.below(s.size()); if (a > b) std::swap(a, b); s = s.substr(0, a) + s.substr(a, b - a) + s.substr(a, b - a) + s.substr(b); } break;
	case 7: how = "double"; s += s; break;
	case 8: how = "blanks"; for (auto &c : s) if (c == '|' && g.below(4) == 0) c = ' '; break;
	case 9: how = "minus"; s.insert(g.below(s.size()), "-"); break;
	case 10: how = "space"; s.insert(g.below(s.size()), " \t"); break;
	case 11: how = "prefix"; s = "crd|" + s; break;
	case 12: how = "longfield"; s.insert(g.below(s.size()), std::string(1 + g.below(5000), "0123456789AZaz#"[g.below(15)])); break;
	case 13: how = "nondigit"; { size_t p = g.below(s.size()); s[p] = "#!$%&()*,./:;<=>?@[]_{}~"[g.below(24)]; } break;
	default: how = "garbage"; { std::string r; size_t n = g.below(40); for (size_t i = 0; i < n; i++) r += (char)g.below(256); s = r; } break;
	}
	return s;
}

// of a line-based text (PublishGroup / PublishState).  `counts` = indices of the count lines, [qlo, qhi) = the
// lines of the QUAL members (blank, missing and cut member lines are mutations of their own: `who = n` then throws)
struct LineInfo { std::vector<size_t> counts; std::vector<std::pair<size_t, size_t> > q; };
static std::string mutate_lines(const std::string &t, const LineInfo &li, SplitMix &g, std::string &how)
{
	std::vector<std::string> ls; { size_t a = 0; while (a < t.size()) { size_t b = t.find('\n', a); if (b == t.npos) { ls.push_back(t.substr(a)); break; } ls.push_back(t.substr(a, b - a)); a = b + 1; } }
	bool final_nl = !t.empty() && t.back() == '\n';
	auto join = [&](const std::vector<std::string> &v, bool fin) { std::string r; for (size_t i = 0; i < v.size(); i++) { r += v[i]; if (i + 1 < v.size() || fin) r += "\n"; } return r; };
	if (ls.empty()) { how = "garbage"; return "#\n"; }
	size_t L = g.below(ls.size());
	static const char *cvals[] = { "0", "1", "2", "7", "8", "255", "256", "257", "-1", "+3", " 3", "3 ", "3x", "x3", "18446744073709551615", "18446744073709551616", "99999999999999999999999", "0x10", "007", "-0", "+", "-", " ", "" };
	// mutations aimed at the QUAL member lines (when there are any)
	std::vector<size_t> ql; for (auto &r : li.q) for (size_t x = r.first; x < r.second && x < ls.size(); x++) ql.push_back(x);
	if (!ql.empty() && g.below(5) == 0) {
		size_t Q = ql[g.below(ql.size())];
		switch (g.below(5)) {
		case 0: how = "qual-blank"; ls[Q] = g.coin() ? "" : (g.coin() ? " " : "\t \r"); return join(ls, final_nl);
		case 1: how = "qual-truncate-before"; ls.resize(Q); return join(ls, true);                    // the text ends where a member line should start
		case 2: how = "qual-truncate-inside"; ls.resize(Q + 1); return join(ls, false);                // … or inside a member line (no newline)
		case 3: how = "qual-delete-line"; ls.erase(ls.begin() + Q); return join(ls, final_nl);
		default: how = "qual-nondigit"; ls[Q] = g.coin() ? "x" : (g.coin() ? "-" : " +"); return join(ls, final_nl);
		}
	}
	switch (g.below(16)) {
	case 0: how = "truncate-char"; return t.substr(0, g.below(t.size() + 1));
	case 1: how = "truncate-lines"; { size_t keep = g.below(ls.size()); ls.resize(keep); return join(ls, true); }
	case 2: how = "truncate-final-newline"; return join(ls, false);
	case 3: how = "extra-line-end"; ls.push_back(g.coin() ? "7" : "zz#"); return join(ls, true);
	case 4: how = "extra-line"; ls.insert(ls.begin() + L, g.coin() ? "5" : "1"); return join(ls, final_nl);
	case 5: how = "delete-line"; ls.erase(ls.begin() + L); return join(ls, final_nl);
	case 6: case 7: if (!li.counts.empty()) {
		size_t c = li.counts[g.below(li.counts.size())]; if (c < ls.size() && !ls[c].empty() && ls[c].size() < 9) {
			long x = atol(ls[c].c_str()); ls[c] = std::to_string(g.coin() ? x + 1 : (x > 0 ? x - 1 : x + 1)); how = "count-off-by-one"; return join(ls, final_nl); } }
		// fall through
	case 8: if (!li.counts.empty()) {
		size_t c = li.counts[g.below(li.counts.size())]; if (c < ls.size()) {
			std::string nv = cvals[g.below(24)];
			ls[c] = nv; how = "count-special"; return join(ls, final_nl); } }
		// fall through
	case 9: how = "nondigit"; if (!ls[L].empty()) ls[L][g.below(ls[L].size())] = "#!$%&()*,./:;<=>?@[]_{}~|^"[g.below(26)]; else ls[L] = "#"; return join(ls, final_nl);
	case 10: how = "blank-line"; ls[L] = g.coin() ? "" : (g.coin() ? " " : "\t "); return join(ls, final_nl);
	case 11: how = "long-line"; { size_t n = g.below(3) == 0 ? 4094 : (g.coin() ? 4095 : 4096 + g.below(3000)); ls[L] = std::string(n, "1Zz9"[g.below(4)]); } return join(ls, final_nl);
	case 12: how = "dup-line"; ls.insert(ls.begin() + L, ls[L]); return join(ls, final_nl);
	case 13: how = "cr"; ls[L] += "\r"; return join(ls, final_nl);
	case 14: how = "byte"; { if (ls[L].empty()) ls[L] = "0"; size_t p = g.below(ls[L].size() + 1); char c = (char)g.below(256); if (c == '\n') c = 0; ls[L].insert(p, 1, c); } return join(ls, final_nl);
	default: how = "swap-lines"; { size_t M = g.below(ls.size()); std::swap(ls[L], ls[M]); } return join(ls, final_nl);
	}
}

// ------------------------------------------------------------------------------------------- TMCG cards
static std::string card_fields(const TMCG_Card &c)
{
	std::string s = std::to_string(c.z.size()) + " " + std::to_string(c.z[0].size()) + " ["; bool f = true;
	for (auto &row : c.z) for (auto &x : row) { if (!f) s += ","; f = false; s += zs(&x); }
	return s + "]";
}
static std::string card_slash(const TMCG_Card &c)
{
	std::string s = std::to_string(c.z.size()) + "/" + std::to_string(c.z[0].size());
	for (auto &row : c.z) for (auto &x : row) s += "/" + zs(&x);
	return s;
}
static std::string secret_fields(const TMCG_CardSecret &c)
{
	std::string s = std::to_string(c.r.size()) + " " + std::to_string(c.r[0].size()) + " ["; bool f = true;
	for (size_t i = 0; i < c.r.size(); i++) for (size_t j = 0; j < c.r[i].size(); j++) { if (!f) s += ","; f = false; s += zs(&c.r[i][j]) + "," + zs(&c.b[i][j]); }
	return s + "]";
}
static std::string secret_slash(const TMCG_CardSecret &c)
{
	std::string s = std::to_string(c.r.size()) + "/" + std::to_string(c.r[0].size());
	for (size_t i = 0; i < c.r.size(); i++) for (size_t j = 0; j < c.r[i].size(); j++) s += "/" + zs(&c.r[i][j]) + "/" + zs(&c.b[i][j]);
	return s;
}
static std::string stack_fields(const TMCG_Stack<TMCG_Card> &s) { std::string r = "["; for (size_t i = 0; i < s.size(); i++) { if (i) r += ","; r += card_slash(s[i]); } return r + "]"; }
static std::string sts_fields(const TMCG_StackSecret<TMCG_CardSecret> &s) { std::string r = "["; for (size_t i = 0; i < s.size(); i++) { if (i) r += ","; r += std::to_string(s[i].first) + "/" + secret_slash(s[i].second); } return r + "]"; }

static void fill_card(TMCG_Card &c, SplitMix &g, bool big) { for (auto &row : c.z) for (auto &x : row) gen_value(&x, g, big && g.below(8) == 0); }
static void fill_secret(TMCG_CardSecret &c, SplitMix &g, bool big)
{
	for (size_t i = 0; i < c.r.size(); i++) for (size_t j = 0; j < c.r[i].size(); j++) {
		gen_value(&c.r[i][j], g, big && g.below(8) == 0);
		if (g.below(4)) mpz_set_ui(&c.b[i][j], g.below(2)); else gen_value(&c.b[i][j], g, false); }
}

static void import_card_line(const std::string &txt, const std::string &tag)
{ TMCG_Card c; bool ok = c.import(txt); emitx("io2.tcard.import " + hexs(txt) + " => " + (ok ? card_fields(c) : std::string("reject")) + " " + tag); }
static void import_secret_line(const std::string &txt, const std::string &tag)
{ TMCG_CardSecret c; bool ok = c.import(txt); emitx("io2.tsecret.import " + hexs(txt) + " => " + (ok ? secret_fields(c) : std::string("reject")) + " " + tag); }
static void import_stack_line(const std::string &txt, const std::string &tag)
{ TMCG_Stack<TMCG_Card> s; bool ok = s.import(txt); emitx("io2.tstack.import " + hexs(txt) + " => " + (ok ? stack_fields(s) : std::string("reject")) + " " + tag); }
static void import_sts_line(const std::string &txt, const std::string &tag)
{ TMCG_StackSecret<TMCG_CardSecret> s; bool ok = s.import(txt); emitx("io2.tsts.import " + hexs(txt) + " => " + (ok ? sts_fields(s) : std::string("reject")) + " " + tag); }

static void card_cases(SplitMix &g, size_t k, size_t w, bool big)
{
	std::string dims = std::to_string(k) + "x" + std::to_string(w), how;
	{ TMCG_Card c(k, w); fill_card(c, g, big);
	  std::string t = text_of(c);
	  emitx("io2.tcard.export " + card_fields(c) + " => " + hexs(t) + " tag:honest");
	  emitx("io2.wf tcard " + card_fields(c) + " => 1");
	  import_card_line(t, "tag:honest");
	  TMCG_Card c2; bool ok = c2.import(t);
	  emitx("prop.io2.roundtrip tcard " + dims + " => " + ((ok && c2 == c && card_fields(c2) == card_fields(c) && text_of(c2) == t) ? "1" : "0"));
	  // into a used object of other dimensions, and through operator >>
	  TMCG_Card c3(1 + g.below(TMCG_MAX_PLAYERS), 1 + g.below(TMCG_MAX_TYPEBITS)); fill_card(c3, g, false); bool ok3 = c3.import(t);
	  TMCG_Card c4; std::istringstream is(t + "\n"); is >> c4;
	  emitx("prop.io2.reimport tcard " + dims + " => " + ((ok3 && c3 == c && text_of(c3) == t && is.good() && c4 == c) ? "1" : "0"));
	  for (int m = 0; m < 2; m++) { std::string mt = mutate_text(t, g, how); import_card_line(mt, "tag:mut:" + how); } }
	{ TMCG_CardSecret c(k, w); fill_secret(c, g, big);
	  std::string t = text_of(c);
	  emitx("io2.tsecret.export " + secret_fields(c) + " => " + hexs(t) + " tag:honest");
	  emitx("io2.wf tsecret " + secret_fields(c) + " => 1");
	  import_secret_line(t, "tag:honest");
	  TMCG_CardSecret c2; bool ok = c2.import(t);
	  emitx("prop.io2.roundtrip tsecret " + dims + " => " + ((ok && secret_fields(c2) == secret_fields(c) && text_of(c2) == t) ? "1" : "0"));
	  TMCG_CardSecret c3(1 + g.below(TMCG_MAX_PLAYERS), 1 + g.below(TMCG_MAX_TYPEBITS)); fill_secret(c3, g, false); bool ok3 = c3.import(t);
	  TMCG_CardSecret c4; std::istringstream is(t + "\n"); is >> c4;
	  emitx("prop.io2.reimport tsecret " + dims + " => " + ((ok3 && secret_fields(c3) == secret_fields(c) && text_of(c3) == t && is.good() && secret_fields(c4) == secret_fields(c)) ? "1" : "0"));
	  for (int m = 0; m < 2; m++) { std::string mt = mutate_text(t, g, how); import_secret_line(mt, "tag:mut:" + how); } }
}

static void stack_cases(SplitMix &g, size_t n, bool same_dims)
{
	std::string how;
	size_t k0 = 1 + g.below(n > 20 ? 3 : (g.below(6) ? 6 : TMCG_MAX_PLAYERS)), w0 = 1 + g.below(n > 20 ? 4 : (g.below(6) ? 4 : TMCG_MAX_TYPEBITS));
	TMCG_Stack<TMCG_Card> st; TMCG_StackSecret<TMCG_CardSecret> ss;
	std::vector<size_t> idx(n); for (size_t i = 0; i < n; i++) idx[i] = i; for (size_t a = n; a > 1; a--) std::swap(idx[a - 1], idx[g.below(a)]);
	for (size_t i = 0; i < n; i++) {
		size_t k = same_dims ? k0 : 1 + g.below(6), w = same_dims ? w0 : 1 + g.below(5);
		TMCG_Card c(k, w); fill_card(c, g, n <= 8 && g.below(3) == 0); st.push(c);
		TMCG_CardSecret s(k, w); fill_secret(s, g, n <= 8 && g.below(3) == 0); ss.push(idx[i], s); }
	std::string dims = std::to_string(n) + (same_dims ? "" : ":mixed");
	{ std::string t = text_of(st);
	  if (n <= 60) { emitx("io2.tstack.export " + stack_fields(st) + " => " + hexs(t) + " tag:honest"); emitx("io2.wf tstack " + stack_fields(st) + " => 1"); }
	  TMCG_Stack<TMCG_Card> s2; bool ok = s2.import(t);
	  emitx("prop.io2.roundtrip tstack " + dims + " => " + ((ok && s2 == st && stack_fields(s2) == stack_fields(st) && text_of(s2) == t) ? "1" : "0"));
	  if (n <= 60) { import_stack_line(t, "tag:honest"); for (int m = 0; m < 3; m++) { std::string mt = mutate_text(t, g, how); import_stack_line(mt, "tag:mut:" + how); } } }
	{ std::string t = text_of(ss);
	  if (n <= 60) { emitx("io2.tsts.export " + sts_fields(ss) + " => " + hexs(t) + " tag:honest"); emitx("io2.wf tsts " + sts_fields(ss) + " => 1"); }
	  TMCG_StackSecret<TMCG_CardSecret> s2; bool ok = s2.import(t);
	  emitx("prop.io2.roundtrip tsts " + dims + " => " + ((ok && sts_fields(s2) == sts_fields(ss) && text_of(s2) == t) ? "1" : "0"));
	  if (n <= 60) { import_sts_line(t, "tag:honest"); for (int m = 0; m < 3; m++) { std::string mt = mutate_text(t, g, how); import_sts_line(mt, "tag:mut:" + how); } } }
}

// ------------------------------------------------------------------------------------------- keys
static std::string pub_fields(const TMCG_PublicKey &k) { return hexs(k.name) + " " + hexs(k.email) + " " + hexs(k.type) + " " + zs(k.m) + " " + zs(k.y) + " " + hexs(k.nizk) + " " + hexs(k.sig); }
static std::string sec_fields(const TMCG_SecretKey &k) { return hexs(k.name) + " " + hexs(k.email) + " " + hexs(k.type) + " " + zs(k.m) + " " + zs(k.y) + " " + zs(k.p) + " " + zs(k.q) + " " + hexs(k.nizk) + " " + hexs(k.sig); }

// text field: unusual characters, never the separator unless asked; `line`: fit for one line of a stream
static std::string gen_field(SplitMix &g, bool line, bool with_sep = false)
{
	static const char *samples[] = { "", "Alice", "Bob Builder", "alice@gaos.org", "TMCG/RABIN_1024_NIZK", "Zo\xc3\xab M\xc3\xbcller", " leading and trailing ", "a^b^c", "name\twith\ttabs", "\"quoted\" <x@y>", "-", "^^", "crd", "pub" };
	std::string s;
	switch (g.below(4)) {
	case 0: s = samples[g.below(14)]; break;
	case 1: { size_t n = g.below(24); for (size_t i = 0; i < n; i++) s += (char)(32 + g.below(95)); } break;
	case 2: { size_t n = g.below(40); for (size_t i = 0; i < n; i++) s += (char)g.below(256); } break;
	default: { size_t n = 1 + g.below(3000); for (size_t i = 0; i < n; i++) s += "abcXYZ 019^~"[g.below(12)]; } break;
	}
	for (auto &c : s) { if (c == '|') c = '!'; if (line && (c == '\n' || c == 0)) c = '_'; }
	if (with_sep) s.insert(g.below(s.size() + 1), "|");
	return s;
}

static void pub_import_lines(const std::string &t, const std::string &tag, bool stream_too)
{
	{ TMCG_PublicKey k; bool ok = k.import(t); emitx("io2.pub.import " + hexs(t) + " => " + (ok ? pub_fields(k) : std::string("reject")) + " " + tag); }
	if (stream_too) { TMCG_PublicKey k; std::istringstream is(t); is >> k; emitx("io2.pub.stream " + hexs(t) + " => " + (!is.fail() ? pub_fields(k) : std::string("reject")) + " " + tag); }
}
static void sec_import_lines(const std::string &t, const std::string &tag, bool stream_too)
{
	{ TMCG_SecretKey k; bool ok = k.import(t); emitx("io2.sec.import " + hexs(t) + " => " + (ok ? sec_fields(k) : std::string("reject")) + " " + tag); }
	if (stream_too) { TMCG_SecretKey k; std::istringstream is(t); is >> k; emitx("io2.sec.stream " + hexs(t) + " => " + (!is.fail() ? sec_fields(k) : std::string("reject")) + " " + tag); }
}

static void set_secret_numbers(TMCG_SecretKey &sk, SplitMix &g, int variant)
{
	Z p, q; unsigned bits = 40 + g.below(g.below(4) ? 200 : 1100);
	gen_bits(p, g, bits); mpz_setbit(p, bits - 1); mpz_nextprime(p, p);
	do { gen_bits(q, g, bits); mpz_setbit(q, bits - 1); mpz_nextprime(q, q); } while (!mpz_cmp(p, q));
	mpz_set(sk.p, p); mpz_set(sk.q, q); mpz_mul(sk.m, p, q);
	Z t; do { gen_below(sk.y, g, sk.m); mpz_gcd(t, sk.y, sk.m); } while (mpz_cmp_ui(t, 1));
	switch (variant) {
	case 1: mpz_set(sk.q, sk.p); mpz_mul(sk.m, sk.p, sk.p); break;             // gcd(p, q) != 1
	case 2: mpz_mul(sk.y, sk.p, sk.p); mpz_mod(sk.y, sk.y, sk.m); break;        // y not invertible
	case 3: mpz_set_ui(sk.y, 0); break;
	case 4: mpz_neg(sk.y, sk.y); break;                                         // negative y: still invertible
	case 5: mpz_mul_ui(sk.p, sk.p, 3); mpz_mul_ui(sk.q, sk.q, 3); mpz_mul(sk.m, sk.p, sk.q); break;
	default: break;
	}
}

static void key_cases(SplitMix &g, bool thorough, uint64_t c)
{
	std::string how;
	// ---- public key, fields set directly
	{ TMCG_PublicKey pk; bool line = g.coin();
	  pk.name = gen_field(g, line); pk.email = gen_field(g, line); pk.type = gen_field(g, line); pk.nizk = gen_field(g, line);
	  pk.sig = gen_field(g, line, g.coin()); if (g.coin()) pk.sig = "sig|" + pk.sig + "|" + pk.sig + "|";
	  if (line) for (auto &ch : pk.sig) if (ch == '\n' || ch == 0) ch = '_';
	  gen_value(pk.m, g); gen_value(pk.y, g);
	  std::string t = text_of(pk);
	  emitx("io2.pub.export " + pub_fields(pk) + " => " + hexs(t) + " tag:honest");
	  emitx(std::string("io2.wf ") + (line ? "publine " : "pub ") + pub_fields(pk) + " => 1");
	  pub_import_lines(t, "tag:honest", line);
	  TMCG_PublicKey k2; bool ok = k2.import(t);
	  bool okl = true; if (line) { TMCG_PublicKey k3; std::istringstream is(t + "\n"); is >> k3; okl = is.good() && pub_fields(k3) == pub_fields(pk) && text_of(k3) == t; }
	  emitx(std::string("prop.io2.roundtrip pub ") + (line ? "line" : "string") + " => " + ((ok && pub_fields(k2) == pub_fields(pk) && text_of(k2) == t && okl) ? "1" : "0"));
	  for (int m = 0; m < 3; m++) { std::string mt = mutate_text(t, g, how); pub_import_lines(mt, "tag:mut:" + how, true); } }
	// ---- public key with the separator inside a text field: the importer shifts the fields
	if (g.below(3) == 0) { TMCG_PublicKey pk; int which = g.below(4);
	  pk.name = gen_field(g, true, which == 0); pk.email = gen_field(g, true, which == 1); pk.type = gen_field(g, true, which == 2); pk.nizk = gen_field(g, true, which == 3);
	  pk.sig = "sig|x|y|"; gen_value(pk.m, g); gen_value(pk.y, g);
	  std::string t = text_of(pk);
	  emitx("io2.pub.export " + pub_fields(pk) + " => " + hexs(t) + " tag:nonwf:separator-in-field");
	  pub_import_lines(t, "tag:nonwf:separator-in-field", true); }
	// ---- secret key, numbers consistent (precompute succeeds) or not
	{ TMCG_SecretKey sk; int variant = g.below(3) ? 0 : 1 + g.below(5); bool line = g.coin();
	  sk.name = gen_field(g, line); sk.email = gen_field(g, line); sk.type = gen_field(g, line); sk.nizk = gen_field(g, line);
	  sk.sig = gen_field(g, line, g.coin());
	  if (line) for (auto &ch : sk.sig) if (ch == '\n' || ch == 0) ch = '_';
	  set_secret_numbers(sk, g, variant);
	  bool wf = (variant == 0 || variant == 4);
	  std::string tag = wf ? "tag:honest" : "tag:nonwf:precompute-" + std::to_string(variant);
	  std::string t = text_of(sk);
	  emitx("io2.sec.export " + sec_fields(sk) + " => " + hexs(t) + " " + tag);
	  emitx("io2.wf sec " + sec_fields(sk) + " => " + (wf ? "1" : "0"));
	  sec_import_lines(t, tag, line);
	  if (wf) { TMCG_SecretKey k2; bool ok = k2.import(t);
	    bool okl = true; if (line) { TMCG_SecretKey k3; std::istringstream is(t + "\n"); is >> k3; okl = is.good() && sec_fields(k3) == sec_fields(sk) && text_of(k3) == t; }
	    // the public key derived from the imported secret key is the one derived from the original
	    TMCG_PublicKey p1(sk), p2(k2);
	    emitx(std::string("prop.io2.roundtrip sec ") + (line ? "line" : "string") + " => " + ((ok && sec_fields(k2) == sec_fields(sk) && text_of(k2) == t && okl && text_of(p1) == text_of(p2)) ? "1" : "0")); }
	  for (int m = 0; m < 3; m++) { std::string mt = mutate_text(t, g, how); sec_import_lines(mt, "tag:mut:" + how, true); } }
	// ---- a generated key (real self-signature, NIZK text in the thorough tier)
	if (c == 0) {
		TMCG_SecretKey sk("Alice Keyholder", "alice@example.org", 512, thorough);
		TMCG_PublicKey pk(sk);
		std::string ts = text_of(sk), tp = text_of(pk);
		emitx("io2.sec.export " + sec_fields(sk) + " => " + hexs(ts) + " tag:fresh");
		emitx("io2.wf sec " + sec_fields(sk) + " => 1"); emitx("io2.wf publine " + pub_fields(pk) + " => 1");
		sec_import_lines(ts, "tag:fresh", true);
		emitx("io2.pub.export " + pub_fields(pk) + " => " + hexs(tp) + " tag:fresh");
		pub_import_lines(tp, "tag:fresh", true);
		TMCG_SecretKey s2; bool ok1 = s2.import(ts); TMCG_PublicKey p2; bool ok2 = p2.import(tp);
		TMCG_SecretKey s3; std::istringstream is(ts + "\n" + tp + "\n"); is >> s3; TMCG_PublicKey p3; is >> p3;
		emitx(std::string("prop.io2.roundtrip sec generated => ") + ((ok1 && sec_fields(s2) == sec_fields(sk) && text_of(s2) == ts && is.good() && text_of(s3) == ts) ? "1" : "0"));
		emitx(std::string("prop.io2.roundtrip pub generated => ") + ((ok2 && pub_fields(p2) == pub_fields(pk) && text_of(p2) == tp && text_of(p3) == tp && p2.check() == pk.check()) ? "1" : "0"));
	}
	// ---- key ring: n keys, one per line
	{ size_t n = 1 + g.below(4); TMCG_PublicKeyRing ring(n); std::string t; int bad = g.below(4) ? -1 : (int)g.below(n);
	  for (size_t i = 0; i < n; i++) { TMCG_PublicKey &pk = ring.keys[i];
	    pk.name = gen_field(g, true); pk.email = gen_field(g, true); pk.type = gen_field(g, true); pk.nizk = gen_field(g, true); pk.sig = gen_field(g, true, g.coin());
	    gen_value(pk.m, g); gen_value(pk.y, g); std::string kt = text_of(pk);
	    if ((int)i == bad) kt = mutate_text(kt, g, how); for (auto &ch : kt) if (ch == '\n') ch = '_';
	    t += kt + "\n"; }
	  TMCG_PublicKeyRing r2(n); std::istringstream is(t); bool ok = true; std::string out = "[", t2;
	  for (size_t i = 0; i < n && ok; i++) { is >> r2.keys[i]; if (is.fail()) ok = false; else { std::string kt = text_of(r2.keys[i]); out += (i ? "," : "") + hexs(kt); t2 += kt + "\n"; } }
	  emitx("io2.ring.stream " + std::to_string(n) + " " + hexs(t) + " => " + (ok ? out + "]" : std::string("reject")) + (bad < 0 ? " tag:honest" : " tag:mut:" + how));
	  if (bad < 0) { bool same = ok; for (size_t i = 0; i < n && same; i++) same = pub_fields(r2.keys[i]) == pub_fields(ring.keys[i]);
	    emitx("prop.io2.roundtrip ring " + std::to_string(n) + " => " + ((same && t2 == t) ? "1" : "0")); } }
}

// ------------------------------------------------------------------------------------------- stream types
// one exported object of class T: export line, import line, round-trip fact, mutated texts
template <class T> struct Kind {
	std::string type, par;                                      // `par` = tokens before the text on import lines
	bool wfpar = true;                                          // `par` is also a parameter of the well-formedness line
	std::function<std::string(const T &)> fields, text;
	std::function<T *(std::istream &)> make;
	LineInfo li;
};
template <class T> static std::string import_text(const Kind<T> &K, const std::string &txt, std::string *retext)
{
	std::istringstream is(txt); T *o = NULL;
	std::string r = guarded([&]() { o = K.make(is); return K.fields(*o); });
	if (o) { if (retext) *retext = K.text(*o); delete o; }
	return r;
}
template <class T> static void run_kind(const Kind<T> &K, const T &obj, const std::string &dims, const std::string &tag, bool wf, SplitMix &g, int nmut)
{
	std::string f = K.fields(obj), t = K.text(obj), t2, how;
	emitx("io2." + K.type + ".export " + f + " => " + hexs(t) + " " + tag);
	std::string r = import_text(K, t, &t2);
	emitx("io2." + K.type + ".import " + K.par + hexs(t) + " => " + r + " " + tag);
	if (wf) emitx("prop.io2.roundtrip " + K.type + " " + dims + " => " + ((r == f && t2 == t) ? "1" : "0"));
	if (wf && tag.find("nonwf") == tag.npos && t.size() < 30000) emitx("io2.wf " + K.type + " " + (K.wfpar ? K.par : std::string()) + f + " => 1");
	for (int m = 0; m < nmut; m++) { std::string mt = mutate_lines(t, K.li, g, how); emitx("io2." + K.type + ".import " + K.par + hexs(mt) + " => " + import_text(K, mt, NULL) + " tag:mut:" + how); }
}

// non-well-formedness applied to a list of integer slots: one slot gets a too long value
static bool spoil_long(std::vector<mpz_ptr> &slots, SplitMix &g) { if (slots.empty()) return false; gen_edge(slots[g.below(slots.size())], g, false); return true; }

struct Grp { Z p, q, g, h, k; };
static Grp small_group(SplitMix &g) { SmallGroup G = make_group(g, 48 + g.below(80), 24 + g.below(20)); Grp r; r.p = G.p; r.q = G.q; r.g = G.g; r.k = G.k; mpz_powm_ui(r.h, G.g, 2 + g.below(1000), G.p); return r; }

static std::string grp_fields(mpz_srcptr a, mpz_srcptr b, mpz_srcptr c, mpz_srcptr d) { return zs(a) + " " + zs(b) + " " + zs(c) + " " + zs(d); }
static std::string com_fields(const PedersenCommitmentScheme &c) { return grp_fields(c.p, c.q, c.k, c.h) + " " + zl(c.g); }
template <class T> static std::string pub_text(const T &o) { std::ostringstream s; o.PublishGroup(s); return s.str(); }
template <class T> static std::string state_text(const T &o) { std::ostringstream s; o.PublishState(s); return s.str(); }

// choose how this object deviates from well-formedness: 0 = not at all
static int pick_dev(SplitMix &g) { return g.below(5) ? 0 : 1 + (int)g.below(2); }   // 1: p = 0, 2: a too long integer

static void group_cases(SplitMix &g, const Grp &G0, uint64_t c, bool thorough)
{
	// ---- BarnettSmartVTMF_dlog
	{ Kind<BarnettSmartVTMF_dlog> K; K.type = "vtmf"; bool pre = g.below(4) != 0; K.par = pre ? "1 " : "0 "; K.wfpar = false;
	  K.fields = [](const BarnettSmartVTMF_dlog &o) { return grp_fields(o.p, o.q, o.g, o.k); };
	  K.text = [](const BarnettSmartVTMF_dlog &o) { return pub_text(o); };
	  K.make = [pre](std::istream &in) { return new BarnettSmartVTMF_dlog(in, 16, 8, false, pre); };
	  if (c == 0) { BarnettSmartVTMF_dlog fresh(160, 64); run_kind(K, fresh, "fresh", "tag:fresh", true, g, 2); }
	  BarnettSmartVTMF_dlog o(16, 8, false, false); int dev = pick_dev(g);
	  gen_nonzero(o.p, g); gen_q(o.q, g); gen_value(o.g, g); gen_value(o.k, g);
	  if (g.below(12) == 0) gen_edge(g.coin() ? o.q : o.k, g, true);
	  if (dev == 1) mpz_set_ui(o.p, 0);
	  if (dev == 2) { std::vector<mpz_ptr> s = { o.p, o.q, o.g, o.k }; spoil_long(s, g); }
	  bool wf = dev == 0 || (dev == 1 && !pre);
	  run_kind(K, o, "random", dev == 0 ? "tag:honest" : (dev == 1 ? (pre ? "tag:nonwf:p-zero" : "tag:nonwf:p-zero-without-tables") : "tag:nonwf:long-integer"), wf, g, 3); }
	// ---- BarnettSmartVTMF_dlog_GroupQR: g is derived from p and the exponent size
	{ Kind<BarnettSmartVTMF_dlog_GroupQR> K; K.type = "qr"; unsigned long es = 2 + g.below(200); K.par = std::to_string(es) + " ";
	  K.fields = [](const BarnettSmartVTMF_dlog_GroupQR &o) { return grp_fields(o.p, o.q, o.g, o.k); };
	  K.text = [](const BarnettSmartVTMF_dlog_GroupQR &o) { return pub_text(o); };
	  K.make = [es](std::istream &in) { return new BarnettSmartVTMF_dlog_GroupQR(in, 16, es); };
	  // the object is made by the stream constructor from arbitrary numbers, then exported and imported again
	  Z p, q, gg, k; gen_nonzero(p, g, g.coin()); gen_q(q, g); gen_value(gg, g); gen_value(k, g);
	  std::ostringstream seed; seed << p.v << std::endl << q.v << std::endl << gg.v << std::endl << k.v << std::endl;
	  std::istringstream is(seed.str()); std::unique_ptr<BarnettSmartVTMF_dlog_GroupQR> o(new BarnettSmartVTMF_dlog_GroupQR(is, 16, es));
	  // export line of this type is the base class's
	  std::string f = K.fields(*o), t = K.text(*o), t2, how;
	  emitx("io2.vtmf.export " + f + " => " + hexs(t) + " tag:honest");
	  std::string r = import_text(K, t, &t2);
	  emitx("io2.qr.import " + K.par + hexs(t) + " => " + r + " tag:honest");
	  emitx("prop.io2.roundtrip qr random => " + std::string((r == f && t2 == t) ? "1" : "0"));
	  emitx("io2.wf qr " + K.par + f + " => 1");
	  // (no very long p here: the derived generator costs |p| squarings modulo p in the model, too)
	  for (int m = 0; m < 2; m++) { std::string mt; do mt = mutate_lines(t, K.li, g, how); while (how == "long-line"); emitx("io2.qr.import " + K.par + hexs(mt) + " => " + import_text(K, mt, NULL) + " tag:mut:" + how); }
	  if (c == 0) { BarnettSmartVTMF_dlog_GroupQR fresh(thorough ? 256 : 128, 64); Kind<BarnettSmartVTMF_dlog_GroupQR> K2 = K; unsigned long fs = thorough ? 256 : 128; K2.par = "64 ";
	    K2.make = [fs](std::istream &in) { return new BarnettSmartVTMF_dlog_GroupQR(in, fs, 64); };
	    std::string f2 = K2.fields(fresh), tt = K2.text(fresh), tt2; emitx("io2.vtmf.export " + f2 + " => " + hexs(tt) + " tag:fresh");
	    std::string r2 = import_text(K2, tt, &tt2); emitx("io2.qr.import 64 " + hexs(tt) + " => " + r2 + " tag:fresh");
	    emitx("prop.io2.roundtrip qr fresh => " + std::string((r2 == f2 && tt2 == tt) ? "1" : "0"));
	    emitx("io2.wf qr 64 " + f2 + " => 1"); } }
	// ---- PedersenCommitmentScheme and GrothSKC: n generators
	{ size_t n; switch (g.below(12)) { case 0: n = 255 + g.below(3); break; case 1: n = 300; break; case 2: n = 1; break; case 3: n = 30 + g.below(270); break; default: n = 1 + g.below(12); break; }
	  if (c < 12) n = (size_t[]){ 1, 2, 3, 255, 256, 257, 300, 299, 100, 17, 64, 128 }[c];
	  bool big = n <= 12; int dev = pick_dev(g);
	  PedersenCommitmentScheme o(n, G0.p, G0.q, G0.k, G0.h, 16, 8);
	  gen_nonzero(o.p, g, big); gen_q(o.q, g, big); gen_value(o.k, g, big); gen_value(o.h, g, big);
	  for (auto x : o.g) gen_value(x, g, big);
	  if (big && g.below(10) == 0) gen_edge(o.g[g.below(n)], g, true);
	  if (dev == 1) mpz_set_ui(o.p, 0);
	  if (dev == 2) { std::vector<mpz_ptr> s = o.g; s.push_back(o.h); s.push_back(o.k); spoil_long(s, g); }
	  std::string tag = dev == 0 ? "tag:honest" : (dev == 1 ? "tag:nonwf:p-zero" : "tag:nonwf:long-integer");
	  Kind<PedersenCommitmentScheme> K; K.type = "com"; K.par = std::to_string(n) + " ";
	  K.fields = com_fields; K.text = [](const PedersenCommitmentScheme &o) { return pub_text(o); };
	  K.make = [n](std::istream &in) { return new PedersenCommitmentScheme(n, in, 16, 8); };
	  run_kind(K, o, std::to_string(n), tag, dev == 0, g, n <= 12 ? 3 : 1);
	  // imported with another number of generators
	  if (n > 1 && n <= 40) { Kind<PedersenCommitmentScheme> K2 = K; size_t n2 = g.coin() ? n - 1 : n + 1; K2.par = std::to_string(n2) + " ";
	    K2.make = [n2](std::istream &in) { return new PedersenCommitmentScheme(n2, in, 16, 8); };
	    std::string t = K.text(o); emitx("io2.com.import " + K2.par + hexs(t) + " => " + import_text(K2, t, NULL) + " tag:mut:generator-count"); }
	  // GrothSKC owns such a scheme
	  if (n <= 40) { std::string t = K.text(o); std::istringstream is(t);
	    Kind<GrothSKC> S; S.type = "skc"; S.par = K.par; S.fields = [](const GrothSKC &s) { return com_fields(*s.com); };
	    S.text = [](const GrothSKC &s) { return pub_text(s); }; S.make = [n](std::istream &in) { return new GrothSKC(n, in, 80, 16, 8); };
	    if (dev == 0) { GrothSKC skc(n, is, 80, 16, 8); run_kind(S, skc, std::to_string(n), tag, true, g, 1); }
	    else emitx("io2.skc.import " + S.par + hexs(t) + " => " + import_text(S, t, NULL) + " " + tag); }
	  if (c == 0) { PedersenCommitmentScheme fresh(3, 160, 64); Kind<PedersenCommitmentScheme> K3 = K; K3.par = "3 "; K3.make = [](std::istream &in) { return new PedersenCommitmentScheme(3, in, 160, 64); };
	    run_kind(K3, fresh, "fresh", "tag:fresh", true, g, 1); } }
	// ---- PedersenTrapdoorCommitmentScheme
	{ Kind<PedersenTrapdoorCommitmentScheme> K; K.type = "trap";
	  K.fields = [](const PedersenTrapdoorCommitmentScheme &o) { return grp_fields(o.p, o.q, o.k, o.g) + " " + zs(o.h); };
	  K.text = [](const PedersenTrapdoorCommitmentScheme &o) { return pub_text(o); };
	  K.make = [](std::istream &in) { return new PedersenTrapdoorCommitmentScheme(in, 16, 8); };
	  PedersenTrapdoorCommitmentScheme o(G0.p, G0.q, G0.k, G0.g, 16, 8); int dev = pick_dev(g);
	  if (c == 0) run_kind(K, o, "fresh", "tag:fresh", true, g, 1);
	  gen_nonzero(o.p, g); gen_q(o.q, g); gen_value(o.k, g); gen_value(o.g, g); gen_value(o.h, g);
	  if (dev == 1) mpz_set_ui(o.p, 0);
	  if (dev == 2) { std::vector<mpz_ptr> s = { o.p, o.q, o.k, o.g, o.h }; spoil_long(s, g); }
	  run_kind(K, o, "random", dev == 0 ? "tag:honest" : (dev == 1 ? "tag:nonwf:p-zero" : "tag:nonwf:long-integer"), dev == 0, g, 3); }
	// ---- HooghSchoenmakersSkoricVillegasVRHE (with its PUBROTZK copy of the four integers)
	{ Kind<HooghSchoenmakersSkoricVillegasVRHE> K; K.type = "vrhe";
	  K.fields = [](const HooghSchoenmakersSkoricVillegasVRHE &o) { return grp_fields(o.p, o.q, o.g, o.h); };
	  K.text = [](const HooghSchoenmakersSkoricVillegasVRHE &o) { return pub_text(o); };
	  K.make = [](std::istream &in) { auto *o = new HooghSchoenmakersSkoricVillegasVRHE(in, 16, 8);
	    // the inner argument object holds the same four integers
	    if (mpz_cmp(o->pub_rot_zk->p, o->p) || mpz_cmp(o->pub_rot_zk->q, o->q) || mpz_cmp(o->pub_rot_zk->g, o->g) || mpz_cmp(o->pub_rot_zk->h, o->h)) emitx("prop.io2.roundtrip vrhe pubrotzk-copy => 0");
	    return o; };
	  HooghSchoenmakersSkoricVillegasVRHE o(G0.p, G0.q, G0.g, G0.h, 16, 8); int dev = pick_dev(g);
	  if (c == 0) run_kind(K, o, "fresh", "tag:fresh", true, g, 1);
	  gen_nonzero(o.p, g); gen_q(o.q, g); gen_value(o.g, g); gen_value(o.h, g);
	  if (dev == 1) mpz_set_ui(o.p, 0);
	  if (dev == 2) { std::vector<mpz_ptr> s = { o.p, o.q, o.g, o.h }; spoil_long(s, g); }
	  run_kind(K, o, "random", dev == 0 ? "tag:honest" : (dev == 1 ? "tag:nonwf:p-zero" : "tag:nonwf:long-integer"), dev == 0, g, 3); }
	// ---- NaorPinkasEOTP
	{ Kind<NaorPinkasEOTP> K; K.type = "eotp";
	  K.fields = [](const NaorPinkasEOTP &o) { return zs(o.p) + " " + zs(o.q) + " " + zs(o.g); };
	  K.text = [](const NaorPinkasEOTP &o) { return pub_text(o); };
	  K.make = [](std::istream &in) { return new NaorPinkasEOTP(in, 16, 8); };
	  NaorPinkasEOTP o(G0.p, G0.q, G0.g, 16, 8); int dev = pick_dev(g);
	  if (c == 0) run_kind(K, o, "fresh", "tag:fresh", true, g, 1);
	  gen_nonzero(o.p, g); gen_q(o.q, g); gen_value(o.g, g);
	  if (dev == 1) mpz_set_ui(o.p, 0);
	  if (dev == 2) { std::vector<mpz_ptr> s = { o.p, o.q, o.g }; spoil_long(s, g); }
	  run_kind(K, o, "random", dev == 0 ? "tag:honest" : (dev == 1 ? "tag:nonwf:p-zero" : "tag:nonwf:long-integer"), dev == 0, g, 3); }
	// ---- GrothVSSHE
	{ size_t n = 1 + g.below(g.below(6) ? 8 : 60); int dev = pick_dev(g); bool big = n <= 8;
	  Kind<GrothVSSHE> K; K.type = "vsshe"; K.par = std::to_string(n) + " ";
	  K.fields = [](const GrothVSSHE &o) {
	    // the inner SKC argument owns a copy of the commitment scheme: it must be the same
	    if (com_fields(*o.skc->com) != com_fields(*o.com)) emitx("prop.io2.roundtrip vsshe skc-copy => 0");
	    return grp_fields(o.p, o.q, o.g, o.h) + " " + com_fields(*o.com); };
	  K.text = [](const GrothVSSHE &o) { return pub_text(o); };
	  K.make = [n](std::istream &in) { return new GrothVSSHE(n, in, 80, 16, 8); };
	  GrothVSSHE o(n, G0.p, G0.q, G0.k, G0.g, G0.h, 80, 16, 8);
	  if (c == 0) run_kind(K, o, "fresh:" + std::to_string(n), "tag:fresh", true, g, 1);
	  gen_nonzero(o.p, g, big); gen_q(o.q, g, big); gen_value(o.g, g, big); gen_value(o.h, g, big);
	  gen_nonzero(o.com->p, g, big); gen_q(o.com->q, g, big); gen_value(o.com->k, g, big); gen_value(o.com->h, g, big);
	  for (auto x : o.com->g) gen_value(x, g, big);
	  if (dev == 1) mpz_set_ui(g.coin() ? o.p : o.com->p, 0);
	  if (dev == 2) { std::vector<mpz_ptr> s = o.com->g; s.push_back(o.h); s.push_back(o.com->k); spoil_long(s, g); }
	  // keep the inner copy in step with the modified scheme (the exporter's objects have them equal)
	  mpz_set(o.skc->com->p, o.com->p); mpz_set(o.skc->com->q, o.com->q); mpz_set(o.skc->com->k, o.com->k); mpz_set(o.skc->com->h, o.com->h);
	  for (size_t j = 0; j < n; j++) mpz_set(o.skc->com->g[j], o.com->g[j]);
	  run_kind(K, o, std::to_string(n), dev == 0 ? "tag:honest" : (dev == 1 ? "tag:nonwf:p-zero" : "tag:nonwf:long-integer"), dev == 0, g, 3); }
}

// ------------------------------------------------------------------------------------------- persisted state
static void set_qual(std::vector<size_t> &Q, size_t n, SplitMix &g, int how)
{
	Q.clear();
	switch (how) {
	case 0: { std::vector<size_t> all(n); for (size_t i = 0; i < n; i++) all[i] = i; for (size_t a = n; a > 1; a--) std::swap(all[a - 1], all[g.below(a)]);
	          size_t m = g.below(3) ? n : g.below(n + 1); for (size_t i = 0; i < m; i++) Q.push_back(all[i]); if (g.coin()) std::sort(Q.begin(), Q.end()); } break;
	case 1: for (size_t i = 0; i < n; i++) Q.push_back(g.below(n)); break;                    // repeated members: still within the limits
	case 2: for (size_t i = 0; i <= n; i++) Q.push_back(i % n); break;                        // one member too many
	default: for (size_t i = 0; i < n; i++) Q.push_back(i); Q[g.below(n)] = n + g.below(3); break;  // a member out of range
	}
}
static std::string head_fields(mpz_srcptr p, mpz_srcptr q, mpz_srcptr gg, mpz_srcptr h, size_t n, size_t t, size_t i, mpz_srcptr x, mpz_srcptr xp, mpz_srcptr y, const std::vector<size_t> &Q)
{ return grp_fields(p, q, gg, h) + " " + std::to_string(n) + " " + std::to_string(t) + " " + std::to_string(i) + " " + zs(x) + " " + zs(xp) + " " + zs(y) + " " + nl_(Q); }

template <class R> static std::string rvss_flat(const R &o)
{
	std::string s = "["; bool f = true;
	for (size_t ii = 0; ii < o.n; ii++) {
		for (size_t j = 0; j < o.n; j++) { if (!f) s += ","; f = false; s += zs(o.s_ji[j][ii]) + "," + zs(o.sprime_ji[j][ii]); }
		for (size_t k = 0; k < o.C_ik[ii].size(); k++) { if (!f) s += ","; f = false; s += zs(o.C_ik[ii][k]); } }
	return s + "]";
}
static std::string rvss_fields(const CanettiGennaroJareckiKrawczykRabinRVSS &o)
{ return grp_fields(o.p, o.q, o.g, o.h) + " " + std::to_string(o.n) + " " + std::to_string(o.t) + " " + std::to_string(o.i) + " " + std::to_string(o.tprime) + " " + zs(o.x_i) + " " + zs(o.xprime_i) + " " + zs(o.z_i) + " " + zs(o.zprime_i) + " " + nl_(o.QUAL) + " " + rvss_flat(o); }
static std::string zvss_fields(const CanettiGennaroJareckiKrawczykRabinZVSS &o)
{ return grp_fields(o.p, o.q, o.g, o.h) + " " + std::to_string(o.n) + " " + std::to_string(o.t) + " " + std::to_string(o.i) + " " + std::to_string(o.tprime) + " " + zs(o.x_i) + " " + zs(o.xprime_i) + " " + nl_(o.QUAL) + " " + rvss_flat(o); }
static std::string cdkg_fields(const CanettiGennaroJareckiKrawczykRabinDKG &o)
{ return head_fields(o.p, o.q, o.g, o.h, o.n, o.t, o.i, o.x_i, o.xprime_i, o.y, o.QUAL) + " " + rvss_fields(*o.x_rvss); }
static std::string dss_fields(const CanettiGennaroJareckiKrawczykRabinDSS &o)
{ return head_fields(o.p, o.q, o.g, o.h, o.n, o.t, o.i, o.x_i, o.xprime_i, o.y, o.QUAL) + " " + cdkg_fields(*o.dkg); }
static std::string gdkg_fields(const GennaroJareckiKrawczykRabinDKG &o)
{
	std::string s = "["; bool f = true;
	for (size_t i = 0; i < o.n; i++) {
		for (size_t j = 0; j < o.n; j++) { if (!f) s += ","; f = false; s += zs(o.s_ij[i][j]) + "," + zs(o.sprime_ij[i][j]); }
		for (size_t k = 0; k < o.C_ik[i].size(); k++) { if (!f) s += ","; f = false; s += zs(o.C_ik[i][k]); } }
	return head_fields(o.p, o.q, o.g, o.h, o.n, o.t, o.i, o.x_i, o.xprime_i, o.y, o.QUAL) + " " + zl(o.y_i) + " " + zl(o.z_i) + " " + zl(o.v_i) + " " + s + "]";
}
static std::string vss_fields(const PedersenVSS &o)
{ return grp_fields(o.p, o.q, o.g, o.h) + " " + std::to_string(o.n) + " " + std::to_string(o.t) + " " + std::to_string(o.i) + " " + zs(o.sigma_i) + " " + zs(o.tau_i) + " " + zl(o.a_j) + " " + zl(o.b_j) + " " + zl(o.A_j); }

// collect the integer slots of an object (to fill them and to spoil one)
template <class R> static void rvss_slots(R &o, std::vector<mpz_ptr> &s) { for (auto &row : o.s_ji) for (auto x : row) s.push_back(x); for (auto &row : o.sprime_ji) for (auto x : row) s.push_back(x); for (auto &row : o.C_ik) for (auto x : row) s.push_back(x); }

struct Dev { int kind; std::string tag; bool wf; };
// 0 none; 1 p = 0; 2 long integer; 3 QUAL one too many; 4 QUAL member out of range
static Dev pick_state_dev(SplitMix &g, bool has_qual)
{
	if (g.below(4)) return { 0, "tag:honest", true };
	switch (g.below(has_qual ? 4 : 2)) {
	case 0: return { 1, "tag:nonwf:p-zero", false };
	case 1: return { 2, "tag:nonwf:long-integer", false };
	case 2: return { 3, "tag:nonwf:qual-size", false };
	default: return { 4, "tag:nonwf:qual-member", false };
	}
}
// the first slot of every list is the subgroup order q
static void fill(std::vector<mpz_ptr> &s, SplitMix &g, bool big) { for (auto x : s) gen_value(x, g, big && g.below(6) == 0); gen_q(s[0], g, big); }

static void state_cases(SplitMix &g, const Grp &G0, size_t n, size_t t, uint64_t c)
{
	std::string dims = "n=" + std::to_string(n) + ",t=" + std::to_string(t);
	size_t i = g.below(n);
	bool big = n <= 4;
	// ---- PedersenVSS
	{ Kind<PedersenVSS> K; K.type = "vss"; K.fields = vss_fields; K.text = [](const PedersenVSS &o) { return state_text(o); };
	  K.make = [](std::istream &in) { return new PedersenVSS(in, 16, 8, false, "io2"); }; K.li.counts = { 4, 5, 6 };
	  PedersenVSS o(n, t, i, G0.p, G0.q, G0.g, G0.h, 16, 8, false, "io2");
	  run_kind(K, o, "fresh," + dims, "tag:fresh", true, g, 1);
	  Dev d = pick_state_dev(g, false);
	  std::vector<mpz_ptr> s = { o.q, o.g, o.h, o.sigma_i, o.tau_i }; for (auto x : o.a_j) s.push_back(x); for (auto x : o.b_j) s.push_back(x); for (auto x : o.A_j) s.push_back(x);
	  gen_nonzero(o.p, g, big); fill(s, g, big);
	  if (g.below(10) == 0) gen_edge(s[g.below(s.size())], g, true);
	  if (d.kind == 1) mpz_set_ui(o.p, 0); if (d.kind == 2) spoil_long(s, g);
	  run_kind(K, o, dims, d.tag, d.wf, g, 4);
	  // dimensions the importer refuses although the constructor took them
	  if (c % 8 == 0) { size_t n2, t2, i2; const char *why;
	    switch (g.below(4)) { case 0: n2 = TMCG_MAX_DKG_PLAYERS + 1; t2 = 1; i2 = 0; why = "n-too-large"; break; case 1: n2 = n; t2 = n + 1; i2 = i; why = "t-above-n"; break; case 2: n2 = n; t2 = t; i2 = n; why = "i-not-below-n"; break; default: n2 = TMCG_MAX_DKG_PLAYERS; t2 = 2; i2 = TMCG_MAX_DKG_PLAYERS - 1; why = 0; break; }
	    PedersenVSS o2(n2, t2, i2, G0.p, G0.q, G0.g, G0.h, 16, 8, false, "io2");
	    run_kind(K, o2, "n=" + std::to_string(n2) + ",t=" + std::to_string(t2), why ? std::string("tag:nonwf:") + why : std::string("tag:honest"), why == 0, g, 1); } }
	// ---- GennaroJareckiKrawczykRabinDKG
	{ Kind<GennaroJareckiKrawczykRabinDKG> K; K.type = "gdkg"; K.fields = gdkg_fields; K.text = [](const GennaroJareckiKrawczykRabinDKG &o) { return state_text(o); };
	  K.make = [](std::istream &in) { return new GennaroJareckiKrawczykRabinDKG(in, 16, 8, false, false, "io2"); };
	  GennaroJareckiKrawczykRabinDKG o(n, t, i, G0.p, G0.q, G0.g, G0.h, 16, 8, false, false, "io2");
	  K.li.counts = { 4, 5, 6, 10 };
	  run_kind(K, o, "fresh," + dims, "tag:fresh", true, g, 1);
	  Dev d = pick_state_dev(g, true);
	  std::vector<mpz_ptr> s = { o.q, o.g, o.h, o.x_i, o.xprime_i, o.y };
	  for (auto x : o.y_i) s.push_back(x); for (auto x : o.z_i) s.push_back(x); for (auto x : o.v_i) s.push_back(x);
	  for (auto &row : o.s_ij) for (auto x : row) s.push_back(x); for (auto &row : o.sprime_ij) for (auto x : row) s.push_back(x); for (auto &row : o.C_ik) for (auto x : row) s.push_back(x);
	  gen_nonzero(o.p, g, big); fill(s, g, big);
	  set_qual(o.QUAL, n, g, d.kind == 3 ? 2 : (d.kind == 4 ? 3 : (int)g.below(2)));
	  if (d.kind == 1) mpz_set_ui(o.p, 0); if (d.kind == 2) spoil_long(s, g);
	  K.li.q.push_back({ 11, 11 + o.QUAL.size() }); for (size_t j = 0; j < o.QUAL.size(); j++) K.li.counts.push_back(11 + j);
	  run_kind(K, o, dims, d.tag, d.wf, g, 4);
	  // PublishVerificationKeys: the public part, importable by the same constructor
	  { std::ostringstream pk; o.PublishVerificationKeys(pk); std::string t = pk.str();
	    emitx("io2.gdkg.keys " + gdkg_fields(o) + " => " + hexs(t) + " " + d.tag);
	    Kind<GennaroJareckiKrawczykRabinDKG> K2 = K; K2.text = [](const GennaroJareckiKrawczykRabinDKG &o) { std::ostringstream s; o.PublishVerificationKeys(s); return s.str(); };
	    std::string t2, r = import_text(K2, t, &t2);
	    emitx("io2.gdkg.import " + hexs(t) + " => " + r + " " + d.tag);
	    if (d.wf) emitx("prop.io2.roundtrip gdkg-keys " + dims + " => " + std::string(t2 == t ? "1" : "0")); } }
	// ---- CanettiGennaroJareckiKrawczykRabinRVSS / ZVSS
	size_t tp = g.below(n + 1);
	std::string dims2 = dims + ",tprime=" + std::to_string(tp);
	{ Kind<CanettiGennaroJareckiKrawczykRabinRVSS> K; K.type = "rvss"; K.fields = rvss_fields; K.text = [](const CanettiGennaroJareckiKrawczykRabinRVSS &o) { return state_text(o); };
	  K.make = [](std::istream &in) { return new CanettiGennaroJareckiKrawczykRabinRVSS(in, 16, 8, false, false, "io2"); };
	  CanettiGennaroJareckiKrawczykRabinRVSS o(n, t, i, tp, G0.p, G0.q, G0.g, G0.h, 16, 8, false, false, "io2");
	  K.li.counts = { 4, 5, 6, 7, 12 };
	  run_kind(K, o, "fresh," + dims2, "tag:fresh", true, g, 1);
	  Dev d = pick_state_dev(g, true);
	  std::vector<mpz_ptr> s = { o.q, o.g, o.h, o.x_i, o.xprime_i, o.z_i, o.zprime_i }; rvss_slots(o, s);
	  gen_nonzero(o.p, g, big); fill(s, g, big);
	  set_qual(o.QUAL, n, g, d.kind == 3 ? 2 : (d.kind == 4 ? 3 : (int)g.below(2)));
	  if (d.kind == 1) mpz_set_ui(o.p, 0); if (d.kind == 2) spoil_long(s, g);
	  K.li.q.push_back({ 13, 13 + o.QUAL.size() }); for (size_t j = 0; j < o.QUAL.size(); j++) K.li.counts.push_back(13 + j);
	  run_kind(K, o, dims2, d.tag, d.wf, g, 4); }
	{ Kind<CanettiGennaroJareckiKrawczykRabinZVSS> K; K.type = "zvss"; K.fields = zvss_fields; K.text = [](const CanettiGennaroJareckiKrawczykRabinZVSS &o) { return state_text(o); };
	  K.make = [](std::istream &in) { return new CanettiGennaroJareckiKrawczykRabinZVSS(in, 16, 8, false, false, "io2"); };
	  CanettiGennaroJareckiKrawczykRabinZVSS o(n, t, i, tp, G0.p, G0.q, G0.g, G0.h, 16, 8, false, false, "io2");
	  K.li.counts = { 4, 5, 6, 7, 10 };
	  run_kind(K, o, "fresh," + dims2, "tag:fresh", true, g, 1);
	  Dev d = pick_state_dev(g, true);
	  std::vector<mpz_ptr> s = { o.q, o.g, o.h, o.x_i, o.xprime_i }; rvss_slots(o, s);
	  gen_nonzero(o.p, g, big); fill(s, g, big);
	  set_qual(o.QUAL, n, g, d.kind == 3 ? 2 : (d.kind == 4 ? 3 : (int)g.below(2)));
	  if (d.kind == 1) mpz_set_ui(o.p, 0); if (d.kind == 2) spoil_long(s, g);
	  K.li.q.push_back({ 11, 11 + o.QUAL.size() }); for (size_t j = 0; j < o.QUAL.size(); j++) K.li.counts.push_back(11 + j);
	  run_kind(K, o, dims2, d.tag, d.wf, g, 4); }
	// ---- CanettiGennaroJareckiKrawczykRabinDKG (with x_rvss) and DSS (with dkg)
	auto fill_cdkg = [&](CanettiGennaroJareckiKrawczykRabinDKG &o, std::vector<mpz_ptr> &s, int qk) {
		s.push_back(o.q); s.push_back(o.g); s.push_back(o.h); s.push_back(o.x_i); s.push_back(o.xprime_i); s.push_back(o.y);
		CanettiGennaroJareckiKrawczykRabinRVSS &r = *o.x_rvss;
		s.push_back(r.q); s.push_back(r.g); s.push_back(r.h); s.push_back(r.x_i); s.push_back(r.xprime_i); s.push_back(r.z_i); s.push_back(r.zprime_i); rvss_slots(r, s);
		gen_nonzero(o.p, g, big); gen_nonzero(r.p, g, big);
		set_qual(o.QUAL, n, g, qk == 0 ? (int)g.below(2) : qk); set_qual(r.QUAL, n, g, (int)g.below(2)); };
	{ Kind<CanettiGennaroJareckiKrawczykRabinDKG> K; K.type = "cdkg"; K.fields = cdkg_fields; K.text = [](const CanettiGennaroJareckiKrawczykRabinDKG &o) { return state_text(o); };
	  K.make = [](std::istream &in) { return new CanettiGennaroJareckiKrawczykRabinDKG(in, 16, 8, false, false, "io2"); };
	  CanettiGennaroJareckiKrawczykRabinDKG o(n, t, i, G0.p, G0.q, G0.g, G0.h, 16, 8, false, false, "io2");
	  K.li.counts = { 4, 5, 6, 10 };
	  run_kind(K, o, "fresh," + dims, "tag:fresh", true, g, 1);
	  Dev d = pick_state_dev(g, true);
	  std::vector<mpz_ptr> s; fill_cdkg(o, s, d.kind == 3 ? 2 : (d.kind == 4 ? 3 : 0)); fill(s, g, big); gen_q(o.x_rvss->q, g, big);
	  if (d.kind == 1) mpz_set_ui(g.coin() ? o.p : o.x_rvss->p, 0); if (d.kind == 2) spoil_long(s, g);
	  size_t q1 = o.QUAL.size(), base2 = 11 + q1; K.li.q.push_back({ 11, 11 + q1 }); K.li.q.push_back({ base2 + 13, base2 + 13 + o.x_rvss->QUAL.size() });
	  for (size_t j = 0; j < q1; j++) K.li.counts.push_back(11 + j);
	  for (size_t j : { 4, 5, 6, 7, 12 }) K.li.counts.push_back(base2 + j);
	  run_kind(K, o, dims, d.tag, d.wf, g, 4); }
	{ Kind<CanettiGennaroJareckiKrawczykRabinDSS> K; K.type = "dss"; K.fields = dss_fields; K.text = [](const CanettiGennaroJareckiKrawczykRabinDSS &o) { return state_text(o); };
	  K.make = [](std::istream &in) { return new CanettiGennaroJareckiKrawczykRabinDSS(in, 16, 8, false, false); };
	  CanettiGennaroJareckiKrawczykRabinDSS o(n, t, i, G0.p, G0.q, G0.g, G0.h, 16, 8, false, false);
	  K.li.counts = { 4, 5, 6, 10 };
	  run_kind(K, o, "fresh," + dims, "tag:fresh", true, g, 1);
	  Dev d = pick_state_dev(g, true);
	  std::vector<mpz_ptr> s = { o.q, o.g, o.h, o.x_i, o.xprime_i, o.y }; gen_nonzero(o.p, g, big);
	  set_qual(o.QUAL, n, g, d.kind == 3 ? 2 : (d.kind == 4 ? 3 : (int)g.below(2)));
	  fill_cdkg(*o.dkg, s, 0); fill(s, g, big); gen_q(o.dkg->q, g, big); gen_q(o.dkg->x_rvss->q, g, big);
	  if (d.kind == 1) mpz_set_ui(g.below(3) == 0 ? o.p : (g.coin() ? o.dkg->p : o.dkg->x_rvss->p), 0); if (d.kind == 2) spoil_long(s, g);
	  size_t q1 = o.QUAL.size(), q2 = o.dkg->QUAL.size(), b2 = 11 + q1, b3 = b2 + 11 + q2; K.li.q.push_back({ 11, 11 + q1 }); K.li.q.push_back({ b2 + 11, b2 + 11 + q2 }); K.li.q.push_back({ b3 + 13, b3 + 13 + o.dkg->x_rvss->QUAL.size() });
	  for (size_t j = 0; j < q1; j++) K.li.counts.push_back(11 + j);
	  for (size_t j : { 4, 5, 6, 10 }) K.li.counts.push_back(b2 + j);
	  for (size_t j : { 4, 5, 6, 7, 12 }) K.li.counts.push_back(b3 + j);
	  run_kind(K, o, dims, d.tag, d.wf, g, 4); }
}

// ------------------------------------------------------------------------------------------- primitives
static void primitive_cases(SplitMix &g)
{
	// one `in >> mpz` on a text: value, good(), characters left
	{ Z v; std::string t;
	  switch (g.below(8)) {
	  case 0: gen_edge(v, g, true); t = text_of(v.v) + "\n"; break;
	  case 1: gen_edge(v, g, false); t = text_of(v.v) + "\n"; break;
	  case 2: gen_value(v, g); t = text_of(v.v); break;                              // no newline: eof
	  case 3: gen_value(v, g); t = text_of(v.v) + "\n" + "rest\n"; break;
	  case 4: t = std::string(g.below(3), ' ') + "\n"; break;
	  case 5: t = ""; break;
	  case 6: gen_value(v, g); t = " " + text_of(v.v) + "\r\n"; break;
	  default: gen_value(v, g); t = text_of(v.v) + "\n"; { std::string how; LineInfo li; t = mutate_lines(t, li, g, how); } break; }
	  std::istringstream is(t); Z w; std::string r = guarded([&]() { is >> w.v; std::string rest((std::istreambuf_iterator<char>(is.rdbuf())), std::istreambuf_iterator<char>()); return w.str() + " " + (is.good() ? "1" : "0") + " " + std::to_string(rest.size()); });
	  emitx("io2.mpzline " + hexs(t) + " => " + r); }
	// `std::stringstream(text) >> n`
	{ static const char *vals[] = { "", " ", "0", "7", " 12", "12 ", "+5", "-1", "-", "+", "0x10", "010", "18446744073709551615", "18446744073709551616", "99999999999999999999", "-18446744073709551615", "-18446744073709551616", "1e3", "\t3", "3\n4", "x", "-x", "3x", "256", "257", "\v\f\r 9" };
	  std::string t = g.below(3) == 0 ? std::to_string(g.next() >> g.below(64)) : vals[g.below(26)];
	  size_t cur = g.below(3) ? 0 : g.below(1000), n = cur; std::stringstream(t) >> n;
	  emitx("io2.size " + std::to_string(cur) + " " + hexs(t) + " => " + std::to_string(n)); }
}

static int drv_io2(const Opts &o)
{
	SplitMix g(o.seed ^ 0x696f32);
	bool thorough = (o.tier == "thorough");
	// types without any export / import in the library
	for (const char *t : { "TMCG_OpenStack", "TMCG_PublicKeyRing", "JareckiLysyanskayaRVSS", "JareckiLysyanskayaEDCF", "GennaroJareckiKrawczykRabinNTS", "HooghSchoenmakersSkoricVillegasPUBROTZK" })
		emitx(std::string("prop.io2.noexport ") + t + " => 1");
	Grp G0 = small_group(g);
	// the (n, t) schedule: every n = 1..7 with every admissible t = 0..n
	std::vector<std::pair<size_t, size_t> > nts; for (size_t n = 1; n <= 7; n++) for (size_t t = 0; t <= n; t++) nts.push_back({ n, t });
	double tm[6] = {0,0,0,0,0,0}; auto now = []() { struct timespec ts; clock_gettime(CLOCK_MONOTONIC, &ts); return ts.tv_sec + ts.tv_nsec * 1e-9; }; double t0;
	for (uint64_t c = 0; c < o.cases; c++) {
		t0 = now();
		// ---- cards: the dimensions sweep 1..32 × 1..10 (five per case, offset by the seed: 64 cases cover all)
		for (int r = 0; r < 5; r++) { uint64_t d = (c * 5 + r + o.seed * 7) % (TMCG_MAX_PLAYERS * TMCG_MAX_TYPEBITS);
			card_cases(g, 1 + d % TMCG_MAX_PLAYERS, 1 + d / TMCG_MAX_PLAYERS, g.below(4) == 0); }
		tm[0] += now() - t0; t0 = now();
		{ size_t n; switch (g.below(thorough ? 30 : 120)) { case 0: n = 511 + g.below(2); break; case 1: case 2: n = 52; break; default: n = 1 + g.below(6); break; }
		  stack_cases(g, n, g.coin()); }
		tm[1] += now() - t0; t0 = now();
		key_cases(g, thorough, c);
		tm[2] += now() - t0; t0 = now();
		if (c % 16 == 0 && c) G0 = small_group(g);
		group_cases(g, G0, c, thorough);
		tm[3] += now() - t0; t0 = now();
		{ auto nt = nts[(c + o.seed * 5) % nts.size()]; state_cases(g, G0, nt.first, nt.second, c); }
		tm[4] += now() - t0; t0 = now();
		for (int r = 0; r < 4; r++) primitive_cases(g);
		tm[5] += now() - t0;
	}
	if (o.has("--times")) fprintf(stderr, "io2 times: cards %.2f stacks %.2f keys %.2f groups %.2f states %.2f prim %.2f\n", tm[0], tm[1], tm[2], tm[3], tm[4], tm[5]);
	return 0;
}
REGISTER_DRIVER("io2", drv_io2);

} // namespace io2drv
