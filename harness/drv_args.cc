// C03 / C04 / C05 for the rotation argument (HooghSchoenmakersSkoricVillegasVRHE with its sub-protocol
// PUBROTZK) and the shuffle argument (GrothVSSHE with GrothSKC and PedersenCommitmentScheme), all three
// modes: interactive, public-coin (every challenge a two-party coin flip), non-interactive (Fiat-Shamir).
//
// Every prover and every verifier entry point of the real library is run on its own (single thread):
// the peer's lines are pre-loaded into the input stream.  This is possible without ping-pong passes because
// the arguments are public coin: everything the verifier writes is a function of its coins alone
// (interactive: the drawn challenges; public-coin: per flip its commitment C = g'^c h'^hc and the
// opening c, hc), so the harness chooses the verifier's coins, PREDICTS the verifier's lines, runs the real
// prover on them, and then runs the real verifier with exactly these coins scripted on the prover's
// output.  The verify line shows what the verifier really wrote; an honest proof is only accepted when
// the prediction was right.
//
// Line formats (all integers decimal; lists `[a,b,…]`; card lists `[c1:c2,…]`; a peer line that is no
// base-62 integer is `x`; `[crs]` = `[p',q',g',h']` (group of the coin flip) or `[]`; `[log]` = the hash
// oracle queries `hex(query):answer`; verdict = 1 | 0 | throw:<class> | trap:abort, first on the right):
//   args.vrhe.prove.<mode>  p q g h r [s] [X] [Y] [coins] [peer] [log] [crs] tag => verdict [sent]
//   args.vrhe.verify.<mode> p q g h [X] [Y] [coins] [peer] trunc [log] [crs] tag => verdict [sent]
//   args.rot.prove.<mode>   p q g h r [s] [alpha] [c] [coins] [peer] [log] [crs] tag => verdict [sent]
//   args.rot.verify.<mode>  p q g h [alpha] [c] [coins] [peer] trunc [log] [crs] tag => verdict [sent]
//   args.hoogh.witness [idx:r,…] => r [R]        (witness derived by TMCG_ProveStackEquality_Hoogh)
//   args.groth.prove.<mode>  p q g h le [cg] [pi] [R] [e] [E] [coins] [peer] [log] [crs] tag => verdict [sent]
//   args.groth.verify.<mode> p q g h le [cg] [e] [E] [coins] [peer] trunc [log] [crs] tag => verdict [sent]
//   args.groth.witness [idx:r,…] => [pi] [R]     (witness derived by TMCG_ProveStackEquality_Groth)
//   args.tmcg.hoogh.verify.<mode> / args.tmcg.groth.verify.<mode>: TMCG_VerifyStackEquality_Hoogh/_Groth(_noninteractive),
//   same arguments as args.vrhe.verify / args.groth.verify with [X] [Y] = the stacks s, s2 (modes publiccoin, noninteractive)
//   le = challenge length l_e, [cg] = commitment generators g_1..g_n (the commitment's h is the key h);
//   the Groth verifier's [coins] are the values of its tmcg_mpz_srandomb draws (t_i, lambda, x, e — redrawn
//   while zero —, and the batch-verification alpha) resp. of the flips' srandomm draws.
//   <mode> = interactive | publiccoin | noninteractive;  [coins] = the values of the party's
//   tmcg_mpz_srandomm draws in draw order (the 8-byte draws of Flip_twoparty are not listed);
//   trunc = 1: the peer's last line has no newline.
// Tags: honest; cheat:<false statement>; mut:<field>:<how> (one transmitted value or statement component
// changed); equiv:<field>:<how> (another representative of the same value: must be accepted);
// direct-stmt:<field>:<how> (a STATEMENT component changed in a direct call of a class verifier, which does not
// validate its statement: informational, no verdict expected; the stack-level verifiers args.tmcg.* do, there `mut:`);
// lucky:<what> (a false statement with the one challenge value that lets it pass: soundness error made
// visible, expected 1); unlucky:<what> (a TRUE statement and an honest prover whose coins make the verifier
// refuse: completeness error made visible, expected 0); peer-silent / peer-stops.
#include <sys/resource.h>
#include "common.hh"
#include <memory>
#include <algorithm>
#include <unistd.h>
#include <sys/wait.h>
#include <signal.h>
#include <fcntl.h>

namespace {

std::string oracle_log()
{
	std::vector<std::string> qs; qs.swap(hashlog.shash_inputs); hashlog.raw.clear();
	bool was = hashlog.log; hashlog.log = false;
	std::string s = "[";
	for (size_t i = 0; i < qs.size(); i++) {
		Z a; tmcg_mpz_shash(a, qs[i]);
		if (i) s += ",";
		s += hexs(qs[i]) + ":" + a.str();
	}
	hashlog.log = was;
	return s + "]";
}

void coin_mod(mpz_ptr r, const CoinLogEntry &e, mpz_srcptr m)
{
	mpz_import(r, e.bytes.size(), 1, 1, 1, 0, e.bytes.data()); mpz_mod(r, r, m);
}
// bytes that make the next srandomm(·, m) draw return exactly v (0 <= v < m)
void script_mod(std::vector<unsigned char> &script, mpz_srcptr v, mpz_srcptr m)
{
	size_t n = (mpz_sizeinbase(m, 2) + 64 + 7) / 8;
	std::vector<unsigned char> b(n, 0); size_t cnt = 0;
	std::vector<unsigned char> tmp(n + 8, 0);
	mpz_export(tmp.data(), &cnt, 1, 1, 1, 0, v);
	memcpy(b.data() + (n - cnt), tmp.data(), cnt);
	script.insert(script.end(), b.begin(), b.end());
}

typedef std::vector<Z> ZV;
typedef std::vector<std::pair<mpz_ptr, mpz_ptr> > PairVec;

enum Mode { INTER = 0, PC = 1, NI = 2 };
const char *mode_name[3] = { "interactive", "publiccoin", "noninteractive" };

struct Env {
	SmallGroup sg; unsigned pbits, qbits;
	std::unique_ptr<BarnettSmartVTMF_dlog> A, B;
	std::unique_ptr<HooghSchoenmakersSkoricVillegasVRHE> vP, vV;
	// group of the coin flip
	Z cp, cq, cg, ch; unsigned cpb, cqb; bool own_crs;
	std::unique_ptr<JareckiLysyanskayaEDCF> eP, eV;
	bool flips_possible = true;
	unsigned rb_bits = 0;   // != 0: the party's non-flip draws are tmcg_mpz_srandomb(·, rb_bits)
	unsigned le = 0; std::unique_ptr<GrothVSSHE> gP, gV;
	mpz_srcptr p() const { return A->p; } mpz_srcptr q() const { return A->q; }
	std::string pqgh() const { return zs(A->p) + " " + zs(A->q) + " " + zs(A->g) + " " + zs(A->h); }
	std::string crs(int mode) const { return mode == PC ? "[" + cp.str() + "," + cq.str() + "," + cg.str() + "," + ch.str() + "]" : std::string("[]"); }
};

void rand_elem(const Env &c, SplitMix &g, mpz_ptr a) { Z e; gen_below(e, g, c.A->q); mpz_powm(a, c.A->g, e, c.A->p); }

// the mutation catalogue of DESIGN.md §5 C05 (same as drv_zk.cc); false when the mutation is the identity
bool mutate(SplitMix &g, int how, mpz_ptr v, const Env &c, std::string &name)
{
	Z old; mpz_set(old, v);
	switch (how) {
	case 0: mpz_add_ui(v, v, 1); name = "plus1"; break;
	case 1: mpz_sub_ui(v, v, 1); name = "minus1"; break;
	case 2: mpz_set_ui(v, 0); name = "zero"; break;
	case 3: mpz_set_ui(v, 1); name = "one"; break;
	case 4: mpz_sub_ui(v, c.A->p, 1); name = "pm1"; break;
	case 5: mpz_add(v, v, c.A->q); name = "plusq"; break;
	case 6: mpz_add(v, v, c.A->p); name = "plusp"; break;
	case 7: mpz_neg(v, v); name = "neg"; break;
	case 8: rand_elem(c, g, v); name = "otherelem"; break;
	case 9: gen_below(v, g, c.A->q); name = "otherexp"; break;
	case 10: mpz_sub(v, c.A->p, v); name = "negelem"; break;   // p - v: element of order 2q
	case 11: mpz_mul_2exp(v, v, 300); name = "huge"; break;
	default: mpz_mul_ui(v, v, 2); mpz_mod(v, v, c.A->p); name = "times2"; break;
	}
	return mpz_cmp(old, v) != 0;
}
const int NMUT = 13;

std::string b2s(bool b) { return b ? "1" : "0"; }

void make_env(Env &c, SplitMix &g, uint64_t idx, bool thorough, size_t n, bool groth = false)
{
	static const unsigned sz[5][2] = { { 64, 32 }, { 96, 48 }, { 128, 64 }, { 192, 96 }, { 256, 160 } };
	unsigned k = g.below(thorough ? 5 : 4);
	if (n >= 32 && !thorough) k = g.below(2);
	c.pbits = sz[k][0]; c.qbits = sz[k][1];
	if (groth) { // the challenge length needs |q| >= 2 l_e + 64
		static const unsigned gz[3][2] = { { 192, 112 }, { 224, 128 }, { 256, 160 } };
		k = g.below(n >= 32 && !thorough ? 1 : 3); c.pbits = gz[k][0]; c.qbits = gz[k][1]; }
	c.sg = make_group(g, c.pbits, c.qbits);
	std::ostringstream os; os << c.sg.p.v << std::endl << c.sg.q.v << std::endl << c.sg.g.v << std::endl << c.sg.k.v << std::endl;
	std::istringstream i1(os.str()), i2(os.str());
	c.A.reset(new BarnettSmartVTMF_dlog(i1, c.pbits, c.qbits, false, true)); c.B.reset(new BarnettSmartVTMF_dlog(i2, c.pbits, c.qbits, false, true));
	c.A->KeyGenerationProtocol_GenerateKey(); c.B->KeyGenerationProtocol_GenerateKey();
	{ std::ostringstream pk; c.A->KeyGenerationProtocol_PublishKey(pk); std::istringstream is(pk.str()); if (!c.B->KeyGenerationProtocol_UpdateKey(is)) abort(); }
	{ std::ostringstream pk; c.B->KeyGenerationProtocol_PublishKey(pk); std::istringstream is(pk.str()); if (!c.A->KeyGenerationProtocol_UpdateKey(is)) abort(); }
	c.A->KeyGenerationProtocol_Finalize(); c.B->KeyGenerationProtocol_Finalize();
	c.vP.reset(new HooghSchoenmakersSkoricVillegasVRHE(c.A->p, c.A->q, c.A->g, c.A->h, c.pbits, c.qbits));
	c.vV.reset(new HooghSchoenmakersSkoricVillegasVRHE(c.B->p, c.B->q, c.B->g, c.B->h, c.pbits, c.qbits));
	// coin flip: the VTMF group with the common key as second generator (what SchindelhauerTMCG does), or an
	// independent group with a shorter / longer order
	int kind = (int)(idx % 4);
	c.own_crs = (kind >= 2);
	if (!c.own_crs) { mpz_set(c.cp, c.A->p); mpz_set(c.cq, c.A->q); mpz_set(c.cg, c.A->g); mpz_set(c.ch, c.A->h); c.cpb = c.pbits; c.cqb = c.qbits; }
	else {
		if (kind == 2) { c.cpb = 64; c.cqb = 24; } else { c.cpb = c.pbits + 32; c.cqb = c.qbits + 16; }
		SmallGroup cg = make_group(g, c.cpb, c.cqb); mpz_set(c.cp, cg.p); mpz_set(c.cq, cg.q); mpz_set(c.cg, cg.g);
		Z e; do { gen_below(e, g, c.cq); mpz_powm(c.ch, c.cg, e, c.cp); } while (!mpz_cmp_ui(c.ch, 1) || !mpz_cmp(c.ch, c.cg));
	}
	c.eP.reset(new JareckiLysyanskayaEDCF(2, 0, c.cp, c.cq, c.cg, c.ch, c.cpb, c.cqb));
	c.eV.reset(new JareckiLysyanskayaEDCF(2, 0, c.cp, c.cq, c.cg, c.ch, c.cpb, c.cqb));
	coins.take(); oracle_log();
}

// ---------------------------------------------------------------- text <-> values
std::string line_of(mpz_srcptr v) { std::ostringstream os; os << v << std::endl; return os.str(); }
std::string text_of(const ZV &v) { std::string s; for (auto &x : v) s += line_of(x); return s; }
std::vector<std::string> split_lines(const std::string &t) { std::vector<std::string> r; std::istringstream is(t); std::string l; while (std::getline(is, l)) r.push_back(l); return r; }
std::string join_lines(const std::vector<std::string> &l) { std::string s; for (auto &x : l) s += x + "\n"; return s; }
// decimal list of the lines of a text (`x` for a line that is no integer)
std::string dec_lines(const std::vector<std::string> &l)
{
	std::string s = "[";
	for (size_t i = 0; i < l.size(); i++) { Z v; if (i) s += ","; if (l[i].empty() || mpz_set_str(v, l[i].c_str(), TMCG_MPZ_IO_BASE) < 0) s += "x"; else s += v.str(); }
	return s + "]";
}
ZV values_of(const std::vector<std::string> &l) { ZV r(l.size()); for (size_t i = 0; i < l.size(); i++) mpz_set_str(r[i], l[i].c_str(), TMCG_MPZ_IO_BASE); return r; }
std::string b62(mpz_srcptr v) { std::string s = line_of(v); s.pop_back(); return s; }
std::string zlist(const ZV &v) { std::string s = "["; for (size_t i = 0; i < v.size(); i++) { if (i) s += ","; s += v[i].str(); } return s + "]"; }
std::string cards(const ZV &a, const ZV &b) { std::string s = "["; for (size_t i = 0; i < a.size(); i++) { if (i) s += ","; s += a[i].str() + ":" + b[i].str(); } return s + "]"; }

std::vector<mpz_ptr> ptrs(ZV &v) { std::vector<mpz_ptr> r; for (auto &x : v) r.push_back(x.v); return r; }
PairVec pairs(ZV &a, ZV &b) { PairVec r; for (size_t i = 0; i < a.size(); i++) r.push_back(std::make_pair((mpz_ptr)a[i].v, (mpz_ptr)b[i].v)); return r; }

// ---------------------------------------------------------------- one run of one party
struct Side {
	std::string verdict;                 // 1 | 0 | throw:…
	std::vector<std::string> lines;      // what it wrote
	std::string coins;                   // values of its srandomm draws
	std::vector<unsigned char> raw;      // the bytes served (for re-serving)
	std::string log;                     // hash oracle
};

Side run_side(const Env &c, const std::function<std::string(std::istream &, std::ostream &)> &f, const std::string &input,
	const std::vector<unsigned char> &script)
{
	Side r; std::istringstream in(input); std::ostringstream out;
	coins.script = script; coins.script_pos = 0; coins.take(); oracle_log();
	r.verdict = guarded([&]() { return f(in, out); });
	std::vector<CoinLogEntry> es = coins.take(); coins.script.clear(); coins.script_pos = 0;
	r.log = oracle_log();
	r.lines = split_lines(out.str());
	r.coins = "["; int flip = 0; bool first = true;
	for (auto &e : es) {
		r.raw.insert(r.raw.end(), e.bytes.begin(), e.bytes.end());
		if (e.bytes.size() == 8 && c.flips_possible) { flip = 2; continue; }   // tmcg_mpz_wrandom_ui of Flip_twoparty (value unused)
		Z v; if (flip > 0) { coin_mod(v, e, c.cq); flip--; }
		else if (c.rb_bits) { mpz_import(v, e.bytes.size(), 1, 1, 1, 0, e.bytes.data()); mpz_tdiv_r_2exp(v, v, c.rb_bits); }
		else coin_mod(v, e, c.A->q);
		if (!first) r.coins += ","; first = false; r.coins += v.str();
	}
	r.coins += "]";
	return r;
}

// ---------------------------------------------------------------- the verifier's coins and the lines they determine
struct Chal {
	ZV vals;                               // INTER: the challenges; PC: (c, hc) per flip
	std::vector<unsigned char> script;     // bytes that make the verifier draw them
	std::vector<std::string> lines;        // what the verifier will write (= the prover's input)
};

// `count` challenges (INTER) resp. flips (PC); `force`: INTER only, challenge values to use instead of random ones
Chal make_chal(const Env &c, SplitMix &g, int mode, size_t count, const ZV *force = NULL)
{
	Chal ch;
	if (mode == INTER) {
		for (size_t i = 0; i < count; i++) { Z v; if (force) mpz_set(v, (*force)[i]); else gen_below(v, g, c.A->q); ch.vals.push_back(v); script_mod(ch.script, v, c.A->q); ch.lines.push_back(b62(v)); }
	} else if (mode == PC) {
		for (size_t i = 0; i < count; i++) {
			Z a, b, C, t; gen_below(a, g, c.cq); gen_below(b, g, c.cq);
			for (int k = 0; k < 8; k++) ch.script.push_back((unsigned char)g.below(256));
			script_mod(ch.script, a, c.cq); script_mod(ch.script, b, c.cq);
			mpz_powm(C, c.cg, a, c.cp); mpz_powm(t, c.ch, b, c.cp); mpz_mul(C, C, t); mpz_mod(C, C, c.cp);
			ch.vals.push_back(a); ch.vals.push_back(b);
			ch.lines.push_back(b62(C)); ch.lines.push_back(b62(a)); ch.lines.push_back(b62(b));
		}
	}
	return ch;
}

void wrapper_checks_fwd(struct Env &c, SplitMix &g, bool groth, struct Stmt &st, TMCG_Stack<VTMF_Card> &s, TMCG_Stack<VTMF_Card> &s2, TMCG_StackSecret<VTMF_CardSecret> &ss);
// ---------------------------------------------------------------- rotation statements
struct Stmt { size_t n, r; std::vector<size_t> pi; ZV R, X1, X2, Y1, Y2; };

// names of the prover's lines, in order
std::vector<std::pair<std::string, size_t> > vrhe_fields(int mode, size_t n)
{
	std::vector<std::pair<std::string, size_t> > f;
	auto flip = [&](size_t k) { if (mode == PC) { f.push_back({ "flipC", k }); f.push_back({ "flipa", k }); f.push_back({ "fliph", k }); } };
	for (size_t i = 0; i < n; i++) flip(i);
	for (size_t i = 0; i < n; i++) f.push_back({ "hk", i });
	for (size_t i = 0; i < n; i++) { f.push_back({ "Ak1", i }); f.push_back({ "Ak2", i }); }
	f.push_back({ "v", 0 });
	for (size_t i = 0; i < n; i++) f.push_back({ "fk", i });
	for (size_t i = 0; i < n; i++) { f.push_back({ "Fk1", i }); f.push_back({ "Fk2", i }); }
	flip(n);
	for (size_t i = 0; i < n; i++) f.push_back({ "tau", i });
	for (size_t i = 0; i < n; i++) f.push_back({ "rho", i });
	for (size_t i = 0; i < n; i++) f.push_back({ "mu", i });
	for (size_t i = 0; i < n; i++) flip(n + 1 + i);
	for (size_t i = 0; i < n; i++) f.push_back({ "f", i });
	flip(2 * n + 1);
	for (size_t i = 0; i < n; i++) f.push_back({ "lamk", i });
	for (size_t i = 0; i < n; i++) f.push_back({ "tk", i });
	return f;
}
std::vector<std::pair<std::string, size_t> > rot_fields(int mode, size_t n)
{
	std::vector<std::pair<std::string, size_t> > f;
	auto flip = [&](size_t k) { if (mode == PC) { f.push_back({ "flipC", k }); f.push_back({ "flipa", k }); f.push_back({ "fliph", k }); } };
	for (size_t i = 0; i < n; i++) flip(i);
	for (size_t i = 0; i < n; i++) f.push_back({ "f", i });
	flip(n);
	for (size_t i = 0; i < n; i++) f.push_back({ "lamk", i });
	for (size_t i = 0; i < n; i++) f.push_back({ "tk", i });
	return f;
}
bool is_exponent_field(const std::string &f) { return f == "v" || f == "tau" || f == "rho" || f == "mu" || f == "lamk" || f == "tk" || f == "flipa" || f == "fliph"; }

Side vrhe_prove(Env &c, int mode, Stmt &st, const std::string &input, const std::vector<unsigned char> &script = std::vector<unsigned char>())
{
	std::vector<mpz_ptr> R = ptrs(st.R); PairVec X = pairs(st.X1, st.X2), Y = pairs(st.Y1, st.Y2);
	return run_side(c, [&](std::istream &in, std::ostream &out) {
		if (mode == INTER) c.vP->Prove_interactive(st.r, R, X, Y, in, out);
		else if (mode == PC) c.vP->Prove_interactive_publiccoin(st.r, R, X, Y, c.eP.get(), in, out);
		else c.vP->Prove_noninteractive(st.r, R, X, Y, out);
		return std::string("1"); }, input, script);
}
Side vrhe_verify(Env &c, int mode, Stmt &st, const std::string &input, const std::vector<unsigned char> &script)
{
	PairVec X = pairs(st.X1, st.X2), Y = pairs(st.Y1, st.Y2);
	return run_side(c, [&](std::istream &in, std::ostream &out) {
		bool ok;
		if (mode == INTER) ok = c.vV->Verify_interactive(X, Y, in, out);
		else if (mode == PC) ok = c.vV->Verify_interactive_publiccoin(X, Y, c.eV.get(), in, out);
		else ok = c.vV->Verify_noninteractive(X, Y, in);
		return b2s(ok); }, input, script);
}
void emit_vrhe_prove(Env &c, int mode, Stmt &st, const std::vector<std::string> &peer, const Side &s, const std::string &tag)
{
	emit(std::string("args.vrhe.prove.") + mode_name[mode] + " " + c.pqgh() + " " + std::to_string(st.r) + " " + zlist(st.R) + " " + cards(st.X1, st.X2) + " " + cards(st.Y1, st.Y2) +
		" " + s.coins + " " + dec_lines(peer) + " " + s.log + " " + c.crs(mode) + " tag:" + tag + " => " + s.verdict + " " + dec_lines(s.lines));
}
void emit_vrhe_verify(Env &c, int mode, Stmt &st, const std::vector<std::string> &peer, bool trunc, const Side &s, const std::string &tag, const char *op = "args.vrhe.verify.")
{
	emit(std::string(op) + mode_name[mode] + " " + c.pqgh() + " " + cards(st.X1, st.X2) + " " + cards(st.Y1, st.Y2) +
		" " + s.coins + " " + dec_lines(peer) + " " + b2s(trunc) + " " + s.log + " " + c.crs(mode) + " tag:" + tag + " => " + s.verdict + " " + dec_lines(s.lines));
}

// number of challenges (INTER) / flips (PC) of one VRHE run
size_t vrhe_nchal(size_t n) { return 2 * n + 2; }

// builds (X, Y, witness) from a real stack, a stack secret with index component `pi`, and the real mixing
void build_stmt(Env &c, SplitMix &g, SchindelhauerTMCG &tm, const std::vector<size_t> &pi, Stmt &st, TMCG_Stack<VTMF_Card> &s, TMCG_Stack<VTMF_Card> &s2,
	TMCG_StackSecret<VTMF_CardSecret> &ss, bool fresh_stack, bool groth = false)
{
	size_t n = pi.size();
	if (fresh_stack) {
		s.clear();
		for (size_t i = 0; i < n; i++) {
			VTMF_Card cd; VTMF_CardSecret cs;
			if (g.below(5) == 0) tm.TMCG_CreateOpenCard(cd, c.A.get(), i + 1); else   // open cards pairwise different and not the neutral ciphertext (1, 1): a swap of equal cards is no false statement
			 tm.TMCG_CreatePrivateCard(cd, cs, c.A.get(), g.below(64));
			s.push(cd);
		}
	}
	ss.clear(); s2.clear();
	tm.TMCG_CreateStackSecret(ss, pi, n, c.A.get());
	tm.TMCG_MixStack(s, s2, ss, c.A.get());
	std::vector<mpz_ptr> R; PairVec e, E;
	tm.TMCG_InitializeStackEquality_Hoogh(R, e, E, s, s2, ss);
	st.n = n; st.r = (ss.size() - ss[0].first) % ss.size(); st.pi.resize(n); for (size_t i = 0; i < n; i++) st.pi[i] = ss[i].first;
	st.R.assign(n, Z()); st.X1.assign(n, Z()); st.X2.assign(n, Z()); st.Y1.assign(n, Z()); st.Y2.assign(n, Z());
	for (size_t i = 0; i < n; i++) { mpz_set(st.R[i], R[i]); mpz_set(st.X1[i], e[i].first); mpz_set(st.X2[i], e[i].second); mpz_set(st.Y1[i], E[i].first); mpz_set(st.Y2[i], E[i].second); }
	tm.TMCG_ReleaseStackEquality_Hoogh(R, e, E);
	std::string sec = "["; for (size_t i = 0; i < n; i++) { if (i) sec += ","; sec += std::to_string(ss[i].first) + ":" + zs(ss[i].second.r); } sec += "]";
	if (groth) { std::string ps = "["; for (size_t i = 0; i < n; i++) { if (i) ps += ","; ps += std::to_string(st.pi[i]); } emit("args.groth.witness " + sec + " => " + ps + "] " + zlist(st.R)); }
	else emit("args.hoogh.witness " + sec + " => " + std::to_string(st.r) + " " + zlist(st.R));
	coins.take(); oracle_log();
}

bool unit_mod_p(const Env &c, mpz_srcptr v) { Z gd; mpz_gcd(gd, v, c.A->p); return mpz_cmp_ui(gd, 1) == 0; }

// one statement, one mode: honest run, mutations, equivalent representatives, stream defects
void vrhe_mode(Env &c, SplitMix &g, int mode, Stmt &st, const std::string &tag0, bool cheat, size_t nmut, bool thorough, const ZV *force = NULL)
{
	size_t n = st.n;
	Chal ch = make_chal(c, g, mode, vrhe_nchal(n), force);
	Side P = vrhe_prove(c, mode, st, join_lines(ch.lines));
	emit_vrhe_prove(c, mode, st, ch.lines, P, tag0);
	Side V = vrhe_verify(c, mode, st, join_lines(P.lines), ch.script);
	emit_vrhe_verify(c, mode, st, P.lines, false, V, tag0);
	// C04: the served challenges alpha of a false statement, for the model's exceptional-set predicate (=> the real verdict)
	if (cheat && mode == INTER && ch.vals.size() >= n) { ZV al(ch.vals.begin(), ch.vals.begin() + n);
		emit("args.vrhe.exceptional " + c.pqgh() + " " + std::to_string(st.r) + " " + zlist(st.R) + " " + cards(st.X1, st.X2) + " " + cards(st.Y1, st.Y2) +
			" " + zlist(al) + " tag:" + tag0 + " => " + V.verdict); }
	if (mode != NI && V.lines != ch.lines && tag0 == "honest")
		emit(std::string("prop.args.predicted-verifier-lines vrhe ") + mode_name[mode] + " " + std::to_string(n) + " => mismatch");
	if (force) return;
	std::vector<std::pair<std::string, size_t> > fields = vrhe_fields(mode, n);
	if (P.lines.size() != fields.size()) { emit("prop.args.transcript-length vrhe " + std::to_string(P.lines.size()) + " " + std::to_string(fields.size()) + " => mismatch"); return; }
	ZV vals = values_of(P.lines);
	// ---- transmitted values
	for (size_t m = 0; m < nmut; m++) {
		size_t pos = g.below(fields.size()); int how = (int)g.below(NMUT);
		if (thorough && m < fields.size()) pos = m;
		Z v; mpz_set(v, vals[pos]); std::string nm;
		if (!mutate(g, how, v, c, nm)) continue;
		std::vector<std::string> L = P.lines; L[pos] = b62(v);
		std::string tag = cheat ? tag0 + "+mut" : "mut:" + fields[pos].first + ":" + nm;
		Side W = vrhe_verify(c, mode, st, join_lines(L), ch.script);
		emit_vrhe_verify(c, mode, st, L, false, W, tag);
	}
	if (cheat) return;
	bool big = n >= 16 && !thorough;
	// ---- the other representative x - q of an exponent (|x| < q is all the verifier asks for)
	for (size_t m = 0; m < (big ? 1 : 3); m++) {
		size_t pos = g.below(fields.size());
		for (size_t tries = 0; tries < 4 * fields.size() && !(is_exponent_field(fields[pos].first) && fields[pos].first.compare(0, 4, "flip")); tries++) pos = (pos + 1) % fields.size();
		if (!is_exponent_field(fields[pos].first) || !fields[pos].first.compare(0, 4, "flip")) break;
		Z v; mpz_sub(v, vals[pos], c.A->q);
		std::vector<std::string> L = P.lines; L[pos] = b62(v);
		Side W = vrhe_verify(c, mode, st, join_lines(L), ch.script);
		// (in the non-interactive mode v enters the hash of the second challenge: there v - q is another proof)
		bool same = mpz_sgn(vals[pos]) != 0 && !(mode == NI && fields[pos].first == "v");
		emit_vrhe_verify(c, mode, st, L, false, W, (same ? "equiv:" : "mut:") + fields[pos].first + ":minusq");
	}
	// ---- statement components
	for (size_t m = 0; m < (big ? 1 : (nmut + 1) / 2); m++) {
		int which = (int)g.below(4); size_t i = g.below(n); int how = (int)g.below(NMUT);
		Stmt t = st; ZV &tgt = which == 0 ? t.X1 : which == 1 ? t.X2 : which == 2 ? t.Y1 : t.Y2; std::string nm;
		if (!mutate(g, how, tgt[i], c, nm)) continue;
		static const char *fn[4] = { "X1", "X2", "Y1", "Y2" };
		// a multiple of p as base with a negative exponent traps inside GMP: keep such bases away from negative responses (none here)
		// statement inputs handed directly to the class verifier (no membership test there; the public entry points are the
		// stack-level verifiers, see wrapper_checks): informational, no verdict expected
		std::string tag = std::string("direct-stmt:") + fn[which] + ":" + nm;
		Side W = vrhe_verify(c, mode, t, join_lines(P.lines), ch.script);
		emit_vrhe_verify(c, mode, t, P.lines, false, W, tag);
	}
	// ---- stream defects
	if (!(big && mode == NI)) {
		std::string t = join_lines(P.lines); t.pop_back();
		Side W = vrhe_verify(c, mode, st, t, ch.script); emit_vrhe_verify(c, mode, st, P.lines, true, W, "mut:stream:no-final-newline");
		std::vector<std::string> L = P.lines; L.push_back("17");
		W = vrhe_verify(c, mode, st, join_lines(L), ch.script); emit_vrhe_verify(c, mode, st, L, false, W, "equiv:stream:trailing-line");
		L = P.lines; L.pop_back();
		W = vrhe_verify(c, mode, st, join_lines(L), ch.script); emit_vrhe_verify(c, mode, st, L, false, W, "mut:stream:last-line-missing");
		L = P.lines; size_t pos = g.below(L.size()); L[pos] = "#" + L[pos];
		W = vrhe_verify(c, mode, st, join_lines(L), ch.script); emit_vrhe_verify(c, mode, st, L, false, W, "mut:" + fields[pos].first + ":unparsable");
		if (mode != NI) { // the prover when the verifier says nothing / stops half way
			std::vector<std::string> none; Side Q = vrhe_prove(c, mode, st, "", P.raw); emit_vrhe_prove(c, mode, st, none, Q, "peer-silent");
			std::vector<std::string> half(ch.lines.begin(), ch.lines.begin() + ch.lines.size() / 2);
			Q = vrhe_prove(c, mode, st, join_lines(half), P.raw); emit_vrhe_prove(c, mode, st, half, Q, "peer-stops");
		}
	}
}

void vrhe_case(Env &c, SplitMix &g, size_t n, uint64_t cidx, bool thorough)
{
	SchindelhauerTMCG tm(16, 2, 8);
	TMCG_Stack<VTMF_Card> s, s2; TMCG_StackSecret<VTMF_CardSecret> ss; Stmt st;
	size_t r = g.below(n); if (cidx % 7 == 0) r = 0; if (cidx % 7 == 1) r = n - 1;
	std::vector<size_t> pi(n); for (size_t i = 0; i < n; i++) pi[i] = (i + n - r) % n;
	build_stmt(c, g, tm, pi, st, s, s2, ss, true);
	if (st.r != r) { emit("prop.args.rotation-index " + std::to_string(st.r) + " " + std::to_string(r) + " => mismatch"); return; }
	size_t nmut = thorough ? 40 : (n >= 32 ? 2 : n >= 16 ? 3 : 10);
	for (int mode = 0; mode < 3; mode++) vrhe_mode(c, g, mode, st, "honest", false, nmut, thorough);
	if (n <= 9 || thorough) wrapper_checks_fwd(c, g, false, st, s, s2, ss);
	// every rotation of a small stack, non-interactive
	if (n <= 5 || thorough) for (size_t r2 = 0; r2 < n; r2++) {
		if (r2 == r) continue;
		for (size_t i = 0; i < n; i++) pi[i] = (i + n - r2) % n;
		Stmt t; build_stmt(c, g, tm, pi, t, s, s2, ss, false);
		vrhe_mode(c, g, (int)((cidx + r2) % 3), t, "honest", false, 0, false);
	}
	// ---- false statements (C04), proved with the honest algorithm and the witness that does not fit
	for (size_t i = 0; i < n; i++) pi[i] = (i + n - r) % n;
	for (int what = 0; what < 5; what++) {
		if (n >= 16 && !thorough && what != (int)(cidx % 5) && what != 0) continue;
		Stmt t = st; std::string tag; size_t j = g.below(n), j2 = (j + 1 + g.below(n - 1)) % n;
		if (what == 0) { VTMF_Card cd; VTMF_CardSecret cs; tm.TMCG_CreatePrivateCard(cd, cs, c.A.get(), 64 + g.below(64)); mpz_set(t.Y1[j], cd.c_1); mpz_set(t.Y2[j], cd.c_2); tag = "cheat:replaced-card"; }
		else if (what == 1) { if (n < 3) continue; std::swap(t.Y1[j], t.Y1[j2]); std::swap(t.Y2[j], t.Y2[j2]); tag = "cheat:swapped-cards"; }
		else if (what == 2) { if (n < 3) continue; std::vector<size_t> xi(n); for (size_t i = 0; i < n; i++) xi[i] = pi[i]; std::swap(xi[j], xi[j2]);
			TMCG_Stack<VTMF_Card> s3; TMCG_StackSecret<VTMF_CardSecret> ss3; build_stmt(c, g, tm, xi, t, s, s3, ss3, false); tag = "cheat:noncyclic-as-rotation"; }
		else if (what == 3) { mpz_set(t.Y1[j], t.Y1[j2]); mpz_set(t.Y2[j], t.Y2[j2]); tag = "cheat:duplicated-card"; }
		else { mpz_mul(t.Y2[j], t.Y2[j], c.A->g); mpz_mod(t.Y2[j], t.Y2[j], c.A->p); tag = "cheat:retyped-card"; }
		coins.take(); oracle_log();
		vrhe_mode(c, g, (n >= 16 && !thorough) ? (int)((cidx + what) % 2) : (int)((cidx + what) % 3), t, tag, true, n >= 16 ? 0 : 2, false);
		// the soundness error made visible (interactive mode, challenges chosen by the harness): with every
		// alpha_i = 0 the argument does not look at the statement at all
		if (what == 0 && cidx % 2 == 0) {
			ZV force(vrhe_nchal(n)); for (size_t i = 0; i < force.size(); i++) if (i < n) mpz_set_ui(force[i], 0); else gen_below(force[i], g, c.A->q);
			vrhe_mode(c, g, INTER, t, "lucky:all-alpha-zero", true, 0, false, &force);
			// … and with alpha_{j-r} = 0 alone the replaced ciphertext Y_j drops out of every equation
			for (size_t i = 0; i < n; i++) gen_below(force[i], g, c.A->q);
			mpz_set_ui(force[(j + n - r) % n], 0);
			vrhe_mode(c, g, INTER, t, "lucky:alpha-zero-at-replaced", true, 0, false, &force);
		}
	}
}



// ================================================================ PUB-ROT-ZK on its own: c_k = g^{alpha_{k-r}} h^{s_k}
struct RotStmt { size_t n, r; ZV s, alpha, c; };
Side rot_prove(Env &c, HooghSchoenmakersSkoricVillegasPUBROTZK &Z_, int mode, RotStmt &st, const std::string &input, const std::vector<unsigned char> &script = std::vector<unsigned char>())
{
	std::vector<mpz_ptr> s = ptrs(st.s), al = ptrs(st.alpha), cc = ptrs(st.c);
	return run_side(c, [&](std::istream &in, std::ostream &out) {
		if (mode == INTER) Z_.Prove_interactive(st.r, s, al, cc, in, out);
		else if (mode == PC) Z_.Prove_interactive_publiccoin(st.r, s, al, cc, c.eP.get(), in, out);
		else Z_.Prove_noninteractive(st.r, s, al, cc, out);
		return std::string("1"); }, input, script);
}
Side rot_verify(Env &c, HooghSchoenmakersSkoricVillegasPUBROTZK &Z_, int mode, RotStmt &st, const std::string &input, const std::vector<unsigned char> &script)
{
	std::vector<mpz_ptr> al = ptrs(st.alpha), cc = ptrs(st.c);
	return run_side(c, [&](std::istream &in, std::ostream &out) {
		bool ok;
		if (mode == INTER) ok = Z_.Verify_interactive(al, cc, in, out);
		else if (mode == PC) ok = Z_.Verify_interactive_publiccoin(al, cc, c.eV.get(), in, out);
		else ok = Z_.Verify_noninteractive(al, cc, in);
		return b2s(ok); }, input, script);
}
void rot_case(Env &c, SplitMix &g, size_t n, uint64_t cidx)
{
	HooghSchoenmakersSkoricVillegasPUBROTZK ZP(c.A->p, c.A->q, c.A->g, c.A->h), ZV_(c.B->p, c.B->q, c.B->g, c.B->h);
	RotStmt st; st.n = n; st.r = g.below(n); st.s.assign(n, Z()); st.alpha.assign(n, Z()); st.c.assign(n, Z());
	for (size_t i = 0; i < n; i++) { gen_below(st.s[i], g, c.A->q); gen_below(st.alpha[i], g, c.A->q); }
	auto commit = [&](RotStmt &t, const std::vector<size_t> &src) { for (size_t k = 0; k < n; k++) { Z a, b; mpz_powm(a, c.A->g, t.alpha[src[k]], c.A->p); mpz_powm(b, c.A->h, t.s[k], c.A->p); mpz_mul(t.c[k], a, b); mpz_mod(t.c[k], t.c[k], c.A->p); } };
	std::vector<size_t> src(n); for (size_t k = 0; k < n; k++) src[k] = (k + n - st.r) % n;
	commit(st, src);
	auto emitP = [&](int mode, RotStmt &t, const std::vector<std::string> &peer, const Side &s, const std::string &tag) {
		emit(std::string("args.rot.prove.") + mode_name[mode] + " " + c.pqgh() + " " + std::to_string(t.r) + " " + zlist(t.s) + " " + zlist(t.alpha) + " " + zlist(t.c) + " " + s.coins + " " + dec_lines(peer) + " " + s.log + " " + c.crs(mode) + " tag:" + tag + " => " + s.verdict + " " + dec_lines(s.lines)); };
	auto emitV = [&](int mode, RotStmt &t, const std::vector<std::string> &peer, const Side &s, const std::string &tag) {
		emit(std::string("args.rot.verify.") + mode_name[mode] + " " + c.pqgh() + " " + zlist(t.alpha) + " " + zlist(t.c) + " " + s.coins + " " + dec_lines(peer) + " 0 " + s.log + " " + c.crs(mode) + " tag:" + tag + " => " + s.verdict + " " + dec_lines(s.lines)); };
	auto one = [&](int mode, RotStmt &t, const std::string &tag, bool cheat, size_t nmut) {
		Chal ch = make_chal(c, g, mode, n + 1);
		Side P = rot_prove(c, ZP, mode, t, join_lines(ch.lines)); emitP(mode, t, ch.lines, P, tag);
		Side V = rot_verify(c, ZV_, mode, t, join_lines(P.lines), ch.script); emitV(mode, t, P.lines, V, tag);
		if (cheat) return;
		std::vector<std::pair<std::string, size_t> > fields = rot_fields(mode, n); if (fields.size() != P.lines.size()) return;
		ZV vals = values_of(P.lines);
		for (size_t m = 0; m < nmut; m++) {
			size_t pos = g.below(fields.size()); Z v; mpz_set(v, vals[pos]); std::string nm;
			if (!mutate(g, (int)g.below(NMUT), v, c, nm)) continue;
			std::vector<std::string> L = P.lines; L[pos] = b62(v);
			Side W = rot_verify(c, ZV_, mode, t, join_lines(L), ch.script); emitV(mode, t, L, W, "mut:" + fields[pos].first + ":" + nm);
		}
		for (size_t m = 0; m < nmut / 2; m++) { // statement: alpha_i and c_i
			RotStmt u = t; bool onc = g.coin(); size_t i = g.below(n); std::string nm;
			if (!mutate(g, (int)g.below(NMUT), onc ? u.c[i].v : u.alpha[i].v, c, nm)) continue;
			if (!unit_mod_p(c, u.c[i])) continue;   // a multiple of p under a negative exponent traps in GMP
			// alpha_i + q is the same exponent (only used modulo q ... and hashed in the non-interactive mode)
			std::string tag2 = std::string("direct-stmt:") + (onc ? "c" : "alpha") + ":" + nm;   // informational (bare sub-protocol)
			Side W = rot_verify(c, ZV_, mode, u, join_lines(P.lines), ch.script); emitV(mode, u, P.lines, W, tag2);
		}
	};
	for (int mode = 0; mode < 3; mode++) one(mode, st, "honest", false, n >= 16 ? 2 : 6);
	// false statements: the commitments are no rotation of alpha
	if (n >= 3) { RotStmt t = st; std::vector<size_t> s2 = src; size_t j = g.below(n), j2 = (j + 1 + g.below(n - 1)) % n; std::swap(s2[j], s2[j2]); commit(t, s2); one((int)(cidx % 3), t, "cheat:noncyclic-commitments", true, 0); }
	{ RotStmt t = st; rand_elem(c, g, t.c[g.below(n)]); one((int)((cidx + 1) % 3), t, "cheat:replaced-commitment", true, 0); }
	{ RotStmt t = st; size_t j = g.below(n); gen_below(t.alpha[j], g, c.A->q); one((int)((cidx + 2) % 3), t, "cheat:other-alpha", true, 0); }
}

// ================================================================ Groth's shuffle argument
void make_groth(Env &c, size_t n)
{
	c.le = (c.qbits - 64) / 2;
	c.gP.reset(new GrothVSSHE(n, c.A->p, c.A->q, c.A->k, c.A->g, c.A->h, c.le, c.pbits, c.qbits));
	std::ostringstream pg; c.gP->PublishGroup(pg); std::istringstream is(pg.str());
	c.gV.reset(new GrothVSSHE(n, is, c.le, c.pbits, c.qbits));
	coins.take(); oracle_log();
}
std::string groth_hdr(Env &c)
{
	std::string gs = "["; for (size_t i = 0; i < c.gP->com->g.size(); i++) { if (i) gs += ","; gs += zs(c.gP->com->g[i]); }
	return c.pqgh() + " " + std::to_string(c.le) + " " + gs + "]";
}
void script_bits(std::vector<unsigned char> &script, mpz_srcptr v, unsigned bits)
{
	size_t n = (bits + 7) / 8; std::vector<unsigned char> b(n, 0), tmp(n + 8, 0); size_t cnt = 0;
	mpz_export(tmp.data(), &cnt, 1, 1, 1, 0, v); memcpy(b.data() + (n - cnt), tmp.data(), cnt);
	script.insert(script.end(), b.begin(), b.end());
}
bool g_alpha_even = false;
// verifier coins of one Groth run: t_1..t_n, lambda, x, e (not zero), and the batch-verification alpha
Chal make_gchal(const Env &c, SplitMix &g, int mode, size_t n, const ZV *force = NULL)
{
	Chal ch; unsigned l = c.le;
	if (mode == INTER) {
		for (size_t i = 0; i < n + 3; i++) {
			Z v; if (force) mpz_set(v, (*force)[i]); else { gen_bits(v, g, l); if (i == n + 2 && !mpz_sgn(v)) mpz_set_ui(v, 1); }
			ch.vals.push_back(v); script_bits(ch.script, v, l); ch.lines.push_back(b62(v));
		}
	} else if (mode == PC) { Chal f = make_chal(c, g, PC, n + 3); ch = f; }
	Z alpha; gen_bits(alpha, g, mode == NI ? 2 * l : l); if (g_alpha_even) mpz_clrbit(alpha, 0);
	script_bits(ch.script, alpha, mode == NI ? 2 * l : l);
	return ch;
}
std::vector<std::pair<std::string, size_t> > groth_fields(int mode, size_t n)
{
	std::vector<std::pair<std::string, size_t> > f;
	auto flip = [&](size_t k) { if (mode == PC) { f.push_back({ "flipC", k }); f.push_back({ "flipa", k }); f.push_back({ "fliph", k }); } };
	f.push_back({ "c", 0 }); f.push_back({ "cd", 0 }); f.push_back({ "Ed1", 0 }); f.push_back({ "Ed2", 0 });
	for (size_t i = 0; i < n; i++) flip(i);
	for (size_t i = 0; i < n; i++) f.push_back({ "f", i });
	f.push_back({ "Z", 0 });
	flip(n); flip(n + 1);
	f.push_back({ "skc_cd", 0 }); f.push_back({ "skc_cDelta", 0 }); f.push_back({ "skc_ca", 0 });
	flip(n + 2);
	for (size_t i = 0; i < n; i++) f.push_back({ "skc_f", i });
	f.push_back({ "skc_z", 0 });
	for (size_t i = 0; i + 1 < n; i++) f.push_back({ "skc_fDelta", i });
	f.push_back({ "skc_zDelta", 0 });
	return f;
}
Side groth_prove(Env &c, int mode, Stmt &st, const std::string &input, const std::vector<unsigned char> &script = std::vector<unsigned char>())
{
	std::vector<mpz_ptr> R = ptrs(st.R); PairVec X = pairs(st.X1, st.X2), Y = pairs(st.Y1, st.Y2);
	c.rb_bits = 0; c.flips_possible = (mode == PC);
	Side r = run_side(c, [&](std::istream &in, std::ostream &out) {
		if (mode == INTER) c.gP->Prove_interactive(st.pi, R, X, Y, in, out);
		else if (mode == PC) c.gP->Prove_interactive_publiccoin(st.pi, R, X, Y, c.eP.get(), in, out);
		else c.gP->Prove_noninteractive(st.pi, R, X, Y, out);
		return std::string("1"); }, input, script);
	c.flips_possible = true; return r;
}
Side groth_verify(Env &c, int mode, Stmt &st, const std::string &input, const std::vector<unsigned char> &script)
{
	PairVec X = pairs(st.X1, st.X2), Y = pairs(st.Y1, st.Y2);
	c.rb_bits = (mode == NI) ? 2 * c.le : c.le; c.flips_possible = (mode == PC);
	Side r = run_side(c, [&](std::istream &in, std::ostream &out) {
		bool ok;
		if (mode == INTER) ok = c.gV->Verify_interactive(X, Y, in, out);
		else if (mode == PC) ok = c.gV->Verify_interactive_publiccoin(X, Y, c.eV.get(), in, out);
		else ok = c.gV->Verify_noninteractive(X, Y, in);
		return b2s(ok); }, input, script);
	c.rb_bits = 0; c.flips_possible = true; return r;
}
void emit_groth_prove(Env &c, int mode, Stmt &st, const std::vector<std::string> &peer, const Side &s, const std::string &tag)
{
	std::string ps = "["; for (size_t i = 0; i < st.n; i++) { if (i) ps += ","; ps += std::to_string(st.pi[i]); } ps += "]";
	emit(std::string("args.groth.prove.") + mode_name[mode] + " " + groth_hdr(c) + " " + ps + " " + zlist(st.R) + " " + cards(st.X1, st.X2) + " " + cards(st.Y1, st.Y2) +
		" " + s.coins + " " + dec_lines(peer) + " " + s.log + " " + c.crs(mode) + " tag:" + tag + " => " + s.verdict + " " + dec_lines(s.lines));
}
void emit_groth_verify(Env &c, int mode, Stmt &st, const std::vector<std::string> &peer, bool trunc, const Side &s, const std::string &tag, const char *op = "args.groth.verify.")
{
	emit(std::string(op) + mode_name[mode] + " " + groth_hdr(c) + " " + cards(st.X1, st.X2) + " " + cards(st.Y1, st.Y2) +
		" " + s.coins + " " + dec_lines(peer) + " " + b2s(trunc) + " " + s.log + " " + c.crs(mode) + " tag:" + tag + " => " + s.verdict + " " + dec_lines(s.lines));
}
bool groth_exp_field(const std::string &f) { return f == "f" || f == "Z" || f == "skc_f" || f == "skc_z" || f == "skc_fDelta" || f == "skc_zDelta"; }

void groth_mode(Env &c, SplitMix &g, int mode, Stmt &st, const std::string &tag0, bool cheat, size_t nmut, bool thorough, const ZV *force = NULL,
	const std::vector<unsigned char> *pscript = NULL)
{
	size_t n = st.n;
	Chal ch = make_gchal(c, g, mode, n, force);
	Side P = groth_prove(c, mode, st, join_lines(ch.lines), pscript ? *pscript : std::vector<unsigned char>());
	emit_groth_prove(c, mode, st, ch.lines, P, tag0);
	Side V = groth_verify(c, mode, st, join_lines(P.lines), ch.script);
	emit_groth_verify(c, mode, st, P.lines, false, V, tag0);
	// C04: the served challenges t, lambda, x of a false statement, for the model's exceptional-set predicate (=> the real verdict)
	if (cheat && mode == INTER && ch.vals.size() == n + 3) { ZV tv(ch.vals.begin(), ch.vals.begin() + n);
		std::string ps = "["; for (size_t i = 0; i < st.n; i++) { if (i) ps += ","; ps += std::to_string(st.pi[i]); } ps += "]";
		emit("args.groth.exceptional " + groth_hdr(c) + " " + ps + " " + zlist(st.R) + " " + cards(st.X1, st.X2) + " " + cards(st.Y1, st.Y2) +
			" " + zlist(tv) + " " + ch.vals[n].str() + " " + ch.vals[n + 1].str() + " tag:" + tag0 + " => " + V.verdict); }
	if (mode != NI && V.lines != ch.lines && tag0 == "honest")
		emit(std::string("prop.args.predicted-verifier-lines groth ") + mode_name[mode] + " " + std::to_string(n) + " => mismatch");
	if (force || pscript) return;
	std::vector<std::pair<std::string, size_t> > fields = groth_fields(mode, n);
	if (P.lines.size() != fields.size()) { emit("prop.args.transcript-length groth " + std::to_string(P.lines.size()) + " " + std::to_string(fields.size()) + " => mismatch"); return; }
	ZV vals = values_of(P.lines);
	for (size_t m = 0; m < nmut; m++) {
		size_t pos = g.below(fields.size()); int how = (int)g.below(NMUT);
		if (thorough && m < fields.size()) pos = m;
		Z v; mpz_set(v, vals[pos]); std::string nm;
		if (!mutate(g, how, v, c, nm)) continue;
		std::vector<std::string> L = P.lines; L[pos] = b62(v);
		std::string tag = cheat ? tag0 + "+mut" : "mut:" + fields[pos].first + ":" + nm;
		// E_d is only used modulo p (no range check): E_d + p is the same value unless it is hashed
		if (!cheat && nm == "plusp" && mode != NI && (fields[pos].first == "Ed1" || fields[pos].first == "Ed2")) tag = "equiv:" + fields[pos].first + ":plusp";
		Side W = groth_verify(c, mode, st, join_lines(L), ch.script);
		emit_groth_verify(c, mode, st, L, false, W, tag);
	}
	if (cheat) return;
	bool big = n >= 16 && !thorough;
	// ---- x - q: the checks are `x < q` only (no lower bound)
	for (size_t m = 0; m < (big ? 1 : 4); m++) {
		size_t pos = g.below(fields.size());
		for (size_t tries = 0; tries < 2 * fields.size() && !groth_exp_field(fields[pos].first); tries++) pos = (pos + 1) % fields.size();
		if (!groth_exp_field(fields[pos].first)) break;
		Z v; mpz_sub(v, vals[pos], c.A->q);
		std::vector<std::string> L = P.lines; L[pos] = b62(v);
		const std::string &fn = fields[pos].first;
		// Z must be positive; f enters the hash of lambda in the non-interactive mode; v = 0 gives -q (|v| needs one more table entry)
		bool same = fn != "Z" && !(mode == NI && fn == "f") && mpz_sgn(vals[pos]) != 0;
		Side W = groth_verify(c, mode, st, join_lines(L), ch.script);
		emit_groth_verify(c, mode, st, L, false, W, (same ? "equiv:" : "mut:") + fn + ":minusq");
	}
	// ---- x - 2^200 q: there is no lower bound at all; the SKC verifier reduces modulo q before it exponentiates
	if (!big) for (size_t pos = 0; pos < fields.size(); pos++) if (fields[pos].first == "skc_f" || fields[pos].first == "skc_zDelta") {
		Z v, k; mpz_set_ui(k, 1); mpz_mul_2exp(k, k, 200); mpz_mul(k, k, c.A->q); mpz_sub(v, vals[pos], k);
		std::vector<std::string> L = P.lines; L[pos] = b62(v);
		Side W = groth_verify(c, mode, st, join_lines(L), ch.script);
		emit_groth_verify(c, mode, st, L, false, W, "equiv:" + fields[pos].first + ":minus-2^200q");
		if (fields[pos].first == "skc_zDelta") break; else { while (pos + 1 < fields.size() && fields[pos + 1].first == "skc_f") pos++; }
	}
	// ---- statement components
	for (size_t m = 0; m < (big ? 1 : (nmut + 1) / 2); m++) {
		int which = (int)g.below(4); size_t i = g.below(n); int how = (int)g.below(NMUT);
		Stmt t = st; ZV &tgt = which == 0 ? t.X1 : which == 1 ? t.X2 : which == 2 ? t.Y1 : t.Y2; std::string nm;
		if (!mutate(g, how, tgt[i], c, nm)) continue;
		static const char *fn[4] = { "e1", "e2", "E1", "E2" };
		std::string tag = std::string("direct-stmt:") + fn[which] + ":" + nm;   // informational, see vrhe_mode
		Side W = groth_verify(c, mode, t, join_lines(P.lines), ch.script);
		emit_groth_verify(c, mode, t, P.lines, false, W, tag);
	}
	// ---- stream defects
	if (!(big && mode == NI)) {
		std::string t = join_lines(P.lines); t.pop_back();
		Side W = groth_verify(c, mode, st, t, ch.script); emit_groth_verify(c, mode, st, P.lines, true, W, "mut:stream:no-final-newline");
		std::vector<std::string> L = P.lines; L.push_back("17");
		W = groth_verify(c, mode, st, join_lines(L), ch.script); emit_groth_verify(c, mode, st, L, false, W, "equiv:stream:trailing-line");
		L = P.lines; L.pop_back();
		W = groth_verify(c, mode, st, join_lines(L), ch.script); emit_groth_verify(c, mode, st, L, false, W, "mut:stream:last-line-missing");
		L = P.lines; size_t pos = g.below(L.size()); L[pos] = "#" + L[pos];
		W = groth_verify(c, mode, st, join_lines(L), ch.script); emit_groth_verify(c, mode, st, L, false, W, "mut:" + fields[pos].first + ":unparsable");
		if (mode != NI) {
			std::vector<std::string> none; Side Q = groth_prove(c, mode, st, "", P.raw); emit_groth_prove(c, mode, st, none, Q, "peer-silent");
			std::vector<std::string> half(ch.lines.begin(), ch.lines.begin() + ch.lines.size() / 2);
			Q = groth_prove(c, mode, st, join_lines(half), P.raw); emit_groth_prove(c, mode, st, half, Q, "peer-stops");
		}
	}
}

// ---- the shuffle of known content stand-alone (GrothSKC::Prove_* / Verify_* with f'): an honest run, and the honest proof
// against the statement commitment p - c (element of order 2q: refused since the membership test of c was added, finding of C04)
//   args.skc.prove.<mode> p q g h le [cg] [pi] r [m] [coins] [peer] [log] [crs] => verdict [sent]
//   args.skc.verify.<mode> p q g h le [cg] c [f'] [m] [coins] [peer] trunc [log] [crs] => verdict [sent]
void skc_runs(Env &c, SplitMix &g, int mode, const std::vector<size_t> &pi)
{
	size_t n = pi.size(); unsigned l = c.le;
	ZV m(n), fp(n); Z r, cc, cneg;
	for (size_t i = 0; i < n; i++) { gen_below(m[i], g, c.A->q); mpz_set_ui(fp[i], 0); }
	gen_below(r, g, c.A->q);
	std::vector<mpz_ptr> mv = ptrs(m), fpv = ptrs(fp), mp; for (size_t i = 0; i < n; i++) mp.push_back(mv[pi[i]]);
	c.gP->com->CommitBy(cc, r, mp); coins.take(); oracle_log();
	mpz_sub(cneg, c.A->p, cc);
	Chal ch;
	if (mode == INTER) for (int i = 0; i < 2; i++) { Z v; gen_bits(v, g, l); if (i == 1 && !mpz_sgn(v)) mpz_set_ui(v, 1); ch.vals.push_back(v); script_bits(ch.script, v, l); ch.lines.push_back(b62(v)); }
	else if (mode == PC) ch = make_chal(c, g, PC, 2);
	{ Z alpha; gen_bits(alpha, g, mode == NI ? 2 * l : l); script_bits(ch.script, alpha, mode == NI ? 2 * l : l); }
	std::string ps = "["; for (size_t i = 0; i < n; i++) { if (i) ps += ","; ps += std::to_string(pi[i]); } ps += "]";
	c.rb_bits = 0; c.flips_possible = (mode == PC);
	Side P = run_side(c, [&](std::istream &in, std::ostream &out) {
		if (mode == INTER) c.gP->skc->Prove_interactive(pi, r, mv, in, out);
		else if (mode == PC) c.gP->skc->Prove_interactive_publiccoin(pi, r, mv, c.eP.get(), in, out);
		else c.gP->skc->Prove_noninteractive(pi, r, mv, out);
		return std::string("1"); }, join_lines(ch.lines), std::vector<unsigned char>());
	c.flips_possible = true;
	emit(std::string("args.skc.prove.") + mode_name[mode] + " " + groth_hdr(c) + " " + ps + " " + r.str() + " " + zlist(m) + " " + P.coins + " " + dec_lines(ch.lines) +
		" " + P.log + " " + c.crs(mode) + " tag:honest => " + P.verdict + " " + dec_lines(P.lines));
	for (int neg = 0; neg < 2; neg++) {
		mpz_srcptr cv = neg ? cneg.v : cc.v;
		c.rb_bits = (mode == NI) ? 2 * l : l; c.flips_possible = (mode == PC);
		Side V = run_side(c, [&](std::istream &in, std::ostream &out) {
			bool ok;
			if (mode == INTER) ok = c.gV->skc->Verify_interactive(cv, fpv, mv, in, out);
			else if (mode == PC) ok = c.gV->skc->Verify_interactive_publiccoin(cv, fpv, mv, c.eV.get(), in, out);
			else ok = c.gV->skc->Verify_noninteractive(cv, fpv, mv, in);
			return b2s(ok); }, join_lines(P.lines), ch.script);
		c.rb_bits = 0; c.flips_possible = true;
		emit(std::string("args.skc.verify.") + mode_name[mode] + " " + groth_hdr(c) + " " + zs(cv) + " " + zlist(fp) + " " + zlist(m) + " " + V.coins + " " + dec_lines(P.lines) +
			" 0 " + V.log + " " + c.crs(mode) + " tag:" + (neg ? "mut:c:negelem" : "honest") + " => " + V.verdict + " " + dec_lines(V.lines));
	}
}

void groth_case(Env &c, SplitMix &g, size_t n, uint64_t cidx, bool thorough)
{
	make_groth(c, n);
	SchindelhauerTMCG tm(16, 2, 8);
	TMCG_Stack<VTMF_Card> s, s2; TMCG_StackSecret<VTMF_CardSecret> ss; Stmt st;
	std::vector<size_t> pi(n); for (size_t i = 0; i < n; i++) pi[i] = i;
	if (cidx % 5 != 0) for (size_t i = n - 1; i > 0; i--) std::swap(pi[i], pi[g.below(i + 1)]);     // cidx % 5 == 0: the identity
	if (cidx % 5 == 1) for (size_t i = 0; i < n; i++) pi[i] = n - 1 - i;                              // the reversal
	build_stmt(c, g, tm, pi, st, s, s2, ss, true, true);
	size_t nmut = thorough ? 40 : (n >= 32 ? 2 : n >= 16 ? 3 : 10);
	for (int mode = 0; mode < 3; mode++) groth_mode(c, g, mode, st, "honest", false, nmut, thorough);
	if (n <= 9 || thorough) wrapper_checks_fwd(c, g, true, st, s, s2, ss);
	if (n <= 9 || thorough) for (int mode = 0; mode < 3; mode++) skc_runs(c, g, mode, st.pi);
	// every permutation of a small stack (n <= 3), non-interactive
	if (n <= 3) { std::vector<size_t> p2(n); for (size_t i = 0; i < n; i++) p2[i] = i;
		do { if (p2 == pi) continue; Stmt t; build_stmt(c, g, tm, p2, t, s, s2, ss, false, true); groth_mode(c, g, (int)(cidx % 3), t, "honest", false, 0, false); } while (std::next_permutation(p2.begin(), p2.end())); }
	// ---- false statements (C04)
	for (int what = 0; what < 4; what++) {
		if (n >= 16 && !thorough && what != (int)(cidx % 4) && what != 0) continue;
		Stmt t = st; std::string tag; size_t j = g.below(n), j2 = (j + 1 + g.below(n - 1)) % n;
		if (what == 0) { VTMF_Card cd; VTMF_CardSecret cs; tm.TMCG_CreatePrivateCard(cd, cs, c.A.get(), 64 + g.below(64)); mpz_set(t.Y1[j], cd.c_1); mpz_set(t.Y2[j], cd.c_2); tag = "cheat:substituted-card"; }
		else if (what == 1) { mpz_set(t.Y1[j], t.Y1[j2]); mpz_set(t.Y2[j], t.Y2[j2]); tag = "cheat:duplicated-card"; }
		else if (what == 2) { mpz_mul(t.Y2[j], t.Y2[j], c.A->g); mpz_mod(t.Y2[j], t.Y2[j], c.A->p); tag = "cheat:retyped-card"; }
		else { mpz_mul(t.Y1[j], t.Y1[j], t.X1[j2]); mpz_mod(t.Y1[j], t.Y1[j], c.A->p); mpz_mul(t.Y2[j], t.Y2[j], t.X2[j2]); mpz_mod(t.Y2[j], t.Y2[j], c.A->p); tag = "cheat:two-cards-in-one"; }
		coins.take(); oracle_log();
		groth_mode(c, g, (n >= 16 && !thorough) ? (int)((cidx + what) % 2) : (int)((cidx + what) % 3), t, tag, true, n >= 16 ? 0 : 2, false);
		if (what == 0 && cidx % 2 == 0) {
			// soundness error made visible: t_{pi(j)} = 0 takes E_j out of the last equation; all t_i = 0 take everything out
			ZV force(n + 3); for (size_t i = 0; i < n + 3; i++) { gen_bits(force[i], g, c.le); if (i == n + 2 && !mpz_sgn(force[i])) mpz_set_ui(force[i], 1); }
			mpz_set_ui(force[st.pi[j]], 0);
			groth_mode(c, g, INTER, t, "lucky:t-zero-at-substituted", true, 0, false, &force);
			for (size_t i = 0; i < n; i++) mpz_set_ui(force[i], 0);
			groth_mode(c, g, INTER, t, "lucky:all-t-zero", true, 0, false, &force);
		}
	}
	// ---- commitments replaced by p - c (outside the group; TestMembership is a range check): the sign disappears when
	// the exponents applied to the commitment are even.  Interactive mode, lambda, e and alpha chosen even.
	if (n <= 9 || thorough) {
		ZV force(n + 3); for (size_t i = 0; i < n + 3; i++) gen_bits(force[i], g, c.le);
		mpz_clrbit(force[n], 0); mpz_clrbit(force[n + 2], 0); if (!mpz_sgn(force[n + 2])) mpz_set_ui(force[n + 2], 2);
		g_alpha_even = true; Chal ch = make_gchal(c, g, INTER, n, &force); g_alpha_even = false;
		Side P = groth_prove(c, INTER, st, join_lines(ch.lines));
		std::vector<std::pair<std::string, size_t> > fields = groth_fields(INTER, n); ZV vals = values_of(P.lines);
		if (fields.size() == P.lines.size()) for (size_t pos = 0; pos < fields.size(); pos++) {
			const std::string &fn = fields[pos].first;
			if (fn != "c" && fn != "cd" && fn != "skc_cd" && fn != "skc_ca" && fn != "skc_cDelta") continue;
			Z v; mpz_sub(v, c.A->p, vals[pos]); std::vector<std::string> L = P.lines; L[pos] = b62(v);
			Side W = groth_verify(c, INTER, st, join_lines(L), ch.script);
			emit_groth_verify(c, INTER, st, L, false, W, "mut:" + fn + ":negelem-even");
		}
	}
	// ---- completeness error made visible (interactive mode: the harness chooses the challenges and the prover's first coins):
	// honest prover, true statement, yet refused
	if (cidx % 3 == 0) {
		// (a) d_i = 0 and t_{pi(0)} = 1: f_0 = 1 is shorter than l_e bits, the verifier insists on 2^{l_e - 1} <= f_i
		ZV force(n + 3); for (size_t i = 0; i < n + 3; i++) { gen_bits(force[i], g, c.le); if (i == n + 2 && !mpz_sgn(force[i])) mpz_set_ui(force[i], 1); }
		mpz_set_ui(force[st.pi[0]], 1);
		std::vector<unsigned char> ps; Z zero, v;
		gen_below(v, g, c.A->q); script_mod(ps, v, c.A->q); gen_below(v, g, c.A->q); script_mod(ps, v, c.A->q);   // r, R_d
		for (size_t i = 0; i < n; i++) script_mod(ps, zero, c.A->q);                                                // d_i = 0
		groth_mode(c, g, INTER, st, "unlucky:f-short", false, 0, false, &force, &ps);
		// (b) R_d = -sum t_{pi(i)} R_i: Z = 0, the verifier insists on 0 < Z
		ps.clear(); Z Rd, t; for (size_t i = 0; i < n; i++) { gen_bits(force[i], g, c.le); mpz_mul(t, force[st.pi[i]], st.R[i]); mpz_sub(Rd, Rd, t); }
		for (size_t i = 0; i < n; i++) { mpz_mul(t, force[st.pi[i]], st.R[i]); }
		mpz_set_ui(Rd, 0); for (size_t i = 0; i < n; i++) { mpz_mul(t, force[st.pi[i]], st.R[i]); mpz_sub(Rd, Rd, t); } mpz_mod(Rd, Rd, c.A->q);
		gen_below(v, g, c.A->q); script_mod(ps, v, c.A->q); script_mod(ps, Rd, c.A->q);
		groth_mode(c, g, INTER, st, "unlucky:Z-zero", false, 0, false, &force, &ps);
	}
}


// ---------------------------------------------------------------- the stack-level entry points of SchindelhauerTMCG
// (public-coin with the VTMF group as CRS, and non-interactive).  With the prover's coins re-served they must write the
// transcript of the direct call; the verifier wrappers add a membership test of the shuffled stack s2 (not of s).
std::string in_child(const std::function<std::string()> &f);
void wrapper_checks(Env &c, SplitMix &g, bool groth, Stmt &st, TMCG_Stack<VTMF_Card> &s, TMCG_Stack<VTMF_Card> &s2, TMCG_StackSecret<VTMF_CardSecret> &ss)
{
	if (c.own_crs) return;
	SchindelhauerTMCG tmP(16, 2, 8), tmV(16, 2, 8);
	size_t n = st.n; const char *nm = groth ? "groth" : "hoogh";
	for (int mode = PC; mode <= NI; mode++) {
		Chal ch = groth ? make_gchal(c, g, mode, n) : make_chal(c, g, mode, vrhe_nchal(n));
		Side P = groth ? groth_prove(c, mode, st, join_lines(ch.lines)) : vrhe_prove(c, mode, st, join_lines(ch.lines));
		c.rb_bits = 0; c.flips_possible = (mode == PC);
		Side Pw = run_side(c, [&](std::istream &in, std::ostream &out) {
			if (groth) { if (mode == PC) tmP.TMCG_ProveStackEquality_Groth(s, s2, ss, c.A.get(), c.gP.get(), in, out); else tmP.TMCG_ProveStackEquality_Groth_noninteractive(s, s2, ss, c.A.get(), c.gP.get(), out); }
			else { if (mode == PC) tmP.TMCG_ProveStackEquality_Hoogh(s, s2, ss, c.A.get(), c.vP.get(), in, out); else tmP.TMCG_ProveStackEquality_Hoogh_noninteractive(s, s2, ss, c.A.get(), c.vP.get(), out); }
			return std::string("1"); }, join_lines(ch.lines), P.raw);
		emit(std::string("prop.args.wrapper ") + nm + " " + mode_name[mode] + " " + std::to_string(n) + " same-transcript => " + b2s(Pw.lines == P.lines && Pw.verdict == "1"));
		auto wverify = [&](TMCG_Stack<VTMF_Card> &a, TMCG_Stack<VTMF_Card> &b) {
			c.rb_bits = groth ? ((mode == NI) ? 2 * c.le : c.le) : 0; c.flips_possible = (mode == PC);
			Side r = run_side(c, [&](std::istream &in, std::ostream &out) {
				bool ok;
				if (groth) ok = (mode == PC) ? tmV.TMCG_VerifyStackEquality_Groth(a, b, c.B.get(), c.gV.get(), in, out) : tmV.TMCG_VerifyStackEquality_Groth_noninteractive(a, b, c.B.get(), c.gV.get(), in);
				else ok = (mode == PC) ? tmV.TMCG_VerifyStackEquality_Hoogh(a, b, c.B.get(), c.vV.get(), in, out) : tmV.TMCG_VerifyStackEquality_Hoogh_noninteractive(a, b, c.B.get(), c.vV.get(), in);
				return b2s(ok); }, join_lines(P.lines), ch.script);
			c.rb_bits = 0; c.flips_possible = true; return r; };
		const char *wop = groth ? "args.tmcg.groth.verify." : "args.tmcg.hoogh.verify.";
		auto wemit = [&](Stmt &t, const Side &V, const std::string &tag) { if (groth) emit_groth_verify(c, mode, t, P.lines, false, V, tag, wop); else emit_vrhe_verify(c, mode, t, P.lines, false, V, tag, wop); };
		Side Vw = wverify(s, s2);
		wemit(st, Vw, "honest");
		// one component of the input stack s resp. of the shuffled stack s2 changed (mutation catalogue; p - x first):
		// the stack-level verifiers test the membership of both stacks before they look at the argument
		for (int k = 0; k < 8; k++) {
			int which = k < 4 ? k : (int)g.below(4); size_t j = g.below(n); int how = k < 4 ? 10 : (int)g.below(NMUT);
			TMCG_Stack<VTMF_Card> sx = s, sy = s2; Stmt t = st; std::string hn;
			mpz_ptr tgt = which == 0 ? sx.stack[j].c_1 : which == 1 ? sx.stack[j].c_2 : which == 2 ? sy.stack[j].c_1 : sy.stack[j].c_2;
			if (!mutate(g, how, tgt, c, hn)) continue;
			mpz_set(which == 0 ? t.X1[j].v : which == 1 ? t.X2[j].v : which == 2 ? t.Y1[j].v : t.Y2[j].v, tgt);
			static const char *fn[4] = { "s_c1", "s_c2", "s2_c1", "s2_c2" };
			Side Vt = wverify(sx, sy); wemit(t, Vt, std::string("mut:") + fn[which] + ":" + hn);
		}
		// a MALFORMED statement (one stack component 0, 1, p - x or p - 1) re-proved by the honest prover algorithm, so that the
		// Fiat-Shamir challenges fit and the verifier gets as far as the statement lets it; the responses once as written and once
		// in their negative representatives x - q (accepted by the range checks that compare absolute values; a negative exponent
		// makes GMP invert the base).  Run in a child: the verdict must be a refusal, never an acceptance, never a signal.
		// Model-free lines (seed C12c: a stack check that looks at the wrong stack lets c_2 = 0 reach mpz_powm: SIGFPE).
		for (int k = 0; k < 8; k++) {
			static const int hows[4] = { 2, 10, 3, 4 };
			int which = k % 4, how = hows[(k / 4 + (int)g.below(2) * 2) % 4]; size_t j = g.below(n);
			TMCG_Stack<VTMF_Card> sx = s, sy = s2; Stmt t = st; std::string hn;
			mpz_ptr tgt = which == 0 ? sx.stack[j].c_1 : which == 1 ? sx.stack[j].c_2 : which == 2 ? sy.stack[j].c_1 : sy.stack[j].c_2;
			if (!mutate(g, how, tgt, c, hn)) continue;
			mpz_set(which == 0 ? t.X1[j].v : which == 1 ? t.X2[j].v : which == 2 ? t.Y1[j].v : t.Y2[j].v, tgt);
			static const char *fn[4] = { "s_c1", "s_c2", "s2_c1", "s2_c2" };
			std::string res = in_child([&]() {
				Side Pm = groth ? groth_prove(c, mode, t, join_lines(ch.lines)) : vrhe_prove(c, mode, t, join_lines(ch.lines));
				if (Pm.verdict != "1") return std::string("prover:") + Pm.verdict;
				std::string out;
				for (int neg = 0; neg < 2; neg++) {
					std::vector<std::string> L = Pm.lines;
					if (neg) for (auto &l : L) { Z v; if (mpz_set_str(v, l.c_str(), TMCG_MPZ_IO_BASE) == 0 && mpz_sgn(v) >= 0 && mpz_cmp(v, c.A->q) < 0) { mpz_sub(v, v, c.A->q); l = b62(v); } }
					c.rb_bits = groth ? ((mode == NI) ? 2 * c.le : c.le) : 0; c.flips_possible = (mode == PC);
					Side r = run_side(c, [&](std::istream &in, std::ostream &o2) {
						bool ok;
						if (groth) ok = (mode == PC) ? tmV.TMCG_VerifyStackEquality_Groth(sx, sy, c.B.get(), c.gV.get(), in, o2) : tmV.TMCG_VerifyStackEquality_Groth_noninteractive(sx, sy, c.B.get(), c.gV.get(), in);
						else ok = (mode == PC) ? tmV.TMCG_VerifyStackEquality_Hoogh(sx, sy, c.B.get(), c.vV.get(), in, o2) : tmV.TMCG_VerifyStackEquality_Hoogh_noninteractive(sx, sy, c.B.get(), c.vV.get(), in);
						return b2s(ok); }, join_lines(L), ch.script);
					out += (neg ? " " : "") + r.verdict;
				}
				return out; });
			c.rb_bits = 0; c.flips_possible = true;
			emit(std::string("prop.args.malformed ") + nm + " " + mode_name[mode] + " " + std::to_string(n) + " " + fn[which] + ":" + hn + " => " + res);
			if (!groth && mode == NI) {
				// the honest prover refuses a non-invertible component; a forger does not need it: the prefix h_k = f_k = g,
				// A_k = F_k = (g, g), v = 1, rho_k = mu_k = 0, tau_k = (1 + lambda) - q with lambda recomputed over the malformed
				// statement satisfies the first equation of the verifier for every k (no witness needed), so the verifier goes on
				// to exponentiate the statement's components with the negative tau_k
				// (the second equation is checked card by card from index 0 and fails at the first card: the malformed one is card 0)
				TMCG_Stack<VTMF_Card> sx = s, sy = s2; Stmt t = st; std::string hn;
				mpz_ptr tgt = which == 0 ? sx.stack[0].c_1 : which == 1 ? sx.stack[0].c_2 : which == 2 ? sy.stack[0].c_1 : sy.stack[0].c_2;
				if (!mutate(g, how, tgt, c, hn)) continue;
				mpz_set(which == 0 ? t.X1[0].v : which == 1 ? t.X2[0].v : which == 2 ? t.Y1[0].v : t.Y2[0].v, tgt);
				std::string fres = in_child([&]() {
					PairVec X = pairs(t.X1, t.X2), Y = pairs(t.Y1, t.Y2), Ak, Fk; std::vector<mpz_ptr> hk, fk;
					for (size_t i = 0; i < n; i++) { Ak.push_back(std::make_pair(c.A->g, c.A->g)); Fk.push_back(std::make_pair(c.A->g, c.A->g)); hk.push_back(c.A->g); fk.push_back(c.A->g); }
					Z v, lambda, tau; mpz_set_ui(v, 1);
					tmcg_mpz_shash_4pairvec2vec(lambda, X, Y, Ak, Fk, hk, fk, 5, c.A->p, c.A->q, c.A->g, c.A->h, v.v);
					mpz_mod(lambda, lambda, c.A->q); mpz_add_ui(tau, lambda, 1); mpz_mod(tau, tau, c.A->q); if (mpz_sgn(tau) > 0) mpz_sub(tau, tau, c.A->q);
					std::vector<std::string> L;
					for (size_t i = 0; i < n; i++) L.push_back(b62(c.A->g));
					for (size_t i = 0; i < 2 * n; i++) L.push_back(b62(c.A->g));
					L.push_back(b62(v));
					for (size_t i = 0; i < n; i++) L.push_back(b62(c.A->g));
					for (size_t i = 0; i < 2 * n; i++) L.push_back(b62(c.A->g));
					for (size_t i = 0; i < n; i++) L.push_back(b62(tau));
					for (size_t i = 0; i < 2 * n; i++) L.push_back("0");
					for (size_t i = 0; i < 8 * n + 64; i++) L.push_back("1");
					Side r = run_side(c, [&](std::istream &in, std::ostream &) { return b2s(tmV.TMCG_VerifyStackEquality_Hoogh_noninteractive(sx, sy, c.B.get(), c.vV.get(), in)); }, join_lines(L), std::vector<unsigned char>());
					return r.verdict; });
				emit(std::string("prop.args.malformed ") + nm + " " + mode_name[mode] + " " + std::to_string(n) + " " + fn[which] + ":" + hn + "+forged-prefix => " + fres);
			}
		}
	}
}

// ---------------------------------------------------------------- a failed assert kills the process: run in a child
std::string in_child(const std::function<std::string()> &f)
{
	int pfd[2]; if (pipe(pfd)) return "harness-error";
	fflush(stdout); fflush(stderr);
	pid_t pid = fork();
	if (pid == 0) {
		close(pfd[0]);
		{ struct rlimit rl; rl.rlim_cur = 60; rl.rlim_max = 65; setrlimit(RLIMIT_CPU, &rl); } alarm(600);   // CPU-time limit: robust against machine load
		int devnull = open("/dev/null", O_WRONLY); if (devnull >= 0) dup2(devnull, 2);
		std::string r = guarded(f);
		(void)!write(pfd[1], r.data(), r.size());
		_exit(0);
	}
	close(pfd[1]);
	std::string r; char b[256]; ssize_t k; while ((k = read(pfd[0], b, sizeof b)) > 0) r.append(b, k);
	close(pfd[0]);
	int st = 0; waitpid(pid, &st, 0);
	if (WIFSIGNALED(st)) return WTERMSIG(st) == SIGABRT ? "trap:abort" : "trap:signal" + std::to_string(WTERMSIG(st));
	if (WIFEXITED(st) && WEXITSTATUS(st) != 0) return "trap:abort";   // ASan build: abort() ends in exit(1) via the sanitizer's handler
	return r.empty() ? "trap:no-result" : r;
}

void wrapper_checks_fwd(Env &c, SplitMix &g, bool groth, Stmt &st, TMCG_Stack<VTMF_Card> &s, TMCG_Stack<VTMF_Card> &s2, TMCG_StackSecret<VTMF_CardSecret> &ss) { wrapper_checks(c, g, groth, st, s, s2, ss); }

int drv_args(const Opts &o)
{
	SplitMix g(o.seed ^ 0xa465);
	bool thorough = (o.tier == "thorough");
	coins.log = true; hashlog.log = true;
	static const size_t sizes[11] = { 2, 3, 4, 5, 6, 7, 8, 9, 16, 32, 52 };
	for (uint64_t cidx = 0; cidx < o.cases; cidx++) {
		size_t n = sizes[cidx % 11];
		Env c; make_env(c, g, cidx, thorough, n);
		if (cidx == 0) {
			// one card: the library asserts n >= 2 in prover and verifier
			Stmt st; st.n = 1; st.r = 0; st.R.assign(1, Z()); st.X1.assign(1, Z()); st.X2.assign(1, Z()); st.Y1.assign(1, Z()); st.Y2.assign(1, Z());
			gen_below(st.R[0], g, c.A->q); rand_elem(c, g, st.X1[0]); rand_elem(c, g, st.X2[0]);
			Z t; mpz_powm(t, c.A->g, st.R[0], c.A->p); mpz_mul(st.Y1[0], st.X1[0], t); mpz_mod(st.Y1[0], st.Y1[0], c.A->p);
			mpz_powm(t, c.A->h, st.R[0], c.A->p); mpz_mul(st.Y2[0], st.X2[0], t); mpz_mod(st.Y2[0], st.Y2[0], c.A->p);
			std::vector<std::string> none;
			Side P; P.coins = "[]"; P.log = "[]";
			P.verdict = in_child([&]() { Side q = vrhe_prove(c, NI, st, ""); return q.verdict; });
			emit(std::string("args.vrhe.prove.noninteractive ") + c.pqgh() + " 0 " + zlist(st.R) + " " + cards(st.X1, st.X2) + " " + cards(st.Y1, st.Y2) + " [] [] [] [] tag:one-card => " + P.verdict);
			P.verdict = in_child([&]() { Side q = vrhe_verify(c, NI, st, "", std::vector<unsigned char>()); return q.verdict; });
			emit(std::string("args.vrhe.verify.noninteractive ") + c.pqgh() + " " + cards(st.X1, st.X2) + " " + cards(st.Y1, st.Y2) + " [] [] 0 [] [] tag:one-card => " + P.verdict);
		}
		vrhe_case(c, g, n, cidx, thorough);
		rot_case(c, g, n, cidx);
		{ Env d; make_env(d, g, cidx, thorough, n, true); groth_case(d, g, n, cidx, thorough); }
	}
	return 0;
}

} // namespace
REGISTER_DRIVER("args", drv_args);
