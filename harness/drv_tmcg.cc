// C01, quadratic-residuosity encoding: cards over per-player Blum moduli.
#include "common.hh"

// a random Blum integer with |p| = |q| = bits, and the smallest y with (y/m)=1, y non-residue
static void make_key(SplitMix &g, unsigned bits, TMCG_SecretKey &sk)
{
	Z eight(8);
	for (;;) {
		gen_bits(sk.p, g, bits); mpz_setbit(sk.p, bits - 1); mpz_setbit(sk.p, 0); mpz_setbit(sk.p, 1); mpz_nextprime(sk.p, sk.p);
		if (!mpz_congruent_ui_p(sk.p, 3, 4)) continue;
		do { gen_bits(sk.q, g, bits); mpz_setbit(sk.q, bits - 1); mpz_setbit(sk.q, 0); mpz_setbit(sk.q, 1); mpz_nextprime(sk.q, sk.q); }
		while (!mpz_congruent_ui_p(sk.q, 3, 4) || mpz_congruent_p(sk.p, sk.q, eight));
		break;
	}
	mpz_mul(sk.m, sk.p, sk.q);
	mpz_set_ui(sk.y, 1);
	do mpz_add_ui(sk.y, sk.y, 1); while ((mpz_jacobi(sk.y, sk.m) != 1) || tmcg_mpz_qrmn_p(sk.y, sk.p, sk.q));
}

static void flat(const std::vector<std::vector<MP_INT> > &mx, std::string &out)
{
	for (size_t i = 0; i < mx.size(); i++) for (size_t j = 0; j < mx[i].size(); j++) { if (out.size() > 1) out += ","; out += zs(&mx[i][j]); }
}

static int drv_tmcg(const Opts &o)
{
	SplitMix g(o.seed ^ 0x746d6367);
	bool thorough = (o.tier == "thorough");
	for (uint64_t c = 0; c < o.cases; c++) {
		size_t k = 1 + g.below(c % 6 == 0 ? (thorough ? 32 : 8) : 4);
		size_t w = 1 + g.below(c % 5 == 0 ? 10 : 4);
		unsigned bits = (c % 4 == 0) ? 8 : (c % 4 == 1) ? 24 : (c % 11 == 10 && thorough ? 512 : 64);
		std::vector<TMCG_SecretKey> sks(k);
		TMCG_PublicKeyRing ring(k);
		std::string keys = "[";
		for (size_t i = 0; i < k; i++) {
			make_key(g, bits, sks[i]);
			mpz_set(ring.keys[i].m, sks[i].m); mpz_set(ring.keys[i].y, sks[i].y);
			if (i) keys += ",";
			keys += zs(sks[i].m) + ":" + zs(sks[i].y) + ":" + zs(sks[i].p) + ":" + zs(sks[i].q);
		}
		keys += "]";
		SchindelhauerTMCG tmcg(16, k, w);
		size_t T = g.below(1UL << w);
		TMCG_Card card(k, w), cc(k, w);
		tmcg.TMCG_CreateOpenCard(card, ring, T);
		size_t chain = g.below(7);
		std::string rs = "[", bs = "[";
		for (size_t s = 0; s < chain; s++) {
			size_t index = g.below(k);
			TMCG_CardSecret cs(k, w);
			tmcg.TMCG_CreateCardSecret(cs, ring, index);
			{ std::string b1 = "["; flat(cs.b, b1); b1 += "]"; emit("tmcg.secret " + std::to_string(k) + " " + std::to_string(w) + " " + std::to_string(index) + " " + b1 + " => 1"); }
			tmcg.TMCG_MaskCard(card, cc, cs, ring, g.coin());
			card = cc;
			flat(cs.r, rs); flat(cs.b, bs);
		}
		rs += "]"; bs += "]";
		// opening: every player determines its row of bits with its secret key
		TMCG_CardSecret open_cs(k, w);
		for (size_t i = 0; i < k; i++) tmcg.TMCG_SelfCardSecret(card, open_cs, sks[i], i);
		size_t type = tmcg.TMCG_TypeOfCard(open_cs);
		std::string zf = "["; flat(card.z, zf); zf += "]";
		emit("tmcg.open " + std::to_string(w) + " " + std::to_string(T) + " " + keys + " " + rs + " " + bs + " => " + zf + " " + std::to_string(type));
	}
	return 0;
}
REGISTER_DRIVER("tmcg", drv_tmcg);
