// C20: OpenPGP signatures and encryption of CallasDonnerhackeFinneyShawThayerRFC4880 (area "pgpmsg").
//
// Line formats (hex fields: lower-case hex, `-` = empty; lists `[a,b]`; oracle logs are lists of
// `:`-separated hex tuples; a trailing `tag:<class>` token before ` => ` classifies the case):
//   pgpmsg.cfb.enc <seskey> <prefix> <resync 0|1> <in> <coins> <ekey> <Elog> => <rc> <seskey'> <prefix'> <out>
//        SymmetricEncryptAES256; coins = the random strings served, in order; Elog = [block:E_ekey(block),…]
//   pgpmsg.cfb.dec <algo> <seskey> <prefix> <resync> <in> <ekey> <Elog> => <rc> <seskey'> <prefix'> <out>
//        SymmetricDecrypt
//   pgpmsg.aead.enc <skalgo> <aeadalgo> <cs> <seskey> <ad> <in> <coins> <seallog> => <rc> <seskey'> <iv> <out>
//        SymmetricEncryptAEAD; seallog = [key:nonce:ad:pt:ct:tag,…] (one entry per gcry_cipher_gettag)
//   pgpmsg.aead.dec <skalgo> <aeadalgo> <cs> <seskey> <iv> <ad> <in> <openlog> => <rc> <out>
//        SymmetricDecryptAEAD; openlog = [key:nonce:ad:ct:tag:rc:pt,…] (one entry per gcry_cipher_checktag)
//   pgpmsg.msg.parse <octets> => fail | ok <version> <sed><seipd><aead> <skalgo> <aeadalgo> <cs> <iv> <enc> <mdc>
//        MessageParse on packets of the encrypted-data kinds (tags 9, 18, 19, 20, unknown tags)
//   pgpmsg.msg.dec <version> <sed><seipd><aead> <skalgo> <aeadalgo> <cs> <iv> <enc> <key> <ekey> <Elog> <sha1log> <openlog> => <ok 0|1> <out>
//        TMCG_OpenPGP_Message::Decrypt; sha1log = [input:digest,…]
//   pgpmsg.hash <kind> <version> <hashalgo> <a> <b> <c> <trailer> <hlog> => <hash> <left>
//        the *Hash functions: kind bin|text|standalone|key|key2|cert ; (a,b,c) = (data,-,-) | (-,-,-) | (key,-,-) |
//        (primary,subkey,-) | (key,uid,uat); hlog = [algo:input:digest,…]
//   pgpmsg.validity <creation> <expiration> <hashalgo> <keycreation> <now> => <valid 0|1> <expired 0|1>
//        TMCG_OpenPGP_Signature::CheckValidity (now = time(NULL), the same before and after the call)
//   pgpmsg.verify <kind> <version> <type> <pkalgo> <hashalgo> <creation> <hspd> <left> <qbits> <rbits> <sbits> <a> <b> <c> <hlog> <pklog> => <ok 0|1>
//        TMCG_OpenPGP_Signature::Verify…/VerifyData: kind data|datalit|standalone|key|key2|uid|uat ((a,b,c) = (data,-,-) |
//        (data,filename,format‖time) | (-,-,-) | (key,-,-) | (primary,subkey,-) | (key,uid,-) | (key,uat,-)); hlog as above;
//        pklog = [canonical data S-expression : rc] of the gcry_pk_verify calls
//   pgpmsg.sigflip <kind> <a> <b> <c> <body> <pos> <body'> tag:<field> => <hashed 0|1> <same|changed>
//        one octet of a signature packet body changed: is the octet in the hashed part, and does the library hash the same
//        octets as before (observed from its gcry_md_hash_buffer call)?
//   pgpmsg.sigmerge <hashed area> <unhashed area> => err | critical | ok c= e= k= x= r= kf= ft= psa= pha= pca= paa= rc= rk= pu= i= iv= if= es= esl= nt= rf=
//        PacketDecode of a V4 signature packet around the two subpacket areas: the context fields the subpackets set
//   prop.pgpmsg sig-unhashed <key> v<ver> <what> sub=<type> tag:append:<type> => <verdict before> <verdict after>
//        a library-made signature (what = valid|expired|olderthankey|future) or key block (keyblock-self|keyblock-subkey) with one
//        more subpacket in the unhashed area: parse + CheckValidity + Verify resp. key block checks, flags and expiry
//   prop.pgpmsg sym <what> algo=<a> mode=<cfb|eax|ocb> cs=<c> len=<n> tag:<class> => <ok|refused> <eq 0|1>
//        verdict of the real library on one (possibly tampered) cipher text: what = cfb (raw routines) | seipd | sed | mdc |
//        aead (raw routines) | aead1 (one-shot form, |ad| = 4) | aeadmsg (MessageParse + Decrypt); eq = the plaintext came back
//        classes: honest[:…] | empty | flip:<where>:<pos> | reorder:<i>-<j> | duplicate:<i> | truncate[:…] | drop-final | iv |
//        ad:<i> | ad:chunksize-both | key[:checksum] | nomdc:<how> | wrongmdc | emptybody | framing:<how> | garbage
//   prop.pgpmsg sig <key> v<version> <type> hash=<h> len=<n> tag:<class> => <ok|refused> same=<0|1>
//        verdict on one signature: classes honest[:…] | flip:sig-<header|hashed|mpilen|value|v3-fixed|v3-hashalgo>:<pos> |
//        flip:sig-unhashed:<uspdlen|left16|keyid|pkalgo>:<pos> (fields that are neither hashed nor the signature value) |
//        flip:<doc|text|key|subkey|uid|uat|literal-…>:<pos> | append:doc | cut:doc | otherkey | swap:keys | uid-as-uat |
//        v5:… | v3:uat | weakhash | expired | olderthankey | future (the last four: Verify and CheckValidity both needed);
//        same = the parsed packet is the same signature (all fields that enter verification) as the untouched one
//   prop.pgpmsg keyblock <key> hash=<h> tag:<class> => <ok|refused> same=<0|1>     PublicKeyBlockParse + CheckSelfSignatures
//   prop.pgpmsg sigtime … / filehash … / aead-nonces …     informational (aead-nonces appears only if nonces repeat)
// Options: --part sym|sig|pk ; --tier thorough (includes one 8 MiB-chunk message, also run by --bigchunk);
//   --dump-accepted, --probe-header (diagnostics for accepted signature packet changes)
#include "common.hh"
#include "libTMCG_config.h"
#include <dlfcn.h>
#include <ctime>
#include <map>
#include <set>
#include <unistd.h>
#include <sys/wait.h>

typedef CallasDonnerhackeFinneyShawThayerRFC4880 PGP;
typedef tmcg_openpgp_octets_t Oct;
typedef tmcg_openpgp_secure_octets_t SOct;

// ---------------------------------------------------------------- interposed libgcrypt entry points
// (all forward unchanged; they only record what one AEAD call / one public-key verification saw)
namespace pgpmsgdrv {
struct HdState { int algo = 0, mode = 0; std::string key, nonce, ad; size_t cidx = 0; };
struct AeadEvt { bool seal; std::string key, nonce, ad, pt, ct, tag; int rc; };
static std::map<gcry_cipher_hd_t, HdState> hds;
static std::vector<AeadEvt> aead_events;
static bool aead_log = false;
struct PkEvt { std::string data; int rc; };
static std::vector<PkEvt> pk_events;
static bool pk_log = false;
static bool is_aead_mode(int m) { return m == GCRY_CIPHER_MODE_OCB || m == 14 /* EAX */; }
}
using namespace pgpmsgdrv;

extern "C" gcry_error_t gcry_cipher_open(gcry_cipher_hd_t *h, int algo, int mode, unsigned int flags)
{
	typedef gcry_error_t (*fn_t)(gcry_cipher_hd_t*, int, int, unsigned int);
	static fn_t real = (fn_t)dlsym(RTLD_NEXT, "gcry_cipher_open");
	gcry_error_t e = real(h, algo, mode, flags);
	if (!e && aead_log && is_aead_mode(mode)) { HdState s; s.algo = algo; s.mode = mode; hds[*h] = s; }
	return e;
}
extern "C" void gcry_cipher_close(gcry_cipher_hd_t h)
{
	typedef void (*fn_t)(gcry_cipher_hd_t);
	static fn_t real = (fn_t)dlsym(RTLD_NEXT, "gcry_cipher_close");
	if (!hds.empty()) hds.erase(h);
	real(h);
}
extern "C" gcry_error_t gcry_cipher_setkey(gcry_cipher_hd_t h, const void *key, size_t keylen)
{
	typedef gcry_error_t (*fn_t)(gcry_cipher_hd_t, const void*, size_t);
	static fn_t real = (fn_t)dlsym(RTLD_NEXT, "gcry_cipher_setkey");
	if (aead_log) { auto it = hds.find(h); if (it != hds.end()) it->second.key.assign((const char*)key, keylen); }
	return real(h, key, keylen);
}
extern "C" gcry_error_t gcry_cipher_setiv(gcry_cipher_hd_t h, const void *iv, size_t ivlen)
{
	typedef gcry_error_t (*fn_t)(gcry_cipher_hd_t, const void*, size_t);
	static fn_t real = (fn_t)dlsym(RTLD_NEXT, "gcry_cipher_setiv");
	if (aead_log) { auto it = hds.find(h); if (it != hds.end()) { it->second.nonce.assign((const char*)iv, iv ? ivlen : 0); it->second.ad.clear(); it->second.cidx = cryptolog.ciphers.size(); } }
	return real(h, iv, ivlen);
}
extern "C" gcry_error_t gcry_cipher_authenticate(gcry_cipher_hd_t h, const void *abuf, size_t abuflen)
{
	typedef gcry_error_t (*fn_t)(gcry_cipher_hd_t, const void*, size_t);
	static fn_t real = (fn_t)dlsym(RTLD_NEXT, "gcry_cipher_authenticate");
	if (aead_log) { auto it = hds.find(h); if (it != hds.end()) it->second.ad.append((const char*)abuf, abuflen); }
	return real(h, abuf, abuflen);
}
extern "C" gcry_error_t gcry_cipher_gettag(gcry_cipher_hd_t h, void *outtag, size_t taglen)
{
	typedef gcry_error_t (*fn_t)(gcry_cipher_hd_t, void*, size_t);
	static fn_t real = (fn_t)dlsym(RTLD_NEXT, "gcry_cipher_gettag");
	gcry_error_t e = real(h, outtag, taglen);
	if (aead_log) { auto it = hds.find(h); if (it != hds.end()) {
		AeadEvt v; v.seal = true; v.key = it->second.key; v.nonce = it->second.nonce; v.ad = it->second.ad; v.rc = (int)gcry_err_code(e);
		for (size_t i = it->second.cidx; i < cryptolog.ciphers.size(); i++) if (cryptolog.ciphers[i].encrypt) { v.pt += cryptolog.ciphers[i].in; v.ct += cryptolog.ciphers[i].out; }
		if (!e) v.tag.assign((const char*)outtag, taglen);
		aead_events.push_back(v); } }
	return e;
}
extern "C" gcry_error_t gcry_cipher_checktag(gcry_cipher_hd_t h, const void *intag, size_t taglen)
{
	typedef gcry_error_t (*fn_t)(gcry_cipher_hd_t, const void*, size_t);
	static fn_t real = (fn_t)dlsym(RTLD_NEXT, "gcry_cipher_checktag");
	gcry_error_t e = real(h, intag, taglen);
	if (aead_log) { auto it = hds.find(h); if (it != hds.end()) {
		AeadEvt v; v.seal = false; v.key = it->second.key; v.nonce = it->second.nonce; v.ad = it->second.ad; v.rc = (int)gcry_err_code(e);
		for (size_t i = it->second.cidx; i < cryptolog.ciphers.size(); i++) if (!cryptolog.ciphers[i].encrypt) { v.ct += cryptolog.ciphers[i].in; v.pt += cryptolog.ciphers[i].out; }
		v.tag.assign((const char*)intag, taglen);
		aead_events.push_back(v); } }
	return e;
}
extern "C" gcry_error_t gcry_pk_verify(gcry_sexp_t sigval, gcry_sexp_t data, gcry_sexp_t pkey)
{
	typedef gcry_error_t (*fn_t)(gcry_sexp_t, gcry_sexp_t, gcry_sexp_t);
	static fn_t real = (fn_t)dlsym(RTLD_NEXT, "gcry_pk_verify");
	gcry_error_t e = real(sigval, data, pkey);
	if (pk_log) {
		PkEvt v; v.rc = (int)gcry_err_code(e);
		size_t n = gcry_sexp_sprint(data, GCRYSEXP_FMT_CANON, NULL, 0);
		if (n) { std::vector<char> b(n); gcry_sexp_sprint(data, GCRYSEXP_FMT_CANON, b.data(), n); v.data.assign(b.data(), n - 1); }
		pk_events.push_back(v);
	}
	return e;
}

// ---------------------------------------------------------------- helpers
static std::string hx(const Oct &o) { return hexs(o.data(), o.size()); }
static std::string hx(const SOct &o) { return hexs(o.data(), o.size()); }
static Oct rnd_octets(SplitMix &g, size_t n) { Oct o(n); for (size_t i = 0; i < n; i++) o[i] = (unsigned char)g.below(256); return o; }
static SOct sec(const Oct &o) { SOct s; for (unsigned char c : o) s.push_back(c); return s; }
static Oct cat(const Oct &a, const Oct &b) { Oct r = a; r.insert(r.end(), b.begin(), b.end()); return r; }
struct QuietCerr {
	std::streambuf *old; std::ostringstream sink;
	QuietCerr() { old = std::cerr.rdbuf(sink.rdbuf()); }
	~QuietCerr() { std::cerr.rdbuf(old); }
};
static std::string coin_list(const std::vector<CoinLogEntry> &es) { return coin_bytes_hex(es); }
static const char *mode_name(int aead) { return aead == 1 ? "eax" : aead == 2 ? "ocb" : "x"; }

// E_key(block) for the blocks a CFB run over `ct` can ask for: the zero block and every window of the
// cipher text at the offsets 0 and 2 modulo the block size
static std::string ecb_log(int skalgo, const std::string &key, const Oct &ct)
{
	size_t bs = PGP::AlgorithmIVLength((tmcg_openpgp_skalgo_t)skalgo);
	if (!bs || key.empty()) return "[]";
	gcry_cipher_hd_t hd;
	if (gcry_cipher_open(&hd, PGP::AlgorithmSymGCRY((tmcg_openpgp_skalgo_t)skalgo), GCRY_CIPHER_MODE_ECB, 0)) return "[]";
	if (gcry_cipher_setkey(hd, key.data(), key.size())) { gcry_cipher_close(hd); return "[]"; }
	std::set<std::string> blocks; blocks.insert(std::string(bs, '\0'));
	for (size_t off = 0; off + bs <= ct.size(); off += bs) blocks.insert(std::string((const char*)&ct[off], bs));
	for (size_t off = 2; off + bs <= ct.size(); off += bs) blocks.insert(std::string((const char*)&ct[off], bs));
	std::string s = "["; bool first = true;
	bool keep = cryptolog.log; cryptolog.log = false;
	for (auto &b : blocks) {
		std::string o(bs, '\0');
		gcry_cipher_encrypt(hd, &o[0], bs, b.data(), bs);
		if (!first) s += ","; first = false; s += hexs(b) + ":" + hexs(o);
	}
	cryptolog.log = keep;
	gcry_cipher_close(hd);
	return s + "]";
}
// the raw key inside a session key of the form raw | algo‖raw‖checksum
static std::string raw_key(const SOct &seskey, int skalgo)
{
	size_t ks = PGP::AlgorithmKeyLength((tmcg_openpgp_skalgo_t)skalgo);
	if (!ks) return "";
	if (seskey.size() == ks) return std::string((const char*)seskey.data(), ks);
	if (seskey.size() == ks + 3) return std::string((const char*)seskey.data() + 1, ks);
	return "";
}
static std::string digest_of(int gcry_algo, const std::string &data)
{
	size_t dlen = gcry_md_get_algo_dlen(gcry_algo); if (!dlen) return "";
	std::string d(dlen, '\0'); bool keep = hashlog.log; hashlog.log = false;
	gcry_md_hash_buffer(gcry_algo, &d[0], data.data(), data.size());
	hashlog.log = keep; return d;
}
// [input:digest] of the SHA-1 calls logged since the last clear
static std::string sha1_log()
{
	std::string s = "["; bool first = true;
	for (auto &r : hashlog.raw) if (r.first == GCRY_MD_SHA1) { if (!first) s += ","; first = false; s += hexs(r.second) + ":" + hexs(digest_of(GCRY_MD_SHA1, r.second)); }
	return s + "]";
}
static std::string seal_log()
{
	std::string s = "["; bool first = true;
	for (auto &v : aead_events) if (v.seal) { if (!first) s += ","; first = false; s += hexs(v.key) + ":" + hexs(v.nonce) + ":" + hexs(v.ad) + ":" + hexs(v.pt) + ":" + hexs(v.ct) + ":" + hexs(v.tag); }
	return s + "]";
}
static std::string open_log()
{
	std::string s = "["; bool first = true; char rc[8];
	for (auto &v : aead_events) if (!v.seal) { if (!first) s += ","; first = false; snprintf(rc, sizeof rc, "%02x", v.rc & 0xFF);
		s += hexs(v.key) + ":" + hexs(v.nonce) + ":" + hexs(v.ad) + ":" + hexs(v.ct) + ":" + hexs(v.tag) + ":" + rc + ":" + (v.rc ? std::string("-") : hexs(v.pt)); }
	return s + "]";
}
static void logs_begin(bool ciphers = true) { coins.log = true; coins.take(); cryptolog.clear(); cryptolog.log = ciphers; aead_events.clear(); aead_log = ciphers; hashlog.clear(); hashlog.log = true; }
static void logs_end() { coins.log = false; cryptolog.log = false; aead_log = false; hashlog.log = false; }
static std::string tagtok(const std::string &tag) { return tag.empty() ? "" : " tag:" + tag; }

// ---------------------------------------------------------------- CFB
struct CfbOut { unsigned rc; SOct seskey; Oct prefix, out; };
static CfbOut cfb_enc(const Oct &in, const SOct &seskey_in, const Oct &prefix_in, bool resync, const std::string &tag = "")
{
	CfbOut r; r.seskey = seskey_in; r.prefix = prefix_in;
	coins.log = true; coins.take();
	gcry_error_t ret = PGP::SymmetricEncryptAES256(in, r.seskey, r.prefix, resync, r.out);
	std::string cl = coin_list(coins.take()); coins.log = false;
	r.rc = gcry_err_code(ret);
	std::string key = ret ? "" : raw_key(r.seskey, 9);
	emit("pgpmsg.cfb.enc " + hx(seskey_in) + " " + hx(prefix_in) + " " + (resync ? "1 " : "0 ") + hx(in) + " " + cl + " " + hexs(key) + " " + ecb_log(9, key, r.out) + tagtok(tag) +
		" => " + std::to_string(r.rc) + " " + hx(r.seskey) + " " + hx(r.prefix) + " " + hx(r.out));
	return r;
}
static CfbOut cfb_dec(int algo, const Oct &in, const SOct &seskey_in, const Oct &prefix_in, bool resync, const std::string &tag = "")
{
	CfbOut r; r.seskey = seskey_in; r.prefix = prefix_in;
	gcry_error_t ret = PGP::SymmetricDecrypt(in, r.seskey, r.prefix, resync, (tmcg_openpgp_skalgo_t)algo, r.out);
	r.rc = gcry_err_code(ret);
	std::string key = raw_key(r.seskey, algo);
	emit("pgpmsg.cfb.dec " + std::to_string(algo) + " " + hx(seskey_in) + " " + hx(prefix_in) + " " + (resync ? "1 " : "0 ") + hx(in) + " " + hexs(key) + " " + ecb_log(algo, key, in) + tagtok(tag) +
		" => " + std::to_string(r.rc) + " " + hx(r.seskey) + " " + hx(r.prefix) + " " + hx(r.out));
	return r;
}
// OpenPGP CFB with libgcrypt directly, for the ciphers the library has no encryption routine for
static Oct cfb_ref_encrypt(int algo, const std::string &key, const Oct &prefix, bool resync, const Oct &in)
{
	Oct out; gcry_cipher_hd_t hd;
	if (gcry_cipher_open(&hd, PGP::AlgorithmSymGCRY((tmcg_openpgp_skalgo_t)algo), GCRY_CIPHER_MODE_CFB, GCRY_CIPHER_ENABLE_SYNC)) return out;
	gcry_cipher_setkey(hd, key.data(), key.size()); gcry_cipher_setiv(hd, NULL, 0);
	Oct pre = prefix; bool keep = cryptolog.log; cryptolog.log = false;
	gcry_cipher_encrypt(hd, pre.data(), pre.size(), NULL, 0);
	if (resync) gcry_cipher_ctl(hd, GCRYCTL_CFB_SYNC, NULL, 0);
	out = pre;
	if (!in.empty()) { Oct body = in; gcry_cipher_encrypt(hd, body.data(), body.size(), NULL, 0); out.insert(out.end(), body.begin(), body.end()); }
	cryptolog.log = keep; gcry_cipher_close(hd);
	return out;
}
static bool algo_available(int algo)
{
	int g = PGP::AlgorithmSymGCRY((tmcg_openpgp_skalgo_t)algo);
	return g && !gcry_cipher_algo_info(g, GCRYCTL_TEST_ALGO, NULL, NULL);
}
static SOct wrap_key(int algo, const std::string &key)
{
	SOct s; s.push_back((unsigned char)algo); unsigned sum = 0;
	for (unsigned char c : key) { s.push_back(c); sum += c; }
	s.push_back((sum >> 8) & 0xFF); s.push_back(sum & 0xFF); return s;
}

// ---------------------------------------------------------------- AEAD
struct AeadOut { unsigned rc; SOct seskey; Oct iv, out; };
static AeadOut aead_enc(int skalgo, int aead, unsigned cs, const SOct &seskey_in, const Oct &ad, const Oct &in, const std::string &tag = "")
{
	AeadOut r; r.seskey = seskey_in;
	logs_begin();
	gcry_error_t ret = PGP::SymmetricEncryptAEAD(in, r.seskey, (tmcg_openpgp_skalgo_t)skalgo, (tmcg_openpgp_aeadalgo_t)aead, (tmcg_openpgp_byte_t)cs, ad, 0, r.iv, r.out);
	std::string cl = coin_list(coins.take()); logs_end();
	r.rc = gcry_err_code(ret);
	{ std::set<std::string> nn; size_t calls = 0; for (auto &v : aead_events) if (v.seal) { calls++; nn.insert(v.nonce); }
	  if (calls > nn.size()) emit("prop.pgpmsg aead-nonces mode=" + std::string(mode_name(aead)) + " cs=" + std::to_string(cs) + " len=" + std::to_string(in.size()) + " => calls=" + std::to_string(calls) + " distinct=" + std::to_string(nn.size())); }
	emit("pgpmsg.aead.enc " + std::to_string(skalgo) + " " + std::to_string(aead) + " " + std::to_string(cs) + " " + hx(seskey_in) + " " + hx(ad) + " " + hx(in) + " " + cl + " " + seal_log() + tagtok(tag) +
		" => " + std::to_string(r.rc) + " " + hx(r.seskey) + " " + hx(r.iv) + " " + hx(r.out));
	return r;
}
// an input that ends 32 octets behind a whole number of chunks leaves a last chunk of length 0 (before the repair of the
// library: a zero-length variable length array); such shapes are part of every run (drop-final with a 16-octet last chunk)
static AeadOut aead_dec(int skalgo, int aead, unsigned cs, const SOct &seskey, const Oct &iv, const Oct &ad, const Oct &in, const std::string &tag = "")
{
	AeadOut r; r.seskey = seskey; r.iv = iv;
	logs_begin();
	gcry_error_t ret = PGP::SymmetricDecryptAEAD(in, seskey, (tmcg_openpgp_skalgo_t)skalgo, (tmcg_openpgp_aeadalgo_t)aead, (tmcg_openpgp_byte_t)cs, iv, ad, 0, r.out);
	logs_end();
	r.rc = gcry_err_code(ret);
	emit("pgpmsg.aead.dec " + std::to_string(skalgo) + " " + std::to_string(aead) + " " + std::to_string(cs) + " " + hx(seskey) + " " + hx(iv) + " " + hx(ad) + " " + hx(in) + " " + open_log() + tagtok(tag) +
		" => " + std::to_string(r.rc) + " " + hx(r.out));
	return r;
}
static Oct aead_ad(int skalgo, int aead, unsigned cs)
{
	Oct ad; ad.push_back(0xD4); ad.push_back(1); ad.push_back((unsigned char)skalgo); ad.push_back((unsigned char)aead); ad.push_back((unsigned char)cs);
	for (int i = 0; i < 8; i++) ad.push_back(0);
	return ad;
}
static void prop_sym(const std::string &what, int algo, const std::string &mode, unsigned cs, size_t len, const std::string &tag, bool ok, bool eq)
{
	emit("prop.pgpmsg sym " + what + " algo=" + std::to_string(algo) + " mode=" + mode + " cs=" + std::to_string(cs) + " len=" + std::to_string(len) + " tag:" + tag + " => " + (ok ? "ok" : "refused") + " " + (eq ? "1" : "0"));
}
// positions to flip: all of them for short strings, a seeded sample (with both ends) otherwise
static std::vector<size_t> flip_positions(SplitMix &g, size_t n, size_t all_below, size_t sample)
{
	std::vector<size_t> p;
	if (n <= all_below || n <= 40 || n <= sample) { for (size_t i = 0; i < n; i++) p.push_back(i); return p; }
	std::set<size_t> s; s.insert(0); s.insert(1); s.insert(n - 1); s.insert(n - 2); s.insert(n - 16); s.insert(n - 17); s.insert(n - 32); s.insert(n - 33);
	while (s.size() < sample) s.insert(g.below(n));
	p.assign(s.begin(), s.end()); return p;
}

// one plaintext through SymmetricEncryptAEAD / SymmetricDecryptAEAD with the tamper catalogue
static void aead_case(SplitMix &g, int skalgo, int aead, unsigned cs, size_t len, bool tamper, size_t all_below, size_t sample)
{
	size_t ks = PGP::AlgorithmKeyLength((tmcg_openpgp_skalgo_t)skalgo);
	Oct pt = rnd_octets(g, len), ad = aead_ad(skalgo, aead, cs);
	SOct key; switch (g.below(3)) { case 0: break; case 1: key = sec(rnd_octets(g, ks)); break; default: { Oct k = rnd_octets(g, ks); key = wrap_key(skalgo, std::string((const char*)k.data(), k.size())); } }
	AeadOut e = aead_enc(skalgo, aead, cs, key, ad, pt, "honest");
	std::string mode = mode_name(aead);
	if (e.rc) { prop_sym("aead", skalgo, mode, cs, len, len ? "honest-enc-failed" : "empty", false, false); return; }
	AeadOut d = aead_dec(skalgo, aead, cs, e.seskey, e.iv, ad, e.out, "honest");
	prop_sym("aead", skalgo, mode, cs, len, "honest", d.rc == 0, d.out == pt);
	if (!tamper) return;
	uint64_t cd = (uint64_t)1 << (cs + 6); size_t nchunks = (len - 1) / cd, stride = cd + 16;
	for (size_t pos : flip_positions(g, e.out.size(), all_below, sample)) {
		Oct c = e.out; c[pos] ^= (unsigned char)(1u << g.below(8));
		std::string where = pos + 16 >= c.size() ? "finaltag" : (pos % stride) >= cd && pos / stride < nchunks ? "chunktag" : pos + 32 >= c.size() ? "lasttag" : "ct";
		std::string t = "flip:" + where + ":" + std::to_string(pos);
		AeadOut x = aead_dec(skalgo, aead, cs, e.seskey, e.iv, ad, c, t);
		prop_sym("aead", skalgo, mode, cs, len, t, x.rc == 0, x.out == pt);
	}
	auto run = [&](const Oct &c, const Oct &iv, const Oct &ad2, unsigned cs2, const std::string &t) {
		AeadOut x = aead_dec(skalgo, aead, cs2, e.seskey, iv, ad2, c, t);
		prop_sym("aead", skalgo, mode, cs, len, t, x.rc == 0, x.out == pt);
	};
	{ Oct c(e.out.begin(), e.out.end() - 16); run(c, e.iv, ad, cs, "drop-final"); }
	if (nchunks >= 1) {
		// whole trailing chunks dropped, with and without the final tag kept
		{ Oct c(e.out.begin(), e.out.begin() + nchunks * stride); run(c, e.iv, ad, cs, "truncate:lastchunk+final"); }
		{ Oct c(e.out.begin(), e.out.begin() + nchunks * stride); c.insert(c.end(), e.out.end() - 16, e.out.end()); run(c, e.iv, ad, cs, "truncate:lastchunk"); }
		{ Oct c(e.out.begin() + stride, e.out.end()); run(c, e.iv, ad, cs, "truncate:firstchunk"); }
	}
	if (nchunks >= 2) {
		Oct c = e.out; std::swap_ranges(c.begin(), c.begin() + stride, c.begin() + stride); run(c, e.iv, ad, cs, "reorder:0-1");
		size_t a = g.below(nchunks), b = g.below(nchunks); if (a != b) { Oct c2 = e.out; std::swap_ranges(c2.begin() + a * stride, c2.begin() + (a + 1) * stride, c2.begin() + b * stride); run(c2, e.iv, ad, cs, "reorder:" + std::to_string(a) + "-" + std::to_string(b)); }
		{ Oct c3(e.out.begin(), e.out.begin() + stride); c3.insert(c3.end(), e.out.begin(), e.out.end()); run(c3, e.iv, ad, cs, "duplicate:0"); }
	}
	if (nchunks >= 4) { // chunks 0 and 3 are sealed under the same nonce (the index is XORed into the buffer cumulatively)
		Oct c = e.out; std::swap_ranges(c.begin(), c.begin() + stride, c.begin() + 3 * stride); run(c, e.iv, ad, cs, "reorder:0-3");
	}
	{ Oct iv2 = e.iv; iv2[g.below(iv2.size())] ^= (unsigned char)(1u << g.below(8)); run(e.out, iv2, ad, cs, "iv"); }
	for (size_t i = 0; i < 5; i++) { Oct ad2 = ad; ad2[i] ^= (unsigned char)(1u << g.below(8)); run(e.out, e.iv, ad2, cs, "ad:" + std::to_string(i)); }
	{ unsigned cs2 = cs ? cs - 1 : cs + 1; run(e.out, e.iv, aead_ad(skalgo, aead, cs2), cs2, "ad:chunksize-both"); }
	{ SOct k2 = e.seskey; size_t i = (k2.size() == ks + 3) ? 1 + g.below(ks) : g.below(ks); k2[i] ^= 0x10; if (k2.size() == ks + 3) { k2 = wrap_key(skalgo, std::string((const char*)k2.data() + 1, ks)); }
	  AeadOut x = aead_dec(skalgo, aead, cs, k2, e.iv, ad, e.out, "key"); prop_sym("aead", skalgo, mode, cs, len, "key", x.rc == 0, x.out == pt); }
}

// ---------------------------------------------------------------- messages
struct MsgView { bool ok = false; TMCG_OpenPGP_Message *msg = NULL; ~MsgView() { delete msg; } };
static bool modelled_first_octet(unsigned char b)
{
	if (!(b & 0x80)) return true;
	unsigned tag = (b & 0x40) ? (b & 0x3F) : ((b >> 2) & 0x0F);
	bool known = (tag >= 1 && tag <= 14) || (tag >= 17 && tag <= 20);
	return tag == 9 || tag == 18 || tag == 19 || tag == 20 || tag == 12 || !known;
}
// is every packet MessageParse will look at of a kind the model covers?  (walk with the library's own
// PacketDecode; the walk ends where MessageParse ends: at the first encrypted-data / MDC packet or error)
static bool modelled_message(const Oct &in)
{
	Oct pkts = in;
	while (pkts.size()) {
		if (!modelled_first_octet(pkts[0])) return false;
		tmcg_openpgp_packet_ctx_t ctx; Oct cur; tmcg_openpgp_notations_t nt; tmcg_openpgp_multiple_octets_t es, rf;
		tmcg_openpgp_byte_t pt = PGP::PacketDecode(pkts, 0, ctx, cur, nt, es, rf);
		PGP::PacketContextRelease(ctx);
		if (pt == 0 || pt == 9 || pt == 18 || pt == 19 || pt == 20) return true;
	}
	return true;
}
static std::string msg_fields(const TMCG_OpenPGP_Message *m)
{
	return std::to_string((unsigned)m->version) + " " + (m->have_sed ? "1" : "0") + (m->have_seipd ? "1" : "0") + (m->have_aead ? "1" : "0") + " " +
		std::to_string((unsigned)m->skalgo) + " " + std::to_string((unsigned)m->aeadalgo) + " " + std::to_string((unsigned)m->chunksize) + " " + hx(m->iv) + " " + hx(m->encrypted_message);
}
static void msg_parse(const Oct &in, MsgView &v, const std::string &tag = "")
{
	PGP::MemoryGuardReset();
	{ QuietCerr q; v.ok = PGP::MessageParse(in, 0, v.msg); }
	if (!modelled_message(in)) return;
	emit("pgpmsg.msg.parse " + hx(in) + tagtok(tag) + " => " + (v.ok ? "ok " + msg_fields(v.msg) + " " + hx(v.msg->mdc) : std::string("fail")));
}
static bool msg_decrypt(const TMCG_OpenPGP_Message *m, const SOct &key, Oct &out, const std::string &tag = "")
{
	logs_begin(m->have_aead);
	bool ok; { QuietCerr q; ok = m->Decrypt(key, 0, out); }
	logs_end();
	int algo = (key.size() > 0 && !m->have_aead) ? key[0] : (int)m->skalgo;
	size_t sklen = PGP::AlgorithmKeyLength((tmcg_openpgp_skalgo_t)algo); std::string rk;
	if (sklen && key.size() == sklen + 3) rk.assign((const char*)key.data() + 1, sklen); else if (sklen && key.size() == sklen + 1) rk.assign((const char*)key.data() + 1, sklen); else if (sklen && key.size() == sklen) rk.assign((const char*)key.data(), sklen);
	std::string el = m->have_aead ? "[]" : ecb_log(algo, rk, m->encrypted_message);
	emit("pgpmsg.msg.dec " + msg_fields(m) + " " + hx(key) + " " + hexs(rk) + " " + el + " " + sha1_log() + " " + open_log() + tagtok(tag) + " => " + (ok ? "1 " : "0 ") + hx(out));
	return ok;
}
// parse + decrypt of one packet sequence; verdict line for the predicate
static void msg_case(const Oct &pkts, const SOct &key, const Oct &expect, const std::string &what, int algo, const std::string &mode, unsigned cs, const std::string &tag)
{
	MsgView v; msg_parse(pkts, v, tag);
	bool ok = false; Oct out;
	if (v.ok) ok = msg_decrypt(v.msg, key, out, tag);
	prop_sym(what, algo, mode, cs, expect.size(), tag, ok, ok && out.size() >= expect.size() && std::equal(expect.begin(), expect.end(), out.begin()));
}
static Oct lit_packet(const Oct &data) { Oct lit; PGP::PacketLitEncode(data, lit); return lit; }
// the sender's side of an integrity protected message, as in the library's test-suite
static Oct seipd_body(int algo, const std::string &key, const Oct &prefix, const Oct &plain, bool with_mdc)
{
	Oct body = plain;
	if (with_mdc) { Oct h = cat(prefix, plain); h.push_back(0xD3); h.push_back(0x14); Oct hash, mdc; PGP::HashCompute(TMCG_OPENPGP_HASHALGO_SHA1, h, hash); PGP::PacketMdcEncode(hash, mdc); body = cat(plain, mdc); }
	return cfb_ref_encrypt(algo, key, prefix, false, body);
}
static Oct make_prefix(SplitMix &g, size_t bs) { Oct p = rnd_octets(g, bs); p.push_back(p[bs - 2]); p.push_back(p[bs - 1]); return p; }

static void seipd_case(SplitMix &g, int algo, size_t len, bool tamper, size_t all_below, size_t sample)
{
	size_t ks = PGP::AlgorithmKeyLength((tmcg_openpgp_skalgo_t)algo), bs = PGP::AlgorithmIVLength((tmcg_openpgp_skalgo_t)algo);
	Oct k = rnd_octets(g, ks); std::string key((const char*)k.data(), ks);
	Oct data = rnd_octets(g, len), lit = lit_packet(data), prefix = make_prefix(g, bs), enc;
	if (algo == 9 && g.coin()) {
		// the library's own routine
		Oct h = cat(prefix, lit); h.push_back(0xD3); h.push_back(0x14); Oct hash, mdc; PGP::HashCompute(TMCG_OPENPGP_HASHALGO_SHA1, h, hash); PGP::PacketMdcEncode(hash, mdc);
		CfbOut e = cfb_enc(cat(lit, mdc), sec(k), prefix, false, "honest"); enc = e.out;
	} else enc = seipd_body(algo, key, prefix, lit, true);
	Oct pkt; PGP::PacketSeipdEncode(enc, pkt);
	SOct wk = wrap_key(algo, key), ak; ak.push_back((unsigned char)algo); for (unsigned char c : k) ak.push_back(c);
	msg_case(pkt, g.coin() ? wk : ak, lit, "seipd", algo, "cfb", 0, "honest");
	if (!tamper) return;
	for (size_t pos : flip_positions(g, pkt.size(), all_below, sample)) {
		Oct c = pkt; c[pos] ^= (unsigned char)(1u << g.below(8));
		size_t hdr = pkt.size() - enc.size();
		std::string where = pos < hdr ? "header" : pos < hdr + bs + 2 ? "prefix" : pos + 22 >= pkt.size() ? "mdc" : "ct";
		msg_case(c, wk, lit, "seipd", algo, "cfb", 0, "flip:" + where + ":" + std::to_string(pos));
	}
	// no MDC at all, or the MDC of another prefix / text, or cut short
	{ Oct e2 = seipd_body(algo, key, prefix, lit, false), p2; PGP::PacketSeipdEncode(e2, p2); msg_case(p2, wk, lit, "seipd", algo, "cfb", 0, "nomdc:seipd-without-mdc"); }
	{ Oct p2; PGP::PacketSedEncode(cfb_ref_encrypt(algo, key, prefix, true, lit), p2); msg_case(p2, wk, lit, "sed", algo, "cfb", 0, "nomdc:sed"); }
	{ Oct p2; PGP::PacketSedEncode(enc, p2); msg_case(p2, wk, lit, "sed", algo, "cfb", 0, "nomdc:sed-with-mdc-inside"); }
	{ Oct e2(enc.begin(), enc.end() - 1 - g.below(22)), p2; PGP::PacketSeipdEncode(e2, p2); msg_case(p2, wk, lit, "seipd", algo, "cfb", 0, "truncate"); }
	{ Oct e2(enc.begin(), enc.begin() + bs + 2), p2; PGP::PacketSeipdEncode(e2, p2); msg_case(p2, wk, lit, "seipd", algo, "cfb", 0, "truncate:prefix-only"); }
	{ Oct lit2 = lit; lit2[g.below(lit2.size())] ^= 1; Oct h = cat(prefix, lit2); h.push_back(0xD3); h.push_back(0x14); Oct hash, mdc; PGP::HashCompute(TMCG_OPENPGP_HASHALGO_SHA1, h, hash); PGP::PacketMdcEncode(hash, mdc);
	  Oct e2 = cfb_ref_encrypt(algo, key, prefix, false, cat(lit, mdc)), p2; PGP::PacketSeipdEncode(e2, p2); msg_case(p2, wk, lit, "seipd", algo, "cfb", 0, "wrongmdc"); }
	{ std::string key2 = key; key2[g.below(ks)] ^= 0x10 /* not a DES parity bit */; msg_case(pkt, wrap_key(algo, key2), lit, "seipd", algo, "cfb", 0, "key"); }
	{ SOct bad = wk; bad[bad.size() - 1] ^= 1; msg_case(pkt, bad, lit, "seipd", algo, "cfb", 0, "key:checksum"); }
}

static void aead_msg_case(SplitMix &g, int skalgo, int aead, unsigned cs, size_t len, bool tamper, size_t all_below, size_t sample)
{
	size_t ks = PGP::AlgorithmKeyLength((tmcg_openpgp_skalgo_t)skalgo);
	Oct data = rnd_octets(g, len), lit = lit_packet(data), ad = aead_ad(skalgo, aead, cs);
	Oct k = rnd_octets(g, ks); SOct key = sec(k);
	AeadOut e = aead_enc(skalgo, aead, cs, key, ad, lit, "honest"); if (e.rc) return;
	Oct pkt; PGP::PacketAeadEncode((tmcg_openpgp_skalgo_t)skalgo, (tmcg_openpgp_aeadalgo_t)aead, (tmcg_openpgp_byte_t)cs, e.iv, e.out, pkt);
	std::string mode = mode_name(aead);
	SOct wk = wrap_key(skalgo, std::string((const char*)k.data(), ks));
	msg_case(pkt, g.coin() ? key : wk, lit, "aeadmsg", skalgo, mode, cs, "honest");
	if (!tamper) return;
	size_t hdr = pkt.size() - e.out.size() - e.iv.size() - 4;
	for (size_t pos : flip_positions(g, pkt.size(), all_below, sample)) {
		Oct c = pkt; c[pos] ^= (unsigned char)(1u << g.below(8));
		std::string where = pos < hdr ? "header" : pos < hdr + 4 ? "ad" : pos < hdr + 4 + e.iv.size() ? "iv" : pos + 16 >= pkt.size() ? "finaltag" : "ct";
		msg_case(c, key, lit, "aeadmsg", skalgo, mode, cs, "flip:" + where + ":" + std::to_string(pos));
	}
	{ Oct c; PGP::PacketAeadEncode((tmcg_openpgp_skalgo_t)skalgo, (tmcg_openpgp_aeadalgo_t)aead, (tmcg_openpgp_byte_t)cs, e.iv, Oct(e.out.begin(), e.out.end() - 16), c); msg_case(c, key, lit, "aeadmsg", skalgo, mode, cs, "drop-final"); }
}

static int drv_pgpmsg_sym(const Opts &o, SplitMix &g)
{
	bool thorough = o.tier == "thorough";
	static const int ciphers16[] = { 7, 8, 9, 10, 11, 12, 13 }, ciphers8[] = { 1, 2, 3, 4 };
	// ================================================= SymmetricEncryptAES256: key / prefix forms, all short lengths
	{
		for (size_t n = 0; n <= 70; n++) for (int rs = 0; rs < 2; rs++) {
			Oct in = rnd_octets(g, n);
			CfbOut e = cfb_enc(in, SOct(), Oct(), rs, "honest");
			CfbOut d = cfb_dec(9, e.out, e.seskey, Oct(), rs, "honest");
			prop_sym("cfb", 9, "cfb", rs, n, "honest", d.rc == 0, d.out == in && d.prefix == e.prefix);
		}
		Oct k = rnd_octets(g, 32), in = rnd_octets(g, 40);
		SOct wk = wrap_key(9, std::string((const char*)k.data(), 32));
		cfb_enc(in, sec(k), Oct(), false); cfb_enc(in, wk, make_prefix(g, 16), true);
		{ SOct b = wk; b[34] ^= 1; cfb_enc(in, b, Oct(), false, "key:checksum"); }
		{ SOct b = wk; b[0] = 7; cfb_enc(in, b, Oct(), false, "key:algo"); }
		{ SOct b = wk; b[5] ^= 0x80; cfb_enc(in, b, Oct(), false, "key:checksum"); }
		cfb_enc(in, sec(rnd_octets(g, 31)), rnd_octets(g, 17), true); cfb_enc(in, sec(rnd_octets(g, 33)), rnd_octets(g, 19), false);
		{ Oct p = rnd_octets(g, 18); cfb_enc(in, wk, p, false, "prefix:norepeat"); }   // a given prefix is used as it is
		// decryption: key forms, short input, prefix that does not repeat, prefix vector already filled
		CfbOut e = cfb_enc(in, wk, Oct(), true);
		cfb_dec(9, e.out, sec(k), Oct(), true); cfb_dec(9, e.out, SOct(), Oct(), true, "key:none"); cfb_dec(9, e.out, sec(rnd_octets(g, 30)), Oct(), true, "key:length");
		{ SOct b = wk; b[33] ^= 4; cfb_dec(9, e.out, b, Oct(), true, "key:checksum"); }
		{ SOct b = wk; b[0] = 1; cfb_dec(9, e.out, b, Oct(), true); }                  // the algorithm octet is not looked at
		for (size_t n = 0; n <= 19; n++) cfb_dec(9, Oct(e.out.begin(), e.out.begin() + n), wk, Oct(), false, "short");
		cfb_dec(9, e.out, wk, e.prefix, true, "prefix:filled"); cfb_dec(9, e.out, wk, rnd_octets(g, 18), true, "prefix:filled");
		cfb_dec(9, e.out, wk, rnd_octets(g, 5), true, "prefix:filled");
		for (int a : { 0, 5, 6, 14, 100, 255 }) cfb_dec(a, e.out, wk, Oct(), true, "algo:unknown");
		// every octet of a short cipher text changed: the raw routine has no integrity check of its own
		for (size_t pos = 0; pos < e.out.size(); pos++) { Oct c = e.out; c[pos] ^= (unsigned char)(1u << g.below(8)); cfb_dec(9, c, wk, Oct(), true, "flip:raw:" + std::to_string(pos)); }
	}
	// ================================================= SymmetricDecrypt: every cipher, both block sizes
	for (int algo : { 1, 2, 3, 4, 7, 8, 9, 10, 11, 12, 13 }) {
		if (!algo_available(algo)) { emit("# cipher " + std::to_string(algo) + " not available in this libgcrypt"); continue; }
		size_t ks = PGP::AlgorithmKeyLength((tmcg_openpgp_skalgo_t)algo), bs = PGP::AlgorithmIVLength((tmcg_openpgp_skalgo_t)algo);
		std::vector<size_t> lens = { 0, 1, bs - 3, bs - 2, bs - 1, bs, bs + 1, 2 * bs - 2, 2 * bs, 3 * bs + 5, 100 + (size_t)g.below(200) };
		for (size_t n : lens) for (int rs = 0; rs < 2; rs++) {
			Oct k = rnd_octets(g, ks), in = rnd_octets(g, n), prefix = make_prefix(g, bs); std::string key((const char*)k.data(), ks);
			Oct ct = cfb_ref_encrypt(algo, key, prefix, rs, in);
			CfbOut d = cfb_dec(algo, ct, g.coin() ? sec(k) : wrap_key(algo, key), Oct(), rs, "honest");
			prop_sym("cfb", algo, "cfb", rs, n, "honest", d.rc == 0, d.out == in && d.prefix == prefix);
		}
		cfb_dec(algo, rnd_octets(g, 40), sec(rnd_octets(g, ks)), Oct(), g.coin(), "garbage");
	}
	// ================================================= integrity protected messages (SEIPD + MDC), unprotected ones
	{
		std::vector<size_t> lens = { 0, 1, 2, 15, 16, 17, 40 + (size_t)g.below(100) };
		for (size_t n : lens) seipd_case(g, 9, n, true, thorough ? 4000 : (n <= 2 ? 400 : 0), 20);
		for (int algo : { 1, 2, 3, 4, 7, 8, 10, 11, 12, 13 }) if (algo_available(algo)) seipd_case(g, algo, g.below(60), true, thorough ? 4000 : 0, thorough ? 40 : 12);
		// the plaintext may not be empty: an MDC packet alone is refused
		{ Oct k = rnd_octets(g, 32), prefix = make_prefix(g, 16); std::string key((const char*)k.data(), 32);
		  Oct enc = seipd_body(9, key, prefix, Oct(), true), pkt; PGP::PacketSeipdEncode(enc, pkt); msg_case(pkt, wrap_key(9, key), Oct(), "seipd", 9, "cfb", 0, "emptybody"); }
		// packet framing: other versions, old format, partial body lengths, unknown packets in front, junk behind
		{ Oct k = rnd_octets(g, 32), prefix = make_prefix(g, 16), lit = lit_packet(rnd_octets(g, 600)); std::string key((const char*)k.data(), 32); SOct wk = wrap_key(9, key);
		  Oct enc = seipd_body(9, key, prefix, lit, true), pkt; PGP::PacketSeipdEncode(enc, pkt);
		  { Oct c = pkt; c.push_back(0x00); c.push_back(0x01); msg_case(c, wk, lit, "seipd", 9, "cfb", 0, "honest:junk-behind"); }
		  { Oct c; c.push_back(0xC0 | 21); c.push_back(3); c.push_back(1); c.push_back(2); c.push_back(3); c.insert(c.end(), pkt.begin(), pkt.end()); msg_case(c, wk, lit, "seipd", 9, "cfb", 0, "honest:unknown-in-front"); }
		  { Oct c; c.push_back(0xC0 | 12); c.push_back(1); c.push_back(7); c.insert(c.end(), pkt.begin(), pkt.end()); msg_case(c, wk, lit, "seipd", 9, "cfb", 0, "honest:trust-in-front"); }
		  { Oct body; body.push_back(1); body.insert(body.end(), enc.begin(), enc.end()); Oct c; c.push_back(0xC0 | 18); c.push_back(0xE9); /* 512 */ c.insert(c.end(), body.begin(), body.begin() + 512);
		    Oct restlen; PGP::PacketLengthEncode(body.size() - 512, restlen); c.insert(c.end(), restlen.begin(), restlen.end()); c.insert(c.end(), body.begin() + 512, body.end()); msg_case(c, wk, lit, "seipd", 9, "cfb", 0, "honest:partial"); }
		  { Oct body; body.push_back(1); body.insert(body.end(), enc.begin(), enc.end()); Oct c; c.push_back(0xC0 | 18); c.push_back(0xE8); /* 256: too short a first part */ c.insert(c.end(), body.begin(), body.begin() + 256);
		    Oct restlen; PGP::PacketLengthEncode(body.size() - 256, restlen); c.insert(c.end(), restlen.begin(), restlen.end()); c.insert(c.end(), body.begin() + 256, body.end()); msg_case(c, wk, lit, "seipd", 9, "cfb", 0, "framing:partial-short"); }
		  { Oct body; body.push_back(1); body.insert(body.end(), enc.begin(), enc.end()); Oct c; c.push_back(0x80 | (9 << 2) | 3); c.insert(c.end(), body.begin(), body.end()); msg_case(c, wk, lit, "sed", 9, "cfb", 0, "nomdc:oldformat-indeterminate"); }
		  { Oct c = pkt; size_t hl = pkt.size() - enc.size() - 1; c[hl] = 2; msg_case(c, wk, lit, "seipd", 9, "cfb", 0, "framing:version2"); }
		  { Oct c; c.push_back(0xC0 | 19); c.push_back(20); Oct h = rnd_octets(g, 20); c.insert(c.end(), h.begin(), h.end()); msg_case(c, wk, lit, "mdc", 9, "cfb", 0, "framing:mdc-alone"); }
		  { Oct c; c.push_back(0xC0 | 19); c.push_back(19); Oct h = rnd_octets(g, 19); c.insert(c.end(), h.begin(), h.end()); msg_case(c, wk, lit, "mdc", 9, "cfb", 0, "framing:mdc-short"); }
		  msg_case(Oct(), wk, lit, "seipd", 9, "cfb", 0, "framing:empty");
		  { Oct c; c.push_back(0x12); msg_case(c, wk, lit, "seipd", 9, "cfb", 0, "framing:bit7"); }
		  { Oct c; c.push_back(0xC0 | 9); c.push_back(0); msg_case(c, wk, lit, "sed", 9, "cfb", 0, "framing:sed-empty"); }
		  { Oct c; c.push_back(0xC0 | 18); c.push_back(1); c.push_back(1); msg_case(c, wk, lit, "seipd", 9, "cfb", 0, "framing:seipd-empty"); }
		  // session key forms of Decrypt
		  { MsgView v; msg_parse(pkt, v); if (v.ok) { Oct out;
			SOct ak; ak.push_back(9); for (unsigned char ch : k) ak.push_back(ch); msg_decrypt(v.msg, ak, out, "keyform:algo+key"); out.clear();
			msg_decrypt(v.msg, sec(k), out, "keyform:raw"); out.clear(); msg_decrypt(v.msg, SOct(), out, "keyform:none"); out.clear();
			{ SOct b = wk; b[0] = 7; msg_decrypt(v.msg, b, out, "keyform:otheralgo"); out.clear(); }
			{ SOct b = wk; b[0] = 200; msg_decrypt(v.msg, b, out, "keyform:unknownalgo"); out.clear(); }
			msg_decrypt(v.msg, sec(rnd_octets(g, 20)), out, "keyform:length"); } }
		}
	}
	// ================================================= AEAD: ciphers x modes x chunk sizes x lengths around the chunk boundaries
	{
		for (int aead = 1; aead <= 2; aead++) for (unsigned cs = 0; cs <= 2; cs++) {
			size_t cd = (size_t)64 << cs;
			std::vector<size_t> lens = { 0, 1, cd - 1, cd, cd + 1, 2 * cd - 1, 2 * cd, 2 * cd + 1, 3 * cd, 4 * cd + 5, 5 * cd, 1 + (size_t)g.below(6 * cd) };
			for (size_t n : lens) {
				int skalgo = (cs == 0 || thorough) ? 9 : ciphers16[g.below(7)];
				aead_case(g, skalgo, aead, cs, n, true, thorough ? 600 : (cs == 0 && n <= cd + 1) ? 200 : 0, thorough ? 64 : 16);
				if (thorough) for (int a : ciphers16) if (a != 9) aead_case(g, a, aead, cs, n, true, 0, 24);
			}
			for (int a : ciphers16) { size_t n = g.coin() ? cd + g.below(2 * cd) : 1 + g.below(cd); aead_case(g, a, aead, cs, n, true, 0, 10); }
		}
		// a last chunk of exactly 16 octets: dropping the final tag leaves 32 octets behind whole chunks (last chunk of length 0)
		for (int aead = 1; aead <= 2; aead++) for (unsigned cs = 0; cs <= 1; cs++) { size_t cd = (size_t)64 << cs; aead_case(g, 9, aead, cs, cd + 16, true, 0, 8); aead_case(g, ciphers16[g.below(7)], aead, cs, 2 * cd + 16, true, 0, 8); aead_msg_case(g, 9, aead, cs, cd + 16 - 8, true, 0, 8); }
		// every chunk-size octet the library accepts, with one short chunk; the octets it refuses
		for (int aead = 1; aead <= 2; aead++) for (unsigned cs = 3; cs <= 21; cs++) aead_case(g, ciphers16[g.below(7)], aead, cs, 1 + g.below(200), true, 0, 6);
		for (unsigned cs : { 8u, 10u }) aead_case(g, 9, 1 + (int)g.below(2), cs, ((size_t)64 << cs) + 1 + g.below(100), true, 0, 8);
		for (unsigned cs : { 22u, 56u, 57u, 255u }) { Oct in = rnd_octets(g, 10); SOct k = sec(rnd_octets(g, 32)); aead_enc(9, 2, cs, k, aead_ad(9, 2, cs), in, "cs:refused"); aead_dec(9, 2, cs, k, rnd_octets(g, 15), aead_ad(9, 2, cs), rnd_octets(g, 60), "cs:refused"); }
		// ciphers with 8-octet blocks, unknown ciphers and modes, session key forms, short IV
		for (int a : ciphers8) { SOct k = sec(rnd_octets(g, PGP::AlgorithmKeyLength((tmcg_openpgp_skalgo_t)a))); aead_enc(a, 2, 0, k, aead_ad(a, 2, 0), rnd_octets(g, 10), "algo:blocksize"); aead_dec(a, 1, 0, k, rnd_octets(g, 16), aead_ad(a, 1, 0), rnd_octets(g, 60), "algo:blocksize"); }
		for (int a : { 0, 5, 100 }) { SOct k = sec(rnd_octets(g, 16)); aead_enc(a, 2, 0, k, aead_ad(a, 2, 0), rnd_octets(g, 10), "algo:unknown"); aead_dec(a, 2, 0, k, rnd_octets(g, 15), aead_ad(a, 2, 0), rnd_octets(g, 60), "algo:unknown"); }
		for (int m : { 0, 3, 100 }) { SOct k = sec(rnd_octets(g, 32)); aead_enc(9, m, 0, k, aead_ad(9, m, 0), rnd_octets(g, 10), "mode:unknown"); aead_dec(9, m, 0, k, rnd_octets(g, 16), aead_ad(9, m, 0), rnd_octets(g, 60), "mode:unknown"); }
		{ Oct in = rnd_octets(g, 70), ad = aead_ad(9, 1, 0); Oct k = rnd_octets(g, 32); SOct wk = wrap_key(9, std::string((const char*)k.data(), 32));
		  AeadOut e = aead_enc(9, 1, 0, wk, ad, in);
		  { SOct b = wk; b[34] ^= 1; aead_enc(9, 1, 0, b, ad, in, "key:checksum"); aead_dec(9, 1, 0, b, e.iv, ad, e.out, "key:checksum"); }
		  aead_enc(9, 1, 0, sec(rnd_octets(g, 31)), ad, in, "key:length"); aead_dec(9, 1, 0, sec(rnd_octets(g, 33)), e.iv, ad, e.out, "key:length"); aead_dec(9, 1, 0, SOct(), e.iv, ad, e.out, "key:none");
		  aead_dec(9, 1, 0, sec(k), e.iv, ad, e.out, "honest");
		  { Oct iv2(e.iv.begin(), e.iv.end() - 1); aead_dec(9, 1, 0, wk, iv2, ad, e.out, "iv:short"); }
		  { Oct iv2 = e.iv; iv2.push_back(0x55); aead_dec(9, 1, 0, wk, iv2, ad, e.out, "honest:iv-long"); }
		  for (size_t n = 0; n <= 34; n++) aead_dec(9, 1, 0, wk, e.iv, ad, Oct(e.out.begin(), e.out.begin() + n), "short"); }
		// the one-shot form used for session keys (|ad| = 4)
		for (int aead = 1; aead <= 2; aead++) for (size_t n : { (size_t)0, (size_t)1, (size_t)32, (size_t)35 }) {
			Oct ad; ad.push_back(0xC3); ad.push_back(5); ad.push_back(9); ad.push_back((unsigned char)aead); Oct in = rnd_octets(g, n); SOct k = sec(rnd_octets(g, 32));
			AeadOut e = aead_enc(9, aead, 0, k, ad, in, "honest"); if (e.rc) continue;
			AeadOut d = aead_dec(9, aead, 0, k, e.iv, ad, e.out, "honest"); prop_sym("aead1", 9, mode_name(aead), 0, n, "honest", d.rc == 0, d.out == in);
			for (size_t pos = 0; pos < e.out.size(); pos++) { Oct c = e.out; c[pos] ^= (unsigned char)(1u << g.below(8)); AeadOut x = aead_dec(9, aead, 0, k, e.iv, ad, c, "flip:ct:" + std::to_string(pos)); prop_sym("aead1", 9, mode_name(aead), 0, n, "flip:ct:" + std::to_string(pos), x.rc == 0, x.out == in); }
			{ Oct ad2 = ad; ad2[g.below(4)] ^= 2; AeadOut x = aead_dec(9, aead, 0, k, e.iv, ad2, e.out, "ad"); prop_sym("aead1", 9, mode_name(aead), 0, n, "ad", x.rc == 0, x.out == in); }
			for (size_t m = 0; m <= 17; m++) aead_dec(9, aead, 0, k, e.iv, ad, Oct(e.out.begin(), e.out.begin() + std::min(m, e.out.size())), "short");
		}
		// AEAD messages through MessageParse / Decrypt
		for (int aead = 1; aead <= 2; aead++) for (unsigned cs : { 0u, 1u }) {
			size_t cd = (size_t)64 << cs;
			for (size_t n : { (size_t)0, (size_t)1, cd - 6, cd - 5, 2 * cd, 1 + (size_t)g.below(3 * cd) }) aead_msg_case(g, aead == 1 ? 9 : ciphers16[g.below(7)], aead, cs, n, true, n <= 1 ? 400 : 0, 16);
		}
	}
	// ================================================= random cases
	for (uint64_t c = 0; c < o.cases; c++) {
		switch (g.below(5)) {
		case 0: { size_t n = g.below(300); Oct in = rnd_octets(g, n); bool rs = g.coin(); CfbOut e = cfb_enc(in, SOct(), Oct(), rs, "honest"); CfbOut d = cfb_dec(9, e.out, e.seskey, Oct(), rs, "honest"); prop_sym("cfb", 9, "cfb", rs, n, "honest", d.rc == 0, d.out == in); } break;
		case 1: { static const int all[] = { 1, 2, 3, 4, 7, 8, 9, 10, 11, 12, 13 }; int a = all[g.below(11)]; if (algo_available(a)) seipd_case(g, a, g.below(200), true, 0, 6); } break;
		case 2: { unsigned cs = g.below(3); size_t cd = (size_t)64 << cs; aead_case(g, ciphers16[g.below(7)], 1 + (int)g.below(2), cs, 1 + g.below(5 * cd), true, 0, 8); } break;
		case 3: { unsigned cs = g.below(2); size_t cd = (size_t)64 << cs; aead_msg_case(g, ciphers16[g.below(7)], 1 + (int)g.below(2), cs, g.below(3 * cd), true, 0, 6); } break;
		default: { // garbage through the parsers and the decryption routines
			Oct junk = rnd_octets(g, g.below(80)); if (!junk.empty() && g.coin()) { static const unsigned char firsts[] = { 0xC9, 0xD2, 0xD3, 0xD4, 0xA4, 0xC8 + 4, 0xFF, 0x7F }; junk[0] = firsts[g.below(8)]; }
			MsgView v; msg_parse(junk, v, "garbage"); if (v.ok) { Oct out; msg_decrypt(v.msg, wrap_key(9, std::string(32, 'k')), out, "garbage"); }
			aead_dec(9, 1 + (int)g.below(2), g.below(3), sec(rnd_octets(g, 32)), rnd_octets(g, 16), aead_ad(9, 1, 0), rnd_octets(g, g.below(300)), "garbage"); } break;
		}
	}
	return 0;
}

// ================================================================ signatures
static const char *KEY_RSA =
	"(key-data (public-key (rsa (n #00E78C2928780D559A6F38D365D934B3A932C60F7D9EA4C675E0A066D74A7435F6FA692A4DDC122273F3559DCA91F9439F11BCCF2F32A6E8AF420FB0B1144C231"
	"F36753C0E72405743643C3615F48236A17CB7C6923C73EF692BD54E9AEDCE99F6DB43CD3CB447DFC3FE0BB34B413D2144BD62B8B96D0FB17990BD75F8761CA34D6FB8AA836F23013D4286E05765F90C8"
	"222444775E15C049925965F6B3D4457D185B9DBB718D9524E65C5A12E51C016AE67F35AB7A37EFDEE09D1570059F50EAAA7FCF60DFB5E678539E9B748081041EBA9E3FDA4F9C03B6EC194339A93FB9BC"
	"17C298316BD5C942B27F75831C1183913B2E4498C0EC2138AD848B59BD4844753#) (e #010001#) ) ) (private-key (rsa (n #00E78C2928780D559A6F38D365D934B3A932C60F7D9EA4C675E0A"
	"066D74A7435F6FA692A4DDC122273F3559DCA91F9439F11BCCF2F32A6E8AF420FB0B1144C231F36753C0E72405743643C3615F48236A17CB7C6923C73EF692BD54E9AEDCE99F6DB43CD3CB447DFC3FE0"
	"BB34B413D2144BD62B8B96D0FB17990BD75F8761CA34D6FB8AA836F23013D4286E05765F90C8222444775E15C049925965F6B3D4457D185B9DBB718D9524E65C5A12E51C016AE67F35AB7A37EFDEE09D"
	"1570059F50EAAA7FCF60DFB5E678539E9B748081041EBA9E3FDA4F9C03B6EC194339A93FB9BC17C298316BD5C942B27F75831C1183913B2E4498C0EC2138AD848B59BD4844753#) (e #010001#) (d "
	"#049E4A8F333F222C778DC7704F71EF7D6F4A525D1BE61C7695C437EE3BB41AAEC79583BC54288BC5B548F40C94CC71CEABEB65FF2D2AF56C2821FE510C89C23A3EA5FDA1D4CC8CBBB18AF3E73733C65"
	"9828E7B2847E010C53A69C19771D3D39AAAB5425434CCFEDD141046AE0DBF3AE3CF453750577E5F235616E3FCA5DA720AB1243B2CF235418B7A9CB1579C127A1918346A6B852FE28920D0FF4DEB53CDD"
	"D98EEFFA94B1ACD1A5DC941DE5C7D37061AB96754675EAC947574DE84274CFB12590FE233DCFB72AFA6A96553D5E989762C85B3473B89F0C1881865B6741F95D31EEDE23AC44A28A386E71F7F709548F"
	"AA0E8BB6ECD89C49B1F4087C54ED9E389#) (p #00EC8F385C7E1A50E4CC8874CED6409AD7851EDC3B6E8622C062A738F7805E26768F2C21597E9AB9D0B4CB2E816381E703C462CCDD660DA143E1B8EE"
	"2329C5160AAF16535732BD0C4110DE6533869724E6E19F40985DD49B76CE5C9AFB4AEA352DF2148905030AF5B14FB7F7ED61FBEBC73C50BF2D51402CE784678FD1B5EA86A9#) (q #00FA937F90B843D"
	"96D38E3C2FBCCA4BA793C1233A76A1B3B81FFC8C61D0D26B7D234AEB582A14F1A9040BC5E2FC82B48E684B7BEB01837A171E8E77C9B6BB28EF7E1394B83ED181A426D731EA894EB5095062DFE9270475"
	"A389B869FBC02329B37C507A938C31D1D47E580BDEEE7146C63B14A964F463992E760DF8B33EA99279B#) (u #00B60EFC9594BC843746BE9C2257CB04FC8B63F97603293184B2557800B3518967A30B"
	"491B2632A5E75C6949D5820235FFA478B15C6D26A72EBF257E346298FDECDD3E732F19B55CA4A1E625051FD27FB1285ABC5675D957A6739987D3BF91B5FF58003A8D03433DC7177F7B88BDB4FE0A91EF"
	"67F18A35DEB526A1574F5D8A0CBE#) ) ) )";
static const char *KEY_DSA160 =
	"(key-data (public-key (dsa (p #008424819889559FC8FF279479010DD43B2F714133817BC324B03BD5C6630A44CEA1506C0D1D5A7D35414609C14EAD0F3EE7566AE7E29CA90ED1CA2A3B9CF7C96"
	"FA58D0F1CC092A40B4F03CE359F627D55EB8A0674690759BF38909B5C46A75D51430C13033A31AAF48AB99C295337E79CE12AFE07C8B946FE5163280439933777#) (q #0097328CC97FF3C5ABC0F8FA"
	"509F6BCA8F55C3C13F#) (g #604EF864AC3F2821EF0188A7E3496E65C30EFC6002F2BA30D99EF7712FCD229B78C2DA3697CD70896CB55525010663A523E83C2BF5B1A457FECD37A944130DF9A3F65B3"
	"484E9BD8E15328C79BAA7FA9570E42C019B4F082358FCBBC991B63A7C412B4E57EED0F32DB547F5C8601E89F0B8A628B54573D2956E71D93737AF6DA8#) (y #0442D8554489052CA2D6DE8C22E021A2"
	"A8655FBECA78783DD43647A34574138A9EC291F256E5F3AAE9DA0868F79370094434FB50EDAE6FD3FA42B696FA06795132948079882EEB6D72535BA804D8B4F4CCB4966712E974F94E4664E4204C1B3D"
	"FE45898281A397510F37754998B9685614A64CCF4A615F7CBA4C8ED0FFF1A64F#) ) ) (private-key (dsa (p #008424819889559FC8FF279479010DD43B2F714133817BC324B03BD5C6630A44CEA"
	"1506C0D1D5A7D35414609C14EAD0F3EE7566AE7E29CA90ED1CA2A3B9CF7C96FA58D0F1CC092A40B4F03CE359F627D55EB8A0674690759BF38909B5C46A75D51430C13033A31AAF48AB99C295337E79CE"
	"12AFE07C8B946FE5163280439933777#) (q #0097328CC97FF3C5ABC0F8FA509F6BCA8F55C3C13F#) (g #604EF864AC3F2821EF0188A7E3496E65C30EFC6002F2BA30D99EF7712FCD229B78C2DA369"
	"7CD70896CB55525010663A523E83C2BF5B1A457FECD37A944130DF9A3F65B3484E9BD8E15328C79BAA7FA9570E42C019B4F082358FCBBC991B63A7C412B4E57EED0F32DB547F5C8601E89F0B8A628B54"
	"573D2956E71D93737AF6DA8#) (y #0442D8554489052CA2D6DE8C22E021A2A8655FBECA78783DD43647A34574138A9EC291F256E5F3AAE9DA0868F79370094434FB50EDAE6FD3FA42B696FA06795132"
	"948079882EEB6D72535BA804D8B4F4CCB4966712E974F94E4664E4204C1B3DFE45898281A397510F37754998B9685614A64CCF4A615F7CBA4C8ED0FFF1A64F#) (x #4C8DD0F2E9C9089C6C87DE2C785"
	"B74A1A29CB1EF#) ) ) (misc-key-info (pm1-factors #0097328CC97FF3C5ABC0F8FA509F6BCA8F55C3C13F# #76D75C422DB9A19B80AE3DF567030BA10796E8788CAF# #552194CDD5E41839507"
	"D1D0C64F57ADB12A3B7A529E9# #72665FC8575012BEFA2D0C4F2565FF092FB29ECDBE9F#) ) )";
static const char *KEY_DSA256 =
	"(key-data (public-key (dsa (p #00D3D1E480189270979AA4730121F654D722E512E32A482BF71163121B0F8F8E28420499F44264C4E35E960DFAF8BBA9E17209DCE5AC61259DBC6A31E427CFF04"
	"53C8D3452FCFF73638B7145F66B7C23571A5BEFE05BB71B9352FCC13208AED6514C2E66CED899D61776474BE2B8C82527DC72F5E588329409EFE29E241CD706DC7190AE8E4E6481F0F65EB42400398A5"
	"97EF21AF55B51BEBD5D036C6ADC8C19D763BAD06FAA29B6CB32580A4775E1365A34C9FBF9CDBF6E73424FFEE73B0B614C6B59E238FF5C4FF7149B31005ABF91EA5DA5A01B778364A687B626C7A48C6DB"
	"D083E2BAD1429F8EC8B9DEA33897BB75D0B9053EDB49CCE22EB924006DD482887#) (q #00967DB4F11F62B1AAB6D0C8A1D28FCB5B0A82BACA532E1B07380A2326BE7FB69F#) (g #00857AE5FA6DE99"
	"1A9E5706C9107E5BDE451A8486EF46B8C648496512F027A2F0A8ABD0F7145C381C935E41A57B08DD243D44C70F8F55680C22AA991EB41D61743C67DA13E23C3FC749F4CDD8EEA29D09B82982505A497A"
	"D309A832FCF7D3946BB3CDB5105C9BE6C231C631CC0518D5FA261C9496F3C13E972CEC09D419AA6F9ABA6710E9F3595FE869201CB94140698E9E80D5CC46673FE678BB00FD4A204BB27CE7A23828A783"
	"A35387BF7C444CC8C8303C814DA7F9FE23D5A97230D78E0F7FC37CBE46F6BB5D62A11C5000D48DF0274C829BA8B3478291A14191E35907A17D3A5DB72F7D00C06EF3E9D72803F22044D63DE2B568578A"
	"408685D99D91EFB94#) (y #074032ED62B29C8ADB7AD3C67C9BB699721303C38F785BF132B75C17F6D34F4A798A2F7C0CF29DB3CF231B6B8F0273391043AA28E885A4B39A258B741DC6458680156ADF"
	"2F2C6FD09DC62A04790AFADFBEB3842050ACD3C4B1A64FF104EE5379C2086994F7D12959689AA525A31AB5E06665ED66FC603873DDA1F71F5429A307A86E7D0628B61D2F378237B2D88DA1A5EAE2EA67"
	"9D6643F5CEFF840F4BB34BEC77961D4C613866129BDE8108445F5FAD5F03A91AB2E3E0842B04321C3DBDC4FF758C8100EF2686A9F214AB6E4D35DBADF12EF3F476B4E0362AFC3BBBA96C9FCF3C471C38"
	"C007C679F380967758D4E2687856A6BF659B24842603E4E991A949C0#) ) ) (private-key (dsa (p #00D3D1E480189270979AA4730121F654D722E512E32A482BF71163121B0F8F8E28420499F44"
	"264C4E35E960DFAF8BBA9E17209DCE5AC61259DBC6A31E427CFF0453C8D3452FCFF73638B7145F66B7C23571A5BEFE05BB71B9352FCC13208AED6514C2E66CED899D61776474BE2B8C82527DC72F5E58"
	"8329409EFE29E241CD706DC7190AE8E4E6481F0F65EB42400398A597EF21AF55B51BEBD5D036C6ADC8C19D763BAD06FAA29B6CB32580A4775E1365A34C9FBF9CDBF6E73424FFEE73B0B614C6B59E238F"
	"F5C4FF7149B31005ABF91EA5DA5A01B778364A687B626C7A48C6DBD083E2BAD1429F8EC8B9DEA33897BB75D0B9053EDB49CCE22EB924006DD482887#) (q #00967DB4F11F62B1AAB6D0C8A1D28FCB5B"
	"0A82BACA532E1B07380A2326BE7FB69F#) (g #00857AE5FA6DE991A9E5706C9107E5BDE451A8486EF46B8C648496512F027A2F0A8ABD0F7145C381C935E41A57B08DD243D44C70F8F55680C22AA991E"
	"B41D61743C67DA13E23C3FC749F4CDD8EEA29D09B82982505A497AD309A832FCF7D3946BB3CDB5105C9BE6C231C631CC0518D5FA261C9496F3C13E972CEC09D419AA6F9ABA6710E9F3595FE869201CB9"
	"4140698E9E80D5CC46673FE678BB00FD4A204BB27CE7A23828A783A35387BF7C444CC8C8303C814DA7F9FE23D5A97230D78E0F7FC37CBE46F6BB5D62A11C5000D48DF0274C829BA8B3478291A14191E3"
	"5907A17D3A5DB72F7D00C06EF3E9D72803F22044D63DE2B568578A408685D99D91EFB94#) (y #074032ED62B29C8ADB7AD3C67C9BB699721303C38F785BF132B75C17F6D34F4A798A2F7C0CF29DB3CF"
	"231B6B8F0273391043AA28E885A4B39A258B741DC6458680156ADF2F2C6FD09DC62A04790AFADFBEB3842050ACD3C4B1A64FF104EE5379C2086994F7D12959689AA525A31AB5E06665ED66FC603873DD"
	"A1F71F5429A307A86E7D0628B61D2F378237B2D88DA1A5EAE2EA679D6643F5CEFF840F4BB34BEC77961D4C613866129BDE8108445F5FAD5F03A91AB2E3E0842B04321C3DBDC4FF758C8100EF2686A9F2"
	"14AB6E4D35DBADF12EF3F476B4E0362AFC3BBBA96C9FCF3C471C38C007C679F380967758D4E2687856A6BF659B24842603E4E991A949C0#) (x #53A995C4B600BBC6BB245775F5F290D493EA2767AD4"
	"5BB94FC4EA3B1CACE43FB#) ) ) (misc-key-info (pm1-factors #00967DB4F11F62B1AAB6D0C8A1D28FCB5B0A82BACA532E1B07380A2326BE7FB69F# #05EC1BB8AB45F33A846E89C251C080043C"
	"200BF9A7B7A9A9147A8A00B8A6535710544349271741# #06E64353500CFC278893FEFB2B0BFED1C90670458B7A7D6ED22316713E4DDCEB793B72F02662A7# #048BD1607B3DB3F6E5429CE7E6B6578F"
	"BB31425FA98E622504DD63E0E2F734E4FF700D259F3CF1# #06D79499584F4660F066D95A9ACD1A6A5BCC5588357A686E942A58411016DFC6056D5B365E2D1D#) ) )";
static const char *KEY_ECDSA =
	"(key-data (public-key (ecc (curve \"NIST P-256\") (q #047D2F28883FB4A5ABB5D3B4532006844216B8BC07A19B311D8EB1CC6F922ABA3F7AFE7A74BD03F3D09FE29FBB2BBA17F1FFCDD35D05"
	"8B526151FC5C4A70227A77#) ) ) (private-key (ecc (curve \"NIST P-256\") (q #047D2F28883FB4A5ABB5D3B4532006844216B8BC07A19B311D8EB1CC6F922ABA3F7AFE7A74BD03F3D09FE29F"
	"BB2BBA17F1FFCDD35D058B526151FC5C4A70227A77#) (d #1097E1054736116CA05DE11D2941A47FC77BEE4895AA1690A9264F14DBEEC0C3#) ) ) )";
static const char *KEY_EDDSA =
	"(key-data (public-key (ecc (curve Ed25519) (flags eddsa) (q #CEAB883C0EABD213DD513D2C49137A2E2A8228EBF556360D103D90882E05CD8D#) ) ) (private-key (ecc (curve Ed2"
	"5519) (flags eddsa) (q #CEAB883C0EABD213DD513D2C49137A2E2A8228EBF556360D103D90882E05CD8D#) (d #62B5FD18F1E6559CAB1D58AB149EA74F29089A16A4CDF2C34D80002BDD1D39C0#"
	") ) ) )";

struct TestKey { std::string name; int pkalgo; gcry_sexp_t key; unsigned qbits; Oct body, pkt; time_t created; };
static const time_t KEY_CREATED = 1500000000;
static gcry_mpi_t param(gcry_sexp_t key, const char *n) { gcry_mpi_t m = NULL; if (gcry_sexp_extract_param(key, NULL, n, &m, NULL)) { fprintf(stderr, "pgpmsg: parameter %s missing\n", n); exit(3); } return m; }
static TestKey load_key(const std::string &name, int pkalgo, const char *text)
{
	TestKey k; k.name = name; k.pkalgo = pkalgo; k.qbits = 0; k.created = KEY_CREATED;
	if (gcry_sexp_new(&k.key, text, 0, 1)) { fprintf(stderr, "pgpmsg: bad key text %s\n", name.c_str()); exit(3); }
	Oct pkt;
	if (pkalgo == 1) { gcry_mpi_t n = param(k.key, "n"), e = param(k.key, "e"); PGP::PacketPubEncode(k.created, TMCG_OPENPGP_PKALGO_RSA, n, e, e, e, pkt); gcry_mpi_release(n); gcry_mpi_release(e); }
	else if (pkalgo == 17) { gcry_mpi_t pp = param(k.key, "p"), q = param(k.key, "q"), gg = param(k.key, "g"), y = param(k.key, "y"); k.qbits = gcry_mpi_get_nbits(q);
		PGP::PacketPubEncode(k.created, TMCG_OPENPGP_PKALGO_DSA, pp, q, gg, y, pkt); gcry_mpi_release(pp); gcry_mpi_release(q); gcry_mpi_release(gg); gcry_mpi_release(y); }
	else { static const tmcg_openpgp_byte_t p256[] = { 0x2A, 0x86, 0x48, 0xCE, 0x3D, 0x03, 0x01, 0x07 }, ed[] = { 0x2B, 0x06, 0x01, 0x04, 0x01, 0xDA, 0x47, 0x0F, 0x01 };
		gcry_mpi_t q = param(k.key, "q");
		if (pkalgo == 19) PGP::PacketPubEncode(k.created, TMCG_OPENPGP_PKALGO_ECDSA, sizeof p256, p256, q, TMCG_OPENPGP_HASHALGO_UNKNOWN, TMCG_OPENPGP_SKALGO_PLAINTEXT, pkt);
		else PGP::PacketPubEncode(k.created, TMCG_OPENPGP_PKALGO_EDDSA, sizeof ed, ed, q, TMCG_OPENPGP_HASHALGO_UNKNOWN, TMCG_OPENPGP_SKALGO_PLAINTEXT, pkt);
		gcry_mpi_release(q); }
	PGP::PacketBodyExtract(pkt, 0, k.body); k.pkt = pkt;
	return k;
}
static unsigned pgp_hash_id(int gcry_algo) { return gcry_algo == GCRY_MD_SHA3_256 ? 12 : gcry_algo == GCRY_MD_SHA3_512 ? 14 : (unsigned)gcry_algo; }
// [algo:input:digest] of the gcry_md_hash_buffer calls logged since the last clear
static std::string hash_log()
{
	std::string s = "["; bool first = true; char a[8];
	for (auto &r : hashlog.raw) { if (!first) s += ","; first = false; snprintf(a, sizeof a, "%02x", pgp_hash_id(r.first) & 0xFF); s += std::string(a) + ":" + hexs(r.second) + ":" + hexs(digest_of(r.first, r.second)); }
	return s + "]";
}
static std::string pkv_log()
{
	std::string s = "["; bool first = true; char a[8];
	for (auto &v : pk_events) { if (!first) s += ","; first = false; snprintf(a, sizeof a, "%04x", v.rc & 0xFFFF); s += hexs(v.data) + ":" + a; }
	return s + "]";
}
static Oct str_oct(const std::string &x) { return Oct(x.begin(), x.end()); }

// ---- the *Hash functions
enum HKind { H_BIN, H_TEXT, H_STANDALONE, H_KEY, H_KEY2, H_CERT };
static const char *hkind_name[] = { "bin", "text", "standalone", "key", "key2", "cert" };
static void sig_hash(HKind kind, int ver, int hashalgo, const Oct &a, const Oct &b, const Oct &c, const Oct &trailer, Oct &hash, Oct &left, bool emit_line = true)
{
	tmcg_openpgp_hashalgo_t ha = (tmcg_openpgp_hashalgo_t)hashalgo; std::string uid(b.begin(), b.end());
	hashlog.clear(); hashlog.log = true; hash.clear(); left.clear();
	switch (kind) {
	case H_BIN: if (ver == 3) PGP::BinaryDocumentHashV3(a, trailer, ha, hash, left); else if (ver == 5) PGP::BinaryDocumentHashV5(a, trailer, ha, hash, left); else PGP::BinaryDocumentHash(a, trailer, ha, hash, left); break;
	case H_TEXT: if (ver == 3) PGP::TextDocumentHashV3(a, trailer, ha, hash, left); else if (ver == 5) PGP::TextDocumentHashV5(a, trailer, ha, hash, left); else PGP::TextDocumentHash(a, trailer, ha, hash, left); break;
	case H_STANDALONE: if (ver == 3) PGP::StandaloneHashV3(trailer, ha, hash, left); else if (ver == 5) PGP::StandaloneHashV5(trailer, ha, hash, left); else PGP::StandaloneHash(trailer, ha, hash, left); break;
	case H_KEY: if (ver == 3) PGP::KeyHashV3(a, trailer, ha, hash, left); else if (ver == 5) PGP::KeyHashV5(a, trailer, ha, hash, left); else PGP::KeyHash(a, trailer, ha, hash, left); break;
	case H_KEY2: if (ver == 3) PGP::KeyHashV3(a, b, trailer, ha, hash, left); else if (ver == 5) PGP::KeyHashV5(a, b, trailer, ha, hash, left); else PGP::KeyHash(a, b, trailer, ha, hash, left); break;
	case H_CERT: if (ver == 3) PGP::CertificationHashV3(a, uid, trailer, ha, hash, left); else if (ver == 5) PGP::CertificationHashV5(a, uid, c, trailer, ha, hash, left); else PGP::CertificationHash(a, uid, c, trailer, ha, hash, left); break;
	}
	hashlog.log = false;
	if (emit_line) emit(std::string("pgpmsg.hash ") + hkind_name[kind] + " " + std::to_string(ver) + " " + std::to_string(hashalgo) + " " + hx(a) + " " + hx(b) + " " + hx(c) + " " + hx(trailer) + " " + hash_log() + " => " + hx(hash) + " " + hx(left));
}

// ---- signing with the library's routines
static bool sign_hash(const TestKey &k, int hashalgo, const Oct &hash, const Oct &trailer, const Oct &left, Oct &sigpkt)
{
	gcry_mpi_t r = gcry_mpi_new(8), s2 = gcry_mpi_new(8); gcry_error_t e;
	bool save = coins.serve; 
	switch (k.pkalgo) {
	case 1: e = PGP::AsymmetricSignRSA(hash, k.key, (tmcg_openpgp_hashalgo_t)hashalgo, s2); if (!e) PGP::PacketSigEncode(trailer, left, s2, sigpkt); break;
	case 17: e = PGP::AsymmetricSignDSA(hash, k.key, r, s2); if (!e) PGP::PacketSigEncode(trailer, left, r, s2, sigpkt); break;
	case 19: e = PGP::AsymmetricSignECDSA(hash, k.key, r, s2); if (!e) PGP::PacketSigEncode(trailer, left, r, s2, sigpkt); break;
	default: e = PGP::AsymmetricSignEdDSA(hash, k.key, r, s2); if (!e) PGP::PacketSigEncode(trailer, left, r, s2, sigpkt); break;
	}
	coins.serve = save;
	gcry_mpi_release(r); gcry_mpi_release(s2);
	return !e;
}

// ---- verification with one trace line
// the octets the library hashed in the last verification (if it got that far)
static bool g_hashed = false; static std::string g_hash_input;
enum VKind { V_DATA, V_DATALIT, V_STANDALONE, V_KEY, V_KEY2, V_UID, V_UAT };
static const char *vkind_name[] = { "data", "datalit", "standalone", "key", "key2", "uid", "uat" };
struct Lit { unsigned char format = 0x62; std::string filename; time_t timestamp = 0; };
static bool sig_verify(TMCG_OpenPGP_Signature *sig, const TestKey &k, VKind kind, const Oct &a, const Oct &b, const Lit &lit, const std::string &tag)
{
	// (an unknown hash algorithm leaves the digest empty: the quick check of CheckIntegrity refuses it)
	hashlog.clear(); hashlog.log = true; pk_events.clear(); pk_log = true;
	bool ok; std::string uid(b.begin(), b.end());
	{ QuietCerr q;
	switch (kind) {
	case V_DATA: ok = sig->VerifyData(k.key, a, 0); break;
	case V_DATALIT: ok = sig->VerifyData(k.key, a, lit.format, lit.filename, lit.timestamp, 0); break;
	case V_STANDALONE: ok = sig->Verify(k.key, 0); break;
	case V_KEY: ok = sig->Verify(k.key, a, 0); break;
	case V_KEY2: ok = sig->Verify(k.key, a, b, 0); break;
	case V_UID: ok = sig->Verify(k.key, a, uid, 0); break;
	default: ok = sig->Verify(k.key, a, b, 0, 0); break;
	} }
	hashlog.log = false; pk_log = false;
	g_hashed = !hashlog.raw.empty(); if (g_hashed) g_hash_input = hashlog.raw[0].second;
	Oct bb = b, cc;
	if (kind == V_DATALIT) { bb = str_oct(lit.filename); cc.push_back(lit.format); PGP::PacketTimeEncode(lit.timestamp, cc); }
	emit(std::string("pgpmsg.verify ") + vkind_name[kind] + " " + std::to_string((unsigned)sig->version) + " " + std::to_string((unsigned)sig->type) + " " + std::to_string((unsigned)sig->pkalgo) + " " + std::to_string((unsigned)sig->hashalgo) + " " +
		std::to_string((unsigned long)sig->creationtime) + " " + hx(sig->hspd) + " " + hx(sig->left) + " " + std::to_string(k.qbits) + " " + std::to_string(gcry_mpi_get_nbits(sig->dsa_r)) + " " + std::to_string(gcry_mpi_get_nbits(sig->dsa_s)) + " " +
		hx(a) + " " + hx(bb) + " " + hx(cc) + " " + hash_log() + " " + pkv_log() + tagtok(tag) + " => " + (ok ? "1" : "0"));
	return ok;
}
static bool hash_supported(int h) { return PGP::AlgorithmHashLength((tmcg_openpgp_hashalgo_t)h) != 0; }
static void prop_sig_line(const TestKey &k, int ver, int type, int hashalgo, size_t len, const std::string &tag, bool ok, bool same)
{
	char t[16]; snprintf(t, sizeof t, "0x%02x", type);
	emit("prop.pgpmsg sig " + k.name + " v" + std::to_string(ver) + " " + t + " hash=" + std::to_string(hashalgo) + " len=" + std::to_string(len) + " tag:" + tag + " => " + (ok ? "ok" : "refused") + " same=" + (same ? "1" : "0"));
}
// the fields of a parsed signature that enter its verification (the issuer key ID does not)
static std::string mpi_hex(gcry_mpi_t a) { unsigned char *b = NULL; size_t n = 0; if (!a || gcry_mpi_aprint(GCRYMPI_FMT_HEX, &b, &n, a)) return "?"; std::string r((const char*)b); gcry_free(b); return r; }
static std::string sig_snapshot(const TMCG_OpenPGP_Signature *sig)
{
	return std::to_string((unsigned)sig->version) + "/" + std::to_string((unsigned)sig->type) + "/" + std::to_string((unsigned)sig->pkalgo) + "/" + std::to_string((unsigned)sig->hashalgo) + "/" + std::to_string((long)sig->creationtime) + "/" +
		std::to_string((long)sig->expirationtime) + "/" + hx(sig->hspd) + "/" + hx(sig->left) + "/" + mpi_hex(sig->rsa_md) + "/" + mpi_hex(sig->dsa_r) + "/" + mpi_hex(sig->dsa_s);
}
struct SigVerdict { bool ok = false, same = false; };
// what the verdict lines of the following cases are about; the first "honest" case fixes the snapshot
struct PropCtx { const TestKey *k = NULL; int ver = 0, type = 0, hashalgo = 0; size_t len = 0; std::string orig; bool have_orig = false; };
static PropCtx g_pc;
static void prop_ctx(const TestKey &k, int ver, int type, int hashalgo, size_t len) { g_pc = PropCtx(); g_pc.k = &k; g_pc.ver = ver; g_pc.type = type; g_pc.hashalgo = hashalgo; g_pc.len = len; }
static void prop_sig_line(const TestKey &k, int ver, int type, int hashalgo, size_t len, const std::string &tag, bool ok, bool same);
// parse + verify one signature packet against a target; `refused` covers a packet the parser drops;
// same = the parsed signature has the fields of `orig` (a snapshot of the untouched one)
static SigVerdict sig_case_inner(const Oct &sigpkt, const TestKey &k, VKind kind, const Oct &a, const Oct &b, const Lit &lit, const std::string &tag)
{
	TMCG_OpenPGP_Signature *sig = NULL; bool pok; SigVerdict v; g_hashed = false;
	PGP::MemoryGuardReset();
	{ QuietCerr q; pok = PGP::SignatureParse(sigpkt, 0, sig); }
	if (!pok || !sig) return v;
	std::string snap = sig_snapshot(sig);
	if (!g_pc.have_orig && tag.compare(0, 6, "honest") == 0) { g_pc.orig = snap; g_pc.have_orig = true; }
	v.same = g_pc.have_orig && snap == g_pc.orig;
	if (!sig->Good()) v.ok = false;
	else v.ok = sig_verify(sig, k, kind, a, b, lit, tag);
	delete sig; return v;
}
static bool sig_case(const Oct &sigpkt, const TestKey &k, VKind kind, const Oct &a, const Oct &b, const Lit &lit, const std::string &tag)
{
	SigVerdict v = sig_case_inner(sigpkt, k, kind, a, b, lit, tag);
	if (g_pc.k) prop_sig_line(*g_pc.k, g_pc.ver, g_pc.type, g_pc.hashalgo, g_pc.len, tag, v.ok, v.same);
	return v.ok;
}

// one changed octet of a signature packet body: does the library hash the same octets as for the untouched packet?
// (emitted when both verifications got as far as hashing; `hashed` = the harness' own view of the packet layout)
static void sigflip_line(VKind kind, const Oct &a, const Oct &b, const Lit &lit, const Oct &orig, const Oct &flipped, size_t hl, size_t pos, bool hashed, const std::string &orig_input, const std::string &field)
{
	if (pos < hl || !g_hashed) return;
	Oct bb = b, cc; if (kind == V_DATALIT) { bb = str_oct(lit.filename); cc.push_back(lit.format); PGP::PacketTimeEncode(lit.timestamp, cc); }
	emit(std::string("pgpmsg.sigflip ") + vkind_name[kind] + " " + hx(a) + " " + hx(bb) + " " + hx(cc) + " " + hx(Oct(orig.begin() + hl, orig.end())) + " " + std::to_string(pos - hl) + " " + hx(Oct(flipped.begin() + hl, flipped.end())) +
		" tag:" + field + " => " + (hashed ? "1 " : "0 ") + (g_hash_input == orig_input ? "same" : "changed"));
}

struct Made { Oct sigpkt, trailer; int ver, type, hashalgo; VKind vk; Oct a, b; Lit lit; };
// one signature of a class the library emits, made with its Prepare / Hash / Sign / Encode routines
static bool make_sig(SplitMix &g, const TestKey &k, int cls, int hashalgo, time_t sigtime, time_t exptime, const Oct &doc, Made &m)
{
	Oct issuer = rnd_octets(g, g.coin() ? 8 : 20), fpr32 = rnd_octets(g, 32), hash, left, trailer, htrailer;
	tmcg_openpgp_pkalgo_t pk = (tmcg_openpgp_pkalgo_t)k.pkalgo; tmcg_openpgp_hashalgo_t ha = (tmcg_openpgp_hashalgo_t)hashalgo;
	std::string policy = g.below(3) ? "" : "https://example.org/policy"; tmcg_openpgp_notations_t nots;
	Oct other = rnd_octets(g, 60 + g.below(80)); std::string uid = "Alice <alice@example.org>"; if (g.coin()) uid += (char)('a' + g.below(26));
	m.hashalgo = hashalgo; m.ver = 4; m.a.clear(); m.b.clear(); m.lit = Lit();
	HKind hk; Oct ha_, hb_, hc_;
	switch (cls) {
	case 0: case 1: // detached V4, binary / text
		m.type = cls; PGP::PacketSigPrepareDetachedSignature((tmcg_openpgp_signature_t)cls, pk, ha, sigtime, exptime, policy, issuer, trailer); hk = cls ? H_TEXT : H_BIN; ha_ = doc; m.vk = V_DATA; m.a = doc; break;
	case 2: case 3: // detached V5, binary / text: six zero octets stand for the literal packet's fields
		m.ver = 5; m.type = cls - 2; PGP::PacketSigPrepareDetachedSignatureV5((tmcg_openpgp_signature_t)(cls - 2), pk, ha, sigtime, exptime, policy, g.coin() ? fpr32 : rnd_octets(g, 20), trailer); hk = (cls - 2) ? H_TEXT : H_BIN; ha_ = doc; m.vk = V_DATA; m.a = doc; break;
	case 4: // timestamp signature (0x40) over another signature's digest: standalone hash
		m.type = 0x40; PGP::PacketSigPrepareTimestampSignature(pk, ha, sigtime, policy, issuer, TMCG_OPENPGP_PKALGO_DSA, TMCG_OPENPGP_HASHALGO_SHA256, rnd_octets(g, 32), nots, trailer); hk = H_STANDALONE; m.vk = V_STANDALONE; break;
	case 5: { // positive certification of a user ID by the key itself
		Oct flags; flags.push_back(0x03); m.type = 0x13; PGP::PacketSigPrepareSelfSignature(TMCG_OPENPGP_SIGNATURE_POSITIVE_CERTIFICATION, pk, ha, sigtime, 0, flags, issuer, g.coin(), trailer); hk = H_CERT; ha_ = k.body; hb_ = str_oct(uid); m.vk = V_UID; m.a = k.body; m.b = hb_; } break;
	case 6: { // subkey binding
		Oct flags; flags.push_back(0x0C); m.type = 0x18; PGP::PacketSigPrepareSelfSignature(TMCG_OPENPGP_SIGNATURE_SUBKEY_BINDING, pk, ha, sigtime, 1000000, flags, issuer, false, trailer); hk = H_KEY2; ha_ = k.body; hb_ = other; m.vk = V_KEY2; m.a = k.body; m.b = other; } break;
	case 7: { // direct key signature naming a designated revoker
		Oct flags; flags.push_back(0x03); m.type = 0x1F; PGP::PacketSigPrepareDesignatedRevoker(pk, ha, sigtime, flags, issuer, TMCG_OPENPGP_PKALGO_DSA, rnd_octets(g, 20), false, trailer); hk = H_KEY; ha_ = k.body; m.vk = V_KEY; m.a = k.body; } break;
	case 8: // key revocation
		m.type = 0x20; PGP::PacketSigPrepareRevocationSignature(TMCG_OPENPGP_SIGNATURE_KEY_REVOCATION, pk, ha, sigtime, (tmcg_openpgp_revcode_t)2, "compromised", issuer, trailer); hk = H_KEY; ha_ = k.body; m.vk = V_KEY; m.a = k.body; break;
	case 9: // subkey revocation
		m.type = 0x28; PGP::PacketSigPrepareRevocationSignature(TMCG_OPENPGP_SIGNATURE_SUBKEY_REVOCATION, pk, ha, sigtime, (tmcg_openpgp_revcode_t)1, "", issuer, trailer); hk = H_KEY2; ha_ = k.body; hb_ = other; m.vk = V_KEY2; m.a = k.body; m.b = other; break;
	case 10: // certification revocation
		m.type = 0x30; PGP::PacketSigPrepareRevocationSignature(TMCG_OPENPGP_SIGNATURE_CERTIFICATION_REVOCATION, pk, ha, sigtime, (tmcg_openpgp_revcode_t)32, "gone", issuer, trailer); hk = H_CERT; ha_ = k.body; hb_ = str_oct(uid); m.vk = V_UID; m.a = k.body; m.b = hb_; break;
	case 11: // certification of somebody else's user ID
		m.type = 0x10 + (int)g.below(4); PGP::PacketSigPrepareCertificationSignature((tmcg_openpgp_signature_t)m.type, pk, ha, sigtime, exptime, policy, issuer, trailer); hk = H_CERT; ha_ = other; hb_ = str_oct(uid); m.vk = V_UID; m.a = other; m.b = hb_; break;
	case 12: { // certification of a user attribute
		m.type = 0x13; PGP::PacketSigPrepareCertificationSignature(TMCG_OPENPGP_SIGNATURE_POSITIVE_CERTIFICATION, pk, ha, sigtime, exptime, policy, issuer, trailer); hk = H_CERT; ha_ = other; hc_ = rnd_octets(g, 30); m.vk = V_UAT; m.a = other; m.b = hc_; } break;
	default: // attestation (0x16)
		m.type = 0x16; PGP::PacketSigPrepareAttestationSignature(pk, ha, sigtime, policy, issuer, rnd_octets(g, 64), nots, trailer); hk = H_CERT; ha_ = k.body; hb_ = str_oct(uid); m.vk = V_UID; m.a = k.body; m.b = hb_; break;
	}
	htrailer = trailer; if (m.ver == 5 && (cls == 2 || cls == 3)) for (int i = 0; i < 6; i++) htrailer.push_back(0);
	sig_hash(hk, m.ver, hashalgo, ha_, hb_, hc_, htrailer, hash, left);
	m.trailer = trailer; m.sigpkt.clear();
	return sign_hash(k, hashalgo, hash, trailer, left, m.sigpkt);
}
static const int N_CLASSES = 14;

static void validity_line(time_t creation, time_t expiration, int hashalgo, time_t keycreation, gcry_mpi_t one)
{
	Oct e; tmcg_openpgp_multiple_octets_t me;
	for (int tries = 0; tries < 100; tries++) {
		TMCG_OpenPGP_Signature sig(true, true, TMCG_OPENPGP_PKALGO_RSA, (tmcg_openpgp_hashalgo_t)hashalgo, TMCG_OPENPGP_SIGNATURE_BINARY_DOCUMENT, 4, creation, expiration, 0, (tmcg_openpgp_revcode_t)0, one, e, e, e, e, e, e, e, e, e, e, me, me, me, e);
		time_t t0 = time(NULL); bool v; { QuietCerr q; v = sig.CheckValidity(keycreation, 0); } time_t t1 = time(NULL);
		if (t0 != t1) continue;
		emit("pgpmsg.validity " + std::to_string((long)creation) + " " + std::to_string((long)expiration) + " " + std::to_string(hashalgo) + " " + std::to_string((long)keycreation) + " " + std::to_string((long)t0) + " => " + (v ? "1 " : "0 ") + (sig.expired ? "1" : "0"));
		return;
	}
}

// ---- a transferable public key (key, user ID, self-signature) through PublicKeyBlockParse / CheckSelfSignatures
static bool keyblock_verdict(const Oct &block)
{
	TMCG_OpenPGP_Pubkey *pub = NULL; bool ok = false;
	PGP::MemoryGuardReset();
	QuietCerr q;
	// on failure PublicKeyBlockParse has deleted the key on some paths (leaving `pub` dangling) and not on others:
	// the object is released here only after a successful parse
	if (PGP::PublicKeyBlockParse(block, 0, pub) && pub) {
		TMCG_OpenPGP_Keyring *ring = new TMCG_OpenPGP_Keyring();
		ok = pub->CheckSelfSignatures(ring, 0) && pub->valid && pub->userids.size() == 1 && pub->userids[0]->valid;
		delete ring; delete pub;
	}
	return ok;
}
static void keyblock_cases(SplitMix &g, const TestKey &k, int hashalgo, bool all_positions, time_t now)
{
	Oct fpr, uidpkt, trailer, hash, left, sigpkt, flags; std::string uid = "Bob <bob@example.org>";
	PGP::FingerprintCompute(k.body, fpr); PGP::PacketUidEncode(uid, uidpkt); flags.push_back(0x03);
	PGP::PacketSigPrepareSelfSignature(TMCG_OPENPGP_SIGNATURE_POSITIVE_CERTIFICATION, (tmcg_openpgp_pkalgo_t)k.pkalgo, (tmcg_openpgp_hashalgo_t)hashalgo, now - 60, 0, flags, fpr, false, trailer);
	sig_hash(H_CERT, 4, hashalgo, k.body, str_oct(uid), Oct(), trailer, hash, left);
	if (!sign_hash(k, hashalgo, hash, trailer, left, sigpkt)) return;
	Oct block = cat(cat(k.pkt, uidpkt), sigpkt);
	auto snap = [&](const Oct &sp) { TMCG_OpenPGP_Signature *sg = NULL; std::string r = "none"; QuietCerr q; if (PGP::SignatureParse(sp, 0, sg) && sg) { r = sig_snapshot(sg); delete sg; } return r; };
	std::string orig = snap(sigpkt);
	auto line = [&](const std::string &tag, bool ok, bool same = false) { emit("prop.pgpmsg keyblock " + k.name + " hash=" + std::to_string(hashalgo) + " tag:" + tag + " => " + (ok ? "ok" : "refused") + " same=" + (same ? "1" : "0")); };
	line("honest", keyblock_verdict(block), true);
	size_t a = k.pkt.size(), b = a + uidpkt.size();
	std::vector<size_t> ps; if (all_positions) for (size_t i = 0; i < block.size(); i++) ps.push_back(i); else { ps = flip_positions(g, a, 0, 40); for (size_t i = a; i < b; i++) ps.push_back(i); for (size_t p2 : flip_positions(g, block.size() - b, 0, 30)) ps.push_back(b + p2); }
	for (size_t pos : ps) { Oct c = block; c[pos] ^= (unsigned char)(1u << g.below(8));
		std::string where = pos < 2 + (a > 193) ? "keyheader" : pos < a ? "key" : pos < a + 2 ? "uidheader" : pos < b ? "uid" : "sig";
		// same = the self-signature packet still parses to the same signature (another encoding of it)
		bool same = pos >= b && snap(Oct(c.begin() + b, c.end())) == orig;
		line("flip:" + where + ":" + std::to_string(pos), keyblock_verdict(c), same); }
	{ Oct c = cat(cat(k.pkt, Oct()), sigpkt); line("drop:uid", keyblock_verdict(c)); }
	{ Oct u2; PGP::PacketUidEncode("Mallory <m@example.org>", u2); line("swap:uid", keyblock_verdict(cat(cat(k.pkt, u2), sigpkt))); }
}

// ---- messages to a public key: the session key through AsymmetricEncryptRSA / AsymmetricDecryptRSA and
//      AsymmetricEncryptElgamal / AsymmetricDecryptElgamal (verdict lines only: the public-key operation is libgcrypt's)
static void pk_cases(SplitMix &g)
{
	TestKey rsa = load_key("rsa", 1, KEY_RSA);
	gcry_sexp_t elg = NULL, parms = NULL; size_t erroff;
	if (!gcry_sexp_build(&parms, &erroff, "(genkey (elg (nbits 4:1024)))")) { if (gcry_pk_genkey(&elg, parms)) elg = NULL; gcry_sexp_release(parms); }
	for (int which = 0; which < 2; which++) {
		if (which == 1 && !elg) continue;
		const char *pkname = which ? "elgamal" : "rsa";
		for (int rep = 0; rep < 2; rep++) {
			int algo = rep ? 7 : 9; size_t ks = PGP::AlgorithmKeyLength((tmcg_openpgp_skalgo_t)algo);
			Oct k = rnd_octets(g, ks), prefix = make_prefix(g, 16), lit = lit_packet(rnd_octets(g, 1 + g.below(60))); std::string key((const char*)k.data(), ks);
			SOct wk = wrap_key(algo, key); Oct pkt; PGP::PacketSeipdEncode(seipd_body(algo, key, prefix, lit, true), pkt);
			gcry_mpi_t a = gcry_mpi_new(2048), b = gcry_mpi_new(2048); gcry_error_t e = which ? PGP::AsymmetricEncryptElgamal(wk, elg, a, b) : PGP::AsymmetricEncryptRSA(wk, rsa.key, a);
			if (e) { emit(std::string("# public-key encryption failed: ") + pkname); gcry_mpi_release(a); gcry_mpi_release(b); continue; }
			auto attempt = [&](gcry_mpi_t a2, gcry_mpi_t b2, const std::string &tag) {
				SOct back; gcry_error_t d = which ? PGP::AsymmetricDecryptElgamal(a2, b2, elg, back) : PGP::AsymmetricDecryptRSA(a2, rsa.key, back);
				bool ok = false, eq = false;
				if (!d) { MsgView v; msg_parse(pkt, v, tag); Oct out; if (v.ok) ok = msg_decrypt(v.msg, back, out, tag); eq = ok && out.size() >= lit.size() && std::equal(lit.begin(), lit.end(), out.begin()); }
				emit(std::string("prop.pgpmsg sym pkesk-") + pkname + " algo=" + std::to_string(algo) + " mode=cfb cs=0 len=" + std::to_string(lit.size()) + " tag:" + tag + " => " + (ok ? "ok" : "refused") + " " + (eq ? "1" : "0")); };
			attempt(a, b, "honest");
			unsigned nb = gcry_mpi_get_nbits(a);
			for (int i = 0; i < 6; i++) { unsigned bit = i == 0 ? 0 : g.below(nb); gcry_mpi_t a2 = gcry_mpi_copy(a); if (gcry_mpi_test_bit(a2, bit)) gcry_mpi_clear_bit(a2, bit); else gcry_mpi_set_bit(a2, bit); attempt(a2, b, "flip:esk:" + std::to_string(bit)); gcry_mpi_release(a2); }
			if (which) for (int i = 0; i < 4; i++) { unsigned bit = g.below(gcry_mpi_get_nbits(b)); gcry_mpi_t b2 = gcry_mpi_copy(b); if (gcry_mpi_test_bit(b2, bit)) gcry_mpi_clear_bit(b2, bit); else gcry_mpi_set_bit(b2, bit); attempt(a, b2, "flip:esk2:" + std::to_string(bit)); gcry_mpi_release(b2); }
			gcry_mpi_release(a); gcry_mpi_release(b);
		}
	}
	if (elg) gcry_sexp_release(elg);
}

// the file variants of the document hashes (HashComputeFile) against the in-memory ones: verdict lines only
static void filehash_cases(SplitMix &g)
{
	char name[] = "/tmp/pgpmsg-XXXXXX"; int fd = mkstemp(name); if (fd < 0) return; close(fd);
	static const char *texts[] = { "", "plain", "one\ntwo\n", "one\r\ntwo\r\n", "no newline at end\nlast", "cr only\rnext", "double cr\r\r\nnext\n", "\n", "\r\n", "trailing cr\r", "a\n\nb\n" };
	for (const char *t : texts) for (int text = 0; text < 2; text++) {
		std::string doc(t); { FILE *f = fopen(name, "wb"); fwrite(doc.data(), 1, doc.size(), f); fclose(f); }
		Oct tr = rnd_octets(g, 10), h1, l1, h2, l2; bool ok;
		if (text) { PGP::TextDocumentHash(str_oct(doc), tr, TMCG_OPENPGP_HASHALGO_SHA256, h1, l1); ok = PGP::TextDocumentHash(std::string(name), tr, TMCG_OPENPGP_HASHALGO_SHA256, h2, l2); }
		else { PGP::BinaryDocumentHash(str_oct(doc), tr, TMCG_OPENPGP_HASHALGO_SHA256, h1, l1); ok = PGP::BinaryDocumentHash(std::string(name), tr, TMCG_OPENPGP_HASHALGO_SHA256, h2, l2); }
		emit(std::string("prop.pgpmsg filehash ") + (text ? "text " : "bin ") + hexs(doc) + " => " + (ok ? (h1 == h2 ? "same" : "different") : "failed"));
	}
	unlink(name);
}

// ================================================================ hashed / unhashed subpacket areas
static Oct sub_enc(unsigned type, bool critical, const Oct &body) { Oct o; PGP::SubpacketEncode((tmcg_openpgp_byte_t)type, critical, body, o); return o; }
static Oct be4(unsigned long v) { Oct o; o.push_back((v >> 24) & 0xFF); o.push_back((v >> 16) & 0xFF); o.push_back((v >> 8) & 0xFF); o.push_back(v & 0xFF); return o; }
// a V4/V5 signature packet around two subpacket areas (RSA, one small MPI: only PacketDecode looks at it)
static Oct sig_packet_of_areas(int ver, int type, const Oct &hashed, const Oct &unhashed)
{
	Oct body; body.push_back((unsigned char)ver); body.push_back((unsigned char)type); body.push_back(1); body.push_back(8);
	body.push_back((hashed.size() >> 8) & 0xFF); body.push_back(hashed.size() & 0xFF); body.insert(body.end(), hashed.begin(), hashed.end());
	body.push_back((unhashed.size() >> 8) & 0xFF); body.push_back(unhashed.size() & 0xFF); body.insert(body.end(), unhashed.begin(), unhashed.end());
	body.push_back(0x12); body.push_back(0x34); body.push_back(0x00); body.push_back(0x08); body.push_back(0xAB);
	Oct pkt; PGP::PacketTagEncode(2, pkt); PGP::PacketLengthEncode(body.size(), pkt); pkt.insert(pkt.end(), body.begin(), body.end()); return pkt;
}
static std::string hexlist(const tmcg_openpgp_multiple_octets_t &l) { std::string s = "["; for (size_t i = 0; i < l.size(); i++) { if (i) s += ","; s += hx(l[i]); } return s + "]"; }
// PacketDecode of such a packet: the fields the subpackets set, as the canonical text of the model
static void sigmerge_line(const Oct &hashed, const Oct &unhashed, const std::string &tag)
{
	Oct pkts = sig_packet_of_areas(4, 0x13, hashed, unhashed), cur; tmcg_openpgp_packet_ctx_t ctx; tmcg_openpgp_notations_t nt; tmcg_openpgp_multiple_octets_t es, rf;
	PGP::MemoryGuardReset();
	tmcg_openpgp_byte_t ret; { QuietCerr q; ret = PGP::PacketDecode(pkts, 0, ctx, cur, nt, es, rf); }
	std::string out;
	if (ret == 0) out = "err"; else if (ret == 0xFA) out = "critical"; else if (ret != 2) out = "ret" + std::to_string((unsigned)ret);
	else {
		std::string nts = "["; for (size_t i = 0; i < nt.size(); i++) { if (i) nts += ","; nts += hx(nt[i].first) + ":" + hx(nt[i].second); } nts += "]";
		out = "ok c=" + std::to_string((unsigned long)ctx.sigcreationtime) + " e=" + std::to_string((unsigned long)ctx.sigexpirationtime) + " k=" + std::to_string((unsigned long)ctx.keyexpirationtime) +
			" x=" + (ctx.exportablecertification ? "1" : "0") + " r=" + (ctx.revocable ? "1" : "0") + " kf=" + hexs(ctx.keyflags, ctx.keyflagslen) + " ft=" + hexs(ctx.features, ctx.featureslen) +
			" psa=" + hexs(ctx.psa, ctx.psalen) + " pha=" + hexs(ctx.pha, ctx.phalen) + " pca=" + hexs(ctx.pca, ctx.pcalen) + " paa=" + hexs(ctx.paa, ctx.paalen) + " rc=" + std::to_string((unsigned)ctx.revocationcode) +
			" rk=" + std::to_string((unsigned)ctx.revocationkey_class) + ":" + std::to_string((unsigned)ctx.revocationkey_pkalgo) + ":" + hexs(ctx.revocationkey_fingerprint, 32) + " pu=" + (ctx.primaryuserid ? "1" : "0") +
			" i=" + hexs(ctx.issuer, 8) + " iv=" + std::to_string((unsigned)ctx.issuerkeyversion) + " if=" + hexs(ctx.issuerfingerprint, 32) + " es=" + hexs(ctx.embeddedsignature, ctx.embeddedsignaturelen) +
			" esl=" + hexlist(es) + " nt=" + nts + " rf=" + hexlist(rf);
	}
	PGP::PacketContextRelease(ctx);
	emit("pgpmsg.sigmerge " + hx(hashed) + " " + hx(unhashed) + tagtok(tag) + " => " + out);
}
// one subpacket of the catalogue: well-formed (variant 0) or one of the malformed / unusual forms
static Oct sub_sample(SplitMix &g, unsigned type, bool allow_bad)
{
	bool crit = g.below(6) == 0; unsigned v = allow_bad ? g.below(8) : 0; Oct b;
	switch (type) {
	case 2: case 3: case 9: b = be4(g.next() & 0xFFFFFFFFUL); if (v == 1) b.pop_back(); if (v == 2) b.push_back(0); break;
	case 4: case 7: case 25: b.push_back((unsigned char)(v == 1 ? 2 : g.below(2))); if (v == 2) b.push_back(0); if (v == 3) b.clear(); break;
	case 5: b = rnd_octets(g, v == 1 ? 3 : 2); break;
	case 11: case 21: case 22: case 27: case 30: case 34: b = rnd_octets(g, v == 1 ? 33 : v == 2 ? 32 : g.below(6)); break;
	case 12: b = rnd_octets(g, v == 1 ? 23 : g.coin() ? 22 : 34); if (!b.empty()) { b[0] |= 0x80; if (v == 2) b[0] &= 0x7F; } break;
	case 16: b = rnd_octets(g, v == 1 ? 7 : 8); if (v == 2) b = Oct(8, 0); break;
	case 20: { size_t nl = v == 1 ? 0 : 1 + g.below(6), vl = g.below(6); b = rnd_octets(g, 4); b.push_back(0); b.push_back((unsigned char)nl); b.push_back(0); b.push_back((unsigned char)vl); Oct r = rnd_octets(g, nl + vl); b.insert(b.end(), r.begin(), r.end()); if (v == 2) b.pop_back(); if (v == 3) b.resize(5); } break;
	case 29: b = rnd_octets(g, v == 1 ? 0 : 1 + g.below(10)); break;
	case 31: b = rnd_octets(g, v == 1 ? 1 : 2 + g.below(20)); break;
	case 32: b = rnd_octets(g, v == 1 ? 0 : 1 + g.below(30)); break;
	case 33: case 35: { unsigned ver = v == 1 ? 6 : v == 2 ? 0 : g.coin() ? 4 : 5; b.push_back((unsigned char)ver); Oct r = rnd_octets(g, ver == 5 ? 32 : 20); b.insert(b.end(), r.begin(), r.end()); if (v == 3) b.pop_back(); if (v == 4) b.resize(1); if (v == 5) b = Oct(b.size(), 0), b[0] = 4; } break;
	default: b = rnd_octets(g, g.below(12)); break;   // 6, 23, 24, 26, 28, 37 and the types the library does not know
	}
	Oct o = sub_enc(type, crit, b);
	if (allow_bad && g.below(12) == 0 && o.size() >= 2 && o[0] < 192) { // the same with a five-octet or two-octet length
		Oct o2; if (g.coin()) { o2.push_back(255); Oct l = be4(o[0]); o2.insert(o2.end(), l.begin(), l.end()); } else { /* not expressible below 192 */ o2.push_back(o[0]); } o2.insert(o2.end(), o.begin() + 1, o.end()); o = o2; }
	return o;
}
static Oct area_sample(SplitMix &g, size_t maxn, bool allow_bad)
{
	static const unsigned types[] = { 2, 3, 4, 5, 6, 7, 9, 11, 12, 16, 20, 21, 22, 23, 24, 25, 26, 27, 28, 29, 30, 31, 32, 33, 34, 35, 37, 0, 1, 8, 10, 13, 36, 38, 100, 110, 127 };
	Oct a; size_t n = g.below(maxn + 1);
	for (size_t i = 0; i < n; i++) { Oct sp = sub_sample(g, types[g.below(sizeof types / sizeof types[0])], allow_bad); a.insert(a.end(), sp.begin(), sp.end()); }
	if (allow_bad && g.below(15) == 0 && !a.empty()) a.resize(a.size() - 1 - g.below(std::min<size_t>(a.size(), 3)));   // cut inside a subpacket
	return a;
}
static void sigmerge_cases(SplitMix &g, uint64_t n)
{
	// each type alone in the hashed and in the unhashed area, and against itself
	static const unsigned types[] = { 2, 3, 4, 5, 6, 7, 9, 11, 12, 16, 20, 21, 22, 23, 24, 25, 26, 27, 28, 29, 30, 31, 32, 33, 34, 35, 37, 1, 100 };
	Oct base = sub_enc(2, false, be4(1600000000));
	for (unsigned t : types) { Oct a = sub_sample(g, t, false), b = sub_sample(g, t, false);
		sigmerge_line(cat(base, a), Oct(), "hashed:" + std::to_string(t)); sigmerge_line(base, a, "unhashed:" + std::to_string(t)); sigmerge_line(cat(base, a), b, "both:" + std::to_string(t)); sigmerge_line(cat(cat(base, a), b), Oct(), "twice:" + std::to_string(t)); }
	sigmerge_line(Oct(), Oct(), "empty"); sigmerge_line(Oct(), sub_sample(g, 16, false), "unhashed-only");
	// unknown critical subpackets: in the hashed area, in the unhashed area, followed by an unknown non-critical one
	sigmerge_line(cat(base, sub_enc(99, true, Oct(1, 7))), Oct(), "critical:hashed"); sigmerge_line(base, sub_enc(99, true, Oct(1, 7)), "critical:unhashed");
	sigmerge_line(cat(cat(base, sub_enc(99, true, Oct(1, 7))), sub_enc(98, false, Oct(1, 7))), Oct(), "critical:then-unknown");
	for (uint64_t i = 0; i < n; i++) { bool bad = g.below(3) == 0; sigmerge_line(area_sample(g, 5, bad), area_sample(g, 4, bad), "random"); }
}

// ---- an existing signature with one more subpacket in its unhashed area
static Oct with_unhashed(const Oct &sigpkt, size_t trailer_len, const Oct &sub)
{
	size_t hl = sigpkt.size() > 193 ? 3 : 2; Oct body(sigpkt.begin() + hl, sigpkt.end());
	size_t up = trailer_len; size_t ulen = ((size_t)body[up] << 8) + body[up + 1];
	body.insert(body.begin() + up + 2 + ulen, sub.begin(), sub.end()); ulen += sub.size(); body[up] = (ulen >> 8) & 0xFF; body[up + 1] = ulen & 0xFF;
	Oct pkt; PGP::PacketTagEncode(2, pkt); PGP::PacketLengthEncode(body.size(), pkt); pkt.insert(pkt.end(), body.begin(), body.end()); return pkt;
}
struct USub { std::string name; Oct sub; };
// the catalogue: values that would change the verdict or the key's properties if they were honoured
static std::vector<USub> unhashed_catalogue(SplitMix &g, time_t now, const std::string &what)
{
	std::vector<USub> c; Oct one(1, 1), zero(1, 0);
	unsigned long cr = what == "valid" ? (unsigned long)now + 200000 : (unsigned long)now - 5;
	unsigned long ex = what == "valid" ? 1 : 0xFFFFFFF0UL;
	c.push_back({ "2", sub_enc(2, false, be4(cr)) }); c.push_back({ "3", sub_enc(3, false, be4(ex)) }); c.push_back({ "3:zero", sub_enc(3, false, be4(0)) }); c.push_back({ "9", sub_enc(9, false, be4(1)) });
	c.push_back({ "27", sub_enc(27, false, Oct(1, 0xFF)) }); c.push_back({ "30", sub_enc(30, false, Oct(1, 0xFF)) }); c.push_back({ "11", sub_enc(11, false, one) }); c.push_back({ "21", sub_enc(21, false, one) }); c.push_back({ "22", sub_enc(22, false, one) });
	c.push_back({ "7", sub_enc(7, false, zero) }); c.push_back({ "4", sub_enc(4, false, zero) }); { Oct r; r.push_back(2); r.push_back('x'); c.push_back({ "29", sub_enc(29, false, r) }); }
	{ Oct rk = rnd_octets(g, 22); rk[0] = 0x80; rk[1] = 17; c.push_back({ "12", sub_enc(12, false, rk) }); }
	{ Oct n; n.push_back(0x80); n.push_back(0); n.push_back(0); n.push_back(0); n.push_back(0); n.push_back(3); n.push_back(0); n.push_back(2); for (char ch : std::string("abcxy")) n.push_back(ch); c.push_back({ "20", sub_enc(20, false, n) }); c.push_back({ "20:critical", sub_enc(20, true, n) }); }
	c.push_back({ "16", sub_enc(16, false, rnd_octets(g, 8)) }); { Oct f = rnd_octets(g, 21); f[0] = 4; c.push_back({ "33", sub_enc(33, false, f) }); }
	c.push_back({ "99:critical", sub_enc(99, true, one) });
	{ Oct two = cat(sub_enc(2, false, be4(cr)), sub_enc(3, false, be4(ex))); c.push_back({ "2+3", two }); }
	return c;
}
static std::string sig_verdict(const Oct &sp, const TestKey &k, const Oct &doc)
{
	TMCG_OpenPGP_Signature *sig = NULL; bool pok; PGP::MemoryGuardReset();
	{ QuietCerr q; pok = PGP::SignatureParse(sp, 0, sig); }
	if (!pok || !sig) return "refused";
	bool ok; { QuietCerr q; ok = sig->Good() && sig->CheckValidity(k.created, 0) && sig->VerifyData(k.key, doc, 0); }
	delete sig; return ok ? "ok" : "refused";
}
static void unhashed_cases(SplitMix &g, const std::vector<TestKey> &keys, time_t now, bool thorough, uint64_t seed)
{
	struct Sc { const char *what; long creation, expiration; } scs[] = { { "valid", (long)now - 10, 100000 }, { "expired", (long)now - 1000, 500 }, { "olderthankey", (long)KEY_CREATED - 10, 0 }, { "future", (long)now + 100000, 0 } };
	for (size_t ki = 0; ki < keys.size(); ki++) for (int ver = 4; ver <= 5; ver++) {
		const TestKey &k = keys[ki]; if (!thorough && (ki + ver) % 2 != seed % 2 && ki != seed % keys.size()) continue;
		int hashalgo = k.qbits > 256 ? 10 : 8; if (k.pkalgo == 22) hashalgo = 10;
		for (auto &sc : scs) {
			Made m; Oct doc = rnd_octets(g, 12); if (!make_sig(g, k, ver == 4 ? 0 : 2, hashalgo, sc.creation, sc.expiration, doc, m)) continue;
			std::string before = sig_verdict(m.sigpkt, k, doc);
			for (auto &u : unhashed_catalogue(g, now, sc.what)) {
				Oct sp = with_unhashed(m.sigpkt, m.trailer.size(), u.sub);
				emit("prop.pgpmsg sig-unhashed " + k.name + " v" + std::to_string(ver) + " " + sc.what + " sub=" + u.name + " tag:append:" + u.name + " => " + before + " " + sig_verdict(sp, k, doc));
			}
		}
	}
	// V3 signatures have no subpackets: nothing to append (covered by the flip cases)
	// key blocks: unhashed key flags / key expiration / … on the self-signature and on a subkey binding
	for (size_t ki = 0; ki < 3; ki++) { const TestKey &k = keys[ki]; if (!thorough && ki != seed % 3) continue;
		int hashalgo = k.qbits > 256 ? 10 : 8; Oct fpr, uidpkt, flags, tr1, tr2, h, l, usig, ssig, subpkt, subbody; std::string uid = "Carol <carol@example.org>";
		PGP::FingerprintCompute(k.body, fpr); PGP::PacketUidEncode(uid, uidpkt); flags.push_back(0x03);
		PGP::PacketSigPrepareSelfSignature(TMCG_OPENPGP_SIGNATURE_POSITIVE_CERTIFICATION, (tmcg_openpgp_pkalgo_t)k.pkalgo, (tmcg_openpgp_hashalgo_t)hashalgo, now - 60, 0, flags, fpr, false, tr1);
		sig_hash(H_CERT, 4, hashalgo, k.body, str_oct(uid), Oct(), tr1, h, l, false); if (!sign_hash(k, hashalgo, h, tr1, l, usig)) continue;
		{ gcry_mpi_t n = param(keys[0].key, "n"), e = param(keys[0].key, "e"); PGP::PacketSubEncode(KEY_CREATED, TMCG_OPENPGP_PKALGO_RSA, n, e, e, e, subpkt); gcry_mpi_release(n); gcry_mpi_release(e); }
		PGP::PacketBodyExtract(subpkt, 0, subbody); Oct sflags; sflags.push_back(0x0C);
		PGP::PacketSigPrepareSelfSignature(TMCG_OPENPGP_SIGNATURE_SUBKEY_BINDING, (tmcg_openpgp_pkalgo_t)k.pkalgo, (tmcg_openpgp_hashalgo_t)hashalgo, now - 60, 0, sflags, fpr, false, tr2);
		sig_hash(H_KEY2, 4, hashalgo, k.body, subbody, Oct(), tr2, h, l, false); if (!sign_hash(k, hashalgo, h, tr2, l, ssig)) continue;
		auto verdict = [&](const Oct &us, const Oct &ss) { std::string r = "refused"; TMCG_OpenPGP_Pubkey *pub = NULL; PGP::MemoryGuardReset(); QuietCerr q;
			Oct block = cat(cat(cat(cat(k.pkt, uidpkt), us), subpkt), ss);
			if (PGP::PublicKeyBlockParse(block, 0, pub) && pub) { TMCG_OpenPGP_Keyring *ring = new TMCG_OpenPGP_Keyring();
				bool a = pub->CheckSelfSignatures(ring, 0), b = a && pub->CheckSubkeys(ring, 0);
				r = std::string(a ? "ok" : "bad") + ":valid=" + (pub->valid ? "1" : "0") + ":flags=" + std::to_string(pub->AccumulateFlags()) + ":exp=" + std::to_string((long)pub->expirationtime) + ":uids=" + std::to_string(pub->userids.size()) + (pub->userids.size() ? std::string(pub->userids[0]->valid ? "v" : "i") : "") +
					":sub=" + (b ? "ok" : "bad") + ":" + std::to_string(pub->subkeys.size()); if (pub->subkeys.size()) r += std::string(pub->subkeys[0]->valid ? "v" : "i") + ":sflags=" + std::to_string(pub->subkeys[0]->AccumulateFlags()) + ":sexp=" + std::to_string((long)pub->subkeys[0]->expirationtime);
				delete ring; delete pub; }
			return r; };
		std::string before = verdict(usig, ssig);
		for (auto &u : unhashed_catalogue(g, now, "valid")) {
			emit("prop.pgpmsg sig-unhashed " + k.name + " v4 keyblock-self sub=" + u.name + " tag:append:" + u.name + " => " + before + " " + verdict(with_unhashed(usig, tr1.size(), u.sub), ssig));
			emit("prop.pgpmsg sig-unhashed " + k.name + " v4 keyblock-subkey sub=" + u.name + " tag:append:" + u.name + " => " + before + " " + verdict(usig, with_unhashed(ssig, tr2.size(), u.sub)));
		}
	}
}

static int drv_pgpmsg_sig(const Opts &o, SplitMix &g)
{
	bool thorough = o.tier == "thorough";
	std::vector<TestKey> keys;
	keys.push_back(load_key("rsa", 1, KEY_RSA)); keys.push_back(load_key("dsa160", 17, KEY_DSA160)); keys.push_back(load_key("dsa256", 17, KEY_DSA256));
	keys.push_back(load_key("ecdsa", 19, KEY_ECDSA)); keys.push_back(load_key("eddsa", 22, KEY_EDDSA));
	static const int strong[] = { 8, 9, 10, 12, 14 }, weak[] = { 1, 2, 3, 11 };
	time_t now = time(NULL);
	// ================================================= hash input: every class x version, documents of all short lengths, line ending forms
	{
		Oct h, l;
		for (int ver = 3; ver <= 5; ver++) {
			Oct tr3; tr3.push_back(0x00); PGP::PacketTimeEncode(now, tr3);
			for (size_t n = 0; n <= 40; n++) { Oct tr = ver == 3 ? tr3 : rnd_octets(g, 6 + g.below(40)); sig_hash(H_BIN, ver, strong[g.below(5)], rnd_octets(g, n), Oct(), Oct(), tr, h, l); }
			static const char *texts[] = { "", "\n", "\r", "\r\n", "\n\n", "\r\r\n", "\n\r", "a\nb", "a\r\nb", "a\rb", "a\n\rb\r\n", "line\n", "line\r\n", "line\r", "\r\n\r\n", "x\r\r\ny\n\n\rz", "no line end" };
			for (const char *t : texts) { Oct tr = ver == 3 ? tr3 : rnd_octets(g, 6 + g.below(40)); sig_hash(H_TEXT, ver, 8, str_oct(t), Oct(), Oct(), tr, h, l); }
			for (int i = 0; i < 12; i++) { Oct d; size_t n = g.below(60); for (size_t j = 0; j < n; j++) { unsigned x = g.below(5); d.push_back(x == 0 ? '\n' : x == 1 ? '\r' : (unsigned char)g.below(256)); } sig_hash(H_TEXT, ver, 8, d, Oct(), Oct(), ver == 3 ? tr3 : rnd_octets(g, 6 + g.below(20)), h, l); }
			for (int i = 0; i < 4; i++) { Oct tr = ver == 3 ? tr3 : rnd_octets(g, 6 + g.below(300));
				sig_hash(H_STANDALONE, ver, strong[g.below(5)], Oct(), Oct(), Oct(), tr, h, l);
				sig_hash(H_KEY, ver, 8, rnd_octets(g, g.below(600)), Oct(), Oct(), tr, h, l);
				sig_hash(H_KEY2, ver, 10, rnd_octets(g, g.below(600)), rnd_octets(g, g.below(300)), Oct(), tr, h, l);
				sig_hash(H_CERT, ver, 8, rnd_octets(g, g.below(600)), rnd_octets(g, g.below(80)), Oct(), tr, h, l);
				if (ver != 3) sig_hash(H_CERT, ver, 9, rnd_octets(g, g.below(600)), rnd_octets(g, g.below(8)), rnd_octets(g, 1 + g.below(80)), tr, h, l); }
			// every hash algorithm octet, the unknown ones too
			for (int ha = 0; ha <= 15; ha++) sig_hash(H_BIN, ver, ha, rnd_octets(g, 5), Oct(), Oct(), ver == 3 ? tr3 : rnd_octets(g, 8), h, l);
			sig_hash(H_STANDALONE, 3, 8, Oct(), Oct(), Oct(), Oct(), h, l);  // nothing to hash
			{ Oct big = rnd_octets(g, 70000); sig_hash(H_KEY, ver, 8, big, Oct(), Oct(), ver == 3 ? tr3 : rnd_octets(g, 8), h, l); }   // key length beyond 16 bits
		}
	}
	// ================================================= validity: the clock, the key's age, expiry, the hash list
	{
		gcry_mpi_t one = gcry_mpi_set_ui(NULL, 1);
		for (int ha = 0; ha <= 16; ha++) validity_line(now - 100, 0, ha, now - 1000, one);
		validity_line(now - 100, 0, 100, now - 1000, one); validity_line(now - 100, 0, 255, now - 1000, one);
		for (long d = -3; d <= 3; d++) {
			validity_line(now - 1000, 1000 + d, 8, now - 2000, one);             // expiry at the second
			validity_line(now + 90000 + d, 0, 8, now - 2000, one);               // 25 hours ahead
			validity_line(now - 1000, 0, 8, now - 1000 + d, one);                // as old as the key
			validity_line(now + 90000 + d, 1, 8, now + 90000 + d + 1, one);      // several at once: order of the checks
		}
		validity_line(now - 1000, 1, 2, now, one); validity_line(now + 100000, 0, 2, now, one); validity_line(0, 0, 8, 0, one); validity_line(now, 4294967295UL, 8, 0, one);
		for (uint64_t c = 0; c < 40 + o.cases; c++) { long cr = now - 200000 + (long)g.below(400000); validity_line(cr, g.coin() ? 0 : g.below(300000), g.coin() ? strong[g.below(5)] : (int)g.below(16), g.coin() ? cr - 5 + g.below(10) : now - 300000 + g.below(400000), one); }
		gcry_mpi_release(one);
	}
	// ================================================= signatures made by the library: class x key x hash, then the tamper catalogue
	size_t made = 0;
	for (size_t ki = 0; ki < keys.size(); ki++) for (int cls = 0; cls < N_CLASSES; cls++) {
		const TestKey &k = keys[ki];
		if (!thorough && !(ki == (o.seed + cls) % keys.size() || cls < 4 && ki == (o.seed + cls + 1) % keys.size())) continue;
		int hashalgo = strong[g.below(5)];
		if (k.pkalgo == 17 && k.qbits > 8 * PGP::AlgorithmHashLength((tmcg_openpgp_hashalgo_t)hashalgo)) hashalgo = 10;
		size_t len = cls < 4 ? g.below(4) == 0 ? 0 : g.below(200) : 0; Oct doc = rnd_octets(g, len);
		if (cls == 1 || cls == 3) for (size_t i = 0; i < doc.size(); i++) { unsigned x = g.below(8); doc[i] = x == 0 ? '\n' : x == 1 ? '\r' : (unsigned char)(32 + g.below(90)); }
		Made m; if (!make_sig(g, k, cls, hashalgo, now - 50, g.coin() ? 0 : 100000, doc, m)) { emit("# signing failed: " + k.name + " class " + std::to_string(cls) + " hash " + std::to_string(hashalgo)); continue; }
		made++;
		prop_ctx(k, m.ver, m.type, hashalgo, len);
		bool ok = sig_case(m.sigpkt, k, m.vk, m.a, m.b, m.lit, "honest");
		std::string orig_input = g_hash_input; bool orig_hashed = g_hashed;
		// line ending forms of a text document verify alike
		if (cls == 1 || cls == 3) { Oct d2; for (size_t i = 0; i < doc.size(); i++) { if (doc[i] == '\n' && (i == 0 || doc[i - 1] != '\r')) d2.push_back('\r'); d2.push_back(doc[i]); }
			bool ok2 = sig_case(m.sigpkt, k, m.vk, d2, m.b, m.lit, "honest:crlf");  }
		// every octet of the signature packet (a sample for the long ones)
		for (size_t pos : flip_positions(g, m.sigpkt.size(), thorough ? 100000 : (cls < 2 && ki == o.seed % keys.size() ? 100000 : 0), thorough ? 200 : 24)) {
			Oct c = m.sigpkt; c[pos] ^= (unsigned char)(1u << g.below(8));
			// fields that are neither hashed nor the signature value: the unhashed subpacket area (here: its two length octets)
			// and the left 16 bits of the digest
			size_t hl = m.sigpkt.size() > 193 ? 3 : 2; std::string where = pos < hl ? "header" : pos < hl + m.trailer.size() ? "hashed" : pos < hl + m.trailer.size() + 2 ? "unhashed:uspdlen" : pos < hl + m.trailer.size() + 4 ? "unhashed:left16" : "value";
			{ size_t v0 = hl + m.trailer.size() + 4; if (pos == v0 || pos == v0 + 1) where = "mpilen"; else if (k.pkalgo != 1 && m.sigpkt.size() >= v0 + 2) { size_t l1 = (((size_t)m.sigpkt[v0] << 8) + m.sigpkt[v0 + 1] + 7) / 8; if (pos == v0 + 2 + l1 || pos == v0 + 3 + l1) where = "mpilen"; } }
			std::string t = "flip:sig-" + where + ":" + std::to_string(pos);
			bool x = sig_case(c, k, m.vk, m.a, m.b, m.lit, t);
			if (orig_hashed) sigflip_line(m.vk, m.a, m.b, m.lit, m.sigpkt, c, hl, pos, pos >= hl && pos < hl + m.trailer.size(), orig_input, where);
			if (x && o.has("--dump-accepted")) emit("# accepted " + t + " orig=" + hx(m.sigpkt) + " flipped=" + hx(c));
		}
		if (o.has("--probe-header")) for (size_t pos = 0; pos < 2; pos++) for (int bit = 0; bit < 8; bit++) { Oct c = m.sigpkt; c[pos] ^= (unsigned char)(1u << bit); bool x = sig_case(c, k, m.vk, m.a, m.b, m.lit, "probe"); if (x) emit("# header flip accepted: pos " + std::to_string(pos) + " bit " + std::to_string(bit) + " orig=" + hx(m.sigpkt)); }
		// every octet of what was signed: document / key / user ID
		auto flip_target = [&](const Oct &orig, bool first, const std::string &what) {
			for (size_t pos : flip_positions(g, orig.size(), thorough ? 100000 : 0, thorough ? 100 : 10)) {
				Oct c = orig; c[pos] ^= (unsigned char)(1u << g.below(8));
				// a text document: CR <-> LF changes that keep the canonical form are no tampering
				std::string t = "flip:" + what + ":" + std::to_string(pos);
				bool x = first ? sig_case(m.sigpkt, k, m.vk, c, m.b, m.lit, t) : sig_case(m.sigpkt, k, m.vk, m.a, c, m.lit, t);
				
			} };
		if (!m.a.empty()) flip_target(m.a, true, m.vk == V_DATA ? (m.type == 1 ? "text" : "doc") : "key");
		if (!m.b.empty()) flip_target(m.b, false, m.vk == V_KEY2 ? "subkey" : m.vk == V_UAT ? "uat" : "uid");
		if (m.vk == V_DATA) { Oct c = m.a; c.push_back('x'); bool x = sig_case(m.sigpkt, k, m.vk, c, m.b, m.lit, "append:doc"); 
			if (!m.a.empty()) { Oct c2(m.a.begin(), m.a.end() - 1); bool y = sig_case(m.sigpkt, k, m.vk, c2, m.b, m.lit, "cut:doc");  } }
		// another key of the same algorithm
		for (const TestKey &k2 : keys) if (&k2 != &k && k2.pkalgo == k.pkalgo) { bool x = sig_case(m.sigpkt, k2, m.vk, m.a, m.b, m.lit, "otherkey");  }
		// a signature of one class checked as another
		if (m.vk == V_KEY2) { bool x = sig_case(m.sigpkt, k, V_KEY2, m.b, m.a, m.lit, "swap:keys");  }
		if (m.vk == V_UID) { bool x = sig_case(m.sigpkt, k, V_UAT, m.a, m.b, m.lit, "uid-as-uat");  }
		if (m.vk == V_DATA && (m.ver == 5)) { Lit l2; l2.format = 0x62; l2.filename = "f.txt"; l2.timestamp = now; bool x = sig_case(m.sigpkt, k, V_DATALIT, m.a, m.b, l2, "v5:literal-fields");  }
		if (m.vk == V_DATA && (m.ver == 4)) { Lit l2; l2.filename = "f.txt"; l2.timestamp = now; bool x = sig_case(m.sigpkt, k, V_DATALIT, m.a, m.b, l2, "honest:v4-literal-fields");  }
	}
	// ================================================= V5 document signatures over the literal packet's fields; weak hashes; the DSA digest rule
	for (const TestKey &k : keys) {
		Oct doc = rnd_octets(g, g.below(100)), trailer, htr, hash, left, sp; Lit lit; lit.format = g.coin() ? 0x62 : 0x74; lit.filename = g.coin() ? "" : "report.txt"; lit.timestamp = now - 5;
		int hashalgo = k.qbits > 256 ? 10 : 8; if (k.pkalgo == 22) hashalgo = 10;
		PGP::PacketSigPrepareDetachedSignatureV5(TMCG_OPENPGP_SIGNATURE_BINARY_DOCUMENT, (tmcg_openpgp_pkalgo_t)k.pkalgo, (tmcg_openpgp_hashalgo_t)hashalgo, now - 5, 0, "", rnd_octets(g, 32), trailer);
		htr = trailer; htr.push_back(lit.format); htr.push_back((unsigned char)lit.filename.size()); for (char ch : lit.filename) htr.push_back(ch); PGP::PacketTimeEncode(lit.timestamp, htr);
		sig_hash(H_BIN, 5, hashalgo, doc, Oct(), Oct(), htr, hash, left);
		if (!sign_hash(k, hashalgo, hash, trailer, left, sp)) continue;
		prop_ctx(k, 5, 0, hashalgo, doc.size());
		bool ok = sig_case(sp, k, V_DATALIT, doc, Oct(), lit, "honest"); 
		{ Lit l2 = lit; l2.format ^= 1; bool x = sig_case(sp, k, V_DATALIT, doc, Oct(), l2, "flip:literal-format:0");  }
		{ Lit l2 = lit; l2.filename += "x"; bool x = sig_case(sp, k, V_DATALIT, doc, Oct(), l2, "flip:literal-filename:0");  }
		{ Lit l2 = lit; l2.timestamp += 1; bool x = sig_case(sp, k, V_DATALIT, doc, Oct(), l2, "flip:literal-time:0");  }
		{ Lit l2 = lit; l2.filename = std::string(256, 'n'); bool x = sig_case(sp, k, V_DATALIT, doc, Oct(), l2, "flip:literal-filename:long");  }
		{ bool x = sig_case(sp, k, V_DATA, doc, Oct(), lit, "v5:detached-form");  }
		// weak hashes verify at this level; CheckValidity is what refuses them
		g_pc = PropCtx();
		for (int wh : weak) { if (k.pkalgo == 17 && k.qbits > 8 * PGP::AlgorithmHashLength((tmcg_openpgp_hashalgo_t)wh)) continue; if (k.pkalgo == 22) continue;
			Made m; Oct d = rnd_octets(g, 20); if (!make_sig(g, k, 0, wh, now - 5, 0, d, m)) continue;
			TMCG_OpenPGP_Signature *sig = NULL; bool pok; { QuietCerr q; pok = PGP::SignatureParse(m.sigpkt, 0, sig); }
			bool ver = pok && sig_verify(sig, k, V_DATA, d, Oct(), Lit(), "weakhash"); bool val = false;
			if (pok) { QuietCerr q; val = sig->CheckValidity(k.created, 0); }
			prop_sig_line(k, 4, 0, wh, 20, "weakhash", ver && val, true); delete sig; }
	}
	// ================================================= times: expired, older than the key, far in the future (the signature verifies, CheckValidity decides)
	for (const TestKey &k : keys) {
		struct TC { const char *tag; long creation, expiration; bool expect; } tcs[] = {
			{ "honest:fresh", (long)now - 10, 0, true }, { "honest:not-yet-expired", (long)now - 1000, 100000, true }, { "honest:future-within-tolerance", (long)now + 80000, 0, true },
			{ "expired", (long)now - 1000, 500, false }, { "olderthankey", (long)k.created - 10, 0, false }, { "future", (long)now + 100000, 0, false } };
		for (auto &tc : tcs) { Made m; Oct d = rnd_octets(g, 10); int hashalgo = k.qbits > 256 ? 10 : 8; if (k.pkalgo == 22) hashalgo = 10;
			if (!make_sig(g, k, 0, hashalgo, tc.creation, tc.expiration, d, m)) continue;
			TMCG_OpenPGP_Signature *sig = NULL; bool pok; { QuietCerr q; pok = PGP::SignatureParse(m.sigpkt, 0, sig); }
			bool ver = pok && sig_verify(sig, k, V_DATA, d, Oct(), Lit(), tc.tag); bool val = false;
			if (pok) { QuietCerr q; val = sig->CheckValidity(k.created, 0); emit("prop.pgpmsg sigtime " + k.name + " creation=" + std::to_string((long)sig->creationtime - (long)now) + " expiration=" + std::to_string((long)sig->expirationtime) + " tag:" + tc.tag + " => verify=" + (ver ? "1" : "0") + " valid=" + (val ? "1" : "0")); }
			prop_sig_line(k, 4, 0, hashalgo, 10, tc.tag, ver && val, true); delete sig; }
	}
	// ================================================= V3 signatures (verified, never made by the library): hand-made packets
	for (const TestKey &k : keys) for (int type = 0; type <= 1; type++) {
		int hashalgo = k.qbits > 256 ? 10 : 8; if (k.pkalgo == 22) hashalgo = 10;
		Oct doc = str_oct(type ? "first line\nsecond line\r\nthird\r" : "binary \x01\x02 document"), tr, hash, left; tr.push_back((unsigned char)type); PGP::PacketTimeEncode(now - 7, tr);
		sig_hash(type ? H_TEXT : H_BIN, 3, hashalgo, doc, Oct(), Oct(), tr, hash, left);
		Oct fake, sp; if (!sign_hash(k, hashalgo, hash, Oct(), left, fake)) continue;
		// body: 3, 5, type, time, key id, pkalgo, hashalgo, left, MPIs (taken from the V4-style packet made above: after 2 octets of unhashed length and `left`)
		size_t hl = fake.size() > 193 ? 3 : 2; Oct mpis(fake.begin() + hl + 4, fake.end()), body; body.push_back(3); body.push_back(5); body.insert(body.end(), tr.begin(), tr.end());
		for (int i = 0; i < 8; i++) body.push_back((unsigned char)g.below(256)); body.push_back((unsigned char)k.pkalgo); body.push_back((unsigned char)hashalgo); body.insert(body.end(), left.begin(), left.end()); body.insert(body.end(), mpis.begin(), mpis.end());
		PGP::PacketTagEncode(2, sp); PGP::PacketLengthEncode(body.size(), sp); sp.insert(sp.end(), body.begin(), body.end());
		prop_ctx(k, 3, type, hashalgo, doc.size());
		bool ok = sig_case(sp, k, V_DATA, doc, Oct(), Lit(), "honest"); 
		std::string orig_input = g_hash_input; bool orig_hashed = g_hashed;
		for (size_t pos : flip_positions(g, sp.size(), thorough ? 100000 : 0, 16)) { Oct c = sp; c[pos] ^= (unsigned char)(1u << g.below(8));
			// V3 body: version, 5, [type, time(4)] hashed, key ID(8), public-key algorithm, hash algorithm, left(2), MPIs
			size_t h3 = sp.size() > 193 ? 3 : 2, bp = pos - h3; std::string where = pos < h3 ? "header" : bp < 2 ? "v3-fixed" : bp < 7 ? "hashed" : bp < 15 ? "unhashed:keyid" : bp == 15 ? "unhashed:pkalgo" : bp == 16 ? "v3-hashalgo" : bp < 19 ? "unhashed:left16" : (bp < 21 ? "mpilen" : "value");
			std::string t = "flip:sig-" + where + ":" + std::to_string(pos); sig_case(c, k, V_DATA, doc, Oct(), Lit(), t);
			if (orig_hashed) sigflip_line(V_DATA, doc, Oct(), Lit(), sp, c, h3, pos, pos >= h3 + 2 && pos < h3 + 7, orig_input, where); }
		{ Oct c = doc; c[g.below(c.size())] ^= 0x20; bool x = sig_case(sp, k, V_DATA, c, Oct(), Lit(), "flip:doc:0");  }
		{ bool x = sig_case(sp, k, V_UAT, doc, doc, Lit(), "v3:uat");  }
	}
	// ================================================= whole key blocks: every octet of key packet, user ID packet and self-signature
	for (size_t ki = 0; ki < 3; ki++) if (thorough || ki == o.seed % 3) keyblock_cases(g, keys[ki], keys[ki].qbits > 256 ? 10 : 8, thorough || ki != 0 , now);
	sigmerge_cases(g, thorough ? 2000 : 150 + o.cases);
	unhashed_cases(g, keys, now, thorough, o.seed);
	filehash_cases(g);
	emit("prop.pgpmsg sig-made " + std::to_string(made) + " => ok");
	return 0;
}

static int drv_pgpmsg(const Opts &o)
{
	SplitMix g(o.seed ^ 0x7067706d7367ULL);
	std::string part = o.val("--part", "all");
	int rc = 0;
	if (o.has("--bigchunk") || (o.tier == "thorough" && (part == "all" || part == "sym"))) {
		// chunk size octet 17 (8 MiB chunks, two of them): encryption and decryption keep whole chunks in memory; verdicts only
		Oct in(((size_t)64 << 17) + 10), iv, out, back, ad = aead_ad(9, 2, 17); for (size_t i = 0; i < in.size(); i += 4099) in[i] = (unsigned char)g.below(256);
		SOct k = sec(rnd_octets(g, 32));
		gcry_error_t e = PGP::SymmetricEncryptAEAD(in, k, TMCG_OPENPGP_SKALGO_AES256, TMCG_OPENPGP_AEADALGO_OCB, 17, ad, 0, iv, out);
		gcry_error_t d = e ? e : PGP::SymmetricDecryptAEAD(out, k, TMCG_OPENPGP_SKALGO_AES256, TMCG_OPENPGP_AEADALGO_OCB, 17, iv, ad, 0, back);
		prop_sym("aead", 9, "ocb", 17, in.size(), e ? "honest-enc-failed" : "honest:bigchunk", !e && !d, back == in);
		if (!e) { Oct c = out; c[g.below(c.size())] ^= 0x04; Oct b2; gcry_error_t x = PGP::SymmetricDecryptAEAD(c, k, TMCG_OPENPGP_SKALGO_AES256, TMCG_OPENPGP_AEADALGO_OCB, 17, iv, ad, 0, b2); prop_sym("aead", 9, "ocb", 17, in.size(), "flip:ct:bigchunk", !x, b2 == in);
			Oct c2(out.begin(), out.end() - 16); Oct b3; gcry_error_t y = PGP::SymmetricDecryptAEAD(c2, k, TMCG_OPENPGP_SKALGO_AES256, TMCG_OPENPGP_AEADALGO_OCB, 17, iv, ad, 0, b3); prop_sym("aead", 9, "ocb", 17, in.size(), "drop-final:bigchunk", !y, b3 == in); }
	}
	if (part == "all" || part == "sym") rc |= drv_pgpmsg_sym(o, g);
	if (part == "all" || part == "sig") rc |= drv_pgpmsg_sig(o, g);
	if (part == "all" || part == "pk") pk_cases(g);
	return rc;
}
REGISTER_DRIVER("pgpmsg", drv_pgpmsg);
