// C06: CheckGroup / CheckElement of every class against the model, on valid parameter sets and
// on single-field corruptions of them.
#include "common.hh"
#include <memory>

struct GP { Z p, q, k, g, h; std::vector<Z> gs; };

static std::string oracle_log2()
{
	std::vector<std::string> qs; qs.swap(hashlog.shash_inputs); hashlog.raw.clear();
	bool was = hashlog.log; hashlog.log = false;
	std::string s = "[";
	for (size_t i = 0; i < qs.size(); i++) { Z a; tmcg_mpz_shash(a, qs[i]); if (i) s += ","; s += hexs(qs[i]) + ":" + a.str(); }
	hashlog.log = was;
	return s + "]";
}

// canonical generator, computed independently of the library's loop (same specification)
static void canonical_g(mpz_ptr g, mpz_srcptr p, mpz_srcptr q, mpz_srcptr k)
{
	bool was = hashlog.log; hashlog.log = false;
	std::stringstream U; U << "LibTMCG|" << p << "|" << q << "|ggen|";
	Z foo, pm1; mpz_sub_ui(pm1, p, 1);
	for (;;) {
		tmcg_mpz_shash(foo, U.str()); mpz_powm(g, foo, k, p); U << g << "|"; mpz_powm(foo, g, q, p);
		if (mpz_cmp_ui(g, 0) && mpz_cmp_ui(g, 1) && mpz_cmp(g, pm1) && !mpz_cmp_ui(foo, 1)) break;
	}
	hashlog.log = was;
}

static std::string lines(std::initializer_list<mpz_srcptr> v) { std::ostringstream o; for (auto x : v) o << x << std::endl; return o.str(); }

// run CheckGroup of class `cls` on parameters P; returns "0"/"1"/throw
static std::string run_check(const std::string &cls, int variant, unsigned fs, unsigned gsz, bool can, unsigned es, GP &P)
{
	return guarded([&]() -> std::string {
		bool r;
		if (cls == "D") { std::istringstream in(lines({P.p, P.q, P.g, P.k})); BarnettSmartVTMF_dlog o(in, fs, gsz, can, false); r = o.CheckGroup(); }
		else if (cls == "QR") { std::istringstream in(lines({P.p, P.q, P.g, P.k})); BarnettSmartVTMF_dlog_GroupQR o(in, fs, es); mpz_set(P.g, o.g); r = o.CheckGroup(); }
		else if (cls == "P") {
			std::ostringstream t; t << P.p.v << std::endl << P.q.v << std::endl << P.k.v << std::endl << P.h.v << std::endl; for (auto &x : P.gs) t << x.v << std::endl;
			std::istringstream in(t.str());
			if (variant == 0) { PedersenCommitmentScheme o(P.gs.size(), in, fs, gsz); r = o.CheckGroup(); }
			else { GrothSKC o(P.gs.size(), in, TMCG_GROTH_L_E, fs, gsz); r = o.CheckGroup(); }
		}
		else if (cls == "PT") { std::istringstream in(lines({P.p, P.q, P.k, P.g, P.h})); PedersenTrapdoorCommitmentScheme o(in, fs, gsz); r = o.CheckGroup(); }
		else if (cls == "G") {
			if (variant == 0) { std::istringstream in(lines({P.p, P.q, P.g, P.h})); HooghSchoenmakersSkoricVillegasVRHE o(in, fs, gsz); r = o.CheckGroup(); }
			else if (variant == 1) { JareckiLysyanskayaRVSS o(3, 1, P.p, P.q, P.g, P.h, fs, gsz); r = o.CheckGroup(); }
			else { JareckiLysyanskayaEDCF o(3, 1, P.p, P.q, P.g, P.h, fs, gsz); r = o.CheckGroup(); }
		}
		else if (cls == "R") {
			if (variant == 0) { GennaroJareckiKrawczykRabinDKG o(3, 1, 0, P.p, P.q, P.g, P.h, fs, gsz, can, false, ""); r = o.CheckGroup(); }
			else if (variant == 1) { CanettiGennaroJareckiKrawczykRabinRVSS o(3, 1, 0, 1, P.p, P.q, P.g, P.h, fs, gsz, can, false, ""); r = o.CheckGroup(); }
			else if (variant == 2) { CanettiGennaroJareckiKrawczykRabinZVSS o(3, 1, 0, 1, P.p, P.q, P.g, P.h, fs, gsz, can, false, ""); r = o.CheckGroup(); }
			else if (variant == 3) { GennaroJareckiKrawczykRabinNTS o(3, 1, 0, P.p, P.q, P.g, P.h, fs, gsz, can, false); r = o.CheckGroup(); }
			else if (variant == 4) { CanettiGennaroJareckiKrawczykRabinDKG o(3, 1, 0, P.p, P.q, P.g, P.h, fs, gsz, can, false, ""); r = o.CheckGroup(); }
			else { CanettiGennaroJareckiKrawczykRabinDSS o(3, 1, 0, P.p, P.q, P.g, P.h, fs, gsz, can, false); r = o.CheckGroup(); }
		}
		else if (cls == "PVSS") { PedersenVSS o(3, 1, 0, P.p, P.q, P.g, P.h, fs, gsz, false, ""); r = o.CheckGroup(); }
		else { std::istringstream in(lines({P.p, P.q, P.g})); NaorPinkasEOTP o(in, fs, gsz); r = o.CheckGroup(); }
		return r ? "1" : "0";
	});
}

static void emit_check(const std::string &cls, int variant, unsigned fs, unsigned gsz, bool can, unsigned es, GP P, const std::string &tag)
{
	if (cls == "QR") { gsz = fs - 1; can = true; } // the QR class fixes G_size = fieldsize - 1 and canonical_g = true itself
	oracle_log2();
	std::string out = run_check(cls, variant, fs, gsz, can, es, P);
	std::string log = oracle_log2();
	if (!out.compare(0, 6, "throw:") && mpz_sgn(P.p) == 0) return; // constructors refuse a zero modulus (finding F4): CheckGroup is never reached
	int pp = mpz_probab_prime_p(P.p, TMCG_MR_ITERATIONS) ? 1 : 0, qp = mpz_probab_prime_p(P.q, TMCG_MR_ITERATIONS) ? 1 : 0;
	emit("grp.check " + cls + " " + std::to_string(fs) + " " + std::to_string(gsz) + " " + (can ? "1" : "0") + " " + std::to_string(es) + " " +
		P.p.str() + " " + P.q.str() + " " + P.k.str() + " " + P.g.str() + " " + P.h.str() + " " + zlist(P.gs.begin(), P.gs.end()) + " " +
		std::to_string(pp) + " " + std::to_string(qp) + " " + log + " tag:" + tag + ":v" + std::to_string(variant) + " => " + out);
}

// index of the generator to corrupt: the last ones as often as a random one (the per-generator loops have bounds of their own)
static size_t pick_idx(SplitMix &g, size_t n) { switch (g.below(4)) { case 0: return n - 1; case 1: return n >= 2 ? n - 2 : 0; case 2: return 0; default: return g.below(n); } }

static int drv_groups(const Opts &o)
{
	SplitMix g(o.seed ^ 0x67727073);
	bool thorough = (o.tier == "thorough");
	hashlog.log = true;
	struct C { const char *cls; int variants; } classes[] = { {"D", 1}, {"QR", 1}, {"P", 2}, {"PT", 1}, {"G", 3}, {"R", 6}, {"PVSS", 1}, {"NP", 1} };
	// ---- every run: the RETRY branch of the verifiable generator derivation.  At 64 bits and more the first hash candidate is
	// always usable, so the second round of the loop (candidate appended to the hash input) is never entered; in tiny Schnorr
	// groups the first candidate H(...)^k is 0, 1 or p-1 for about 3 of q groups.  All such groups with q <= 31, k <= 60 (and a
	// few with a usable first candidate), every class / variant that checks a derived generator: the derived generator must
	// be accepted and other elements of order q refused (seed C06c: the checker of one class hashes the claimed g in the retry).
	if (!o.has("--no-tiny")) {
		static const unsigned qs[] = { 5, 7, 11, 13, 17, 19, 23, 29, 31 }; unsigned plain = 0;
		for (unsigned q : qs) for (unsigned k = 2; k <= 60; k += 2) {
			Z zp; mpz_set_ui(zp, (unsigned long)q * k + 1); if (!mpz_probab_prime_p(zp, 30)) continue;
			Z zq, zk, c1, pm1; mpz_set_ui(zq, q); mpz_set_ui(zk, k); mpz_sub_ui(pm1, zp, 1); Z gq; mpz_gcd(gq, zq, zk); if (mpz_cmp_ui(gq, 1)) continue;
			{ bool was = hashlog.log; hashlog.log = false; std::stringstream U; U << "LibTMCG|" << zp.v << "|" << zq.v << "|ggen|"; Z foo; tmcg_mpz_shash(foo, U.str()); mpz_powm(c1, foo, zk, zp); hashlog.log = was; }
			bool retry = !mpz_cmp_ui(c1, 0) || !mpz_cmp_ui(c1, 1) || !mpz_cmp(c1, pm1);
			if (!retry && (plain >= 4 || ((q + k + o.seed) % 7))) continue; if (!retry) plain++;
			GP P; P.p = zp; P.q = zq; P.k = zk; canonical_g(P.g, P.p, P.q, P.k);
			// h: another element of order q
			Z e; mpz_set_ui(e, 2); do { mpz_powm(P.h, P.g, e, P.p); mpz_add_ui(e, e, 1); } while (!mpz_cmp_ui(P.h, 1) || !mpz_cmp(P.h, P.g));
			unsigned fs = mpz_sizeinbase(P.p, 2), gsz = mpz_sizeinbase(P.q, 2);
			struct V { const char *cls; int variant; } vs[] = { {"D", 0}, {"R", 0}, {"R", 1}, {"R", 2}, {"R", 3}, {"R", 4}, {"R", 5}, {"PVSS", 0} };
			for (auto &v : vs) {
				std::string tg = retry ? "tiny-retry" : "tiny";
				emit_check(v.cls, v.variant, fs, gsz, true, 0, P, tg + ":valid");
				for (unsigned j = 2; j <= 4 && j < q; j++) { GP Q = P; Z ej; mpz_set_ui(ej, j); mpz_powm(Q.g, P.g, ej, P.p); if (!mpz_cmp(Q.g, Q.h)) continue; emit_check(v.cls, v.variant, fs, gsz, true, 0, Q, tg + ":g-other-element"); }
			}
		}
	}
	for (uint64_t c = 0; c < o.cases; c++) {
		const C &K = classes[c % 8];
		std::string cls = K.cls; int variant = g.below(K.variants);
		unsigned pbits = (g.below(thorough ? 6 : 12) == 0) ? 512 : (g.coin() ? 64 : 128), qbits = pbits / 2 < 160 ? pbits / 2 : 160;
		bool can = (cls == "D" || cls == "R") ? g.coin() : false; unsigned es = 0;
		GP P;
		if (cls == "QR") {
			for (;;) { gen_bits(P.q, g, pbits - 1); mpz_setbit(P.q, pbits - 2); mpz_setbit(P.q, 0); mpz_setbit(P.q, 1); mpz_nextprime(P.q, P.q); mpz_mul_2exp(P.p, P.q, 1); mpz_add_ui(P.p, P.p, 1);
				if (mpz_sizeinbase(P.p, 2) == pbits && mpz_congruent_ui_p(P.p, 7, 8) && mpz_probab_prime_p(P.p, 30)) break; }
			mpz_set_ui(P.g, 2); mpz_set_ui(P.k, 2); es = pbits / 2; qbits = pbits - 1;
		} else {
			SmallGroup sg = make_group(g, pbits, qbits); P.p = sg.p; P.q = sg.q; P.k = sg.k; P.g = sg.g;
			if (can || cls == "PVSS") canonical_g(P.g, P.p, P.q, P.k);
			Z e; do { gen_below(e, g, P.q); mpz_powm(P.h, sg.g, e, P.p); } while (!mpz_cmp_ui(P.h, 1) || !mpz_cmp(P.h, P.g));
			if (cls == "P") { size_t n = 1 + g.below(4); if (g.below(4) == 0) n = TMCG_MAX_FPOWM_N + 1 + g.below(6); /* more generators than fast-exponentiation tables */ for (size_t i = 0; i < n; i++) { Z x; bool dup; do { gen_below(e, g, P.q); mpz_powm(x, sg.g, e, P.p); dup = !mpz_cmp_ui(x, 1) || !mpz_cmp(x, P.h); for (auto &y : P.gs) if (!mpz_cmp(x, y)) dup = true; } while (dup); P.gs.push_back(x); } }
		}
		unsigned fs = pbits, gsz = qbits;
		emit_check(cls, variant, fs, gsz, can, es, P, "valid");
		// ---- single-field corruptions
		int nm = thorough ? 26 : 8;
		for (int m = 0; m < nm; m++) {
			GP Q = P; std::string tag; unsigned fs2 = fs, gs2 = gsz; bool can2 = can; unsigned es2 = es;
			int how = g.below(30); if (cls == "P" && P.gs.size() > 4 && g.coin()) how = 20 + g.below(4);
			Z pm1; mpz_sub_ui(pm1, P.p, 1);
			switch (how) {
			case 0: mpz_add_ui(Q.p, Q.p, 2); tag = "p+2"; break;
			case 1: { // composite p of the right form: another cofactor
				Z k2; mpz_set(k2, P.k); do { mpz_add_ui(k2, k2, 2); mpz_mul(Q.p, P.q, k2); mpz_add_ui(Q.p, Q.p, 1); } while (mpz_probab_prime_p(Q.p, 10)); mpz_set(Q.k, k2); tag = "composite-p"; } break;
			case 2: { // composite q: q' = q * 3, k' so that p' = q'k'+1 is prime again
				mpz_mul_ui(Q.q, P.q, 3); Z k2(2L); for (;;) { mpz_mul(Q.p, Q.q, k2); mpz_add_ui(Q.p, Q.p, 1); if (mpz_probab_prime_p(Q.p, 10)) break; mpz_add_ui(k2, k2, 2); } mpz_set(Q.k, k2); mpz_powm(Q.g, P.g, Q.k, Q.p); if (mpz_cmp_ui(Q.g, 1) <= 0) mpz_set_ui(Q.g, 4); tag = "composite-q"; } break;
			case 3: mpz_neg(Q.q, Q.q); mpz_neg(Q.k, Q.k); tag = "negative-q"; break;
			case 4: mpz_set_ui(Q.q, 0); tag = "q=0"; break;
			case 5: mpz_add_ui(Q.k, Q.k, 1); tag = "k+1"; break;
			case 6: { // k and q share a factor: p' = q*(q*j)+1 prime
				Z j(2L); for (;;) { mpz_mul(Q.k, P.q, j); mpz_mul(Q.p, P.q, Q.k); mpz_add_ui(Q.p, Q.p, 1); if (mpz_probab_prime_p(Q.p, 10)) break; mpz_add_ui(j, j, 2); }
				Z e; gen_below(e, g, Q.p); mpz_powm(Q.g, e, Q.k, Q.p); mpz_powm(Q.h, Q.g, Q.q, Q.p); mpz_powm_ui(Q.h, Q.g, 7, Q.p); fs2 = 1; tag = "gcd(q,k)!=1"; } break;
			case 7: mpz_set_ui(Q.g, 0); tag = "g=0"; break;
			case 8: mpz_set_ui(Q.g, 1); tag = "g=1"; break;
			case 9: mpz_set(Q.g, pm1); tag = "g=p-1"; break;
			case 10: mpz_add(Q.g, Q.g, Q.p); tag = "g+p"; break;
			case 11: { Z e; do { gen_below(e, g, P.p); mpz_powm(Q.g, e, P.q, P.p); } while (mpz_cmp_ui(Q.g, 1) <= 0); tag = "g-wrong-order"; } break; // e^q has order dividing k
			case 12: mpz_set(Q.g, Q.h); tag = "g=h"; break;
			case 13: mpz_set_ui(Q.h, 0); tag = "h=0"; break;
			case 14: mpz_set_ui(Q.h, 1); tag = "h=1"; break;
			case 15: mpz_set(Q.h, pm1); tag = "h=p-1"; break;
			case 16: { Z e; do { gen_below(e, g, P.p); mpz_powm(Q.h, e, P.q, P.p); } while (mpz_cmp_ui(Q.h, 1) <= 0); tag = "h-wrong-order"; } break;
			case 17: { Z e; gen_below(e, g, P.q); mpz_add_ui(e, e, 2); mpz_powm(Q.g, P.g, e, P.p); tag = "g-other-element"; } break; // still order q: breaks only the canonical derivation
			case 18: fs2 = fs + 1; tag = "fsize+1"; break;
			case 19: gs2 = gsz + 1; tag = "gsize+1"; break;
			case 20: if (!Q.gs.empty()) { mpz_set(Q.gs[pick_idx(g, Q.gs.size())], Q.h); } tag = "gi=h"; break;
			case 21: if (Q.gs.size() >= 2) { size_t i = pick_idx(g, Q.gs.size()), j = pick_idx(g, Q.gs.size()); if (i == j) j = (i + 1) % Q.gs.size(); mpz_set(Q.gs[i], Q.gs[j]); } tag = "gi=gj"; break;
			case 22: if (!Q.gs.empty()) { mpz_set_ui(Q.gs[pick_idx(g, Q.gs.size())], g.below(2)); } tag = "gi=0/1"; break;
			case 23: if (!Q.gs.empty()) { size_t i = pick_idx(g, Q.gs.size()); Z e; do { gen_below(e, g, P.p); mpz_powm(Q.gs[i], e, P.q, P.p); } while (mpz_cmp_ui(Q.gs[i], 1) <= 0); } tag = "gi-wrong-order"; break;
			case 24: mpz_neg(Q.g, Q.g); tag = "g-negative"; break;
			case 25: mpz_sub(Q.g, Q.p, Q.g); tag = "p-g"; break;
			case 26: mpz_set_ui(Q.p, 0); tag = "p=0"; break;
			case 27: mpz_neg(Q.p, Q.p); tag = "p-negative"; break;
			case 28: es2 = es + 1; can2 = !can; tag = "flag-flip"; break; // other canonical flag / exponent size: still decided by the model
			default: mpz_mul_ui(Q.q, Q.q, 2); tag = "q*2"; break;
			}
			emit_check(cls, variant, fs2, gs2, can2, es2, Q, tag);
		}
		// ---- every run: each per-generator test at the last generator and just beyond the table limit
		if (cls == "P" && P.gs.size() > TMCG_MAX_FPOWM_N) {
			size_t idxs[3] = { P.gs.size() - 1, TMCG_MAX_FPOWM_N, TMCG_MAX_FPOWM_N - 1 };
			for (size_t i : idxs) {
				{ GP Q = P; Z e; do { gen_below(e, g, P.p); mpz_powm(Q.gs[i], e, P.q, P.p); } while (mpz_cmp_ui(Q.gs[i], 1) <= 0); emit_check(cls, variant, fs, gsz, can, es, Q, "gi-wrong-order@" + std::to_string(i)); }
				{ GP Q = P; mpz_set(Q.gs[i], Q.gs[0]); emit_check(cls, variant, fs, gsz, can, es, Q, "gi=g0@" + std::to_string(i)); }
				{ GP Q = P; mpz_set(Q.gs[i], Q.h); emit_check(cls, variant, fs, gsz, can, es, Q, "gi=h@" + std::to_string(i)); }
				{ GP Q = P; mpz_set_ui(Q.gs[i], 1); emit_check(cls, variant, fs, gsz, can, es, Q, "gi=1@" + std::to_string(i)); }
				{ GP Q = P; mpz_sub_ui(Q.gs[i], P.p, 1); emit_check(cls, variant, fs, gsz, can, es, Q, "gi=p-1@" + std::to_string(i)); }
			}
		}
		// ---- CheckElement around the valid group: exhaustive for tiny values, group elements, non-elements
		{
			bool qr = (cls == "QR");
			std::istringstream in(lines({P.p, P.q, P.g, P.k}));
			std::unique_ptr<BarnettSmartVTMF_dlog> v(qr ? (BarnettSmartVTMF_dlog*)new BarnettSmartVTMF_dlog_GroupQR(in, pbits, es) : new BarnettSmartVTMF_dlog(in, pbits, qbits, false, true));
			for (int t = 0; t < 12; t++) {
				Z a;
				switch (t) { case 0: mpz_set_si(a, -2 + (long)g.below(6)); break; case 1: mpz_sub_ui(a, P.p, g.below(3)); break; case 2: mpz_add_ui(a, P.p, g.below(3)); break;
					case 3: { Z e; gen_below(e, g, P.q); mpz_powm(a, v->g, e, P.p); } break; case 4: { Z e; gen_below(e, g, P.q); mpz_powm(a, v->g, e, P.p); mpz_sub(a, P.p, a); } break;
					case 5: { Z e; gen_below(e, g, P.q); mpz_powm(a, v->g, e, P.p); mpz_add(a, a, P.p); } break; default: gen_below(a, g, P.p); break; }
				bool r = v->CheckElement(a);
				emit(std::string("grp.elem ") + (qr ? "1" : "0") + " " + P.p.str() + " " + P.q.str() + " " + a.str() + " => " + (r ? "1" : "0"));
			}
		}
	}
	// exhaustive element checks over -2..p+2 for a few tiny groups
	{
		long tiny[][2] = { {23, 11}, {47, 23}, {59, 29}, {83, 41}, {29, 7}, {43, 7}, {31, 5} };
		for (auto &t : tiny) {
			Z P(t[0]), Q(t[1]), K((t[0] - 1) / t[1]), G(2L), e; mpz_powm(G, G, K, P);
			std::istringstream in(lines({P, Q, G, K})); BarnettSmartVTMF_dlog v(in, 1, 1, false, true);
			for (long a = -2; a <= t[0] + 2; a++) { Z A(a); emit(std::string("grp.elem 0 ") + P.str() + " " + Q.str() + " " + A.str() + " => " + (v.CheckElement(A) ? "1" : "0")); }
		}
	}
	return 0;
}
REGISTER_DRIVER("groups", drv_groups);
