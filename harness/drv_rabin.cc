// C10: Rabin key operations (TMCG_SecretKey / TMCG_PublicKey / mpz_sqrtm).
//
// Area "rabin".  One trace line per library call; the oracle answers a call used are attached
// to its line as a log `[h:<key>:<hexdigest>,g:<osize>:<key>:<hexbytes>,...]`.
//
// Oracle logging (decision): the QUERIES are taken from the interposed gcry_md_hash_buffer
// (hashlog: the `g` queries are recognised by their "x ‖ libTMCG00 ‖ x" first block, the `h`
// queries of sign/verify are the raw primary-digest calls on `data ‖ <K0 bytes>`), i.e. they are
// exactly what the library asked; the ANSWERS are recomputed with tmcg_h / tmcg_g (logging off),
// with the output size the calling routine is known to use.  The model replays the log and
// reports `oracle-mismatch` when it asks something that is not in it.
// A query key is the hex text of the input, or `#<len>.<fnv1a64>` for inputs above 96 bytes.
//
// Line formats (all texts/byte strings hex, `-` = empty):
//   rabin.sqrtmp a p [raw draws] => root consumed            tmcg_mpz_sqrtmp_r
//   rabin.sqrtmp.det a p => root                              tmcg_mpz_sqrtmp
//   rabin.qrmn a p q => 0/1
//   rabin.sqrtmn.r a p q n [raw draws] => root consumed       tmcg_mpz_sqrtmn_r
//   rabin.sqrtmn.det a p q n => root                          tmcg_mpz_sqrtmn
//   rabin.sqrtmn.fast a p q n up vq pa1d4 qa1d4 => root
//   rabin.sqrtmn.fastall a p q n up vq pa1d4 qa1d4 => [r1,r2,r3,r4]
//   rabin.precompute m y p q => y1 m1pq up vq pa1d4 qa1d4 | reject
//   rabin.selfid sig => text ; rabin.keyid sig size => text ; rabin.keyidsize text => n ; rabin.sigid text => text
//   rabin.import.pub text => m y <key of re-exported text> | reject
//   rabin.import.sec text => m y p q <key of re-exported text> | reject      (import includes precompute)
//   rabin.sign m p q ownsig data [r,...] [words] olog => sigtext
//   rabin.verify m ownsig data sigtext olog => 0/1
//   rabin.encrypt m ownsig value r olog => enctext
//   rabin.decrypt m p q ownsig enctext olog => value | reject
//   rabin.check pubkeytext pp fuel olog => 0/1 | reject(import failed)       pp = mpz_probab_prime_p(m,500) != 0
//   rabin.generate name email keysize nizk fuel [coin byte strings] [cand:0/1,…] olog => secret key text
//        every key of a run is generated once by TMCG_SecretKey(name, email, keysize, nizk); the coins are the byte
//        strings libgcrypt served in order, the second list the answers of mpz_probab_prime_p per candidate
// Model-independent records for the Python predicate of C10 (passed through by the Lean driver):
//   prop.rabin sign bits=L len=N tag:honest => 0/1                     verdict of verify on the fresh signature
//   prop.rabin verify bits=L <tag> => 0/1                             one per rabin.verify line
//   prop.rabin decrypt bits=L expect=<value|none> <tag> => value|reject   one per rabin.decrypt line
//   prop.rabin check nizk=0/1 <tag> => 0/1|reject                     one per rabin.check line
//   prop.rabin boundary enc|sig key=… <tag> => 1/0       deterministic boundary cases of every run (leading zero octets of the
//                                                         encoded/padded value, extreme top octets): tag:honest:leadzero1 … tag:honest:topff
//   prop.rabin roundtrip value=V => result ; prop.rabin sqrtmp / sqrtmn … (root² = a counts)
//   expected verdicts: tag:honest, tag:equiv:*, tag:short:* accept (decrypt: result = expect); tag:mut:*, tag:cheat:*,
//   tag:guard:* refuse; tag:resigned:* are judged individually (the holder of the secret key re-signed the key).
#include "common.hh"
#include <memory>
#include <set>
#include <map>
#include <dlfcn.h>

// mpz_probab_prime_p is interposed (the executable's definition pre-empts libgmp's, the real one is reached through
// dlsym(RTLD_NEXT)): while `primelog.on`, every call is recorded as (candidate, answer) — the primality oracle of
// rabin.generate lines.
// (shared with drv_primegen.cc, which declares the same two structs and `extern PrimeLog primelog`)
struct PrimeCall { std::string n; int reps; int ans; };
struct PrimeLog { bool on = false; std::vector<PrimeCall> calls; };
PrimeLog primelog;
extern "C" int mpz_probab_prime_p(mpz_srcptr n, int reps) __GMP_NOTHROW
{
	typedef int (*fn_t)(mpz_srcptr, int);
	static fn_t real = (fn_t)dlsym(RTLD_NEXT, "__gmpz_probab_prime_p");
	int r = real(n, reps);
	if (primelog.on) { PrimeCall c; c.n = zs(n); c.reps = reps; c.ans = r; primelog.calls.push_back(c); }
	return r;
}

static const size_t MD = 32, K0 = TMCG_PRAB_K0, S0 = TMCG_SAEP_S0;

static uint64_t fnv64(const std::string &s)
{
	uint64_t h = 14695981039346656037ULL;
	for (unsigned char c : s) { h ^= c; h *= 1099511628211ULL; }
	return h;
}
static std::string okey(const std::string &x)
{
	if (x.size() <= 96) return hexs(x);
	char b[64]; snprintf(b, sizeof b, "#%zu.%016llx", x.size(), (unsigned long long)fnv64(x)); return b;
}
static std::string Hq(const std::string &x)
{
	unsigned char d[MD]; tmcg_h(d, (const unsigned char*)x.data(), x.size()); return std::string((char*)d, MD);
}
static std::string Gq(const std::string &x, size_t n)
{
	// answers are cached: the NIZK queries of `check` repeat across the mutated variants of one key
	static std::map<std::string, std::string> cache;
	std::string ck = std::to_string(n) + ":" + okey(x) + ":" + std::to_string(x.size());
	auto it = cache.find(ck); if (it != cache.end()) return it->second;
	std::string ans;
	{ std::vector<unsigned char> d(n + 1); tmcg_g(d.data(), n, (const unsigned char*)x.data(), x.size()); ans.assign((char*)d.data(), n); }
	if (cache.size() < 200000) cache[ck] = ans;
	return ans;
}
static void cap_start() { hashlog.clear(); hashlog.log = true; coins.take(); coins.log = true; }
static size_t last_gqueries = 0;
// Extra queries (input, osize) / h inputs appended to the next cap_olog: the answers a run of the ORIGINAL specification
// would need, whether or not the library asked them — so a library that skips a step (e.g. a root in decrypt)
// cannot hide behind an incomplete log: the model then finds its query answered and disagrees.
static std::vector<std::pair<std::string, size_t> > extra_g;
static std::vector<std::string> extra_h;
static std::string cap_olog(const std::function<size_t(const std::string&)> &gsize, const std::string *hdata)
{
	hashlog.log = false;
	std::vector<std::string> gq; gq.swap(hashlog.shash_inputs);
	std::vector<std::pair<int, std::string> > raw; raw.swap(hashlog.raw);
	last_gqueries = gq.size();
	std::string s = "["; std::set<std::string> seen;
	auto add = [&](const std::string &e) { if (s.size() > 1) s += ","; s += e; };
	if (hdata) for (auto &r : raw)
		if (r.first == TMCG_GCRY_MD_ALGO && r.second.size() == hdata->size() + K0 && !r.second.compare(0, hdata->size(), *hdata)) {
			std::string k = "h:" + okey(r.second); if (seen.insert(k).second) add(k + ":" + hexs(Hq(r.second))); }
	for (auto &x : gq) {
		size_t n = gsize(x); std::string k = "g:" + std::to_string(n) + ":" + okey(x);
		if (seen.insert(k).second) add(k + ":" + hexs(Gq(x, n))); }
	for (auto &x : extra_h) { std::string k = "h:" + okey(x); if (seen.insert(k).second) add(k + ":" + hexs(Hq(x))); }
	for (auto &x : extra_g) { std::string k = "g:" + std::to_string(x.second) + ":" + okey(x.first); if (seen.insert(k).second) add(k + ":" + hexs(Gq(x.first, x.second))); }
	extra_g.clear(); extra_h.clear();
	return s + "]";
}
static std::string b2s(bool b) { return b ? "1" : "0"; }
static std::string s62(mpz_srcptr v) { std::ostringstream o; o << v; return o.str(); }
static std::string raws(const std::vector<CoinLogEntry> &es)
{
	std::string s = "[";
	for (size_t i = 0; i < es.size(); i++) { Z v; mpz_import(v, es[i].bytes.size(), 1, 1, 1, 0, es[i].bytes.data()); if (i) s += ","; s += v.str(); }
	return s + "]";
}

// ------------------------------------------------------------------ square roots
static bool is_prime_small(unsigned n) { if (n < 2) return false; for (unsigned d = 2; d * d <= n; d++) if (n % d == 0) return false; return true; }

static void sqrt_lines(const Opts &o, bool thorough)
{
	// exhaustive for all primes below 2000 in the thorough tier, below 1000 in the quick tier (run-time budget)
	unsigned lim = (unsigned)strtoul(o.val("--sqrt-primes", thorough ? "2000" : "1000").c_str(), NULL, 10);
	for (unsigned p = 3; p < lim; p++) {
		if (!is_prime_small(p)) continue;
		Z P((long)p); unsigned nres = 0, okr = 0, okd = 0;
		for (unsigned a = 0; a < p; a++) {
			Z A((long)a), r;
			int jac = mpz_jacobi(A, P);
			// residues for every prime; zero and the non-residues (garbage in, but the code path is defined) for small primes
			if (jac != 1 && p >= 200 && a != 0) continue;
			std::string tag = (a == 0) ? "tag:zero" : (jac == 1 ? "tag:residue" : "tag:nonresidue");
			coins.take(); coins.log = true;
			std::string out = guarded([&]() { tmcg_mpz_sqrtmp_r(r, A, P); return r.str(); });
			std::vector<CoinLogEntry> es = coins.take();
			emit("rabin.sqrtmp " + A.str() + " " + P.str() + " " + raws(es) + " " + tag + " => " + out + (out[0] == 't' ? "" : " " + std::to_string(es.size())));
			Z r2; std::string out2 = guarded([&]() { tmcg_mpz_sqrtmp(r2, A, P); return r2.str(); });
			emit("rabin.sqrtmp.det " + A.str() + " " + P.str() + " " + tag + " => " + out2);
			if (jac == 1) { nres++; Z t; mpz_mul(t, r, r); mpz_mod(t, t, P); if (!mpz_cmp(t, A)) okr++; mpz_mul(t, r2, r2); mpz_mod(t, t, P); if (!mpz_cmp(t, A)) okd++; }
		}
		emit("prop.rabin sqrtmp p=" + P.str() + " residues=" + std::to_string(nres) + " => ok_r=" + std::to_string(okr) + " ok_det=" + std::to_string(okd));
	}
	// products of two distinct odd primes below 60
	std::vector<unsigned> ps; for (unsigned p = 3; p < 60; p++) if (is_prime_small(p)) ps.push_back(p);
	for (unsigned p : ps) for (unsigned q : ps) {
		if (p == q) continue;
		bool blum = (p % 4 == 3) && (q % 4 == 3);
		Z P((long)p), Q((long)q), N((long)(p * q)), g, u, v, up, vq, pa, qa;
		mpz_gcdext(g, u, v, P, Q); mpz_mul(up, u, P); mpz_mul(vq, v, Q);
		mpz_add_ui(pa, P, 1); mpz_fdiv_q_2exp(pa, pa, 2); mpz_add_ui(qa, Q, 1); mpz_fdiv_q_2exp(qa, qa, 2);
		std::string pqn = P.str() + " " + Q.str() + " " + N.str();
		std::string pre = pqn + " " + up.str() + " " + vq.str() + " " + pa.str() + " " + qa.str();
		unsigned nres = 0, okall = 0;
		// precompute on a key object with these primes (y = 2 .. smallest with (y/m)=1 that is no residue, as generate does)
		{
			TMCG_SecretKey sk; mpz_set(sk.p, P); mpz_set(sk.q, Q); mpz_set(sk.m, N); mpz_set_ui(sk.y, 1);
			do mpz_add_ui(sk.y, sk.y, 1); while ((mpz_jacobi(sk.y, sk.m) != 1) || tmcg_mpz_qrmn_p(sk.y, sk.p, sk.q));
			bool ok = sk.precompute();
			emit("rabin.precompute " + zs(sk.m) + " " + zs(sk.y) + " " + zs(sk.p) + " " + zs(sk.q) + " tag:small => " +
				(ok ? zs(sk.y1) + " " + zs(sk.m1pq) + " " + zs(sk.gcdext_up) + " " + zs(sk.gcdext_vq) + " " + zs(sk.pa1d4) + " " + zs(sk.qa1d4) : std::string("reject")));
		}
		for (unsigned a = 0; a < p * q; a++) {
			Z A((long)a), r;
			int isqr = tmcg_mpz_qrmn_p(A, P, Q);
			if (blum || a % 7 == 0) emit("rabin.qrmn " + A.str() + " " + P.str() + " " + Q.str() + " => " + b2s(isqr));
			if (!isqr && a != 0) continue;
			std::string tag = a ? "tag:residue" : "tag:zero";
			coins.take(); coins.log = true;
			std::string out = guarded([&]() { tmcg_mpz_sqrtmn_r(r, A, P, Q, N); return r.str(); });
			std::vector<CoinLogEntry> es = coins.take();
			emit("rabin.sqrtmn.r " + A.str() + " " + pqn + " " + raws(es) + " " + tag + " => " + out + (out[0] == 't' ? "" : " " + std::to_string(es.size())));
			Z r2; std::string out2 = guarded([&]() { tmcg_mpz_sqrtmn(r2, A, P, Q, N); return r2.str(); });
			emit("rabin.sqrtmn.det " + A.str() + " " + pqn + " " + tag + " => " + out2);
			bool good = false;
			if (a) { nres++; Z t; mpz_mul(t, r, r); mpz_mod(t, t, N); good = !mpz_cmp(t, A); mpz_mul(t, r2, r2); mpz_mod(t, t, N); good = good && !mpz_cmp(t, A); }
			if (blum && a) {
				Z f, r1, r2b, r3, r4;
				tmcg_mpz_sqrtmn_fast(f, A, P, Q, N, up, vq, pa, qa);
				emit("rabin.sqrtmn.fast " + A.str() + " " + pre + " " + tag + " => " + f.str());
				tmcg_mpz_sqrtmn_fast_all(r1, r2b, r3, r4, A, P, Q, N, up, vq, pa, qa);
				emit("rabin.sqrtmn.fastall " + A.str() + " " + pre + " " + tag + " => [" + r1.str() + "," + r2b.str() + "," + r3.str() + "," + r4.str() + "]");
				mpz_ptr rr[4] = { r1, r2b, r3, r4 };
				std::set<std::string> distinct;
				for (int i = 0; i < 4; i++) { Z t; mpz_mul(t, rr[i], rr[i]); mpz_mod(t, t, N); good = good && !mpz_cmp(t, A); distinct.insert(zs(rr[i])); }
				good = good && distinct.size() == 4 && !mpz_cmp(f, r1);
			}
			if (a && good) okall++;
		}
		emit("prop.rabin sqrtmn p=" + P.str() + " q=" + Q.str() + " blum=" + b2s(blum) + " residues=" + std::to_string(nres) + " => ok=" + std::to_string(okall));
	}
}

// ------------------------------------------------------------------ keys
struct KeyCtx {
	std::unique_ptr<TMCG_SecretKey> sk; std::unique_ptr<TMCG_PublicKey> pk; std::string label; size_t L, mnsize; bool can_enc, nizk;
	std::string mpq() const { return zs(sk->m) + " " + zs(sk->p) + " " + zs(sk->q) + " " + hexs(sk->sig); }
};
static size_t mnsize_of(mpz_srcptr m) { return mpz_sizeinbase(m, 2) / 8; }
static bool enc_ok(mpz_srcptr m) { size_t L = mpz_sizeinbase(m, 2); return (2 * S0 < L / 16) && (2 * S0 < L / 8 - 2 * S0) && (S0 < L / 32); }

static std::string pubtext(const TMCG_PublicKey &pk) { std::ostringstream o; o << pk; return o.str(); }
static std::string sectext(const TMCG_SecretKey &sk) { std::ostringstream o; o << sk; return o.str(); }
static std::string selfdata(const TMCG_PublicKey &pk)
{
	std::ostringstream d; d << pk.name << "|" << pk.email << "|" << pk.type << "|" << pk.m << "|" << pk.y << "|" << pk.nizk << "|"; return d.str();
}
// recompute the self-signature of a (modified) secret key exactly as `generate` does
static void resign(TMCG_SecretKey &sk)
{
	TMCG_PublicKey pk(sk); std::string data = selfdata(pk);
	sk.sig = "";
	sk.sig = sk.sign(data);
	std::ostringstream repl; repl << "ID" << TMCG_KEYID_SIZE << "^";
	sk.sig.replace(sk.sig.find(repl.str()), (repl.str()).length() + TMCG_KEYID_SIZE, sk.keyid());
}

// value field of "xxx|kid|value|…" as GMP reads it (false: fewer than three bars or no number)
static bool frame_value(const std::string &t, mpz_ptr v)
{
	size_t a = t.find('|'); if (a == t.npos) return false;
	size_t b = t.find('|', a + 1); if (b == t.npos) return false;
	size_t c = t.find('|', b + 1); if (c == t.npos) return false;
	return mpz_set_str(v, t.substr(b + 1, c - b - 1).c_str(), TMCG_MPZ_IO_BASE) >= 0;
}
static std::string be_bytes(mpz_srcptr x, size_t n)
{
	std::string out(n, 0); size_t cnt = 0; std::vector<unsigned char> tmp(n + 16, 0);
	mpz_export(tmp.data(), &cnt, 1, 1, 1, 0, x);
	if (cnt <= n) memcpy(&out[n - cnt], tmp.data(), cnt);
	return out;
}
// the queries PRab verification (original specification) makes for signature text `sig` on `data` under modulus m
static void spec_queries_verify(mpz_srcptr m, const std::string &data, const std::string &sig)
{
	Z v, foo; if (!mpz_sgn(m) || !frame_value(sig, v)) return;
	size_t L = mpz_sizeinbase(m, 2), mn = L / 8;
	if (L <= mn * 8 || mn <= MD + K0) return;
	mpz_mul(foo, v, v); mpz_mod(foo, foo, m);
	if (!mpz_sgn(foo) || mpz_sizeinbase(foo, 2) > 8 * mn) return;
	std::string yy = be_bytes(foo, mn), w = yy.substr(0, MD), g12 = Gq(w, mn - MD), r = yy.substr(MD, K0);
	for (size_t i = 0; i < K0; i++) r[i] ^= g12[i];
	extra_g.push_back(std::make_pair(w, mn - MD));
	extra_h.push_back(data + r);
}
// the queries SAEP decryption (original specification) makes: g on the seed part of EVERY root that fits rabin_s octets
static void spec_queries_decrypt(const TMCG_SecretKey &sk, const std::string &text)
{
	Z cv; if (!enc_ok(sk.m) || !frame_value(text, cv)) return;
	if (!tmcg_mpz_qrmn_p(cv, sk.p, sk.q)) return;
	size_t rs = mpz_sizeinbase(sk.m, 2) / 8;
	Z r[4]; tmcg_mpz_sqrtmn_fast_all(r[0], r[1], r[2], r[3], cv, sk.p, sk.q, sk.m, sk.gcdext_up, sk.gcdext_vq, sk.pa1d4, sk.qa1d4);
	for (int i = 0; i < 4; i++) {
		if (!mpz_sgn(r[i]) || mpz_sizeinbase(r[i], 2) > 8 * rs) continue;
		extra_g.push_back(std::make_pair(be_bytes(r[i], rs).substr(2 * S0), 2 * S0));
	}
}

static std::string do_sign(const TMCG_SecretKey &sk, const std::string &data, const std::string &tag)
{
	size_t mn = mnsize_of(sk.m);
	cap_start();
	std::string s = sk.sign(data);
	std::vector<CoinLogEntry> es = coins.take();
	std::string rs = "["; for (auto &e : es) if (e.bytes.size() == K0) { if (rs.size() > 1) rs += ","; rs += hexs(e.bytes); } rs += "]";
	std::string ol = cap_olog([&](const std::string &) { return mn - MD; }, &data);
	emit("rabin.sign " + zs(sk.m) + " " + zs(sk.p) + " " + zs(sk.q) + " " + hexs(sk.sig) + " " + hexs(data) + " " + rs + " " + ulist(coin_words(es)) + " " + ol + " " + tag + " => " + hexs(s));
	return s;
}
static bool do_verify(TMCG_PublicKey &pk, const std::string &data, const std::string &sig, const std::string &tag)
{
	size_t mn = mnsize_of(pk.m);
	cap_start();
	bool ok = pk.verify(data, sig);
	coins.take();
	hashlog.log = false; spec_queries_verify(pk.m, data, sig);
	std::string ol = cap_olog([&](const std::string &) { return mn > MD ? mn - MD : 0; }, &data);
	emit("rabin.verify " + zs(pk.m) + " " + hexs(pk.sig) + " " + hexs(data) + " " + hexs(sig) + " " + ol + " " + tag + " => " + b2s(ok));
	// model-independent record for the Python predicate of C10: class of the case and the library's verdict
	emit("prop.rabin verify bits=" + std::to_string(mpz_sizeinbase(pk.m, 2)) + " " + tag + " => " + b2s(ok));
	return ok;
}
static std::string do_encrypt(TMCG_PublicKey &pk, const std::string &value, const std::string &tag, std::string *rout = NULL)
{
	cap_start();
	std::string s = pk.encrypt((const unsigned char*)value.data());
	std::vector<CoinLogEntry> es = coins.take();
	std::string r; if (!es.empty()) r.assign((const char*)es[0].bytes.data(), es[0].bytes.size());
	if (rout) *rout = r;
	std::string ol = cap_olog([&](const std::string &) { return 2 * S0; }, NULL);
	emit("rabin.encrypt " + zs(pk.m) + " " + hexs(pk.sig) + " " + hexs(value) + " " + hexs(r) + " " + ol + " " + tag + " => " + hexs(s));
	return s;
}
static std::string do_decrypt(const TMCG_SecretKey &sk, const std::string &text, const std::string &tag, const std::string &expect = "")
{
	unsigned char out[S0]; memset(out, 0, sizeof out);
	cap_start();
	bool ok = sk.decrypt(out, text);
	coins.take();
	hashlog.log = false; spec_queries_decrypt(sk, text);
	std::string ol = cap_olog([&](const std::string &) { return 2 * S0; }, NULL);
	std::string res = ok ? hexs(out, S0) : "reject";
	emit("rabin.decrypt " + zs(sk.m) + " " + zs(sk.p) + " " + zs(sk.q) + " " + hexs(sk.sig) + " " + hexs(text) + " " + ol + " " + tag + " => " + res);
	// model-independent record: class of the case, the value that was encrypted (if any), the library's result
	emit("prop.rabin decrypt bits=" + std::to_string(mpz_sizeinbase(sk.m, 2)) + " expect=" + (expect.empty() ? std::string("none") : hexs(expect)) + " " + tag + " => " + res);
	return res;
}
static std::string do_check(const std::string &text, const std::string &tag)
{
	TMCG_PublicKey pk;
	if (!pk.import(text)) { emit("rabin.check " + hexs(text) + " 0 0 [] " + tag + " => reject"); emit("prop.rabin check nizk=0 " + tag + " => reject"); return "reject"; }
	size_t mn = mnsize_of(pk.m);
	std::string data = selfdata(pk);
	int pp = mpz_probab_prime_p(pk.m, 500) ? 1 : 0;
	cap_start();
	bool ok = pk.check();
	coins.take();
	hashlog.log = false; spec_queries_verify(pk.m, data, pk.sig);   // the self-signature part; the NIZK chain is the library's own
	std::string ol = cap_olog([&](const std::string &x) { return (x.size() == MD) ? (mn > MD ? mn - MD : 0) : mn; }, &data);
	emit("rabin.check " + hexs(text) + " " + std::to_string(pp) + " " + std::to_string(last_gqueries + 4) + " " + ol + " " + tag + " => " + b2s(ok));
	emit("prop.rabin check nizk=" + b2s(pk.type.find("NIZK") != pk.type.npos) + " " + tag + " => " + b2s(ok));
	return b2s(ok);
}
static void do_import_pub(const std::string &text, const std::string &tag)
{
	TMCG_PublicKey pk; bool ok = pk.import(text);
	emit("rabin.import.pub " + hexs(text) + " " + tag + " => " + (ok ? zs(pk.m) + " " + zs(pk.y) + " " + okey(pubtext(pk)) : std::string("reject")));
}
static void do_import_sec(const std::string &text, const std::string &tag)
{
	TMCG_SecretKey sk; bool ok = sk.import(text);
	emit("rabin.import.sec " + hexs(text) + " " + tag + " => " + (ok ? zs(sk.m) + " " + zs(sk.y) + " " + zs(sk.p) + " " + zs(sk.q) + " " + okey(sectext(sk)) : std::string("reject")));
}
static void keyid_lines(TMCG_PublicKey &pk, const std::string &tag)
{
	emit("rabin.selfid " + hexs(pk.sig) + " " + tag + " => " + hexs(pk.selfid()));
	static const size_t sizes[] = { 0, 1, 4, 8, 9, 40, 200, 100000 };
	for (size_t sz : sizes) emit("rabin.keyid " + hexs(pk.sig) + " " + std::to_string(sz) + " " + tag + " => " + hexs(pk.keyid(sz)));
}
static void keyidsize_line(TMCG_PublicKey &pk, const std::string &s, const std::string &tag)
{
	emit("rabin.keyidsize " + hexs(s) + " " + tag + " => " + std::to_string(pk.keyid_size(s)));
}

// split "xxx|kid|value|" (signature or ciphertext)
struct Parts { std::string magic, kid, val, rest; };
static Parts split3(const std::string &s)
{
	Parts p; size_t a = s.find('|'), b = s.find('|', a + 1), c = s.find('|', b + 1);
	p.magic = s.substr(0, a); p.kid = s.substr(a + 1, b - a - 1); p.val = s.substr(b + 1, c - b - 1); p.rest = s.substr(c + 1); return p;
}
static std::string join3(const Parts &p) { return p.magic + "|" + p.kid + "|" + p.val + "|" + p.rest; }

// value mutations shared by signatures and ciphertexts; returns (text of the value, tag)
static std::vector<std::pair<std::string, std::string> > value_mutations(SplitMix &g, mpz_srcptr v, mpz_srcptr m, bool is_sig)
{
	std::vector<std::pair<std::string, std::string> > r; Z t;
	const char *f = is_sig ? "value" : "c";
	auto mut = [&](const char *how) { r.push_back(std::make_pair(s62(t), std::string("tag:mut:") + f + ":" + how)); };
	auto eqv = [&](const char *how) { r.push_back(std::make_pair(s62(t), std::string("tag:equiv:") + f + ":" + how)); };
	mpz_add_ui(t, v, 1); mut("plus1");
	mpz_sub_ui(t, v, 1); mut("minus1");
	mpz_set_ui(t, 0); mut("zero");
	mpz_set_ui(t, 1); mut("one");
	mpz_sub_ui(t, m, 1); mut("mminus1");
	mpz_set(t, m); mut("m");
	mpz_add(t, v, m); eqv("plusm");
	mpz_mul_2exp(t, v, 300); mut("huge");
	mpz_mul_ui(t, v, 2); mpz_mod(t, t, m); mut("times2");
	mpz_mul_ui(t, v, 4); mpz_mod(t, t, m); mut("times4");
	gen_below(t, g, m); mut("other");
	if (is_sig) {
		mpz_sub(t, m, v); eqv("negroot");          // m - s
		mpz_neg(t, v); eqv("minus");               // -s
		mpz_sub(t, v, m); eqv("minusm");           // s - m
	} else {
		mpz_sub(t, m, v); mut("mminusc");
		mpz_neg(t, v); mut("minus");
		gen_below(t, g, m); mpz_mul(t, t, t); mpz_mod(t, t, m); mut("othersquare");
	}
	// textual variants of the same integer
	r.push_back(std::make_pair("0" + s62(v), std::string("tag:equiv:") + f + ":leadingzero"));
	r.push_back(std::make_pair(" " + s62(v), std::string("tag:equiv:") + f + ":leadingspace"));
	{ std::string x = s62(v); x.insert(x.size() / 2, " "); r.push_back(std::make_pair(x, std::string("tag:equiv:") + f + ":innerspace")); }
	r.push_back(std::make_pair(s62(v) + "!", std::string("tag:mut:") + f + ":nondigit"));
	r.push_back(std::make_pair("", std::string("tag:mut:") + f + ":empty"));
	r.push_back(std::make_pair("-", std::string("tag:mut:") + f + ":onlyminus"));
	return r;
}
// text-level mutations of magic / key id / delimiters
static std::vector<std::pair<std::string, std::string> > frame_mutations(const std::string &s, TMCG_PublicKey &own, TMCG_PublicKey &other)
{
	std::vector<std::pair<std::string, std::string> > r; Parts p = split3(s), q;
	q = p; q.magic = (p.magic == "sig") ? "enc" : "sig"; r.push_back(std::make_pair(join3(q), "tag:mut:magic:swapped"));
	q = p; q.magic = ""; r.push_back(std::make_pair(join3(q), "tag:mut:magic:empty"));
	q = p; q.magic = p.magic + " "; r.push_back(std::make_pair(join3(q), "tag:mut:magic:space"));
	q = p; q.kid = other.keyid(); r.push_back(std::make_pair(join3(q), "tag:mut:keyid:otherkey"));
	q = p; q.kid = own.keyid(0); r.push_back(std::make_pair(join3(q), "tag:short:keyid:ID0"));
	q = p; q.kid = own.keyid(1); r.push_back(std::make_pair(join3(q), "tag:short:keyid:ID1"));
	q = p; q.kid = own.keyid(4); r.push_back(std::make_pair(join3(q), "tag:short:keyid:ID4"));
	q = p; q.kid = own.keyid(9); r.push_back(std::make_pair(join3(q), "tag:short:keyid:ID9"));
	q = p; q.kid = own.keyid(100000); r.push_back(std::make_pair(join3(q), "tag:mut:keyid:oversize"));
	q = p; q.kid[q.kid.size() - 1] ^= 1; r.push_back(std::make_pair(join3(q), "tag:mut:keyid:lastchar"));
	q = p; q.kid[2] = '7'; r.push_back(std::make_pair(join3(q), "tag:mut:keyid:size7"));
	q = p; q.kid = "ID+8^" + p.kid.substr(4); r.push_back(std::make_pair(join3(q), "tag:mut:keyid:plussign"));
	q = p; q.kid = "ID08^" + p.kid.substr(4); r.push_back(std::make_pair(join3(q), "tag:mut:keyid:leadingzero"));
	q = p; q.kid = ""; r.push_back(std::make_pair(join3(q), "tag:mut:keyid:empty"));
	q = p; q.kid = "ERROR"; r.push_back(std::make_pair(join3(q), "tag:mut:keyid:ERROR"));
	q = p; q.kid = p.kid.substr(0, 4); r.push_back(std::make_pair(join3(q), "tag:mut:keyid:nosuffix"));
	r.push_back(std::make_pair(s + "garbage", "tag:equiv:frame:trailing"));
	r.push_back(std::make_pair(s.substr(0, s.size() - 1), "tag:mut:frame:nofinalbar"));
	r.push_back(std::make_pair(p.magic + "|" + p.val + "|" + p.kid + "|", "tag:mut:frame:swappedfields"));
	r.push_back(std::make_pair(p.magic + "|" + p.kid + "||" + p.val + "|", "tag:mut:frame:emptyfield"));
	r.push_back(std::make_pair("", "tag:mut:frame:emptytext"));
	return r;
}

static std::string rand_bytes(SplitMix &g, size_t n) { std::string s(n, 0); for (size_t i = 0; i < n; i++) s[i] = (char)g.below(256); return s; }

static void sign_case(SplitMix &g, KeyCtx &k, KeyCtx &other, size_t len, bool full)
{
	TMCG_SecretKey &sk = *k.sk; TMCG_PublicKey &pk = *k.pk;
	std::string data = rand_bytes(g, len);
	if (g.below(4) == 0) for (auto &c : data) c = (char)('a' + ((unsigned char)c % 26));
	std::string s = do_sign(sk, data, "tag:honest");
	emit("prop.rabin sign bits=" + std::to_string(k.L) + " len=" + std::to_string(len) + " tag:honest => " + b2s(do_verify(pk, data, s, "tag:honest")));
	{ TMCG_SecretKey &skc = sk; cap_start(); bool ok = skc.verify(data, s); coins.take(); hashlog.log = false; hashlog.clear();
	  emit("prop.rabin secretkey.verify => " + b2s(ok)); }
	if (!full) return;
	Parts p = split3(s); Z v; mpz_set_str(v, p.val.c_str(), TMCG_MPZ_IO_BASE);
	emit("rabin.sigid " + hexs(s) + " tag:honest => " + hexs(pk.sigid(s)));
	keyidsize_line(pk, p.kid, "tag:honest");
	// value field
	for (auto &mv : value_mutations(g, v, sk.m, true)) { Parts q = p; q.val = mv.first; do_verify(pk, data, join3(q), mv.second); }
	// all four roots of the padded value
	{
		Z foo, r[4]; mpz_mul(foo, v, v); mpz_mod(foo, foo, sk.m);
		tmcg_mpz_sqrtmn_fast_all(r[0], r[1], r[2], r[3], foo, sk.p, sk.q, sk.m, sk.gcdext_up, sk.gcdext_vq, sk.pa1d4, sk.qa1d4);
		for (int i = 0; i < 4; i++) { Parts q = p; q.val = s62(r[i]); do_verify(pk, data, join3(q), "tag:equiv:value:root" + std::to_string(i)); }
		// a root of (padded value + k * 256^mnsize): differs from the padded value only above the bytes verify looks at
		Z step, f2; mpz_set_ui(step, 1); mpz_mul_2exp(step, step, 8 * k.mnsize);
		mpz_add(f2, foo, step); bool done = false;
		for (int kk = 1; kk < 128 && mpz_cmp(f2, sk.m) < 0; kk++, mpz_add(f2, f2, step))
			if (tmcg_mpz_qrmn_p(f2, sk.p, sk.q)) {
				Z s2; tmcg_mpz_sqrtmn_fast(s2, f2, sk.p, sk.q, sk.m, sk.gcdext_up, sk.gcdext_vq, sk.pa1d4, sk.qa1d4);
				Parts q = p; q.val = s62(s2); do_verify(pk, data, join3(q), "tag:cheat:value:highbits"); done = true; break;
			}
		(void)done;
	}
	// frame and key id
	for (auto &mv : frame_mutations(s, pk, *other.pk)) { do_verify(pk, data, mv.first, mv.second); }
	{ static const size_t sizes[] = { 0, 1, 4, 9, 100000 }; for (size_t sz : sizes) keyidsize_line(pk, pk.keyid(sz), "tag:short"); keyidsize_line(pk, other.pk->keyid(), "tag:otherkey"); }
	// data
	if (len) { std::string d2 = data; d2[g.below(len)] ^= (char)(1 << g.below(8)); do_verify(pk, d2, s, "tag:mut:data:bitflip"); }
	do_verify(pk, data + "x", s, "tag:mut:data:append");
	do_verify(pk, data + std::string(1, '\0'), s, "tag:mut:data:appendnul");
	if (len) do_verify(pk, data.substr(0, len - 1), s, "tag:mut:data:truncate");
	if (len) do_verify(pk, "", s, "tag:mut:data:empty");
	// other key: as is, and with the other key's id
	do_verify(*other.pk, data, s, "tag:mut:key:other");
	{ Parts q = p; q.kid = other.pk->keyid(); do_verify(*other.pk, data, join3(q), "tag:mut:key:other+keyid"); }
	{ Parts q = p; q.kid = other.pk->keyid(0); do_verify(*other.pk, data, join3(q), "tag:mut:key:other+ID0"); }
}

static void enc_case(SplitMix &g, KeyCtx &k, KeyCtx &other, bool full)
{
	TMCG_SecretKey &sk = *k.sk; TMCG_PublicKey &pk = *k.pk;
	std::string value = rand_bytes(g, S0);
	switch (g.below(6)) { case 0: value.assign(S0, 0); break; case 1: value.assign(S0, (char)0xff); break; default: break; }
	std::string r;
	std::string c = do_encrypt(pk, value, "tag:honest", &r);
	std::string res = do_decrypt(sk, c, "tag:honest", value);
	emit("prop.rabin roundtrip value=" + hexs(value) + " => " + res);
	{ cap_start(); std::string c2 = sk.encrypt((const unsigned char*)value.data()); coins.take(); hashlog.log = false; hashlog.clear();
	  emit("prop.rabin secretkey.encrypt => " + do_decrypt(sk, c2, "tag:honest", value)); }
	if (!full) return;
	Parts p = split3(c); Z v; mpz_set_str(v, p.val.c_str(), TMCG_MPZ_IO_BASE);
	for (auto &mv : value_mutations(g, v, sk.m, false)) { Parts q = p; q.val = mv.first; do_decrypt(sk, join3(q), mv.second, value); }
	for (auto &mv : frame_mutations(c, pk, *other.pk)) do_decrypt(sk, mv.first, mv.second, value);
	// the encoded value shifted by a multiple of 256^rabin_s: a different ciphertext anyone can compute
	{
		size_t rs = mpz_sizeinbase(sk.m, 2) / 8;
		std::string yy(rs, 0); std::string g12 = Gq(r, 2 * S0);
		for (size_t i = 0; i < 2 * S0; i++) yy[i] = (char)((i < S0 ? value[i] : 0) ^ g12[i]);
		memcpy(&yy[2 * S0], r.data(), rs - 2 * S0);
		Z x, step, c2; mpz_import(x, 1, -1, rs, 1, 0, yy.data());
		mpz_set_ui(step, 1); mpz_mul_2exp(step, step, 8 * rs);
		for (int kk = 1; kk < 8; kk++) {
			mpz_add(x, x, step); if (mpz_cmp(x, sk.m) >= 0) break;
			mpz_mul(c2, x, x); mpz_mod(c2, c2, sk.m);
			Parts q = p; q.val = s62(c2); do_decrypt(sk, join3(q), "tag:cheat:c:highbits" + std::to_string(kk), value);
		}
	}
	// other key
	do_decrypt(*other.sk, c, "tag:mut:key:other", value);
	{ Parts q = p; q.kid = other.pk->keyid(); do_decrypt(*other.sk, join3(q), "tag:mut:key:other+keyid", value); }
}

// key text: fields name|email|type|m|y|nizk|sig
static std::vector<std::string> split_key(const std::string &t, size_t nfields)
{
	std::vector<std::string> f; size_t pos = 0;
	for (size_t i = 0; i + 1 < nfields; i++) { size_t e = t.find('|', pos); f.push_back(t.substr(pos, e - pos)); pos = e + 1; }
	f.push_back(t.substr(pos)); return f;
}
static std::string join_key(const std::vector<std::string> &f) { std::string s; for (size_t i = 0; i < f.size(); i++) { if (i) s += "|"; s += f[i]; } return s; }

static void import_cases(SplitMix &g, KeyCtx &k)
{
	std::string pt = pubtext(*k.pk), st = sectext(*k.sk);
	do_import_pub(pt, "tag:honest"); do_import_sec(st, "tag:honest");
	do_import_pub(st, "tag:mut:magic:sec"); do_import_sec(pt, "tag:mut:magic:pub");
	std::vector<std::string> f = split_key(pt, 8), h;   // pub name email type m y nizk sig
	const char *fn[8] = { "magic", "name", "email", "type", "m", "y", "nizk", "sig" };
	for (size_t i = 0; i < 8; i++) {
		h = f; h[i] = ""; do_import_pub(join_key(h), std::string("tag:mut:") + fn[i] + ":empty");
		h = f; h[i] += "!"; do_import_pub(join_key(h), std::string("tag:mut:") + fn[i] + ":bang");
		h = f; h[i] = " " + h[i]; do_import_pub(join_key(h), std::string("tag:mut:") + fn[i] + ":leadingspace");
		h = f; h.erase(h.begin() + i); do_import_pub(join_key(h), std::string("tag:mut:") + fn[i] + ":dropped");
		h = f; h[i] = "-" + h[i]; do_import_pub(join_key(h), std::string("tag:mut:") + fn[i] + ":minus");
	}
	for (size_t cut = 0; cut < 6; cut++) { size_t n = g.below(pt.size()); do_import_pub(pt.substr(0, n), "tag:mut:text:truncated"); }
	std::vector<std::string> fs = split_key(st, 10);       // sec name email type m y p q nizk sig
	const char *fsn[10] = { "magic", "name", "email", "type", "m", "y", "p", "q", "nizk", "sig" };
	for (size_t i = 0; i < 10; i++) {
		h = fs; h[i] = ""; do_import_sec(join_key(h), std::string("tag:mut:") + fsn[i] + ":empty");
		h = fs; h[i] += "!"; do_import_sec(join_key(h), std::string("tag:mut:") + fsn[i] + ":bang");
		h = fs; h.erase(h.begin() + i); do_import_sec(join_key(h), std::string("tag:mut:") + fsn[i] + ":dropped");
	}
	// secret key whose p and q are swapped / equal / not coprime to the rest
	h = fs; std::swap(h[6], h[7]); do_import_sec(join_key(h), "tag:mut:pq:swapped");
	h = fs; h[7] = h[6]; do_import_sec(join_key(h), "tag:mut:pq:equal");
	h = fs; h[5] = "0"; do_import_sec(join_key(h), "tag:mut:y:zero");
	h = fs; h[5] = h[6]; do_import_sec(join_key(h), "tag:mut:y:p");
	h = fs; h[4] = "0"; do_import_sec(join_key(h), "tag:mut:m:zero");
	// precompute of the honest key
	emit("rabin.precompute " + zs(k.sk->m) + " " + zs(k.sk->y) + " " + zs(k.sk->p) + " " + zs(k.sk->q) + " tag:honest => " +
		zs(k.sk->y1) + " " + zs(k.sk->m1pq) + " " + zs(k.sk->gcdext_up) + " " + zs(k.sk->gcdext_vq) + " " + zs(k.sk->pa1d4) + " " + zs(k.sk->qa1d4));
}

// NIZK text: nzk^n1^v...^n2^v...^n3^v...^
static std::vector<std::string> split_hat(const std::string &t)
{
	std::vector<std::string> f; size_t pos = 0;
	for (;;) { size_t e = t.find('^', pos); if (e == t.npos) { f.push_back(t.substr(pos)); break; } f.push_back(t.substr(pos, e - pos)); pos = e + 1; }
	return f;
}
static std::string join_hat(const std::vector<std::string> &f) { std::string s; for (size_t i = 0; i < f.size(); i++) { if (i) s += "^"; s += f[i]; } return s; }

static void check_cases(SplitMix &g, KeyCtx &k, KeyCtx &other, bool thorough)
{
	TMCG_SecretKey &sk = *k.sk;
	std::string pt = pubtext(*k.pk);
	do_check(pt, "tag:honest");
	emit("prop.rabin secretkey.check => " + b2s(sk.check()));
	std::vector<std::string> f = split_key(pt, 8), h;
	// ---- without re-signing: every field is covered by the self-signature or checked before it
	auto chk = [&](const std::vector<std::string> &hh, const std::string &tag) { do_check(join_key(hh), tag); };
	Z t;
	h = f; h[1] += "x"; chk(h, "tag:mut:name:append");
	h = f; h[2] = ""; chk(h, "tag:mut:email:empty");
	h = f; h[3] = k.nizk ? "TMCG/RABIN_" + std::to_string(k.L - 2) : f[3] + "_NIZK"; chk(h, "tag:mut:type:nizkflag");
	h = f; h[3] += " "; chk(h, "tag:mut:type:space");
	mpz_add_ui(t, sk.m, 1); h = f; h[4] = s62(t); chk(h, "tag:mut:m:plus1");
	mpz_add_ui(t, sk.m, 2); h = f; h[4] = s62(t); chk(h, "tag:mut:m:plus2");
	mpz_mul_ui(t, sk.m, 2); h = f; h[4] = s62(t); chk(h, "tag:mut:m:times2");
	mpz_mul_ui(t, sk.m, 3); h = f; h[4] = s62(t); chk(h, "tag:mut:m:times3");
	mpz_nextprime(t, sk.m); h = f; h[4] = s62(t); chk(h, "tag:mut:m:prime");
	mpz_mul(t, sk.p, sk.p); h = f; h[4] = s62(t); chk(h, "tag:mut:m:psquare");
	mpz_set(t, sk.p); h = f; h[4] = s62(t); chk(h, "tag:mut:m:p");
	mpz_neg(t, sk.m); h = f; h[4] = s62(t); chk(h, "tag:mut:m:neg");
	h = f; h[4] = "0"; chk(h, "tag:mut:m:zero");
	h = f; h[4] = "1"; chk(h, "tag:mut:m:one");
	h = f; h[4] = "3"; chk(h, "tag:mut:m:three");
	h = f; h[4] = "0" + f[4]; chk(h, "tag:equiv:m:leadingzero");
	mpz_set_ui(t, 65537); h = f; h[4] = s62(t); chk(h, "tag:mut:m:fermat");
	mpz_add_ui(t, sk.y, 1); h = f; h[5] = s62(t); chk(h, "tag:mut:y:plus1");
	h = f; h[5] = "1"; chk(h, "tag:mut:y:one");
	h = f; h[5] = "4"; chk(h, "tag:mut:y:four");
	h = f; h[5] = "0"; chk(h, "tag:mut:y:zero");
	mpz_set(t, sk.p); h = f; h[5] = s62(t); chk(h, "tag:mut:y:p");
	mpz_add(t, sk.y, sk.m); h = f; h[5] = s62(t); chk(h, "tag:mut:y:plusm");
	{ Z yy; mpz_set_ui(yy, 2); while (mpz_jacobi(yy, sk.m) != -1) mpz_add_ui(yy, yy, 1); h = f; h[5] = s62(yy); chk(h, "tag:mut:y:jacobiminus"); }
	h = f; h[6] += "x"; chk(h, "tag:mut:nizk:append");
	h = f; h[7] = ""; chk(h, "tag:mut:sig:empty");
	h = f; h[7] = split_key(pubtext(*other.pk), 8)[7]; chk(h, "tag:mut:sig:otherkey");
	{ Parts p = split3(f[7]); Z v; mpz_set_str(v, p.val.c_str(), TMCG_MPZ_IO_BASE); mpz_sub(v, sk.m, v); p.val = s62(v); h = f; h[7] = join3(p); chk(h, "tag:mut:sig:negroot"); }
	{ Parts p = split3(f[7]); p.kid = "ID0^"; h = f; h[7] = join3(p); chk(h, "tag:short:sig:ID0"); }
	h = f; h[7] += "trailing"; chk(h, "tag:equiv:sig:trailing");
	// ---- with the self-signature recomputed (the holder of the secret key cheats)
	auto resigned = [&](std::function<void(TMCG_SecretKey&)> mod, const std::string &tag) {
		TMCG_SecretKey c(sk); mod(c); resign(c); TMCG_PublicKey pc(c); do_check(pubtext(pc), tag); };
	resigned([&](TMCG_SecretKey &) {}, "tag:resigned:none");
	resigned([&](TMCG_SecretKey &c) { c.name = "Mallory"; }, "tag:resigned:name");
	resigned([&](TMCG_SecretKey &c) { mpz_mul(c.y, c.y, c.y); mpz_mod(c.y, c.y, c.m); }, "tag:resigned:y:square");
	resigned([&](TMCG_SecretKey &c) { mpz_set_ui(c.y, 1); }, "tag:resigned:y:one");
	resigned([&](TMCG_SecretKey &c) { mpz_set_ui(c.y, 2); while (mpz_jacobi(c.y, c.m) != -1) mpz_add_ui(c.y, c.y, 1); }, "tag:resigned:y:jacobiminus");
	resigned([&](TMCG_SecretKey &c) { mpz_add(c.y, c.y, c.m); }, "tag:resigned:y:plusm");
	if (!k.nizk) {
		resigned([&](TMCG_SecretKey &c) { mpz_neg(c.m, c.m); }, "tag:resigned:m:neg");
		resigned([&](TMCG_SecretKey &c) { c.type += "_NIZK"; }, "tag:resigned:type:claimsnizk");
		resigned([&](TMCG_SecretKey &c) { c.type += "_NIZK"; c.nizk = "nzk^0^0^0^"; }, "tag:resigned:nizk:zerocounts");
		resigned([&](TMCG_SecretKey &c) { c.type += "_NIZK"; c.nizk = "nzk^1^1^1^1^1^1^"; }, "tag:resigned:nizk:onecounts");
		return;
	}
	std::vector<std::string> n = split_hat(sk.nizk);
	size_t n1 = TMCG_KEY_NIZK_STAGE1, n2 = TMCG_KEY_NIZK_STAGE2, n3 = TMCG_KEY_NIZK_STAGE3;
	// layout: 0 nzk, 1 n1, 2..1+n1, 2+n1 n2, ..., 3+n1+n2 n3, ..., last ""
	size_t i1 = 1, i2 = 2 + n1, i3 = 3 + n1 + n2, iend = 4 + n1 + n2 + n3;
	if (n.size() != iend + 1) { emit("prop.rabin nizk.layout => unexpected " + std::to_string(n.size())); return; }
	emit("prop.rabin nizk.layout => " + std::to_string(n1) + " " + std::to_string(n2) + " " + std::to_string(n3));
	auto nz = [&](std::function<void(std::vector<std::string>&)> mod, const std::string &tag) {
		// quick tier: a fixed subset of the catalogue (every variant costs a full run of the three stages)
		static const char *quick[] = { ":shortened", ":truncated", ":countminus1", ":countplus1", ":countplus", ":valueplus1", ":valuenegated", ":swappedrounds",
			":magic", ":trailing", ":nofinalhat", ":stage3missing", ":empty", NULL };
		if (!thorough) { bool keep = false; for (const char **q = quick; *q; q++) { size_t l = strlen(*q); if (tag.size() >= l && !tag.compare(tag.size() - l, l, *q)) keep = true; } if (!keep) return; }
		std::vector<std::string> nn = n; mod(nn); std::string txt = join_hat(nn);
		resigned([&](TMCG_SecretKey &c) { c.nizk = txt; }, tag); };
	size_t idx[3] = { i1, i2, i3 }; size_t cnt[3] = { n1, n2, n3 };
	for (int s = 0; s < 3; s++) {
		std::string st = "stage" + std::to_string(s + 1);
		// one round fewer, count adjusted (shortened proof)
		nz([&](std::vector<std::string> &nn) { nn[idx[s]] = std::to_string(cnt[s] - 1); nn.erase(nn.begin() + idx[s] + cnt[s]); }, "tag:resigned:nizk:" + st + ":shortened");
		// one round fewer, count kept (truncated stage)
		nz([&](std::vector<std::string> &nn) { nn.erase(nn.begin() + idx[s] + cnt[s]); }, "tag:resigned:nizk:" + st + ":truncated");
		// count lowered only / raised only
		nz([&](std::vector<std::string> &nn) { nn[idx[s]] = std::to_string(cnt[s] - 1); }, "tag:resigned:nizk:" + st + ":countminus1");
		nz([&](std::vector<std::string> &nn) { nn[idx[s]] = std::to_string(cnt[s] + 1); }, "tag:resigned:nizk:" + st + ":countplus1");
		nz([&](std::vector<std::string> &nn) { nn[idx[s]] = "0"; }, "tag:resigned:nizk:" + st + ":countzero");
		nz([&](std::vector<std::string> &nn) { nn[idx[s]] = "1"; nn.erase(nn.begin() + idx[s] + 2, nn.begin() + idx[s] + 1 + cnt[s]); }, "tag:resigned:nizk:" + st + ":oneround");
		nz([&](std::vector<std::string> &nn) { nn[idx[s]] = ""; }, "tag:resigned:nizk:" + st + ":countempty");
		nz([&](std::vector<std::string> &nn) { nn[idx[s]] += "x"; }, "tag:resigned:nizk:" + st + ":countjunk");
		nz([&](std::vector<std::string> &nn) { nn[idx[s]] = "+" + nn[idx[s]]; }, "tag:equiv:nizk:" + st + ":countplus");
		nz([&](std::vector<std::string> &nn) { nn[idx[s]] = " 0" + nn[idx[s]]; }, "tag:equiv:nizk:" + st + ":countspacezero");
		nz([&](std::vector<std::string> &nn) { nn[idx[s]] = "-" + nn[idx[s]]; }, "tag:resigned:nizk:" + st + ":countminus");
		nz([&](std::vector<std::string> &nn) { nn[idx[s]] = "99999999999999999999999"; }, "tag:resigned:nizk:" + st + ":counthuge");
		// a wrong response in a random round / the last round; two responses swapped
		{ size_t rnd = g.below(cnt[s]);
		  nz([&](std::vector<std::string> &nn) { Z v; mpz_set_str(v, nn[idx[s] + 1 + rnd].c_str(), TMCG_MPZ_IO_BASE); mpz_add_ui(v, v, 1); nn[idx[s] + 1 + rnd] = s62(v); }, "tag:resigned:nizk:" + st + ":valueplus1");
		  nz([&](std::vector<std::string> &nn) { Z v; mpz_set_str(v, nn[idx[s] + 1 + rnd].c_str(), TMCG_MPZ_IO_BASE); mpz_sub(v, sk.m, v); nn[idx[s] + 1 + rnd] = s62(v); }, std::string("tag:") + (s == 0 ? "resigned" : "equiv") + ":nizk:" + st + ":valuenegated");
		  nz([&](std::vector<std::string> &nn) { Z v; mpz_set_str(v, nn[idx[s] + 1 + rnd].c_str(), TMCG_MPZ_IO_BASE); mpz_add(v, sk.m, v); nn[idx[s] + 1 + rnd] = s62(v); }, "tag:equiv:nizk:" + st + ":valueplusm");
		  nz([&](std::vector<std::string> &nn) { nn[idx[s] + 1 + rnd] = ""; }, "tag:resigned:nizk:" + st + ":valueempty");
		  nz([&](std::vector<std::string> &nn) { nn[idx[s] + 1 + rnd] = "0"; }, "tag:resigned:nizk:" + st + ":valuezero"); }
		nz([&](std::vector<std::string> &nn) { std::swap(nn[idx[s] + 1], nn[idx[s] + 2]); }, "tag:resigned:nizk:" + st + ":swappedrounds");
	}
	nz([&](std::vector<std::string> &nn) { nn[0] = "nkz"; }, "tag:resigned:nizk:magic");
	nz([&](std::vector<std::string> &nn) { nn.back() = "trailing^garbage"; }, "tag:equiv:nizk:trailing");
	nz([&](std::vector<std::string> &nn) { nn.pop_back(); }, "tag:resigned:nizk:nofinalhat");
	nz([&](std::vector<std::string> &nn) { nn.resize(i3); nn.push_back(""); }, "tag:resigned:nizk:stage3missing");
	nz([&](std::vector<std::string> &nn) { nn.resize(i2); nn.push_back(""); }, "tag:resigned:nizk:stage23missing");
	nz([&](std::vector<std::string> &nn) { nn.resize(1); nn.push_back(""); }, "tag:resigned:nizk:onlymagic");
	resigned([&](TMCG_SecretKey &c) { c.nizk = ""; }, "tag:resigned:nizk:empty");
	// the proof of another key
	resigned([&](TMCG_SecretKey &c) { c.type = "TMCG/RABIN_" + std::to_string(k.L) ; }, "tag:resigned:type:dropsnizk");
}

// Deterministic boundary cases, run in every tier: encoded values with leading zero octets / extreme top octets.
static void boundary_cases(SplitMix &g, std::vector<KeyCtx> &ks)
{
	// (1) SAEP: the encoded value is (value ‖ 0^S0) xor G(r) ‖ r; its first octets are value[i] ^ G(r)[i].
	//     The seed r is scripted into the coin source, the value is chosen so that the first octets come out as wanted.
	for (size_t ki = 0; ki < ks.size(); ki++) {
		if (!ks[ki].can_enc) continue;
		TMCG_SecretKey &sk = *ks[ki].sk; TMCG_PublicKey &pk = *ks[ki].pk;
		size_t rs = mpz_sizeinbase(sk.m, 2) / 8, s1 = rs - 2 * S0;
		struct Want { const char *name; int nfix; unsigned char b0; int plain; };   // plain: 0 random, 1 all-zero, 2 all-0xff plaintext
		static const Want wants[] = {
			{ "leadzero1", 1, 0x00, 0 }, { "leadzero2", 2, 0x00, 0 }, { "leadzero3", 3, 0x00, 0 },
			{ "top01", 1, 0x01, 0 }, { "top7f", 1, 0x7f, 0 }, { "top80", 1, 0x80, 0 }, { "topff", 1, 0xff, 0 },
			{ "zerovalue", 0, 0, 1 }, { "ffvalue", 0, 0, 2 } };
		for (const Want &w : wants) {
			std::string r = rand_bytes(g, s1), value = rand_bytes(g, S0);
			if (w.plain == 1) value.assign(S0, 0);
			if (w.plain == 2) value.assign(S0, (char)0xff);
			std::string g12 = Gq(r, 2 * S0);
			for (int i = 0; i < w.nfix; i++) value[i] = (char)((unsigned char)g12[i] ^ (i == 0 ? w.b0 : 0x00));
			coins.script.assign(r.begin(), r.end()); coins.script_pos = 0;
			std::string tag = std::string("tag:honest:") + w.name, rused;
			std::string c = do_encrypt(pk, value, tag, &rused);
			coins.script.clear(); coins.script_pos = 0;
			// what the first octet of the encoded value really is (the harness's own arithmetic, for the record)
			unsigned first = (unsigned char)value[0] ^ (unsigned char)Gq(rused, 2 * S0)[0];
			std::string res = do_decrypt(sk, c, tag, value);
			emit("prop.rabin boundary enc key=" + ks[ki].label + " scripted=" + b2s(rused == r) + " first=" + std::to_string(first) + " " + tag + " => " + b2s(res == hexs(value)));
		}
	}
	// (2) PRab: search data strings until the padded value s^2 mod m has a leading zero octet (w[0] = 0, chance 1/256
	//     per signature); the search signs silently with logged coins, the hit is replayed with the same coins scripted.
	{
		KeyCtx &k = ks[0]; TMCG_SecretKey &sk = *k.sk; TMCG_PublicKey &pk = *k.pk;
		bool found = false; size_t tries = 0;
		for (; tries < 6000 && !found; tries++) {
			std::string data = "leadzero-" + std::to_string(g.next() % 1000000007ULL) + "-" + std::to_string(tries);
			coins.take(); coins.log = true;
			std::string s = sk.sign(data);
			std::vector<CoinLogEntry> es = coins.take();
			Parts p = split3(s); Z v, foo; mpz_set_str(v, p.val.c_str(), TMCG_MPZ_IO_BASE);
			mpz_mul(foo, v, v); mpz_mod(foo, foo, sk.m);
			if (mpz_sizeinbase(foo, 2) > 8 * (k.mnsize - 1)) continue;
			found = true;
			coins.script.clear(); coins.script_pos = 0;
			for (auto &e : es) coins.script.insert(coins.script.end(), e.bytes.begin(), e.bytes.end());
			std::string s2 = do_sign(sk, data, "tag:honest:leadzero1");
			coins.script.clear(); coins.script_pos = 0;
			bool ok = do_verify(pk, data, s2, "tag:honest:leadzero1");
			emit("prop.rabin sign bits=" + std::to_string(k.L) + " len=" + std::to_string(data.size()) + " tag:honest:leadzero1 => " + b2s(ok));
			emit("prop.rabin boundary sig key=" + k.label + " replayed=" + b2s(s2 == s) + " padbits=" + std::to_string(mpz_sizeinbase(foo, 2)) + " tries=" + std::to_string(tries + 1) + " tag:honest:leadzero1 => " + b2s(ok));
			// the other three roots and the negated root of the short padded value
			Z r[4]; tmcg_mpz_sqrtmn_fast_all(r[0], r[1], r[2], r[3], foo, sk.p, sk.q, sk.m, sk.gcdext_up, sk.gcdext_vq, sk.pa1d4, sk.qa1d4);
			for (int i = 0; i < 4; i++) { Parts q = p; q.val = s62(r[i]); do_verify(pk, data, join3(q), "tag:equiv:value:leadzero1:root" + std::to_string(i)); }
		}
		if (!found) emit("prop.rabin boundary sig key=" + k.label + " tries=" + std::to_string(tries) + " tag:honest:leadzero1 => notfound");
	}
}

static void make_key(std::vector<KeyCtx> &ks, const char *name, unsigned long bits, bool nizk)
{
	KeyCtx k; std::string email = std::string(name) + "@example.org";
	cap_start(); primelog.calls.clear(); primelog.on = true;
	k.sk.reset(new TMCG_SecretKey(name, email, bits, nizk));
	primelog.on = false;
	std::vector<CoinLogEntry> ges = coins.take();
	k.pk.reset(new TMCG_PublicKey(*k.sk));
	{
		size_t mn = mnsize_of(k.sk->m); std::string data = selfdata(*k.pk);
		std::string ol = cap_olog([&](const std::string &x) { return (x.size() == MD) ? mn - MD : mn; }, &data);
		std::string pl = "["; for (size_t i = 0; i < primelog.calls.size(); i++) { if (i) pl += ","; pl += primelog.calls[i].n + ":" + (primelog.calls[i].ans ? "1" : "0"); } pl += "]";
		emit("rabin.generate " + hexs(std::string(name)) + " " + hexs(email) + " " + std::to_string(bits) + " " + b2s(nizk) + " 10000000 " + coin_bytes_hex(ges) + " " + pl + " " + ol +
			" tag:honest => " + hexs(sectext(*k.sk)));
		emit("prop.rabin generate bits=" + std::to_string(bits) + " nizk=" + b2s(nizk) + " primecalls=" + std::to_string(primelog.calls.size()) + " coins=" + std::to_string(ges.size()) + " tag:honest => check=" + b2s(k.sk->check()));
	} k.L = mpz_sizeinbase(k.sk->m, 2); k.mnsize = k.L / 8; k.can_enc = enc_ok(k.sk->m); k.nizk = nizk;
	k.label = std::string(name);
	emit("prop.rabin key " + k.label + " bits=" + std::to_string(bits) + " L=" + std::to_string(k.L) + " nizk=" + b2s(nizk) + " enc=" + b2s(k.can_enc) +
		" p3mod4=" + b2s(mpz_fdiv_ui(k.sk->p, 4) == 3) + " q3mod4=" + b2s(mpz_fdiv_ui(k.sk->q, 4) == 3) + " => generated");
	ks.push_back(std::move(k));
}

static int drv_rabin(const Opts &o)
{
	SplitMix g(o.seed ^ 0x72616269);
	bool thorough = (o.tier == "thorough");
	if (!o.has("--no-sqrt")) sqrt_lines(o, thorough);
	if (o.has("--only-sqrt")) return 0;
	// keys: generated once per run by the real constructor (coins from the seeded source).
	// 424 is the smallest key size the guards of sign accept (mnsize = 53 > 32 + 20), 672 the smallest
	// the guards of encrypt/decrypt accept (20 < L/32).
	std::vector<KeyCtx> ks;
	make_key(ks, "Alice", 424, false);
	make_key(ks, "Bob", 672, false);
	make_key(ks, "Carol", 680 + 8 * g.below(20), false);
	make_key(ks, "Dave", 424, true);
	if (thorough) { make_key(ks, "Erin", 1024, false); make_key(ks, "Frank", 680, true); }
	for (size_t i = 0; i < ks.size(); i++) {
		keyid_lines(*ks[i].pk, "tag:honest");
		import_cases(g, ks[i]);
		check_cases(g, ks[i], ks[(i + 1) % ks.size()], thorough);
	}
	// key id helpers on odd self-signatures
	{
		TMCG_PublicKey pk(*ks[0].pk);
		const char *sigs[] = { "", "sig|ID8^abcdefgh|short|", "sig|x|", "sig|", "sgi|a|b|", "sig|a|b", "sig||ERROR|", "sig|a||", "|||" };
		for (const char *s : sigs) { pk.sig = s; keyid_lines(pk, "tag:oddsig"); }
		const char *ids[] = { "", "ID", "ID8^", "ID0^", "ID^^", "ID1^a", "ID 1^a", "ID+1^a", "ID-1^a", "ID01^a", "ID1^ab", "ID2^a^", "ID1a^b", "IE1^a", "ID18446744073709551617^a", "ID99999999999999999999^a", "xID1^a", "ID3^a^b" };
		for (const char *s : ids) keyidsize_line(pk, s, "tag:oddid");
		keyidsize_line(pk, std::string("ID1^a\0b", 7), "tag:oddid");
	}
	// guards: a modulus too small for the PRab padding / for SAEP
	{
		TMCG_PublicKey small(*ks[0].pk); Z v;
		mpz_set_str(small.m, "1000000000000000000000000000000000000000000000000000000000000000000000000000000000000000000000000000000000000000000000000037", 10);
		do_verify(small, "abc", ks[0].sk->sign("abc"), "tag:guard:smallmodulus");
		mpz_set_ui(small.m, 0); do_verify(small, "abc", ks[0].sk->sign("abc"), "tag:guard:zeromodulus");
		// bit length a multiple of 8
		mpz_set(small.m, ks[0].sk->m); while (mpz_sizeinbase(small.m, 2) % 8) mpz_mul_2exp(small.m, small.m, 1); mpz_add_ui(small.m, small.m, 1);
		do_verify(small, "abc", ks[0].sk->sign("abc"), "tag:guard:bytealigned");
		do_decrypt(*ks[0].sk, "enc|" + ks[0].pk->keyid() + "|4|", "tag:guard:smallmodulus");
	}
	boundary_cases(g, ks);
	// volume
	std::vector<size_t> enc_keys; for (size_t i = 0; i < ks.size(); i++) if (ks[i].can_enc) enc_keys.push_back(i);
	for (uint64_t c = 0; c < o.cases; c++) {
		size_t ki = g.below(ks.size()), oi = (ki + 1 + g.below(ks.size() - 1)) % ks.size();
		size_t len; switch (c % 8) { case 0: len = 0; break; case 1: len = 1; break; case 2: len = 2048; break; case 3: len = g.below(64); break; default: len = g.below(2049); break; }
		sign_case(g, ks[ki], ks[oi], len, c % 4 == 0 || thorough);
		if (!enc_keys.empty()) {
			size_t ei = enc_keys[g.below(enc_keys.size())]; size_t eo = (ei + 1 + g.below(ks.size() - 1)) % ks.size();
			enc_case(g, ks[ei], ks[eo], c % 4 == 1 || thorough);
		}
	}
	return 0;
}
REGISTER_DRIVER("rabin", drv_rabin);
