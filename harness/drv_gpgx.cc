// C19 / C20 (area "gpgx"): OpenPGP artefacts made by the real library, to be judged by GnuPG (tools/pred_gpgx.py).
//
// Nothing is compared with the Lean model: every line is a `prop.gpgx` line (passed through by the model driver).
// RFC 4880 subset only: V4 keys and signatures, RSA / DSA / ElGamal, SHA-1/224/256/384/512, CFB with MDC.
// All keys are made here from the generator PRNG (--seed): RSA from two primes, DSA / ElGamal in a Schnorr group
// (common.hh make_group); "distinct keys" are cheap: another x in the same group, or another creation time.
//
// Hex fields: lower-case hex, `-` = empty.  Armored artefacts are the hex of the armor text.  The right-hand side is the
// verdict of the library itself on its own artefact (where it has a routine for that), never used as the reference.
//
//   prop.gpgx exe <hex path of this binary> seed=<s> tier=<t> => -
//   prop.gpgx pubkey <prim> sub=<none|elg|rsa> fmt=<bin|asc> hash=<h> issuer=<8|20> bis=<0|1> <data> <fpr> <keyid> <subfpr> <subkeyid> tag:<class> => ok|refused
//        transferable public key: primary, user ID, positive certification [, subkey, binding signature];
//        fpr / keyid = FingerprintCompute / KeyidCompute; verdict = PublicKeyBlockParse + CheckSelfSignatures [+ CheckSubkeys]
//        classes: honest | honest:bis | tamper:uid | tamper:key | tamper:binding
//   prop.gpgx seckey <prim> sub=<none|elg|rsa> fmt=<bin|asc> prot=<none|s2k> <passphrase> <data> <fpr> <subfpr> tag:<class> => ok|refused
//        transferable secret key (PacketSecEncode / PacketSsbEncode; S2K usage 254, iterated+salted SHA-256, AES-256);
//        class `aux`: RSA secret keys are not emitted by the library (PacketSecEncode knows DSA and ElGamal only), the packet
//        is put together here from the library's primitive encoders so that gpg can decrypt `pkenc` messages to RSA keys
//   prop.gpgx detsig <keytype> <signer fpr> mode=<bin|text> hash=<h> fmt=<bin|asc> issuer=<8|20> exp=<seconds> via=<mem|file> <doc> <sig> tag:<class> => ok|refused
//        detached signature; via=mem: BinaryDocumentHash / TextDocumentHash on octets, verdict = SignatureParse + VerifyData;
//        via=file: the overloads that read the document from a file (HashComputeFile), verdict = SignatureParse + Verify(key, filename).  classes: honest:<doc class> | honest:text-exotic:<doc class>
//        (text documents whose canonical form RFC 4880 does not pin down: lone CR, CR CR LF, …) | tamper:doc | tamper:hashed |
//        tamper:mpi | tamper:left16 | tamper:type | tamper:doc-after-nul (via=file, text: an octet behind a NUL changed)
//   prop.gpgx detsig-nohash <keytype> mode=<m> via=file len=<n> tag:honest:<doc class> => refused     the file overload would not hash the document
//   prop.gpgx symenc cipher=<c> enc=<lib|ref> s2k=<type>:<hash>:<count octet> len=<n> fmt=<bin|asc> <passphrase> <msg> <plain> tag:<class> => ok|refused <eq>
//        SKESK (V4, no encrypted session key) + SEIPD; the library has no SKESK emitter and encrypts with AES-256 only:
//        the SKESK header is put together here from PacketTagEncode / PacketLengthEncode, the key is S2KCompute's, the literal
//        packet, MDC packet and SEIPD packet are the library's; enc=lib: SymmetricEncryptAES256, enc=ref: libgcrypt CFB directly.
//        verdict = MessageParse + S2KCompute + Decrypt (+ MessageParse of the result).  classes: honest | tamper:ct | tamper:mdc |
//        tamper:prefix | tamper:trunc | tamper:salt
//   prop.gpgx pkenc <rsa|elg> <primary fpr> <recipient key id|0000000000000000> cipher=9 len=<n> fmt=<bin|asc> <msg> <plain> tag:<class> => ok|refused <eq>
//        PKESK (AsymmetricEncryptRSA / AsymmetricEncryptElgamal + PacketPkeskEncode) + SEIPD (SymmetricEncryptAES256)
//        classes: honest | honest:anon | tamper:ct | tamper:mdc | tamper:esk
//   prop.gpgx armor type=<t> hdr=<0|1> len=<n> <data> <armor> tag:honest => ok|refused        ArmorEncode; verdict = ArmorDecode gives it back
//
// Second invocations (made by the predicate, files prepared by gpg):
//   gpgx --decrypt-file <path> --pass <hex passphrase> [--decrypt-file … --pass …]…
//        prop.gpgx s2kdec <hex path> => ok <plain hex> | compressed <compressed data hex> | fail:<stage>
//        (decompression is the application's job: the library hands out the body of the compressed data packet)
//   gpgx --dearmor-file <path> […]
//        prop.gpgx dearmor <hex path> => <type> <data hex>
//
// --cases N = number of rounds; each round makes one key set and runs every kind.  Options: --kinds pubkey,seckey,detsig,symenc,pkenc,armor
#include "common.hh"
#include "libTMCG_config.h"
#include <ctime>
#include <set>
#include <map>
#include <fstream>
#include <algorithm>
#include <unistd.h>
#include <limits.h>

typedef CallasDonnerhackeFinneyShawThayerRFC4880 PGP;
typedef tmcg_openpgp_octets_t Oct;
typedef tmcg_openpgp_secure_octets_t SOct;

namespace {

std::string hx(const Oct &o) { return hexs(o.data(), o.size()); }
std::string hxs(const std::string &s) { return hexs(s); }
Oct rnd_octets(SplitMix &g, size_t n) { Oct o(n); for (size_t i = 0; i < n; i++) o[i] = (unsigned char)g.below(256); return o; }
Oct cat(const Oct &a, const Oct &b) { Oct r = a; r.insert(r.end(), b.begin(), b.end()); return r; }
Oct str_oct(const std::string &x) { return Oct(x.begin(), x.end()); }
std::string U(unsigned long long v) { return std::to_string(v); }
std::string unhex(const std::string &h)
{
	std::string r; if (h == "-") return r;
	for (size_t i = 0; i + 1 < h.size(); i += 2) r += (char)strtoul(h.substr(i, 2).c_str(), NULL, 16);
	return r;
}
struct Quiet {
	std::streambuf *old; std::ostringstream sink;
	Quiet() { old = std::cerr.rdbuf(sink.rdbuf()); }
	~Quiet() { std::cerr.rdbuf(old); }
};
struct Mp { // RAII gcry_mpi_t made from an mpz
	gcry_mpi_t a;
	explicit Mp(mpz_srcptr z) : a(NULL) {
		size_t n = (mpz_sizeinbase(z, 2) + 7) / 8; std::vector<unsigned char> b(n ? n : 1, 0);
		size_t cnt = 0; if (mpz_sgn(z)) mpz_export(b.data(), &cnt, 1, 1, 1, 0, z);
		if (gcry_mpi_scan(&a, GCRYMPI_FMT_USG, b.data(), cnt, NULL)) { fprintf(stderr, "gpgx: gcry_mpi_scan failed\n"); exit(3); }
	}
	~Mp() { gcry_mpi_release(a); }
	operator gcry_mpi_t() const { return a; }
private:
	Mp(const Mp&); Mp &operator=(const Mp&);
};
size_t header_len(const Oct &p) { if (p.size() < 2) return p.size(); if (p[1] < 192) return 2; if (p[1] < 224) return 3; if (p[1] == 255) return 6; return 2; }

// ---------------------------------------------------------------- keys
struct GKey {
	std::string type; int pkalgo = 0; unsigned qbits = 0;
	Z n, e, d, p, q, u;        // RSA: p < q, u = p^-1 mod q
	Z P, Q, G, Y, X;           // DSA / ElGamal
	time_t created = 0;
	gcry_sexp_t sec = NULL, pub = NULL;
	bool as_sub = false;
	Oct pkt, body, fpr, keyid;
};
void gen_prime(mpz_ptr r, SplitMix &g, unsigned bits)
{
	gen_bits(r, g, bits); mpz_setbit(r, bits - 1); mpz_setbit(r, bits - 2); mpz_setbit(r, 0);
	mpz_nextprime(r, r);
}
// packets, fingerprint and libgcrypt keys of a key whose numbers are set
void finish_key(GKey &k)
{
	gcry_error_t e = 0; k.pkt.clear(); k.body.clear(); k.fpr.clear(); k.keyid.clear();
	if (k.sec) gcry_sexp_release(k.sec); if (k.pub) gcry_sexp_release(k.pub); k.sec = k.pub = NULL;
	if (k.pkalgo == 1) {
		Mp n(k.n), ee(k.e), d(k.d), p(k.p), q(k.q), u(k.u);
		e = gcry_sexp_build(&k.sec, NULL, "(private-key (rsa (n %M) (e %M) (d %M) (p %M) (q %M) (u %M)))", n.a, ee.a, d.a, p.a, q.a, u.a);
		if (!e) e = gcry_sexp_build(&k.pub, NULL, "(public-key (rsa (n %M) (e %M)))", n.a, ee.a);
		if (k.as_sub) PGP::PacketSubEncode(k.created, TMCG_OPENPGP_PKALGO_RSA, n, ee, ee, ee, k.pkt);
		else PGP::PacketPubEncode(k.created, TMCG_OPENPGP_PKALGO_RSA, n, ee, ee, ee, k.pkt);
	} else if (k.pkalgo == 17) {
		Mp p(k.P), q(k.Q), gg(k.G), y(k.Y), x(k.X);
		e = gcry_sexp_build(&k.sec, NULL, "(private-key (dsa (p %M) (q %M) (g %M) (y %M) (x %M)))", p.a, q.a, gg.a, y.a, x.a);
		if (!e) e = gcry_sexp_build(&k.pub, NULL, "(public-key (dsa (p %M) (q %M) (g %M) (y %M)))", p.a, q.a, gg.a, y.a);
		if (k.as_sub) PGP::PacketSubEncode(k.created, TMCG_OPENPGP_PKALGO_DSA, p, q, gg, y, k.pkt);
		else PGP::PacketPubEncode(k.created, TMCG_OPENPGP_PKALGO_DSA, p, q, gg, y, k.pkt);
		k.qbits = mpz_sizeinbase(k.Q, 2);
	} else {
		Mp p(k.P), q(k.Q), gg(k.G), y(k.Y), x(k.X);
		e = gcry_sexp_build(&k.sec, NULL, "(private-key (elg (p %M) (g %M) (y %M) (x %M)))", p.a, gg.a, y.a, x.a);
		if (!e) e = gcry_sexp_build(&k.pub, NULL, "(public-key (elg (p %M) (g %M) (y %M)))", p.a, gg.a, y.a);
		if (k.as_sub) PGP::PacketSubEncode(k.created, TMCG_OPENPGP_PKALGO_ELGAMAL, p, q, gg, y, k.pkt);
		else PGP::PacketPubEncode(k.created, TMCG_OPENPGP_PKALGO_ELGAMAL, p, q, gg, y, k.pkt);
	}
	if (e) { fprintf(stderr, "gpgx: gcry_sexp_build failed for %s\n", k.type.c_str()); exit(3); }
	PGP::PacketBodyExtract(k.pkt, 0, k.body);
	PGP::FingerprintCompute(k.body, k.fpr); PGP::KeyidCompute(k.body, k.keyid);
}
void gen_rsa(GKey &k, SplitMix &g, unsigned bits, time_t created)
{
	k.type = "rsa"; k.pkalgo = 1; k.created = created;
	Z p1, q1, phi, t;
	for (;;) {
		gen_prime(k.p, g, bits / 2); gen_prime(k.q, g, bits - bits / 2);
		if (!mpz_cmp(k.p, k.q)) continue;
		if (mpz_cmp(k.p, k.q) > 0) mpz_swap(k.p, k.q);
		mpz_mul(k.n, k.p, k.q); if (mpz_sizeinbase(k.n, 2) != bits) continue;
		mpz_set_ui(k.e, 65537);
		mpz_sub_ui(p1, k.p, 1); mpz_sub_ui(q1, k.q, 1); mpz_mul(phi, p1, q1);
		mpz_gcd(t, k.e, phi); if (mpz_cmp_ui(t, 1)) continue;
		mpz_invert(k.d, k.e, phi); mpz_invert(k.u, k.p, k.q);
		break;
	}
	finish_key(k);
}
// another key in the same group
void derive_dl(GKey &k, const char *type, int pkalgo, const SmallGroup &grp, SplitMix &g, time_t created)
{
	k.type = type; k.pkalgo = pkalgo; k.created = created;
	k.P = grp.p; k.Q = grp.q; k.G = grp.g;
	do gen_below(k.X, g, grp.q); while (mpz_cmp_ui(k.X, 2) < 0);
	mpz_powm(k.Y, k.G, k.X, k.P);
	finish_key(k);
}
void retime(GKey &k, time_t created) { k.created = created; finish_key(k); }

// ---------------------------------------------------------------- signing with the library's routines
bool sign_with(const GKey &k, int hashalgo, const Oct &hash, const Oct &trailer, const Oct &left, Oct &sigpkt)
{
	gcry_mpi_t r = gcry_mpi_new(8), s = gcry_mpi_new(8); gcry_error_t e;
	if (k.pkalgo == 1) { e = PGP::AsymmetricSignRSA(hash, k.sec, (tmcg_openpgp_hashalgo_t)hashalgo, s); if (!e) PGP::PacketSigEncode(trailer, left, s, sigpkt); }
	else { e = PGP::AsymmetricSignDSA(hash, k.sec, r, s); if (!e) PGP::PacketSigEncode(trailer, left, r, s, sigpkt); }
	gcry_mpi_release(r); gcry_mpi_release(s);
	return !e;
}
const char *dsa_name(unsigned qbits) { return qbits == 160 ? "dsa160" : qbits == 224 ? "dsa224" : "dsa256"; }
std::string key_name(const GKey &k) { return k.pkalgo == 17 ? dsa_name(k.qbits) : k.type; }
// hash algorithms a key may sign with (DSA: the digest must not be shorter than q)
std::vector<int> sign_hashes(const GKey &k, bool with_sha1)
{
	std::vector<int> h;
	if (with_sha1 && (k.pkalgo != 17 || k.qbits <= 160)) h.push_back(2);
	if (k.pkalgo != 17 || k.qbits <= 224) h.push_back(11);
	h.push_back(8); h.push_back(9); h.push_back(10);
	return h;
}

// ---------------------------------------------------------------- transferable keys
struct CertOpt { std::string uid; int hash = 8; time_t sigtime = 0; time_t keyexp = 0; int issuer = 8; bool bis = false; };
struct Cert { Oct pubpkt, uidpkt, uidsig, subpkt, subsig; Oct all; };
bool build_cert(const GKey &prim, const GKey *sub, const CertOpt &o, Cert &c)
{
	Oct flags, subflags, trailer, hash, left, empty;
	flags.push_back(0x03); subflags.push_back(0x0C);
	if (sub == NULL && prim.pkalgo == 1) flags[0] |= 0x0C; // an RSA primary alone also takes messages
	const Oct &issuer = o.issuer == 20 ? prim.fpr : prim.keyid;
	c = Cert(); c.pubpkt = prim.pkt; PGP::PacketUidEncode(o.uid, c.uidpkt);
	PGP::PacketSigPrepareSelfSignature(TMCG_OPENPGP_SIGNATURE_POSITIVE_CERTIFICATION, (tmcg_openpgp_pkalgo_t)prim.pkalgo, (tmcg_openpgp_hashalgo_t)o.hash,
		o.sigtime, o.keyexp, flags, issuer, o.bis, trailer);
	PGP::CertificationHash(prim.body, o.uid, empty, trailer, (tmcg_openpgp_hashalgo_t)o.hash, hash, left);
	if (!sign_with(prim, o.hash, hash, trailer, left, c.uidsig)) return false;
	c.all = cat(cat(c.pubpkt, c.uidpkt), c.uidsig);
	if (sub) {
		trailer.clear(); hash.clear(); left.clear(); c.subpkt = sub->pkt;
		PGP::PacketSigPrepareSelfSignature(TMCG_OPENPGP_SIGNATURE_SUBKEY_BINDING, (tmcg_openpgp_pkalgo_t)prim.pkalgo, (tmcg_openpgp_hashalgo_t)o.hash,
			o.sigtime, o.keyexp, subflags, issuer, o.bis, trailer);
		PGP::KeyHash(prim.body, sub->body, trailer, (tmcg_openpgp_hashalgo_t)o.hash, hash, left);
		if (!sign_with(prim, o.hash, hash, trailer, left, c.subsig)) return false;
		c.all = cat(cat(c.all, c.subpkt), c.subsig);
	}
	return true;
}
// secret key packet of the library (DSA, ElGamal) or, for RSA, from its primitive encoders (unprotected only)
bool secret_packet(const GKey &k, const std::string &pass, Oct &out)
{
	tmcg_openpgp_secure_string_t pw; for (char ch : pass) pw += ch;
	if (k.pkalgo == 17 || k.pkalgo == 16) {
		Mp p(k.P), q(k.Q), gg(k.G), y(k.Y), x(k.X);
		tmcg_openpgp_pkalgo_t a = (tmcg_openpgp_pkalgo_t)k.pkalgo;
		if (k.as_sub) PGP::PacketSsbEncode(k.created, a, p, q, gg, y, x, pw, out); else PGP::PacketSecEncode(k.created, a, p, q, gg, y, x, pw, out);
		return !out.empty();
	}
	if (!pass.empty()) return false;
	Oct body = k.body, secret; size_t sum = 0;
	{ Mp d(k.d), p(k.p), q(k.q), u(k.u); PGP::PacketMPIEncode(d, secret); PGP::PacketMPIEncode(p, secret); PGP::PacketMPIEncode(q, secret); PGP::PacketMPIEncode(u, secret); }
	for (unsigned char b : secret) sum += b;
	body.push_back(0); body.insert(body.end(), secret.begin(), secret.end()); body.push_back((sum >> 8) & 0xFF); body.push_back(sum & 0xFF);
	PGP::PacketTagEncode(k.as_sub ? 7 : 5, out); PGP::PacketLengthEncode(body.size(), out); out.insert(out.end(), body.begin(), body.end());
	return true;
}
std::string armored(tmcg_openpgp_armor_t t, const Oct &in) { std::string s; PGP::ArmorEncode(t, in, s); return s; }
std::string data_field(const Oct &bin, bool asc, tmcg_openpgp_armor_t t) { return asc ? hxs(armored(t, bin)) : hx(bin); }

std::string pub_verdict(const Oct &bin, bool asc, bool has_sub)
{
	TMCG_OpenPGP_Pubkey *pub = NULL; bool ok = false;
	PGP::MemoryGuardReset(); Quiet q;
	bool parsed = asc ? PGP::PublicKeyBlockParse(armored(TMCG_OPENPGP_ARMOR_PUBLIC_KEY_BLOCK, bin), 0, pub) : PGP::PublicKeyBlockParse(bin, 0, pub);
	if (parsed && pub) {
		TMCG_OpenPGP_Keyring *ring = new TMCG_OpenPGP_Keyring();
		ok = pub->CheckSelfSignatures(ring, 0) && pub->valid && pub->userids.size() == 1 && pub->userids[0]->valid;
		if (ok && has_sub) ok = pub->CheckSubkeys(ring, 0) && pub->subkeys.size() == 1 && pub->subkeys[0]->valid;
		delete ring; delete pub;
	}
	return ok ? "ok" : "refused";
}
std::string sec_verdict(const Oct &bin, bool asc, const std::string &pass)
{
	TMCG_OpenPGP_Prvkey *prv = NULL; bool ok = false; tmcg_openpgp_secure_string_t pw; for (char ch : pass) pw += ch;
	PGP::MemoryGuardReset(); Quiet q;
	bool parsed = asc ? PGP::PrivateKeyBlockParse(armored(TMCG_OPENPGP_ARMOR_PRIVATE_KEY_BLOCK, bin), 0, pw, prv) : PGP::PrivateKeyBlockParse(bin, 0, pw, prv);
	if (parsed && prv) { ok = prv->Good(); delete prv; }
	return ok ? "ok" : "refused";
}

std::string gen_uid(SplitMix &g)
{
	static const char *names[] = { "Alice Example", "Bob", "Carol O'Neil", "D", "Erin (work)", "Frank M\xC3\xBCller", "G\xC3\xB6sta \xE2\x98\xBA" };
	std::string u = names[g.below(7)];
	switch (g.below(4)) { case 0: break; case 1: u += " <" + U(g.below(100000)) + "@example.org>"; break; case 2: u += " (comment " + U(g.below(100)) + ") <x@example.net>"; break;
		default: u += " <" + std::string(1 + g.below(180), (char)('a' + g.below(26))) + "@example.org>"; break; }
	return u;
}
std::string gen_pass(SplitMix &g)
{
	switch (g.below(6)) {
	case 0: return "x";
	case 1: return "correct horse battery staple";
	case 2: { std::string s; size_t n = 1 + g.below(70); for (size_t i = 0; i < n; i++) s += (char)(33 + g.below(94)); return s; }
	case 3: return "p\xC3\xA4ss w\xC3\xB6rt";
	case 4: return std::string(200 + g.below(100), 'z');
	default: { std::string s = "pw"; s += U(g.below(1000000)); return s; }
	}
}

// ---------------------------------------------------------------- symmetric framing
size_t ivlen_of(int algo) { return PGP::AlgorithmIVLength((tmcg_openpgp_skalgo_t)algo); }
size_t keylen_of(int algo) { return PGP::AlgorithmKeyLength((tmcg_openpgp_skalgo_t)algo); }
bool algo_available(int algo)
{
	int a = PGP::AlgorithmSymGCRY((tmcg_openpgp_skalgo_t)algo);
	return a && !gcry_cipher_algo_info(a, GCRYCTL_TEST_ALGO, NULL, NULL);
}
// OpenPGP CFB with libgcrypt directly, for the ciphers the library has no encryption routine for
Oct cfb_ref_encrypt(int algo, const SOct &key, const Oct &prefix, const Oct &in)
{
	Oct out; gcry_cipher_hd_t hd;
	if (gcry_cipher_open(&hd, PGP::AlgorithmSymGCRY((tmcg_openpgp_skalgo_t)algo), GCRY_CIPHER_MODE_CFB, GCRY_CIPHER_ENABLE_SYNC)) return out;
	gcry_cipher_setkey(hd, key.data(), key.size()); gcry_cipher_setiv(hd, NULL, 0);
	Oct pre = prefix;
	gcry_cipher_encrypt(hd, pre.data(), pre.size(), NULL, 0);
	out = pre;
	if (!in.empty()) { Oct body = in; gcry_cipher_encrypt(hd, body.data(), body.size(), NULL, 0); out.insert(out.end(), body.begin(), body.end()); }
	gcry_cipher_close(hd);
	return out;
}
Oct make_prefix(SplitMix &g, size_t bs) { Oct p = rnd_octets(g, bs); p.push_back(p[bs - 2]); p.push_back(p[bs - 1]); return p; }
// SEIPD packet around literal data: literal packet, MDC, CFB; the session key is returned in `seskey` (algo, key, checksum)
bool seipd_message(SplitMix &g, int algo, const SOct &rawkey, const Oct &plain, SOct &seskey, Oct &pkt, bool &libenc)
{
	size_t bs = ivlen_of(algo); if (!bs) return false;
	Oct lit, prefix = make_prefix(g, bs), h, hash, mdc, enc;
	PGP::PacketLitEncode(plain, lit);
	h = cat(prefix, lit); h.push_back(0xD3); h.push_back(0x14);
	PGP::HashCompute(TMCG_OPENPGP_HASHALGO_SHA1, h, hash); PGP::PacketMdcEncode(hash, mdc);
	libenc = (algo == 9);
	if (libenc) {
		seskey = rawkey; // empty: the library draws the key
		if (PGP::SymmetricEncryptAES256(cat(lit, mdc), seskey, prefix, false, enc)) return false;
	} else {
		enc = cfb_ref_encrypt(algo, rawkey, prefix, cat(lit, mdc)); if (enc.empty()) return false;
		seskey.clear(); seskey.push_back((unsigned char)algo); unsigned sum = 0; for (unsigned char c : rawkey) { seskey.push_back(c); sum += c; }
		seskey.push_back((sum >> 8) & 0xFF); seskey.push_back(sum & 0xFF);
	}
	PGP::PacketSeipdEncode(enc, pkt);
	return true;
}
Oct skesk_packet(int algo, int s2ktype, int hashalgo, const Oct &salt, int count)
{
	Oct body, out; body.push_back(4); body.push_back((unsigned char)algo); body.push_back((unsigned char)s2ktype); body.push_back((unsigned char)hashalgo);
	body.insert(body.end(), salt.begin(), salt.end()); if (s2ktype == 3) body.push_back((unsigned char)count);
	PGP::PacketTagEncode(3, out); PGP::PacketLengthEncode(body.size(), out); out.insert(out.end(), body.begin(), body.end());
	return out;
}
// the library reading a symmetric message: MessageParse, S2KCompute from the first SKESK, Decrypt, MessageParse of the result
std::string sym_decrypt(const Oct &bin, const std::string &ascii, const std::string &pass, Oct &plain)
{
	TMCG_OpenPGP_Message *msg = NULL; plain.clear();
	PGP::MemoryGuardReset(); Quiet q;
	bool ok = ascii.empty() ? PGP::MessageParse(bin, 0, msg) : PGP::MessageParse(ascii, 0, msg);
	if (!ok || !msg) return "fail:parse";
	std::string r = "fail:noskesk";
	if (!msg->SKESKs.empty()) {
		const TMCG_OpenPGP_SKESK *esk = msg->SKESKs[0];
		size_t kl = keylen_of(esk->skalgo);
		if (esk->encrypted_key.size()) r = "fail:esk-not-empty";
		else if (!kl) r = "fail:cipher";
		else if (esk->s2k_type != TMCG_OPENPGP_STRINGTOKEY_SALTED && esk->s2k_type != TMCG_OPENPGP_STRINGTOKEY_ITERATED) r = "fail:s2ktype";
		else {
			tmcg_openpgp_secure_string_t pw; for (char ch : pass) pw += ch;
			SOct k, key; PGP::S2KCompute(esk->s2k_hashalgo, kl, pw, esk->s2k_salt, esk->s2k_type == TMCG_OPENPGP_STRINGTOKEY_ITERATED, esk->s2k_count, k);
			if (k.size() != kl) r = "fail:s2k";
			else {
				key.push_back((unsigned char)esk->skalgo); key.insert(key.end(), k.begin(), k.end());
				Oct out;
				if (!msg->Decrypt(key, 0, out)) r = "fail:decrypt";
				else {
					TMCG_OpenPGP_Message *inner = NULL;
					if (!PGP::MessageParse(out, 0, inner) || !inner) r = "fail:inner";
					else { if (inner->compressed_data.size() && !inner->literal_data.size()) { plain = inner->compressed_data; r = "compressed"; } else { plain = inner->literal_data; r = "ok"; } delete inner; }
				}
			}
		}
	}
	delete msg;
	return r;
}

std::string tagtok(const std::string &t) { return " tag:" + t; }

// ================================================================ the kinds
struct KeySet { GKey rsa, dsa, rsasub, elg; SmallGroup grp; };

void pubkey_lines(SplitMix &g, KeySet &ks, time_t now, time_t &clock)
{
	for (int prim = 0; prim < 2; prim++) for (int sub = 0; sub < 3; sub++) for (int asc = 0; asc < 2; asc++) {
		if (prim == 1 && sub == 2) continue;                 // (DSA primary, RSA subkey) is left out
		GKey &P = prim ? ks.dsa : ks.rsa; GKey *S = sub == 0 ? NULL : sub == 1 ? &ks.elg : &ks.rsasub;
		retime(P, clock++); if (S) retime(*S, clock++);
		CertOpt o; o.uid = gen_uid(g); o.issuer = g.coin() ? 8 : 20; o.bis = g.below(4) == 0; o.sigtime = now - 3600 + g.below(3000); o.keyexp = g.below(3) ? 0 : 86400 * (1 + g.below(3000));
		std::vector<int> hs = sign_hashes(P, false); o.hash = hs[g.below(hs.size())];
		Cert c; if (!build_cert(P, S, o, c)) { emit("# gpgx: signing failed (pubkey " + key_name(P) + ")"); continue; }
		std::string head = std::string("prop.gpgx pubkey ") + key_name(P) + " sub=" + (S ? S->type : "none") + " fmt=" + (asc ? "asc" : "bin") + " hash=" + U(o.hash) + " issuer=" + U(o.issuer) + " bis=" + (o.bis ? "1 " : "0 ");
		std::string ids = " " + hx(P.fpr) + " " + hx(P.keyid) + " " + (S ? hx(S->fpr) : std::string("-")) + " " + (S ? hx(S->keyid) : std::string("-"));
		emit(head + data_field(c.all, asc, TMCG_OPENPGP_ARMOR_PUBLIC_KEY_BLOCK) + ids + tagtok(o.bis ? "honest:bis" : "honest") + " => " + pub_verdict(c.all, asc, S != NULL));
		// altered copies under another creation time (another key for gpg): user ID, key material, bound subkey
		if (asc) continue;
		int which = (int)g.below(S ? 3 : 2);
		retime(P, clock++); if (S) retime(*S, clock++);
		Cert t; if (!build_cert(P, S, o, t)) continue;
		Oct bad, kp = t.pubpkt, up = t.uidpkt, sp = t.subpkt; std::string cls;
		if (which == 0) { up[2 + g.below(up.size() - 2)] ^= 0x01; cls = "tamper:uid"; }
		else if (which == 1) { kp[kp.size() - 1] ^= 0x04; cls = "tamper:key"; }      // the last octet of the key material: the fingerprint changes with it
		else { sp[sp.size() - 1] ^= 0x04; cls = "tamper:binding"; }
		bad = cat(cat(kp, up), t.uidsig); if (S) bad = cat(cat(bad, sp), t.subsig);
		Oct b1, f1, i1, b2, f2, i2; PGP::PacketBodyExtract(kp, 0, b1); PGP::FingerprintCompute(b1, f1); PGP::KeyidCompute(b1, i1);
		if (S) { PGP::PacketBodyExtract(sp, 0, b2); PGP::FingerprintCompute(b2, f2); PGP::KeyidCompute(b2, i2); }
		ids = " " + hx(f1) + " " + hx(i1) + " " + hx(f2) + " " + hx(i2);
		emit(head + hx(bad) + ids + tagtok(cls) + " => " + pub_verdict(bad, false, S != NULL));
	}
}

// the keys messages are encrypted to / signatures are made with: their public and secret certificates are emitted here
struct Working { GKey rsa, rsasub, dsa, elg; std::string dsa_pass; };
void seckey_lines(SplitMix &g, KeySet &ks, time_t now, time_t &clock, Working &w)
{
	// library-made: DSA primary, with and without ElGamal subkey, with and without passphrase, binary and armored
	for (int sub = 0; sub < 2; sub++) for (int prot = 0; prot < 2; prot++) for (int asc = 0; asc < 2; asc++) {
		GKey P, S; derive_dl(P, "dsa", 17, ks.grp, g, clock++); if (sub) { derive_dl(S, "elg", 16, ks.grp, g, clock++); S.as_sub = true; finish_key(S); }
		CertOpt o; o.uid = gen_uid(g); o.issuer = g.coin() ? 8 : 20; o.sigtime = now - 3600 + g.below(3000);
		std::vector<int> hs = sign_hashes(P, false); o.hash = hs[g.below(hs.size())];
		Cert c; if (!build_cert(P, sub ? &S : NULL, o, c)) { emit("# gpgx: signing failed (seckey)"); continue; }
		std::string pass = prot ? gen_pass(g) : "";
		Oct sec, ssb; if (!secret_packet(P, pass, sec)) { emit("# gpgx: PacketSecEncode wrote nothing"); continue; }
		Oct all = cat(cat(sec, c.uidpkt), c.uidsig);
		if (sub) { if (!secret_packet(S, pass, ssb)) { emit("# gpgx: PacketSsbEncode wrote nothing"); continue; } all = cat(cat(all, ssb), c.subsig); }
		emit(std::string("prop.gpgx seckey ") + key_name(P) + " sub=" + (sub ? "elg" : "none") + " fmt=" + (asc ? "asc" : "bin") + " prot=" + (prot ? "s2k " : "none ") + hxs(pass) + " " +
			data_field(all, asc, TMCG_OPENPGP_ARMOR_PRIVATE_KEY_BLOCK) + " " + hx(P.fpr) + " " + (sub ? hx(S.fpr) : std::string("-")) + tagtok("honest") + " => " + sec_verdict(all, asc, pass));
		// the last one (DSA + ElGamal, protected, armored) is the working key of the round
		if (sub && prot && asc) {
			w.dsa = P; w.dsa.sec = w.dsa.pub = NULL; finish_key(w.dsa); w.elg = S; w.elg.sec = w.elg.pub = NULL; finish_key(w.elg); w.dsa_pass = pass;
			emit(std::string("prop.gpgx pubkey ") + key_name(P) + " sub=elg fmt=bin hash=" + U(o.hash) + " issuer=" + U(o.issuer) + " bis=0 " + hx(c.all) + " " + hx(P.fpr) + " " + hx(P.keyid) + " " + hx(S.fpr) + " " + hx(S.keyid) +
				tagtok("honest") + " => " + pub_verdict(c.all, false, true));
		}
	}
	// auxiliary: RSA primary with RSA encryption subkey, secret packets put together here
	{
		w.rsa = ks.rsa; w.rsa.sec = w.rsa.pub = NULL; retime(w.rsa, clock++);
		w.rsasub = ks.rsasub; w.rsasub.sec = w.rsasub.pub = NULL; retime(w.rsasub, clock++);
		CertOpt o; o.uid = gen_uid(g); o.issuer = 20; o.sigtime = now - 3600; o.hash = 8;
		Cert c; Oct sec, ssb;
		if (build_cert(w.rsa, &w.rsasub, o, c) && secret_packet(w.rsa, "", sec) && secret_packet(w.rsasub, "", ssb)) {
			Oct all = cat(cat(cat(cat(sec, c.uidpkt), c.uidsig), ssb), c.subsig);
			emit(std::string("prop.gpgx pubkey rsa sub=rsa fmt=bin hash=8 issuer=20 bis=0 ") + hx(c.all) + " " + hx(w.rsa.fpr) + " " + hx(w.rsa.keyid) + " " + hx(w.rsasub.fpr) + " " + hx(w.rsasub.keyid) + tagtok("honest") + " => " + pub_verdict(c.all, false, true));
			emit(std::string("prop.gpgx seckey rsa sub=rsa fmt=bin prot=none - ") + hx(all) + " " + hx(w.rsa.fpr) + " " + hx(w.rsasub.fpr) + tagtok("aux") + " => " + sec_verdict(all, false, ""));
		}
	}
}

struct Doc { std::string cls; Oct data; bool exotic; };
std::vector<Doc> text_docs(SplitMix &g)
{
	std::vector<Doc> d;
	auto add = [&](const char *c, const std::string &s, bool ex = false) { Doc x; x.cls = c; x.data = str_oct(s); x.exotic = ex; d.push_back(x); };
	add("empty", ""); add("lf", "line one\nline two\n"); add("crlf", "line one\r\nline two\r\n"); add("mixed", "a\r\nb\nc\r\nd\n");
	add("nofinal", "first\nlast without newline"); add("nofinal-crlf", "first\r\nlast"); add("oneline", "just one line");
	add("trailws", "two spaces  \ntab\t\nboth \t \n"); add("trailws-crlf", "two spaces  \r\ntab\t\r\n"); add("trailws-nofinal", "ends in blanks  ");
	add("onlynl", "\n"); add("onlycrlf", "\r\n"); add("blank-lines", "\n\n\nx\n\n"); add("dashes", "- dash\n-----BEGIN PGP X-----\nFrom here\n");
	add("utf8", "gr\xC3\xBC\xC3\x9F" "e \xE2\x82\xAC\n\xE6\x97\xA5\xE6\x9C\xAC\n"); add("nul", std::string("a\0b\n", 4)); add("highbytes", "\xFF\xFE\x80\n\x81\n");
	{ std::string s; size_t n = 2000 + g.below(3000); for (size_t i = 0; i < n; i++) { unsigned r = g.below(60); s += r == 0 ? '\n' : r == 1 ? ' ' : (char)(33 + g.below(94)); } add("long", s); }
	{ std::string s; size_t n = 66000 + g.below(3000); for (size_t i = 0; i < n; i++) { unsigned r = g.below(70); if (r == 0) s += "\r\n"; else if (r == 1) s += '\n'; else s += (char)(32 + g.below(95)); } add("long64k", s); }
	// (gpg cuts text lines at 19995 characters: not a matter of the standard)
	{ std::string s; for (size_t i = 0; i < 30000; i++) s += (char)(33 + g.below(94)); add("longline", "short\n" + s + "\nshort again\n", true); }
	add("lonecr", "a\rb\n", true); add("crcrlf", "a\r\r\nb\n", true); add("final-cr", "a\nb\r", true); add("cr-only-lines", "a\rb\rc", true); add("lfcr", "a\n\rb\n", true);
	return d;
}
std::vector<Doc> bin_docs(SplitMix &g)
{
	std::vector<Doc> d;
	auto add = [&](const char *c, const Oct &o) { Doc x; x.cls = c; x.data = o; x.exotic = false; d.push_back(x); };
	add("empty", Oct()); add("one", rnd_octets(g, 1)); add("text", str_oct("line one\r\nline two\n")); add("short", rnd_octets(g, 2 + g.below(300)));
	{ Oct all(256); for (int i = 0; i < 256; i++) all[i] = (unsigned char)i; add("allbytes", all); }
	add("medium", rnd_octets(g, 5000 + g.below(5000))); add("big", rnd_octets(g, 70000 + g.below(5000)));
	return d;
}
struct TmpFile { // a document on disk for the file overloads
	std::string path;
	explicit TmpFile(const Oct &data) {
		char name[] = "/tmp/gpgx-doc-XXXXXX"; int fd = mkstemp(name); if (fd < 0) return;
		size_t off = 0; while (off < data.size()) { ssize_t n = write(fd, data.data() + off, data.size() - off); if (n <= 0) break; off += (size_t)n; }
		close(fd); path = name;
	}
	~TmpFile() { if (!path.empty()) unlink(path.c_str()); }
};
void detsig_line(const GKey &k, bool text, int hash, bool asc, int issuer, time_t exp, const Oct &doc, const Oct &sig, const std::string &cls, const std::string &file = "")
{
	// the library's own view: parse and verify
	std::string v = "refused";
	{
		TMCG_OpenPGP_Signature *s = NULL; PGP::MemoryGuardReset(); Quiet q;
		bool ok = asc ? PGP::SignatureParse(armored(TMCG_OPENPGP_ARMOR_SIGNATURE, sig), 0, s) : PGP::SignatureParse(sig, 0, s);
		if (ok && s) { if (s->Good() && (file.empty() ? s->VerifyData(k.pub, doc, 0) : s->Verify(k.pub, file, 0))) v = "ok"; delete s; }
	}
	emit(std::string("prop.gpgx detsig ") + key_name(k) + " " + hx(k.fpr) + " mode=" + (text ? "text" : "bin") + " hash=" + U(hash) + " fmt=" + (asc ? "asc" : "bin") + " issuer=" + U(issuer) + " exp=" + U(exp) + " via=" + (file.empty() ? "mem " : "file ") +
		hx(doc) + " " + data_field(sig, asc, TMCG_OPENPGP_ARMOR_SIGNATURE) + tagtok(cls) + " => " + v);
}
void detsig_lines(SplitMix &g, const Working &w, time_t now, uint64_t round, bool thorough)
{
	const GKey *keys[2] = { &w.rsa, &w.dsa };
	for (int ki = 0; ki < 2; ki++) {
		const GKey &k = *keys[ki];
		std::vector<int> hs = sign_hashes(k, true);
		for (int text = 0; text < 2; text++) {
			std::vector<Doc> docs = text ? text_docs(g) : bin_docs(g);
			size_t di = 0;
			for (const Doc &d : docs) {
				di++;
				if (thorough || (di + round) % 3 == 0 || d.cls == "nul" || d.cls == "crcrlf" || d.cls == "final-cr")
				{	// the overloads that read the document from a file: one hash per document (quick tier: a third of the documents)
					int h = hs[(di + ki + 1) % hs.size()], issuer = g.coin() ? 8 : 20; TmpFile f(d.data);
					Oct trailer, hash, left, sig;
					PGP::PacketSigPrepareDetachedSignature(text ? TMCG_OPENPGP_SIGNATURE_CANONICAL_TEXT_DOCUMENT : TMCG_OPENPGP_SIGNATURE_BINARY_DOCUMENT, (tmcg_openpgp_pkalgo_t)k.pkalgo,
						(tmcg_openpgp_hashalgo_t)h, now - 600 + g.below(500), 0, "", issuer == 20 ? k.fpr : k.keyid, trailer);
					bool hok = !f.path.empty() && (text ? PGP::TextDocumentHash(f.path, trailer, (tmcg_openpgp_hashalgo_t)h, hash, left) : PGP::BinaryDocumentHash(f.path, trailer, (tmcg_openpgp_hashalgo_t)h, hash, left));
					if (!hok) emit("prop.gpgx detsig-nohash " + key_name(k) + " mode=" + (text ? "text" : "bin") + " via=file len=" + U(d.data.size()) + tagtok("honest:" + d.cls) + " => refused");
					else if (!sign_with(k, h, hash, trailer, left, sig)) emit("# gpgx: signing failed (detsig via file)");
					else {
						detsig_line(k, text, h, false, issuer, 0, d.data, sig, std::string(d.exotic ? "honest:text-exotic:" : "honest:") + d.cls, f.path);
						// the octets behind a NUL in a line of text: altered, same signature
						if (text && d.cls == "nul") { Oct d2 = d.data; d2[2] ^= 0x01; TmpFile f2(d2); if (!f2.path.empty()) detsig_line(k, text, h, false, issuer, 0, d2, sig, "tamper:doc-after-nul", f2.path); }
					}
				}
				// every hash with the first documents, one (rotating) hash afterwards; all of them in the thorough tier
				// (documents of tens of kilobytes: one hash, one altered copy — the trace stays small)
				bool bigdoc = d.data.size() > 20000;
				std::vector<int> use; if ((thorough || di <= 2) && !bigdoc) use = hs; else use.push_back(hs[(di + ki) % hs.size()]);
				for (int h : use) {
					int issuer = g.coin() ? 8 : 20; time_t exp = g.below(4) ? 0 : 86400 * (1 + g.below(30)); bool asc = g.below(3) == 0;
					Oct trailer, hash, left, sig; std::string policy = g.below(5) ? "" : "https://example.org/policy";
					PGP::PacketSigPrepareDetachedSignature(text ? TMCG_OPENPGP_SIGNATURE_CANONICAL_TEXT_DOCUMENT : TMCG_OPENPGP_SIGNATURE_BINARY_DOCUMENT, (tmcg_openpgp_pkalgo_t)k.pkalgo,
						(tmcg_openpgp_hashalgo_t)h, now - 600 + g.below(500), exp, policy, issuer == 20 ? k.fpr : k.keyid, trailer);
					bool hok = text ? PGP::TextDocumentHash(d.data, trailer, (tmcg_openpgp_hashalgo_t)h, hash, left) : PGP::BinaryDocumentHash(d.data, trailer, (tmcg_openpgp_hashalgo_t)h, hash, left);
					if (!hok || !sign_with(k, h, hash, trailer, left, sig)) { emit("# gpgx: signing failed (detsig " + key_name(k) + " hash " + U(h) + ")"); continue; }
					detsig_line(k, text, h, asc, issuer, exp, d.data, sig, std::string(d.exotic ? "honest:text-exotic:" : "honest:") + d.cls);
					if (d.exotic) continue;
					// altered copies (binary form): document, hashed area, signature value, left 16 bits, signature type
					bool tamper = thorough || (di <= 2 && h == use.back()) || g.below(12) == 0; if (!tamper) continue;
					size_t hl = header_len(sig), hashedlen = ((size_t)sig[hl + 4] << 8) + sig[hl + 5], ulen_at = hl + 6 + hashedlen;
					size_t unhashedlen = ((size_t)sig[ulen_at] << 8) + sig[ulen_at + 1], left_at = ulen_at + 2 + unhashedlen;
					{ Oct d2 = d.data; if (d2.empty()) d2.push_back('x'); else d2[g.below(d2.size())] ^= (unsigned char)(1u << g.below(8)); detsig_line(k, text, h, false, issuer, exp, d2, sig, "tamper:doc"); }
					if (bigdoc) continue;
					{ Oct s2 = sig; s2[hl + 6 + g.below(hashedlen)] ^= (unsigned char)(1u << g.below(8)); detsig_line(k, text, h, false, issuer, exp, d.data, s2, "tamper:hashed"); }
					{ Oct s2 = sig; s2[s2.size() - 1 - g.below(16)] ^= (unsigned char)(1u << g.below(8)); detsig_line(k, text, h, false, issuer, exp, d.data, s2, "tamper:mpi"); }
					{ Oct s2 = sig; s2[left_at + g.below(2)] ^= (unsigned char)(1u << g.below(8)); detsig_line(k, text, h, false, issuer, exp, d.data, s2, "tamper:left16"); }
					{ Oct s2 = sig; s2[hl + 1] ^= 0x01; detsig_line(k, text, h, false, issuer, exp, d.data, s2, "tamper:type"); }
				}
			}
		}
	}
}

void symenc_lines(SplitMix &g, uint64_t round, bool thorough)
{
	static const int ciphers[] = { 1, 2, 3, 4, 7, 8, 9, 10, 11, 12, 13 };
	static const size_t lens[] = { 0, 1, 15, 16, 17, 1000, 70000 };
	static const int s2khashes[] = { 2, 8, 10, 9, 11, 3 };
	static const int counts[] = { 0, 96, 0xAC, 0xD0, 255, 17, 0x60 };
	int variant = (int)(round * 5);
	for (int c : ciphers) {
		if (!algo_available(c)) { emit("# gpgx: cipher " + U(c) + " not available in libgcrypt"); continue; }
		for (size_t len : lens) {
			size_t n = len == 70000 ? 70000 + g.below(3000) : len;
			if (len == 70000 && !thorough && c != 9 && c != 2 && c != 10) continue;   // the long ones for a few ciphers in the quick tier
			variant++;
			int s2ktype = (variant % 4 == 0) ? 1 : 3, hashalgo = s2khashes[variant % 6], count = counts[variant % 7];
			if (hashalgo == 3 && variant % 12) hashalgo = 8;                      // RIPEMD-160 now and then only
			if (count == 255 && !thorough && variant % 3) count = 0xC0;          // 65 MiB of hashing per key: rarely
			std::string pass = gen_pass(g); Oct salt = rnd_octets(g, 8), plain = rnd_octets(g, n);
			tmcg_openpgp_secure_string_t pw; for (char ch : pass) pw += ch;
			SOct key, seskey; PGP::S2KCompute((tmcg_openpgp_hashalgo_t)hashalgo, keylen_of(c), pw, salt, s2ktype == 3, (tmcg_openpgp_byte_t)count, key);
			if (key.size() != keylen_of(c)) { emit("# gpgx: S2KCompute gave " + U(key.size()) + " octets for cipher " + U(c)); continue; }
			Oct seipd; bool libenc = false;
			if (!seipd_message(g, c, key, plain, seskey, seipd, libenc)) { emit("# gpgx: encryption failed, cipher " + U(c)); continue; }
			Oct esk = skesk_packet(c, s2ktype, hashalgo, salt, count), msg = cat(esk, seipd);
			bool asc = g.below(4) == 0;
			auto line = [&](const Oct &m, bool a, const std::string &cls) {
				Oct back; std::string v = a ? sym_decrypt(Oct(), armored(TMCG_OPENPGP_ARMOR_MESSAGE, m), pass, back) : sym_decrypt(m, "", pass, back);
				emit("prop.gpgx symenc cipher=" + U(c) + " enc=" + (libenc ? "lib" : "ref") + " s2k=" + U(s2ktype) + ":" + U(hashalgo) + ":" + U(count) + " len=" + U(n) + " fmt=" + (a ? "asc " : "bin ") + hxs(pass) + " " +
					data_field(m, a, TMCG_OPENPGP_ARMOR_MESSAGE) + " " + hx(plain) + tagtok(cls) + " => " + (v == "ok" ? "ok " : "refused ") + (v == "ok" && back == plain ? "1" : "0"));
			};
			line(msg, asc, "honest");
			if (!(len == 17 || (len == 1000 && (thorough || c == 9)) || (thorough && len == 0))) continue;
			size_t shl = header_len(seipd), bs = ivlen_of(c), body = seipd.size() - shl - 1;   // body = prefix + literal packet + MDC packet
			// quick tier: the whole catalogue for AES-256 and CAST5, one (rotating) alteration for the other ciphers
			bool all = thorough || c == 9 || c == 3; int only = variant % 5;
			if (all || only == 0) { Oct s2 = seipd; s2[shl + 1 + bs + 2 + g.below(body - bs - 2 - 22)] ^= (unsigned char)(1u << g.below(8)); line(cat(esk, s2), false, "tamper:ct"); }
			if (all || only == 1) { Oct s2 = seipd; s2[s2.size() - 1 - g.below(20)] ^= (unsigned char)(1u << g.below(8)); line(cat(esk, s2), false, "tamper:mdc"); }
			if (all || only == 2) { Oct s2 = seipd; s2[shl + 1 + g.below(bs)] ^= (unsigned char)(1u << g.below(8)); line(cat(esk, s2), false, "tamper:prefix"); }
			if (all || only == 3) { Oct enc(seipd.begin() + shl + 1, seipd.end() - 1 - g.below(22)), s2; PGP::PacketSeipdEncode(enc, s2); line(cat(esk, s2), false, "tamper:trunc"); }
			if (all || only == 4) { Oct e2 = esk; e2[header_len(esk) + 4 + g.below(8)] ^= (unsigned char)(1u << g.below(8)); line(cat(e2, seipd), false, "tamper:salt"); }
		}
	}
}

void pkenc_lines(SplitMix &g, const Working &w, bool thorough)
{
	static const size_t lens[] = { 0, 1, 16, 1000, 70000 };
	for (int which = 0; which < 2; which++) {
		const GKey &prim = which ? w.dsa : w.rsa; const GKey &rcp = which ? w.elg : w.rsasub;
		for (size_t len : lens) {
			if (len == 70000 && !thorough && which) continue;
			Oct plain = rnd_octets(g, len), seipd; SOct seskey; bool libenc;
			if (!seipd_message(g, 9, SOct(), plain, seskey, seipd, libenc)) { emit("# gpgx: encryption failed (pkenc)"); continue; }
			bool anon = g.below(4) == 0; Oct kid = anon ? Oct(8, 0) : rcp.keyid, esk;
			gcry_mpi_t a = gcry_mpi_new(2048), b = gcry_mpi_new(2048);
			gcry_error_t e = which ? PGP::AsymmetricEncryptElgamal(seskey, rcp.pub, a, b) : PGP::AsymmetricEncryptRSA(seskey, rcp.pub, a);
			if (e) { emit(std::string("# gpgx: public-key encryption failed: ") + rcp.type); gcry_mpi_release(a); gcry_mpi_release(b); continue; }
			if (which) PGP::PacketPkeskEncode(kid, a, b, esk); else PGP::PacketPkeskEncode(kid, a, esk);
			gcry_mpi_release(a); gcry_mpi_release(b);
			auto line = [&](const Oct &m, bool asc, const std::string &cls) {
				// the library reading it back: PKESK, AsymmetricDecrypt…, Decrypt, inner literal packet
				std::string v = "refused"; bool eq = false;
				{
					TMCG_OpenPGP_Message *msg = NULL; PGP::MemoryGuardReset(); Quiet q;
					bool ok = asc ? PGP::MessageParse(armored(TMCG_OPENPGP_ARMOR_MESSAGE, m), 0, msg) : PGP::MessageParse(m, 0, msg);
					if (ok && msg) {
						if (msg->PKESKs.size() == 1) {
							const TMCG_OpenPGP_PKESK *p = msg->PKESKs[0]; SOct sk; Oct out;
							gcry_error_t d = which ? PGP::AsymmetricDecryptElgamal(p->gk, p->myk, rcp.sec, sk) : PGP::AsymmetricDecryptRSA(p->me, rcp.sec, sk);
							if (!d && msg->Decrypt(sk, 0, out)) {
								TMCG_OpenPGP_Message *inner = NULL;
								if (PGP::MessageParse(out, 0, inner) && inner) { v = "ok"; eq = inner->literal_data == plain; delete inner; }
							}
						}
						delete msg;
					}
				}
				emit(std::string("prop.gpgx pkenc ") + rcp.type + " " + hx(prim.fpr) + " " + hx(kid) + " cipher=9 len=" + U(len) + " fmt=" + (asc ? "asc " : "bin ") + data_field(m, asc, TMCG_OPENPGP_ARMOR_MESSAGE) + " " + hx(plain) +
					tagtok(cls) + " => " + v + (eq ? " 1" : " 0"));
			};
			line(cat(esk, seipd), g.below(3) == 0, anon ? "honest:anon" : "honest");
			if (len != 16 && len != 1000) continue;
			size_t shl = header_len(seipd);
			{ Oct s2 = seipd; s2[shl + 1 + 18 + g.below(s2.size() - shl - 1 - 18 - 22)] ^= (unsigned char)(1u << g.below(8)); line(cat(esk, s2), false, "tamper:ct"); }
			{ Oct s2 = seipd; s2[s2.size() - 1 - g.below(20)] ^= (unsigned char)(1u << g.below(8)); line(cat(esk, s2), false, "tamper:mdc"); }
			{ Oct e2 = esk; e2[e2.size() - 1 - g.below(30)] ^= (unsigned char)(1u << g.below(8)); line(cat(e2, seipd), false, "tamper:esk"); }
		}
	}
}

void armor_lines(SplitMix &g, uint64_t round, uint64_t rounds, bool thorough)
{
	static const tmcg_openpgp_armor_t types[] = { TMCG_OPENPGP_ARMOR_MESSAGE, TMCG_OPENPGP_ARMOR_SIGNATURE, TMCG_OPENPGP_ARMOR_PRIVATE_KEY_BLOCK, TMCG_OPENPGP_ARMOR_PUBLIC_KEY_BLOCK };
	for (size_t n = 0; n <= 200; n++) for (int ti = 0; ti < 4; ti++) {
		if (!thorough && ((int)((n / rounds + round) % 4) != ti || n % rounds != round)) continue;   // quick: every length once per run, the type rotates
		Oct data = rnd_octets(g, n); std::string out; bool hdr = g.below(5) == 0;
		if (hdr) PGP::ArmorEncode(types[ti], "made by the gpgx harness " + U(n), data, out, g.coin()); else PGP::ArmorEncode(types[ti], data, out);
		Oct back; tmcg_openpgp_armor_t t = PGP::ArmorDecode(out, back);
		emit("prop.gpgx armor type=" + U((unsigned)types[ti]) + " hdr=" + (hdr ? "1" : "0") + " len=" + U(n) + " " + hx(data) + " " + hxs(out) + tagtok("honest") + " => " + (t == types[ti] && back == data ? "ok" : "refused"));
	}
}

bool read_file(const std::string &path, std::string &out)
{
	std::ifstream f(path.c_str(), std::ios::binary); if (!f) return false;
	std::ostringstream ss; ss << f.rdbuf(); out = ss.str(); return true;
}

int drv_gpgx(const Opts &o)
{
	// ---- second invocations: files prepared by the predicate
	bool second = false;
	for (size_t i = 0; i + 1 < o.extra.size(); i++) {
		if (o.extra[i] == "--decrypt-file") {
			second = true; std::string path = o.extra[i + 1], pass, data;
			for (size_t j = i + 2; j + 1 < o.extra.size(); j++) { if (o.extra[j] == "--decrypt-file") break; if (o.extra[j] == "--pass") { pass = unhex(o.extra[j + 1]); break; } }
			std::string r;
			if (!read_file(path, data)) r = "fail:read";
			else {
				Oct plain; bool asc = data.compare(0, 10, "-----BEGIN") == 0;
				r = guarded([&]() { std::string v = asc ? sym_decrypt(Oct(), data, pass, plain) : sym_decrypt(str_oct(data), "", pass, plain); return (v == "ok" || v == "compressed") ? v + " " + hx(plain) : v; });
			}
			emit("prop.gpgx s2kdec " + hxs(path) + " => " + r);
		} else if (o.extra[i] == "--dearmor-file") {
			second = true; std::string path = o.extra[i + 1], data;
			if (!read_file(path, data)) { emit("prop.gpgx dearmor " + hxs(path) + " => fail:read"); continue; }
			Oct back; std::string r = guarded([&]() { tmcg_openpgp_armor_t t = PGP::ArmorDecode(data, back); return U((unsigned)t) + " " + hx(back); });
			emit("prop.gpgx dearmor " + hxs(path) + " => " + r);
		}
	}
	if (second) return 0;

	bool thorough = o.tier == "thorough";
	std::set<std::string> kinds; { std::string k = o.val("--kinds", "pubkey,seckey,detsig,symenc,pkenc,armor"); std::stringstream ss(k); std::string t; while (std::getline(ss, t, ',')) kinds.insert(t); }
	{ char buf[PATH_MAX]; ssize_t n = readlink("/proc/self/exe", buf, sizeof buf - 1); std::string p = n > 0 ? std::string(buf, n) : std::string();
	  emit("prop.gpgx exe " + hxs(p) + " seed=" + U(o.seed) + " tier=" + o.tier + " => -"); }
	SplitMix g(o.seed * 0x9E3779B97F4A7C15ULL + 0x67707867ULL);
	time_t now = time(NULL);
	time_t clock = 1500000000 + (time_t)(o.seed % 1000) * 100000;    // creation times: one per key, all different
	uint64_t rounds = o.cases ? o.cases : 1;
	for (uint64_t r = 0; r < rounds; r++) {
		// sizes of the round
		static const unsigned rsabits[] = { 2048, 1536, 3072, 1024, 2047, 4096 };
		static const unsigned dsap[] = { 1024, 2048, 2048, 1536, 3072 }, dsaq[] = { 160, 256, 224, 160, 256 };
		// (the seed shifts the rotation: a quick run of one round still meets other sizes under other seeds)
		unsigned rb = rsabits[(r + o.seed - 1) % (thorough ? 6 : 4)], pi = (unsigned)((r + o.seed - 1) % (thorough ? 5 : 4));
		KeySet ks;
		gen_rsa(ks.rsa, g, rb, clock++); gen_rsa(ks.rsasub, g, rb, clock++); ks.rsasub.as_sub = true; finish_key(ks.rsasub);
		ks.grp = make_group(g, dsap[pi], dsaq[pi]);
		derive_dl(ks.dsa, "dsa", 17, ks.grp, g, clock++); derive_dl(ks.elg, "elg", 16, ks.grp, g, clock++); ks.elg.as_sub = true; finish_key(ks.elg);
		emit("# gpgx round " + U(r) + ": rsa " + U(rb) + ", dsa/elg " + U(dsap[pi]) + "/" + U(dsaq[pi]));
		Working w;
		if (kinds.count("pubkey")) pubkey_lines(g, ks, now, clock);
		// the working keys are needed by detsig and pkenc as well
		if (kinds.count("seckey") || kinds.count("detsig") || kinds.count("pkenc")) seckey_lines(g, ks, now, clock, w);
		if (kinds.count("detsig")) detsig_lines(g, w, now, r, thorough);
		if (kinds.count("symenc")) symenc_lines(g, r, thorough);
		if (kinds.count("pkenc")) pkenc_lines(g, w, thorough);
		if (kinds.count("armor")) armor_lines(g, r, rounds, thorough);
	}
	return 0;
}

} // namespace

REGISTER_DRIVER("gpgx", drv_gpgx);
