// C12: structure-aware mutation of valid exports / parameter streams / proofs / armor, each fed to
// the real entry point IN A FORKED CHILD under ASan+UBSan with a wall-clock limit.  The child's
// outcome (ok / reject / throw:<kind>, or trap:<signal|sanitizer>, timeout) is one `prop.parse.*`
// line; anything but a clean refusal is a property failure with the input as replay.
#include "common.hh"
#include <sys/resource.h>
#include <unistd.h>
#include <sys/wait.h>
#include <signal.h>
#include <fcntl.h>
#include <fstream>
#include <memory>
#include <aiounicast_select.hh>

typedef std::function<std::string(const std::string &)> Target;

// run f(input) in a child; returns the outcome string
static std::string in_child(const Target &f, const std::string &input, unsigned seconds = 30)
{
	int pfd[2]; if (pipe(pfd)) return "harness-error";
	fflush(stdout); fflush(stderr);
	pid_t pid = fork();
	if (pid == 0) {
		close(pfd[0]);
		// the limit is on CPU time (a loaded machine must not turn a 4 s parse into a "timeout"); the wall-clock
		// alarm, ten times as long, only catches a child that blocks without computing
		struct rlimit rl; rl.rlim_cur = seconds; rl.rlim_max = seconds + 5; setrlimit(RLIMIT_CPU, &rl);
		alarm(seconds * 10);
		int devnull = open("/dev/null", O_WRONLY); if (devnull >= 0) dup2(devnull, 2);
		std::string r = guarded([&]() { return f(input); });
		(void)!write(pfd[1], r.data(), r.size());
		_exit(0);
	}
	close(pfd[1]);
	std::string r; char b[256]; ssize_t k; while ((k = read(pfd[0], b, sizeof b)) > 0) r.append(b, k);
	close(pfd[0]);
	int st = 0; waitpid(pid, &st, 0);
	if (WIFSIGNALED(st)) return (WTERMSIG(st) == SIGALRM || WTERMSIG(st) == SIGXCPU || WTERMSIG(st) == SIGKILL) ? "timeout" : "trap:signal" + std::to_string(WTERMSIG(st));
	if (WIFEXITED(st) && WEXITSTATUS(st) != 0) return "trap:sanitizer-or-abort(exit" + std::to_string(WEXITSTATUS(st)) + ")";
	if (r.empty()) return "trap:no-result";
	return r;
}

static std::string mutate(const std::string &t, SplitMix &g)
{
	std::string s = t;
	if (s.empty()) return std::string(1, (char)g.below(256));
	switch (g.below(16)) {
	case 0: s.erase(g.below(s.size()), 1 + g.below(4)); break;
	case 1: s.insert(g.below(s.size() + 1), 1, (char)g.below(256)); break;
	case 2: s[g.below(s.size())] = (char)g.below(256); break;
	case 3: s = s.substr(0, g.below(s.size() + 1)); break;
	case 4: { size_t p = s.find_first_of("^|\n"); if (p != s.npos) s[p] = "^|\n"[g.below(3)]; } break;
	case 5: { // replace one decimal/base-62 field by an extreme value
		static const char *vals[] = { "0", "1", "-1", "2", "32", "33", "10", "11", "512", "513", "256", "257", "4294967296", "18446744073709551615", "18446744073709551616", "", " ", "-", "zzzzzzzzzzzzzzzzzzzzzzzzzzzzzzzzzzzzzzzzzzzzzzzzzzzzzzzzzzzz" };
		std::vector<size_t> seps; for (size_t i = 0; i < s.size(); i++) if (s[i] == '^' || s[i] == '|' || s[i] == '\n') seps.push_back(i);
		if (seps.size() < 2) break; size_t a = g.below(seps.size() - 1);
		s = s.substr(0, seps[a] + 1) + vals[g.below(19)] + s.substr(seps[a + 1]); } break;
	case 6: { size_t a = g.below(s.size()), b = g.below(s.size()); if (a > b) std::swap(a, b); s = s.substr(0, b) + s.substr(a, b - a) + s.substr(b); } break;
	case 7: { size_t a = g.below(s.size()), b = g.below(s.size()); if (a > b) std::swap(a, b); s.erase(a, b - a); } break; // drop a block
	case 8: s += s; break;
	case 9: { size_t p = g.below(s.size()); s.insert(p, "-"); } break;
	case 10: { size_t p = g.below(s.size()); s.insert(p, std::string(1 + g.below(9000), "0123456789AZaz#\n"[g.below(16)])); } break;
	case 11: for (auto &c : s) if (g.below(40) == 0) c = (char)g.below(256); break;
	case 12: { size_t nl = s.find('\n'); if (nl != s.npos) s = s.substr(nl + 1) + s.substr(0, nl + 1); } break; // rotate lines
	case 13: { std::string r; size_t n = g.below(60); for (size_t i = 0; i < n; i++) r += (char)g.below(256); s = r; } break;
	case 14: { size_t nl = s.find('\n'); if (nl != s.npos) s = "0\n" + s.substr(nl + 1); } break; // first value 0
	default: { size_t p = s.find('\n'); if (p != s.npos) { size_t q = s.find('\n', p + 1); if (q != s.npos) s.erase(p, q - p); } } break; // drop a line
	}
	return s;
}

// ---- valid samples
struct Samples {
	std::string vtmf_group, qr_group, pcom_group, ptc_group, vrhe_group, eotp_group, vsshe_group, pvss_state, dkg_state, rvss_state, zvss_state;
	std::string tcard, tsecret, tstack, tstacksecret, vopenstack, pubkey, seckey;
	std::string nizk_key, cp_proof, se_transcript;
	std::vector<std::string> armors;
	std::unique_ptr<BarnettSmartVTMF_dlog> vtmf;
	TMCG_Stack<VTMF_Card> s, s2;
};

static void build_samples(Samples &S, SplitMix &g)
{
	SmallGroup sg = make_group(g, 128, 64);
	{ std::ostringstream o; o << sg.p.v << std::endl << sg.q.v << std::endl << sg.g.v << std::endl << sg.k.v << std::endl; S.vtmf_group = o.str(); }
	{ std::istringstream in(S.vtmf_group); S.vtmf.reset(new BarnettSmartVTMF_dlog(in, 128, 64, false, true)); S.vtmf->KeyGenerationProtocol_GenerateKey(); S.vtmf->KeyGenerationProtocol_Finalize();
	  std::ostringstream o; S.vtmf->KeyGenerationProtocol_PublishKey(o); S.nizk_key = o.str(); }
	{ Z q, p; for (;;) { gen_bits(q, g, 127); mpz_setbit(q, 126); mpz_setbit(q, 0); mpz_setbit(q, 1); mpz_nextprime(q, q); mpz_mul_2exp(p, q, 1); mpz_add_ui(p, p, 1); if (mpz_sizeinbase(p, 2) == 128 && mpz_congruent_ui_p(p, 7, 8) && mpz_probab_prime_p(p, 30)) break; }
	  std::ostringstream o; o << p.v << std::endl << q.v << std::endl << "2" << std::endl << "2" << std::endl; S.qr_group = o.str(); }
	Z h; { Z e; gen_below(e, g, sg.q); mpz_add_ui(e, e, 2); mpz_powm(h, sg.g, e, sg.p); }
	{ PedersenCommitmentScheme c(3, sg.p, sg.q, sg.k, h, 128, 64); std::ostringstream o; c.PublishGroup(o); S.pcom_group = o.str(); }
	{ std::ostringstream o; o << sg.p.v << std::endl << sg.q.v << std::endl << sg.k.v << std::endl << sg.g.v << std::endl << h.v << std::endl; S.ptc_group = o.str(); }
	{ std::ostringstream o; o << sg.p.v << std::endl << sg.q.v << std::endl << sg.g.v << std::endl << h.v << std::endl; S.vrhe_group = o.str(); }
	{ std::ostringstream o; o << sg.p.v << std::endl << sg.q.v << std::endl << sg.g.v << std::endl; S.eotp_group = o.str(); }
	{ GrothVSSHE v(3, sg.p, sg.q, sg.k, sg.g, h, 16, 128, 64); std::ostringstream o; v.PublishGroup(o); S.vsshe_group = o.str(); }
	{ PedersenVSS v(3, 1, 0, sg.p, sg.q, sg.g, h, 128, 64, false, ""); std::ostringstream o; v.PublishState(o); S.pvss_state = o.str(); }
	{ GennaroJareckiKrawczykRabinDKG v(3, 1, 0, sg.p, sg.q, sg.g, h, 128, 64, false, false, ""); std::ostringstream o; v.PublishState(o); S.dkg_state = o.str(); }
	{ CanettiGennaroJareckiKrawczykRabinRVSS v(3, 1, 0, 1, sg.p, sg.q, sg.g, h, 128, 64, false, false, ""); std::ostringstream o; v.PublishState(o); S.rvss_state = o.str(); }
	{ CanettiGennaroJareckiKrawczykRabinZVSS v(3, 1, 0, 1, sg.p, sg.q, sg.g, h, 128, 64, false, false, ""); std::ostringstream o; v.PublishState(o); S.zvss_state = o.str(); }
	// QR-encoded card objects (2 players, 3 type bits) with arbitrary entries
	{ TMCG_Card c(2, 3); TMCG_CardSecret cs(2, 3); for (size_t a = 0; a < 2; a++) for (size_t b = 0; b < 3; b++) { gen_bits(&c.z[a][b], g, 100); gen_bits(&cs.r[a][b], g, 100); mpz_set_ui(&cs.b[a][b], g.below(2)); }
	  std::ostringstream o; o << c; S.tcard = o.str(); std::ostringstream o2; o2 << cs; S.tsecret = o2.str();
	  TMCG_Stack<TMCG_Card> st; st.push(c); st.push(c); st.push(c); std::ostringstream o3; o3 << st; S.tstack = o3.str();
	  TMCG_StackSecret<TMCG_CardSecret> ss; ss.push(1, cs); ss.push(0, cs); ss.push(2, cs); std::ostringstream o4; o4 << ss; S.tstacksecret = o4.str(); }
	{ SchindelhauerTMCG tm(2, 2, 4); TMCG_OpenStack<VTMF_Card> os; for (size_t i = 0; i < 3; i++) { VTMF_Card c; tm.TMCG_CreateOpenCard(c, S.vtmf.get(), i); os.push(i, c); S.s.push(c); }
	  // a cut-and-choose transcript (kappa = 2) for the verifier's receive path
	  TMCG_StackSecret<VTMF_CardSecret> ss; tm.TMCG_CreateStackSecret(ss, false, 3, S.vtmf.get()); tm.TMCG_MixStack(S.s, S.s2, ss, S.vtmf.get());
	  std::istringstream pin("2\n0\n1\n"); std::ostringstream pout; tm.TMCG_ProveStackEquality(S.s, S.s2, ss, false, S.vtmf.get(), pin, pout); S.se_transcript = pout.str(); }
	{ Z x, y, gg, hh, al; gen_below(al, g, sg.q); mpz_set(gg, sg.g); mpz_set(hh, h); mpz_powm(x, gg, al, sg.p); mpz_powm(y, hh, al, sg.p); std::ostringstream o; S.vtmf->CP_Prove(x, y, gg, hh, al, o, false);
	  std::ostringstream all; all << x.v << std::endl << y.v << std::endl << gg.v << std::endl << hh.v << std::endl << o.str(); S.cp_proof = all.str(); }
	{ TMCG_SecretKey sk("Alice", "alice@example.org", 1024, false); std::ostringstream o; o << sk; S.seckey = o.str(); TMCG_PublicKey pk(sk); std::ostringstream o2; o2 << pk; S.pubkey = o2.str(); }
	// armored OpenPGP literals of the repository's own test
	{ std::ifstream f("/repo/tests/t-rfc4880.cc"); std::string line, cur; bool in = false;
	  while (std::getline(f, line)) { size_t a = line.find('"'); if (a == 0) { size_t b = line.rfind('"'); std::string lit = line.substr(1, b - 1); std::string un; for (size_t i = 0; i < lit.size(); i++) { if (lit[i] == '\\' && i + 1 < lit.size()) { char c = lit[++i]; un += (c == 'r') ? '\r' : (c == 'n') ? '\n' : c; } else un += lit[i]; }
	      if (un.find("-----BEGIN") == 0) { cur = un; in = true; } else if (in) cur += un; if (in && un.find("-----END") == 0) { S.armors.push_back(cur); in = false; } } } }
}

// ---- structured OpenPGP signature packets: every subpacket type with body lengths at and around the
// limits the decoder knows (fixed-size context arrays), in the hashed or unhashed area
typedef std::vector<unsigned char> Oct;
static void put_newlen(Oct &o, size_t n)
{
	if (n < 192) o.push_back((unsigned char)n);
	else if (n < 8384) { n -= 192; o.push_back((unsigned char)((n >> 8) + 192)); o.push_back((unsigned char)(n & 0xFF)); }
	else { o.push_back(0xFF); o.push_back((unsigned char)(n >> 24)); o.push_back((unsigned char)(n >> 16)); o.push_back((unsigned char)(n >> 8)); o.push_back((unsigned char)n); }
}
static Oct small_sig_body(SplitMix &g, const Oct &hashed, const Oct &unhashed)
{
	Oct b; b.push_back(4); b.push_back((unsigned char)(g.below(4) == 0 ? g.below(256) : 0x00)); b.push_back(1); b.push_back(8);
	b.push_back((unsigned char)(hashed.size() >> 8)); b.push_back((unsigned char)hashed.size()); b.insert(b.end(), hashed.begin(), hashed.end());
	b.push_back((unsigned char)(unhashed.size() >> 8)); b.push_back((unsigned char)unhashed.size()); b.insert(b.end(), unhashed.begin(), unhashed.end());
	b.push_back(0x12); b.push_back(0x34);
	size_t bits = 8 + g.below(64); b.push_back((unsigned char)(bits >> 8)); b.push_back((unsigned char)bits); for (size_t i = 0; i < (bits + 7) / 8; i++) b.push_back((unsigned char)(i ? g.below(256) : 0x80 | g.below(128)));
	return b;
}
// the subpacket types whose bodies are copied into fixed-size arrays of the packet context, with the array size
static const struct { int type; size_t limit; } BOUNDED[] = { {6, 2048}, {11, 32}, {21, 32}, {22, 32}, {23, 2048}, {24, 2048}, {26, 2048}, {27, 32}, {28, 2048}, {29, 2048}, {30, 32}, {31, 2048}, {34, 32}, {20, 2048} };
static Oct gen_subpacket(SplitMix &g, int depth, int fixed_type = -1, size_t fixed_len = 0);
static Oct gen_subpacket(SplitMix &g, int depth, int fixed_type, size_t fixed_len)
{
	static const int types[] = { 2, 3, 4, 5, 6, 7, 9, 10, 11, 12, 16, 20, 21, 22, 23, 24, 25, 26, 27, 28, 29, 30, 31, 32, 33, 34, 35, 37, 39, 0, 1, 8, 100, 110, 127 };
	static const size_t lens[] = { 0, 1, 2, 3, 4, 5, 6, 8, 16, 20, 21, 22, 23, 32, 33, 34, 36, 64, 65, 190, 191, 192, 193, 254, 255, 256, 257, 1023, 1024, 1025, 2046, 2047, 2048, 2049, 2050, 2051, 2052, 4095, 4096, 4097, 8191, 8192, 8193, 16384 };
	int type = types[g.below(sizeof(types) / sizeof(types[0]))];
	size_t n = lens[g.below(sizeof(lens) / sizeof(lens[0]))];
	for (auto &b : BOUNDED) if (b.type == type && g.below(5) < 3) n = b.limit - 1 + g.below(5); // at and just beyond the array size
	if (fixed_type >= 0) { type = fixed_type; n = fixed_len; }
	Oct body;
	if (type == 32 && depth < 2 && g.below(3)) { Oct none; body = small_sig_body(g, g.coin() ? gen_subpacket(g, depth + 1) : none, none); }
	else { if (fixed_type < 0 && (type == 31 || type == 20) && g.coin()) { n += (type == 31) ? 2 : 8; } for (size_t i = 0; i < n; i++) body.push_back((unsigned char)(i < 8 && g.below(3) == 0 ? g.below(24) : g.below(256))); }
	if (type == 31 && body.size() >= 2) { body[0] = 1; body[1] = 8; }
	if (type == 20 && body.size() >= 8 && g.coin()) { size_t rest = body.size() - 8, nl = g.below(rest + 1); body[0] = 0x80; body[1] = body[2] = body[3] = 0; body[4] = (unsigned char)(nl >> 8); body[5] = (unsigned char)nl; body[6] = (unsigned char)((rest - nl) >> 8); body[7] = (unsigned char)(rest - nl); }
	Oct sp; put_newlen(sp, body.size() + 1); sp.push_back((unsigned char)(type | (g.below(6) == 0 ? 0x80 : 0))); sp.insert(sp.end(), body.begin(), body.end());
	return sp;
}
static std::string armor_of_sig(SplitMix &g, const Oct &hashed, const Oct &unhashed)
{
	Oct body = small_sig_body(g, hashed, unhashed), pkt; pkt.push_back(0xC2); put_newlen(pkt, body.size()); pkt.insert(pkt.end(), body.begin(), body.end());
	tmcg_openpgp_octets_t oct(pkt.begin(), pkt.end()); std::string out;
	CallasDonnerhackeFinneyShawThayerRFC4880::ArmorEncode(TMCG_OPENPGP_ARMOR_SIGNATURE, oct, out);
	return out;
}
// one subpacket of the given type and body length, optionally behind an embedded signature, hashed or unhashed area
static std::string gen_sig_armor_fixed(SplitMix &g, int type, size_t len, bool embedded_first, bool in_hashed)
{
	Oct area, other;
	if (embedded_first) { Oct none, e = small_sig_body(g, none, none), sp; put_newlen(sp, e.size() + 1); sp.push_back(32); sp.insert(sp.end(), e.begin(), e.end()); area = sp; }
	Oct sp = gen_subpacket(g, 0, type, len); area.insert(area.end(), sp.begin(), sp.end());
	return in_hashed ? armor_of_sig(g, area, other) : armor_of_sig(g, other, area);
}
static std::string gen_sig_armor(SplitMix &g)
{
	Oct hashed, unhashed;
	size_t k = 1 + g.below(3);
	for (size_t i = 0; i < k; i++) { Oct sp = gen_subpacket(g, 0); Oct &area = g.below(3) ? hashed : unhashed; if (area.size() + sp.size() < 65000) area.insert(area.end(), sp.begin(), sp.end()); }
	if (g.below(4) == 0) { // an embedded signature first, then the rest (a live pointer in the context while later subpackets are decoded)
		Oct none, e = small_sig_body(g, none, none), sp; put_newlen(sp, e.size() + 1); sp.push_back(32); sp.insert(sp.end(), e.begin(), e.end());
		if (hashed.size() + sp.size() < 65000) hashed.insert(hashed.begin(), sp.begin(), sp.end()); }
	Oct body = small_sig_body(g, hashed, unhashed), pkt; pkt.push_back(0xC2); put_newlen(pkt, body.size()); pkt.insert(pkt.end(), body.begin(), body.end());
	if (g.below(5) == 0) { Oct again = pkt; pkt.insert(pkt.end(), again.begin(), again.end()); }
	tmcg_openpgp_octets_t oct(pkt.begin(), pkt.end()); std::string out;
	CallasDonnerhackeFinneyShawThayerRFC4880::ArmorEncode(TMCG_OPENPGP_ARMOR_SIGNATURE, oct, out);
	return out;
}

static int drv_parse(const Opts &o)
{
	SplitMix g(o.seed ^ 0x70617273);
	Samples S; build_samples(S, g);
	struct T { const char *name; const std::string *sample; Target f; };
	auto grpchk = [](bool r) { return std::string(r ? "ok" : "reject"); };
	std::vector<T> targets = {
		{ "vtmf.ctor", &S.vtmf_group, [&](const std::string &in) { std::istringstream is(in); BarnettSmartVTMF_dlog v(is, 128, 64, false, true); return grpchk(v.CheckGroup()); } },
		{ "vtmf.ctor-canonical", &S.vtmf_group, [&](const std::string &in) { std::istringstream is(in); BarnettSmartVTMF_dlog v(is, 128, 64, true, true); return grpchk(v.CheckGroup()); } },
		{ "qr.ctor", &S.qr_group, [&](const std::string &in) { std::istringstream is(in); BarnettSmartVTMF_dlog_GroupQR v(is, 128, 64); Z a(5L); v.CheckElement(a); return grpchk(v.CheckGroup()); } },
		{ "pcom.ctor", &S.pcom_group, [&](const std::string &in) { std::istringstream is(in); PedersenCommitmentScheme v(3, is, 128, 64); return grpchk(v.CheckGroup()); } },
		{ "ptc.ctor", &S.ptc_group, [&](const std::string &in) { std::istringstream is(in); PedersenTrapdoorCommitmentScheme v(is, 128, 64); return grpchk(v.CheckGroup()); } },
		{ "vrhe.ctor", &S.vrhe_group, [&](const std::string &in) { std::istringstream is(in); HooghSchoenmakersSkoricVillegasVRHE v(is, 128, 64); return grpchk(v.CheckGroup()); } },
		{ "eotp.ctor", &S.eotp_group, [&](const std::string &in) { std::istringstream is(in); NaorPinkasEOTP v(is, 128, 64); return grpchk(v.CheckGroup()); } },
		{ "vsshe.ctor", &S.vsshe_group, [&](const std::string &in) { std::istringstream is(in); GrothVSSHE v(3, is, 16, 128, 64); return grpchk(v.CheckGroup()); } },
		{ "pvss.ctor", &S.pvss_state, [&](const std::string &in) { std::istringstream is(in); PedersenVSS v(is, 128, 64, false, ""); return grpchk(v.CheckGroup()); } },
		{ "gjkr.ctor", &S.dkg_state, [&](const std::string &in) { std::istringstream is(in); GennaroJareckiKrawczykRabinDKG v(is, 128, 64, false, false, ""); bool r = v.CheckGroup(); Z a(3L); v.CheckElement(a); return grpchk(r); } },
		{ "cgjkr-rvss.ctor", &S.rvss_state, [&](const std::string &in) { std::istringstream is(in); CanettiGennaroJareckiKrawczykRabinRVSS v(is, 128, 64, false, false, ""); return grpchk(v.CheckGroup()); } },
		{ "cgjkr-zvss.ctor", &S.zvss_state, [&](const std::string &in) { std::istringstream is(in); CanettiGennaroJareckiKrawczykRabinZVSS v(is, 128, 64, false, false, ""); return grpchk(v.CheckGroup()); } },
		{ "tcard.import", &S.tcard, [&](const std::string &in) { TMCG_Card c; return grpchk(c.import(in)); } },
		{ "tsecret.import", &S.tsecret, [&](const std::string &in) { TMCG_CardSecret c; return grpchk(c.import(in)); } },
		{ "tstack.import", &S.tstack, [&](const std::string &in) { TMCG_Stack<TMCG_Card> c; bool r = c.import(in); if (r && c.size()) { TMCG_Card x = c[0]; (void)(x == c[c.size() - 1]); } return grpchk(r); } },
		{ "tstacksecret.import", &S.tstacksecret, [&](const std::string &in) { TMCG_StackSecret<TMCG_CardSecret> c; bool r = c.import(in); if (r) c.find_position(0); return grpchk(r); } },
		{ "pubkey.import+check", &S.pubkey, [&](const std::string &in) { TMCG_PublicKey k; if (!k.import(in)) return std::string("reject"); return grpchk(k.check()); } },
		{ "pubkey.verify", &S.pubkey, [&](const std::string &in) { TMCG_PublicKey k; if (!k.import(in)) return std::string("reject"); return grpchk(k.verify("data", k.sig)); } },
		{ "seckey.import+check", &S.seckey, [&](const std::string &in) { TMCG_SecretKey k; if (!k.import(in)) return std::string("reject"); return grpchk(k.check()); } },
		{ "vtmf.updatekey", &S.nizk_key, [&](const std::string &in) { std::istringstream is(in); return grpchk(S.vtmf->KeyGenerationProtocol_UpdateKey(is)); } },
		{ "vtmf.removekey", &S.nizk_key, [&](const std::string &in) { std::istringstream is(in); return grpchk(S.vtmf->KeyGenerationProtocol_RemoveKey(is)); } },
		{ "vtmf.cp_verify", &S.cp_proof, [&](const std::string &in) { std::istringstream is(in); Z x, y, gg, hh; is >> x.v >> y.v >> gg.v >> hh.v; return grpchk(S.vtmf->CP_Verify(x, y, gg, hh, is, false)); } },
		{ "vtmf.or_verify", &S.cp_proof, [&](const std::string &in) { std::istringstream is(in); Z x, y, gg, hh; is >> x.v >> y.v >> gg.v >> hh.v; return grpchk(S.vtmf->OR_Verify(x, y, gg, hh, is)); } },
		{ "vtmf.dec_update", &S.cp_proof, [&](const std::string &in) { std::istringstream is(in); Z c1; mpz_set(c1, S.vtmf->g); return grpchk(S.vtmf->VerifiableDecryptionProtocol_Verify_Update(c1, is)); } },
		{ "se.verify", &S.se_transcript, [&](const std::string &in) { std::istringstream is(in); std::ostringstream os; SchindelhauerTMCG tm(2, 2, 4); coins.script.assign({0, 1}); return grpchk(tm.TMCG_VerifyStackEquality(S.s, S.s2, false, S.vtmf.get(), is, os)); } },
		{ "pgp.armor_decode", nullptr, [&](const std::string &in) { tmcg_openpgp_octets_t out; int t = CallasDonnerhackeFinneyShawThayerRFC4880::ArmorDecode(in, out); return std::string(t ? "ok" : "reject"); } },
		{ "pgp.radix64_decode", nullptr, [&](const std::string &in) { tmcg_openpgp_octets_t out; CallasDonnerhackeFinneyShawThayerRFC4880::Radix64Decode(in, out); return std::string("ok"); } },
		{ "pgp.pubkeyblock_parse", nullptr, [&](const std::string &in) { TMCG_OpenPGP_Pubkey *pub = NULL; bool r = CallasDonnerhackeFinneyShawThayerRFC4880::PublicKeyBlockParse(in, 0, pub); if (r && pub) delete pub; return grpchk(r); } },
		{ "pgp.signature_parse", nullptr, [&](const std::string &in) { TMCG_OpenPGP_Signature *sig = NULL; bool r = CallasDonnerhackeFinneyShawThayerRFC4880::SignatureParse(in, 0, sig); if (r && sig) delete sig; return grpchk(r); } },
		{ "pgp.signatures_parse", nullptr, [&](const std::string &in) { TMCG_OpenPGP_Signatures sigs; bool r = CallasDonnerhackeFinneyShawThayerRFC4880::SignaturesParse(in, 0, sigs); for (size_t i = 0; i < sigs.size(); i++) delete sigs[i]; return grpchk(r); } },
		{ "pgp.packet_decode", nullptr, [&](const std::string &in) { tmcg_openpgp_octets_t oct; if (!CallasDonnerhackeFinneyShawThayerRFC4880::ArmorDecode(in, oct)) return std::string("reject");
			size_t n = 0; while (!oct.empty() && n++ < 64) { tmcg_openpgp_packet_ctx_t ctx; tmcg_openpgp_octets_t cur; tmcg_openpgp_notations_t nt; tmcg_openpgp_multiple_octets_t es, rf;
				tmcg_openpgp_byte_t tag = CallasDonnerhackeFinneyShawThayerRFC4880::PacketDecode(oct, 0, ctx, cur, nt, es, rf); CallasDonnerhackeFinneyShawThayerRFC4880::PacketContextRelease(ctx); if (tag == 0 || tag == 0xFA || tag == 0xFB || tag == 0xFC || tag == 0xFD || tag == 0xFE) return std::string("reject"); }
			return std::string("ok"); } },
		{ "pgp.message_parse", nullptr, [&](const std::string &in) { TMCG_OpenPGP_Message *msg = NULL; bool r = CallasDonnerhackeFinneyShawThayerRFC4880::MessageParse(in, 0, msg); if (r && msg) delete msg; return grpchk(r); } },
		{ "pgp.prvkeyblock_parse", nullptr, [&](const std::string &in) { TMCG_OpenPGP_Prvkey *prv = NULL; bool r = CallasDonnerhackeFinneyShawThayerRFC4880::PrivateKeyBlockParse(in, 0, "", prv); if (r && prv) delete prv; return grpchk(r); } },
		{ "pgp.keyring_parse", nullptr, [&](const std::string &in) { TMCG_OpenPGP_Keyring *ring = NULL; bool r = CallasDonnerhackeFinneyShawThayerRFC4880::PublicKeyringParse(in, 0, ring); if (r && ring) delete ring; return grpchk(r); } },
	};
	// binary OpenPGP packets: de-armor a sample, mutate the octets, re-armor without checksum
	auto pgp_binary_mutation = [&](const std::string &armor) {
		tmcg_openpgp_octets_t oct; int t = CallasDonnerhackeFinneyShawThayerRFC4880::ArmorDecode(armor, oct); if (!t || oct.empty()) return armor;
		std::string raw(oct.begin(), oct.end()); raw = mutate(raw, g); if (g.coin()) { size_t p = g.below(raw.size() ? raw.size() : 1); if (raw.size()) raw[p] = (char)(g.coin() ? 0xFF : g.below(256)); }
		tmcg_openpgp_octets_t o2(raw.begin(), raw.end()); std::string out; CallasDonnerhackeFinneyShawThayerRFC4880::ArmorEncode((tmcg_openpgp_armor_t)t, o2, out); return out; };
	if (!o.val("--replay").empty()) { // in-process replay of one input: parse --replay <target> --input <file>
		std::ifstream f(o.val("--input").c_str(), std::ios::binary); std::stringstream ss; ss << f.rdbuf();
		for (auto &t : targets) if (o.val("--replay") == t.name) { std::string r = guarded([&]() { return t.f(ss.str()); }); emit(std::string("prop.parse.") + t.name + " replay => " + r); }
		return 0;
	}
	// every run: each bounded subpacket type with body lengths around its array size (and the extra octets some types carry)
	for (auto &b : BOUNDED) for (size_t len = b.limit - 1; len <= b.limit + 4; len++) for (int emb = 0; emb < 2; emb++) {
		std::string input = gen_sig_armor_fixed(g, b.type, len + (b.type == 20 ? 8 : 0), emb == 1, (len + emb) % 2 == 0);
		for (auto &t : targets) { std::string tn = t.name; if (tn != "pgp.signatures_parse" && tn != "pgp.packet_decode") continue;
			std::string out = in_child(t.f, input);
			std::string hx = hexs(input); if (hx.size() > 1200 && out.compare(0, 4, "trap") && out != "timeout") hx = hx.substr(0, 1200) + "..";
			emit(std::string("prop.parse.") + t.name + " " + hx + " => " + out); }
	}
	// five-octet subpacket lengths up to 2^32 - 1 (finding F44: headlen + len was computed in 32 bits), hashed and unhashed area
	for (uint32_t len : { 0xFFFFFFFFu, 0xFFFFFFFEu, 0xFFFFFFFBu, 0xFFFFFFFAu, 0xFFFFFFF9u, 0x80000000u, 0x7FFFFFFFu, 0x00010000u, 0x0000FFFFu, 7u, 6u, 5u, 1u, 0u })
	  for (int area = 0; area < 2; area++) for (int ty : { 2, 16, 20, 32, 100 }) {
		Oct sp; sp.push_back(0xFF); sp.push_back((unsigned char)(len >> 24)); sp.push_back((unsigned char)(len >> 16)); sp.push_back((unsigned char)(len >> 8)); sp.push_back((unsigned char)len);
		sp.push_back((unsigned char)ty); for (int i = 0; i < 4 + (int)g.below(6); i++) sp.push_back((unsigned char)g.below(256));
		Oct none; std::string input = area ? armor_of_sig(g, none, sp) : armor_of_sig(g, sp, none);
		for (auto &t : targets) { std::string tn = t.name; if (tn != "pgp.signatures_parse" && tn != "pgp.packet_decode" && tn != "pgp.signature_parse") continue;
			std::string out = in_child(t.f, input);
			emit(std::string("prop.parse.") + t.name + " " + hexs(input) + " => " + out); }
	}
	// Notation Data carries two lengths (name, value), each bounded by its own 2048-octet array: sweep each around the
	// array size with the other one small (seeded change C12b: the value length was checked against the wrong field)
	for (int which = 0; which < 2; which++) for (size_t len = 2046; len <= 2052; len++) for (size_t other : { (size_t)0, (size_t)1, (size_t)7 }) {
		size_t nl = which ? other : len, vl = which ? len : other;
		Oct body; body.push_back(0x80); body.push_back(0); body.push_back(0); body.push_back(0);
		body.push_back((unsigned char)(nl >> 8)); body.push_back((unsigned char)nl); body.push_back((unsigned char)(vl >> 8)); body.push_back((unsigned char)vl);
		for (size_t i = 0; i < nl + vl; i++) body.push_back((unsigned char)(0x41 + g.below(26)));
		Oct sp; put_newlen(sp, body.size() + 1); sp.push_back(20); sp.insert(sp.end(), body.begin(), body.end());
		Oct none; std::string input = ((len + other) % 2) ? armor_of_sig(g, sp, none) : armor_of_sig(g, none, sp);
		for (auto &t : targets) { std::string tn = t.name; if (tn != "pgp.signatures_parse" && tn != "pgp.packet_decode") continue;
			std::string out = in_child(t.f, input);
			std::string hx = hexs(input); if (hx.size() > 1200 && out.compare(0, 4, "trap") && out != "timeout") hx = hx.substr(0, 1200) + "..";
			emit(std::string("prop.parse.") + t.name + " " + hx + " => " + out); }
	}
	for (uint64_t c = 0; c < o.cases; c++) {
		for (size_t ti = 0; ti < targets.size(); ti++) {
			const T &t = targets[ti];
			std::string input;
			if (t.sample) input = (c == 0) ? *t.sample : mutate(*t.sample, g);
			else { if (S.armors.empty()) continue; const std::string &a = S.armors[g.below(S.armors.size())]; input = (c == 0) ? a : (g.coin() ? mutate(a, g) : pgp_binary_mutation(a));
				std::string tn = t.name; if (c > 0 && (tn == "pgp.signature_parse" || tn == "pgp.signatures_parse" || tn == "pgp.packet_decode") && g.below(4)) input = gen_sig_armor(g); }
			if (c > 0 && g.below(3) == 0) input = mutate(input, g); // double mutation
			std::string out = in_child(t.f, input);
			std::string hx = hexs(input); if (hx.size() > 1200 && out.compare(0, 4, "trap") && out != "timeout") hx = hx.substr(0, 1200) + "..";
			emit(std::string("prop.parse.") + t.name + " " + hx + " => " + out);
		}
	}
	return 0;
}
REGISTER_DRIVER("parse", drv_parse);
