// In-memory point-to-point layer for the reliable-broadcast checks (C14).
// Every party owns one mem_unicast; what it sends is appended to a harness-owned pool, what it
// receives is the ONE message the harness has staged for it.  The harness is the network.
#ifndef VERIF_MEM_UNICAST_HH
#define VERIF_MEM_UNICAST_HH
#include "common.hh"
#include <aiounicast.hh>

struct WireMsg {
	size_t src = 0, dst = 0; Z v[5]; uint64_t serial = 0;
	std::string body() const { return v[0].str() + ":" + v[1].str() + ":" + v[2].str() + ":" + v[3].str() + ":" + v[4].str(); }
};

struct MemNet {
	std::vector<WireMsg> pool;      // in flight
	std::vector<WireMsg> history;   // everything ever sent or injected
	uint64_t serial = 0;
};

class mem_unicast : public aiounicast
{
	public:
		MemNet *net;
		bool has_staged = false; WireMsg staged;
		// bookkeeping of the current library call
		bool recv_called = false, recv_returned = false; WireMsg recv_msg;
		std::vector<WireMsg> sent_now;
		size_t scalar_sends = 0, bad_sends = 0;

		mem_unicast(size_t n_in, size_t j_in, MemNet *net_in):
			aiounicast(n_in, j_in, aio_scheduler_direct, aio_timeout_none, false, false, false), net(net_in) {}

		void begin_call() { recv_called = recv_returned = false; sent_now.clear(); }
		void stage(const WireMsg &w) { staged = w; has_staged = true; }

		virtual bool Send(mpz_srcptr m, const size_t i_in, const time_t timeout = aio_timeout_default)
		{ (void)m; (void)i_in; (void)timeout; scalar_sends++; return true; } // not used by the RBC class
		virtual bool Send(const std::vector<mpz_srcptr> &m, const size_t i_in, const time_t timeout = aio_timeout_default)
		{
			(void)timeout;
			if (i_in >= n || m.size() != 5) { bad_sends++; return false; }
			WireMsg w; w.src = j; w.dst = i_in; w.serial = net->serial++;
			for (size_t k = 0; k < 5; k++) mpz_set(w.v[k], m[k]);
			net->pool.push_back(w); net->history.push_back(w); sent_now.push_back(w);
			numWrite++;
			return true;
		}
		virtual bool Receive(mpz_ptr m, size_t &i_out, const size_t scheduler = aio_scheduler_default, const time_t timeout = aio_timeout_default)
		{ (void)m; (void)scheduler; (void)timeout; i_out = n; return false; }
		virtual bool Receive(std::vector<mpz_ptr> &m, size_t &i_out, const size_t scheduler = aio_scheduler_default, const time_t timeout = aio_timeout_default)
		{
			(void)scheduler; (void)timeout;
			recv_called = true;
			if (!has_staged || m.size() != 5) { i_out = n; return false; }
			for (size_t k = 0; k < 5; k++) mpz_set(m[k], staged.v[k]);
			i_out = staged.src; recv_msg = staged; has_staged = false; recv_returned = true;
			numRead++;
			return true;
		}
		virtual void Reset(const size_t i_in, const bool input) { (void)i_in; (void)input; }
		virtual ~mem_unicast() {}
};
#endif
