// C17: the two-party coin flip against a scripted peer, with the byte-level ORDER of the honest
// side's reads and writes recorded (commit before reveal).
#include "common.hh"
#include <memory>

// input stream buffer that serves one line per refill and records how many complete lines the
// party had written to its output at the moment it needed more input
struct LineFeed : public std::streambuf {
	std::vector<std::string> lines; size_t next = 0; std::ostringstream *out; std::vector<size_t> out_lines_at_read; std::string cur; bool eof_hit = false; size_t out_at_eof = 0;
	LineFeed(const std::vector<std::string> &l, std::ostringstream *o) : lines(l), out(o) {}
	size_t out_count() const { std::string s = out->str(); size_t n = 0; for (char c : s) if (c == '\n') n++; return n; }
	int_type underflow() override {
		if (next >= lines.size()) { if (!eof_hit) { eof_hit = true; out_at_eof = out_count(); } return traits_type::eof(); }
		out_lines_at_read.push_back(out_count());
		cur = lines[next++] + "\n";
		setg(&cur[0], &cur[0], &cur[0] + cur.size());
		return traits_type::to_int_type(cur[0]);
	}
};

static int drv_coin(const Opts &o)
{
	SplitMix g(o.seed ^ 0x636f696e);
	coins.log = true;
	for (uint64_t c = 0; c < o.cases; c++) {
		unsigned pbits = (c % 3 == 0) ? 64 : 128, qbits = pbits / 2;
		SmallGroup sg = make_group(g, pbits, qbits);
		Z h; { Z e; do { gen_below(e, g, sg.q); mpz_powm(h, sg.g, e, sg.p); } while (!mpz_cmp_ui(h, 1) || !mpz_cmp(h, sg.g)); }
		JareckiLysyanskayaEDCF edcf(2, 0, sg.p, sg.q, sg.g, h, pbits, qbits);
		size_t role = g.below(2);
		// the peer's honest values
		Z a, ha, Cj, t1, t2; gen_below(a, g, sg.q); gen_below(ha, g, sg.q);
		mpz_powm(t1, sg.g, a, sg.p); mpz_powm(t2, h, ha, sg.p); mpz_mul(Cj, t1, t2); mpz_mod(Cj, Cj, sg.p);
		std::vector<std::string> peer; std::vector<std::string> peer_tok;
		auto push = [&](mpz_srcptr v) { std::ostringstream s; s << v; peer.push_back(s.str()); peer_tok.push_back(zs(v)); };
		int dev = (c < 3) ? 0 : g.below(12);
		Z x;
		switch (dev) {
		case 0: case 1: case 2: push(Cj); push(a); push(ha); break;                         // honest
		case 3: mpz_add_ui(x, a, 1); push(Cj); push(x); push(ha); break;                      // opening does not match
		case 4: mpz_add_ui(x, ha, 1); push(Cj); push(a); push(x); break;
		case 5: mpz_sub(x, a, sg.q); push(Cj); push(x); push(ha); break;                      // equivalent representative a - q
		case 6: mpz_add(x, a, sg.q); push(Cj); push(x); push(ha); break;                      // a + q: out of range
		case 7: mpz_sub(x, sg.p, Cj); push(x); push(a); push(ha); break;                      // commitment outside the group
		case 8: push(Cj); break;                                                             // withholds the opening
		case 9: break;                                                                       // sends nothing
		case 10: push(Cj); push(a); break;                                                   // withholds the randomiser
		default: push(Cj); peer.push_back("#!garbage"); peer_tok.push_back("x"); push(ha); break; // unparsable line
		}
		std::ostringstream out, err; LineFeed feed(peer, &out); std::istream in(&feed);
		coins.take();
		Z coin; std::string res = guarded([&]() { return std::string(edcf.Flip_twoparty(role, coin, in, out, err) ? coin.str() : "fail"); });
		std::vector<CoinLogEntry> es = coins.take();
		// the first draw is the fault-simulation coin (8 bytes), then c and hat c
		Z cc, hc; size_t k = 0; for (auto &e : es) { if (e.bytes.size() == 8) continue; if (k == 0) { mpz_import(cc, e.bytes.size(), 1, 1, 1, 0, e.bytes.data()); mpz_mod(cc, cc, sg.q); } else if (k == 1) { mpz_import(hc, e.bytes.size(), 1, 1, 1, 0, e.bytes.data()); mpz_mod(hc, hc, sg.q); } k++; }
		// rebuild the action sequence from the output lines and the read points
		std::vector<std::string> outl; { std::istringstream os(out.str()); std::string l; while (std::getline(os, l)) { Z v; mpz_set_str(v, l.c_str(), TMCG_MPZ_IO_BASE); outl.push_back(v.str()); } }
		std::string acts = "["; size_t emitted = 0; auto add = [&](const std::string &s) { if (acts.size() > 1) acts += ","; acts += s; };
		for (size_t r = 0; r < feed.out_lines_at_read.size(); r++) {
			while (emitted < feed.out_lines_at_read[r] && emitted < outl.size()) add("s:" + outl[emitted++]);
			if (peer_tok[r] == "x") { add("rf"); break; } else add("r:" + peer_tok[r]);
		}
		if (feed.eof_hit) { while (emitted < feed.out_at_eof && emitted < outl.size()) add("s:" + outl[emitted++]); bool garb = false; for (size_t r = 0; r < feed.out_lines_at_read.size(); r++) if (peer_tok[r] == "x") garb = true; if (!garb) add("rf"); }
		while (emitted < outl.size()) add("s:" + outl[emitted++]);
		acts += "]";
		std::string pl = "["; for (size_t i = 0; i < peer_tok.size(); i++) { if (i) pl += ","; pl += peer_tok[i]; } pl += "]";
		emit("coin.flip2 " + sg.p.str() + " " + sg.q.str() + " " + sg.g.str() + " " + h.str() + " " + cc.str() + " " + hc.str() + " " + pl + " tag:dev" + std::to_string(dev) + " => " + acts + " " + res);
	}
	return 0;
}
REGISTER_DRIVER("coin", drv_coin);
