// C03 / C04 / C05: proofs of knowledge of the discrete-log VTMF and the cut-and-choose
// stack equality proof.  Every prover and verifier entry point of the real library is run
// separately; the model recomputes each side from the same inputs, coins and oracle answers.
#include "common.hh"
#include <memory>

static std::string oracle_log()
{
	std::vector<std::string> qs; qs.swap(hashlog.shash_inputs); hashlog.raw.clear();
	bool was = hashlog.log; hashlog.log = false;
	std::string s = "[";
	for (size_t i = 0; i < qs.size(); i++) {
		Z a; tmcg_mpz_shash(a, qs[i]);
		if (i) s += ",";
		s += hexs(qs[i]) + ":" + a.str();
	}
	hashlog.log = was;
	return s + "]";
}

// value of a `tmcg_mpz_srandomm(·, m)` draw from its logged bytes
static void coin_mod(mpz_ptr r, const CoinLogEntry &e, mpz_srcptr m)
{
	mpz_import(r, e.bytes.size(), 1, 1, 1, 0, e.bytes.data()); mpz_mod(r, r, m);
}
// script the next srandomm(·, m) draw to return exactly v (0 <= v < m)
static void script_mod(mpz_srcptr v, mpz_srcptr m)
{
	size_t n = (mpz_sizeinbase(m, 2) + 64 + 7) / 8;
	std::vector<unsigned char> b(n, 0); size_t cnt = 0;
	std::vector<unsigned char> tmp(n + 8, 0);
	mpz_export(tmp.data(), &cnt, 1, 1, 1, 0, v);
	memcpy(b.data() + (n - cnt), tmp.data(), cnt);
	coins.script.insert(coins.script.end(), b.begin(), b.end());
}

struct Ctx {
	SmallGroup sg; bool qr; unsigned pbits, qbits; std::string grp, kind;
	std::unique_ptr<BarnettSmartVTMF_dlog> A, B;
	std::string pqg() const { return zs(A->p) + " " + zs(A->q) + " " + zs(A->g); }
	std::string pqgh() const { return pqg() + " " + zs(A->h); }
};

static void rand_elem(const Ctx &c, SplitMix &g, mpz_ptr a) { Z e; gen_below(e, g, c.A->q); mpz_powm(a, c.A->g, e, c.A->p); }

// the mutation catalogue of DESIGN.md §5 C05; returns false when the mutation is the identity
static bool mutate(SplitMix &g, int how, mpz_ptr v, const Ctx &c, std::string &name)
{
	Z old; mpz_set(old, v);
	switch (how) {
	case 0: mpz_add_ui(v, v, 1); name = "plus1"; break;
	case 1: mpz_sub_ui(v, v, 1); name = "minus1"; break;
	case 2: mpz_set_ui(v, 0); name = "zero"; break;
	case 3: mpz_set_ui(v, 1); name = "one"; break;
	case 4: mpz_sub_ui(v, c.A->p, 1); name = "pm1"; break;
	case 5: mpz_add(v, v, c.A->q); name = "plusq"; break;
	case 6: mpz_add(v, v, c.A->p); name = "plusp"; break;
	case 7: mpz_neg(v, v); name = "neg"; break;
	case 8: rand_elem(c, g, v); name = "otherelem"; break;
	case 9: gen_below(v, g, c.A->q); name = "otherexp"; break;
	case 10: mpz_sub(v, c.A->p, v); name = "negelem"; break;   // p - v: element of order 2q
	case 11: mpz_mul_2exp(v, v, 300); name = "huge"; break;
	default: mpz_mul_ui(v, v, 2); mpz_mod(v, v, c.A->p); name = "times2"; break;
	}
	return mpz_cmp(old, v) != 0;
}
static const int NMUT = 13;

static std::string b2s(bool b) { return b ? "1" : "0"; }

static void make_ctx(Ctx &c, SplitMix &g, uint64_t idx, bool thorough)
{
	c.qr = (idx % 5 == 4);
	switch (g.below(thorough ? 5 : 3)) { case 0: c.pbits = 64; c.qbits = 24; break; case 1: c.pbits = 128; c.qbits = 64; break; case 2: c.pbits = 256; c.qbits = 160; break; case 3: c.pbits = 512; c.qbits = 160; break; default: c.pbits = 1024; c.qbits = 256; break; }
	std::ostringstream os; Z P, Q, G, K;
	if (c.qr) {
		if (c.pbits > 256 && !thorough) c.pbits = 256;
		for (;;) { gen_bits(Q, g, c.pbits - 1); mpz_setbit(Q, c.pbits - 2); mpz_setbit(Q, 0); mpz_setbit(Q, 1); mpz_nextprime(Q, Q); mpz_mul_2exp(P, Q, 1); mpz_add_ui(P, P, 1);
			if (mpz_sizeinbase(P, 2) == c.pbits && mpz_congruent_ui_p(P, 7, 8) && mpz_probab_prime_p(P, 30)) break; }
		mpz_set_ui(G, 2); mpz_set_ui(K, 2); c.qbits = c.pbits / 2;
		os << P.v << std::endl << Q.v << std::endl << G.v << std::endl << K.v << std::endl; c.grp = os.str();
		std::istringstream i1(c.grp), i2(c.grp);
		c.A.reset(new BarnettSmartVTMF_dlog_GroupQR(i1, c.pbits, c.qbits)); c.B.reset(new BarnettSmartVTMF_dlog_GroupQR(i2, c.pbits, c.qbits));
		c.kind = "qr";
	} else {
		c.sg = make_group(g, c.pbits, c.qbits);
		os << c.sg.p.v << std::endl << c.sg.q.v << std::endl << c.sg.g.v << std::endl << c.sg.k.v << std::endl; c.grp = os.str();
		std::istringstream i1(c.grp), i2(c.grp);
		c.A.reset(new BarnettSmartVTMF_dlog(i1, c.pbits, c.qbits, false, true)); c.B.reset(new BarnettSmartVTMF_dlog(i2, c.pbits, c.qbits, false, true));
		c.kind = "schnorr";
	}
}

static int drv_zk(const Opts &o)
{
	SplitMix g(o.seed ^ 0x7a6b);
	bool thorough = (o.tier == "thorough");
	coins.log = true; hashlog.log = true;
	for (uint64_t cidx = 0; cidx < o.cases; cidx++) {
		Ctx c; make_ctx(c, g, cidx, thorough);
		BarnettSmartVTMF_dlog *A = c.A.get(), *B = c.B.get();
		Z v, cc, rr, key, t1, t2, t3;
		// ------------------------------------------------ key share NIZK
		A->KeyGenerationProtocol_GenerateKey(); B->KeyGenerationProtocol_GenerateKey();
		coins.take(); oracle_log();
		std::ostringstream pk; A->KeyGenerationProtocol_PublishKey(pk);
		{ std::vector<CoinLogEntry> es = coins.take(); coin_mod(v, es.at(0), A->q); }
		{ std::istringstream is(pk.str()); is >> key.v >> cc.v >> rr.v; }
		emit("zk.nizk.prove " + c.pqg() + " " + zs(A->x_i) + " " + v.str() + " " + oracle_log() + " tag:honest => " + cc.str() + " " + rr.str());
		for (int m = -1; m < 3 * NMUT; m++) {
			Z k2, c2, r2; mpz_set(k2, key); mpz_set(c2, cc); mpz_set(r2, rr); std::string nm = "honest", tag = "tag:honest";
			if (m >= 0) {
				if (g.below(thorough ? 1 : 3)) continue;
				mpz_ptr tgt = (m / NMUT == 0) ? (mpz_ptr)k2 : (m / NMUT == 1) ? (mpz_ptr)c2 : (mpz_ptr)r2;
				if (!mutate(g, m % NMUT, tgt, c, nm)) continue;
				tag = std::string("tag:mut:") + ((m / NMUT == 0) ? "key" : (m / NMUT == 1) ? "c" : "r") + ":" + nm;
			}
			std::string out = guarded([&]() { return b2s(B->KeyGenerationProtocol_VerifyNIZK(k2, c2, r2)); });
			emit("zk.nizk.verify " + c.kind + " " + c.pqg() + " " + k2.str() + " " + c2.str() + " " + r2.str() + " " + oracle_log() + " " + tag + " => " + out);
		}
		// equivalent representative r - q is accepted by design (|r| < q)
		{ Z r2; mpz_sub(r2, rr, A->q); std::string out = guarded([&]() { return b2s(B->KeyGenerationProtocol_VerifyNIZK(key, cc, r2)); });
		  emit("zk.nizk.verify " + c.kind + " " + c.pqg() + " " + key.str() + " " + cc.str() + " " + r2.str() + " " + oracle_log() + (mpz_sgn(rr) ? " tag:equiv:r" : " tag:mut:r:minusq") + " => " + out); }
		// common key on both sides
		{ std::istringstream is(pk.str()); if (!B->KeyGenerationProtocol_UpdateKey(is)) return 3; }
		{ std::ostringstream pk2; B->KeyGenerationProtocol_PublishKey(pk2); std::istringstream is(pk2.str()); if (!A->KeyGenerationProtocol_UpdateKey(is)) return 3; }
		A->KeyGenerationProtocol_Finalize(); B->KeyGenerationProtocol_Finalize();
		coins.take(); oracle_log();
		// ------------------------------------------------ Chaum-Pedersen, both modes
		for (int tab = 0; tab < 2; tab++) {
			Z gg, hh, al, x, y, om;
			if (tab) { mpz_set(gg, A->g); mpz_set(hh, A->h); } else { rand_elem(c, g, gg); rand_elem(c, g, hh); }
			gen_below(al, g, A->q); mpz_powm(x, gg, al, A->p); mpz_powm(y, hh, al, A->p);
			bool cheat = (g.below(4) == 0); std::string tag0 = "tag:honest";
			if (cheat) { Z al2; do gen_below(al2, g, A->q); while (!mpz_cmp(al2, al)); mpz_powm(y, hh, al2, A->p); tag0 = "tag:cheat:unequal-logs"; }
			std::ostringstream pr; coins.take();
			A->CP_Prove(x, y, gg, hh, al, pr, tab);
			{ std::vector<CoinLogEntry> es = coins.take(); coin_mod(om, es.at(0), A->q); }
			{ std::istringstream is(pr.str()); is >> cc.v >> rr.v; }
			std::string stmt = zs(x) + " " + zs(y) + " " + zs(gg) + " " + zs(hh);
			emit("zk.cp.prove " + c.pqgh() + " " + stmt + " " + al.str() + " " + om.str() + " " + b2s(tab) + " " + oracle_log() + " " + tag0 + " => " + cc.str() + " " + rr.str());
			for (int m = -1; m < 6 * NMUT; m++) {
				Z f[6]; mpz_set(f[0], x); mpz_set(f[1], y); mpz_set(f[2], gg); mpz_set(f[3], hh); mpz_set(f[4], cc); mpz_set(f[5], rr);
				std::string tag = tag0, nm;
				if (m >= 0) {
					if (g.below(thorough ? 1 : 4)) continue;
					if (!mutate(g, m % NMUT, f[m / NMUT], c, nm)) continue;
					static const char *fn[6] = { "x", "y", "gg", "hh", "c", "r" };
					tag = std::string("tag:mut:") + fn[m / NMUT] + ":" + nm; if (cheat) tag = "tag:cheat:unequal-logs+mut";
				}
				std::ostringstream pm; pm << f[4].v << std::endl << f[5].v << std::endl; std::istringstream is(pm.str());
				// negative exponents on non-invertible bases make GMP trap: keep bases invertible (0 is never a unit)
				if (!tab && (mpz_sgn(f[2]) == 0 || mpz_sgn(f[3]) == 0 || mpz_sgn(f[0]) == 0 || mpz_sgn(f[1]) == 0) ) { Z gd; mpz_gcd(gd, f[2], A->p); }
				bool risky = false; for (int q = 0; q < 4; q++) { Z gd; mpz_gcd(gd, f[q], A->p); if (mpz_cmp_ui(gd, 1)) risky = true; }
				if (risky && (mpz_sgn(f[4]) < 0 || mpz_sgn(f[5]) < 0)) continue;
				std::string out = guarded([&]() { return b2s(B->CP_Verify(f[0], f[1], f[2], f[3], is, tab)); });
				emit("zk.cp.verify " + c.pqgh() + " " + f[0].str() + " " + f[1].str() + " " + f[2].str() + " " + f[3].str() + " " + f[4].str() + " " + f[5].str() + " " + b2s(tab) + " " + oracle_log() + " " + tag + " => " + out);
			}
		}
		// ------------------------------------------------ masking / re-masking
		{
			Z m, c1, c2, r, om, d1, d2, r2;
			SchindelhauerTMCG tm(16, 2, 4); A->IndexElement(m, g.below(16));
			coins.take(); A->VerifiableMaskingProtocol_Mask(m, c1, c2, r); coins.take();
			std::ostringstream pr; A->VerifiableMaskingProtocol_Prove(m, c1, c2, r, pr);
			{ std::vector<CoinLogEntry> es = coins.take(); coin_mod(om, es.at(0), A->q); }
			{ std::istringstream is(pr.str()); is >> cc.v >> rr.v; }
			emit("zk.mask.prove " + c.pqgh() + " " + m.str() + " " + c1.str() + " " + c2.str() + " " + r.str() + " " + om.str() + " " + oracle_log() + " tag:honest => " + cc.str() + " " + rr.str());
			for (int mm = -1; mm < 5 * NMUT; mm++) {
				Z f[5]; mpz_set(f[0], m); mpz_set(f[1], c1); mpz_set(f[2], c2); mpz_set(f[3], cc); mpz_set(f[4], rr); std::string tag = "tag:honest", nm;
				if (mm >= 0) { if (g.below(thorough ? 1 : 4)) continue; if (!mutate(g, mm % NMUT, f[mm / NMUT], c, nm)) continue;
					static const char *fn[5] = { "m", "c1", "c2", "c", "r" }; tag = std::string("tag:mut:") + fn[mm / NMUT] + ":" + nm; }
				std::ostringstream pm; pm << f[3].v << std::endl << f[4].v << std::endl; std::istringstream is(pm.str());
				std::string out = guarded([&]() { return b2s(B->VerifiableMaskingProtocol_Verify(f[0], f[1], f[2], is)); });
				emit("zk.mask.verify " + c.kind + " " + c.pqgh() + " " + f[0].str() + " " + f[1].str() + " " + f[2].str() + " " + f[3].str() + " " + f[4].str() + " " + oracle_log() + " " + tag + " => " + out);
			}
			// a mask that changes the type: card of another message, proof made with the honest algorithm
			{ Z m2; A->IndexElement(m2, 17 + g.below(5)); std::ostringstream pm; pm << cc.v << std::endl << rr.v << std::endl; std::istringstream is(pm.str());
			  std::string out = guarded([&]() { return b2s(B->VerifiableMaskingProtocol_Verify(m2, c1, c2, is)); });
			  emit("zk.mask.verify " + c.kind + " " + c.pqgh() + " " + m2.str() + " " + c1.str() + " " + c2.str() + " " + cc.str() + " " + rr.str() + " " + oracle_log() + " tag:cheat:retyped => " + out); }
			// statement twisted by the element of order 2 (p - c_i is outside the group), proof made by the honest
			// prover algorithm for the twisted statement: accepted for even challenges unless membership is checked
			for (int tw = 0; tw < 6; tw++) {
				Z t1, t2; mpz_set(t1, c1); mpz_set(t2, c2); if (tw % 2 == 0) mpz_sub(t1, A->p, c1); else mpz_sub(t2, A->p, c2);
				std::ostringstream pt; coins.take(); oracle_log(); A->VerifiableMaskingProtocol_Prove(m, t1, t2, r, pt); coins.take(); oracle_log();
				Z tc, tr; { std::istringstream is(pt.str()); is >> tc.v >> tr.v; }
				std::ostringstream pm; pm << tc.v << std::endl << tr.v << std::endl; std::istringstream is(pm.str());
				std::string out = guarded([&]() { return b2s(B->VerifiableMaskingProtocol_Verify(m, t1, t2, is)); });
				emit("zk.mask.verify " + c.kind + " " + c.pqgh() + " " + m.str() + " " + t1.str() + " " + t2.str() + " " + tc.str() + " " + tr.str() + " " + oracle_log() + " tag:cheat:twisted-" + (tw % 2 == 0 ? "c1" : "c2") + " => " + out);
			}
			// re-masking
			coins.take(); A->VerifiableRemaskingProtocol_Mask(c1, c2, d1, d2, r2); coins.take();
			std::ostringstream pr2; A->VerifiableRemaskingProtocol_Prove(c1, c2, d1, d2, r2, pr2);
			{ std::vector<CoinLogEntry> es = coins.take(); coin_mod(om, es.at(0), A->q); }
			{ std::istringstream is(pr2.str()); is >> cc.v >> rr.v; }
			emit("zk.remask.prove " + c.pqgh() + " " + c1.str() + " " + c2.str() + " " + d1.str() + " " + d2.str() + " " + r2.str() + " " + om.str() + " " + oracle_log() + " tag:honest => " + cc.str() + " " + rr.str());
			for (int mm = -1; mm < 6 * NMUT; mm++) {
				Z f[6]; mpz_set(f[0], c1); mpz_set(f[1], c2); mpz_set(f[2], d1); mpz_set(f[3], d2); mpz_set(f[4], cc); mpz_set(f[5], rr); std::string tag = "tag:honest", nm;
				if (mm >= 0) { if (g.below(thorough ? 1 : 4)) continue; if (!mutate(g, mm % NMUT, f[mm / NMUT], c, nm)) continue;
					static const char *fn[6] = { "c1", "c2", "d1", "d2", "c", "r" }; tag = std::string("tag:mut:") + fn[mm / NMUT] + ":" + nm; }
				std::ostringstream pm; pm << f[4].v << std::endl << f[5].v << std::endl; std::istringstream is(pm.str());
				std::string out = guarded([&]() { return b2s(B->VerifiableRemaskingProtocol_Verify(f[0], f[1], f[2], f[3], is)); });
				emit("zk.remask.verify " + c.kind + " " + c.pqgh() + " " + f[0].str() + " " + f[1].str() + " " + f[2].str() + " " + f[3].str() + " " + f[4].str() + " " + f[5].str() + " " + oracle_log() + " " + tag + " => " + out);
			}
			for (int tw = 0; tw < 6; tw++) {
				Z t1, t2; mpz_set(t1, d1); mpz_set(t2, d2); if (tw % 2 == 0) mpz_sub(t1, A->p, d1); else mpz_sub(t2, A->p, d2);
				std::ostringstream pt; coins.take(); oracle_log(); A->VerifiableRemaskingProtocol_Prove(c1, c2, t1, t2, r2, pt); coins.take(); oracle_log();
				Z tc, tr; { std::istringstream is(pt.str()); is >> tc.v >> tr.v; }
				std::ostringstream pm; pm << tc.v << std::endl << tr.v << std::endl; std::istringstream is(pm.str());
				std::string out = guarded([&]() { return b2s(B->VerifiableRemaskingProtocol_Verify(c1, c2, t1, t2, is)); });
				emit("zk.remask.verify " + c.kind + " " + c.pqgh() + " " + c1.str() + " " + c2.str() + " " + t1.str() + " " + t2.str() + " " + tc.str() + " " + tr.str() + " " + oracle_log() + " tag:cheat:twisted-" + (tw % 2 == 0 ? "d1" : "d2") + " => " + out);
			}
			// ---------------------------------------- decryption share of A verified by B
			coins.take(); std::ostringstream dp; A->VerifiableDecryptionProtocol_Prove(d1, dp);
			{ std::vector<CoinLogEntry> es = coins.take(); coin_mod(om, es.at(0), A->q); }
			Z dj, fp; { std::istringstream is(dp.str()); is >> dj.v >> fp.v >> cc.v >> rr.v; }
			emit("zk.dec.prove " + c.pqgh() + " " + zs(A->x_i) + " " + d1.str() + " " + om.str() + " " + oracle_log() + " tag:honest => " + dj.str() + " " + cc.str() + " " + rr.str());
			std::string keys = "[";
			for (auto it = B->h_j.begin(); it != B->h_j.end(); ++it) { Z f; mpz_set_str(f, it->first.c_str(), TMCG_MPZ_IO_BASE); if (keys.size() > 1) keys += ","; keys += f.str() + ":" + zs(it->second); }
			keys += "]";
			for (int mm = -1; mm < 5 * NMUT + 5; mm++) {
				Z f[5]; mpz_set(f[0], d1); mpz_set(f[1], dj); mpz_set(f[2], fp); mpz_set(f[3], cc); mpz_set(f[4], rr); std::string tag = "tag:honest", nm;
				if (mm >= 0 && mm < 5 * NMUT) { if (g.below(thorough ? 1 : 4)) continue; if (!mutate(g, mm % NMUT, f[mm / NMUT], c, nm)) continue;
					static const char *fn[5] = { "c1", "dj", "fp", "c", "r" }; tag = std::string("tag:mut:") + fn[mm / NMUT] + ":" + nm; }
				if (mm == 5 * NMUT) { // share computed with another key (B's own secret), honest proof algorithm: wrong-key share
					std::ostringstream dq; B->VerifiableDecryptionProtocol_Prove(d1, dq); std::istringstream is(dq.str()); is >> f[1].v >> f[2].v >> f[3].v >> f[4].v; mpz_set(f[2], fp); tag = "tag:cheat:wrong-key-share"; coins.take(); }
				if (mm > 5 * NMUT) { // the share twisted by the element of order 2, proved with the honest algorithm and the real secret
					mpz_sub(f[1], A->p, dj); std::ostringstream dq; coins.take(); oracle_log(); A->CP_Prove(f[1], A->h_i, d1, A->g, A->x_i, dq, false); coins.take(); oracle_log();
					std::istringstream is(dq.str()); is >> f[3].v >> f[4].v; tag = "tag:cheat:twisted-share"; }
				Z g0; mpz_gcd(g0, f[0], A->p); if (mpz_cmp_ui(g0, 1)) continue; // Verify_Initialize asserts CheckElement(c_1); keep it a unit
				if (!B->CheckElement(f[0])) { continue; }
				B->VerifiableDecryptionProtocol_Verify_Initialize(f[0]);
				Z d0; mpz_set(d0, B->d); oracle_log();
				std::ostringstream pm; pm << f[1].v << std::endl << f[2].v << std::endl << f[3].v << std::endl << f[4].v << std::endl; std::istringstream is(pm.str());
				std::string out = guarded([&]() { bool ok = B->VerifiableDecryptionProtocol_Verify_Update(f[0], is); return b2s(ok) + " " + zs(B->d); });
				emit("zk.dec.verify " + c.kind + " " + c.pqgh() + " " + d0.str() + " " + keys + " " + f[0].str() + " " + f[1].str() + " " + f[2].str() + " " + f[3].str() + " " + f[4].str() + " " + oracle_log() + " " + tag + " => " + out);
			}
		}
		// ------------------------------------------------ OR proof
		{
			Z g1, g2, y1, y2, al, v1, v2, w;
			rand_elem(c, g, g1); rand_elem(c, g, g2); gen_below(al, g, A->q);
			int which = 1 + g.below(2);
			if (which == 1) { mpz_powm(y1, g1, al, A->p); rand_elem(c, g, y2); } else { mpz_powm(y2, g2, al, A->p); rand_elem(c, g, y1); }
			bool cheat = g.below(5) == 0; std::string tag0 = cheat ? "tag:cheat:neither-log" : "tag:honest";
			if (cheat) { if (which == 1) rand_elem(c, g, y1); else rand_elem(c, g, y2); }
			std::ostringstream pr; coins.take();
			if (which == 1) A->OR_ProveFirst(y1, y2, g1, g2, al, pr); else A->OR_ProveSecond(y1, y2, g1, g2, al, pr);
			{ std::vector<CoinLogEntry> es = coins.take(); coin_mod(v1, es.at(0), A->q); coin_mod(v2, es.at(1), A->q); coin_mod(w, es.at(2), A->q); }
			Z o[4]; { std::istringstream is(pr.str()); is >> o[0].v >> o[1].v >> o[2].v >> o[3].v; }
			std::string stmt = y1.str() + " " + y2.str() + " " + g1.str() + " " + g2.str();
			emit("zk.or.prove " + std::to_string(which) + " " + c.pqgh() + " " + stmt + " " + al.str() + " " + v1.str() + " " + v2.str() + " " + w.str() + " " + oracle_log() + " " + tag0 + " => [" + o[0].str() + "," + o[1].str() + "," + o[2].str() + "," + o[3].str() + "]");
			for (int mm = -1; mm < 8 * NMUT; mm++) {
				Z f[8]; mpz_set(f[0], y1); mpz_set(f[1], y2); mpz_set(f[2], g1); mpz_set(f[3], g2); for (int q = 0; q < 4; q++) mpz_set(f[4 + q], o[q]); std::string tag = tag0, nm;
				if (mm >= 0) { if (g.below(thorough ? 1 : 5)) continue; if (!mutate(g, mm % NMUT, f[mm / NMUT], c, nm)) continue;
					static const char *fn[8] = { "y1", "y2", "g1", "g2", "c1", "c2", "r1", "r2" }; tag = std::string("tag:mut:") + fn[mm / NMUT] + ":" + nm; if (cheat) tag = "tag:cheat:neither-log+mut"; }
				bool risky = false; for (int q = 0; q < 4; q++) { Z gd; mpz_gcd(gd, f[q], A->p); if (mpz_cmp_ui(gd, 1)) risky = true; }
				if (risky) continue;
				std::ostringstream pm; for (int q = 4; q < 8; q++) pm << f[q].v << std::endl; std::istringstream is(pm.str());
				std::string out = guarded([&]() { return b2s(B->OR_Verify(f[0], f[1], f[2], f[3], is)); });
				std::string l = "zk.or.verify " + c.pqgh(); for (int q = 0; q < 8; q++) l += " " + f[q].str();
				emit(l + " " + oracle_log() + " " + tag + " => " + out);
			}
		}
		// ------------------------------------------------ interactive proof of knowledge of the key share
		{
			Z ch, r, m1, m2; gen_below(ch, g, A->q); if (g.below(6) == 0) mpz_neg(ch, ch); if (g.below(10) == 0) mpz_set(ch, A->q);
			std::ostringstream pi; pi << ch.v << std::endl; std::istringstream pin(pi.str()); std::ostringstream pout;
			coins.take(); bool pret = A->KeyGenerationProtocol_ProveKey_interactive(pin, pout);
			{ std::vector<CoinLogEntry> es = coins.take(); coin_mod(r, es.at(0), A->q); }
			{ std::istringstream is(pout.str()); is >> m1.v; if (pret) is >> m2.v; }
			emit("zk.key.respond " + c.pqg() + " " + zs(A->x_i) + " " + r.str() + " " + ch.str() + " tag:honest => " + (pret ? m2.str() : std::string("refuse")));
			if (pret && mpz_sgn(ch) >= 0) for (int mm = -1; mm < 3 * NMUT; mm++) {
				Z f[3]; mpz_set(f[0], A->h_i); mpz_set(f[1], m1); mpz_set(f[2], m2); std::string tag = "tag:honest", nm;
				if (mm >= 0) { if (g.below(thorough ? 1 : 3)) continue; if (!mutate(g, mm % NMUT, f[mm / NMUT], c, nm)) continue;
					static const char *fn[3] = { "key", "m1", "m2" }; tag = std::string("tag:mut:") + fn[mm / NMUT] + ":" + nm; }
				Z gd; mpz_gcd(gd, f[0], A->p); if (mpz_cmp_ui(gd, 1) && mpz_sgn(ch) < 0) continue;
				std::ostringstream vi; vi << f[1].v << std::endl << f[2].v << std::endl; std::istringstream vin(vi.str()); std::ostringstream vout;
				coins.script.clear(); coins.script_pos = 0; script_mod(ch, A->q);
				std::string out = guarded([&]() { return b2s(B->KeyGenerationProtocol_VerifyKey_interactive(f[0], vin, vout)); });
				coins.script.clear(); coins.script_pos = 0; coins.take();
				emit("zk.key.final " + c.kind + " " + c.pqg() + " " + f[0].str() + " " + f[1].str() + " " + ch.str() + " " + f[2].str() + " " + tag + " => " + out);
			}
		}
		// ------------------------------------------------ public-coin proof of knowledge of the key share: the challenge
		// is a jointly flipped coin (two-party EDCF) whose CRS need not be the VTMF group
		{
			int crs_kind = (int)g.below(3); // 0: the VTMF group itself, 1: an independent group with a longer q', 2: a shorter q'
			SmallGroup cg; Z cp, cq, cgg, chh; unsigned cpb = c.pbits, cqb = c.qbits;
			if (crs_kind == 0 && !c.qr) { mpz_set(cp, A->p); mpz_set(cq, A->q); mpz_set(cgg, A->g); }
			else { if (crs_kind == 2) { cpb = 64; cqb = 16; } else { cpb = c.pbits <= 128 ? 256 : 128; cqb = c.pbits <= 128 ? 192 : 100; if (cqb <= c.qbits && !c.qr) cqb = c.qbits + 8; if (cpb < cqb + 16) cpb = cqb + 32; }
				cg = make_group(g, cpb, cqb); mpz_set(cp, cg.p); mpz_set(cq, cg.q); mpz_set(cgg, cg.g); }
			{ Z e; do { gen_below(e, g, cq); mpz_powm(chh, cgg, e, cp); } while (!mpz_cmp_ui(chh, 1) || !mpz_cmp(chh, cgg)); }
			std::string crs = cp.str() + " " + cq.str() + " " + cgg.str() + " " + chh.str();
			JareckiLysyanskayaEDCF eP(2, 0, cp, cq, cgg, chh, cpb, cqb), eV(2, 0, cp, cq, cgg, chh, cpb, cqb);
			auto lines_of = [](const std::string &txt, std::vector<std::string> &dec) { std::istringstream is(txt); std::string l; std::string s = "["; while (std::getline(is, l)) { Z v; mpz_set_str(v, l.c_str(), TMCG_MPZ_IO_BASE); if (s.size() > 1) s += ","; s += v.str(); dec.push_back(l); } return s + "]"; };
			auto coin_vals = [&](const std::vector<CoinLogEntry> &es, bool prover, std::string &vals, std::vector<unsigned char> &raw) {
				size_t k = 0; vals.clear();
				for (auto &e : es) { raw.insert(raw.end(), e.bytes.begin(), e.bytes.end()); if (e.bytes.size() == 8) continue; Z v; if (prover && k == 0) coin_mod(v, e, A->q); else coin_mod(v, e, cq); if (k) vals += " "; vals += v.str(); k++; }
				return k; };
			auto run_prover = [&](const std::string &input, const std::vector<unsigned char> &script, std::string &sent, std::vector<std::string> &sent_lines, std::string &vals, std::vector<unsigned char> &raw) {
				std::istringstream in(input); std::ostringstream out; coins.script = script; coins.script_pos = 0; coins.take();
				std::string ret = guarded([&]() { return b2s(A->KeyGenerationProtocol_ProveKey_interactive_publiccoin(&eP, in, out)); });
				size_t k = coin_vals(coins.take(), true, vals, raw); coins.script.clear(); coins.script_pos = 0; sent = lines_of(out.str(), sent_lines); (void)k; return ret; };
			auto run_verifier = [&](mpz_srcptr key, const std::string &input, const std::vector<unsigned char> &script, std::string &sent, std::vector<std::string> &sent_lines, std::string &vals, std::vector<unsigned char> &raw) {
				std::istringstream in(input); std::ostringstream out; coins.script = script; coins.script_pos = 0; coins.take();
				std::string ret = guarded([&]() { return b2s(B->KeyGenerationProtocol_VerifyKey_interactive_publiccoin(key, &eV, in, out)); });
				coin_vals(coins.take(), false, vals, raw); coins.script.clear(); coins.script_pos = 0; sent = lines_of(out.str(), sent_lines); return ret; };
			auto join = [](const std::vector<std::string> &l, size_t from, size_t to) { std::string s; for (size_t i = from; i < to && i < l.size(); i++) s += l[i] + "\n"; return s; };
			auto dec_list = [](const std::vector<std::string> &l, size_t from, size_t to) { std::string s = "["; for (size_t i = from; i < to && i < l.size(); i++) { Z v; mpz_set_str(v, l[i].c_str(), TMCG_MPZ_IO_BASE); if (s.size() > 1) s += ","; s += v.str(); } return s + "]"; };
			std::string ps, vs, pv, vv; std::vector<std::string> pl, vl; std::vector<unsigned char> praw, vraw, none;
			// pass 1: the prover alone (stops when the verifier's commitment is missing)
			std::string r1 = run_prover("", none, ps, pl, pv, praw);
			emit("zk.keypc.prove " + c.pqg() + " " + zs(A->x_i) + " " + crs + " " + pv + " [] tag:peer-silent => " + r1 + " " + ps);
			if (pl.size() >= 2) {
				// pass 2: the verifier on m_1 and the prover's commitment (stops when the opening is missing)
				std::string r2 = run_verifier(A->h_i, join(pl, 0, 2), none, vs, vl, vv, vraw);
				emit("zk.keypc.verify " + c.kind + " " + c.pqg() + " " + zs(A->h_i) + " " + crs + " " + vv + " " + dec_list(pl, 0, 2) + " tag:peer-stops => " + r2 + " " + vs);
				if (vl.size() >= 3) {
					// pass 3: the prover again, same coins, with the verifier's three lines
					std::vector<std::string> pl2; std::vector<unsigned char> raw2; std::string ps2, pv2;
					std::string r3 = run_prover(join(vl, 0, 3), praw, ps2, pl2, pv2, raw2);
					emit("zk.keypc.prove " + c.pqg() + " " + zs(A->x_i) + " " + crs + " " + pv2 + " " + dec_list(vl, 0, 3) + " tag:honest => " + r3 + " " + ps2);
					// pass 4: the verifier again, same coins, with the complete transcript (and with mutated responses)
					for (int mm = -1; mm < 4; mm++) {
						std::vector<std::string> tl = pl2; std::string tag = "tag:honest";
						Z key; mpz_set(key, A->h_i);
						if (tl.size() < 5) break;
						if (mm >= 0) { Z v; mpz_set_str(v, tl[4].c_str(), TMCG_MPZ_IO_BASE); std::string nm;
							switch (mm) { case 0: mpz_add_ui(v, v, 1); nm = "m2:plus1"; break; case 1: mpz_sub(v, v, A->q); nm = "m2:minusq"; break; case 2: mpz_neg(v, v); nm = "m2:neg"; break; default: mpz_sub(key, A->p, key); nm = "key:negelem"; break; }
							std::ostringstream o2; o2 << v.v; tl[4] = o2.str(); tag = "tag:mut:" + nm; if (mm == 1) tag = "tag:equivrep:m2:minusq"; }
						std::vector<std::string> vl2; std::vector<unsigned char> raw3; std::string vs2, vv2;
						std::string r4 = run_verifier(key, join(tl, 0, 5), vraw, vs2, vl2, vv2, raw3);
						emit("zk.keypc.verify " + c.kind + " " + c.pqg() + " " + key.str() + " " + crs + " " + (vv2.empty() ? std::string("0 0") : vv2) + " " + dec_list(tl, 0, 5) + " " + tag + " => " + r4 + " " + vs2);
					}
				}
			}
		}
		// ------------------------------------------------ cut-and-choose stack equality
		{
			size_t n = 1 + g.below(cidx % 3 ? 6 : 14), kappa = 1 + g.below(thorough ? 12 : 5);
			bool cyclic = (cidx % 2 == 1);
			SchindelhauerTMCG tmP(kappa, 2, 5), tmV(kappa, 2, 5);
			TMCG_Stack<VTMF_Card> s, s2; TMCG_StackSecret<VTMF_CardSecret> ss;
			for (size_t i = 0; i < n; i++) { VTMF_Card cd; VTMF_CardSecret cs; tmP.TMCG_CreatePrivateCard(cd, cs, A, g.below(16)); s.push(cd); }
			std::string created = guarded([&]() { tmP.TMCG_CreateStackSecret(ss, cyclic, n, A); return std::string("ok"); });
			if (created != "ok") continue; // rotation of a one-card stack throws (see C02)
			tmP.TMCG_MixStack(s, s2, ss, A);
			// the false statements of C04
			int cheat = g.below(6); std::string tag0 = "tag:honest";
			TMCG_Stack<VTMF_Card> s2c = s2;
			if (cheat == 1 && n >= 2) { s2c.stack[0] = s2c.stack[1]; tag0 = "tag:cheat:duplicated-card"; }
			else if (cheat == 2) { VTMF_Card cd; VTMF_CardSecret cs; tmP.TMCG_CreatePrivateCard(cd, cs, A, 16 + g.below(8)); s2c.stack[g.below(n)] = cd; tag0 = "tag:cheat:substituted-card"; }
			else if (cheat == 3 && cyclic && n >= 3) { // a non-cyclic permutation presented as a rotation
				TMCG_StackSecret<VTMF_CardSecret> ssp; do tmP.TMCG_CreateStackSecret(ssp, false, n, A); while ([&]() { size_t c0 = ssp[0].first; for (size_t j = 1; j < n; j++) if ((c0 + j) % n != ssp[j].first) return false; return true; }());
				ss = ssp; tmP.TMCG_MixStack(s, s2, ss, A); s2c = s2; tag0 = "tag:cheat:noncyclic-as-rotation"; }
			else cheat = 0;
			// prover with pre-loaded challenges
			std::vector<int> bits(kappa); std::ostringstream pi; pi << kappa << std::endl; for (size_t i = 0; i < kappa; i++) { bits[i] = g.coin(); pi << bits[i] << std::endl; }
			std::istringstream pin(pi.str()); std::ostringstream pout;
			coins.take(); oracle_log();
			tmP.TMCG_ProveStackEquality(s, s2, ss, cyclic, A, pin, pout);
			std::vector<CoinLogEntry> es = coins.take(); std::string plog = oracle_log();
			// reconstruct the prover's fresh secrets by re-serving its coins
			std::vector<TMCG_StackSecret<VTMF_CardSecret> > fresh(kappa);
			coins.script.clear(); coins.script_pos = 0; for (auto &e : es) coins.script.insert(coins.script.end(), e.bytes.begin(), e.bytes.end());
			for (size_t i = 0; i < kappa; i++) tmP.TMCG_CreateStackSecret(fresh[i], cyclic, n, A);
			coins.script.clear(); coins.script_pos = 0; coins.take();
			// split the prover's output into rounds
			std::vector<std::string> lines; { std::istringstream is(pout.str()); std::string l; while (std::getline(is, l)) lines.push_back(l); }
			if (lines.size() != 2 * kappa) { emit("zk.se.prove-bad-output " + std::to_string(lines.size()) + " => x"); continue; }
			auto cards = [](const TMCG_Stack<VTMF_Card> &st) { std::string r = "["; for (size_t i = 0; i < st.size(); i++) { if (i) r += ","; r += zs(st[i].c_1) + ":" + zs(st[i].c_2); } return r + "]"; };
			auto secs = [](const TMCG_StackSecret<VTMF_CardSecret> &st) { std::string r = "["; for (size_t i = 0; i < st.size(); i++) { if (i) r += ","; r += std::to_string(st[i].first) + ":" + zs(st[i].second.r); } return r + "]"; };
			for (size_t i = 0; i < kappa; i++) {
				Z cm; mpz_set_str(cm, lines[2 * i].c_str(), TMCG_MPZ_IO_BASE);
				emit("zk.se.prove " + c.pqgh() + " " + cards(s2) + " " + secs(ss) + " " + secs(fresh[i]) + " " + std::to_string(bits[i]) + " " + plog + " tag:honest => " + cm.str() + " " + hexs(lines[2 * i + 1]));
			}
			// verifier on the honest transcript, on the false statements, and on mutated transcripts
			for (int mm = -1; mm < (thorough ? 40 : 10); mm++) {
				std::vector<std::string> L = lines; std::string tag = tag0; TMCG_Stack<VTMF_Card> sv = s, s2v = s2c;
				if (mm >= 0) {
					int what = g.below(6); size_t rd = g.below(kappa);
					if (what == 0) { Z cm; mpz_set_str(cm, L[2 * rd].c_str(), TMCG_MPZ_IO_BASE); mpz_add_ui(cm, cm, 1); std::ostringstream t; t << cm.v; L[2 * rd] = t.str(); tag = "tag:mut:commit:plus1"; }
					else if (what == 1) { // change one exponent of the response
						TMCG_StackSecret<VTMF_CardSecret> rs; if (!rs.import(L[2 * rd + 1])) continue; mpz_add_ui(rs[g.below(n)].second.r, rs[0].second.r, 1); std::ostringstream t; t << rs; L[2 * rd + 1] = t.str(); tag = "tag:mut:response:exponent"; }
					else if (what == 2 && n >= 2) { TMCG_StackSecret<VTMF_CardSecret> rs; if (!rs.import(L[2 * rd + 1])) continue; std::swap(rs[0].first, rs[1].first); std::ostringstream t; t << rs; L[2 * rd + 1] = t.str(); tag = "tag:mut:response:index-swap"; }
					else if (what == 3) { size_t j = g.below(n); mpz_add_ui(s2v.stack[j].c_2, s2v.stack[j].c_2, 1); tag = "tag:mut:s2:c2+1"; }
					else if (what == 4) { size_t j = g.below(n); Z e; rand_elem(c, g, e); mpz_mul(sv.stack[j].c_1, sv.stack[j].c_1, e); mpz_mod(sv.stack[j].c_1, sv.stack[j].c_1, A->p); if (!mpz_cmp_ui(e, 1)) continue; tag = "tag:mut:s:c1*elem"; }
					else if (what == 5 && n >= 2) { TMCG_StackSecret<VTMF_CardSecret> rs; if (!rs.import(L[2 * rd + 1])) continue; rs.stack.pop_back(); std::ostringstream t; t << rs; std::string tx = t.str(); /* size field too large now: fix it */ L[2 * rd + 1] = tx; tag = "tag:mut:response:shorter"; }
					else continue;
					if (cheat) tag = tag0 + "+mut";
				}
				std::string vin_s; for (auto &l : L) vin_s += l + "\n";
				std::istringstream vin(vin_s); std::ostringstream vout;
				coins.script.clear(); coins.script_pos = 0; for (size_t i = 0; i < kappa; i++) coins.script.push_back((unsigned char)bits[i]);
				oracle_log();
				std::string out = guarded([&]() { return b2s(tmV.TMCG_VerifyStackEquality(sv, s2v, cyclic, B, vin, vout)); });
				coins.script.clear(); coins.script_pos = 0; coins.take();
				std::string rounds = "["; for (size_t i = 0; i < kappa; i++) { Z cm; if (mpz_set_str(cm, L[2 * i].c_str(), TMCG_MPZ_IO_BASE) < 0) mpz_set_si(cm, -7); if (i) rounds += ","; rounds += cm.str() + ":" + std::to_string(bits[i]) + ":" + hexs(L[2 * i + 1]); }
				rounds += "]";
				emit("zk.se.verify " + c.kind + " " + c.pqgh() + " " + b2s(cyclic) + " " + cards(sv) + " " + cards(s2v) + " " + rounds + " " + oracle_log() + " " + tag + " => " + out);
			}
			// the zero-table cheat (finding F26): an unrelated second stack, every round commits to the hash of the
			// all-zero stack and answers with the identity permutation (a rotation, too) and exponents 2^|q|,
			// which hit the empty entries of the fixed-base tables
			{
				TMCG_Stack<VTMF_Card> other; for (size_t i = 0; i < n; i++) { VTMF_Card cd; VTMF_CardSecret cs; tmP.TMCG_CreatePrivateCard(cd, cs, A, 16 + g.below(8)); other.push(cd); }
				Z big; mpz_set_ui(big, 1); mpz_mul_2exp(big, big, mpz_sizeinbase(A->q, 2) + g.below(3));
				TMCG_StackSecret<VTMF_CardSecret> zs_; for (size_t i = 0; i < n; i++) { VTMF_CardSecret cs; mpz_set(cs.r, big); zs_.push(i, cs); }
				TMCG_Stack<VTMF_Card> zero; for (size_t i = 0; i < n; i++) { VTMF_Card cd; mpz_set_ui(cd.c_1, 0); mpz_set_ui(cd.c_2, 0); zero.push(cd); }
				std::ostringstream zt; zt << zero << std::endl; Z com; { bool was = hashlog.log; hashlog.log = false; tmcg_mpz_shash(com, zt.str()); hashlog.log = was; }
				std::ostringstream cl, sl; cl << com.v; sl << zs_;
				std::string vin_s; for (size_t i = 0; i < kappa; i++) vin_s += cl.str() + "\n" + sl.str() + "\n";
				std::istringstream vin(vin_s); std::ostringstream vout;
				coins.script.clear(); coins.script_pos = 0; for (size_t i = 0; i < kappa; i++) coins.script.push_back((unsigned char)bits[i]);
				oracle_log();
				std::string out = guarded([&]() { return b2s(tmV.TMCG_VerifyStackEquality(s, other, cyclic, B, vin, vout)); });
				coins.script.clear(); coins.script_pos = 0; coins.take();
				std::string rounds = "["; for (size_t i = 0; i < kappa; i++) { if (i) rounds += ","; rounds += com.str() + ":" + std::to_string(bits[i]) + ":" + hexs(sl.str()); }
				rounds += "]";
				emit("zk.se.verify " + c.kind + " " + c.pqgh() + " " + b2s(cyclic) + " " + cards(s) + " " + cards(other) + " " + rounds + " " + oracle_log() + " tag:cheat:zero-table-exponent => " + out);
			}
		}
	}
	return 0;
}
REGISTER_DRIVER("zk", drv_zk);
