// C09: modular exponentiation variants (spowm / fpowm / fspowm / fpowm_ui) and the GMP
// primitives the model layer re-implements (powm, invert, jacobi).
#include "common.hh"

static std::string run_f(const char *kind, mpz_srcptr base, size_t t, mpz_srcptr m, mpz_srcptr x, mpz_srcptr p)
{
	mpz_t *tab = new mpz_t[TMCG_MAX_FPOWM_T]();
	tmcg_mpz_fpowm_init(tab);
	std::string out = guarded([&]() {
		Z r; mpz_set_ui(r, 0);
		tmcg_mpz_fpowm_precompute(tab, base, p, t);
		if (!strcmp(kind, "fpowm")) tmcg_mpz_fpowm(tab, r, m, x, p);
		else if (!strcmp(kind, "fspowm")) tmcg_mpz_fspowm(tab, r, m, x, p);
		else tmcg_mpz_fpowm_ui(tab, r, m, mpz_get_ui(x), p);
		return r.str();
	});
	tmcg_mpz_fpowm_done(tab); delete [] tab;
	return out;
}

static void line_f(const char *kind, mpz_srcptr base, size_t t, mpz_srcptr m, mpz_srcptr x, mpz_srcptr p)
{
	emit(std::string("arith.fpowm ") + kind + " " + zs(base) + " " + std::to_string(t) + " " + zs(m) + " " + zs(x) + " " + zs(p) + " => " + run_f(kind, base, t, m, x, p));
}

static void line_s(mpz_srcptr m, mpz_srcptr x, mpz_srcptr p)
{
	std::string out = guarded([&]() { Z r; tmcg_mpz_spowm(r, m, x, p); return r.str(); });
	emit("arith.spowm " + zs(m) + " " + zs(x) + " " + zs(p) + " => " + out);
}

static int drv_arith(const Opts &o)
{
	SplitMix g(o.seed ^ 0x6172);
	Z m, x, p, r, base;
	const char *kinds[3] = { "fpowm", "fspowm", "fpowm_ui" };
	// exhaustive small moduli: odd p in [1, P], all bases, exponents in [-2p, 2p]
	long P = (o.tier == "thorough") ? 61 : 23;
	for (long pp = 1; pp <= P; pp++) {
		mpz_set_si(p, pp);
		for (long mm = 0; mm < pp + 1; mm++) {
			mpz_set_si(m, mm);
			for (long xx = -2 * pp; xx <= 2 * pp; xx++) {
				mpz_set_si(x, xx);
				if (pp % 2 || xx == 0) line_s(m, x, p); // even moduli throw before anything else
				size_t t = 1 + (size_t)((mm + xx + 4 * pp) % 9);
				if (mm % 3 == 0 || pp < 12) for (int k = 0; k < 3; k++) {
					if (k == 2 && xx < 0) continue;
					line_f(kinds[k], m, t, m, x, p);
				}
			}
		}
	}
	// GMP primitives on small values (validates the model's GMP layer)
	for (long pp = -9; pp <= 40; pp++) for (long a = -12; a <= 45; a++) {
		if (pp != 0) {
			mpz_set_si(p, pp); mpz_set_si(m, a);
			int ok = mpz_invert(r, m, p);
			emit("arith.invert " + std::to_string(a) + " " + std::to_string(pp) + " => " + (ok ? r.str() : std::string("none")));
		}
		if (pp > 0 && (pp % 2)) { mpz_set_si(p, pp); mpz_set_si(m, a); emit("arith.jacobi " + std::to_string(a) + " " + std::to_string(pp) + " => " + std::to_string(mpz_jacobi(m, p))); }
	}
	// random big cases
	for (uint64_t c = 0; c < o.cases; c++) {
		unsigned pb = 2 + ((c % 3 == 0) ? g.below(64) : (c % 3 == 1) ? g.below(600) : g.below(2200));
		gen_bits(p, g, pb); mpz_setbit(p, 0); if (g.below(6) == 0) mpz_nextprime(p, p);
		gen_below(m, g, p); if (g.below(8) == 0) mpz_add(m, m, p); if (g.below(16) == 0) mpz_set_ui(m, 0);
		unsigned xb = 1 + g.below((c % 5 == 0) ? 2200 : pb + 2);
		gen_bits(x, g, xb); if (g.below(3) == 0) mpz_neg(x, x);
		if (g.below(12) == 0) mpz_set(x, p); // F6 boundary: exponent multiple of p
		if (g.below(20) == 0) mpz_set_ui(x, 0);
		line_s(m, x, p);
		// mpz_powm traps for negative exponents without inverse: only log when safe
		{ Z gg; mpz_gcd(gg, m, p); if (mpz_sgn(x) >= 0 || !mpz_cmp_ui(gg, 1)) { mpz_powm(r, m, x, p); emit("arith.powm " + m.str() + " " + x.str() + " " + p.str() + " => " + r.str()); } }
		// table-based variants: table length around the exponent size and the global limit
		size_t t;
		switch (g.below(6)) {
		case 0: t = mpz_sizeinbase(x, 2); break;
		case 1: t = mpz_sizeinbase(x, 2) > 1 ? mpz_sizeinbase(x, 2) - 1 : 1; break;
		case 2: t = TMCG_MAX_FPOWM_T; break;
		case 3: t = TMCG_MAX_FPOWM_T + 5; break;
		default: t = mpz_sizeinbase(x, 2) + g.below(4); break;
		}
		if (g.below(10) == 0) { gen_bits(x, g, TMCG_MAX_FPOWM_T + (g.coin() ? 0 : 1)); mpz_setbit(x, TMCG_MAX_FPOWM_T - 1 + (g.coin() ? 0 : 1)); }
		mpz_set(base, m); if (g.below(10) == 0) mpz_add_ui(base, base, 1); // wrong base
		int k = g.below(3); if (k == 2) { mpz_abs(x, x); mpz_tdiv_r_2exp(x, x, 64); }
		line_f(kinds[k], base, t, m, x, p);
	}
	return 0;
}
REGISTER_DRIVER("arith", drv_arith);
