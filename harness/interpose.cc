// In-binary interposition of the libgcrypt entry points libTMCG draws randomness
// and digests from (DESIGN.md §2.3).  The executable's definitions pre-empt the
// shared library's; the real ones are reached through dlsym(RTLD_NEXT).
#include "common.hh"
#include <dlfcn.h>

thread_local CoinSource coins;
thread_local HashLog hashlog;

void CoinSource::fill(unsigned char *out, size_t n, int level)
{
	if (budget && ++draws > budget) { draws = 0; budget = 0; throw CoinBudgetExceeded(); }
	for (size_t i = 0; i < n; ) {
		if (script_pos < script.size()) { out[i++] = script[script_pos++]; continue; }
		uint64_t w = prng.next();
		for (int k = 0; k < 8 && i < n; k++) out[i++] = (unsigned char)(w >> (8 * k));
	}
	bytes_served += n;
	if (log) { CoinLogEntry e; e.level = level; e.bytes.assign(out, out + n); entries.push_back(e); }
}

std::vector<uint64_t> coin_words(const std::vector<CoinLogEntry> &es)
{
	std::vector<uint64_t> w;
	for (auto &e : es) if (e.bytes.size() == 8) { uint64_t x; memcpy(&x, e.bytes.data(), 8); w.push_back(x); }
	return w;
}
std::string coin_bytes_hex(const std::vector<CoinLogEntry> &es)
{
	std::string s = "[";
	for (size_t i = 0; i < es.size(); i++) { if (i) s += ","; s += hexs(es[i].bytes); }
	return s + "]";
}

extern "C" {

void gcry_randomize(void *buffer, size_t length, enum gcry_random_level level)
{
	if (coins.serve) { coins.fill((unsigned char*)buffer, length, (int)level); return; }
	typedef void (*fn_t)(void*, size_t, enum gcry_random_level);
	static fn_t real = (fn_t)dlsym(RTLD_NEXT, "gcry_randomize");
	real(buffer, length, level);
}

void gcry_create_nonce(void *buffer, size_t length)
{
	if (coins.serve) { coins.fill((unsigned char*)buffer, length, 0); return; }
	typedef void (*fn_t)(void*, size_t);
	static fn_t real = (fn_t)dlsym(RTLD_NEXT, "gcry_create_nonce");
	real(buffer, length);
}

void gcry_mpi_randomize(gcry_mpi_t w, unsigned int nbits, enum gcry_random_level level)
{
	if (coins.serve) {
		size_t n = (nbits + 7) / 8;
		std::vector<unsigned char> b(n ? n : 1, 0);
		coins.fill(b.data(), n, (int)level);
		if (n && (nbits % 8)) b[0] &= (unsigned char)((1u << (nbits % 8)) - 1);
		gcry_mpi_t t = NULL;
		gcry_mpi_scan(&t, GCRYMPI_FMT_USG, b.data(), n, NULL);
		gcry_mpi_set(w, t);
		gcry_mpi_release(t);
		return;
	}
	typedef void (*fn_t)(gcry_mpi_t, unsigned int, enum gcry_random_level);
	static fn_t real = (fn_t)dlsym(RTLD_NEXT, "gcry_mpi_randomize");
	real(w, nbits, level);
}

void gcry_md_hash_buffer(int algo, void *digest, const void *buffer, size_t length)
{
	typedef void (*fn_t)(int, void*, const void*, size_t);
	static fn_t real = (fn_t)dlsym(RTLD_NEXT, "gcry_md_hash_buffer");
	hashlog.calls++;
	if (hashlog.log) {
		const unsigned char *b = (const unsigned char*)buffer;
		bool is_g = false;
		if (length >= 9 && ((length - 9) % 2 == 0)) {
			size_t isz = (length - 9) / 2;
			if (!memcmp(b + isz, "libTMCG", 7) && !memcmp(b, b + isz + 9, isz)) {
				is_g = true;
				// only the first block (counter 00) of the primary algorithm starts a query
				if (!memcmp(b + isz + 7, "00", 2) && algo == TMCG_GCRY_MD_ALGO)
					hashlog.shash_inputs.push_back(std::string((const char*)b, isz));
			}
		}
		if (!is_g) hashlog.raw.push_back(std::make_pair(algo, std::string((const char*)b, length)));
	}
	real(algo, digest, buffer, length);
}

} // extern "C"

// select(2) with the time-out forced to zero: the channel classes poll with 1-50 ms waits, the
// harness always knows what is in the pipes, so waiting only costs wall-clock time.
#include <sys/select.h>
extern "C" int select(int nfds, fd_set *r, fd_set *w, fd_set *e, struct timeval *tv)
{
	typedef int (*fn_t)(int, fd_set*, fd_set*, fd_set*, struct timeval*);
	static fn_t real = (fn_t)dlsym(RTLD_NEXT, "select");
	struct timeval z; z.tv_sec = 0; z.tv_usec = 0;
	(void)tv;
	return real(nfds, r, w, e, &z);
}
