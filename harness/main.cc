#include "common.hh"
#include <map>
#include <unistd.h>

static std::map<std::string, DriverFn> &registry() { static std::map<std::string, DriverFn> r; return r; }
DriverReg::DriverReg(const char *name, DriverFn f) { registry()[name] = f; }

uint64_t emitted_lines = 0;
void emit(const std::string &line) { fputs(line.c_str(), stdout); fputc('\n', stdout); emitted_lines++; }

std::string guarded(const std::function<std::string()> &f)
{
	try { return f(); }
	catch (std::invalid_argument &) { return "throw:invalid_argument"; }
	catch (std::runtime_error &) { return "throw:runtime_error"; }
	catch (std::exception &) { return "throw:exception"; }
	catch (bool b) { return b ? "throw:true" : "throw:false"; }
	catch (...) { return "throw:other"; }
}

void gen_bits(mpz_ptr r, SplitMix &g, unsigned bits)
{
	mpz_set_ui(r, 0);
	for (unsigned i = 0; i < (bits + 63) / 64; i++) { mpz_mul_2exp(r, r, 64); mpz_add_ui(r, r, g.next()); }
	mpz_tdiv_r_2exp(r, r, bits);
}
void gen_below(mpz_ptr r, SplitMix &g, mpz_srcptr m)
{
	gen_bits(r, g, mpz_sizeinbase(m, 2) + 64);
	mpz_mod(r, r, m);
}

SmallGroup make_group(SplitMix &g, unsigned pbits, unsigned qbits)
{
	SmallGroup G; Z t, pm1;
	for (;;) {
		gen_bits(G.q, g, qbits); mpz_setbit(G.q, qbits - 1); mpz_setbit(G.q, 0);
		mpz_nextprime(G.q, G.q);
		if (mpz_sizeinbase(G.q, 2) != qbits) continue;
		for (int tries = 0; tries < 4096; tries++) {
			gen_bits(G.k, g, pbits - qbits); mpz_setbit(G.k, pbits - qbits - 1); mpz_clrbit(G.k, 0);
			mpz_mul(G.p, G.q, G.k); mpz_add_ui(G.p, G.p, 1);
			if (mpz_sizeinbase(G.p, 2) != pbits) continue;
			mpz_gcd(t, G.q, G.k); if (mpz_cmp_ui(t, 1)) continue;
			if (!mpz_probab_prime_p(G.p, 30)) continue;
			mpz_sub_ui(pm1, G.p, 1);
			for (;;) {
				gen_below(t, g, G.p); mpz_powm(G.g, t, G.k, G.p);
				if (mpz_cmp_ui(G.g, 1) > 0 && mpz_cmp(G.g, pm1) < 0) return G;
			}
		}
	}
}

int main(int argc, char **argv)
{
	if (argc < 2) {
		fprintf(stderr, "usage: tmcg_harness <area> [--seed S] [--cases N] [--tier quick|thorough] [extra...]\nareas:");
		for (auto &kv : registry()) fprintf(stderr, " %s", kv.first.c_str());
		fprintf(stderr, "\n"); return 2;
	}
	Opts o;
	for (int i = 2; i < argc; i++) {
		std::string a = argv[i];
		if (a == "--seed" && i + 1 < argc) o.seed = strtoull(argv[++i], NULL, 10);
		else if (a == "--cases" && i + 1 < argc) o.cases = strtoull(argv[++i], NULL, 10);
		else if (a == "--tier" && i + 1 < argc) o.tier = argv[++i];
		else o.extra.push_back(a);
	}
	auto it = registry().find(argv[1]);
	if (it == registry().end()) { fprintf(stderr, "unknown area %s\n", argv[1]); return 2; }
	static char obuf[1 << 20]; setvbuf(stdout, obuf, _IOFBF, sizeof obuf);
	coins.serve = true; coins.reseed(o.seed * 0x100000001b3ULL + 7);
	if (!init_libTMCG()) { fprintf(stderr, "init_libTMCG failed\n"); return 2; }
	int rc = it->second(o);
	fflush(stdout);
	return rc;
}
