// C07 (and the permutation part of C02): raw-word -> result maps of the samplers.
#include "common.hh"

void random_permutation_fast(const size_t n, std::vector<size_t> &pi);
size_t random_rotation(const size_t n, std::vector<size_t> &pi);

static std::string perm_str(const std::vector<size_t> &pi) {
	std::string s = "["; for (size_t i = 0; i < pi.size(); i++) { if (i) s += ","; s += std::to_string(pi[i]); } return s + "]";
}

// accepted-limit L of the sampler for modulus m, computed independently (128-bit)
static unsigned __int128 limitL(uint64_t m) {
	unsigned __int128 W = ((unsigned __int128)1) << 64;
	return (W / m) * m;
}

static std::vector<uint64_t> edge_words(SplitMix &g, uint64_t m) {
	std::vector<uint64_t> w;
	unsigned __int128 L = limitL(m);
	int kind = g.below(8);
	auto push_rejected = [&]() { if (L < (((unsigned __int128)1) << 64)) { uint64_t lo = (uint64_t)L; w.push_back(lo + g.below(0 - lo)); } };
	switch (kind) {
	case 0: w.push_back(0); break;
	case 1: w.push_back((uint64_t)(L - 1)); break;
	case 2: push_rejected(); w.push_back((uint64_t)(L - 1)); break;
	case 3: if (L < (((unsigned __int128)1) << 64)) w.push_back((uint64_t)L); w.push_back(g.next() % m); break;
	case 4: w.push_back(~0ULL); w.push_back(1); break;
	case 5: push_rejected(); push_rejected(); w.push_back(g.next()); w.push_back(0); break;
	default: w.push_back(g.next()); w.push_back(g.next()); w.push_back(0); break;
	}
	w.push_back(0); // always accepted: the script can never run dry
	return w;
}

static uint64_t pick_modulus(SplitMix &g) {
	switch (g.below(10)) {
	case 0: return 2 + g.below(6);
	case 1: return 1ULL << (1 + g.below(63));
	case 2: return (1ULL << (2 + g.below(62))) - 1;
	case 3: return (1ULL << (1 + g.below(63))) + 1;
	case 4: return (1ULL << 63) + 1 + g.below(1000);
	case 5: return ~0ULL - g.below(1000);
	case 6: return 2 + g.below(600);
	case 7: return 6148914691236517205ULL + g.below(3); // ~ 2^64/3
	default: { uint64_t m = g.next() >> g.below(62); return m < 2 ? 2 : m; }
	}
}

static int drv_rng(const Opts &o)
{
	SplitMix g(o.seed ^ 0x726e67);
	uint64_t N = o.cases;
	coins.log = true;
	// --- bounded sampler, three quality levels
	for (uint64_t c = 0; c < N; c++) {
		uint64_t m = (c < 4) ? c % 2 : pick_modulus(g); // 0 and 1 throw
		std::vector<uint64_t> script = (m < 2) ? std::vector<uint64_t>() : edge_words(g, m);
		coins.set_script_words(script); coins.take();
		int which = g.below(3);
		std::string out = guarded([&]() {
			unsigned long v = (which == 0) ? tmcg_mpz_srandom_mod(m) : (which == 1) ? tmcg_mpz_wrandom_mod(m) : tmcg_mpz_ssrandom_mod(m);
			return std::to_string(v);
		});
		std::vector<uint64_t> used = coin_words(coins.take());
		if (out.compare(0, 5, "throw")) out += " " + std::to_string(used.size());
		emit("rng.mod " + std::to_string(m) + " " + ulist(used) + " => " + out);
	}
	// --- Fisher-Yates and rotation: direct functions
	for (uint64_t c = 0; c < N; c++) {
		size_t n = 1 + ((c % 3 == 0) ? g.below(8) : (c % 3 == 1) ? g.below(64) : g.below(512));
		bool scripted = g.below(3) == 0;
		std::vector<uint64_t> script;
		if (scripted) for (size_t i = 0; i + 1 < n; i++) { // choose swap targets directly: word = d (< n-i always accepted)
			uint64_t d = g.below(n - i); if (g.below(4) == 0) d = (g.coin() ? 0 : n - i - 1); script.push_back(d);
		}
		coins.set_script_words(script); coins.take();
		std::vector<size_t> pi;
		if (c % 2 == 0) {
			random_permutation_fast(n, pi);
			std::vector<uint64_t> used = coin_words(coins.take());
			emit("rng.fy " + std::to_string(n) + " " + ulist(used) + " => " + perm_str(pi) + " " + std::to_string(used.size()));
		} else {
			if (scripted) { script.clear(); script.push_back(g.coin() ? g.below(n) : (g.coin() ? 0 : n - 1)); coins.set_script_words(script); }
			std::string out = guarded([&]() { size_t r = random_rotation(n, pi); return perm_str(pi) + " " + std::to_string(r); });
			std::vector<uint64_t> used = coin_words(coins.take());
			if (out.compare(0, 5, "throw")) out += " " + std::to_string(used.size());
			emit("rng.rot " + std::to_string(n) + " " + ulist(used) + " => " + out);
		}
	}
	// --- all n! arrangements for n <= 6 by scripted draw vectors (each reached exactly once)
	if (o.has("--enum") || o.tier == "thorough" || true) {
		size_t maxn = (o.tier == "thorough") ? 6 : 5;
		for (size_t n = 1; n <= maxn; n++) {
			std::vector<uint64_t> d(n > 0 ? n - 1 : 0, 0);
			for (;;) {
				coins.set_script_words(d); coins.take();
				std::vector<size_t> pi; random_permutation_fast(n, pi);
				std::vector<uint64_t> used = coin_words(coins.take());
				emit("rng.fy " + std::to_string(n) + " " + ulist(used) + " => " + perm_str(pi) + " " + std::to_string(used.size()));
				size_t i = 0; // next draw vector, d[i] < n - i
				while (i < d.size()) { if (++d[i] < n - i) break; d[i] = 0; i++; }
				if (i == d.size()) break;
			}
		}
	}
	coins.set_script_words(std::vector<uint64_t>());
	// --- residues below a big modulus / bit strings
	Z m, r;
	for (uint64_t c = 0; c < N; c++) {
		unsigned bits = 1 + ((c % 4 == 0) ? g.below(16) : (c % 4 == 1) ? g.below(300) : g.below(2100));
		gen_bits(m, g, bits); if (g.below(4) == 0) { mpz_set_ui(m, 1); mpz_mul_2exp(m, m, bits - 1); if (g.coin() && bits > 1) mpz_sub_ui(m, m, 1); }
		if (mpz_sgn(m) == 0) mpz_set_ui(m, 1 + g.below(3));
		coins.take();
		int which = g.below(3);
		if (which == 0) tmcg_mpz_srandomm(r, m); else if (which == 1) tmcg_mpz_wrandomm(r, m); else tmcg_mpz_ssrandomm(r, m);
		std::vector<CoinLogEntry> es = coins.take();
		std::string hb = es.size() == 1 ? hexs(es[0].bytes) : "multi";
		emit("rng.randomm " + m.str() + " " + hb + " => " + r.str());
		unsigned long size = (c < 2) ? 0 : 1 + g.below(c % 2 ? 70 : 2100);
		std::string out = guarded([&]() { if (which == 0) tmcg_mpz_srandomb(r, size); else if (which == 1) tmcg_mpz_wrandomb(r, size); else tmcg_mpz_ssrandomb(r, size); return r.str(); });
		es = coins.take();
		hb = es.size() == 1 ? hexs(es[0].bytes) : (es.empty() ? "-" : "multi");
		emit("rng.randomb " + std::to_string(size) + " " + hb + " => " + out);
	}
	return 0;
}
REGISTER_DRIVER("rng", drv_rng);
