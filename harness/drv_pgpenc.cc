// C19 (area "pgpenc"): the OpenPGP packet encoders of CallasDonnerhackeFinneyShawThayerRFC4880 — every
// Packet*Encode / PacketSigPrepare* / FingerprintCompute / KeyidCompute method called in-process with
// generated fields, one trace line per call, and PacketDecode on every packet that was emitted.
// Line formats: lean/Tmcg/DriverPgpEnc.lean.  Classes (trailing tag:<class>): the length class of the
// packet body (b191, b192, b8383, b8384, b65535, b65536, big, …), mpi:<pattern>, short (the overloads
// without a public-key algorithm), cut (truncated packet fed to the decoder).
// A last line `prop.pgpenc coverage [kinds] => <n>` lists what was exercised (checked by the predicate).
// Option --secprot-small: also protect secret keys whose x has fewer than 10 octets (PacketSecEncode / PacketSsbEncode
// then write the 32-octet S2K key into a buffer of 2+|x|+20 octets: heap overflow, reported by ASan; off by default).
#include "common.hh"
#include "libTMCG_config.h"
#include <ctime>
#include <set>

typedef CallasDonnerhackeFinneyShawThayerRFC4880 PGP;
typedef tmcg_openpgp_octets_t Oct;

namespace pgpencdrv {

static std::string hx(const Oct &o) { return hexs(o.data(), o.size()); }
static Oct rnd_octets(SplitMix &g, size_t n) { Oct o(n); for (size_t i = 0; i < n; i++) o[i] = (unsigned char)g.below(256); return o; }
static std::string tagtok(const std::string &t) { return t.empty() ? "" : " tag:" + t; }
static std::string U(unsigned long long v) { return std::to_string(v); }

struct QuietCerr {
	std::streambuf *old; std::ostringstream sink;
	QuietCerr() { old = std::cerr.rdbuf(sink.rdbuf()); }
	~QuietCerr() { std::cerr.rdbuf(old); }
};

// gcry_mpi_t <-> mpz
static std::string mpi_dec_str(gcry_mpi_t a)
{
	if (a == NULL) return "null";
	unsigned char *buf = NULL; size_t n = 0;
	if (gcry_mpi_aprint(GCRYMPI_FMT_HEX, &buf, &n, a)) return "?";
	Z z; mpz_set_str(z, (const char*)buf, 16); gcry_free(buf);
	return z.str();
}
struct M { // RAII gcry_mpi_t made from an mpz
	gcry_mpi_t a;
	explicit M(mpz_srcptr z) : a(NULL) {
		size_t n = (mpz_sizeinbase(z, 2) + 7) / 8; std::vector<unsigned char> b(n ? n : 1, 0);
		size_t cnt = 0; if (mpz_sgn(z)) mpz_export(b.data(), &cnt, 1, 1, 1, 0, z);
		if (gcry_mpi_scan(&a, GCRYMPI_FMT_USG, b.data(), cnt, NULL)) { fprintf(stderr, "gcry_mpi_scan failed\n"); exit(3); }
	}
	~M() { gcry_mpi_release(a); }
	operator gcry_mpi_t() const { return a; }
private:
	M(const M&); M &operator=(const M&);
};
static std::string zlist1(const std::vector<Z> &v) { std::string s = "["; for (size_t i = 0; i < v.size(); i++) { if (i) s += ","; s += v[i].str(); } return s + "]"; }

// a value with exactly n octets (n = 0: zero); pattern of the leading octet: 0 random non-zero, 1 -> 0x01
// (seven leading zero bits), 2 -> 0x80, 3 -> 0xFF.. (2^(8n) - 1), 4 -> 0x01 0x00.. (2^(8n-8))
static void bytes_value(mpz_ptr r, SplitMix &g, size_t n, int pattern)
{
	if (n == 0) { mpz_set_ui(r, 0); return; }
	std::vector<unsigned char> b(n);
	for (size_t i = 0; i < n; i++) b[i] = (unsigned char)g.below(256);
	switch (pattern) {
	case 1: b[0] = 0x01; break;
	case 2: b[0] = 0x80; break;
	case 3: for (size_t i = 0; i < n; i++) b[i] = 0xFF; break;
	case 4: b[0] = 0x01; for (size_t i = 1; i < n; i++) b[i] = 0; break;
	default: b[0] = (unsigned char)(1 + g.below(255)); break;
	}
	mpz_import(r, n, 1, 1, 1, 0, b.data());
}
static std::string body_class(size_t n)
{
	static const size_t marks[] = { 0, 1, 191, 192, 8383, 8384, 65535, 65536 };
	for (size_t m : marks) if (n == m) return "b" + U(n);
	if (n > 65536) return "big";
	return "";
}
// length of the header of a new-format packet, and its body
static size_t header_len(const Oct &p) { if (p.size() < 2) return p.size(); if (p[1] < 192) return 2; if (p[1] < 224) return 3; if (p[1] == 255) return 6; return 2; }
static Oct body_of(const Oct &p) { size_t h = header_len(p); return Oct(p.begin() + (h <= p.size() ? h : p.size()), p.end()); }

static std::string hexlist(const tmcg_openpgp_multiple_octets_t &l) { std::string s = "["; for (size_t i = 0; i < l.size(); i++) { if (i) s += ","; s += hx(l[i]); } return s + "]"; }

// ---------------------------------------------------------------- PacketDecode and the canonical text
static std::string mat_text(const tmcg_openpgp_packet_ctx_t &c)
{
	switch ((int)c.pkalgo) {
	case 1: case 2: case 3: return "rsa [" + mpi_dec_str(c.n) + "," + mpi_dec_str(c.e) + "]";
	case 16: return "elg [" + mpi_dec_str(c.p) + "," + mpi_dec_str(c.g) + "," + mpi_dec_str(c.y) + "]";
	case 17: return "dsa [" + mpi_dec_str(c.p) + "," + mpi_dec_str(c.q) + "," + mpi_dec_str(c.g) + "," + mpi_dec_str(c.y) + "]";
	case 19: case 22: return "ec " + hexs(c.curveoid, c.curveoidlen) + " [" + mpi_dec_str(c.ecpk) + "]";
	case 18: return "ecdh " + hexs(c.curveoid, c.curveoidlen) + " [" + mpi_dec_str(c.ecpk) + "] " + U((unsigned)c.kdf_hashalgo) + " " + U((unsigned)c.kdf_skalgo);
	default: return "?";
	}
}
static size_t sk_ivlen(unsigned a) { if (a >= 1 && a <= 4) return 8; if (a >= 7 && a <= 13) return 16; return 0; }
static size_t aead_ivlen(unsigned a) { return a == 1 ? 16 : (a == 2 ? 15 : 0); }

static std::string dec_text(const Oct &packet)
{
	Oct in = packet, cur; tmcg_openpgp_packet_ctx_t ctx; tmcg_openpgp_notations_t nt; tmcg_openpgp_multiple_octets_t es, rf;
	std::vector<gcry_mpi_t> qual, xq, v_i; std::vector<std::string> capl; std::vector< std::vector<gcry_mpi_t> > c_ik;
	PGP::MemoryGuardReset();
	tmcg_openpgp_byte_t ret; { QuietCerr q; ret = PGP::PacketDecode(in, 0, ctx, cur, qual, xq, capl, v_i, c_ik, nt, es, rf); }
	std::string out;
	bool ok = (ret == 1 || ret == 2 || ret == 5 || ret == 6 || ret == 7 || ret == 9 || ret == 11 || ret == 13 || ret == 14 || ret == 18 || ret == 19 || ret == 20);
	if (!ok) out = "reject:" + U((unsigned)ret);
	else switch (ret) {
	case 1: {
		std::string m;
		if (ctx.pkalgo == 1 || ctx.pkalgo == 2) m = "[" + mpi_dec_str(ctx.me) + "]";
		else if (ctx.pkalgo == 16) m = "[" + mpi_dec_str(ctx.gk) + "," + mpi_dec_str(ctx.myk) + "]";
		else m = "[" + mpi_dec_str(ctx.ecepk) + "]";
		out = "pkesk keyid=" + hexs(ctx.keyid, 8) + " algo=" + U((unsigned)ctx.pkalgo) + " mpis=" + m + " rkw=" + (ctx.pkalgo == 18 ? hexs(ctx.rkw, ctx.rkwlen) : std::string("-"));
	} break;
	case 2: {
		std::string m;
		if (ctx.pkalgo == 1 || ctx.pkalgo == 3) m = "[" + mpi_dec_str(ctx.md) + "]"; else m = "[" + mpi_dec_str(ctx.r) + "," + mpi_dec_str(ctx.s) + "]";
		std::string nts = "["; for (size_t i = 0; i < nt.size(); i++) { if (i) nts += ","; nts += hx(nt[i].first) + ":" + hx(nt[i].second); } nts += "]";
		out = "sig v=" + U(ctx.version) + " type=" + U((unsigned)ctx.type) + " pk=" + U((unsigned)ctx.pkalgo) + " hash=" + U((unsigned)ctx.hashalgo) +
			" hspd=" + hexs(ctx.hspd, ctx.hspdlen) + " left=" + hexs(ctx.left, 2) + " mpis=" + m + " | " +
			"c=" + U(ctx.sigcreationtime) + " e=" + U(ctx.sigexpirationtime) + " k=" + U(ctx.keyexpirationtime) +
			" x=" + (ctx.exportablecertification ? "1" : "0") + " r=" + (ctx.revocable ? "1" : "0") + " kf=" + hexs(ctx.keyflags, ctx.keyflagslen) + " ft=" + hexs(ctx.features, ctx.featureslen) +
			" psa=" + hexs(ctx.psa, ctx.psalen) + " pha=" + hexs(ctx.pha, ctx.phalen) + " pca=" + hexs(ctx.pca, ctx.pcalen) + " paa=" + hexs(ctx.paa, ctx.paalen) + " rc=" + U((unsigned)ctx.revocationcode) +
			" rk=" + U((unsigned)ctx.revocationkey_class) + ":" + U((unsigned)ctx.revocationkey_pkalgo) + ":" + hexs(ctx.revocationkey_fingerprint, 32) + " pu=" + (ctx.primaryuserid ? "1" : "0") +
			" i=" + hexs(ctx.issuer, 8) + " iv=" + U((unsigned)ctx.issuerkeyversion) + " if=" + hexs(ctx.issuerfingerprint, 32) + " es=" + hexs(ctx.embeddedsignature, ctx.embeddedsignaturelen) +
			" esl=" + hexlist(es) + " nt=" + nts + " rf=" + hexlist(rf);
	} break;
	case 6: case 14:
		out = "pub tag=" + U(ret) + " v=" + U(ctx.version) + " time=" + U(ctx.keycreationtime) + " algo=" + U((unsigned)ctx.pkalgo) + " " + mat_text(ctx);
		break;
	case 5: case 7:
		if (ctx.s2kconv == 0) {
			std::string sec;
			if (ctx.pkalgo == 16 || ctx.pkalgo == 17) sec = "[" + mpi_dec_str(ctx.x) + "]";
			else if (ctx.pkalgo >= 1 && ctx.pkalgo <= 3) sec = "[" + mpi_dec_str(ctx.d) + "," + mpi_dec_str(ctx.p) + "," + mpi_dec_str(ctx.q) + "," + mpi_dec_str(ctx.u) + "]";
			else sec = "[" + mpi_dec_str(ctx.ecsk) + "]";
			// RSA: p and q of the context are the secret primes then, n and e the public part
			out = "sec tag=" + U(ret) + " time=" + U(ctx.keycreationtime) + " algo=" + U((unsigned)ctx.pkalgo) + " " + mat_text(ctx) + " secret=" + sec;
		} else {
			out = "secprot tag=" + U(ret) + " time=" + U(ctx.keycreationtime) + " algo=" + U((unsigned)ctx.pkalgo) + " " + mat_text(ctx) +
				" sk=" + U((unsigned)ctx.skalgo) + " s2k=" + U((unsigned)ctx.s2k_type) + " hash=" + U((unsigned)ctx.s2k_hashalgo) + " salt=" + hexs(ctx.s2k_salt, 8) +
				" count=" + U(ctx.s2k_count) + " iv=" + hexs(ctx.iv, sk_ivlen(ctx.skalgo)) + " ct=" + hexs(ctx.encdata, ctx.encdatalen);
		}
		break;
	case 9: out = "sed " + hexs(ctx.encdata, ctx.encdatalen); break;
	case 11: out = "lit format=" + U(ctx.dataformat) + " fname=" + hexs(ctx.datafilename, ctx.datafilenamelen) + " time=" + U(ctx.datatime) + " data=" + hexs(ctx.data, ctx.datalen); break;
	case 13: out = "uid " + hexs(ctx.uiddata, ctx.uiddatalen); break;
	case 18: out = "seipd " + hexs(ctx.encdata, ctx.encdatalen); break;
	case 19: out = "mdc " + hexs(ctx.mdc_hash, 20); break;
	case 20: out = "aead sk=" + U((unsigned)ctx.skalgo) + " ae=" + U((unsigned)ctx.aeadalgo) + " cs=" + U(ctx.chunksize) + " iv=" + hexs(ctx.iv, aead_ivlen(ctx.aeadalgo)) + " enc=" + hexs(ctx.encdata, ctx.encdatalen); break;
	default: out = "?"; break;
	}
	if (ok) out += " rest=" + U(in.size());
	PGP::PacketContextRelease(ctx);
	for (auto &m : qual) gcry_mpi_release(m); for (auto &m : xq) gcry_mpi_release(m); for (auto &m : v_i) gcry_mpi_release(m);
	for (auto &v : c_ik) for (auto &m : v) gcry_mpi_release(m);
	return out;
}
// decode what was emitted: alone, followed by other octets, and (sometimes) cut short
static void dec_lines(const Oct &packet, SplitMix &g, const std::string &tag, bool extras = true)
{
	if (packet.empty()) return;
	emit("pgpenc.dec " + hx(packet) + tagtok(tag) + " => " + dec_text(packet));
	if (!extras || packet.size() > 20000) return;
	if (g.below(3) == 0) { Oct t = packet; Oct tail = rnd_octets(g, 1 + g.below(5)); t.insert(t.end(), tail.begin(), tail.end()); emit("pgpenc.dec " + hx(t) + tagtok(tag.empty() ? "tail" : tag + ":tail") + " => " + dec_text(t)); }
	if (g.below(4) == 0) { Oct t(packet.begin(), packet.begin() + g.below(packet.size())); if (!t.empty()) emit("pgpenc.dec " + hx(t) + " tag:cut => " + dec_text(t)); }
}

} // namespace pgpencdrv
using namespace pgpencdrv;

static std::string gen_text_plain(SplitMix &g, size_t n) { std::string t; for (size_t i = 0; i < n; i++) t += (char)(33 + g.below(94)); return t; }

// ---------------------------------------------------------------- key packets
struct Coverage { std::set<std::string> seen; void add(const std::string &k) { seen.insert(k); } };
static Coverage cov;

// the MPI interface: tag 6 / 14, version 4 / 5
static Oct pub_line(SplitMix &g, int tag, int ver, uint64_t t, int algo, mpz_srcptr p, mpz_srcptr q, mpz_srcptr gg, mpz_srcptr y, const std::string &cls)
{
	M mp(p), mq(q), mg(gg), my(y); Oct out;
	tmcg_openpgp_pkalgo_t a = (tmcg_openpgp_pkalgo_t)algo;
	if (tag == 6) { if (ver == 4) PGP::PacketPubEncode((time_t)t, a, mp, mq, mg, my, out); else PGP::PacketPubEncodeV5((time_t)t, a, mp, mq, mg, my, out); }
	else { if (ver == 4) PGP::PacketSubEncode((time_t)t, a, mp, mq, mg, my, out); else PGP::PacketSubEncodeV5((time_t)t, a, mp, mq, mg, my, out); }
	std::string c = cls; std::string bc = body_class(body_of(out).size()); if (!bc.empty()) c += (c.empty() ? "" : ":") + bc;
	emit("pgpenc.pub " + U(tag) + " " + U(ver) + " " + U(t) + " " + U(algo) + " " + zs(p) + " " + zs(q) + " " + zs(gg) + " " + zs(y) + tagtok(c) + " => " + hx(out));
	if (!out.empty()) cov.add("pub:" + U(tag) + ":v" + U(ver) + ":a" + U(algo));
	dec_lines(out, g, c);
	return out;
}
static Oct pubec_line(SplitMix &g, int tag, int ver, uint64_t t, int algo, const Oct &oid, mpz_srcptr ecpk, int kh, int ks, const std::string &cls)
{
	M me(ecpk); Oct out;
	tmcg_openpgp_pkalgo_t a = (tmcg_openpgp_pkalgo_t)algo; tmcg_openpgp_hashalgo_t h = (tmcg_openpgp_hashalgo_t)kh; tmcg_openpgp_skalgo_t s = (tmcg_openpgp_skalgo_t)ks;
	const tmcg_openpgp_byte_t *op = oid.empty() ? (const tmcg_openpgp_byte_t*)"" : oid.data();
	if (tag == 6) { if (ver == 4) PGP::PacketPubEncode((time_t)t, a, oid.size(), op, me, h, s, out); else PGP::PacketPubEncodeV5((time_t)t, a, oid.size(), op, me, h, s, out); }
	else { if (ver == 4) PGP::PacketSubEncode((time_t)t, a, oid.size(), op, me, h, s, out); else PGP::PacketSubEncodeV5((time_t)t, a, oid.size(), op, me, h, s, out); }
	std::string c = cls; std::string bc = body_class(body_of(out).size()); if (!bc.empty()) c += (c.empty() ? "" : ":") + bc;
	emit("pgpenc.pubec " + U(tag) + " " + U(ver) + " " + U(t) + " " + U(algo) + " " + hx(oid) + " " + zs(ecpk) + " " + U(kh) + " " + U(ks) + tagtok(c) + " => " + hx(out));
	if (!out.empty()) cov.add("pub:" + U(tag) + ":v" + U(ver) + ":a" + U(algo));
	dec_lines(out, g, c);
	return out;
}
// fingerprint and key id of a key packet body; the digest oracle is what libgcrypt was asked
static void fpr_line(int ver, const Oct &body, const std::string &cls)
{
	Oct fpr, kid;
	hashlog.clear(); hashlog.log = true;
	if (ver == 5) { PGP::FingerprintComputeV5(body, fpr); PGP::KeyidComputeV5(body, kid); } else { PGP::FingerprintCompute(body, fpr); PGP::KeyidCompute(body, kid); }
	hashlog.log = false;
	std::string log = "[";
	for (size_t i = 0; i < hashlog.raw.size(); i++) {
		int algo = hashlog.raw[i].first; const std::string &in = hashlog.raw[i].second;
		std::vector<unsigned char> d(gcry_md_get_algo_dlen(algo));
		gcry_md_hash_buffer(algo, d.data(), in.data(), in.size());
		if (i) log += ",";
		unsigned char ab = (unsigned char)algo;
		log += hexs(&ab, 1) + ":" + hexs(in) + ":" + hexs(d);
	}
	log += "]"; hashlog.clear();
	emit("pgpenc.fpr " + U(ver) + " " + hx(body) + " " + log + tagtok(cls) + " => " + hx(fpr) + " " + hx(kid));
	cov.add("fpr:v" + U(ver));
}
static Oct sec_line(SplitMix &g, int tag, uint64_t t, int algo, mpz_srcptr p, mpz_srcptr q, mpz_srcptr gg, mpz_srcptr y, mpz_srcptr x, const std::string &cls)
{
	M mp(p), mq(q), mg(gg), my(y), mx(x); Oct out; tmcg_openpgp_secure_string_t pw;
	tmcg_openpgp_pkalgo_t a = (tmcg_openpgp_pkalgo_t)algo;
	if (tag == 5) PGP::PacketSecEncode((time_t)t, a, mp, mq, mg, my, mx, pw, out); else PGP::PacketSsbEncode((time_t)t, a, mp, mq, mg, my, mx, pw, out);
	std::string c = cls; std::string bc = body_class(body_of(out).size()); if (!bc.empty()) c += (c.empty() ? "" : ":") + bc;
	emit("pgpenc.sec " + U(tag) + " " + U(t) + " " + U(algo) + " " + zs(p) + " " + zs(q) + " " + zs(gg) + " " + zs(y) + " " + zs(x) + tagtok(c) + " => " + hx(out));
	if (!out.empty()) cov.add("sec:" + U(tag) + ":a" + U(algo));
	dec_lines(out, g, c);
	return out;
}
// with a passphrase: salt and IV are the coins served, the cipher is an oracle (what gcry_cipher_encrypt
// saw and returned), SHA-1 of the MPI octets is computed here
static Oct secprot_line(SplitMix &g, int tag, uint64_t t, int algo, mpz_srcptr p, mpz_srcptr q, mpz_srcptr gg, mpz_srcptr y, mpz_srcptr x, const std::string &pass, const std::string &cls)
{
	M mp(p), mq(q), mg(gg), my(y), mx(x); Oct out; tmcg_openpgp_secure_string_t pw; for (char ch : pass) pw += ch;
	tmcg_openpgp_pkalgo_t a = (tmcg_openpgp_pkalgo_t)algo;
	coins.take(); coins.log = true; cryptolog.clear(); cryptolog.log = true;
	if (tag == 5) PGP::PacketSecEncode((time_t)t, a, mp, mq, mg, my, mx, pw, out); else PGP::PacketSsbEncode((time_t)t, a, mp, mq, mg, my, mx, pw, out);
	cryptolog.log = false; coins.log = false;
	std::vector<CoinLogEntry> es = coins.take();
	std::string cl = "["; for (size_t i = 0; i < es.size(); i++) { if (i) cl += ","; cl += hexs(es[i].bytes); } cl += "]";
	Oct m; PGP::PacketMPIEncode(mx, m); unsigned char d[20]; gcry_md_hash_buffer(GCRY_MD_SHA1, d, m.data(), m.size());
	std::string hl = "[" + hx(m) + ":" + hexs(d, 20) + "]";
	std::string el = "["; bool first = true;
	for (auto &c : cryptolog.ciphers) if (c.encrypt) { if (!first) el += ","; first = false; el += hexs(c.in) + ":" + hexs(c.out); }
	el += "]"; cryptolog.clear();
	std::string c = cls; std::string bc = body_class(body_of(out).size()); if (!bc.empty()) c += (c.empty() ? "" : ":") + bc;
	emit("pgpenc.secprot " + U(tag) + " " + U(t) + " " + U(algo) + " " + zs(p) + " " + zs(q) + " " + zs(gg) + " " + zs(y) + " " + zs(x) + " " + hexs(pass) + " " + cl + " " + hl + " " + el + tagtok(c) + " => " + hx(out));
	if (!out.empty()) cov.add("secprot:" + U(tag) + ":a" + U(algo));
	dec_lines(out, g, c);
	return out;
}

// the library's own threshold-key formats (algorithms 107, 108: tag 5; 109: tag 7), no passphrase
static void secexp_line(SplitMix &g, int algo)
{
	size_t n = 1 + g.below(4), t = g.below(n), idx = g.below(n);
	std::vector<Z> head(9); for (int k = 0; k < 5; k++) bytes_value(head[k], g, 1 + g.below(k == 1 ? 20 : 64), (int)g.below(5));
	mpz_set_ui(head[5], n); mpz_set_ui(head[6], t); mpz_set_ui(head[7], idx);
	size_t qs = 1 + g.below(n); mpz_set_ui(head[8], qs);
	std::vector<Z> qual(qs), xq, v_i(n); for (size_t j = 0; j < qs; j++) mpz_set_ui(qual[j], j);
	Z xqs; size_t xn = g.below(n + 1); mpz_set_ui(xqs, xn); xq.resize(xn); for (size_t j = 0; j < xn; j++) mpz_set_ui(xq[j], j);
	std::vector<std::string> capl; size_t nc = (algo == 108) ? qs : n;
	for (size_t j = 0; j < nc; j++) capl.push_back(gen_text_plain(g, 1 + g.below(j == 0 ? 250 : 30)));
	std::vector< std::vector<Z> > c(n, std::vector<Z>(t + 1)); for (auto &row : c) for (auto &e : row) bytes_value(e, g, g.below(40), (int)g.below(5));
	for (auto &e : v_i) bytes_value(e, g, 1 + g.below(40), 0);
	Z xi, xpi; bytes_value(xi, g, 1 + g.below(20), (int)g.below(5)); bytes_value(xpi, g, 1 + g.below(20), (int)g.below(5));
	// gcry handles
	std::vector<M*> keep; auto mk = [&](mpz_srcptr z) { M *m = new M(z); keep.push_back(m); return (gcry_mpi_t)*m; };
	std::vector<gcry_mpi_t> gq, gxq, gv; for (auto &e : qual) gq.push_back(mk(e)); for (auto &e : xq) gxq.push_back(mk(e)); for (auto &e : v_i) gv.push_back(mk(e));
	std::vector< std::vector<gcry_mpi_t> > gc(n); for (size_t j = 0; j < n; j++) for (auto &e : c[j]) gc[j].push_back(mk(e));
	gcry_mpi_t h[9]; for (int k = 0; k < 9; k++) h[k] = mk(head[k]);
	gcry_mpi_t gxqs = mk(xqs), gxi = mk(xi), gxpi = mk(xpi);
	Oct out; tmcg_openpgp_secure_string_t pw; uint64_t tm = 1000 + g.below(100000);
	std::vector<Z> m1(head.begin(), head.end()), m2; std::vector<std::string> strs;
	m1.insert(m1.end(), qual.begin(), qual.end());
	if (algo == 108) { PGP::PacketSecEncodeExperimental108((time_t)tm, h[0], h[1], h[2], h[3], h[4], h[5], h[6], h[7], h[8], gq, capl, gc, gxi, gxpi, pw, out); strs = capl; for (auto &row : c) m2.insert(m2.end(), row.begin(), row.end()); }
	else if (algo == 107) { PGP::PacketSecEncodeExperimental107((time_t)tm, h[0], h[1], h[2], h[3], h[4], h[5], h[6], h[7], h[8], gq, gxqs, gxq, capl, gc, gxi, gxpi, pw, out);
		m1.push_back(xqs); m1.insert(m1.end(), xq.begin(), xq.end()); strs = capl; for (auto &row : c) m2.insert(m2.end(), row.begin(), row.end()); }
	else { PGP::PacketSsbEncodeExperimental109((time_t)tm, h[0], h[1], h[2], h[3], h[4], h[5], h[6], h[7], h[8], gq, gv, gc, gxi, gxpi, pw, out);
		m1.insert(m1.end(), v_i.begin(), v_i.end()); for (auto &row : c) m1.insert(m1.end(), row.begin(), row.end()); }
	for (M *m : keep) delete m;
	std::string sl = "["; for (size_t j = 0; j < strs.size(); j++) { if (j) sl += ","; sl += hexs(strs[j]); } sl += "]";
	emit("pgpenc.secexp " + U(algo == 109 ? 7 : 5) + " " + U(tm) + " " + U(algo) + " " + zlist1(m1) + " " + sl + " " + zlist1(m2) + " " + xi.str() + " " + xpi.str() + tagtok(body_class(body_of(out).size())) + " => " + hx(out));
	cov.add("secexp:a" + U(algo));
}

// ---------------------------------------------------------------- data packets, user id
static Oct uid_line(SplitMix &g, const std::string &uid)
{
	Oct out; PGP::PacketUidEncode(uid, out); std::string c = body_class(uid.size());
	emit("pgpenc.uid " + hexs(uid) + tagtok(c) + " => " + hx(out)); cov.add("uid"); dec_lines(out, g, c); return out;
}
static Oct lit_line(SplitMix &g, const Oct &data)
{
	Oct out; time_t t0, t1;
	do { out.clear(); t0 = time(NULL); PGP::PacketLitEncode(data, out); t1 = time(NULL); } while (t0 != t1);
	std::string c = body_class(data.size() + 6);
	emit("pgpenc.lit " + U((uint64_t)t0) + " " + hx(data) + tagtok(c) + " => " + hx(out)); cov.add("lit"); dec_lines(out, g, c); return out;
}
static Oct sed_line(SplitMix &g, const Oct &enc)
{
	Oct out; PGP::PacketSedEncode(enc, out); std::string c = body_class(enc.size());
	emit("pgpenc.sed " + hx(enc) + tagtok(c) + " => " + hx(out)); cov.add("sed"); dec_lines(out, g, c); return out;
}
static Oct seipd_line(SplitMix &g, const Oct &enc)
{
	Oct out; PGP::PacketSeipdEncode(enc, out); std::string c = body_class(enc.size() + 1);
	emit("pgpenc.seipd " + hx(enc) + tagtok(c) + " => " + hx(out)); cov.add("seipd"); dec_lines(out, g, c); return out;
}
static Oct aead_line(SplitMix &g, int sk, int ae, int cs, const Oct &iv, const Oct &enc)
{
	Oct out; PGP::PacketAeadEncode((tmcg_openpgp_skalgo_t)sk, (tmcg_openpgp_aeadalgo_t)ae, (tmcg_openpgp_byte_t)cs, iv, enc, out);
	std::string c = body_class(4 + iv.size() + enc.size());
	emit("pgpenc.aead " + U(sk) + " " + U(ae) + " " + U(cs) + " " + hx(iv) + " " + hx(enc) + tagtok(c) + " => " + hx(out)); cov.add("aead:" + U(ae)); dec_lines(out, g, c); return out;
}
static Oct mdc_line(SplitMix &g, const Oct &h)
{
	Oct out; PGP::PacketMdcEncode(h, out);
	emit("pgpenc.mdc " + hx(h) + " => " + hx(out)); cov.add("mdc"); dec_lines(out, g, ""); return out;
}

// ---------------------------------------------------------------- session keys, signatures
static Oct pkesk_line(SplitMix &g, int algo, const Oct &keyid, const std::vector<Z> &mpis, const Oct &rkw, const std::string &cls)
{
	Oct out;
	if (algo == 1) { M a(mpis[0]); PGP::PacketPkeskEncode(keyid, a, out); }
	else if (algo == 16) { M a(mpis[0]), b(mpis[1]); PGP::PacketPkeskEncode(keyid, a, b, out); }
	else { M a(mpis[0]); tmcg_openpgp_byte_t buf[256]; memset(buf, 0, sizeof(buf)); for (size_t i = 0; i < rkw.size() && i < 256; i++) buf[i] = rkw[i]; PGP::PacketPkeskEncode(keyid, a, rkw.size(), buf, out); }
	std::string c = cls; std::string bc = body_class(body_of(out).size()); if (!bc.empty()) c += (c.empty() ? "" : ":") + bc;
	emit("pgpenc.pkesk " + U(algo) + " " + hx(keyid) + " " + zlist1(mpis) + " " + hx(rkw) + tagtok(c) + " => " + hx(out));
	cov.add("pkesk:a" + U(algo)); dec_lines(out, g, c); return out;
}
static Oct sig_line(SplitMix &g, const Oct &hashedpart, const Oct &left, const std::vector<Z> &mpis, const std::string &cls)
{
	Oct out;
	if (mpis.size() == 1) { M s(mpis[0]); PGP::PacketSigEncode(hashedpart, left, s, out); }
	else { M r(mpis[0]), s(mpis[1]); PGP::PacketSigEncode(hashedpart, left, r, s, out); }
	std::string c = cls; std::string bc = body_class(body_of(out).size()); if (!bc.empty()) c += (c.empty() ? "" : ":") + bc;
	emit("pgpenc.sig " + hx(hashedpart) + " " + hx(left) + " " + zlist1(mpis) + tagtok(c) + " => " + hx(out));
	if (hashedpart.size() >= 3) cov.add("sig:v" + U(hashedpart[0]) + ":a" + U(hashedpart[2]));
	dec_lines(out, g, c); return out;
}
static Oct subpkt_line(int type, bool crit, const Oct &body)
{
	Oct out; PGP::SubpacketEncode((tmcg_openpgp_byte_t)type, crit, body, out);
	emit("pgpenc.subpkt " + U(type) + " " + (crit ? "1" : "0") + " " + hx(body) + tagtok(body_class(body.size() + 1)) + " => " + hx(out)); cov.add("subpkt"); return out;
}

// ---------------------------------------------------------------- the prepared hashed parts
typedef tmcg_openpgp_signature_t SigT; typedef tmcg_openpgp_pkalgo_t PkT; typedef tmcg_openpgp_hashalgo_t HaT;
static std::string nt_text(const tmcg_openpgp_notations_t &nt)
{
	std::string s = "["; for (size_t i = 0; i < nt.size(); i++) { if (i) s += ","; s += hx(nt[i].first) + ":" + hx(nt[i].second); } return s + "]";
}
static std::string area_class(const Oct &out) { if (out.size() >= 6 + 65536) return "area:overflow:big"; return out.size() >= 6 ? body_class(out.size() - 6) : ""; }
static std::string join(const std::string &a, const std::string &b) { return a.empty() ? b : (b.empty() ? a : a + ":" + b); }

static Oct prep_self(int type, int pk, int hash, uint64_t st, uint64_t ke, const Oct &flags, const Oct &issuer, bool bis, bool shortform)
{
	Oct out;
	if (shortform) PGP::PacketSigPrepareSelfSignature((SigT)type, (HaT)hash, (time_t)st, (time_t)ke, flags, issuer, out);
	else PGP::PacketSigPrepareSelfSignature((SigT)type, (PkT)pk, (HaT)hash, (time_t)st, (time_t)ke, flags, issuer, bis, out);
	emit("pgpenc.prep.self " + U(type) + " " + U(pk) + " " + U(hash) + " " + U(st) + " " + U(ke) + " " + hx(flags) + " " + hx(issuer) + " " + (bis ? "1" : "0") + tagtok(join(shortform ? "short" : "", area_class(out))) + " => " + hx(out));
	cov.add("prep.self"); return out;
}
static Oct prep_revoker(int pk, int hash, uint64_t st, const Oct &flags, const Oct &issuer, int pk2, const Oct &revoker, bool bis, bool shortform)
{
	Oct out;
	if (shortform) PGP::PacketSigPrepareDesignatedRevoker((HaT)hash, (time_t)st, flags, issuer, (PkT)pk2, revoker, out);
	else PGP::PacketSigPrepareDesignatedRevoker((PkT)pk, (HaT)hash, (time_t)st, flags, issuer, (PkT)pk2, revoker, bis, out);
	emit("pgpenc.prep.revoker " + U(pk) + " " + U(hash) + " " + U(st) + " " + hx(flags) + " " + hx(issuer) + " " + U(pk2) + " " + hx(revoker) + " " + (bis ? "1" : "0") + tagtok(join(shortform ? "short" : "", area_class(out))) + " => " + hx(out));
	cov.add("prep.revoker"); return out;
}
static Oct prep_detached(int ver, int type, int pk, int hash, uint64_t st, uint64_t se, const std::string &policy, const Oct &issuer, bool shortform)
{
	Oct out;
	if (ver == 5) { if (shortform) PGP::PacketSigPrepareDetachedSignatureV5((SigT)type, (HaT)hash, (time_t)st, (time_t)se, policy, issuer, out);
		else PGP::PacketSigPrepareDetachedSignatureV5((SigT)type, (PkT)pk, (HaT)hash, (time_t)st, (time_t)se, policy, issuer, out); }
	else { if (shortform) PGP::PacketSigPrepareDetachedSignature((SigT)type, (HaT)hash, (time_t)st, (time_t)se, policy, issuer, out);
		else PGP::PacketSigPrepareDetachedSignature((SigT)type, (PkT)pk, (HaT)hash, (time_t)st, (time_t)se, policy, issuer, out); }
	emit("pgpenc.prep.detached " + U(ver) + " " + U(type) + " " + U(pk) + " " + U(hash) + " " + U(st) + " " + U(se) + " " + hexs(policy) + " " + hx(issuer) + tagtok(join(shortform ? "short" : "", area_class(out))) + " => " + hx(out));
	cov.add("prep.detached:v" + U(ver)); return out;
}
static Oct prep_revocation(int type, int pk, int hash, uint64_t st, int rc, const std::string &reason, const Oct &issuer, bool shortform)
{
	Oct out;
	if (shortform) PGP::PacketSigPrepareRevocationSignature((SigT)type, (HaT)hash, (time_t)st, (tmcg_openpgp_revcode_t)rc, reason, issuer, out);
	else PGP::PacketSigPrepareRevocationSignature((SigT)type, (PkT)pk, (HaT)hash, (time_t)st, (tmcg_openpgp_revcode_t)rc, reason, issuer, out);
	emit("pgpenc.prep.revocation " + U(type) + " " + U(pk) + " " + U(hash) + " " + U(st) + " " + U(rc) + " " + hexs(reason) + " " + hx(issuer) + tagtok(join(shortform ? "short" : "", area_class(out))) + " => " + hx(out));
	cov.add("prep.revocation"); return out;
}
static Oct prep_cert(int type, int pk, int hash, uint64_t st, uint64_t se, const std::string &policy, const Oct &issuer, bool shortform)
{
	Oct out;
	if (shortform) PGP::PacketSigPrepareCertificationSignature((SigT)type, (HaT)hash, (time_t)st, (time_t)se, policy, issuer, out);
	else PGP::PacketSigPrepareCertificationSignature((SigT)type, (PkT)pk, (HaT)hash, (time_t)st, (time_t)se, policy, issuer, out);
	emit("pgpenc.prep.cert " + U(type) + " " + U(pk) + " " + U(hash) + " " + U(st) + " " + U(se) + " " + hexs(policy) + " " + hx(issuer) + tagtok(join(shortform ? "short" : "", area_class(out))) + " => " + hx(out));
	cov.add("prep.cert"); return out;
}
static Oct prep_timestamp(int pk, int hash, uint64_t st, const std::string &policy, const Oct &issuer, int tpk, int thash, const Oct &th, const tmcg_openpgp_notations_t &nt)
{
	Oct out; PGP::PacketSigPrepareTimestampSignature((PkT)pk, (HaT)hash, (time_t)st, policy, issuer, (PkT)tpk, (HaT)thash, th, nt, out);
	emit("pgpenc.prep.timestamp " + U(pk) + " " + U(hash) + " " + U(st) + " " + hexs(policy) + " " + hx(issuer) + " " + U(tpk) + " " + U(thash) + " " + hx(th) + " " + nt_text(nt) + tagtok(area_class(out)) + " => " + hx(out));
	cov.add("prep.timestamp"); return out;
}
static Oct prep_timestamp2(int pk, int hash, uint64_t st, const std::string &policy, const Oct &issuer, const Oct &ts, const tmcg_openpgp_notations_t &nt)
{
	Oct out; PGP::PacketSigPrepareTimestampSignature((PkT)pk, (HaT)hash, (time_t)st, policy, issuer, ts, nt, out);
	emit("pgpenc.prep.timestamp2 " + U(pk) + " " + U(hash) + " " + U(st) + " " + hexs(policy) + " " + hx(issuer) + " " + hx(ts) + " " + nt_text(nt) + tagtok(area_class(out)) + " => " + hx(out));
	cov.add("prep.timestamp2"); return out;
}
static Oct prep_attest(int pk, int hash, uint64_t st, const std::string &policy, const Oct &issuer, const Oct &att, const tmcg_openpgp_notations_t &nt)
{
	Oct out; PGP::PacketSigPrepareAttestationSignature((PkT)pk, (HaT)hash, (time_t)st, policy, issuer, att, nt, out);
	emit("pgpenc.prep.attest " + U(pk) + " " + U(hash) + " " + U(st) + " " + hexs(policy) + " " + hx(issuer) + " " + hx(att) + " " + nt_text(nt) + tagtok(area_class(out)) + " => " + hx(out));
	cov.add("prep.attest"); return out;
}

// ---------------------------------------------------------------- generators
static uint64_t gen_time(SplitMix &g)
{
	static const uint64_t fixed[] = { 0, 1, 0x7FFFFFFFULL, 0x80000000ULL, 0xFFFFFFFFULL, 1234567890ULL };
	switch (g.below(8)) { case 0: return fixed[g.below(6)]; case 1: return 0x100000000ULL + g.below(1000); default: return g.below(0x100000000ULL); }
}
static const int kHashes[] = { 1, 2, 3, 8, 9, 10, 11, 12, 14 };
static int gen_hash(SplitMix &g) { return kHashes[g.below(9)]; }
static const int kSigPk[] = { 1, 3, 17, 19, 22 };
static Oct gen_issuer(SplitMix &g) { switch (g.below(6)) { case 0: return rnd_octets(g, 8); case 1: return Oct(); case 2: return rnd_octets(g, g.below(40)); default: return rnd_octets(g, 20); } }
static std::string gen_text(SplitMix &g, size_t n) { std::string s; for (size_t i = 0; i < n; i++) s += (char)(g.below(20) ? 32 + g.below(95) : g.below(256)); return s; }
static tmcg_openpgp_notations_t gen_notations(SplitMix &g)
{
	tmcg_openpgp_notations_t nt; size_t k = g.below(3) ? 0 : 1 + g.below(3);
	for (size_t i = 0; i < k; i++) { tmcg_openpgp_notation_t n; n.first = rnd_octets(g, g.below(5) ? 1 + g.below(30) : 0); n.second = rnd_octets(g, g.below(60)); nt.push_back(n); }
	return nt;
}
static Oct oid_of(const tmcg_openpgp_byte_t *t) { return Oct(t + 1, t + 1 + t[0]); }
static Oct gen_oid(SplitMix &g)
{
	switch (g.below(10)) {
	case 0: return oid_of(tmcg_openpgp_oid_nistp256); case 1: return oid_of(tmcg_openpgp_oid_nistp384); case 2: return oid_of(tmcg_openpgp_oid_nistp521);
	case 3: return oid_of(tmcg_openpgp_oid_brainpoolp256r1); case 4: return oid_of(tmcg_openpgp_oid_brainpoolp512r1);
	case 5: case 6: return oid_of(tmcg_openpgp_oid_ed25519); case 7: return oid_of(tmcg_openpgp_oid_cv25519);
	default: return rnd_octets(g, 1 + g.below(20));
	}
}
// an EC point as OpenPGP carries it: 0x04 ‖ X ‖ Y or 0x40 ‖ X (native format)
static void gen_point(mpz_ptr r, SplitMix &g)
{
	size_t n = g.coin() ? 32 : (g.coin() ? 48 : 66); bool native = g.below(3) == 0;
	std::vector<unsigned char> b(1 + (native ? 32 : 2 * n)); b[0] = native ? 0x40 : 0x04;
	for (size_t i = 1; i < b.size(); i++) b[i] = (unsigned char)g.below(256);
	mpz_import(r, b.size(), 1, 1, 1, 0, b.data());
}
// a small value of one of the edge patterns, with its class
static std::string gen_mpi(mpz_ptr r, SplitMix &g, size_t maxbytes)
{
	switch (g.below(10)) {
	case 0: mpz_set_ui(r, 0); return "mpi:0";
	case 1: mpz_set_ui(r, 1); return "mpi:1";
	case 2: bytes_value(r, g, 1 + g.below(maxbytes), 1); return "mpi:lead01";
	case 3: bytes_value(r, g, 1 + g.below(maxbytes), 2); return "mpi:lead80";
	case 4: bytes_value(r, g, 1 + g.below(maxbytes), 3); return "mpi:ones";
	case 5: bytes_value(r, g, 1 + g.below(maxbytes), 4); return "mpi:pow2";
	default: bytes_value(r, g, 1 + g.below(maxbytes), 0); return "";
	}
}
// k byte lengths (each >= 1, <= 8191) whose MPI encodings take `total` octets in all; false if impossible
static bool fit(SplitMix &g, size_t total, size_t k, std::vector<size_t> &lens)
{
	lens.assign(k, 0); if (total < 3 * k) return false;
	size_t room = total - 2 * k;             // octets of magnitude, >= k
	for (size_t i = 0; i + 1 < k; i++) { size_t rem = k - 1 - i; size_t mx = room - rem; if (mx > 300) mx = 300; lens[i] = 1 + g.below(mx); room -= lens[i]; }
	lens[k - 1] = room;
	if (k > 1 && lens[k - 1] > 8191) { lens[0] += lens[k - 1] - 8191; lens[k - 1] = 8191; }
	for (size_t l : lens) if (l < 1 || l > 8191) return false;
	return true;
}
static const size_t kMarks[] = { 190, 191, 192, 193, 8382, 8383, 8384, 8385 };

static void key_boundaries(SplitMix &g)
{
	Z p, q, gg, y, x;
	static const int algos[] = { 1, 2, 3, 16, 17 };
	for (int tag : { 6, 14 }) for (int ver : { 4, 5 }) for (int algo : algos) for (size_t L : kMarks) {
		size_t hdr = ver == 4 ? 6 : 10; size_t k = (algo <= 3) ? 2 : (algo == 16 ? 3 : 4);
		std::vector<size_t> lens; if (!fit(g, L - hdr, k, lens)) continue;
		std::vector<Z> v(k); for (size_t i = 0; i < k; i++) bytes_value(v[i], g, lens[i], (int)g.below(5));
		mpz_set_ui(p, 0); mpz_set_ui(q, 0); mpz_set_ui(gg, 0); mpz_set_ui(y, 0);
		if (algo <= 3) { mpz_set(p, v[0]); mpz_set(q, v[1]); } else if (algo == 16) { mpz_set(p, v[0]); mpz_set(gg, v[1]); mpz_set(y, v[2]); } else { mpz_set(p, v[0]); mpz_set(q, v[1]); mpz_set(gg, v[2]); mpz_set(y, v[3]); }
		Oct pk = pub_line(g, tag, ver, gen_time(g), algo, p, q, gg, y, "");
		if (tag == 6 && (L == 191 || L == 192 || L == 8383 || L == 8384)) fpr_line(ver, body_of(pk), "b" + U(L));
	}
	// curve keys
	for (int tag : { 6, 14 }) for (int ver : { 4, 5 }) for (int algo : { 18, 19, 22 }) for (size_t L : kMarks) {
		size_t hdr = (ver == 4 ? 6 : 10) + (algo == 18 ? 4 : 0); Oct oid = gen_oid(g);
		if (L < hdr + 1 + oid.size() + 3) continue; size_t ql = L - hdr - 1 - oid.size() - 2; if (ql > 8191) continue;
		bytes_value(q, g, ql, (int)g.below(5));
		pubec_line(g, tag, ver, gen_time(g), algo, oid, q, 8 + (int)g.below(3), 7 + (int)g.below(3), "");
	}
	// secret keys without protection
	for (int tag : { 5, 7 }) for (int algo : { 16, 17 }) for (size_t L : kMarks) {
		size_t k = (algo == 16 ? 3 : 4) + 1; std::vector<size_t> lens; if (L < 6 + 3 || !fit(g, L - 6 - 3, k, lens)) continue;
		std::vector<Z> v(k); for (size_t i = 0; i < k; i++) bytes_value(v[i], g, lens[i], (int)g.below(5));
		mpz_set_ui(q, 0);
		if (algo == 16) { mpz_set(p, v[0]); mpz_set(gg, v[1]); mpz_set(y, v[2]); mpz_set(x, v[3]); } else { mpz_set(p, v[0]); mpz_set(q, v[1]); mpz_set(gg, v[2]); mpz_set(y, v[3]); mpz_set(x, v[4]); }
		sec_line(g, tag, gen_time(g), algo, p, q, gg, y, x, "");
	}
}
static void mpi_edges(SplitMix &g)
{
	Z p, q, gg, y, x, one(1), three(3);
	// 0, 1, leading-zero patterns in every position of every algorithm
	for (int algo : { 1, 16, 17 }) for (int pos = 0; pos < 4; pos++) for (int pat = -2; pat <= 4; pat++) {
		Z *slot[4] = { &p, &q, &gg, &y };
		for (int i = 0; i < 4; i++) bytes_value(*slot[i], g, 1 + g.below(40), 0);
		std::string cls;
		if (pat == -2) { mpz_set_ui(*slot[pos], 0); cls = "mpi:0"; } else if (pat == -1) { mpz_set_ui(*slot[pos], 1); cls = "mpi:1"; }
		else { bytes_value(*slot[pos], g, 1 + g.below(40), pat); cls = "mpi:pat" + U(pat); }
		pub_line(g, g.coin() ? 6 : 14, g.coin() ? 4 : 5, gen_time(g), algo, p, q, gg, y, cls + ":pos" + U(pos));
	}
	// 2^k - 1 and 2^k around the octet counts 191/192 and at the top of the two-octet bit count
	static const unsigned ks[] = { 7, 8, 9, 1519, 1520, 1521, 1527, 1528, 1529, 1535, 1536, 1537, 65527, 65528, 65534 };
	for (unsigned k : ks) for (int minus = 0; minus < 2; minus++) {
		mpz_set_ui(p, 1); mpz_mul_2exp(p, p, k); if (minus) mpz_sub_ui(p, p, 1);
		pub_line(g, 6, 4, 1000, 1, p, three, one, one, std::string("mpi:2^") + U(k) + (minus ? "-1" : ""));
	}
	mpz_set_ui(p, 1); mpz_mul_2exp(p, p, 65535); mpz_sub_ui(p, p, 1); pub_line(g, 6, 4, 1000, 1, p, three, one, one, "mpi:2^65535-1");
	// beyond the two-octet bit count: libgcrypt cuts the count, the packet cannot be read back
	mpz_set_ui(p, 1); mpz_mul_2exp(p, p, 65535); pub_line(g, 6, 4, 1000, 1, p, three, one, one, "mpi:beyond");
	mpz_set_ui(p, 1); mpz_mul_2exp(p, p, 65536 + 77); mpz_add_ui(p, p, 99); pub_line(g, 14, 5, 1000, 17, three, p, one, one, "mpi:beyond");
	// algorithms the MPI interface does not take: nothing is written
	for (int algo : { 0, 18, 19, 22, 100, 107 }) pub_line(g, 6, 4, 1, algo, three, three, three, three, "unsupported");
	for (int algo : { 1, 17, 16, 0 }) { Oct oid = gen_oid(g); gen_point(q, g); pubec_line(g, 6, 4, 1, algo, oid, q, 8, 9, "unsupported"); }
	for (int algo : { 1, 18, 19, 22 }) sec_line(g, 5, 1, algo, three, three, three, three, three, "unsupported");
	// OID lengths the decoder reserves
	{ gen_point(q, g); pubec_line(g, 6, 4, 5, 19, Oct(), q, 8, 9, "oid:0"); pubec_line(g, 6, 4, 5, 22, rnd_octets(g, 255), q, 8, 9, "oid:255"); pubec_line(g, 14, 4, 5, 18, rnd_octets(g, 254), q, 8, 9, "oid:254"); }
	// secret x patterns
	for (int algo : { 16, 17 }) for (int pat = -2; pat <= 4; pat++) {
		bytes_value(p, g, 64, 0); bytes_value(q, g, 20, 0); bytes_value(gg, g, 64, 0); bytes_value(y, g, 64, 0);
		std::string cls; if (pat == -2) { mpz_set_ui(x, 0); cls = "mpi:0"; } else if (pat == -1) { mpz_set_ui(x, 1); cls = "mpi:1"; } else { bytes_value(x, g, 1 + g.below(40), pat); cls = "mpi:pat" + U(pat); }
		sec_line(g, g.coin() ? 5 : 7, gen_time(g), algo, p, q, gg, y, x, cls + ":x");
	}
}
static void data_boundaries(SplitMix &g)
{
	static const size_t Ls[] = { 0, 1, 2, 190, 191, 192, 193, 8382, 8383, 8384, 8385, 65534, 65535, 65536, 65537, 70001 };
	for (size_t L : Ls) {
		uid_line(g, gen_text(g, L));
		if (L == 65534 || L == 65537) continue;   // the other kinds: 65535, 65536 and one beyond
		sed_line(g, rnd_octets(g, L));
		if (L >= 1) seipd_line(g, rnd_octets(g, L - 1));
		if (L >= 6) lit_line(g, rnd_octets(g, L - 6));
		if (L >= 20) aead_line(g, 9, 1, 10, rnd_octets(g, 16), rnd_octets(g, L - 20));
		if (L >= 19) aead_line(g, 7, 2, 6, rnd_octets(g, 15), rnd_octets(g, L - 19));
		if (L >= 1) subpkt_line(2 + (int)g.below(30), g.coin(), rnd_octets(g, L - 1));
	}
	seipd_line(g, Oct()); lit_line(g, Oct()); lit_line(g, Oct(1, 0x41));
	aead_line(g, 9, 1, 0, rnd_octets(g, 16), Oct()); aead_line(g, 9, 3, 0, rnd_octets(g, 16), rnd_octets(g, 5)); aead_line(g, 9, 2, 255, rnd_octets(g, 15), Oct(1, 7));
	mdc_line(g, rnd_octets(g, 20)); mdc_line(g, Oct(20, 0)); mdc_line(g, Oct(20, 0xFF));
}

// signature MPIs for a public-key algorithm: RSA one, the others two
static void gen_sig_mpis(SplitMix &g, int pk, std::vector<Z> &m, std::string &cls, size_t nbytes = 0)
{
	m.assign((pk == 1 || pk == 3) ? 1 : 2, Z()); cls.clear();
	for (size_t i = 0; i < m.size(); i++) {
		if (nbytes) bytes_value(m[i], g, nbytes, (int)g.below(5));
		else { std::string c = gen_mpi(m[i], g, pk == 22 ? 32 : (pk == 19 ? 48 : 256)); if (!c.empty()) cls = join(cls, c + ":m" + U(i)); }
	}
}
static Oct gen_left(SplitMix &g) { return rnd_octets(g, 2); }

// one prepared hashed part of every kind, with the given algorithms
static Oct any_prep(SplitMix &g, int kind, int pk, int hash, bool edge)
{
	uint64_t st = gen_time(g), se = g.coin() ? 0 : gen_time(g);
	Oct issuer = gen_issuer(g), flags = rnd_octets(g, g.below(4) ? 1 : g.below(5));
	std::string policy = g.coin() ? "" : gen_text(g, edge ? g.below(400) : 1 + g.below(60));
	bool sf = (pk == 17) && g.below(3) == 0;
	static const int selft[] = { 0x10, 0x11, 0x12, 0x13, 0x18, 0x19, 0x1F }; static const int doct[] = { 0x00, 0x01, 0x02, 0x50 };
	static const int revt[] = { 0x20, 0x28, 0x30 }; static const int certt[] = { 0x10, 0x11, 0x12, 0x13 };
	switch (kind) {
	case 0: return prep_self(selft[g.below(7)], pk, hash, st, se, flags, issuer, sf ? true : g.coin(), sf);
	case 1: return prep_revoker(pk, hash, st, flags, issuer, kSigPk[g.below(5)], g.coin() ? rnd_octets(g, 20) : Oct(), sf ? true : g.coin(), sf);
	case 2: { if (g.below(4) == 0) issuer = rnd_octets(g, 32); return prep_detached(4, doct[g.below(4)], pk, hash, st, se, policy, issuer, sf); }
	case 3: { Oct f = g.below(3) == 0 ? rnd_octets(g, 20) : (g.below(8) == 0 ? rnd_octets(g, g.below(40)) : rnd_octets(g, 32)); return prep_detached(5, doct[g.below(4)], pk, hash, st, se, policy, f, sf); }
	case 4: { static const int rcs[] = { 0, 1, 2, 3, 32, 100 }; return prep_revocation(revt[g.below(3)], pk, hash, st, rcs[g.below(6)], gen_text(g, g.below(edge ? 300 : 50)), issuer, sf); }
	case 5: return prep_cert(certt[g.below(4)], pk, hash, st, se, policy, issuer, sf);
	case 6: { static const unsigned hl[] = { 16, 20, 32, 48, 64 }; return prep_timestamp(pk, hash, st, policy, issuer, kSigPk[g.below(5)], gen_hash(g), rnd_octets(g, hl[g.below(5)]), gen_notations(g)); }
	case 7: { // the embedded signature is a signature packet body of the library's own making
		Oct hp = prep_detached(4, 0, 17, 8, gen_time(g), 0, "", rnd_octets(g, 20), false); std::vector<Z> m; std::string c; gen_sig_mpis(g, 17, m, c, 20);
		Oct es; { M r(m[0]), s(m[1]); PGP::PacketSigEncode(hp, gen_left(g), r, s, es); }
		return prep_timestamp2(pk, hash, st, policy, issuer, body_of(es), gen_notations(g)); }
	default: return prep_attest(pk, hash, st, policy, issuer, rnd_octets(g, 20 * g.below(4)), gen_notations(g));
	}
}
static void sig_cases(SplitMix &g)
{
	// every kind x every signature algorithm, every hash algorithm at least once
	size_t hi = 0;
	for (int kind = 0; kind <= 8; kind++) for (int pk : kSigPk) {
		int hash = kHashes[hi++ % 9];
		Oct hp = any_prep(g, kind, pk, hash, false);
		std::vector<Z> m; std::string cls; gen_sig_mpis(g, pk, m, cls, pk == 22 ? 32 : (pk == 19 ? 32 : (pk == 17 ? 28 : 128)));
		sig_line(g, hp, gen_left(g), m, cls);
	}
	// MPI edge patterns (a final zero MPI is refused by the decoder)
	for (int pk : kSigPk) for (int rep = 0; rep < 6; rep++) {
		Oct hp = any_prep(g, (int)g.below(9), pk, gen_hash(g), false);
		std::vector<Z> m; std::string cls; gen_sig_mpis(g, pk, m, cls); sig_line(g, hp, gen_left(g), m, cls);
	}
	{ Oct hp = any_prep(g, 5, 17, 8, false); std::vector<Z> m(2); mpz_set_ui(m[0], 0); mpz_set_ui(m[1], 5); sig_line(g, hp, gen_left(g), m, "mpi:0:m0");
	  mpz_set_ui(m[0], 5); mpz_set_ui(m[1], 0); sig_line(g, hp, gen_left(g), m, "mpi:0:m1");
	  std::vector<Z> s(1); mpz_set_ui(s[0], 0); Oct hp2 = any_prep(g, 5, 1, 8, false); sig_line(g, hp2, gen_left(g), s, "mpi:0:m0"); }
	// body lengths at the marks: a certification with a policy URI (refused by the decoder from 2048 octets on), RSA value sized to fit
	for (size_t L : kMarks) for (int pk : { 1, 17 }) {
		Oct issuer = rnd_octets(g, 20); size_t k = pk == 1 ? 1 : 2;
		size_t pol = L > 1000 ? 1500 : 0;
		Oct hp = prep_cert(0x13, pk, 8, gen_time(g), 0, gen_text(g, pol), issuer, false);
		if (L < hp.size() + 4 + 3 * k) continue;
		std::vector<size_t> lens; if (!fit(g, L - hp.size() - 4, k, lens)) continue;
		std::vector<Z> m(k); for (size_t i = 0; i < k; i++) bytes_value(m[i], g, lens[i], 0);
		sig_line(g, hp, gen_left(g), m, "");
	}
	// hashed areas of 2^16 octets and more cannot be expressed: the two-octet length is cut
	for (size_t pol : { (size_t)65400, (size_t)65480, (size_t)65536, (size_t)70000 }) {
		Oct hp = prep_cert(0x10, 17, 8, 1000, 0, gen_text(g, pol), rnd_octets(g, 8), false);
		std::vector<Z> m; std::string cls; gen_sig_mpis(g, 17, m, cls, 20); sig_line(g, hp, gen_left(g), m, hp.size() - 6 >= 65536 ? "area:overflow" : "area:large");
	}
	// a hashed part that is no prepared one: arbitrary octets, a V3-looking prefix, unknown version
	{ std::vector<Z> m(1); bytes_value(m[0], g, 64, 0);
	  Oct a; a.push_back(4); a.push_back(0); a.push_back(1); a.push_back(8); a.push_back(0); a.push_back(0); sig_line(g, a, gen_left(g), m, "area:empty");
	  Oct b = a; b[0] = 6; sig_line(g, b, gen_left(g), m, "version:6");
	  Oct c = a; c[2] = 16; sig_line(g, c, gen_left(g), m, "pk:16");
	  Oct d = a; d[5] = 3; d.push_back(2); d.push_back(99 | 0x80); d.push_back(1); sig_line(g, d, gen_left(g), m, "critical:unknown"); }
}
static void pkesk_cases(SplitMix &g)
{
	std::vector<Z> m1(1), m2(2);
	for (size_t L : kMarks) {
		if (L < 10 + 3) continue; std::vector<size_t> lens;
		if (fit(g, L - 10, 1, lens)) { bytes_value(m1[0], g, lens[0], (int)g.below(5)); pkesk_line(g, 1, rnd_octets(g, 8), m1, Oct(), ""); }
		if (fit(g, L - 10, 2, lens)) { bytes_value(m2[0], g, lens[0], 0); bytes_value(m2[1], g, lens[1], 0); pkesk_line(g, 16, rnd_octets(g, 8), m2, Oct(), ""); }
		size_t rl = 1 + g.below(200); if (L >= 10 + 3 + 1 + rl && fit(g, L - 10 - 1 - rl, 1, lens)) { bytes_value(m1[0], g, lens[0], 0); pkesk_line(g, 18, rnd_octets(g, 8), m1, rnd_octets(g, rl), ""); }
	}
	for (int rep = 0; rep < 8; rep++) {
		std::string c = gen_mpi(m1[0], g, 256); pkesk_line(g, 1, g.below(4) ? rnd_octets(g, 8) : Oct(8, 0), m1, Oct(), c);
		std::string c0 = gen_mpi(m2[0], g, 256), c1 = gen_mpi(m2[1], g, 256); pkesk_line(g, 16, rnd_octets(g, 8), m2, Oct(), join(c0.empty() ? "" : c0 + ":m0", c1.empty() ? "" : c1 + ":m1"));
	}
	// ECDH: the point and the wrapped key; lengths 0 and 255 of the wrapped key are refused by the decoder
	for (size_t rl : { (size_t)0, (size_t)1, (size_t)2, (size_t)40, (size_t)48, (size_t)254, (size_t)255 }) { gen_point(m1[0], g); pkesk_line(g, 18, rnd_octets(g, 8), m1, rnd_octets(g, rl), "rkw:" + U(rl)); }
	// a key id that is not 8 octets long is written as it is
	{ bytes_value(m1[0], g, 128, 0); pkesk_line(g, 1, rnd_octets(g, 4), m1, Oct(), "keyid:4"); pkesk_line(g, 1, rnd_octets(g, 20), m1, Oct(), "keyid:20"); }
}

static int drv_pgpenc(const Opts &o)
{
	SplitMix g(o.seed ^ 0x7067656e63ULL);
	cov.seen.clear();
	key_boundaries(g);
	mpi_edges(g);
	data_boundaries(g);
	sig_cases(g);
	pkesk_cases(g);
	for (int rep = 0; rep < 4; rep++) for (int algo : { 107, 108, 109 }) secexp_line(g, algo);
	Z p, q, gg, y, x;
	// protected secret keys: a few sizes of x, both tags, both algorithms
	for (int tag : { 5, 7 }) for (int algo : { 16, 17 }) for (size_t xl : { (size_t)1, (size_t)9, (size_t)10, (size_t)20, (size_t)32, (size_t)160 }) {
		// x shorter than 10 octets: PacketSecEncode copies the 32-octet key into a buffer of 2+|x|+20 octets (heap overflow, see findings);
		// only with --secprot-small
		if (xl < 10 && !o.has("--secprot-small")) continue;
		bytes_value(p, g, 96, 0); bytes_value(q, g, 20, 0); bytes_value(gg, g, 96, 0); bytes_value(y, g, 96, 0); bytes_value(x, g, xl, (int)g.below(5));
		secprot_line(g, tag, gen_time(g), algo, p, q, gg, y, x, gen_text(g, 1 + g.below(12)), "x" + U(xl));
	}
	// ---------------------------------------------------------------- random cases
	for (uint64_t c = 0; c < o.cases; c++) {
		// a primary key of a random algorithm with its fingerprint, a subkey, user id, certification, binding
		int ver = g.below(3) ? 4 : 5; uint64_t kt = gen_time(g); Oct pk;
		switch (g.below(6)) {
		case 0: { bytes_value(p, g, 64 + g.below(200), 0); gen_mpi(q, g, 4); pk = pub_line(g, 6, ver, kt, g.below(4) ? 1 : 2 + (int)g.below(2), p, q, gg, y, ""); } break;
		case 1: { bytes_value(p, g, 64 + g.below(200), 0); bytes_value(q, g, 20 + g.below(13), 0); gen_mpi(gg, g, 128); gen_mpi(y, g, 128); pk = pub_line(g, 6, ver, kt, 17, p, q, gg, y, ""); } break;
		case 2: { bytes_value(p, g, 64 + g.below(200), 0); gen_mpi(gg, g, 8); gen_mpi(y, g, 128); pk = pub_line(g, 6, ver, kt, 16, p, q, gg, y, ""); } break;
		case 3: { gen_point(q, g); pk = pubec_line(g, 6, ver, kt, 19, gen_oid(g), q, 0, 0, ""); } break;
		case 4: { gen_point(q, g); pk = pubec_line(g, 6, ver, kt, 22, gen_oid(g), q, 0, 0, ""); } break;
		default: { gen_point(q, g); pk = pubec_line(g, 6, ver, kt, 18, gen_oid(g), q, 8 + (int)g.below(3), 7 + (int)g.below(3), ""); } break;
		}
		fpr_line(ver, body_of(pk), "");
		if (g.below(4) == 0) fpr_line(g.coin() ? 4 : 5, rnd_octets(g, g.below(300)), "raw");
		{ bytes_value(p, g, 64 + g.below(100), 0); gen_mpi(gg, g, 8); gen_mpi(y, g, 100); pub_line(g, 14, g.below(3) ? 4 : 5, gen_time(g), 16, p, q, gg, y, ""); }
		{ bytes_value(p, g, 64 + g.below(100), 0); bytes_value(q, g, 20, 0); gen_mpi(gg, g, 100); gen_mpi(y, g, 100); std::string cx = gen_mpi(x, g, 32);
		  int algo = g.coin() ? 16 : 17; sec_line(g, g.coin() ? 5 : 7, gen_time(g), algo, p, q, gg, y, x, cx.empty() ? "" : cx + ":x");
		  if (g.below(8) == 0) { bytes_value(x, g, 10 + g.below(30), (int)g.below(5)); secprot_line(g, g.coin() ? 5 : 7, gen_time(g), algo, p, q, gg, y, x, gen_text(g, 1 + g.below(20)), ""); } }
		uid_line(g, gen_text(g, g.below(g.below(6) ? 80 : 400)));
		{ int spk = kSigPk[g.below(5)]; Oct hp = any_prep(g, (int)g.below(9), spk, gen_hash(g), g.below(4) == 0);
		  std::vector<Z> m; std::string cls; gen_sig_mpis(g, spk, m, cls); sig_line(g, hp, gen_left(g), m, cls); }
		// a message: session key packets and the data packets
		{ std::vector<Z> m1(1), m2(2);
		  switch (g.below(3)) { case 0: bytes_value(m1[0], g, 128 + g.below(129), 0); pkesk_line(g, 1, rnd_octets(g, 8), m1, Oct(), ""); break;
			case 1: bytes_value(m2[0], g, 128 + g.below(129), 0); bytes_value(m2[1], g, 128 + g.below(129), 0); pkesk_line(g, 16, rnd_octets(g, 8), m2, Oct(), ""); break;
			default: gen_point(m1[0], g); pkesk_line(g, 18, rnd_octets(g, 8), m1, rnd_octets(g, 8 * (3 + g.below(4))), ""); break; }
		  size_t n = g.below(g.below(5) ? 300 : 9000);
		  switch (g.below(4)) { case 0: sed_line(g, rnd_octets(g, n)); break; case 1: seipd_line(g, rnd_octets(g, n)); mdc_line(g, rnd_octets(g, 20)); break;
			case 2: aead_line(g, 7 + (int)g.below(3), 1 + (int)g.below(2), (int)g.below(57), rnd_octets(g, g.below(6) ? 15 + g.below(2) : g.below(20)), rnd_octets(g, n)); break;
			default: lit_line(g, rnd_octets(g, n)); break; } }
		if (g.below(3) == 0) subpkt_line((int)g.below(128), g.coin(), rnd_octets(g, g.below(300)));
	}
	// coverage of this run, for the end-of-run check of the predicate
	{ std::string s; for (auto &k : cov.seen) s += (s.empty() ? "" : ",") + k; emit("prop.pgpenc coverage [" + s + "] => " + U(cov.seen.size())); }
	return 0;
}
REGISTER_DRIVER("pgpenc", drv_pgpenc);
