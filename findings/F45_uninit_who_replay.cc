#include <libTMCG.hh>
#include <sstream>
#include <iostream>
int main(int argc, char **argv)
{
	if (!init_libTMCG()) return 2;
	// p q g h / n t i / x_i xprime_i y / |QUAL| / QUAL members: the first member line is blank
	std::string head = "7\n3\n2\n4\n" "3\n1\n0\n" "5\n6\n2\n" "2\n";
	std::string txt = head + std::string(argc > 1 ? argv[1] : "") + "\n" + "1\n";
	for (int i = 0; i < 3; i++) txt += "1\n";   // y_i
	for (int i = 0; i < 3; i++) txt += "1\n";   // z_i
	for (int i = 0; i < 3; i++) txt += "1\n";   // v_i
	for (int i = 0; i < 3; i++) { for (int j = 0; j < 6; j++) txt += "1\n"; for (int k = 0; k < 2; k++) txt += "1\n"; }
	std::istringstream in(txt);
	try {
		GennaroJareckiKrawczykRabinDKG dkg(in, 16, 8);
		std::cout << "constructed: QUAL =";
		for (size_t j = 0; j < dkg.QUAL.size(); j++) std::cout << " " << dkg.QUAL[j];
		std::cout << std::endl;
	} catch (std::exception &e) { std::cout << "exception: " << e.what() << std::endl; }
	return 0;
}
