// generated parameter sets refused by their own CheckGroup (tiny subgroup sizes): stand-alone, real libgcrypt randomness
#include <libTMCG.hh>
#include <iostream>
#include <sstream>
int main()
{
	if (!init_libTMCG()) return 1;
	int tries = 0, refused = 0;
	for (tries = 0; tries < 400 && refused < 2; tries++) {
		PedersenCommitmentScheme com(4, 16, 5);
		if (!com.CheckGroup()) { refused++; std::cout << "PedersenCommitmentScheme(4, 16, 5) try " << tries << " refused by own CheckGroup: p=" << com.p << " q=" << com.q << " k=" << com.k << " h=" << com.h;
			for (size_t i = 0; i < com.g.size(); i++) std::cout << " g" << i << "=" << com.g[i]; std::cout << std::endl; }
	}
	refused = 0;
	for (tries = 0; tries < 400 && refused < 2; tries++) {
		HooghSchoenmakersSkoricVillegasVRHE v(16, 5);
		if (!v.CheckGroup()) { refused++; std::cout << "HooghSchoenmakersSkoricVillegasVRHE(16, 5) try " << tries << " refused: p=" << v.p << " q=" << v.q << " g=" << v.g << " h=" << v.h << std::endl; }
	}
	refused = 0;
	for (tries = 0; tries < 400 && refused < 2; tries++) {
		PedersenTrapdoorCommitmentScheme t(16, 5);
		if (!t.CheckGroup()) { refused++; std::cout << "PedersenTrapdoorCommitmentScheme(16, 5) try " << tries << " refused: p=" << t.p << " q=" << t.q << " g=" << t.g << " h=" << t.h << " sigma=" << t.sigma << std::endl; }
	}
	refused = 0;
	for (tries = 0; tries < 400 && refused < 2; tries++) {
		BarnettSmartVTMF_dlog vtmf(16, 5, true);
		if (!vtmf.CheckGroup()) { std::cout << "VTMF itself refused?!" << std::endl; return 2; }
		vtmf.KeyGenerationProtocol_GenerateKey(); vtmf.KeyGenerationProtocol_Finalize();
		GennaroJareckiKrawczykRabinDKG dkg(3, 1, 0, vtmf.p, vtmf.q, vtmf.g, vtmf.h, 16, 5, true, false);
		if (!dkg.CheckGroup()) { refused++; std::cout << "BarnettSmartVTMF_dlog(16, 5, true) + key -> GennaroJareckiKrawczykRabinDKG try " << tries << " refused: p=" << vtmf.p << " q=" << vtmf.q << " g=" << vtmf.g << " h=" << vtmf.h << std::endl; }
	}
	return 0;
}
