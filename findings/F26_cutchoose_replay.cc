#include <libTMCG.hh>
#include <sstream>
#include <iostream>
int main() {
  if (!init_libTMCG()) return 2;
  BarnettSmartVTMF_dlog *vtmf = new BarnettSmartVTMF_dlog(1024, 160);   // fresh group
  if (!vtmf->CheckGroup()) { std::cout << "group bad" << std::endl; return 2; }
  vtmf->KeyGenerationProtocol_GenerateKey(); vtmf->KeyGenerationProtocol_Finalize();
  SchindelhauerTMCG tmcg(16, 1, 5);   // kappa = 16 rounds
  TMCG_Stack<VTMF_Card> s, s2;
  for (size_t i = 0; i < 4; i++) { VTMF_Card c; tmcg.TMCG_CreateOpenCard(c, vtmf, i); s.push(c); }
  for (size_t i = 0; i < 4; i++) { VTMF_Card c; tmcg.TMCG_CreateOpenCard(c, vtmf, 10 + i); s2.push(c); }  // UNRELATED stack: other card types
  // cheating prover: every round commits to the hash of the all-zero stack and answers both bits with
  // the identity permutation and exponents 2^|q|
  size_t n = s.size();
  mpz_t big; mpz_init_set_ui(big, 1); mpz_mul_2exp(big, big, mpz_sizeinbase(vtmf->q, 2));
  TMCG_StackSecret<VTMF_CardSecret> ss; for (size_t i = 0; i < n; i++) { VTMF_CardSecret cs; mpz_set(cs.r, big); ss.push(i, cs); }
  TMCG_Stack<VTMF_Card> zero; for (size_t i = 0; i < n; i++) { VTMF_Card c; mpz_set_ui(c.c_1, 0); mpz_set_ui(c.c_2, 0); zero.push(c); }
  std::ostringstream zs; zs << zero << std::endl;
  mpz_t com; mpz_init(com); tmcg_mpz_shash(com, zs.str());
  // transcript: per round: commitment, then (after challenge) the secret
  std::stringstream to_verifier, from_verifier;
  for (size_t k = 0; k < 16; k++) { to_verifier << com << std::endl; to_verifier << ss << std::endl; }
  bool ok = tmcg.TMCG_VerifyStackEquality(s, s2, false, vtmf, to_verifier, from_verifier);
  std::cout << "verifier accepted a FALSE statement: " << ok << std::endl;
  return ok ? 1 : 0;
}
