import Tmcg.Driver
import Tmcg.DriverRbc
import Tmcg.DriverPgp
import Tmcg.DriverOt
import Tmcg.DriverRabin
import Tmcg.DriverDkg
import Tmcg.DriverTsig
import Tmcg.DriverPgpMsg
import Tmcg.DriverArgs
import Tmcg.DriverArith2
import Tmcg.DriverJl
import Tmcg.DriverCgjkr
import Tmcg.DriverIo2
import Tmcg.DriverAio2
import Tmcg.DriverPgpEnc
import Tmcg.DriverPgpBounds
import Tmcg.DriverGroupGen

partial def loop (h : IO.FS.Stream) (out : IO.FS.Stream) : IO Unit := do
  let line ← h.getLine
  if line.isEmpty then return ()
  let l := if line.back == (Char.ofNat 10) then (line.dropEnd 1).toString else line
  out.putStrLn (Tmcg.Driver.processLineWith (Tmcg.Driver.handlers ++ Tmcg.DriverRbc.handlers ++ Tmcg.DriverPgp.handlers ++ Tmcg.DriverOt.handlers ++ Tmcg.DriverRabin.handlers ++ Tmcg.DriverDkg.handlers ++ Tmcg.DriverTsig.handlers ++ Tmcg.DriverPgpMsg.handlers ++ Tmcg.DriverArgs.handlers ++ Tmcg.DriverArith2.handlers ++ Tmcg.DriverJl.handlers ++ Tmcg.DriverCgjkr.handlers ++ Tmcg.DriverIo2.handlers ++ Tmcg.DriverAio2.handlers ++ Tmcg.DriverPgpEnc.handlers ++ Tmcg.DriverPgpBounds.handlers ++ Tmcg.DriverGroupGen.handlers) l)
  loop h out

def main : IO Unit := do
  let stdin ← IO.getStdin
  let stdout ← IO.getStdout
  loop stdin stdout
