import TmcgProofs.DkgKey
/-
  C15, run level with reconstruction — `GennaroJareckiKrawczykRabinDKG::Generate` for EVERY deviation
  script of at most t parties (`SetupK`: valid group, 2t < n < min(q, 2^64), at most t deviating
  parties, honest coins in range), including the runs in which step 4(c) reconstructs the polynomials
  of deviating parties: every honest party's Generate returns true; all honest parties end with the
  same QUAL, the same public key y and the same verification keys; g^{x_i} = v_i and CheckKey() at
  every honest party; any t+1 honest shares interpolate (the library's Lagrange routine) to the
  discrete logarithm of y.

  `BindingHypG G n t ins fam` is the explicit binding hypothesis on the Pedersen commitments of the
  run (as in C17): for every dealer j the in-range openings OCCURRING in the run (values held as
  shares by, or lying in the inbox of, an honest party at some round) of the commitment
  ∏_k C_jk^{(m+1)^k} have first component (fam j)(m+1), for a polynomial `fam j` of degree ≤ t.
  A violation exhibits two openings of one commitment, i.e. log_g h (`binding_pair_dkg`).
  Property theorems only (statements copied from TmcgProofs/DkgKey*.lean by tools/mkprops.py,
  proofs by reference).  Imported by TmcgProps/C15.lean.
-/
namespace Tmcg.C15
open Tmcg Tmcg.Powm Tmcg.Dkg Tmcg.Grp Tmcg.DkgL Tmcg.DkgP
set_option linter.unusedVariables false

variable {G : Dkg.Grp} [Fact (Nat.Prime G.p.natAbs)]

theorem generate_succeeds {n t : Nat} {ins : List PartyIn} (S : SetupK G n t ins)
    (fam : Nat → Polynomial (ZMod G.q.natAbs)) (hB : BindingHypG G n t ins fam)
    (i : Nat) (hi : i ∈ honestIdx ins) :
    ∃ P, (runGen G n t ins)[i]? = some P ∧ P.status = .ret true :=
  Tmcg.DkgP.generate_succeeds S fam hB i hi

theorem key_agree {n t : Nat} {ins : List PartyIn} (S : SetupK G n t ins)
    (fam : Nat → Polynomial (ZMod G.q.natAbs)) (hB : BindingHypG G n t ins fam)
    (i i' : Nat) (hi : i ∈ honestIdx ins) (hi' : i' ∈ honestIdx ins) (P P' : Party GenSt)
    (hP : (runGen G n t ins)[i]? = some P) (hP' : (runGen G n t ins)[i']? = some P') :
    P.st.qual = P'.st.qual ∧ P.st.y = P'.st.y ∧
    (∀ k ∈ P.st.qual, getI P.st.vi k = getI P'.st.vi k) ∧
    cp G P.st.y = (P.st.qual.map (fun j => cp G G.g ^ ((fam j).eval 0).val)).prod :=
  Tmcg.DkgP.key_agree S fam hB i i' hi hi' P P' hP hP'

theorem share_matches_vk_run' {n t : Nat} {ins : List PartyIn} (S : SetupK G n t ins)
    (fam : Nat → Polynomial (ZMod G.q.natAbs)) (hB : BindingHypG G n t ins fam)
    (i : Nat) (hi : i ∈ honestIdx ins) (P : Party GenSt) (hP : (runGen G n t ins)[i]? = some P) :
    (∃ r, fspowm G.tabG G.g P.st.x G.p = .ok r ∧ r = getI P.st.vi i) ∧
    genCheckKey G P.st = .ok true :=
  Tmcg.DkgP.share_matches_vk_run' S fam hB i hi P hP

theorem interpolate_run {n t : Nat} {ins : List PartyIn} (S : SetupK G n t ins)
    (fam : Nat → Polynomial (ZMod G.q.natAbs)) (hB : BindingHypG G n t ins fam)
    (parties : List Nat) (hnd : parties.Nodup) (hlen : parties.length = t + 1)
    (hh : ∀ k ∈ parties, k ∈ honestIdx ins) (xs : Nat → Int)
    (hxs : ∀ k ∈ parties, ∃ Pk, (runGen G n t ins)[k]? = some Pk ∧ xs k = Pk.st.x)
    (i : Nat) (hi : i ∈ honestIdx ins) (P : Party GenSt) (hP : (runGen G n t ins)[i]? = some P) :
    ∃ v, lagrange0 G.q parties xs = some v ∧ 0 ≤ v ∧ v < G.q ∧ cp G G.g ^ v = cp G P.st.y :=
  Tmcg.DkgP.interpolate_run S fam hB parties hnd hlen hh xs hxs i hi P hP

/-- **binding**: openings `(a, b)`, `(a', b')` of one commitment with `a ≢ a' (mod q)` give `x` with
    `g^x = h` -/
theorem binding_pair_dkg (hG : ValidGrp G) (a b a' b' : Int)
    (h : cp G G.g ^ a * cp G G.h ^ b = cp G G.g ^ a' * cp G G.h ^ b') (hne : cq G a ≠ cq G a') :
    cq G b ≠ cq G b' ∧ ∃ x : Int, 0 ≤ x ∧ x < G.q ∧ cp G G.g ^ x = cp G G.h :=
  Tmcg.DkgP.binding_pair_dkg hG a b a' b' h hne

end Tmcg.C15
