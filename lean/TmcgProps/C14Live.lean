import TmcgProofs.RbcLive
/-
  C14, second sentence — "Whenever all protocol messages are eventually handed over, every broadcast
  of an honest sender is delivered by all honest parties, and if one honest party delivers a slot
  then all do."  Property theorems only (proofs in TmcgProofs/RbcLive*.lean).  Imported by
  TmcgProps/C14.lean.

  Premises, over the system model of RbcGlobal.lean (`run H T c evs = some s`):
  * `AllConsumed H T c evs s` — every message an honest party sent to an honest party was CONSUMED by a
    `Deliver` call of the destination.  (The weaker "occurs as a hand-over event" is not enough in the
    model: a `Deliver` call that hands out a buffered slot returns before it reads its input, and in
    the model the offered message is then gone, whereas the real link layer keeps it — the first
    formulation is refuted by a machine-checked run, `validity_first_formulation_false`.)
  * `Settled H T c s` — no honest party has anything left to deliver or send without new input.
  * `Hyp H c` — 3t < n, at most t Byzantine parties, injective digest, H(m) ≠ 0.
  Validity needs, in addition, what makes the broadcast well-formed for the code: the digest passes
  the length check of the echo/ready handlers (`LenOk`), and without FIFO order the random sequence
  number is positive and not reused for another value (machine-checked counterexamples otherwise).
-/
namespace Tmcg.C14
open Tmcg Tmcg.Rbc

variable {H : Int → Int} {T : Tag → Int} {c : Cfg}

/-- **validity**: every value broadcast by an honest sender is delivered by every honest party
    (under the tag it was broadcast with) -/
theorem validity (hy : Hyp H c) {evs : List Event} {s : Sys}
    (hrun : run H T c evs = some s) (hall : AllConsumed H T c evs s) (hset : Settled H T c s)
    {k : Nat} {tag : Tag} {v : Int} (hk : c.honest k) (hb : (k, tag, v) ∈ s.bc)
    (hlen : LenOk T tag (H v))
    (hlenF : c.fifo = true → ∀ τ' v', (k, τ', v') ∈ s.bc → τ'.seq < tag.seq → LenOk T τ' (H v'))
    (hnf : c.fifo = false → 1 ≤ tag.seq ∧ ∀ v', (k, tag, v') ∈ s.bc → v' = v)
    {i : Nat} (hi : c.honest i) :
    (i, tag, v) ∈ s.dl :=
  rbc_validity' hy hrun hall hset hk hb hlen hlenF hnf hi

/-- **totality**: a slot delivered by one honest party is delivered, with the same value, by every
    honest party — also for Byzantine senders, FIFO on or off, no further assumption -/
theorem totality (hy : Hyp H c) {evs : List Event} {s : Sys}
    (hrun : run H T c evs = some s) (hall : AllConsumed H T c evs s) (hset : Settled H T c s)
    {i j : Nat} {tag : Tag} {v : Int} (hi : c.honest i) (hj : c.honest j)
    (hd : (i, tag, v) ∈ s.dl) :
    (j, tag, v) ∈ s.dl :=
  rbc_totality' hy hrun hall hset hi hj hd

/-- the first formulation (messages merely offered to a `Deliver` call) is false in the model -/
theorem validity_first_formulation_false :
    ¬ (∀ (H : Int → Int) (T : Tag → Int) (c : Cfg), Hyp H c → ∀ (evs : List Event) (s : Sys),
        run H T c evs = some s → AllHandedOver c evs s → Settled H T c s →
        ∀ (k : Nat) (tag : Tag) (v : Int), c.honest k → (k, tag, v) ∈ s.bc →
        ∀ i, c.honest i → (i, tag, v) ∈ s.dl) :=
  rbc_validity_refuted

/-- the premises are satisfiable and the theorem applies: a concrete honest FIFO broadcast in a settled,
    fully consumed run is delivered by all three honest parties (obtained THROUGH `validity`) -/
theorem validity_non_vacuous : ∃ s, run Cx.cH Cx.cT Cx.cFifo NonVacV.vEvents = some s ∧
    (0, NonVacV.slot1, (11 : Int)) ∈ s.dl ∧ (1, NonVacV.slot1, (11 : Int)) ∈ s.dl ∧
    (2, NonVacV.slot1, (11 : Int)) ∈ s.dl :=
  NonVacV.all_deliver

end Tmcg.C14
