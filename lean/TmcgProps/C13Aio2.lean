import TmcgProofs.Aio2
/-
  C13, second part — the chunked mode of `aiounicast_select`, the class `aiounicast_nonblock` (sender on
  a bounded queue with EAGAIN / sleep / time-out, receiver), several peers behind one object with the
  three receive schedulers.  Property theorems only (statements copied from TmcgProofs/Aio2.lean by
  tools/mkprops.py, proofs by reference).  Imported by TmcgProps/C13.lean.

  `ModeOk md`: a mode the classes offer; `CrOk md cr`: honest primitives (decrypt ∘ encrypt = id, the
  MAC verifies its own tags); `SzOk`: the contract of `mpz_sizeinbase` (exact or one more).  The link is a
  byte FIFO of any capacity with any drain schedule; fuel = iterations of the write loops before the
  clock runs out.  Library as repaired by 531e2c0 (finding F41): a Send that times out with the link out of
  step closes it.
-/
namespace Tmcg.C13
open Tmcg Tmcg.Aio Tmcg.Aio2 Tmcg.Codec
set_option linter.unusedVariables false

/-- **nb_send_all_or_nothing**: a `Send` that returns true (the link was open, the value acceptable) has
    put exactly the complete framing of the message on the link -- the IV if it was still due, the line, the
    newline, the tag -- whatever the capacity of the queue, the receiver's progress during the sleeps and
    the number of retries; it has advanced cipher position, sequence number and MAC handle by exactly one
    message, and the link stays open -/
theorem nb_send_all_or_nothing (md : Mode) (hcls : md.cls = .nonblock) (cr : Crypto) (iv : Bytes) (sz : Int → Nat)
    (tx : Tx2) (m : Int) (l : Link) (fu : Fuel) (ds : List Nat)
    (h : (nbSend md cr iv tx m (sz (tmpOf md m)) l fu ds).1 = true) :
    OkMsg2 md sz tx.enc m ∧ tx.isOpen = true ∧
    (nbSend md cr iv tx m (sz (tmpOf md m)) l fu ds).2.2.1.out =
      l.out ++ ivPre md iv tx.ivSent ++ nbFrame md cr sz tx m ∧
    (nbSend md cr iv tx m (sz (tmpOf md m)) l fu ds).2.1 =
      { tx with enc := encNext md tx.enc, ivSent := tx.ivSent || md.enc,
                macAcc := if md.auth then [] else tx.macAcc,
                sqn := if md.auth then tx.sqn + 1 else tx.sqn } :=
  Tmcg.Aio2.nb_send_all_or_nothing md hcls cr iv sz tx m l fu ds h

/-- a value `Send` refuses (negative on an encrypted link, too long) leaves link and sender untouched -/
theorem nb_send_refused (md : Mode) (hcls : md.cls = .nonblock) (cr : Crypto) (iv : Bytes) (sz : Int → Nat)
    (tx : Tx2) (m : Int) (l : Link) (fu : Fuel) (ds : List Nat) (hno : ¬ OkMsg2 md sz tx.enc m) :
    nbSend md cr iv tx m (sz (tmpOf md m)) l fu ds = (false, tx, l, ds) :=
  Tmcg.Aio2.nb_send_refused md hcls cr iv sz tx m l fu ds hno

/-- **what a timed-out `Send` leaves behind** (repaired library): `Send` on an open link returned false
    although the value was acceptable.  Then a *strict prefix* `p` of the message's framing is on the link --
    possibly empty, possibly ending inside the IV, inside the line or inside the tag -- the sequence number has
    not moved, but the cipher has; AND the link is now closed, unless nothing at all is out of step: plain
    mode (no cipher, no MAC) and not a single byte written. -/
theorem nb_send_timeout (md : Mode) (hcls : md.cls = .nonblock) (cr : Crypto) (iv : Bytes) (sz : Int → Nat)
    (tx : Tx2) (m : Int) (l : Link) (fu : Fuel) (ds : List Nat) (hok : OkMsg2 md sz tx.enc m)
    (hopen : tx.isOpen = true)
    (h : (nbSend md cr iv tx m (sz (tmpOf md m)) l fu ds).1 = false) :
    ∃ p, (nbSend md cr iv tx m (sz (tmpOf md m)) l fu ds).2.2.1.out = l.out ++ p ∧
      p <+: ivPre md iv tx.ivSent ++ nbFrame md cr sz tx m ∧
      p.length < (ivPre md iv tx.ivSent ++ nbFrame md cr sz tx m).length ∧
      (nbSend md cr iv tx m (sz (tmpOf md m)) l fu ds).2.1.sqn = tx.sqn ∧
      (nbSend md cr iv tx m (sz (tmpOf md m)) l fu ds).2.1.enc = encNext md tx.enc ∧
      ((nbSend md cr iv tx m (sz (tmpOf md m)) l fu ds).2.1.isOpen = true ↔
        (md.enc = false ∧ md.auth = false ∧ p = [])) ∧
      ((nbSend md cr iv tx m (sz (tmpOf md m)) l fu ds).2.1.isOpen = true →
        (nbSend md cr iv tx m (sz (tmpOf md m)) l fu ds).2.1 = tx) :=
  Tmcg.Aio2.nb_send_timeout md hcls cr iv sz tx m l fu ds hok hopen h

/-- **closed_link_silent**: once the output descriptor is erased, every later `Send` on the link returns
    false, writes nothing and changes nothing -- whatever the value, the clock and the queue -/
theorem closed_link_silent (md : Mode) (cr : Crypto) (iv : Bytes) (tx : Tx2) (m : Int) (est : Nat)
    (l : Link) (fu : Fuel) (ds : List Nat) (h : tx.isOpen = false) :
    nbSend md cr iv tx m est l fu ds = (false, tx, l, ds) :=
  Tmcg.Aio2.closed_link_silent md cr iv tx m est l fu ds h

/-- a closed link (select class): `Send` returns false and writes nothing -/
theorem closed_link_silent_select (md : Mode) (cr : Crypto) (iv : Bytes) (tx : Tx2) (m : Int) (est : Nat)
    (h : tx.isOpen = false) : send2 md cr iv tx m est = none :=
  Tmcg.Aio2.closed_link_silent_select md cr iv tx m est h

theorem nb_send_mid_message_closes (md : Mode) (hcls : md.cls = .nonblock) (henc : md.enc = false) (cr : Crypto)
    (iv : Bytes) (sz : Int → Nat) (tx : Tx2) (m : Int) (l : Link) (fu : Fuel) (ds : List Nat)
    (hok : OkMsg2 md sz tx.enc m) (hopen : tx.isOpen = true) (hf0 : 0 < l.free)
    (hf1 : l.free ≤ (lineOf2 md cr sz tx.enc m).length) (hfu : fu.body ≤ 1) :
    (nbSend md cr iv tx m (sz (tmpOf md m)) l fu ds).2.1.isOpen = false :=
  Tmcg.Aio2.nb_send_mid_message_closes md hcls henc cr iv sz tx m l fu ds hok hopen hf0 hf1 hfu

/-- **time-outs cannot corrupt later values** (repaired library; the property-level statement).  Any
    sequence of `Send`s by the non-blocking class -- any values, acceptable or not; every call with its own
    clock budgets; a queue of any capacity drained at any pace, so that calls may succeed, be refused or time
    out at any point of the IV, the line or the tag -- followed by any fragmentation of what reached the link
    and any interleaving of arrivals and `Receive` calls: the receiver's delivered sequence is a prefix of the
    values whose `Send` returned true, and no `Receive` call fails.  No value that was never sent, none
    altered, none out of order. -/
theorem nb_accepted_prefix (md : Mode) (hmd : ModeOk md) (hcls : md.cls = .nonblock) (cr : Crypto)
    (hcr : CrOk md cr) (sz : Int → Nat) (hsz : SzOk sz) (iv : Bytes) (hiv : iv.length = md.blklen)
    (n : Nat) (hn : 1 ≤ n) (sends : List (Int × Fuel × List Nat)) (cap : Nat) (ops : List Op) :
    (run2 md cr n { wire := (nbSendSeq md cr iv sz {} { cap := cap } sends).2.1.out } ops).delivered <+:
      (nbSendSeq md cr iv sz {} { cap := cap } sends).2.2 ∧
    (run2 md cr n { wire := (nbSendSeq md cr iv sz {} { cap := cap } sends).2.1.out } ops).failures = 0 :=
  Tmcg.Aio2.nb_accepted_prefix md hmd hcls cr hcr sz hsz iv hiv n hn sends cap ops

/-- **nb_recv_fragmentation_invariant**: the non-blocking class, sender and receiver together.  The sender
    works on a queue of any capacity, each `Send` retrying as long as its clock allows while the receiver
    drains the queue at any pace; if every `Send` returned true, then however the bytes that went through
    the queue are fragmented on their way and however the `Receive` calls interleave with their arrival,
    the receiver delivers a prefix of the sent sequence, no call fails, and once everything has arrived
    finitely many calls deliver all of it. -/
theorem nb_recv_fragmentation_invariant (md : Mode) (hmd : ModeOk md) (hcls : md.cls = .nonblock) (cr : Crypto)
    (hcr : CrOk md cr) (sz : Int → Nat) (hsz : SzOk sz) (iv : Bytes) (hiv : iv.length = md.blklen)
    (n : Nat) (hn : 1 ≤ n) (sends : List (Int × Fuel × List Nat)) (cap : Nat) (tx' : Tx2) (l' : Link)
    (hsend : nbSendAll md cr iv sz {} { cap := cap } sends = some (tx', l')) (ops : List Op) :
    ((run2 md cr n { wire := l'.out } ops).delivered <+: sends.map (·.1) ∧
      (run2 md cr n { wire := l'.out } ops).failures = 0) ∧
    ∃ N, ∀ k, N ≤ k →
      (run2 md cr n { wire := l'.out } (ops ++ [Op.push l'.out.length] ++ List.replicate k Op.recv)).delivered =
        sends.map (·.1) :=
  Tmcg.Aio2.nb_recv_fragmentation_invariant md hmd hcls cr hcr sz hsz iv hiv n hn sends cap tx' l' hsend ops

/-- **chunked_roundtrip**: what `aiounicast_select::Send` after `Send` writes -- in the chunked mode: one
    CTR-encrypted, zero-padded chunk per value with its counter, `<base 62>|<counter>\n`, plus tag -- is
    delivered unchanged and in order under every fragmentation and every interleaving of arrivals and
    `Receive` calls; after the last byte finitely many calls deliver everything. -/
theorem chunked_roundtrip (md : Mode) (hmd : ModeOk md) (cr : Crypto) (hcr : CrOk md cr) (sz : Int → Nat)
    (hsz : SzOk sz) (iv : Bytes) (hiv : iv.length = md.blklen) (n : Nat) (hn : 1 ≤ n) (msgs : List Int)
    (tx' : Tx2) (wire : Bytes) (hsend : sendAll2 md cr iv sz {} msgs = some (tx', wire)) (ops : List Op) :
    ((run2 md cr n { wire := wire } ops).delivered <+: msgs ∧ (run2 md cr n { wire := wire } ops).failures = 0) ∧
    ∃ N, ∀ k, N ≤ k →
      (run2 md cr n { wire := wire } (ops ++ [Op.push wire.length] ++ List.replicate k Op.recv)).delivered = msgs :=
  Tmcg.Aio2.chunked_roundtrip md hmd cr hcr sz hsz iv hiv n hn msgs tx' wire hsend ops

/-- **chunked_roundtrip, one chunk**: a genuine chunk is decoded correctly by a receiver in *any* cipher /
    counter state -- whatever was lost, repeated or re-ordered before it.  On an unauthenticated chunked
    link this is all the protection there is: every intact chunk yields its value, nothing is promised
    about the sequence. -/
theorem chunked_any_state (md : Mode) (hmd : ModeOk md) (hctr : md.ctr = true) (hauth : md.auth = false)
    (cr : Crypto) (hcr : CrOk md cr) (sz : Int → Nat) (hsz : SzOk sz) (rx : Rx2) (e : Enc) (s : Nat) (m : Int)
    (more : Bytes) (hok : OkMsg2 md sz e m) (hbuf : rx.buf = frame2 md cr sz s e m ++ more) :
    ∃ rx', parse2 md cr rx = (rx', .delivered m) ∧ rx'.buf = more ∧
      rx'.chunkIn = ((e.chunkOut + 1 : Nat) : Int) :=
  Tmcg.Aio2.chunked_any_state md hmd hctr hauth cr hcr sz hsz rx e s m more hok hbuf

/-- **chunked_integrity**: the exact guarantee of an authenticated link, chunked or not.  (1) A delivered
    value carried a tag valid for (its line, the receiver's current sequence number); the chunk counter is part
    of the line.  (2) A complete message with a bad tag is never delivered; after the first good message it
    stays at the head of the buffer and the link stops.  Hence removal, replay or re-ordering of whole messages
    -- which the chunk counter would tolerate -- is refused exactly as in the stream modes, unless a tag is
    forged.  (Without authentication the chunked mode promises only `chunked_any_state`.) -/
theorem chunked_integrity (md : Mode) (cr : Crypto) (rx : Rx2) (hauth : md.auth = true) :
    (∀ rx' v, parse2 md cr rx = (rx', .delivered v) →
      ∃ nl, rx.buf.idxOf? 10 = some nl ∧
        cr.verify (rx.buf.take nl ++ [10] ++ strBytes (str62 ((rx.sqn : Nat) : Int)))
          ((rx.buf.drop (nl + 1)).take md.maclen) = true ∧ rx'.sqn = rx.sqn + 1) ∧
    (∀ nl, rx.flag = true → rx.buf.idxOf? 10 = some nl → md.maclen ≤ rx.buf.length - nl - 1 →
      cr.verify (rx.buf.take nl ++ [10] ++ strBytes (str62 ((rx.sqn : Nat) : Int)))
        ((rx.buf.drop (nl + 1)).take md.maclen) = false →
      (parse2 md cr rx).2 = .failed ∧
      (rx.sqn ≠ 1 → (parse2 md cr rx).1.buf = rx.buf ∧ (parse2 md cr rx).1.flag = true ∧
        (parse2 md cr rx).1.sqn = rx.sqn)) :=
  Tmcg.Aio2.chunked_integrity md cr rx hauth

/-- **peers_not_mixed**: an `n`-party object whose `n` input links carry what `n` senders wrote, each link
    with its own key and IV.  Under every interleaving of arrivals on the links (any fragmentation) and
    `Receive` calls with any of the three schedulers -- round robin, random (any coins), direct (any index) --
    the values returned with `i_out = i` are, in order, a prefix of what peer `i` sent: nothing is attributed
    to the wrong peer, nothing is re-ordered within a peer, nothing is delivered twice, and no call fails. -/
theorem peers_not_mixed (md : Mode) (hmd : ModeOk md) (crs : Nat → Crypto) (hcrs : ∀ i, CrOk md (crs i))
    (sz : Int → Nat) (hsz : SzOk sz) (ivs : Nat → Bytes) (hivs : ∀ i, (ivs i).length = md.blklen)
    (n : Nat) (hn : 0 < n) (msgs : Nat → List Int) (hok : ∀ i, OkSeq md sz {} (msgs i))
    (words : List Nat) (ops : List MOp) :
    let w := mrun md crs n
      { node := { peers := List.replicate n {} }, wires := fun i => wireOf md (crs i) sz (ivs i) (msgs i), words := words } ops
    (∀ i, fromPeer w.log i <+: msgs i) ∧ (∀ e ∈ w.log, e.1 < n) ∧ w.failures = 0 :=
  Tmcg.Aio2.peers_not_mixed md hmd crs hcrs sz hsz ivs hivs n hn msgs hok words ops

/-- **safety, every mode of both classes**: whatever the fragmentation and the interleaving with
    `Receive` calls, the delivered sequence is a prefix of the sent one and no call fails -/
theorem link_prefix (md : Mode) (hmd : ModeOk md) (cr : Crypto) (hcr : CrOk md cr) (sz : Int → Nat)
    (hsz : SzOk sz) (iv : Bytes) (hiv : iv.length = md.blklen) (n : Nat) (hn : 1 ≤ n) (msgs : List Int)
    (hok : OkSeq md sz {} msgs) (ops : List Op) :
    (run2 md cr n { wire := wireOf md cr sz iv msgs } ops).delivered <+: msgs ∧
    (run2 md cr n { wire := wireOf md cr sz iv msgs } ops).failures = 0 :=
  Tmcg.Aio2.link_prefix md hmd cr hcr sz hsz iv hiv n hn msgs hok ops

/-- **delivery**: once all bytes have arrived, finitely many further calls deliver everything -/
theorem link_complete (md : Mode) (hmd : ModeOk md) (cr : Crypto) (hcr : CrOk md cr) (sz : Int → Nat)
    (hsz : SzOk sz) (iv : Bytes) (hiv : iv.length = md.blklen) (n : Nat) (hn : 1 ≤ n) (msgs : List Int)
    (hok : OkSeq md sz {} msgs) (ops : List Op) :
    ∃ N, ∀ k, N ≤ k →
      (run2 md cr n { wire := wireOf md cr sz iv msgs }
        (ops ++ [Op.push (wireOf md cr sz iv msgs).length] ++ List.replicate k Op.recv)).delivered = msgs :=
  Tmcg.Aio2.link_complete md hmd cr hcr sz hsz iv hiv n hn msgs hok ops

/-- the receiver in front of a stream that stops inside the last frame (`q ++ tail` is the genuine stream of
    `msgs`, only `q` ever arrives): no call fails, a prefix of `msgs` is delivered, and if something is
    missing (`tail ≠ []`) the last message is not among the delivered ones -/
theorem link_prefix_truncated (md : Mode) (hmd : ModeOk md) (cr : Crypto) (hcr : CrOk md cr) (sz : Int → Nat)
    (hsz : SzOk sz) (iv : Bytes) (hiv : iv.length = md.blklen) (n : Nat) (msgs : List Int)
    (hok : OkSeq md sz {} msgs) (q tail : Bytes) (hq : q ++ tail = wireOf md cr sz iv msgs) (ops : List Op) :
    (run2 md cr n { wire := q } ops).failures = 0 ∧ (run2 md cr n { wire := q } ops).delivered <+: msgs ∧
    (tail ≠ [] → (run2 md cr n { wire := q } ops).delivered ≠ msgs) :=
  Tmcg.Aio2.link_prefix_truncated md hmd cr hcr sz hsz iv hiv n msgs hok q tail hq ops

/-- every line `Send` accepts fits, with newline and tag, into the receiver's reassembly buffer -/
theorem frame2_length_le (md : Mode) (hmd : ModeOk md) (cr : Crypto) (hcr : CrOk md cr) (sz : Int → Nat)
    (hsz : SzOk sz) (sqn : Nat) (e : Enc) (m : Int) (hok : OkMsg2 md sz e m) :
    (frame2 md cr sz sqn e m).length ≤ md.bufSize :=
  Tmcg.Aio2.frame2_length_le md hmd cr hcr sz hsz sqn e m hok

end Tmcg.C13
