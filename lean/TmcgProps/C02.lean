import Tmcg.Model.Stack
import Tmcg.Model.Rng
import TmcgProofs.Stack
import TmcgProofs.Perm
/-
  C02 — A shuffle is exactly a permutation plus re-masking.
  Property theorems only.  `mixStack` is generic in the card encoding; `typeOf` is any
  observable that masking preserves (for the discrete-log encoding: the decrypted message,
  `Tmcg.C01.remask_preserves_plain`).
-/
namespace Tmcg.C02
open Tmcg Tmcg.Stack Tmcg.Rng

variable {C S T : Type}

/-- Mixing yields a stack of the same size whose `i`-th card opens to the type of the input card
    designated by the secret's `i`-th index — for every size, every secret (bijective or not). -/
theorem mix_opens_to_source (maskf : C → S → Except Err C) (typeOf : C → T)
    (hpres : ∀ c sec c', maskf c sec = .ok c' → typeOf c' = typeOf c)
    (s : List C) (ss : StackSecret S) (s2 : List C) (h : mixStack maskf s ss = .ok s2) :
    s2.length = s.length ∧
    ∀ i (hi : i < s2.length), ∃ j sec c, ss[i]? = some (j, sec) ∧ s[j]? = some c ∧
      typeOf s2[i] = typeOf c :=
  Stack.mix_opens_to_source maskf typeOf hpres s ss s2 h

/-- With a bijective index component the multiset of card types is preserved: no card is
    duplicated, dropped or re-typed. -/
theorem mix_preserves_multiset (maskf : C → S → Except Err C) (typeOf : C → T)
    (hpres : ∀ c sec c', maskf c sec = .ok c' → typeOf c' = typeOf c)
    (s : List C) (ss : StackSecret S) (s2 : List C) (h : mixStack maskf s ss = .ok s2)
    (hperm : (ss.map Prod.fst).Perm (List.range s.length)) :
    (s2.map typeOf).Perm (s.map typeOf) ∧ s2.length = s.length :=
  ⟨Stack.mix_preserves_multiset maskf typeOf hpres s ss s2 h hperm,
   (Stack.mix_opens_to_source maskf typeOf hpres s ss s2 h).1⟩

/-- A non-bijective (in-range) index component drops an input card — which is why an imported
    stack secret must be refused unless its indices form a bijection. -/
theorem nonbijective_drops (idx : List Nat) (hr : ∀ j ∈ idx, j < idx.length)
    (hn : ¬ idx.Perm (List.range idx.length)) : ∃ j, j < idx.length ∧ j ∉ idx :=
  Stack.nonbijective_drops idx hr hn

/-- Every freshly generated stack secret contains a bijection on `{0..n-1}`: whatever raw words
    the generator is fed, the arrangement of `random_permutation_fast` is a permutation. -/
theorem fresh_secret_is_bijection (n : Nat) (hn : 1 ≤ n) (ws pi rest : List Nat)
    (h : randomPermutationFast n ws = .ok (some (pi, rest))) : pi.Perm (List.range n) := by
  obtain ⟨ds, hv, rfl⟩ := randomPermutationFast_eq_fyDraws n hn ws pi rest h
  exact fyDraws_perm n ds hv

/-- A requested rotation is a cyclic shift by exactly the reported offset (and a bijection). -/
theorem fresh_rotation_is_shift (n : Nat) (ws pi : List Nat) (o : Nat) (rest : List Nat)
    (h : randomRotation n ws = .ok (some (pi, o, rest))) :
    pi.length = n ∧ o < n ∧ pi.Perm (List.range n) ∧ ∀ i, i < n → pi[(o + i) % n]? = some i := by
  obtain ⟨_, h1, h2, h3, h4⟩ := randomRotation_spec n ws pi o rest h
  exact ⟨h1, h2, h3, h4⟩

/-- The importer's two loops (every index `< size`; every `i < size` is found) accept exactly
    the bijections on `{0..n-1}`. -/
theorem import_accepts_iff_bijection (idx : List Nat) :
    importIdxOk idx = true ↔ idx.Perm (List.range idx.length) :=
  Stack.importIdxOk_iff idx

/-- Mixing with the glued secret equals mixing twice, and the glued index component is the
    composition of the two (the identity the cut-and-choose prover and verifier rely on),
    for every mask that composes (`mask (mask c a) b = mask c (combine a b)`). -/
theorem mix_glue (maskf : C → S → Except Err C) (maskp : C → S → C) (combine : S → S → S)
    (hpure : ∀ c a, maskf c a = .ok (maskp c a))
    (hlaw : ∀ c a b, maskp (maskp c a) b = maskp c (combine a b))
    (s : List C) (sigma pi : StackSecret S)
    (hls : sigma.length = s.length) (hlp : pi.length = s.length)
    (hsigma : (sigma.map Prod.fst).Perm (List.range s.length))
    (hpi : ∀ e ∈ pi, e.1 < s.length) :
    ∃ g s1, glue combine sigma pi = .ok g ∧ mixStack maskf s sigma = .ok s1 ∧
      mixStack maskf s g = mixStack maskf s1 pi ∧
      g.map Prod.fst = pi.map (fun e => (sigma.map Prod.fst).getD e.1 0) :=
  Stack.mix_glue maskf maskp combine hpure hlaw s sigma pi hls hlp hsigma hpi

/-- A chain of shuffles by several players: the index component of the glued secret of two
    bijections is again a bijection, so by induction any chain opens to a composed permutation. -/
theorem glue_is_bijection (combine : S → S → S) (sigma pi g : StackSecret S)
    (hl : sigma.length = pi.length)
    (hsigma : (sigma.map Prod.fst).Perm (List.range sigma.length))
    (hpi : (pi.map Prod.fst).Perm (List.range pi.length))
    (hg : glue combine sigma pi = .ok g) : (g.map Prod.fst).Perm (List.range g.length) :=
  Stack.glue_perm combine sigma pi g hl hsigma hpi hg

/-- non-vacuity: a concrete 3-card mix with a bijective secret, type = the card itself -/
example : mixStack (fun (c : Nat) (_ : Nat) => Except.ok (ε := Err) c) [10, 20, 30] [(2, 0), (0, 0), (1, 0)]
    = .ok [30, 10, 20] := by decide
example : importIdxOk [2, 0, 1] = true ∧ importIdxOk [2, 0, 0] = false ∧ importIdxOk [3, 0, 1] = false := by decide

end Tmcg.C02
