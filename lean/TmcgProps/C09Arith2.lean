import TmcgProofs.Arith2
/-
  C09, remaining parts — polynomial interpolation, relations of generated primes, conversion between
  the big-number back ends, the big-integer wrapper.  Property theorems only (statements copied from
  TmcgProofs/Arith2.lean, proofs by reference).  Imported by TmcgProps/C09.lean.
-/
namespace Tmcg.C09
open Tmcg Tmcg.Arith2 Tmcg.Arith2P
set_option linter.unusedVariables false
set_option linter.unusedTactic false
set_option linter.unreachableTactic false
set_option linter.unnecessarySeqFocus false

/-- **Interpolation reproduces the interpolated points.**  For a prime modulus `q` and abscissae that
    are pairwise distinct modulo `q` (they need not lie in `[0, q)`), `tmcg_interpolate_polynom`
    returns `true` and the coefficients `f` it stores (one per point, each in `[0, q)`) satisfy
    `Σ_i f_i · a_k^i ≡ b_k (mod q)` for every point `(a_k, b_k)`. -/
theorem interp_reproduces_points (q : Int) (hprime : Nat.Prime q.natAbs) (hq : 0 < q)
    (a b : List Int)
    (hdist : ∀ i j, i < a.length → j < a.length → (getI a i - getI a j) % q = 0 → i = j) :
    ∃ f, interpolate a b q = some f ∧ f.length = a.length ∧
      (∀ i, i < f.length → 0 ≤ getI f i ∧ getI f i < q) ∧
      ∀ k, k < a.length →
        (∑ i ∈ Finset.range f.length, getI f i * getI a k ^ i) % q = getI b k % q  :=
  Arith2P.interp_reproduces_points q hprime hq a b hdist

/-- **Colliding abscissae are refused.**  If two abscissae are congruent modulo the prime `q`, the
    function returns `false` (in the round of the first abscissa that repeats an earlier one the
    product `∏ (a_k - a_i)` is not invertible). -/
theorem interp_collision_refused (q : Int) (hprime : Nat.Prime q.natAbs) (hq : 0 < q)
    (a b : List Int) (i j : Nat) (hij : i < j) (hj : j < a.length)
    (hc : (getI a i - getI a j) % q = 0) :
    interpolate a b q = none  :=
  Arith2P.interp_collision_refused q hprime hq a b i j hij hj hc

/-- the argument check in front of the loops -/
theorem interp_bad_arguments (a b : List Int) (q : Int) (fsize : Nat)
    (h : b.length ≠ a.length ∨ a.length = 0 ∨ fsize ≠ a.length ∨ q = 0) :
    interpolateE a b q fsize = .error .invalidArgument  :=
  Arith2P.interp_bad_arguments a b q fsize h

theorem primeRelOk_safe (fn : GenFn) (hfn : fn ∈ safeFns) (p q k : Int) (psize qsize : Nat)
    (kin : Int) (pp qp : Bool) :
    primeRelOk fn p q k psize qsize kin pp qp = true ↔
      (pp = true ∧ qp = true ∧ 0 < q ∧ p = 2 * q + 1 ∧ qsize ≤ bitlen q ∧ psize ≤ bitlen p)  :=
  Arith2P.primeRelOk_safe fn hfn p q k psize qsize kin pp qp

theorem primeRelOk_safe2g (p q k : Int) (psize qsize : Nat) (kin : Int) (pp qp : Bool) :
    primeRelOk .sprime2g p q k psize qsize kin pp qp = true ↔
      (pp = true ∧ qp = true ∧ 0 < q ∧ p = 2 * q + 1 ∧ qsize ≤ bitlen q ∧ psize ≤ bitlen p ∧
        p % 8 = 7)  :=
  Arith2P.primeRelOk_safe2g p q k psize qsize kin pp qp

theorem primeRelOk_blum (p q k : Int) (psize qsize : Nat) (kin : Int) (pp qp : Bool) :
    primeRelOk .sprime3mod4 p q k psize qsize kin pp qp = true ↔
      (pp = true ∧ 0 < p ∧ p % 4 = 3 ∧ psize ≤ bitlen p)  :=
  Arith2P.primeRelOk_blum p q k psize qsize kin pp qp

theorem primeRelOk_schnorr (p q k : Int) (psize qsize : Nat) (kin : Int) (pp qp : Bool) :
    primeRelOk .lprime p q k psize qsize kin pp qp = true ↔
      (pp = true ∧ qp = true ∧ 0 < p ∧ 0 < q ∧ 0 < k ∧ p = k * q + 1 ∧ Int.gcd k q = 1 ∧
        k % 2 = 0 ∧ psize ≤ bitlen p ∧ qsize ≤ bitlen q)  :=
  Arith2P.primeRelOk_schnorr p q k psize qsize kin pp qp

theorem primeRelOk_prefix (p q k : Int) (psize qsize : Nat) (kin : Int) (pp qp : Bool) :
    primeRelOk .lprimePrefix p q k psize qsize kin pp qp = true ↔
      (pp = true ∧ qp = true ∧ 0 < p ∧ 0 < q ∧ 0 < k ∧ p = k * q + 1 ∧ Int.gcd k q = 1 ∧
        k % 2 = 0 ∧ psize ≤ bitlen p ∧ qsize ≤ bitlen q ∧
        0 < kin ∧ qsize ≤ psize ∧ k = prefixK kin psize qsize)  :=
  Arith2P.primeRelOk_prefix p q k psize qsize kin pp qp

theorem primeRelOk_ordinary (fn : GenFn) (hfn : fn = .oprime ∨ fn = .oprimeNoninc) (p q k : Int)
    (psize qsize : Nat) (kin : Int) (pp qp : Bool) :
    primeRelOk fn p q k psize qsize kin pp qp = true ↔
      (pp = true ∧ 0 < p ∧ p % 2 = 1 ∧ psize ≤ bitlen p)  :=
  Arith2P.primeRelOk_ordinary fn hfn p q k psize qsize kin pp qp

/-- why `tmcg_mpz_sprime2g` insists on `p ≡ 7 (mod 8)`: for a safe prime `p = 2q + 1` of that shape,
    2 is a quadratic residue and generates the subgroup of prime order `q` -/
theorem two_generates (p q : Nat) (hp : p.Prime) (hq : q.Prime) (hpq : p = 2 * q + 1)
    (h8 : p % 8 = 7) : orderOf (2 : ZMod p) = q  :=
  Arith2P.two_generates p q hp hq hpq h8

/-- wherever the conversion model answers, nothing is lost -/
theorem mpiRoundtrip_lossless (v w : Int) (h : mpiRoundtrip v = some w) : w = v  :=
  Arith2P.mpiRoundtrip_lossless v w h

/-- and it answers for every non-negative integer of at most 16368 bits (`TMCG_MAX_KEYBITS - 16`) and
    every negative one of at most 16360 bits -/
theorem mpiRoundtrip_total (v : Int) (h : bitlen v ≤ 16360 ∨ (0 ≤ v ∧ bitlen v ≤ 16368)) :
    mpiRoundtrip v = some v  :=
  Arith2P.mpiRoundtrip_total v h

/-- **One value semantics for both back ends.**  Whenever neither of two modes refuses a call
    (`std::invalid_argument`), the model's outcome is the same; in particular the secure back end
    (mode 1) agrees with the plain one (mode 0) on every call it offers.  The correspondence run
    compares BOTH back ends of the real class with this one model. -/
theorem bigint_backend_independent (m1 m2 : Nat) (op : Op) (a b c : Int)
    (h1 : refused m1 op b = false) (h2 : refused m2 op b = false) :
    bigint m1 op a b c = bigint m2 op a b c  :=
  Arith2P.bigint_backend_independent m1 m2 op a b c h1 h2

theorem bigint_secure_eq_plain (op : Op) (a b c : Int) (h : refused 1 op b = false) :
    bigint 1 op a b c = bigint 0 op a b c  :=
  Arith2P.bigint_secure_eq_plain op a b c h

/-- the calls the secure back end does not offer -/
theorem secure_refuses_iff (op : Op) (b : Int) :
    refused 1 op b = true ↔
      (op ∈ [Op.divUi, .assignSi, .eqUi, .neUi, .eqSi, .neSi, .div2exp, .uiPowUi, .spowm] ∨
        (op = .size ∧ b ≠ 2))  :=
  Arith2P.secure_refuses_iff op b

theorem bigintSeq_backend_independent (m1 m2 : Nat) (a0 : Int) (ops : List (String × Int)) :
    bigintSeq m1 a0 ops = bigintSeq m2 a0 ops :=
  Arith2P.bigintSeq_backend_independent m1 m2 a0 ops

/-- on non-negative operands the wrapper's division and remainder are the mathematical ones
    (quotient rounded down, remainder in `[0, b)`) -/
theorem div_mod_nonneg (a b : Int) (ha : 0 ≤ a) (hb : 0 < b) :
    opValue .div a b 0 = .val (a / b) ∧ opValue .mod a b 0 = .val (a % b) ∧
      0 ≤ a % b ∧ a % b < b ∧ b * (a / b) + a % b = a :=
  Arith2P.div_mod_nonneg a b ha hb

end Tmcg.C09
