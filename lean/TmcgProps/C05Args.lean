import TmcgProofs.ArgsGrothModes
/-
  C05, stack-level verifiers of the rotation and shuffle arguments: a component of either stack that
  is not a group element is refused before any message is exchanged (repairs of findings F37/F38).
  Property theorems only (statements copied by tools/mkprops.py).  Imported by TmcgProps/C05.lean.
-/
namespace Tmcg.C05
open Tmcg Tmcg.Powm Tmcg.Vtmf Tmcg.Grp Tmcg.Sigma Tmcg.SigmaComplete Tmcg.CoinFlip Tmcg.CoinProofs Tmcg.Args
set_option linter.unusedVariables false
set_option linter.unusedSectionVars false

variable {G : Group} [Fact (Nat.Prime G.p.natAbs)] [Fact (Nat.Prime G.q.natAbs)]

/-- C05 at the stack level: a card component of either stack outside the group (not reduced, or not
    of order dividing `q`, e.g. `p - x`) is refused before a single line is read or written -/
theorem hooghVerifyStack_refuses (mode : Mode) (S : State) (s s2 : List Card) (st : St)
    (hout : stacksInGroup S s s2 = false) :
    run (hooghVerifyStack mode S s s2) st = .ok ⟨st.sent, false, false⟩ :=
  Args.hooghVerifyStack_refuses mode S s s2 st hout

theorem grothVerifyStack_refuses (mode : Mode) (P : GrothPub) (s s2 : List Card) (st : St)
    (hout : stacksInGroup P.S s s2 = false) :
    run (grothVerifyStack mode P s s2) st = .ok ⟨st.sent, false, false⟩ :=
  Args.grothVerifyStack_refuses mode P s s2 st hout

end Tmcg.C05
