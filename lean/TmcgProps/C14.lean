import TmcgProps.C14Live
import TmcgProofs.RbcLocal
import TmcgProofs.RbcGlobal
/-
  C14 — Reliable broadcast keeps agreement, integrity and order.  Property theorems only.

  System model (TmcgProofs/RbcGlobal.lean): `n` parties each running the model of
  `CachinKursawePetzoldShoupRBC::Deliver` / `Broadcast` (Tmcg/Model/Rbc.lean); an event is an honest
  party broadcasting, running `Deliver` with nothing arriving, or running `Deliver` while the link
  layer hands over a message which either was sent to it by an honest party earlier (any delay, any
  order, any duplication) or comes from a link of a Byzantine party (ANY message).  `Reach` is the set
  of states reachable by any sequence of such events: every schedule, every Byzantine behaviour
  expressible as message injection/suppression by the parties in `byz`.
  Hypotheses `Hyp`: `3t < n`, at most `t` Byzantine parties, the digest function is injective
  (collision resistance, idealised) and never `0` (see `digest_zero_breaks_agreement`).

  Liveness (validity/totality once every message has been handed over) is NOT proved in Lean; it is
  checked on the real implementation by the harness predicate only: partial.
-/
namespace Tmcg.C14
open Tmcg Tmcg.Rbc

/-- No two honest parties deliver different values for the same sender and slot (any schedule,
    up to `t < n/3` Byzantine parties, FIFO on or off). -/
theorem agreement {H : Int → Int} {T : Tag → Int} {c : Cfg} (hy : Hyp H c) {s : Sys}
    (hr : Reach H T c s) {i i' : Nat} {tag : Tag} {v v' : Int}
    (h : (i, tag, v) ∈ s.dl) (h' : (i', tag, v') ∈ s.dl) : v = v' :=
  rbc_agreement hy hr h h'

/-- No honest party delivers for an honest sender a value it did not broadcast (under that
    channel, sender and slot). -/
theorem integrity {H : Int → Int} {T : Tag → Int} {c : Cfg} (hy : Hyp H c) {s : Sys}
    (hr : Reach H T c s) {i k : Nat} {tag : Tag} {v : Int}
    (h : (i, tag, v) ∈ s.dl) (hk : c.honest k) (hs : tag.sender = (k : Int)) :
    (k, tag, v) ∈ s.bc :=
  rbc_integrity hy hr h hk hs

/-- No honest party delivers a slot twice (both modes; without FIFO order this is what the
    `awaited` bookkeeping of the repaired r-answer handler provides — finding F7). -/
theorem no_duplication {H : Int → Int} {T : Tag → Int} {c : Cfg} (hy : Hyp H c) {s : Sys}
    (hr : Reach H T c s) : (s.dl.map fun d => (d.1, d.2.1)).Nodup :=
  rbc_no_duplication hy hr

/-- The safety theorems speak about real runs: a reachable state of the 4-party system with an
    equivocating Byzantine sender in which all three honest parties have delivered. -/
theorem non_vacuous : ∃ s, Reach Example.exH Example.exT Example.exC s ∧
    (2, (⟨7, 3, 1⟩ : Tag), (100 : Int)) ∈ s.dl :=
  Example.ex_reach

/-- The hypothesis "no payload has digest 0" cannot be dropped: the code represents a missing
    payload by the digest 0; with `H = id` a Byzantine sender makes honest parties deliver 0 and 555
    for the same slot.  (With SHA-256-sized digests the event has probability about 2⁻²⁵⁶.) -/
theorem digest_zero_breaks_agreement :
    (run id HashZero.zT HashZero.zC HashZero.zEvents).map (·.dl) =
      some [(0, ⟨7, 3, 1⟩, 9), (1, ⟨7, 3, 1⟩, 9), (2, ⟨7, 3, 1⟩, 9),
            (0, ⟨7, 3, 2⟩, 0), (1, ⟨7, 3, 2⟩, 0), (2, ⟨7, 3, 2⟩, 555)] :=
  HashZero.hash_zero_breaks_agreement

variable (H : Int → Int) (T : Tag → Int)

/-- What a delivery is, for every party state and input: a message of the CURRENT channel
    (`msg.id = p.ID`: deliveries never cross channels), in FIFO mode with exactly the expected
    sequence number, whose stored payload is the value returned; the expected sequence number of
    that sender advances by one and no other counter moves.  (With the skip heuristic
    `fifo_skip > 0`, off by default, the last clause is false: `delivery_spec_fails_with_skip`.) -/
theorem delivery_spec (p : Party) (pi : List Nat) (inp : Option (Nat × Msg)) (who : Nat) (m : Int)
    (hskip : p.fifo = true → p.fifoSkip = 0)
    (hout : (step H T p pi inp).out = .delivered who m) :
    ∃ msg : Msg, msg.id = p.ID ∧ msg.sender.toNat = who ∧
      (p.fifo = true → msg.seq = p.dS who) ∧
      aGet (step H T p pi inp).party.mbar msg.tag = some m ∧
      (step H T p pi inp).party.deliverS = p.deliverS.set who (p.dS who + 1) :=
  step_delivery_spec' H T p pi inp who m hskip hout

theorem delivery_spec_fails_with_skip :
    ¬ ∀ (H : Int → Int) (T : Tag → Int) (p : Party) (pi : List Nat) (inp : Option (Nat × Msg))
        (who : Nat) (m : Int),
        p.deliverS.length = p.n →
        (step H T p pi inp).out = .delivered who m →
        ∃ msg : Msg, msg.id = p.ID ∧ msg.sender.toNat = who ∧
          (p.fifo = true → msg.seq = p.dS who) ∧
          aGet (step H T p pi inp).party.mbar msg.tag = some m ∧
          (step H T p pi inp).party.deliverS = p.deliverS.set who (p.dS who + 1) :=
  step_delivery_spec_refuted

/-- Deliveries from one sender follow its sending order in FIFO mode: over any run of `Deliver`
    calls of a party (any inputs), the slots delivered for `who` are consecutive, starting at the
    expected one. -/
theorem fifo_order (p : Party) (hfifo : p.fifo = true) (hskip : p.fifoSkip = 0)
    (hlen : p.deliverS.length = p.n)
    (ins : List (List Nat × Option (Nat × Msg))) (who : Nat) (hwho : who < p.n) :
    ((runSteps H T p ins).2.filter (fun d => d.1 = who)).map (fun d => d.2.1)
      = (List.range ((runSteps H T p ins).2.filter (fun d => d.1 = who)).length).map
          (fun k => p.dS who + (k : Int)) :=
  Rbc.fifo_order H T p hfifo hskip hlen ins who hwho

/-- `Deliver` never changes the channel or the configuration. -/
theorem deliver_keeps_channel (p : Party) (pi : List Nat) (inp : Option (Nat × Msg)) :
    let r := step H T p pi inp
    r.party.ID = p.ID ∧ r.party.fifo = p.fifo ∧ r.party.n = p.n ∧ r.party.t = p.t ∧
    r.party.j = p.j ∧ r.party.fifoSkip = p.fifoSkip :=
  step_keeps_config H T p pi inp

/-- The sender-specific call `DeliverFrom` only hands out a value that was queued under the
    current channel identifier (interleaved channel switches never let a delivery cross). -/
theorem deliverFrom_isolation (p : Party) (iIn : Nat) (pi : List Nat) (inp : Option (Nat × Msg))
    (v : Int) (hb : p.bufMpz.length = p.n ∧ p.bufId.length = p.n)
    (hpair : ∀ i, (p.bufMpz.getD i []).length = (p.bufId.getD i []).length)
    (h : (deliverFrom H T p iIn pi inp).value = some v) :
    ∃ k, (p.bufMpz.getD iIn []).getD k 0 = v ∧ (p.bufId.getD iIn []).getD k 0 = p.ID ∧
      k < (p.bufMpz.getD iIn []).length :=
  Rbc.deliverFrom_isolation H T p iIn pi inp v hb hpair h

/-- Entering a nested channel and leaving it restores channel, own sequence number and expected
    sequence numbers. -/
theorem unset_restores (p : Party) (newID : Int) (f f' : Bool) :
    (unsetID (setID p newID f) f').deliverS = p.deliverS ∧
    (unsetID (setID p newID f) f').ID = p.ID ∧ (unsetID (setID p newID f) f').s = p.s :=
  unsetID_setID p newID f f'

end Tmcg.C14
