import TmcgProps.C17Jl
import TmcgProofs.Coin
/-
  C17 — Distributed coin flips are common and bound by commitments.  Property theorems only
  (two-party protocol `JareckiLysyanskayaEDCF::Flip_twoparty`; the multi-party variant over joint
  verifiable secret sharing is not modelled: partial).
-/
namespace Tmcg.C17
open Tmcg Tmcg.Grp Tmcg.CoinFlip Tmcg.CoinProofs

variable {C : Crs}

/-- Both honest participants output the same value, the sum modulo `q` of the two shares, for
    all shares and randomisers; and the I/O trace of each is commitment – peer's commitment –
    opening – peer's opening. -/
theorem flip2_agree (hC : ValidCrs C) [Fact (Nat.Prime (grp C).p.natAbs)] (c0 h0 c1 h1 : Int)
    (hc0 : 0 ≤ c0 ∧ c0 < C.q) (hh0 : 0 ≤ h0 ∧ h0 < C.q)
    (hc1 : 0 ≤ c1 ∧ c1 < C.q) (hh1 : 0 ≤ h1 ∧ h1 < C.q) :
    ∃ C0 C1 o0 o1,
      pedersen C c0 h0 true = .ok C0 ∧ pedersen C c1 h1 true = .ok C1 ∧
      flipTwoParty C c0 h0 [some C1, some c1, some h1] = .ok o0 ∧
      flipTwoParty C c1 h1 [some C0, some c0, some h0] = .ok o1 ∧
      o0.result = some ((c0 + c1) % C.q) ∧ o1.result = some ((c0 + c1) % C.q) ∧
      o0.threw = false ∧ o1.threw = false ∧
      o0.actions = [.send C0, .recv C1, .send c0, .send h0, .recv c1, .recv h1] ∧
      o1.actions = [.send C1, .recv C0, .send c1, .send h1, .recv c0, .recv h0] :=
  CoinProofs.flip2_agree hC c0 h0 c1 h1 hc0 hh0 hc1 hh1

/-- No participant reveals its share before it has received the other participant's commitment:
    for EVERY peer behaviour (any lines, missing or unparsable lines) the trace starts with the
    own commitment, and a later `send` occurs only after a `recv` of a commitment that passed the
    group-membership test. -/
theorem commit_before_reveal (c hc : Int) (peer : List (Option Int)) (o : Outcome)
    (h : flipTwoParty C c hc peer = .ok o) :
    ∃ Ci, pedersen C c hc true = .ok Ci ∧
      (o.actions = [.send Ci, .recvFail] ∧ o.result = none ∨
       (∃ Cj, o.actions = [.send Ci, .recv Cj] ∧ checkElement C Cj = false ∧ o.result = none) ∨
       (∃ Cj rest, o.actions = .send Ci :: .recv Cj :: .send c :: .send hc :: rest ∧
          checkElement C Cj = true ∧ peer.head? = some (some Cj) ∧
          ∀ a ∈ rest, ∀ v, a ≠ .send v)) :=
  CoinProofs.flip2_order c hc peer o h

/-- The first message hides the share perfectly (when `h ≠ 1`): it is consistent with every
    share, so receiving it first gives the peer no handle on the outcome. -/
theorem commitment_hides (hC : ValidCrs C) [Fact (Nat.Prime (grp C).p.natAbs)] (hh : C.h ≠ 1)
    (c hc c' : Int) :
    ∃ hc' : Int, 0 ≤ hc' ∧ hc' < C.q ∧ com C c' hc' = com C c hc :=
  CoinProofs.pedersen_hiding hC hh c hc c'

/-- Exact acceptance condition of the two-party protocol: a coin is returned iff the peer sent a
    group element and then an in-range opening of exactly that element; the coin is the sum. -/
theorem accept_iff (c hc : Int) (peer : List (Option Int)) (o : Outcome) (v : Int)
    (h : flipTwoParty C c hc peer = .ok o) :
    o.result = some v ↔
      ∃ Cj aj haj rest, peer = some Cj :: some aj :: some haj :: rest ∧
        checkElement C Cj = true ∧ aj.natAbs < C.q.natAbs ∧ haj.natAbs < C.q.natAbs ∧
        pedersen C aj haj true = .ok (Cj % C.p) ∧ v = (c + aj) % C.q :=
  CoinProofs.flip2_accept_iff c hc peer o v h

/-- An opening that does not match the earlier commitment leads to rejection. -/
theorem bad_opening_rejected (hC : ValidCrs C) [Fact (Nat.Prime (grp C).p.natAbs)]
    (c hc Cj aj haj : Int) (rest : List (Option Int)) (o : Outcome)
    (h : flipTwoParty C c hc (some Cj :: some aj :: some haj :: rest) = .ok o)
    (hbad : toF (grp C) Cj ≠ com C aj haj) :
    o.result = none :=
  CoinProofs.flip2_bad_opening_rejected hC c hc Cj aj haj rest o h hbad

/-- Binding: two accepted openings of one commitment with different shares yield `log_g h`;
    a peer cannot choose between two shares after seeing the honest one unless it knows it. -/
theorem commitment_binds (hC : ValidCrs C) [Fact (Nat.Prime (grp C).p.natAbs)] (a b a' b' : Int)
    (heq : com C a b = com C a' b') (hne : ¬ (a ≡ a' [ZMOD C.q])) :
    ¬ (b ≡ b' [ZMOD C.q]) ∧
    ∃ x : Int, 0 ≤ x ∧ x < C.q ∧ (x * (b' - b) ≡ a - a' [ZMOD C.q]) ∧
      toF (grp C) C.g ^ x = toF (grp C) C.h :=
  CoinProofs.pedersen_binding hC a b a' b' heq hne

end Tmcg.C17
