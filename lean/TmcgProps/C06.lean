import TmcgProps.C06Gen
import TmcgProofs.GroupCheck
/-
  C06 — Parameter validation accepts exactly well-formed groups.  Property theorems only;
  one model function per family of CheckGroup copies (docs/checkgroup_survey.md).
-/
namespace Tmcg.C06
open Tmcg Tmcg.GroupCheck

variable (fsize gsize : Nat) (prime : Int → Bool) (H : Hash) (fuel : Nat)

theorem checkGroup_D_iff (hpr : PrimeOracleOk prime) (P : Params) :
    checkGroup (.D false) fsize gsize prime H fuel P = .ok true ↔
      PrefixOk fsize gsize prime P.p P.q P.k ∧ GenOk P.g P.p P.q :=
  GroupCheck.checkGroup_D_iff fsize gsize prime H fuel hpr P

theorem checkGroup_D_canonical_iff (hpr : PrimeOracleOk prime) (P : Params) :
    checkGroup (.D true) fsize gsize prime H fuel P = .ok true ↔
      PrefixOk fsize gsize prime P.p P.q P.k ∧ GenOk P.g P.p P.q ∧
      ggen H P.p P.q P.k fuel (ggenStart P.p P.q) = .ok P.g :=
  GroupCheck.checkGroup_D_canonical_iff fsize gsize prime H fuel hpr P

theorem checkGroup_G_iff (hpr : PrimeOracleOk prime) (P : Params) (cls : Cls) (hc : cls = .G ∨ cls = .R false) :
    checkGroup cls fsize gsize prime H fuel P = .ok true ↔
      PrefixOk fsize gsize prime P.p P.q (Int.fdiv (P.p - 1) P.q) ∧
      GenOk P.h P.p P.q ∧ GenOk P.g P.p P.q ∧ P.g ≠ P.h :=
  GroupCheck.checkGroup_G_iff fsize gsize prime H fuel hpr P cls hc

theorem checkGroup_R_canonical_iff (hpr : PrimeOracleOk prime) (P : Params) (cls : Cls) (hc : cls = .PVSS ∨ cls = .R true) :
    checkGroup cls fsize gsize prime H fuel P = .ok true ↔
      PrefixOk fsize gsize prime P.p P.q (Int.fdiv (P.p - 1) P.q) ∧
      GenOk P.h P.p P.q ∧ GenOk P.g P.p P.q ∧ P.g ≠ P.h ∧
      ggen H P.p P.q (Int.fdiv (P.p - 1) P.q) fuel (ggenStart P.p P.q) = .ok P.g :=
  GroupCheck.checkGroup_R_canonical_iff fsize gsize prime H fuel hpr P cls hc

theorem checkGroup_NP_iff (hpr : PrimeOracleOk prime) (P : Params) :
    checkGroup .NP fsize gsize prime H fuel P = .ok true ↔
      PrefixOk fsize gsize prime P.p P.q (Int.fdiv (P.p - 1) P.q) ∧ GenOk P.g P.p P.q :=
  GroupCheck.checkGroup_NP_iff fsize gsize prime H fuel hpr P

theorem checkGroup_PT_iff (hpr : PrimeOracleOk prime) (P : Params) :
    checkGroup .PT fsize gsize prime H fuel P = .ok true ↔
      PrefixOk fsize gsize prime P.p P.q P.k ∧ GenOk P.g P.p P.q ∧ GenOk P.h P.p P.q ∧ P.g ≠ P.h :=
  GroupCheck.checkGroup_PT_iff fsize gsize prime H fuel hpr P

theorem checkGroup_P_iff (hpr : PrimeOracleOk prime) (P : Params) :
    checkGroup .P fsize gsize prime H fuel P = .ok true ↔
      PrefixOk fsize gsize prime P.p P.q P.k ∧ GenOk P.h P.p P.q ∧
      (∀ x ∈ P.gs, GenOk x P.p P.q ∧ x ≠ P.h) ∧ P.gs.Nodup :=
  GroupCheck.checkGroup_P_iff fsize gsize prime H fuel hpr P

theorem checkGroup_QR_iff (hpr : PrimeOracleOk prime) (P : Params) (esize : Nat) :
    checkGroup (.QR esize) fsize gsize prime H fuel P = .ok true ↔
      fsize ≤ bitlen P.p ∧ gsize ≤ bitlen P.q ∧ P.p = 2 * P.q + 1 ∧ prime P.p = true ∧ prime P.q = true ∧
      P.p % 8 = 7 ∧ 1 < P.g ∧ P.g < P.p - 1 ∧ jacobi P.g P.p.natAbs = 1 ∧ esize ≤ bitlen P.p ∧
      P.g = (2 : Int) ^ (2 ^ (bitlen P.p - esize)) % P.p :=
  GroupCheck.checkGroup_QR_iff fsize gsize prime H fuel hpr P esize

theorem checkGroup_D_sound (hpr : PrimeOracleOk prime)
    (hprime : ∀ x, prime x = true → Nat.Prime x.natAbs) (P : Params) (canonical : Bool)
    (hfit : bitlen P.q ≤ Gen.TMCG_MAX_FPOWM_T)
    (h : checkGroup (.D canonical) fsize gsize prime H fuel P = .ok true) :
    Grp.ValidGroup ⟨P.p, P.q, P.g⟩ :=
  GroupCheck.checkGroup_D_sound fsize gsize prime H fuel hpr hprime P canonical hfit h

theorem checkElement_iff (p q a : Int) (hp : 1 < p) (hq : 0 < q) :
    checkElement false p q a = .ok true ↔ 0 < a ∧ a < p ∧ a ^ q.natAbs % p = 1 :=
  GroupCheck.checkElement_iff p q a hp hq

theorem checkElement_eq_sigma (G : Vtmf.Group) (a : Int) (hp : 1 < G.p) (hq : 0 < G.q) :
    checkElement false G.p G.q a = .ok (Sigma.checkElement .schnorr G a) :=
  GroupCheck.checkElement_eq_sigma G a hp hq

/-- non-vacuity: p = 23, q = 11, k = 2, g = 2 is accepted by the class-D check with a correct
    primality oracle; a generator of the wrong order is refused -/
example : checkGroup (.D false) 5 4 (fun x => x == 23 || x == 11) (fun _ => 0) 1 ⟨23, 11, 2, 2, 0, []⟩ = .ok true ∧
    checkGroup (.D false) 5 4 (fun x => x == 23 || x == 11) (fun _ => 0) 1 ⟨23, 11, 2, 5, 0, []⟩ = .ok false := by
  decide

end Tmcg.C06
