import TmcgProps.C15Key
import TmcgProps.C15Cgjkr
import TmcgProofs.DkgAgree
import TmcgProofs.DkgRunAgree
import TmcgProofs.DkgRun
import TmcgProofs.Dkg
import TmcgProofs.DkgSteps
import TmcgProofs.DkgLagrange
import TmcgProofs.DkgArith
/-
  C15 — Secret sharing and distributed key generation are consistent.  Property theorems only
  (statements copied from TmcgProofs/Dkg*.lean by tools/mkprops.py, proofs by reference).

  Model (Tmcg/Model/Dkg.lean): PedersenVSS::Share/Reconstruct and
  GennaroJareckiKrawczykRabinDKG::Generate as synchronous rounds over n parties; every party has
  its coin lists and a deviation script (`PartyIn`); `honestIdx ins` = parties with the empty
  script; the reliable broadcast is a consistent per-sender FIFO (property C14).  `runGen G n t ins`
  is the whole key generation.  Agreement theorems quantify over ALL scripts of the other parties.
  Not covered: share refresh (CanettiGennaroJareckiKrawczykRabinASTC) — partial.
-/
namespace Tmcg.C15
open Tmcg Tmcg.Powm Tmcg.Vtmf Tmcg.Grp Tmcg.Dkg Tmcg.DkgP Tmcg.DkgL
set_option linter.unusedVariables false

variable {G : Dkg.Grp} [Fact (Nat.Prime G.p.natAbs)] [Fact (Nat.Prime G.q.natAbs)]
variable {q : Int} [Fact (Nat.Prime q.natAbs)]
set_option linter.unusedSectionVars false

/-- all honest parties compute the same set QUAL (for ALL scripts of the other parties).

    Statement of `qual_agree` (TmcgProofs/Dkg.lean) plus `n < 2^64`: without the bound the statement
    is FALSE in the model, because `mpz_get_ui` truncates the end marker `n` of a complaint list to
    `n mod 2^64 < n`, which is then read as a complaint (see the report at the end of the file). -/
theorem qual_agree' (hG : ValidGrp G) (n t : Nat) (ins : List PartyIn) (hn : ins.length = n) (ht : 2 * t < n)
    (hn64 : n < 2 ^ 64)
    (hf : n - (honestIdx ins).length ≤ t)
    (hc : ∀ i ∈ honestIdx ins, goodCoins G t (ins.getD i ⟨[], [], {}, {}⟩))
    (i j : Nat) (hi : i ∈ honestIdx ins) (hj : j ∈ honestIdx ins) (Pi Pj : Party GenSt)
    (hPi : (runGen G n t ins)[i]? = some Pi) (hPj : (runGen G n t ins)[j]? = some Pj) :
    Pi.st.qual = Pj.st.qual :=
  DkgP.qual_agree' hG n t ins hn ht hn64 hf hc i j hi hj Pi Pj hPi hPj

/-- honest parties are never disqualified (statement of `honest_in_qual` plus `n < 2^64`, see
    `qual_agree'`) -/
theorem honest_in_qual' (hG : ValidGrp G) (n t : Nat) (ins : List PartyIn) (hn : ins.length = n) (ht : 2 * t < n)
    (hn64 : n < 2 ^ 64)
    (hf : n - (honestIdx ins).length ≤ t)
    (hc : ∀ i ∈ honestIdx ins, goodCoins G t (ins.getD i ⟨[], [], {}, {}⟩))
    (i j : Nat) (hi : i ∈ honestIdx ins) (hj : j ∈ honestIdx ins) (Pi : Party GenSt)
    (hPi : (runGen G n t ins)[i]? = some Pi) :
    j ∈ Pi.st.qual :=
  DkgP.honest_in_qual' hG n t ins hn ht hn64 hf hc i j hi hj Pi hPi

/-- "each honest party's share matches the public verification values" for whole runs: an honest
    party that finished `Generate` with `true` and without any reconstruction (`racc = []`) holds a
    share `x_i` with `g^{x_i} = v_i` — the first test of `CheckKey()` succeeds -/
theorem share_matches_vk_run (hG : ValidGrp G) (n t : Nat) (ins : List PartyIn) (hn : ins.length = n)
    (ht : 2 * t < n) (hn64 : n < 2 ^ 64) (hf : n - (honestIdx ins).length ≤ t)
    (hc : ∀ i ∈ honestIdx ins, goodCoins G t (ins.getD i ⟨[], [], {}, {}⟩))
    (i : Nat) (hi : i ∈ honestIdx ins) (Pi : Party GenSt)
    (hPi : (runGen G n t ins)[i]? = some Pi) (hret : Pi.status = .ret true) (hracc : Pi.st.racc = []) :
    ∃ r, fspowm G.tabG G.g Pi.st.x G.p = .ok r ∧ r = getI Pi.st.vi i :=
  DkgP.share_matches_vk_run hG n t ins hn ht hn64 hf hc i hi Pi hPi hret hracc

/-- under the same hypotheses `CheckKey()` returns `true` -/
theorem checkKey_run (hG : ValidGrp G) (n t : Nat) (ins : List PartyIn) (hn : ins.length = n)
    (ht : 2 * t < n) (hn64 : n < 2 ^ 64) (hf : n - (honestIdx ins).length ≤ t)
    (hc : ∀ i ∈ honestIdx ins, goodCoins G t (ins.getD i ⟨[], [], {}, {}⟩))
    (i : Nat) (hi : i ∈ honestIdx ins) (Pi : Party GenSt)
    (hPi : (runGen G n t ins)[i]? = some Pi) (hret : Pi.status = .ret true) (hracc : Pi.st.racc = []) :
    genCheckKey G Pi.st = .ok true :=
  DkgP.checkKey_run hG n t ins hn ht hn64 hf hc i hi Pi hPi hret hracc

/-- equation (2) of PedersenVSS / (4) of the DKG holds for the shares of an honest dealer: the left
    side the receiver computes from `(f(x), f'(x))` equals the right side it computes from the
    dealer's commitments -/
theorem share_check (hG : ValidGrp G) (a b : List Int) (hlen : a.length = b.length)
    (ha : ∀ c ∈ a, 0 ≤ c ∧ c < G.q) (hb : ∀ c ∈ b, 0 ≤ c ∧ c < G.q) (C : List Int)
    (hC : commitList G a b = .ok C) (x : Nat) :
    ∃ ga l r, pedS G (evalShare G.q a x) (evalShare G.q b x) = .ok (ga, l) ∧
      commitProd G.p x C = .ok r ∧ l = r :=
  DkgP.share_check hG a b hlen ha hb C hC x

/-- conversely: a pair `(s, s')` in range passes the check against the commitments of `(a, b)` iff
    `g^s h^s' = g^f(x) h^f'(x)` -/
theorem share_check_iff (hG : ValidGrp G) (a b : List Int) (hlen : a.length = b.length)
    (ha : ∀ c ∈ a, 0 ≤ c ∧ c < G.q) (hb : ∀ c ∈ b, 0 ≤ c ∧ c < G.q) (C : List Int)
    (hC : commitList G a b = .ok C) (x : Nat) (s s' : Int)
    (hs : s.natAbs < G.q.natAbs) (hs' : s'.natAbs < G.q.natAbs) :
    ∃ l r, pedF G s s' = .ok l ∧ commitProd G.p x C = .ok r ∧
      (l = r ↔ cp G G.g ^ s * cp G G.h ^ s' =
        cp G G.g ^ (evalShare G.q a x) * cp G G.h ^ (evalShare G.q b x)) :=
  DkgP.share_check_iff hG a b hlen ha hb C hC x s s' hs hs'

/-- equation (5): `g^f(x) = ∏ (g^a_k)^(x^k)` for the Feldman commitments `gaList` -/
theorem feldman_check (hG : ValidGrp G) (a : List Int)
    (ha : ∀ c ∈ a, 0 ≤ c ∧ c < G.q) (ga : List Int) (hga : gaList G a = .ok ga) (x : Nat) :
    ∃ l r, fspowm G.tabG G.g (evalShare G.q a x) G.p = .ok l ∧ commitProd G.p x ga = .ok r ∧ l = r :=
  DkgP.feldman_check hG a ha ga hga x

/-- the reconstruction loop: for shares lying on a polynomial of degree `< |parties|` the result is
    its value at 0 -/
theorem lagrange0_val (hq : 0 < q) (parties : List Nat) (hp : GoodParties q parties)
    (f : Polynomial (ZMod q.natAbs)) (hf : f.degree < parties.length) (share : Nat → Int)
    (hs : ∀ j ∈ parties, ((share j : Int) : ZMod q.natAbs) = f.eval (pt q j)) :
    ∃ v, lagrange0 q parties share = some v ∧ 0 ≤ v ∧ v < q ∧
      ((v : Int) : ZMod q.natAbs) = f.eval 0 :=
  DkgL.lagrange0_val hq parties hp f hf share hs

/-- any two admissible party sets reconstruct the same value from shares of one polynomial -/
theorem lagrange0_unique (hq : 0 < q) (P1 P2 : List Nat) (h1 : GoodParties q P1) (h2 : GoodParties q P2)
    (f : Polynomial (ZMod q.natAbs)) (hf1 : f.degree < P1.length) (hf2 : f.degree < P2.length)
    (share : Nat → Int)
    (hs1 : ∀ j ∈ P1, ((share j : Int) : ZMod q.natAbs) = f.eval (pt q j))
    (hs2 : ∀ j ∈ P2, ((share j : Int) : ZMod q.natAbs) = f.eval (pt q j)) :
    ∃ v, lagrange0 q P1 share = some v ∧ lagrange0 q P2 share = some v :=
  DkgL.lagrange0_unique hq P1 P2 h1 h2 f hf1 hf2 share hs1 hs2

/-- `tmcg_interpolate_polynom` on the points `(j+1, share j)`: the coefficient list (reduced mod q,
    lowest first, one entry per point) of the polynomial of degree `< |parties|` through them -/
theorem interpolatePolynom_val (hq : 0 < q) (parties : List Nat) (hp : GoodParties q parties)
    (hne : parties ≠ [])
    (f : Polynomial (ZMod q.natAbs)) (hf : f.degree < parties.length) (share : Nat → Int)
    (hs : ∀ j ∈ parties, ((share j : Int) : ZMod q.natAbs) = f.eval (pt q j)) :
    ∃ c, interpolatePolynom q (parties.map (fun (j : Nat) => ((j : Int) + 1))) (parties.map share) = some c ∧
      c.length = parties.length ∧
      (∀ k, k < c.length → 0 ≤ c.getD k 0 ∧ c.getD k 0 < q ∧
        ((c.getD k 0 : Int) : ZMod q.natAbs) = f.coeff k) :=
  DkgL.interpolatePolynom_val hq parties hp hne f hf share hs

/-- "for dealer-based sharing: the dealer's secret, which reconstruction also returns": Lagrange
    reconstruction (`PedersenVSS::Reconstruct`) from ANY `t+1` distinct parties' shares of an honest
    dealer with coefficients `a = [σ, a_1, …, a_t]` returns `σ mod q` -/
theorem vss_reconstruct_honest (hG : ValidGrp G) (a : List Int) (parties : List Nat)
    (hp : GoodParties G.q parties) (hlen : parties.length = a.length) (hne : a ≠ []) :
    lagrange0 G.q parties (fun j => evalShare G.q a (j + 1)) = some (a.headD 0 % G.q) :=
  DkgP.vss_reconstruct_honest hG a parties hp hlen hne

/-- "any t+1 honest shares interpolate to one and the same secret whose public image is that key":
    for dealer polynomials `f_j` (`j ∈ QUAL`) of degree `≤ t`, shares `x_i = Σ_j f_j(i+1)` of any
    `t+1` distinct parties interpolate to `x = Σ_j f_j(0)`, and `g^x = ∏_j g^{f_j(0)}`, which is `y`
    when the published `A_j0` are `g^{f_j(0)}` -/
theorem interpolate_secret (hG : ValidGrp G) (qual : List Nat) (t : Nat)
    (f : Nat → Polynomial (ZMod G.q.natAbs)) (hf : ∀ j ∈ qual, (f j).degree < (t + 1 : Nat))
    (parties : List Nat) (hp : GoodParties G.q parties) (hlen : parties.length = t + 1)
    (x : Nat → Int)
    (hx : ∀ i ∈ parties, ((x i : Int) : ZMod G.q.natAbs) = (qual.map (fun j => (f j).eval (pt G.q i))).sum)
    (z : Nat → Int) (hz : ∀ j ∈ qual, ((z j : Int) : ZMod G.q.natAbs) = (f j).eval 0) :
    ∃ v, lagrange0 G.q parties x = some v ∧
      ((v : Int) : ZMod G.q.natAbs) = (qual.map (fun j => (f j).eval 0)).sum ∧
      cp G G.g ^ v = (qual.map (fun j => cp G G.g ^ (z j))).prod :=
  DkgP.interpolate_secret hG qual t f hf parties hp hlen x hx z hz

/-- the secret does not depend on which `t+1` parties reconstruct -/
theorem interpolate_secret_unique (hG : ValidGrp G) (qual : List Nat) (t : Nat)
    (f : Nat → Polynomial (ZMod G.q.natAbs)) (hf : ∀ j ∈ qual, (f j).degree < (t + 1 : Nat))
    (P1 P2 : List Nat) (h1 : GoodParties G.q P1) (h2 : GoodParties G.q P2)
    (hl1 : P1.length = t + 1) (hl2 : P2.length = t + 1) (x : Nat → Int)
    (hx1 : ∀ i ∈ P1, ((x i : Int) : ZMod G.q.natAbs) = (qual.map (fun j => (f j).eval (pt G.q i))).sum)
    (hx2 : ∀ i ∈ P2, ((x i : Int) : ZMod G.q.natAbs) = (qual.map (fun j => (f j).eval (pt G.q i))).sum) :
    ∃ v, lagrange0 G.q P1 x = some v ∧ lagrange0 G.q P2 x = some v :=
  DkgP.interpolate_secret_unique hG qual t f hf P1 P2 h1 h2 hl1 hl2 x hx1 hx2

/-- "each honest party's share matches the public verification values": if equation (5) holds for
    the share party `i` holds from every dealer in QUAL, then `g^{x_i} = v_i` — the first test of
    `CheckKey()` succeeds -/
theorem share_matches_vk (hG : ValidGrp G) (qual : List Nat) (A : List (List Int)) (s : List Int) (i : Nat)
    (hA : ∀ j ∈ qual, ∀ c ∈ getRow A j, cp G c ≠ 0)
    (h5 : ∀ j ∈ qual, cp G G.g ^ (getI s j) = powProdFrom (i + 1) 0 ((getRow A j).map (cp G))) :
    ∃ v r, viOf G qual A i = .ok v ∧ fspowm G.tabG G.g (sumMod G.q s qual) G.p = .ok r ∧ r = v :=
  DkgP.share_matches_vk hG qual A s i hA h5

theorem checkKey_of_checks (hG : ValidGrp G) (st : GenSt)
    (hgs : gaList G st.s = .ok st.gs)
    (hs : ∀ j ∈ st.qual, (getI st.s j).natAbs < G.q.natAbs) (hslen : ∀ j ∈ st.qual, j < st.s.length)
    (hA : ∀ j ∈ st.qual, (∀ c ∈ getRow st.A j, Dkg.checkElement G c = true) ∧
      commitProd G.p (st.i + 1) (getRow st.A j) = .ok (getI st.gs j))
    (hx : st.x = sumMod G.q st.s st.qual) :
    ∃ v r, viOf G st.qual st.A st.i = .ok v ∧ fspowm G.tabG G.g st.x G.p = .ok r ∧ r = v :=
  DkgP.checkKey_of_checks hG st hgs hs hslen hA hx

/-- soundness of the receiver's check, first step: a pair in range that does not open the received
    commitments (all of them group elements) makes the receiver broadcast a complaint against the
    dealer — "a dealer who hands out shares inconsistent with its commitments" is complained about -/
theorem vssRecv1_complains (hG : ValidGrp G) (st : VssSt) (I : Inbox) (A : List Int) (σ τ : Int)
    (hAlen : A.length = st.t + 1) (hAel : ∀ c ∈ A, Dkg.checkElement G c = true)
    (hσ : σ.natAbs < G.q.natAbs) (hτ : τ.natAbs < G.q.natAbs) (hsfb : st.sfb = false)
    (hI : honestDealerInbox st.n st.dealer A σ τ I)
    (hbad : cp G G.g ^ σ * cp G G.h ^ τ ≠ powProdFrom (st.i + 1) 0 (A.map (cp G))) :
    ∃ st' I', vssRecv1 G st I =
      .ok (st', I', [Op.bc none (st.dealer : Int), Op.bc none (st.n : Int)], .run) ∧ st'.cc = 1 :=
  DkgP.vssRecv1_complains hG st I A σ τ hAlen hAel hσ hτ hsfb hI hbad

/-- completeness of `Share` (receiver, first step): the commitments and the share of an honest
    dealer raise no complaint; the receiver stores the share and broadcasts only the end marker -/
theorem vssRecv1_honest_dealer (hG : ValidGrp G) (st : VssSt) (I : Inbox) (a b A : List Int)
    (hlen : a.length = st.t + 1) (hlenb : b.length = st.t + 1)
    (ha : ∀ c ∈ a, 0 ≤ c ∧ c < G.q) (hb : ∀ c ∈ b, 0 ≤ c ∧ c < G.q)
    (hA : commitList G a b = .ok A) (hsfb : st.sfb = false)
    (hI : honestDealerInbox st.n st.dealer A (evalShare G.q a (st.i + 1)) (evalShare G.q b (st.i + 1)) I) :
    ∃ st' I', vssRecv1 G st I = .ok (st', I', [Op.bc none (st.n : Int)], .run) ∧
      st'.sigma_i = evalShare G.q a (st.i + 1) ∧ st'.tau_i = evalShare G.q b (st.i + 1) ∧
      st'.A = A ∧ st'.cc = 0 :=
  DkgP.vssRecv1_honest_dealer hG st I a b A hlen hlenb ha hb hA hsfb hI

theorem genCheck4_sound (G : Dkg.Grp) (st : GenSt) (C : List (List Int)) (s sp : List Int)
    (idx : List Nat) (gs : List Int) (cm : List Nat) (gs' : List Int) (cm' : List Nat)
    (h : genCheck4 G st C s sp idx gs cm = .ok (gs', cm')) :
    (∀ j ∈ cm, j ∈ cm') ∧
    ∀ j ∈ idx, j ∉ cm' → Eq4S G st.i (getRow C j) (getI s j) (getI sp j) :=
  DkgP.genCheck4_sound G st C s sp idx gs cm gs' cm' h

theorem genReadAnswers_sound (G : Dkg.Grp) (st : GenSt) (j : Nat) (f : Nat) (I : Inbox) (s sp : List Int)
    (cm : List Nat) (I' : Inbox) (s' sp' : List Int) (cm' : List Nat)
    (hlen : s.length = sp.length)
    (h : genReadAnswers G st j f I s sp cm = .ok (I', s', sp', cm')) (hj : j ∉ cm') :
    (getI s' j = getI s j ∧ getI sp' j = getI sp j) ∨
    Eq4F G st.i (getRow st.C j) (getI s' j) (getI sp' j) :=
  DkgP.genReadAnswers_sound G st j f I s sp cm I' s' sp' cm' hlen h hj

/-- if dealer `j` answered the complaint of party `i` (the reader) and its answers do not disqualify
    it, the share the reader holds from `j` afterwards satisfies equation (4) -/
theorem genReadAnswers_answered (G : Dkg.Grp) (st : GenSt) (j : Nat) (f : Nat) (I : Inbox) (s sp : List Int)
    (cm : List Nat) (I' : Inbox) (s' sp' : List Int) (cm' : List Nat)
    (hlen : s.length = sp.length) (hjlen : j < s.length)
    (h : genReadAnswers G st j f I s sp cm = .ok (I', s', sp', cm')) (hj : j ∉ cm')
    (hans : st.i ∈ answeredOf st.n j f I []) :
    Eq4F G st.i (getRow st.C j) (getI s' j) (getI sp' j) :=
  DkgP.genReadAnswers_answered G st j f I s sp cm I' s' sp' cm' hlen hjlen h hj hans

/-- **step 1(d), repaired code**: for every dealer `j ≠ i` in QUAL that party `i` complained about in
    step 1(b) (`i ∈ complainers[j]`), the share `i` holds from `j` after step 1(d) satisfies (4) -/
theorem genResolveGo_share_valid (G : Dkg.Grp) (st : GenSt) (idx : List Nat) (hnd : idx.Nodup)
    (I : Inbox) (s sp : List Int) (cm : List Nat) (I' : Inbox) (s' sp' : List Int) (cm' : List Nat)
    (hlen : s.length = sp.length)
    (h : genResolveGo G st idx I s sp cm = .ok (I', s', sp', cm'))
    (j : Nat) (hjidx : j ∈ idx) (hji : j ≠ st.i) (hjlen : j < s.length) (hj : j ∉ cm')
    (hcompl : st.i ∈ st.complainers.getD j []) :
    Eq4F G st.i (getRow st.C j) (getI s' j) (getI sp' j) :=
  DkgP.genResolveGo_share_valid G st idx hnd I s sp cm I' s' sp' cm' hlen h j hjidx hji hjlen hj hcompl

/-- QUAL is the complement of the complaints collected in steps 1(b)-(d) -/
theorem genResolve_qual (G : Dkg.Grp) (st : GenSt) (I : Inbox) (st' : GenSt) (I' : Inbox) (ops : List Op)
    (status : Status) (h : genResolve G st I = .ok (st', I', ops, status)) :
    ∃ I1 s sp cm, genResolveGo G st (List.range st.n) I st.s st.sp st.compl = .ok (I1, s, sp, cm) ∧
      st'.qual = (List.range st.n).filter (fun j => !cm.contains j) ∧ st'.s = s ∧ st'.sp = sp :=
  DkgP.genResolve_qual G st I st' I' ops status h

theorem mkGrp_valid {p q g h : Int} {G : Dkg.Grp} (hm : mkGrp p q g h = .ok G)
    (hg : ValidGroup ⟨p, q, g⟩) (hh : ValidGroup ⟨p, q, h⟩) : ValidGrp G :=
  DkgP.mkGrp_valid hm hg hh

end Tmcg.C15
